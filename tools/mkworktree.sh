#!/bin/sh
# usage: mkworktree.sh <dir>  -- scratch git worktree of /repo HEAD with the generated build files, configured for its own path
set -e
d="$1"
git -C /repo worktree add -q --detach "$d" HEAD
rsync -a --exclude .git /repo/ "$d"/
git -C "$d" checkout -q -- .   # tracked files as in HEAD even if /repo had a seeded change applied while the copy ran
cd "$d" && sed -i "s#/repo#$d#g" config.status libtool && ./config.status >/dev/null 2>&1 && make clean >/dev/null 2>&1 && make -j16 >/dev/null 2>&1
echo "worktree ready: $d"
