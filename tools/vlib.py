"""Shared machinery of ./check: translator call, Coq build, Print Assumptions parsing,
harness builds, parallel schedule runs, evidence and violation reporting."""
import os, sys, re, json, time, subprocess, hashlib, fcntl, random, glob, shutil
from concurrent.futures import ThreadPoolExecutor

VERIF = os.path.dirname(os.path.dirname(os.path.abspath(__file__)))
REPO = os.environ.get('VERIF_REPO', '/repo')
COQ = os.path.join(VERIF, 'coq')
BUILD = os.path.join(VERIF, 'build')
HARN = os.path.join(VERIF, 'harness')
OCAML = os.path.join(VERIF, 'ocaml')
NPROC = int(os.environ.get('VERIF_JOBS', '16'))
ALLOWED_AXIOMS = set()   # stdlib axioms a theorem may depend on; none are expected

FORBIDDEN = re.compile(r'\b(Admitted|admit|Axiom|Parameter|Conjecture|Admit Obligations|bypass_check)\b|Unset Guard|Unset Positivity|Unset Universe|type-in-type|impredicative-set')

def sh(cmd, timeout=600, cwd=None, env=None, inp=None):
    try:
        r = subprocess.run(cmd, shell=isinstance(cmd, str), cwd=cwd, env=env, input=inp,
                           capture_output=True, text=True, timeout=timeout, errors='replace')
        return r.returncode, r.stdout, r.stderr
    except subprocess.TimeoutExpired as e:
        return 124, (e.stdout or b'').decode(errors='replace') if isinstance(e.stdout, bytes) else (e.stdout or ''), 'TIMEOUT'

class Lock:
    def __init__(self, name):
        os.makedirs(BUILD, exist_ok=True)
        self.f = open(os.path.join(BUILD, '.' + name + '.lock'), 'w')
    def __enter__(self):
        fcntl.flock(self.f, fcntl.LOCK_EX); return self
    def __exit__(self, *a):
        fcntl.flock(self.f, fcntl.LOCK_UN); self.f.close()

def source_hash(files):
    h = hashlib.sha256()
    for f in files:
        p = os.path.join(REPO, f)
        try: h.update(open(p, 'rb').read())
        except OSError: h.update(b'<missing:' + f.encode() + b'>')
    return h.hexdigest()[:16]

class Failure:
    """One reason the property is not shown to hold on this run."""
    def __init__(self, kind, what, detail='', concrete=None):
        self.kind = kind          # translator | proof | assumptions | forbidden | correspondence | oracle | harness
        self.what = what          # name of the theorem / correspondence / oracle
        self.detail = detail
        self.concrete = concrete  # a failing input / schedule / history on the implementation (dict) or None

class Ctx:
    def __init__(self, pid, tier, seed):
        self.pid, self.tier, self.seed = pid, tier, seed
        self.t0 = time.time()
        self.failures = []
        self.cov = {'evaluations': 0, 'distinct_nontrivial': 0, 'samples': [], 'traces_validated_against_impl': 0,
                    'obligations': 0, 'discharged': 0, 'theorems': [], 'axioms': {}, 'input_distribution': {}}
        self.assumptions = []
        self.notes = []
        self.rng = random.Random(seed)
        os.makedirs(BUILD, exist_ok=True)
    def fail(self, kind, what, detail='', concrete=None):
        self.failures.append(Failure(kind, what, detail, concrete))
    def quick(self): return self.tier == 'quick'

# ---------------------------------------------------------------- translator + Coq
def regen_constants(ctx):
    """Re-extract constants from /repo's working tree into coq/Gen/Generated.v (only rewritten when the text changes)."""
    out = os.path.join(COQ, 'Gen', 'Generated.v')
    os.makedirs(os.path.dirname(out), exist_ok=True)
    rc, so, se = sh([sys.executable, os.path.join(VERIF, 'tools', 'gen_constants.py'), out + '.new'], timeout=300)
    if rc != 0:
        ctx.fail('translator', 'gen_constants.py', (so + se)[-1500:])
        return False
    new = open(out + '.new').read()
    old = open(out).read() if os.path.exists(out) else None
    if new != old: os.replace(out + '.new', out)
    else: os.remove(out + '.new')
    m = re.search(r'digest (\w+)', new); ctx.cov['constants_digest'] = m.group(1) if m else ''
    return True

def gen_const(name, default=None):
    """value of a constant the translator extracted from /repo's working tree (coq/Gen/Generated.v)"""
    try:
        m = re.search(r'^Definition %s : N := (\d+)\.' % re.escape(name), open(os.path.join(COQ, 'Gen', 'Generated.v')).read(), flags=re.M)
        return int(m.group(1)) if m else default
    except OSError: return default

def coq_makefile():
    mk = os.path.join(COQ, 'Makefile')
    cp = os.path.join(COQ, '_CoqProject')
    files = sorted(os.path.relpath(f, COQ) for f in glob.glob(os.path.join(COQ, '**', '*.v'), recursive=True)
                   if os.sep + 'Extract' + os.sep not in f)
    gen = os.path.join('Gen', 'Generated.v')
    if gen not in files: files.append(gen)
    txt = '-R . Urcu\n' + '\n'.join(files) + '\n'
    if not os.path.exists(cp) or open(cp).read() != txt:
        open(cp, 'w').write(txt)
    if not os.path.exists(mk) or os.path.getmtime(mk) < os.path.getmtime(cp):
        sh('coq_makefile -f _CoqProject -o Makefile', cwd=COQ)

def grep_forbidden(ctx):
    bad = []
    for f in glob.glob(os.path.join(COQ, '**', '*.v'), recursive=True):
        txt = re.sub(r'\(\*.*?\*\)', '', open(f).read(), flags=re.S)
        for m in FORBIDDEN.finditer(txt):
            bad.append('%s: %s' % (os.path.relpath(f, COQ), m.group(0)))
    if bad: ctx.fail('forbidden', 'forbidden construct in the development', '; '.join(bad[:10]))
    return not bad

def prove(ctx, propfile=None):
    """Translator, full .vo build of everything Properties_<id>.v needs, then compile that file
    capturing Print Assumptions.  Returns True when every theorem is discharged and closed."""
    pid = ctx.pid
    propfile = propfile or 'Properties/Properties_%s.v' % pid
    ok = True
    with Lock('coq'):
        if not regen_constants(ctx): ok = False
        coq_makefile()
        grep_forbidden(ctx)
        vo = propfile[:-2] + '.vo'
        t = time.time()
        # dependencies first (full .vo), keep going so that the failing file is named
        rc, so, se = sh('timeout 3000 make -k -j%d %s' % (NPROC, vo), cwd=COQ, timeout=3100)
        ctx.cov['coq_build_s'] = round(time.time() - t, 1)
        src = open(os.path.join(COQ, propfile)).read()
        thms = re.findall(r'^\s*(?:Theorem|Corollary)\s+(\w+)', src, flags=re.M)
        ctx.cov['theorems'] = thms
        ctx.cov['obligations'] = len(thms)
        if rc != 0:
            ok = False
            m = re.findall(r'File "\./([^"]+)", line (\d+)[^\n]*\n(?:[^\n]*\n){0,2}?Error:?([^\n]*(?:\n[^\n]+){0,3})', so + se)
            broken = sorted(set(x[0] for x in m)) or ['(see log)']
            ctx.fail('proof', 'Coq build failed in ' + ', '.join(broken), (so + se)[-2500:])
            # which theorems are still checked: those whose file compiled is unknown here; count none
            ctx.cov['discharged'] = 0
            return False
        # re-run coqc on the property file itself to capture Print Assumptions (cheap: exact + Print only)
        rc, so, se = sh('timeout 900 coqc -q -R . Urcu %s' % propfile, cwd=COQ, timeout=1000)
        if rc != 0:
            ctx.fail('proof', propfile, (so + se)[-2000:]); ctx.cov['discharged'] = 0; return False
        closed = so.count('Closed under the global context')
        axblocks = re.findall(r'^Axioms:\n((?:.+\n?)*?)(?=\n\S|\Z)', so, flags=re.M)
        axioms = sorted(set(re.findall(r'^(\w[\w.\']*)\s*:', '\n'.join(axblocks), flags=re.M)))
        nprint = len(re.findall(r'^Print Assumptions', src, flags=re.M))
        ctx.cov['print_assumptions'] = nprint
        ctx.cov['closed_under_global_context'] = closed
        ctx.cov['axioms_listed'] = axioms
        if nprint < len(thms):
            ok = False; ctx.fail('assumptions', propfile, 'a theorem has no Print Assumptions')
        extra = [a for a in axioms if a not in ALLOWED_AXIOMS]
        if extra or closed + len(axblocks) != nprint:
            ok = False; ctx.fail('assumptions', propfile, 'axioms: %s; closed %d + axiom blocks %d of %d' % (extra, closed, len(axblocks), nprint))
        ctx.cov['discharged'] = len(thms) if ok else 0
        # thorough tier: independent re-check of the compiled property file and everything it depends on
        if ok and not ctx.quick():
            t = time.time()
            mod = 'Urcu.' + propfile[:-2].replace('/', '.')
            rc, so, se = sh('timeout 1500 coqchk -o -silent -R . Urcu %s' % mod, cwd=COQ, timeout=1600)
            ctx.cov['coqchk_s'] = round(time.time() - t, 1)
            summ = (so + se)
            m = re.search(r'\* Axioms:(.*?)\n\s*\n', summ, flags=re.S)
            ctx.cov['coqchk_axioms'] = ' '.join(m.group(1).split()) if m else '?'
            bad = rc != 0 or not m or '<none>' not in m.group(1) or any(('relying on %s: <none>' % w) not in ' '.join(summ.split()) for w in ('type-in-type', 'unsafe (co)fixpoints')) or 'positivity is assumed: <none>' not in ' '.join(summ.split())
            if bad:
                ok = False; ctx.fail('assumptions', 'coqchk ' + mod, summ[-1500:]); ctx.cov['discharged'] = 0
    return ok

# ---------------------------------------------------------------- harness builds
CFLAGS = ['-O1', '-g', '-w', '-DURCU_VERIF', '-I' + os.path.join(REPO, 'include'), '-I' + os.path.join(REPO, 'src'), '-iquote', HARN, '-include', os.path.join(REPO, 'include', 'config.h')]     # config.h first, as in the library's own build (AM_CPPFLAGS)

def build_scenario(ctx, name, src, extra_src=(), defs=(), hooks=True, out=None, cflags=None, libs=('-lpthread',), cc='gcc', plain=False):
    """Compile a harness translation unit (which #includes the real sources from /repo's working tree)."""
    out = out or os.path.join(BUILD, name)
    if plain:       # plain stores of the scenario translation unit become visible to the scheduler: compile it alone with the sanitizer's instrumentation, link without its runtime
        obj = out + '.o'
        rc, so, se = sh([cc] + (cflags or CFLAGS) + list(defs) + ['-fsanitize=thread', '-include', os.path.join(HARN, 'verif_hooks.h'), '-c', os.path.join(HARN, src), '-o', obj], timeout=300)
        if rc == 0:
            rc, so, se = sh([cc] + (cflags or CFLAGS) + list(defs) + ['-include', os.path.join(HARN, 'verif_hooks.h'), obj] + [s if os.path.isabs(s) else os.path.join(HARN, s) for s in extra_src] +
                            [os.path.join(HARN, 'sched.c'), os.path.join(HARN, 'plain_hooks.c'), '-o', out] + list(libs), timeout=300)
        if rc != 0:
            ctx.fail('harness', 'build of %s against the working tree' % name, (so + se)[-2000:]); return None
        return out
    cmd = [cc] + (cflags or CFLAGS) + list(defs)
    if hooks: cmd += ['-include', os.path.join(HARN, 'verif_hooks.h')]
    cmd += [os.path.join(HARN, src)] + [s if os.path.isabs(s) else os.path.join(HARN, s) for s in extra_src]
    if hooks: cmd += [os.path.join(HARN, 'sched.c')]
    cmd += ['-o', out] + list(libs)
    rc, so, se = sh(cmd, timeout=300)
    if rc != 0:
        ctx.fail('harness', 'build of %s against the working tree' % name, (so + se)[-2000:])
        return None
    return out

def build_model_driver(ctx, name, extract_v, driver_ml):
    """Extract the executable model (ExtrOcamlBasic only) and link it with its OCaml driver."""
    d = os.path.join(BUILD, 'ocaml_' + name); os.makedirs(d, exist_ok=True)
    with Lock('coq'):
        rc, so, se = sh('timeout 600 coqc -q -R %s Urcu %s' % (COQ, os.path.join(COQ, 'Extract', extract_v)), cwd=d, timeout=700)
    if rc != 0:
        ctx.fail('proof', 'extraction ' + extract_v, (so + se)[-1500:]); return None
    shutil.copy(os.path.join(OCAML, driver_ml), os.path.join(d, driver_ml))
    mods = sorted(glob.glob(os.path.join(d, '*_model.ml')))
    mod = os.path.basename(mods[0])[:-3]
    rc, so, se = sh('ocamlfind ocamlopt -w -a %s.mli %s.ml %s -o driver' % (mod, mod, driver_ml), cwd=d, timeout=300)
    if rc != 0:
        ctx.fail('harness', 'ocaml build of ' + driver_ml, (so + se)[-1500:]); return None
    return os.path.join(d, 'driver')

def run_many(cmds, timeout=10):
    """Run many short commands in parallel; returns list of (rc, stdout)."""
    def one(c):
        try:
            r = subprocess.run(c, capture_output=True, text=True, timeout=timeout, stdin=subprocess.DEVNULL, errors='replace')
            return r.returncode, r.stdout
        except subprocess.TimeoutExpired as e:
            o = e.stdout.decode(errors='replace') if isinstance(e.stdout, bytes) else (e.stdout or '')
            return 124, o + '\nTIMEOUT\n'
    with ThreadPoolExecutor(max_workers=NPROC) as ex:
        return list(ex.map(one, cmds))

# ---------------------------------------------------------------- schedules
def bursty(rng, threads, lo=40, hi=200, flush=0.0, means=(1, 2, 5, 15), tail=120, spurious=0.0):
    """Bursty random schedule over thread ids '0'..; flush letters with probability `flush`."""
    s = []; mean = rng.choice(means); n = rng.randint(lo, hi)
    while len(s) < n:
        t = rng.choice(threads)
        k = 1 + int(rng.expovariate(1.0 / mean))
        for _ in range(k):
            r = rng.random()
            if r < flush: s.append(chr(ord('a') + int(rng.choice(threads))))
            elif r < flush + spurious: s.append(chr(ord('A') + int(rng.choice(threads))))
            else: s.append(t)
    return ''.join(s)

def parking(threads, point, k, victim, flushmode=0):
    """victim runs `point` steps, every other thread runs k*60 steps (round robin), then the victim resumes."""
    others = [t for t in threads if t != victim]
    s = victim * point
    for _ in range(k * 60):
        for o in others:
            s += o
            if flushmode == 1: s += chr(ord('a') + int(o))
    return s

def parking_ops(threads, victim, p1, k1, p2=0, k2=0, runner=None):
    """op-level parking (uses the '>t' token): victim runs p1 steps; every other thread (or `runner`) completes k1 whole operations;
    victim runs p2 more steps; the others complete k2 more operations."""
    others = [runner] if runner else [t for t in threads if t != victim]
    vf = victim + chr(ord('a') + int(victim))       # step, then flush the victim's oldest buffered store (eager)
    s = vf * p1
    for _ in range(k1): s += ''.join('>' + o for o in others)
    s += vf * p2
    for _ in range(k2): s += ''.join('>' + o for o in others)
    return s

def parking_fine(victim, other, p1, w1, p2):
    """two threads, fine double parking: victim p1 steps, other w1 steps (partial operation), victim p2 steps, other completes its
    operation (or blocks), then the default completion; every step is followed by a flush of the stepping thread's oldest store"""
    vf = victim + chr(ord('a') + int(victim)); of = other + chr(ord('a') + int(other))
    return vf * p1 + of * w1 + vf * p2 + '>' + other + '>' + other

# ---------------------------------------------------------------- reporting
def known_findings(pid):
    out = []
    p = os.path.join(VERIF, 'known_findings.txt')
    if os.path.exists(p):
        for l in open(p):
            l = l.strip()
            if l.startswith('finding:') and ('property=%s ' % pid) in l + ' ':
                m = re.search(r'match=(\S+)', l)
                out.append((m.group(1) if m else None, l))
    return out

def finish(ctx, level='proof', trusted=None, rule='', explanation=''):
    os.makedirs(os.path.join(VERIF, 'evidence'), exist_ok=True)
    os.makedirs(os.path.join(VERIF, 'replays'), exist_ok=True)
    wall = round(time.time() - ctx.t0, 2)
    # known findings: a failure whose concrete replay matches a listed finding is reported as KNOWN-FINDING
    kf = known_findings(ctx.pid)
    remaining = []
    for f in ctx.failures:
        matched = False
        for key, line in kf:
            if key and f.concrete and key in json.dumps(f.concrete):
                print('KNOWN-FINDING: property=%s %s' % (ctx.pid, line.split(' ', 2)[-1])); matched = True; break
        if not matched: remaining.append(f)
    cov = ctx.cov
    cov['rule'] = rule
    cov['checker_cmd'] = 'coq_makefile -f coq/_CoqProject; make (full .vo); coqc Properties/Properties_%s.v (Print Assumptions parsed)' % ctx.pid
    cov['trusted_base'] = trusted or []
    if explanation: cov['explanation'] = explanation
    cov['samples'] = cov['samples'][:6] or ['(none)']
    ev = {'property_id': ctx.pid, 'tier': ctx.tier, 'seed': ctx.seed, 'level': level, 'coverage': cov,
          'assumptions': ctx.assumptions, 'wall_s': wall, 'violations': len(remaining), 'notes': ctx.notes}
    json.dump(ev, open(os.path.join(VERIF, 'evidence', ctx.pid + '.json'), 'w'), indent=1, default=str)
    if not remaining:
        print('OK property=%s tier=%s obligations=%d discharged=%d evaluations=%d distinct=%d wall=%.1fs' % (
            ctx.pid, ctx.tier, cov['obligations'], cov['discharged'], cov['evaluations'], cov['distinct_nontrivial'], wall))
        return 0
    concrete = [f for f in remaining if f.concrete]
    rp = os.path.join(VERIF, 'replays', '%s-%s-%d.json' % (ctx.pid, ctx.tier, int(time.time())))
    json.dump({'property': ctx.pid, 'seed': ctx.seed, 'tier': ctx.tier,
               'failing_input': concrete[0].concrete if concrete else None,
               'no_longer_checks': [{'kind': f.kind, 'what': f.what, 'detail': f.detail[-3000:]} for f in remaining]},
              open(rp, 'w'), indent=1, default=str)
    for f in remaining:
        print('  failed: [%s] %s' % (f.kind, f.what));
        if f.detail: print('    ' + f.detail[-600:].replace('\n', '\n    '))
    print('VIOLATION property=%s replay=%s%s' % (ctx.pid, rp, '' if concrete else ' no-failing-input-found'))
    return 1

# ---------------------------------------------------------------- lock-step correspondence
def corr_schedules(ctx, what, impl, model, cases, canon, oracle=None, nontrivial=None, tail='', scenario='', timeout=10):
    """cases: list of (prog, schedule).  Runs implementation and extracted model on each, compares canonical traces
    line by line, runs the oracle on every implementation trace.  Updates ctx coverage; records failures."""
    ri = run_many([[impl, p, s + tail] for p, s in cases], timeout=timeout)
    rm = run_many([[model, p, s + tail] for p, s in cases], timeout=timeout) if model else None
    distinct = set(); ndis = 0; nor = 0
    for k, (p, s) in enumerate(cases):
        raw = ri[k][1]; cl = canon(raw); key = (p, tuple(cl))
        nt = nontrivial(cl) if nontrivial else True
        if nt: distinct.add(key)
        if nt and len(ctx.cov['samples']) < 3: ctx.cov['samples'].append({'scenario': scenario, 'prog': p, 'schedule': s[:80], 'trace_head': cl[:12]})
        abnormal = [w for w in ('DEADLOCK', 'STEP LIMIT', 'ABORT', 'BUG ', 'TIMEOUT') if w in raw]
        o = ('abnormal run (%s): %s' % (abnormal[0], raw[-300:])) if abnormal else (oracle(p, s, cl, raw) if oracle else None)
        if o:
            nor += 1
            if nor <= 3: ctx.fail('oracle', what + ' oracle', o, concrete={'scenario': scenario, 'prog': p, 'schedule': s + tail, 'verdict': o, 'trace_tail': cl[-40:]})
        if rm is not None:
            ml = rm[k][1].splitlines()
            if cl != ml:
                ndis += 1
                if ndis <= 2:
                    d = next((j for j, (a, b) in enumerate(zip(cl, ml)) if a != b), min(len(cl), len(ml)))
                    ctx.fail('correspondence', what + ' (step-by-step trace equality)',
                             'scenario %s prog %s schedule %s...: first difference at step %d: impl "%s" model "%s"' % (
                                 scenario, p, s[:60], d, cl[d] if d < len(cl) else '<end>', ml[d] if d < len(ml) else '<end>'))
    c = ctx.cov
    c['evaluations'] += len(cases); c['distinct_nontrivial'] += len(distinct)
    c['traces_validated_against_impl'] += (len(cases) - ndis) if rm is not None else 0
    c['disagreements'] = c.get('disagreements', 0) + ndis
    c['oracle_violations'] = c.get('oracle_violations', 0) + nor
    c['input_distribution'].setdefault(scenario or what, {'cases': 0, 'schedule_len_avg': 0})
    d = c['input_distribution'][scenario or what]; d['cases'] += len(cases)
    d['schedule_len_avg'] = round(sum(len(s) for _, s in cases) / max(1, len(cases)), 1)
    d['flush_choices'] = sum(sum(1 for ch in s if ch.islower()) for _, s in cases)
    return ndis, nor

def corpus(pid):
    out = []
    cp = os.path.join(VERIF, 'corpus', pid + '.txt')
    if os.path.exists(cp):
        for l in open(cp):
            l = l.split('#')[0].split()
            if len(l) == 2: out.append((l[0], l[1]))
            elif len(l) == 3: out.append((l[0], l[1], l[2]))
    return out
