#!/usr/bin/env python3
"""Writes MANIFEST.json from tools/claims.json (one entry per claimed property) and properties.jsonl."""
import json, os
V = os.path.dirname(os.path.dirname(os.path.abspath(__file__)))
claims = json.load(open(os.path.join(V, 'tools', 'claims.json')))
ids = [json.loads(l)['id'] for l in open(os.path.join(V, 'properties.jsonl'))]
checks = []
for pid in ids:
    c = claims['claimed'].get(pid)
    if not c: continue
    checks.append({'property_id': pid, 'quick_cmd': './check %s --tier quick' % pid, 'thorough_cmd': './check %s --tier thorough' % pid,
                   'evidence_file': 'evidence/%s.json' % pid, 'replay_cmd_template': './check %s --replay {path}' % pid,
                   'engine': 'coq+correspondence', 'technique': c['technique'],
                   'level_claimed': {'category': 'proof', 'text': c['text'], 'design_ref': c['design_ref']}, 'level_note': c['note']})
na = [{'property_id': pid, 'reason': claims['not_applicable'].get(pid, 'not yet claimed: model and proof exist in scratch form, check not yet wired')} for pid in ids if pid not in claims['claimed']]
m = {'version': 1, 'setup_cmd': 'python3 tools/setup.py',
     'hooks': {'guard': 'URCU_VERIF', 'enable': 'harness translation units are compiled with -DURCU_VERIF and -include harness/verif_hooks.h; they #include the sources of /repo\'s working tree',
               'baseline_off_cmd': 'cd /repo && make -j8 >/dev/null && make -k check', 'source_commits': claims.get('hook_commits', []), 'add_only': True},
     'engines': [{'name': 'coq+correspondence', 'path': 'check', 'serves_properties': list(claims['claimed'].keys()),
                  'kind_free_text': 'Coq 8.16 proofs over executable models (coq/), translator tools/gen_constants.py, lock-step trace correspondence of the extracted models with the real code under a controlled scheduler (harness/), oracles for the failing-input search'}],
     'checks': checks, 'not_applicable': na,
     'notes': 'See DESIGN.md. known_findings.txt lists repaired defects (fixed:) and recorded ones (finding:).'}
json.dump(m, open(os.path.join(V, 'MANIFEST.json'), 'w'), indent=1)
print('claimed', len(checks), 'not claimed', len(na))
