"""Shared by C03/C04: call_rcu scenario on the real code, projection onto CallRcuExec actions, oracles."""
import re
import oracles
from vlib import *
import gp_common as G
OBJ = 32
def oid(v):
    m = re.match(r'&?O\+(\d+)$', v); return int(m.group(1)) // OBJ if m and int(m.group(1)) % OBJ == 0 else None

def project(raw, napp):
    ev = G.events(raw)
    out = ['T ' + ' '.join(str(i) for i in range(napp))]
    helper_of = {}            # helper thread -> crd index
    libthreads = set(p[0] for p in ev if p[1] == 'start')
    phase = {}                # crd index -> idle | spliced | syncing
    depth = {}; moving = {}
    for p in ev:
        t, k = p[0], p[1]; loc = p[2] if len(p) > 2 else ''
        m = re.match(r'crd(\d+)\+(\d+)$', loc)
        if m and t in libthreads and t not in helper_of: helper_of[t] = int(m.group(1))
        if k == 'xchg' and m and m.group(2) == '0':
            K = int(m.group(1)); v = p[3][2:]
            if v == '&crd%d+8' % K:                       # splice of K's queue (source tail exchange)
                if t in libthreads and helper_of.get(t) == K:
                    if phase.get(K) == 'syncing': out.append('E %d' % K)
                    out.append('P %d' % K); phase[K] = 'spliced'
                else: moving[t] = K                        # call_rcu_data_free: the destination is the next tail exchange of this thread
            elif t in moving and moving[t] != K:
                src = moving.pop(t)
                if phase.get(src) == 'syncing': out.append('E %d' % src)    # its last batch held only internal (invisible) callbacks
                phase[src] = 'idle'
                out.append('M %d %d' % (src, K))   # leftovers appended to helper K's queue (the default helper)
            else:
                i = oid(v)
                if i is not None: out.append('C %d %d' % (K, i))
        elif k == 'xchg' and loc == 'waiters+0' and t in helper_of and phase.get(helper_of[t]) == 'spliced':
            out.append('Y %d' % helper_of[t]); phase[helper_of[t]] = 'syncing'
        elif k == 'call' and p[2] == 'cb' and t in helper_of:
            K = helper_of[t]
            if phase.get(K) == 'syncing': out.append('E %d' % K); phase[K] = 'invoking'
            out.append('I %d %s' % (K, p[3]))
        elif k == 'ret' and p[2] == 'lock' and t not in libthreads:
            depth[t] = depth.get(t, 0) + 1
            if depth[t] == 1: out.append('L %s' % t)
        elif k == 'call' and p[2] == 'unlock' and t not in libthreads:
            if depth.get(t, 0) == 1: out.append('U %s' % t)
            depth[t] = depth.get(t, 0) - 1
    out.append('.')
    return out

def enqueuer_order(raw):
    """program order of the enqueuing side of the helper handshake (Futex/CrFutex.v: enqueue ; barrier ; look at the futex word ; [store 0 ; wake]): inside call_rcu() the
    helper's futex word is only looked at after the tail exchange that enqueues the callback"""
    fw = set(m.group(1) for m in re.finditer(r'^\d+ (?:futex_wait|futex_wake|dec) (\S+)', raw, flags=re.M))
    inop = {}
    for l in raw.splitlines():
        p = l.split()
        if len(p) < 3 or not p[0].isdigit(): continue
        t, k = p[0], p[1]
        if k == 'call' and p[2] == 'call_rcu': inop[t] = False
        elif k == 'ret' and p[2] == 'call_rcu': inop.pop(t, None)
        elif t in inop and k == 'xchg': inop[t] = True
        elif t in inop and k == 'load' and p[2] in fw and not inop[t]:
            return 'thread %s looks at the helper\'s futex word %s inside call_rcu() before it has enqueued its callback: a helper that goes to sleep between that look and the enqueue is not woken' % (t, p[2])
    return None

def completion_put_last(raw):
    """program order assumed by Futex/Completion.v (part 1): each holder's drop of its reference to a completion object (the decrement of cmpN+8) is its LAST access to that object (a helper thread may run several markers of one barrier, each with its own reference: the next marker starts with the countdown decrement)"""
    dropped = set()
    for l in raw.splitlines():
        p = l.split()
        if len(p) < 3 or not p[0].isdigit(): continue
        t, k, loc = p[0], p[1], p[2]
        m = re.match(r'(cmp\d+)\+(\d+)$', loc)
        if not m or k in ('flush',): continue
        if (t, m.group(1)) in dropped:
            if k == 'addret' and m.group(2) == '0': dropped.discard((t, m.group(1)))      # the same thread runs another marker of that barrier (handed over from a destroyed helper): a reference of its own
            else: return 'thread %s accesses %s after it has dropped its reference to that completion object (the reference must be dropped last: the object may be released by then)' % (t, loc)
        if k == 'addret' and m.group(2) == '8' and p[3] == 'v=-1': dropped.add((t, m.group(1)))
    return None

def oracle(prog, s, cl, raw):
    ev = G.events(raw)
    m = re.search(r'^(\d+) UAF (\S+)', raw, flags=re.M)
    if m: return ('thread %s accessed %s: the completion object of an rcu_barrier() after its last reference was dropped and it was released' if m.group(2).startswith('cmp') else 'thread %s accessed %s: a call_rcu_data structure that had already been released (helper freed under a caller that had selected it)') % (m.group(1), m.group(2))
    if 'DEADLOCK' in raw: return 'stuck state: an application thread is blocked for ever (rcu_barrier / call_rcu_data_free never returns)'
    if 'STEP LIMIT' in raw: return 'live-lock: step limit reached'
    so = oracles.sleeper_order(raw) or oracles.waker_order(raw) or enqueuer_order(raw) or completion_put_last(raw)
    if so: return so
    callidx, retcall, cbcall, cbret = {}, {}, {}, {}
    sections = []; open_ = {}; depth = {}; bars = []; bo = {}
    for i, p in enumerate(ev):
        t, k = p[0], p[1]
        if k == 'call' and p[2] == 'call_rcu': callidx[p[3]] = i
        elif k == 'ret' and p[2] == 'call_rcu': retcall[p[3]] = i
        elif k == 'call' and p[2] == 'cb':
            if p[3] in cbcall: return 'callback of object %s invoked twice' % p[3]
            cbcall[p[3]] = i
        elif k == 'ret' and p[2] == 'cb': cbret[p[3]] = i
        elif k == 'ret' and p[2] == 'lock':
            depth[t] = depth.get(t, 0) + 1
            if depth[t] == 1: open_[t] = i
        elif k == 'call' and p[2] == 'unlock':
            if depth.get(t, 0) == 1 and t in open_: sections.append((t, open_.pop(t), i))
            depth[t] = depth.get(t, 0) - 1
        elif k == 'call' and p[2] == 'barrier': bo[t] = i
        elif k == 'ret' and p[2] == 'barrier' and t in bo: bars.append((t, bo.pop(t), i))
    for t, a in open_.items(): sections.append((t, a, 10 ** 9))
    for o, j in cbcall.items():
        if o not in callidx: return 'callback of object %s invoked but never queued' % o
        for (t, a, b) in sections:
            if a < callidx[o] and j < b:
                return 'callback of object %s invoked at step %d while reader %s is still inside the section it entered at step %d, before call_rcu() was called at step %d' % (o, j, t, a, callidx[o])
    for (t, c, r) in bars:
        for o, rc in retcall.items():
            if rc < c and not (o in cbret and cbret[o] < r):
                return 'rcu_barrier() of thread %s (called at step %d) returned at step %d before the callback of object %s (queued by step %d) finished' % (t, c, r, o, rc)
    # at the end every queued callback has run exactly once
    if 'QUIESCENT' in raw or re.search(r'^- ran', raw, flags=re.M):
        for m in re.finditer(r'^- ran (\d+) (\d+)', raw, flags=re.M):
            o, n = m.group(1), int(m.group(2))
            if o in retcall and n != 1: return 'callback of object %s ran %d times by the end of the run' % (o, n)
    return None

def build(ctx, name='scen_callrcu', defs=()):
    return build_scenario(ctx, name, 'scen_callrcu.c', extra_src=G.SRCS, defs=G.DEFS + list(defs))

def handshake_cases(ctx):
    """futex handshakes of call_rcu / rcu_barrier with a helper that is created during the run (its thread id is the first one after the application threads, so a
    sweep that parks it by step count from the start of the run never reaches it):
    (1) the caller takes k steps (the helper is created somewhere in there), the helper takes j steps and is frozen - in particular between its look at the queue and its
        announcement that it is going to sleep -, the caller completes call_rcu(), the helper goes on: the callback must be invoked without any further API call;
    (2) the same at the helper's second and later looks at the queue (first callback completely processed before the second call_rcu());
    (3) rcu_barrier(): the caller frozen k steps into the barrier - between its look at the countdown and its announcement that it is going to sleep - while the helper runs the
        marker to completion: the barrier must return;
    (4) see below."""
    out = []
    q = ctx.quick()
    for k in (list(range(8, 26)) + list(range(26, 70, 3))) if q else range(8, 70):      # every point of call_rcu() itself, coarser inside the helper creation that follows for later calls
        for j in range(0, 64, 2 if q else 1):      # up to and beyond the helper's first FUTEX_WAIT (about 46 of its steps)
            out.append(('C0', '0a' * k + '1b' * j + '>0' + '1b' * 300))
    for j in range(0, 200, 2 if q else 1):
        out.append(('C0C1', '>0' + '1b' * j + '>0' + '1b' * 300))
        out.append(('C0C1/()', '>0' + '2c' * j + '>0' + '2c' * 300))
    # (4) the window right behind a FUTEX_WAKE of the helper ('@h': the helper runs up to and including its next wake-up call): the barrier caller, asleep on the completion
    #     word, is woken and re-checks the word at once, before the helper takes another step
    for k in (120, 160, 200, 260):
        out.append(('C0B', '>0' + '0a' * k + '@1' + '0a' * 40 + '1b' * 300 + '0a' * 100))
        out.append(('C0B/()', '>0' + '0a' * k + '@2' + '0a' * 40 + '2c' * 300 + '0a' * 100))
    # (5) the completion object of rcu_barrier() is reference-counted: the caller frozen around its look at the countdown, the helper frozen j steps into the marker
    #     callback (in particular between the decrement that brings the countdown to zero and its wake-up path), the caller runs to completion - it may drop its
    #     reference but the object must survive until the helper has dropped its own (released objects are quarantined: a later access is reported)
    for k in range(4, 44, 2 if q else 1):
        for j in range(16, 90, 2 if q else 1):
            out.append(('C0B', '>0' + '0a' * k + '1b' * j + '>0' + '1b' * 300))
    for k in range(0, 110, 1):
        for pre in ((150, 40) if q else (150, 60, 40, 25)):
            out.append(('C0B', '>0' + '1b' * pre + '0a' * k + '1b' * 300 + '>0'))
    return out

def run_scen(ctx, progs, n, pid, driver, extra_cases=()):
    impl = build(ctx)
    if not impl: return
    cases = [c for c in corpus(pid) if len(c) == 2] + list(extra_cases)
    for prog in progs[:3 if ctx.quick() else len(progs)]:
        th = [str(i) for i in range(prog.count('/') + 1)]
        allth = th + [str(len(th) + i) for i in range(2)]      # helper threads get the next ids
        for v in allth:
            for point in range(1, 40 if ctx.quick() else 90, 1 if not ctx.quick() else 2):
                cases.append((prog, parking(allth, point, 1, v, 1)))
                if v in th: cases.append((prog, parking_ops(allth, v, point, 1, 2, 1)))
    while len(cases) < n:
        prog = ctx.rng.choice(progs); th = [str(i) for i in range(prog.count('/') + 3)]
        cases.append((prog, bursty(ctx.rng, th, lo=60, hi=600, flush=ctx.rng.choice([0.05, 0.2, 0.4]), means=(1, 3, 10, 30, 80), spurious=ctx.rng.choice([0.0, 0.02]))))
    tail = ''.join(chr(ord('a') + i) + str(i) for i in range(8)) * 600
    rs = run_many([[impl, p, s + tail] for p, s in cases], timeout=30)
    nor = 0; blocks = []; distinct = set()
    for (p, s), (rc, raw) in zip(cases, rs):
        o = oracle(p, s, None, raw)
        if 'BUG ' in raw or 'ABORT' in raw or 'TIMEOUT' in raw: o = 'abnormal run: ' + raw[-300:]
        if o:
            nor += 1
            if nor <= 3: ctx.fail('oracle', 'call_rcu oracle', o, concrete={'scenario': 'scen_callrcu', 'prog': p, 'schedule': s + tail, 'verdict': o})
        blocks += project(raw, p.count('/') + 1)
        if 'futex_wait crd' in raw or 'sleep' in raw: distinct.add(hash(raw))
        if len(ctx.cov['samples']) < 3: ctx.cov['samples'].append({'scenario': 'scen_callrcu', 'prog': p, 'schedule': s[:80]})
    ctx.cov['evaluations'] += len(cases); ctx.cov['distinct_nontrivial'] += len(distinct)
    ctx.cov['oracle_violations'] = ctx.cov.get('oracle_violations', 0) + nor
    if driver:
        rc, out, err = sh([driver], inp='\n'.join(blocks) + '\n', timeout=600)
        res = out.splitlines(); nrej = 0; nact = 0
        if len(res) != len(cases): ctx.fail('harness', 'callrcu_driver output', 'expected %d verdicts, got %d: %s' % (len(cases), len(res), err[-300:]))
        else:
            for (p, s), r in zip(cases, res):
                if r.startswith('ok'): nact += int(r.split()[1])
                else:
                    nrej += 1
                    if nrej <= 2: ctx.fail('correspondence', 'CallRcuExec accepts the trace of urcu-call-rcu-impl.h', 'prog %s schedule %s...: the model does not accept the implementation trace: %s' % (p, s[:60], r))
            ctx.cov['traces_validated_against_impl'] += len(cases) - nrej
            ctx.cov['model_actions_checked'] = ctx.cov.get('model_actions_checked', 0) + nact
            ctx.cov['disagreements'] = ctx.cov.get('disagreements', 0) + nrej
