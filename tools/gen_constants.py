#!/usr/bin/env python3
"""Translator: extract constants, flag bits, enum values and tables from /repo's working tree by compiling
probes that #include the anchored files, and write them as Coq definitions (coq/Gen/Generated.v)."""
import subprocess, sys, os, hashlib, tempfile
REPO=os.environ.get('VERIF_REPO','/repo')
PROBES=[
 # (name, translation unit body, list of (coq_name, c_expr, kind))
 ('urcu', '#define RCU_MEMBARRIER\n#include "%s/src/urcu.c"\n'%REPO, [
   ('gp_ctr_phase','URCU_GP_CTR_PHASE','N'), ('gp_ctr_nest_mask','URCU_GP_CTR_NEST_MASK','N'), ('gp_count','URCU_GP_COUNT','N'),
   ('rcu_qs_active_attempts','RCU_QS_ACTIVE_ATTEMPTS','N'), ('urcu_wait_attempts','URCU_WAIT_ATTEMPTS','N'),
   ('wait_waiting','URCU_WAIT_WAITING','N'), ('wait_wakeup','URCU_WAIT_WAKEUP','N'), ('wait_running','URCU_WAIT_RUNNING','N'), ('wait_teardown','URCU_WAIT_TEARDOWN','N'),
   ('defer_queue_size','DEFER_QUEUE_SIZE','N'), ('dq_fct_mark','(unsigned long)DQ_FCT_MARK','N'), ('dq_fct_bit','DQ_FCT_BIT','N'),
   ('cds_wfs_end','(unsigned long)CDS_WFS_END','N'), ('wfcq_adapt_attempts','WFCQ_ADAPT_ATTEMPTS','N'), ('wfs_adapt_attempts','CDS_WFS_ADAPT_ATTEMPTS','N'),
   ('call_rcu_rt','URCU_CALL_RCU_RT','N'), ('call_rcu_stop','URCU_CALL_RCU_STOP','N'), ('call_rcu_stopped','URCU_CALL_RCU_STOPPED','N'), ('call_rcu_pause','URCU_CALL_RCU_PAUSE','N'), ('call_rcu_paused','URCU_CALL_RCU_PAUSED','N'),
 ]),
 ('wq', '#include <stddef.h>\n#include "%s/src/workqueue.h"\n'%REPO, [('wq_pause','URCU_WORKQUEUE_PAUSE','N'), ('wq_paused','URCU_WORKQUEUE_PAUSED','N')]),
 ('qsbr', '#include "%s/src/urcu-qsbr.c"\n'%REPO, [('qsbr_gp_online','URCU_QSBR_GP_ONLINE','N'), ('qsbr_gp_ctr','URCU_QSBR_GP_CTR','N')]),
 ('bp', '#include "%s/src/urcu-bp.c"\n'%REPO, [('bp_init_reader_count','INIT_READER_COUNT','N'), ('bp_gp_ctr_phase','URCU_BP_GP_CTR_PHASE','N')]),
 ('lfht', '#define _LGPL_SOURCE\n#include <stdbool.h>\n#include <urcu/urcu-memb.h>\n#include "%s/src/rculfhash.c"\n'%REPO, [
   ('removed_flag','REMOVED_FLAG','N'), ('bucket_flag','BUCKET_FLAG','N'), ('removal_owner_flag','REMOVAL_OWNER_FLAG','N'), ('flags_mask','FLAGS_MASK','N'),
   ('count_commit_order','COUNT_COMMIT_ORDER','N'), ('chain_len_target','CHAIN_LEN_TARGET','N'), ('chain_len_resize_threshold','CHAIN_LEN_RESIZE_THRESHOLD','N'),
   ('min_table_order','MIN_TABLE_ORDER','N'), ('max_table_order','MAX_TABLE_ORDER','N'), ('max_chunk_table','MAX_CHUNK_TABLE','N'),
   ('min_partition_per_thread_order','MIN_PARTITION_PER_THREAD_ORDER','N'), ('sizeof_lfht_node','sizeof(struct cds_lfht_node)','N'),
   ('bitrev_table','BitReverseTable256','table256'),
 ]),
]
def run_probe(name, body, items):
    src=body+'#include <stdio.h>\nint main(void){\n'
    for coq,c,kind in items:
        if kind=='N': src+='  printf("%s %%lu\\n", (unsigned long)(%s));\n'%(coq,c)
        else: src+='  printf("%s"); for(int i=0;i<256;i++) printf(" %%u",(unsigned)(%s)[i]); printf("\\n");\n'%(coq,c)
    src+='  return 0; }\n'
    d=tempfile.mkdtemp(prefix='genc_'); cf=os.path.join(d,name+'.c'); ex=os.path.join(d,name)
    open(cf,'w').write(src)
    cc=['gcc','-w','-I%s/include'%REPO,'-I%s/src'%REPO,cf,'-o',ex,'%s/src/compat_futex.c'%REPO,'%s/src/compat_arch.c'%REPO,'%s/src/wfstack.c'%REPO,'%s/src/wfcqueue.c'%REPO,'%s/src/workqueue.c'%REPO,'%s/src/rculfhash-mm-order.c'%REPO,'%s/src/rculfhash-mm-chunk.c'%REPO,'%s/src/rculfhash-mm-mmap.c'%REPO,'-lpthread'] if name=='lfht' else \
       ['gcc','-w','-I%s/include'%REPO,'-I%s/src'%REPO,cf,'-o',ex,'%s/src/compat_futex.c'%REPO,'%s/src/compat_arch.c'%REPO,'%s/src/wfstack.c'%REPO,'%s/src/wfcqueue.c'%REPO,'-lpthread']
    r=subprocess.run(cc,capture_output=True,text=True)
    if r.returncode:
        subprocess.run(['rm','-rf',d]); raise SystemExit('TRANSLATOR FAILURE in probe %s:\n%s'%(name,r.stderr[-800:]))
    out=subprocess.run([ex],capture_output=True,text=True,timeout=20).stdout
    subprocess.run(['rm','-rf',d]); return out
lines=['(* generated from %s by gen_constants.py -- do not edit *)'%REPO,'From Coq Require Import NArith List.','Import ListNotations.','Local Open Scope N_scope.','']
h=hashlib.sha256()
for name,body,items in PROBES:
    for l in run_probe(name,body,items).splitlines():
        p=l.split(); h.update(l.encode())
        if len(p)==2: lines.append('Definition %s : N := %s.'%(p[0],p[1]))
        else: lines.append('Definition %s : list N := [%s].'%(p[0],'; '.join(p[1:])))
cfg=subprocess.run(['gcc','-E','-dM','-I%s/include'%REPO,'-include','urcu/config.h','-x','c','/dev/null'],capture_output=True,text=True).stdout
lines.append('Definition emit_legacy_mb : bool := %s.'%('true' if 'CONFIG_RCU_EMIT_LEGACY_MB 1' in cfg else 'false'))
lines.append('(* digest %s *)'%h.hexdigest()[:16])
open(sys.argv[1] if len(sys.argv)>1 else 'Generated.v','w').write('\n'.join(lines)+'\n')
