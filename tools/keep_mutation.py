#!/usr/bin/env python3
"""keep_mutation.py <srcdir> <name> <property> <detected-by text> : copy a confirmed seeded change into /verif/seeded/<name>/"""
import sys, os, shutil, json, re
src, name, prop, caught = sys.argv[1:5]
dst = os.path.join('/verif/seeded', name); os.makedirs(dst, exist_ok=True)
for f in os.listdir(src):
    if f in ('patch.diff', 'run.sh', 'README.md') or f.startswith('demo'):
        p = os.path.join(src, f)
        if os.path.isfile(p) and os.path.getsize(p) < 200000 and not os.access(p, os.X_OK) or f == 'run.sh': shutil.copy(p, dst)
        elif os.path.isdir(p): shutil.copytree(p, os.path.join(dst, f), dirs_exist_ok=True)
readme = open(os.path.join(src, 'README.md')).read() if os.path.exists(os.path.join(src, 'README.md')) else ''
conf = open('/tmp/mut/confirm_%s.summary' % name).read() if os.path.exists('/tmp/mut/confirm_%s.summary' % name) else ''
meta = {'property': prop, 'source': 'independent sub-agent given only the property text and a scratch worktree',
        'needs_to_manifest': (re.search(r'(?is)(needs?[^\n]*\n(?:.+\n){0,12})', readme) or [None, ''])[1].strip()[:1500],
        'confirmed': 'tools/confirm_mutation.sh: demo passes on a clean scratch worktree, patch applies and builds, make -k check passes (674 TAP results), demo fails with the patch. ' + conf,
        'checks_run': caught}
json.dump(meta, open(os.path.join(dst, 'meta.json'), 'w'), indent=1)
print('kept', dst, os.listdir(dst))
