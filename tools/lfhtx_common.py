"""Shared by C05/C06/C07/C09: extended rculfhash scenario (harness/scen_lfhtx.c: every public operation, explicit resizes, abstract RCU
flavor with a waiting synchronize_rcu, quarantining bucket allocator), oracles on its traces, projection onto the resize protocol."""
import re, os
from vlib import *
import oracles
import lfht_common as L0

FILES = ['src/rculfhash.c', 'src/rculfhash-internal.h', 'include/urcu/rculfhash.h', 'src/rculfhash-mm-order.c', 'src/rculfhash-mm-chunk.c', 'src/rculfhash-mm-mmap.c']
EH = [1, 1, 1, 3, 2, 3, 6, 1, 5, 7]; EK = [10, 11, 10, 30, 20, 31, 60, 10, 50, 70]
ENT = 24 + 8      # sizeof(struct ent) = node (16) + key + id -> 24; checked by the harness build (see ent())

def ent(v):
    """&E+off -> entry index (string) ; 0 -> '0'"""
    if v in ('0', '-'): return '0'
    m = re.match(r'&?E\+(\d+)$', v)
    if m and int(m.group(1)) % 24 == 0: return 'e%d' % (int(m.group(1)) // 24)
    return v
def keyof(n): return EK[int(n[1:])]

def events(raw):
    out = []
    for l in raw.splitlines():
        p = l.replace(' (fwd)', '').split()
        if len(p) >= 2 and (p[0].isdigit() or p[0] == '-1'): out.append(p)
    return out

LIN_OPS = ('add', 'addu', 'addr', 'lookup', 'del', 'replace')
def history(ev):
    """[(t, op, arg, ret, call_idx, ret_idx)]; also returns traversals, nextdups"""
    open_ = {}; hist = []; travs = []; dups = []; withn = {}; visited = {}
    for i, p in enumerate(ev):
        t, k = p[0], p[1]
        if k == 'call':
            open_[t] = (p[2], p[3], i)
        elif k == 'note' and p[2] == 'with': withn[t] = 'e' + p[3]
        elif k == 'note' and p[2] == 'visited': visited[t] = ['e' + x for x in (p[3] if len(p) > 3 else '').split(',') if x]
        elif k == 'ret' and t in open_ and open_[t][0] == p[2]:
            op, a, ci = open_.pop(t); r = p[3]
            if op in ('add', 'addu', 'addr'): hist.append((t, op, ent(a), ent(r), ci, i))
            elif op == 'lookup': hist.append((t, op, int(a), ent(r), ci, i))
            elif op == 'del': hist.append((t, op, ent(a), '0' if r == '0' else 'neg', ci, i))
            elif op == 'replace': hist.append((t, op, (ent(a), withn.pop(t, None)), '0' if r == '0' else 'neg', ci, i))
            elif op == 'trav': travs.append((t, visited.pop(t, []), ci, i))
            elif op == 'nextdup': dups.append((t, ent(a), ent(r), ci, i))
    for t, (op, a, ci) in open_.items():
        if op in ('add', 'addu', 'addr'): hist.append((t, op, ent(a), None, ci, None))
        elif op == 'lookup': hist.append((t, op, int(a), None, ci, None))
        elif op == 'del': hist.append((t, op, ent(a), None, ci, None))
        elif op == 'replace': hist.append((t, op, (ent(a), withn.get(t)), None, ci, None))
    return hist, travs, dups

def ms_apply(state, op, arg):
    """multiset-per-key specification over the set of present entries"""
    if op == 'add': return [(state | {arg}, arg)]
    if op == 'addu':
        same = [m for m in state if keyof(m) == keyof(arg)]
        return [(state, m) for m in same] if same else [(state | {arg}, arg)]
    if op == 'addr':
        same = [m for m in state if keyof(m) == keyof(arg)]
        return [((state - {m}) | {arg}, m) for m in same] if same else [(state | {arg}, '0')]
    if op == 'lookup':
        same = [m for m in state if keyof(m) == arg]
        return [(state, m) for m in same] if same else [(state, '0')]
    if op == 'del':
        return [(state - {arg}, '0')] if arg in state else [(state, 'neg')]
    if op == 'replace':
        old, new = arg
        if old in state and new and keyof(old) == keyof(new): return [((state - {old}) | {new}, '0')]
        return [(state, 'neg')]

def open_resize(ev):
    o = set()
    for p in ev:
        if p[1] == 'call' and p[2] == 'resize': o.add(p[0])
        if p[1] == 'ret' and p[2] == 'resize': o.discard(p[0])
    return bool(o)

def oracle(prog, s, cl, raw):
    if 'DEADLOCK' in raw: return 'stuck state: a thread is blocked for ever (resize or synchronize_rcu never returns)'
    if 'STEP LIMIT' in raw: return 'live-lock: step limit reached (an operation or a resize does not terminate)'
    m = re.search(r'^.*\bBUG\b.*$', raw, flags=re.M)
    if m: return 'harness check failed: ' + m.group(0)
    m = re.search(r'^(\d+) UAF (\S+)', raw, flags=re.M)
    if m and m.group(2).startswith('E'): return 'thread %s accessed %s: a node that was deleted, waited a grace period for and released by its owner is still reachable' % (m.group(1), m.group(2))
    if m and not m.group(2).startswith('tb'): return 'thread %s accessed %s: the table descriptor (or a work item) had already been released by cds_lfht_destroy while the resize worker was still using it' % (m.group(1), m.group(2))
    if m: return 'thread %s accessed %s inside a bucket table that had already been released (free after too few grace periods)' % (m.group(1), m.group(2))
    if re.search(r'Assertion|ABORT', raw): return 'assertion failure inside the library: ' + raw[-300:]
    # every block the table allocator handed out is released at most once; and once a destroyed table's work is over (nothing can move any more) all of them are
    freed = re.findall(r'^\d+ note free (\S+)', raw, flags=re.M)
    for b in set(freed):
        if freed.count(b) > 1: return 'block %s (a bucket table level, the table descriptor or a work item) is released twice' % b
    if re.search(r'^\d+ ret destroy 0', raw, flags=re.M) and 'QUIESCENT' in raw:
        alloc = re.findall(r'^-?\d+ note alloc (\S+)', raw, flags=re.M)
        left = [b for b in alloc if b not in freed]
        if left: return 'cds_lfht_destroy() succeeded and all its work is over, yet %s was never released' % ', '.join(left)
    ev = events(raw)
    hist, travs, dups = history(ev)
    ok = oracles.linearizable(hist, frozenset(), ms_apply, maxops=15)
    if ok is False:
        return 'history is not linearizable against the multiset-per-key specification: ' + '; '.join('%s %s(%s)->%s' % (x[0], x[1], x[2], x[3]) for x in hist)
    # one owner per node
    own = {}
    for x in hist:
        if x[1] == 'del' and x[3] == '0': own.setdefault(x[2], []).append('del by %s' % x[0])
        if x[1] == 'replace' and x[3] == '0': own.setdefault(x[2][0], []).append('replace by %s' % x[0])
        if x[1] == 'addr' and x[3] not in (None, '0'): own.setdefault(x[3], []).append('add_replace by %s' % x[0])
    for n, l in own.items():
        if len(l) > 1: return 'node %s was handed to %d callers: %s' % (n, len(l), ', '.join(l))
    # which nodes were inserted / removed (each successful operation names its node)
    ins = {}; rem = {}
    for x in hist:
        if x[1] == 'add' or (x[1] == 'addu' and x[3] == x[2]) or x[1] == 'addr': ins[x[2]] = (x[4], x[5])
        if x[1] == 'replace' and x[3] == '0': ins[x[2][1]] = (x[4], x[5]); rem[x[2][0]] = (x[4], x[5])
        if x[1] == 'del' and x[3] == '0': rem[x[2]] = (x[4], x[5])
        if x[1] == 'addr' and x[3] not in (None, '0'): rem[x[3]] = (x[4], x[5])
    INF = 10 ** 9
    plain = set(keyof(x[2]) for x in hist if x[1] == 'add')
    for t, vis, ci, ri in travs:
        if len(set(vis)) != len(vis): return 'traversal by thread %s visited a node twice: %s' % (t, vis)
        for n, (ic, ir) in ins.items():
            resident = ir is not None and ir < ci and not (n in rem and rem[n][0] < ri)
            if resident and n not in vis: return 'traversal by thread %s (steps %d-%d) missed node %s, which was in the table during the whole traversal; visited %s' % (t, ci, ri, n, vis)
        for n in vis:
            if n not in ins or ins[n][0] > ri: return 'traversal by thread %s visited node %s, which was not inserted before the traversal ended' % (t, n)
            if n in rem and rem[n][1] is not None and rem[n][1] < ci: return 'traversal by thread %s visited node %s, whose removal had completed before the traversal began' % (t, n)
        ks = [keyof(n) for n in vis if keyof(n) not in plain]
        if len(set(ks)) != len(ks): return 'traversal by thread %s saw two nodes with a key that is only ever inserted by add_unique / add_replace: %s' % (t, vis)
    for t, a, r, ci, ri in dups:
        if r != '0':
            if a == r: return 'next_duplicate returned the same node %s' % a
            if keyof(r) != keyof(a): return 'next_duplicate returned node %s with another key' % r
            if keyof(r) not in plain: return 'next_duplicate after %s found a second node %s for a key that is only ever inserted by add_unique / add_replace' % (a, r)
    # bucket bounds and target of the last explicit resize
    mi = re.search(r'^- init size (\d+) max (\d+)', raw, flags=re.M); mf = re.search(r'^- final count \d+ size (\d+)', raw, flags=re.M)
    if mi and mf:
        fs = int(mf.group(1)); mx = int(mi.group(2)) or (1 << 62)
        if fs < 1 or fs > mx or fs & (fs - 1): return 'final bucket count %d is not a power of two within [1, %d]' % (fs, mx)
        rs = [(p[0], int(p[3])) for p in ev if p[1] == 'call' and p[2] == 'resize']
        if rs and len(set(t for t, _ in rs)) == 1 and all(p[1] != 'call' or p[2] != 'resize' or True for p in ev) and not open_resize(ev):
            want = min(max(rs[-1][1], 1), mx); want = 1 << (want - 1).bit_length()
            if fs != want: return 'after the last cds_lfht_resize(%d) returned the table has %d buckets, expected %d' % (rs[-1][1], fs, want)
    # quiescent end state
    if all(x[5] is not None for x in hist):
        present = set(n for n in ins if n not in rem)
        m = re.search(r'^- final count (\d+) size (\d+)', raw, flags=re.M)
        if m and int(m.group(1)) != len(present): return 'count_nodes at the end says %s but the history leaves %d nodes (%s)' % (m.group(1), len(present), sorted(present))
        for m in re.finditer(r'^- finallookup (\d+) key (\d+) found (\d+)', raw, flags=re.M):
            want = sum(1 for n in present if keyof(n) == int(m.group(2)))
            if int(m.group(3)) != want: return 'at the end lookup + next_duplicate of key %s find %s node(s), the history leaves %d (%s)' % (m.group(2), m.group(3), want, sorted(present))
        m = re.search(r'^- chain (.*)$', raw, flags=re.M)
        if m:
            ch = [c.split(':') for c in m.group(1).split()]
            rh = [int(c[2], 16) for c in ch]
            if any(a > b for a, b in zip(rh, rh[1:])): return 'final chain is not in split order: ' + m.group(1)
            live = set('e' + c[0] for c in ch if c[0] != 'b' and int(c[1]) & 1 == 0)
            if live != present: return 'final chain holds %s but the history leaves %s' % (sorted(live), sorted(present))
            if any(c[0] != 'b' and int(c[1]) & 1 for c in ch): return 'a logically removed node is still linked in the final chain: ' + m.group(1)
            m2 = re.search(r'^- final count \d+ size (\d+)', raw, flags=re.M)
            nb = sum(1 for c in ch if c[0] == 'b' and int(c[1]) & 1 == 0)
            if m2 and nb != int(m2.group(1)): return 'final chain links %d bucket nodes for a table of size %s' % (nb, m2.group(1))
    return None

def project_resize(raw):
    """-> lines for the ResizeProto acceptor (ocaml/resizeproto_driver.ml): one action per line, in trace order.  Order allocator only."""
    out = []; ev = events(raw)
    m = re.search(r'^- init size (\d+) max (\d+)', raw, flags=re.M)
    init = int(m.group(1)) if m else 2
    order = lambda v: v.bit_length() - 1
    out.append('I %d' % order(init))
    insec = set(); flagging = {}; linked = set(); pend = {}; notbl = set()
    DRAIN = ('flush', 'mb', 'cas', 'xchg', 'or', 'lock', 'unlock')
    def done(t):
        # the unlinking of a level is complete when the resize goes on to its next action (resizes are serialised by the resize mutex; with the
        # partitioned path the flags are set by helper threads that have been joined by then)
        for tid in sorted(flagging): out.append('D %d' % tid)
        flagging.clear()
    OPS = ('add', 'addu', 'addr', 'lookup', 'nextdup', 'del', 'replace', 'trav', 'count')
    for p in ev:
        t, k = p[0], p[1]
        if t in pend and (k in DRAIN and not (k == 'flush' and p[2] != 'size+0')):      # the buffered size store becomes visible
            done(t); out.append('S %d' % pend.pop(t))
        if k == 'note' and p[2] == 'alloc':
            tid = int(p[3][2:])
            if t == '-1' or tid == 0: continue                 # tables created by cds_lfht_new: part of the initial state
            nb_ = int(p[4]) // 16
            if int(p[4]) % 16 or nb_ & (nb_ - 1): notbl.add(tid); continue     # not a bucket table (the work array of the partitioned resize)
            out.append('A %d %d' % (tid, order(nb_) + 1))
        elif k == 'note' and p[2] == 'free':
            if int(p[3][2:]) in notbl: continue
            done(t); out.append('F %d' % int(p[3][2:]))
        elif k == 'store' and p[2] == 'size+0': pend[t] = order(int(p[3][2:]))
        elif k == 'note' and p[2] == 'syncbegin': done(t); out.append('Y %s' % t)
        elif k == 'note' and p[2] == 'syncend': out.append('Z %s' % t)
        elif k == 'note' and p[2] == 'rl': insec.add(t); out.append('E %s' % t)
        elif k == 'note' and p[2] == 'ru': insec.discard(t); out.append('X %s' % t)
        elif k == 'load' and p[2] == 'size+0' and t in insec: out.append('R %s %d' % (t, order(int(p[-1]))))
        elif k in ('load', 'cas', 'or', 'xchg') and p[2].startswith('tb'):
            tid = int(p[2][2:].split('+')[0])
            if tid in notbl: continue
            if k == 'or': out.append('U %d' % tid); flagging[tid] = 1      # REMOVED flag set by the resizer on a bucket node of that table
            elif t in insec: out.append('Q %s %d' % (t, tid))                                    # a read-side section touches the table
        if k in ('load', 'cas', 'xchg') and t in insec:
            mv = re.match(r'&tb(\d+)\+', p[-1])
            if mv and int(mv.group(1)) > 0: out.append('Q %s %d' % (t, int(mv.group(1))))          # the section obtains a pointer into the table
        if k == 'cas' and len(p) > 7 and p[7] == p[3][4:]:
            mm = re.match(r'new=&tb(\d+)\+(\d+)$', p[4])
            if mm:
                key = (int(mm.group(1)), int(mm.group(2)) // 16)
                if key[0] > order(init) + 1 and key not in linked: linked.add(key); out.append('L %d' % key[0])               # first successful insertion of that bucket node
    out.append('.')
    return out


def vflags(v):
    m = re.search(r'(\d+)$', v)
    return int(m.group(1)) % 8 if m else 0
def project_flags(raw):
    """per data node: the accesses to its next word, for ocaml/flagproto_driver.ml -> (blocks, node ids)"""
    acc = {}
    for p in events(raw):
        if len(p) < 3 or not p[2].startswith('E+'): continue
        off = int(p[2][2:])
        if off % 24: continue
        n = 'e%d' % (off // 24); k = p[1]; b = acc.setdefault(n, [])
        if k == 'or': b.append('O')
        elif k == 'xchg': b.append('X %d' % (1 if vflags(p[-1]) & 4 else 0))
        elif k == 'cas':
            ok = 1 if p[-1] == p[3][4:] else 0; f = vflags(p[4][4:])
            if f & 1: b.append('R %d' % ok if f == 5 else 'BAD cmpxchg on %s sets flags %d (REMOVED without REMOVAL_OWNER)' % (p[2], f))
            else: b.append('K %d' % ok)
    nodes = sorted(acc)
    return [acc[n] + ['.'] for n in nodes], nodes

def check_flags(ctx, what, cases, raws, driver):
    """refinement check of the ownership protocol: every node's word accesses must be accepted by FlagProto, and the API-level successes must be the protocol's"""
    blocks = []; meta = []
    for (p, s, cf), raw in zip(cases, raws):
        bl, nodes = project_flags(raw)
        hist, _, _ = history(events(raw))
        api = {}
        for x in hist:
            if x[1] == 'del' and x[3] == '0': api[x[2]] = api.get(x[2], 0) + 1
            if x[1] == 'replace' and x[3] == '0': api[x[2][0]] = api.get(x[2][0], 0) + 1
            if x[1] == 'addr' and x[3] not in (None, '0'): api[x[3]] = api.get(x[3], 0) + 1
        complete = all(x[5] is not None for x in hist)
        for b, n in zip(bl, nodes): blocks.append(b); meta.append((p, s, cf, n, api.get(n, 0), complete))
    if not blocks: return
    rc, out, err = sh([driver], inp='\n'.join('\n'.join(b) for b in blocks) + '\n', timeout=600); res = out.splitlines()
    if len(res) != len(blocks): ctx.fail('harness', 'flag protocol driver output', 'expected %d verdicts, got %d' % (len(blocks), len(res))); return
    nrej = 0; bad_cases = set()
    for (p, s, cf, n, napi, complete), r in zip(meta, res):
        v = None
        if not r.startswith('ok'): v = 'node %s: %s' % (n, r)
        elif complete and int(r.split()[1]) != napi: v = 'node %s: the protocol counts %s ownership success(es), the API reported %d (del / replace returning 0, add_replace returning the node)' % (n, r.split()[1], napi)
        if v and (p, s) not in bad_cases:
            bad_cases.add((p, s)); nrej += 1
            if nrej <= 2: ctx.fail('correspondence', what, 'prog %s schedule %s...: %s' % (p, s[:60], v), concrete={'scenario': 'scen_lfhtx', 'prog': p, 'schedule': s + '012345' * 300, 'config': list(cf), 'verdict': v})
    ctx.cov['model_actions_checked'] = ctx.cov.get('model_actions_checked', 0) + sum(len(b) for b in blocks)
    ctx.cov['disagreements'] = ctx.cov.get('disagreements', 0) + nrej

SRCS = [REPO + s for s in L0.LFHT_SRCS]
def build(ctx):
    return build_scenario(ctx, 'scen_lfhtx', 'scen_lfhtx.c', extra_src=SRCS)
def build_part(ctx):
    """variant in which every resize level takes the partitioned multi-thread path (hook URCU_VERIF_MIN_PARTITION_PER_THREAD_ORDER)"""
    return build_scenario(ctx, 'scen_lfhtx_part', 'scen_lfhtx.c', extra_src=SRCS, defs=['-DURCU_VERIF_MIN_PARTITION_PER_THREAD_ORDER=0'])

def gen(ctx, progs, n, pid, confs=(('2', '8', 'o'),)):
    for prog in progs:          # a node may be handed to the table by one operation only
        used = re.findall(r'[AURP](\d)', prog)
        assert len(used) == len(set(used)), 'entry used by two insertions in ' + prog
    out = [tuple(c) for c in corpus(pid) if len(c) == 3]
    for prog in progs[:3 if ctx.quick() else len(progs)]:
        th = [str(i) for i in range(prog.count('/') + 1)]
        for v in th:
            for point in range(1, 40 if ctx.quick() else 90, 2 if ctx.quick() else 1):
                out.append((prog, parking(th, point, 1, v), ctx.rng.choice(confs)))
                if point % 4 == 1: out.append((prog, parking_ops(th, v, point, 1, 3, 1), ctx.rng.choice(confs)))
    while len(out) < n:
        prog = ctx.rng.choice(progs); th = [str(i) for i in range(prog.count('/') + 1)]
        out.append((prog, bursty(ctx.rng, th, lo=60, hi=400, means=(1, 2, 5, 15, 40)), ctx.rng.choice(confs)))
    return out

def run_cases(ctx, what, impl, cases, proto_driver=None, nontrivial=None, extra_oracle=None, flag_driver=None):
    tail = '012345' * 300
    rs = run_many([[impl, p, s + tail] + list(cf) for p, s, cf in cases], timeout=30)
    nor = 0; blocks = []; distinct = set()
    if flag_driver: check_flags(ctx, 'FlagProto accepts the accesses to every node\'s next word (' + what + ')', cases, [r[1] for r in rs], flag_driver)
    for (p, s, cf), (rc, raw) in zip(cases, rs):
        o = ('abnormal run: ' + raw[-300:]) if ('TIMEOUT' in raw or rc not in (0,)) else oracle(p, s, None, raw)
        if not o and extra_oracle: o = extra_oracle(p, raw)
        if o:
            nor += 1
            if nor <= 3: ctx.fail('oracle', what + ' oracle', o, concrete={'scenario': 'scen_lfhtx', 'prog': p, 'schedule': s + tail, 'config': list(cf), 'verdict': o})
        if proto_driver: blocks.append(project_resize(raw))
        if nontrivial is None or nontrivial(raw): distinct.add(hash(raw))
        if len(ctx.cov['samples']) < 3: ctx.cov['samples'].append({'scenario': 'scen_lfhtx', 'prog': p, 'schedule': s[:60], 'config': list(cf)})
    ctx.cov['evaluations'] += len(cases); ctx.cov['distinct_nontrivial'] += len(distinct)
    ctx.cov['oracle_violations'] = ctx.cov.get('oracle_violations', 0) + nor
    d = ctx.cov['input_distribution'].setdefault('scen_lfhtx', {'cases': 0}); d['cases'] += len(cases)
    if proto_driver:
        rc, out, err = sh([proto_driver], inp='\n'.join('\n'.join(b) for b in blocks) + '\n', timeout=600)
        res = out.splitlines(); nrej = 0; nact = 0
        if len(res) != len(cases): ctx.fail('harness', 'resize protocol driver output', 'expected %d verdicts, got %d: %s' % (len(res), len(cases), err[-300:]))
        else:
            for (p, s, cf), r in zip(cases, res):
                if r.startswith('ok'): nact += int(r.split()[1])
                else:
                    nrej += 1
                    if nrej <= 2: ctx.fail('correspondence', 'ResizeProto accepts the resize actions of src/rculfhash.c',
                                           'prog %s schedule %s... config %s: the protocol model rejects the implementation trace: %s' % (p, s[:60], cf, r),
                                           concrete={'scenario': 'scen_lfhtx', 'prog': p, 'schedule': s + tail, 'config': list(cf), 'verdict': 'resize protocol violated: ' + r})
            ctx.cov['traces_validated_against_impl'] += len(cases) - nrej
            ctx.cov['model_actions_checked'] = ctx.cov.get('model_actions_checked', 0) + nact
            ctx.cov['disagreements'] = ctx.cov.get('disagreements', 0) + nrej

def auto_resize_bound_cases(ctx):
    """CDS_LFHT_AUTO_RESIZE tables with a small maximum, one user thread (thread 0) and the library's work-queue thread (thread 1) scheduled between its
    operations: enough nodes with distinct hashes pile up in one bucket of a table that already has max_nr_buckets buckets for the chain-length trigger to ask
    for more; the table must stay within its maximum, with every allocator (order: silent oversize; chunk / mmap: the allocator is dimensioned for the maximum)"""
    cases = []
    progs = ('A0A3A8A9A5A1T', 'U0U3U8U9U5L0XA1A2A7T', 'A3A9A8R0L3XA5A1C')
    for cf in (('1', '2', 'o', '0', '0', '1'), ('1', '2', 'c', '0', '0', '1'), ('1', '2', 'm', '0', '0', '1'), ('2', '4', 'o', '0', '0', '1'), ('1', '4', 'm', '0', '0', '1')):
        for prog in progs:
            for j in ((0, 40, 200) if ctx.quick() else (0, 5, 10, 20, 40, 80, 120, 200)):
                cases.append((prog, ('>0' + '1b' * j) * 14, cf))
    return cases

def auto_resize_probe(ctx):
    """real work-queue thread, both automatic triggers (chain length, node count with CDS_LFHT_ACCOUNTING), all allocators, max_nr_buckets far below the node count:
    bucket count and resize target within the maximum at all times, contents preserved (harness/seqdiff/lfht_auto.c)"""
    exe = os.path.join(BUILD, 'lfht_auto')
    srcs = [REPO + '/src/' + f for f in ('rculfhash.c', 'rculfhash-mm-order.c', 'rculfhash-mm-chunk.c', 'rculfhash-mm-mmap.c', 'workqueue.c', 'wfcqueue.c', 'wfstack.c', 'compat_futex.c', 'compat_arch.c')]
    rc, so, se = sh(['gcc', '-O1', '-g', '-w', '-include', REPO + '/include/config.h', '-I' + REPO + '/include', '-I' + REPO + '/src', os.path.join(HARN, 'seqdiff/lfht_auto.c')] + srcs + ['-o', exe, '-lpthread'])
    if rc: ctx.fail('harness', 'build of seqdiff/lfht_auto.c', se[-600:]); return
    out = os.path.join(BUILD, 'lfht_auto.out'); rounds = '1' if ctx.quick() else '6'
    rc, _, _ = sh('timeout -s KILL 240 %s %s > %s 2>&1 < /dev/null' % (exe, rounds, out), timeout=260)
    txt = open(out).read() if os.path.exists(out) else ''
    ok = len(re.findall(r'^round \d+ .* ok$', txt, flags=re.M)); ctx.cov['evaluations'] += ok * 6000; ctx.cov['distinct_nontrivial'] += ok
    bug = re.search(r'^BUG.*$', txt, flags=re.M)
    if rc != 0 or bug:
        v = bug.group(0) if bug else 'probe exited with %d: %s' % (rc, txt[-200:])
        ctx.fail('oracle', 'automatic resizing with the real work-queue thread (lfht_auto)', v, concrete={'probe': 'harness/seqdiff/lfht_auto.c', 'args': [rounds], 'verdict': v})
    ctx.cov['input_distribution']['lfht_auto'] = {'rounds': int(rounds), 'configurations_ok': ok}

def lazy_destroy_cases(ctx):
    """lazy resize carried out by the library's work-queue thread (AUTO_RESIZE; the worker is thread 1 of the run), the table emptied and destroyed while the resize is
    queued / running / just finished (incl. the tail of the work item after resize_initiated is cleared): everything the destruction releases is quarantined"""
    acases = []
    for prog in ('A3A4A6A9L3XL4XL6XL9XY', 'A4A6A3A9L9XL3XL6XL4XY'):
        for j in range(0, 150 if ctx.quick() else 320, 2 if ctx.quick() else 1):
            for k in (9, 7):       # the owner completes all (or all but the last two) of its remaining operations at once, after the worker has taken j steps
                acases.append((prog, '>0' * 5 + '1b' * j + '>0' * k + '1b' * 3 + '>0>0', ('1', '8', 'o', '0', '0', '1')))
    # lazy SHRINK over several levels (requested directly: op c0 on an empty 8-bucket table), the table destroyed with the worker j steps into it - in particular
    # between two levels, during the grace-period wait: every level is released exactly once, by whoever owns it at that point
    for prog in ('c0Y', 'c1Y', 'A3L3Xc0Y'):
        npre = 1 + sum(1 for ch in prog[:-1] if ch.isalpha() and ch.isupper() or ch == 'c')
        for j in range(0, 200 if ctx.quick() else 400, 2 if ctx.quick() else 1):
            acases.append((prog, '>0' * npre + '1b' * j + '>0' + '1b' * 400, ('8', '8', 'o', '0', '0', '1')))
    return acases

def run_partitioned_faults(ctx, what, pid, n, proto_driver=None):
    """concurrent programs on the build whose every resize level takes the partitioned multi-thread path, with chosen pthread_create calls failing with EAGAIN (the first
    helper of a level, a later one, several): the caller must process whatever the helpers did not"""
    pimpl = build_part(ctx)
    if not pimpl: return
    pconfs = [('2', '8', 'o', '3', str(m)) for m in (0, 1, 2, 4, 6, 8, 10, 32, 48, 5)] + [('1', '8', 'o', '1', '0'), ('4', '8', 'o', '3', '16')]
    pprogs = ['A3A6A9/L3L6TL9/Z3Z1Z3', 'A0A4A3A6/Z3L6TL4/Z0Z2T', 'U3U5U6/Z2Z3L6L3T/L5TZ1']
    run_cases(ctx, what, pimpl, gen(ctx, pprogs, n, pid, pconfs), proto_driver=proto_driver, nontrivial=lambda raw: ' create ' in raw)

def partitioned_seq_cases(ctx):
    """one user thread; every resize level goes through the partitioned multi-thread path (helper threads created by the library, scheduled between the user's operations)"""
    cases = []
    for cf in (('2', '8', 'o', '3', '0'), ('4', '8', 'o', '3', '0'), ('8', '8', 'o', '3', '0'), ('2', '8', 'c', '3', '0')):
        for prog in ('A0A3A4A6A9Z3TZ1TZ3TL3XZ0T', 'A3A4A6Z2Z0TZ3Z1T', 'U0U3U8U9Z3CZ2L0NTZ0C'):
            for j in ((0, 7, 30) if ctx.quick() else (0, 2, 4, 7, 12, 20, 30)):
                cases.append((prog, ('>0' + '1b2c3d4e5f' * j) * 22, cf))
    # pthread_create failing with EAGAIN for chosen helper threads (bit i of the mask = i-th creation of the run): the first helper of a level (nothing was done: the
    # caller processes the whole level), a later one (the caller processes the leftovers), all of them
    for mask in ('1', '2', '4', '5', '17', '255'):
        for prog in ('A0A3A4A6A9Z3TZ1TZ3TL3XZ0T', 'U0U3U8U9Z3CZ2L0NTZ0C'):
            cases.append((prog, ('>0' + '1b2c3d4e5f' * 7) * 22, ('2', '8', 'o', '3', mask)))
    return cases

def project_wq(raw, napp):
    """every hooked access to the work queue's flags word, in memory order -> action lines of Fork/WqPause.v (wqexec).  The flags word is recognised as the location
    on which a thread raises PAUSE (or ... v=4); accesses by application threads are the forking side's, accesses by library-created threads the worker's;
    CH = the fork child re-creates the worker (note forkchild followed by the creation of a thread)."""
    PAUSE, PAUSED = gen_const('wq_pause', 4), gen_const('wq_paused', 8)      # URCU_WORKQUEUE_PAUSE / _PAUSED as the translator read them from src/workqueue.h
    flags = None
    for l in raw.splitlines():
        p = l.split()
        if len(p) >= 4 and p[0].isdigit() and p[1] == 'or' and p[3].startswith('v=') and int(p[3][2:], 0) == PAUSE: flags = p[2]; break
    out = ['T']
    if flags is None: return out + ['.']
    child_pending = False
    for l in raw.splitlines():
        p = l.split()
        if len(p) < 3 or not p[0].isdigit(): continue
        t, k = int(p[0]), p[1]; side = 'F' if t < napp else 'W'
        if k == 'note' and p[2] == 'forkchild': out.append('CH'); continue
        if len(p) < 3 or p[2] != flags: continue
        if k == 'or':
            v = int(p[3][2:], 0)
            if v == PAUSE and side == 'F': out.append('FO')
            elif v == PAUSED and side == 'W': out.append('WO')
            elif v not in (1, 2): out.append('?? ' + l)
        elif k == 'and':
            v = int(p[3][2:], 0) & 0xffffffff
            if v == (~PAUSE & 0xffffffff) and side == 'F': out.append('FA')
            elif v == (~PAUSED & 0xffffffff) and side == 'W': out.append('WA')
            else: out.append('?? ' + l)
        elif k == 'load':
            v = int(p[-1], 0)
            out.append('%sL %d %d' % (side, 1 if v & PAUSE else 0, 1 if v & PAUSED else 0))
    out.append('.')
    return out

def run_wq(ctx, impl, driver):
    """C16: the fork bracket of the hash table's work queue under the scheduler, first process and fork child (second generation), with the worker busy in an automatic
    resize when the bracket starts: the flag accesses are fed to Fork/WqPause.v's acceptor; at each fork point no library thread may hold the table's resize mutex"""
    cases = []
    cfg = ['1', '8', 'o', '0', '0', '1']
    for prog in ('A0A3A4A5A6F/A7A8A9', 'A0A3A4A5GA6F/A7A8A9', 'A0A3A4GA5GA6F/A7A8'):
        for k in range(0, 120 if ctx.quick() else 300, 4 if ctx.quick() else 1):
            cases.append((prog, '0a' * 30 + '1b' * 20 + '2c' * k + '0a1b2c3d4e' * 400))
            cases.append((prog, '0a1b' * 15 + '2c' * k + '0a2c3d4e' * 300 + '1b' * 60 + '0a1b2c3d4e' * 200))
    rs = run_many([[impl, p, s] + cfg for p, s in cases], timeout=30)
    blocks = []; nor = 0; nbr = 0
    for (p, s), (rc, raw) in zip(cases, rs):
        o = None
        if any(w in raw for w in ('DEADLOCK', 'ABORT', 'BUG ', 'TIMEOUT', 'STEP LIMIT')): o = 'abnormal run: ' + raw[-300:]
        m = re.search(r'^(\d+) note forkwq rsowner (\d+) LIB', raw, flags=re.M)
        if m and not o: o = 'at the fork point of thread %s the resize mutex is held by library thread %s: the work-queue thread is inside a resize, not parked' % (m.group(1), m.group(2))
        nbr += len(re.findall(r' note forkwq ', raw))
        if o:
            nor += 1
            if nor <= 3: ctx.fail('oracle', 'work-queue fork bracket (scen_lfhtx ops F / G)', o, concrete={'scenario': 'scen_lfhtx', 'prog': p, 'schedule': s, 'config': cfg, 'verdict': o})
        blocks.append(project_wq(raw, p.count('/') + 1))
    ctx.cov['evaluations'] += len(cases); ctx.cov['distinct_nontrivial'] += nbr
    ctx.cov['oracle_violations'] = ctx.cov.get('oracle_violations', 0) + nor
    ctx.cov['input_distribution']['work-queue fork brackets (scheduled)'] = {'cases': len(cases), 'fork_points_reached': nbr}
    if driver:
        rc, out, err = sh([driver], inp='\n'.join('\n'.join(b) for b in blocks) + '\n', timeout=300); res = out.splitlines(); nrej = 0
        if len(res) != len(cases): ctx.fail('harness', 'wqpause_driver output', 'expected %d verdicts, got %d: %s' % (len(cases), len(res), err[-300:]))
        else:
            for (p, s), r in zip(cases, res):
                if not r.startswith('ok'):
                    nrej += 1
                    if nrej <= 2: ctx.fail('correspondence', 'WqPause.wqexec accepts the flag accesses of src/workqueue.c', 'prog %s schedule %s...: %s' % (p, s[:60], r), concrete={'scenario': 'scen_lfhtx', 'prog': p, 'schedule': s, 'config': cfg, 'verdict': r})
            ctx.cov['traces_validated_against_impl'] += len(cases) - nrej; ctx.cov['disagreements'] = ctx.cov.get('disagreements', 0) + nrej

def replay(ctx, rp):
    f = rp.get('failing_input') or {}
    impl = build(ctx)
    if not impl or not f or f.get('scenario') != 'scen_lfhtx': print(json.dumps(f, indent=1)); return 2
    rc, out = run_many([[impl, f['prog'], f['schedule']] + list(f.get('config', []))], timeout=30)[0]
    print('\n'.join(l for l in out.splitlines() if ' load ' not in l and ' relax' not in l)[-4000:])
    o = oracle(f['prog'], f['schedule'], None, out); print('verdict:', o or 'no oracle violation'); return 1 if o else 0
