"""Shared by C01/C02/C15/C19: grace-period scenarios on the real flavors under the controlled scheduler; projection of the
implementation trace onto the actions of the Coq model (Gp/GpExec.v) = refinement check; timing and litmus oracles."""
import re
from vlib import *
PHASE = 1 << 32; NEST = PHASE - 1
SRCS = [REPO + s for s in ('/src/wfcqueue.c', '/src/wfstack.c', '/src/compat_futex.c', '/src/compat_arch.c')]
DEFS = ['-DURCU_VERIF_RCU_QS_ACTIVE_ATTEMPTS=2', '-DURCU_VERIF_URCU_WAIT_ATTEMPTS=2']

def build(ctx, name, extra_defs=(), src='scen_gp.c'):
    return build_scenario(ctx, name, src, extra_src=SRCS, defs=DEFS + list(extra_defs))

def events(raw):
    ev = []
    for l in raw.splitlines():
        p = l.split()
        if len(p) >= 2 and p[0].isdigit(): ev.append(p)
    return ev

def wd(v):
    v = int(v); return (1 if v & PHASE else 0, v & NEST)

def project_memb(raw, nthreads, dyn_initial=None):
    """implementation trace -> action lines of the model (memb flavor with sys_membarrier). Returns (lines, notes)."""
    out = ['T ' + ' '.join(str(i) for i in range(nthreads))]
    insync = {}        # thread -> state of its synchronize_rcu: None | 'called' | 'leader' | 'flipped'
    regop = {}
    if dyn_initial is not None: out += ['G %s' % t for t in dyn_initial]       # threads registered (in a quiet section) before the schedule starts
    for p in events(raw):
        t, k = p[0], p[1]
        loc = p[2] if len(p) > 2 else ''
        if k == 'call' and p[2] == 'sync': insync[t] = 'called'
        elif k == 'ret' and p[2] == 'sync': insync[t] = None
        elif dyn_initial is not None and k == 'call' and p[2] in ('register', 'unregister'): regop[t] = p[2]
        elif dyn_initial is not None and k == 'ret' and p[2] in ('register', 'unregister'): regop[t] = None
        elif dyn_initial is not None and k == 'unlock' and loc == 'reg_lock+0' and regop.get(t): out.append(('G %s' if regop[t] == 'register' else 'U %s') % t)
        elif k == 'load' and loc == 'gp.ctr+0' and not insync.get(t): out.append('L %s %d' % (t, wd(p[5])[0]))
        elif k == 'store' and loc == 'rd%s+0' % t: out.append('S %s %d %d' % ((t,) + wd(p[3][2:])))
        elif k == 'flush' and re.match(r'rd\d+\+0$', loc): out.append('F %s %d %d' % ((t,) + wd(p[3][2:])))
        elif k == 'lock' and loc == 'gp_lock+0' and insync.get(t): insync[t] = 'leader'
        elif k == 'xchg' and loc == 'waiters+0' and insync.get(t) == 'leader': out.append('Y')      # urcu_move_waiters: the batch is fixed
        elif k == 'membarrier' and insync.get(t) in ('leader', 'flipped'): out.append('M')
        elif k == 'load' and re.match(r'rd\d+\+0$', loc) and insync.get(t) in ('leader', 'flipped'):
            out.append('C %s %d %d' % ((loc[2:-2],) + wd(p[5])))
        elif k == 'flush' and loc == 'gp.ctr+0' and insync.get(t) == 'leader':
            # the parity flip takes effect when the store reaches memory (it sits in the updater's store buffer until then)
            out.append('P %d' % wd(p[3][2:])[0]); insync[t] = 'flipped'
        elif k == 'unlock' and loc == 'gp_lock+0' and insync.get(t) in ('leader', 'flipped'):
            # the leader's grace period is over (with an empty registry the code skips both scans: not expected here)
            out.append('E'); insync[t] = 'done'
    out.append('.')
    return out

def project_mb(raw, nthreads, dyn_initial=None):
    """implementation trace -> action lines of the mb-flavor model (Gp/GpMbExec.v): as project_memb, plus N = the fence that ends an outermost
    rcu_read_lock, and M = every fence of the grace-period leader (local: nobody else's buffer is drained)"""
    out = ['T ' + ' '.join(str(i) for i in range(nthreads))]
    insync = {}; await_fence = {}; inlock = {}; regop = {}
    if dyn_initial is not None: out += ['G %s' % t for t in dyn_initial]       # threads registered (in a quiet section) before the schedule starts
    for p in events(raw):
        t, k = p[0], p[1]; loc = p[2] if len(p) > 2 else ''
        if k == 'call' and p[2] == 'sync': insync[t] = 'called'
        elif k == 'ret' and p[2] == 'sync': insync[t] = None
        elif k == 'call' and p[2] == 'lock': inlock[t] = (p[3] == '0')
        elif k == 'ret' and p[2] == 'lock': inlock[t] = False
        elif dyn_initial is not None and k == 'call' and p[2] in ('register', 'unregister'): regop[t] = p[2]
        elif dyn_initial is not None and k == 'ret' and p[2] in ('register', 'unregister'): regop[t] = None
        elif dyn_initial is not None and k == 'unlock' and loc == 'reg_lock+0' and regop.get(t): out.append(('G %s' if regop[t] == 'register' else 'U %s') % t)      # the registry changed under the mutex that is released here
        elif k == 'load' and loc == 'gp.ctr+0' and not insync.get(t): out.append('L %s %d' % (t, wd(p[5])[0]))
        elif k == 'store' and loc == 'rd%s+0' % t:
            out.append('S %s %d %d' % ((t,) + wd(p[3][2:])))
            if inlock.get(t): await_fence[t] = True
        elif k == 'flush' and re.match(r'rd\d+\+0$', loc): out.append('F %s %d %d' % ((t,) + wd(p[3][2:])))
        elif k == 'mb' and await_fence.get(t): out.append('N %s' % t); await_fence[t] = False
        elif k == 'lock' and loc == 'gp_lock+0' and insync.get(t): insync[t] = 'leader'
        elif k == 'xchg' and loc == 'waiters+0' and insync.get(t) == 'leader': out.append('Y')
        elif k == 'mb' and insync.get(t) in ('leader', 'flipped'): out.append('M')
        elif k == 'load' and re.match(r'rd\d+\+0$', loc) and insync.get(t) in ('leader', 'flipped'):
            out.append('C %s %d %d' % ((loc[2:-2],) + wd(p[5])))
        elif k == 'flush' and loc == 'gp.ctr+0' and insync.get(t) == 'leader':
            out.append('P %d' % wd(p[3][2:])[0]); insync[t] = 'flipped'
        elif k == 'unlock' and loc == 'gp_lock+0' and insync.get(t) in ('leader', 'flipped'):
            out.append('E'); insync[t] = 'done'
    out.append('.')
    return out

def project_qsbr(raw, nthreads):
    """implementation trace of src/urcu-qsbr.c (64-bit single counter) -> action lines of the qsbr model (Gp/GpQsbrExec.v).  Counter values are mapped to model units
    (0 stays 0 = offline; 1, 3, 5, ... = 1st, 2nd, 3rd value of the global counter).  L = a load of the global counter by a reader (online, quiescent state, the
    online at the end of its own synchronize_rcu), S / F = store to / flush of its reader word, N = every fence, R = an operation returns, U = the incremented
    global counter becomes visible, C = the leader reads a reader word during its wait, E = the leader releases the grace-period lock"""
    step_, onl = gen_const('qsbr_gp_ctr', 2), gen_const('qsbr_gp_online', 1)      # URCU_QSBR_GP_CTR, URCU_QSBR_GP_ONLINE from the source
    gm = lambda v: 0 if int(v, 0) == 0 else (int(v, 0) - onl) // step_ + 1
    out = ['T ' + ' '.join(str(i) for i in range(nthreads))]
    lead = {}; last = {}; pend = {}
    for p in events(raw):
        t, k = p[0], p[1]; loc = p[2] if len(p) > 2 else ''
        if int(t) >= nthreads: continue
        if k == 'load' and loc == 'gp.ctr+0': out.append('L %s %d' % (t, gm(p[5])))
        elif k == 'store' and loc == 'rd%s+0' % t:
            v = gm(p[3][2:]); red = (v == 0 and last.get(t, 1) == 0)      # rcu_unregister_thread / a second offline: 0 stored over 0 - not an action of the model
            pend.setdefault(t, []).append(red); last[t] = v
            if not red: out.append('S %s %d' % (t, v))
        elif k == 'flush' and loc == 'rd%s+0' % t:
            red = pend.get(t) and pend[t].pop(0)
            if not red: out.append('F %s %d' % (t, gm(p[3][2:])))
        elif k == 'mb': out.append('N %s' % t)
        elif k == 'ret' and p[2] in ('online', 'qs', 'offline', 'sync'): out.append('R %s' % t); lead.pop(t, None)
        elif k == 'flush' and loc == 'gp.ctr+0': out.append('U %d' % gm(p[3][2:])); lead[t] = True
        elif k == 'load' and re.match(r'rd\d+\+0$', loc) and lead.get(t): out.append('C %s %d' % (loc[2:-2], gm(p[5])))
        elif k == 'unlock' and loc == 'gp_lock+0' and lead.get(t): out.append('E'); lead[t] = False
    out.append('.')
    return out

def timing_oracle(raw):
    """every section whose outermost lock returned before a synchronize_rcu() call must have begun its outermost unlock before
    that call returns"""
    ev = events(raw)
    sec = {}; open_ = {}; depth = {}
    sections = []; syncs = []; so = {}
    for i, p in enumerate(ev):
        t, k = p[0], p[1]
        if k == 'call' and p[2] == 'lock':
            pass
        elif k == 'ret' and p[2] == 'lock':
            depth[t] = depth.get(t, 0) + 1
            if depth[t] == 1: open_[t] = i
        elif k == 'call' and p[2] == 'unlock':
            if depth.get(t, 0) == 1 and t in open_: sections.append((t, open_.pop(t), i))
            depth[t] = depth.get(t, 0) - 1
        elif k == 'call' and p[2] == 'sync': so[t] = i
        elif k == 'ret' and p[2] == 'sync' and t in so: syncs.append((t, so.pop(t), i))
    for t, a in open_.items(): sections.append((t, a, 10 ** 9))
    for (ts, c, r) in syncs:
        for (tr, a, b) in sections:
            if a < c and r < b:
                return 'reader %s: section with lock done at step %d is still open (unlock begins at step %s) when synchronize_rcu() of thread %s (called at step %d) returns at step %d' % (tr, a, b if b < 10 ** 9 else 'never', ts, c, r)
    return None

def qsbr_timing_oracle(raw):
    ev = events(raw); open_ = {}; sections = []; syncs = []; so = {}
    for i, p in enumerate(ev):
        t, k = p[0], p[1]
        if k == 'call' and p[2] in ('qs', 'offline', 'sync', 'unregister') and t in open_: sections.append((t, open_.pop(t), i))
        if (k == 'call' and p[2] == 'begin') or (k == 'ret' and p[2] in ('qs', 'online')): open_[t] = i
        if k == 'call' and p[2] == 'sync': so[t] = i
        elif k == 'ret' and p[2] == 'sync' and t in so: syncs.append((t, so.pop(t), i)); open_[t] = i
    for t, a in open_.items(): sections.append((t, a, 10 ** 9))
    for (ts, c, r) in syncs:
        for (tr, a, b) in sections:
            if tr != ts and a < c and r < b:
                return 'qsbr reader %s: implicit section begun at step %d is still open (next quiescent point at step %s) when synchronize_rcu() of thread %s (called at step %d) returns at step %d' % (tr, a, b if b < 10 ** 9 else 'never', ts, c, r)
    return None

def qsbr_oracle(p, s, cl, raw):
    m = re.search(r'^LITMUS.*$', raw, flags=re.M)
    if m: return m.group(0)
    return qsbr_timing_oracle(raw)

def oracle(p, s, cl, raw):
    m = re.search(r'^LITMUS.*$', raw, flags=re.M)
    if m: return m.group(0)
    m = re.search(r'^- bp live slots (\d+)', raw, flags=re.M)
    if m and m.group(1) != '0': return 'bp: %s reader slot(s) still allocated after every thread has exited (a thread was registered twice, or its slot was not released)' % m.group(1)
    return timing_oracle(raw)

def canon(raw):
    return [' '.join(p) for p in events(raw)]
