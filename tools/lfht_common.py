"""Shared by C05/C06/C07: rculfhash scenario (real src/rculfhash.c), extracted Lfht.v model, canonicalisation, oracles."""
import re
from vlib import *
import oracles

FILES = ['src/rculfhash.c', 'src/rculfhash-internal.h', 'include/urcu/rculfhash.h', 'src/rculfhash-mm-order.c']
EH = [5, 5, 5, 7, 4, 5, 7, 4]; EK = [0, 1, 0, 3, 4, 5, 3, 4]
LFHT_SRCS = ['/src/rculfhash-mm-order.c', '/src/rculfhash-mm-chunk.c', '/src/rculfhash-mm-mmap.c', '/src/workqueue.c', '/src/wfcqueue.c', '/src/wfstack.c', '/src/compat_futex.c', '/src/compat_arch.c']

def loc(l):
    if l.startswith('size+'): return 'size'
    m = re.match(r'b(\d)\+0$', l)
    if m: return 'next(%d)' % (int(m.group(1)) + 1)
    m = re.match(r'E\+(\d+)$', l)
    if m and int(m.group(1)) % 24 == 0: return 'next(%d)' % (3 + int(m.group(1)) // 24)
    return l
def val(v):
    if v.startswith('&E+'): o = int(v[3:]); return str(8 * (3 + o // 24) + o % 24)
    m = re.match(r'&b(\d)\+(\d+)$', v)
    if m: return str(8 * (int(m.group(1)) + 1) + int(m.group(2)))
    return v
def node(v):
    if v == '0': return '0'
    w = val(v)
    return str(int(w) // 8) if w.isdigit() else v
def canon_c(out):
    res = []
    for l in out.splitlines():
        l = re.sub(r' mo=-?\d+', '', l).replace(' (fwd)', '')
        p = l.split()
        if len(p) < 2 or not p[0].isdigit(): continue
        t, k = p[0], p[1]
        if k in ('start', 'exit'): continue
        if k == 'call':
            res.append('%s call %s %s' % (t, p[2], node(p[3]) if p[2] in ('add', 'del', 'replace') else p[3])); continue
        if k == 'ret':
            if p[2] in ('add', 'lookup'): res.append('%s ret %s %s' % (t, p[2], node(p[3])))
            elif p[2] == 'replace': res.append('%s ret replace %s' % (t, p[3]))
            else: res.append('%s ret del %s' % (t, '0' if p[3] == '0' else '2'))
            continue
        if k == 'load': res.append('%s load %s -> %s' % (t, loc(p[2]), val(p[4])))
        elif k == 'cas': res.append('%s cas %s exp=%s new=%s -> %s' % (t, loc(p[2]), val(p[3][4:]), val(p[4][4:]), val(p[6])))
        elif k == 'or': res.append('%s or %s v=%s' % (t, loc(p[2]), p[3][2:]))
        elif k == 'xchg': res.append('%s xchg %s v=%s -> %s' % (t, loc(p[2]), val(p[3][2:]), val(p[5])))
        elif k == 'flush': res.append('%s flush %s' % (t, loc(p[2])))
        else: res.append(' '.join(p))
    return res

def keyof(n): return (EH[int(n) - 3], EK[int(n) - 3])
def ops_of(prog):
    """per-thread op list with the spec-level arguments: ('add', node, unique) / ('lookup', key) / ('del',)"""
    out = []
    for tp in prog.split('/'):
        l = []; i = 0
        while i < len(tp):
            c = tp[i]
            if c in 'AU': l.append(('add', str(3 + int(tp[i + 1])), c == 'U')); i += 2
            elif c == 'L': l.append(('lookup', (EH[int(tp[i + 1])], EK[int(tp[i + 1])]))); i += 2
            elif c == 'P': l.append(('replace', None, str(3 + int(tp[i + 1])))); i += 2
            else: l.append(('del',)); i += 1
        out.append(l)
    return out

def history(prog, cl):
    """[(t, opname, arg, ret, call_idx, ret_idx)] with arg = ('add',node,unique) | ('lookup',key) | ('del',node)"""
    per = ops_of(prog); idx = [0] * len(per); open_ = {}; out = []
    for i, l in enumerate(cl):
        p = l.split()
        if len(p) >= 3 and p[1] == 'call' and p[2] in ('add', 'lookup', 'del', 'replace'):
            t = int(p[0]); o = per[t][idx[t]]; idx[t] += 1
            arg = ('del', p[3]) if o[0] == 'del' else ('replace', p[3], o[2]) if o[0] == 'replace' else o
            open_[t] = (arg, i)
        elif len(p) >= 3 and p[1] == 'ret' and p[2] in ('add', 'lookup', 'del', 'replace') and int(p[0]) in open_:
            arg, ci = open_.pop(int(p[0])); out.append((p[0], arg[0], arg, p[3], ci, i))
    for t, (arg, ci) in open_.items(): out.append((str(t), arg[0], arg, None, ci, None))
    return out

def ms_apply(state, op, arg):
    """multiset-per-key specification; state = frozenset of present node ids; may return several outcomes"""
    if op == 'add':
        _, n, uniq = arg
        if uniq:
            same = [m for m in state if keyof(m) == keyof(n)]
            if same: return [(state, m) for m in same]
        return [(state | {n}, n)]
    if op == 'lookup':
        same = [m for m in state if keyof(m) == arg[1]]
        return [(state, m) for m in same] if same else [(state, '0')]
    if op == 'replace':
        old, new = arg[1], arg[2]
        if old == '0': return [(state, '2')]
        if keyof(old) != keyof(new): return [(state, '3')]
        if old in state: return [(state - {old} | {new}, '0')]
        return [(state, '2')]
    if op == 'del':
        n = arg[1]
        if n != '0' and n in state: return [(state - {n}, '0')]
        return [(state, '2')]

def oracle(prog, s, cl, raw, unique_keys=True):
    h = history(prog, cl)
    ok = oracles.linearizable(h, frozenset(), ms_apply, maxops=16)
    if ok is False: return 'history is not linearizable against the multiset-per-key specification: ' + '; '.join('%s %s%s->%s' % (x[0], x[1], x[2][1:], x[3]) for x in h)
    # single owner: per node at most one successful del
    succ = {}
    for x in h:
        if x[1] in ('del', 'replace') and x[3] == '0': succ[x[2][1]] = succ.get(x[2][1], 0) + 1
    for n, c in succ.items():
        if c > 1: return 'node %s was handed to %d del / replace callers' % (n, c)
    # final state: count and chain agree with the history when every operation completed
    m = re.search(r'^- final count (\d+)', raw, flags=re.M)
    if m and all(x[5] is not None for x in h):
        adds = sum(1 for x in h if x[1] == 'add' and x[3] == x[2][1]); dels = sum(1 for x in h if x[1] == 'del' and x[3] == '0')     # a replace removes one and adds one
        if int(m.group(1)) != adds - dels: return 'count_nodes says %s but %d nodes were added and %d removed' % (m.group(1), adds, dels)
    m = re.search(r'^- chain (.*)$', raw, flags=re.M)
    if m and all(x[5] is not None for x in h):
        rank = {'b0': 0, 'b1': 8}
        def rk(n): return rank[n] if n in rank else {4: 2, 5: 10, 7: 14}[EH[int(n) - 3]]
        ch = [c.split(':') for c in m.group(1).split()]
        if any(rk(a[0]) > rk(b[0]) for a, b in zip(ch, ch[1:])): return 'final chain is not in split order: ' + m.group(1)
        live = [n for n, f in ch if not n.startswith('b') and int(f) & 1 == 0]
        present = (set(x[2][1] for x in h if x[1] == 'add' and x[3] == x[2][1]) | set(x[2][2] for x in h if x[1] == 'replace' and x[3] == '0')) - set(x[2][1] for x in h if x[1] in ('del', 'replace') and x[3] == '0')
        if set(live) != present: return 'final chain holds %s but the history leaves %s' % (sorted(live), sorted(present))
        if unique_keys:
            uadd = set(keyof(x[2][1]) for x in h if x[1] == 'add' and x[2][2])
            padd = set(keyof(x[2][1]) for x in h if x[1] == 'add' and not x[2][2]) | set(keyof(x[2][2]) for x in h if x[1] == 'replace' and keyof(x[2][2]) not in uadd)
            for k in uadd - padd:
                if sum(1 for n in live if keyof(n) == k) > 1: return 'two live nodes with uniquely-added key %s in the final chain' % (k,)
    return None

def contended(cl):
    return any(' cas ' in l and l.split('exp=')[1].split()[0] != l.rsplit('-> ', 1)[1] for l in cl) or any(' or ' in l for l in cl) and any(l.startswith(t + ' ') and ' cas ' in l for t in '0123' for l in cl)

def build(ctx):
    impl = build_scenario(ctx, 'scen_lfht', 'scen_lfht.c', extra_src=[REPO + s for s in LFHT_SRCS])
    model = build_model_driver(ctx, 'lfht', 'ExtractLfht.v', 'lfht_driver.ml')
    return impl, model

def gen(ctx, progs, n, pid):
    for prog in progs:          # a node may be handed to the table by one operation only
        used = re.findall(r'[AUP](\d)', prog)
        assert len(used) == len(set(used)), 'entry used by two insertions in ' + prog
    out = [c for c in corpus(pid) if len(c) == 2]
    for prog in progs[:3 if ctx.quick() else len(progs)]:
        th = [str(i) for i in range(prog.count('/') + 1)]
        for v in th:
            for point in range(1, 22 if ctx.quick() else 45, 1 if not ctx.quick() else 2):
                out.append((prog, parking(th, point, 1, v)))
    while len(out) < n:
        prog = ctx.rng.choice(progs); th = [str(i) for i in range(prog.count('/') + 1)]
        out.append((prog, bursty(ctx.rng, th, lo=60, hi=300)))
    return out

TRUSTED = ['Coq 8.16.1 kernel; no axioms (closed under the global context); no native_compute',
           'extraction: ExtrOcamlBasic only; ocaml/lfht_driver.ml (configuration: 2 buckets, 8 entries, order-preserving ranks of the reversed hashes)',
           'harness: verif_hooks.h, sched.c; canonicalisation and oracles in tools/lfht_common.py',
           'modelled: add, add_unique, lookup, del, replace at pc level; x86 locked RMW = atomic step (buffers provably always empty); plain initialising store of node->next folded into the preceding step (node private); '
           'RCU flavor = harness-provided (abstract); match() = key equality; fixed table size (resize is C09)']

def replay(ctx, rp):
    f = rp.get('failing_input') or {}
    impl, model = build(ctx)
    if not impl or not f: print('nothing to replay'); return 2
    rc, out = run_many([[impl, f['prog'], f['schedule']]])[0]
    cl = canon_c(out); print('\n'.join(cl[-80:]))
    o = oracle(f['prog'], f['schedule'], cl, out); print('verdict:', o or 'no violation'); return 1 if o else 0
