#!/usr/bin/env python3
"""setup_cmd: regenerate constants from /repo, build the whole Coq development (full .vo), offline."""
import sys, os
sys.path.insert(0, os.path.dirname(os.path.abspath(__file__)))
from vlib import *
ctx = Ctx('setup', 'quick', 1)
with Lock('coq'):
    ok = regen_constants(ctx)
    coq_makefile()
    rc, so, se = sh('timeout 3400 make -k -j%d' % NPROC, cwd=COQ, timeout=3500)
print((so + se)[-3000:] if rc else 'coq development built')
for f in ctx.failures: print('setup failure:', f.kind, f.what, f.detail[-500:])
sys.exit(1 if (rc or ctx.failures) else 0)
