#!/bin/bash
# usage: regress_seeded.sh [names...]  -- every seeded change under /verif/seeded must still be reported by the quick check of its property.
# Applies each patch to /repo, runs the check, reverts.  Nothing else may use /repo meanwhile.
cd /verif
names="$@"; [ -z "$names" ] && names=$(ls seeded)
for n in $names; do
  prop=$(python3 -c "import json;print(json.load(open('seeded/$n/meta.json'))['property'])")
  git -C /repo apply /verif/seeded/$n/patch.diff || { echo "$n: patch does not apply"; continue; }
  out=$(./check $prop --tier quick 2>&1 | grep -E "^(OK|VIOLATION)" | tail -1)
  git -C /repo checkout -- .
  case "$out" in VIOLATION*) echo "$n: caught ($out)";; *) echo "$n: MISSED ($out)";; esac
done
git -C /repo status --short
