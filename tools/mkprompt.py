#!/usr/bin/env python3
"""mkprompt.py <property id> <name> : prompt for a seeding sub-agent (tools/agent_prompt.tmpl) - the property's JSON, the scratch worktree /tmp/mut/wt_<name>, and
the changes already kept for that property, identified only by file, enclosing function and the first lines they add (nothing from /verif is shown)."""
import sys, json, os, re, glob
pid, name = sys.argv[1:3]
V = os.path.dirname(os.path.dirname(os.path.abspath(__file__)))
prop = next(json.loads(l) for l in open(os.path.join(V, 'properties.jsonl')) if json.loads(l)['id'] == pid)
known = []
for d in sorted(glob.glob(os.path.join(V, 'seeded', pid + '-*'))):
    diff = open(os.path.join(d, 'patch.diff')).read(); f = None; desc = []
    for l in diff.splitlines():
        if l.startswith('+++ b/'): f = l[6:]
        elif l.startswith('@@'):
            fn = l.split('@@')[2].strip() if l.count('@@') >= 2 else ''
            desc.append([f, fn, [], []])
        elif l.startswith('+') and not l.startswith('+++') and desc and len(desc[-1][2]) < 3 and l[1:].strip() and not l[1:].strip().startswith(('*', '/*')): desc[-1][2].append(l[1:].strip())
        elif l.startswith('-') and not l.startswith('---') and desc and len(desc[-1][3]) < 2 and l[1:].strip() and not l[1:].strip().startswith(('*', '/*')): desc[-1][3].append(l[1:].strip())
    known.append('; '.join('%s, in %s: %s' % (a, b[:80] or '(file scope)', ('adds "%s"' % ' / '.join(c)[:160]) if c else ('removes "%s"' % ' / '.join(r)[:160])) for a, b, c, r in desc[:3]))
t = open(os.path.join(V, 'tools', 'agent_prompt.tmpl')).read().replace('@ID@', name).replace('@PROP@', json.dumps(prop, indent=1))
if known:
    t += '\n\nAlready known changes, identified by file, enclosing function and the first lines they add (do NOT propose these or close variants; find a genuinely different change, preferably in a different function or mechanism named in the property\'s statement or anchors, or a different clause of the statement): ' + ' '.join('(%d) %s.' % (i + 1, k) for i, k in enumerate(known)) + '\n'
open('/tmp/mut/prompt_%s.txt' % name, 'w').write(t)
print('/tmp/mut/prompt_%s.txt' % name, len(t))
