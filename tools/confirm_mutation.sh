#!/bin/bash
# usage: confirm_mutation.sh <srcdir with patch.diff,run.sh,demo.*> <name>
# Confirms in a fresh scratch worktree: demo passes on the clean tree; patch applies, builds, test suite passes; demo fails with the patch.
src="$1"; name="$2"; wt=/tmp/mut/confirm_$name
rm -rf "$wt"; git -C /repo worktree prune
/verif/tools/mkworktree.sh "$wt" >/dev/null || { echo "worktree failed"; exit 2; }
cd "$src"
timeout 300 bash ./run.sh "$wt" >/tmp/mut/confirm_$name.clean.log 2>&1; rc_clean=$?
( cd "$wt" && git apply "$src/patch.diff" && make -j16 >/dev/null 2>&1 ); rc_build=$?
( cd "$wt" && make -k check -j8 2>&1 | grep -E "^# (FAIL|ERROR|PASS):" | sort | uniq -c | tr '\n' ' ' ) > /tmp/mut/confirm_$name.suite.log
timeout 300 bash ./run.sh "$wt" >/tmp/mut/confirm_$name.mut.log 2>&1; rc_mut=$?
git -C /repo worktree remove --force "$wt"; git -C /repo worktree prune
echo "name=$name demo_clean_rc=$rc_clean build_rc=$rc_build demo_mut_rc=$rc_mut suite: $(cat /tmp/mut/confirm_$name.suite.log)"
