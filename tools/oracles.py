"""Trace oracles.  They look for a concrete failing execution on the implementation; they never establish a property."""
import itertools, re

def history(lines, ops):
    """lines: canonical 't call op arg' / 't ret op val' lines -> list of (t, op, arg, ret, call_idx, ret_idx or None)"""
    open_, out = {}, []
    for i, l in enumerate(lines):
        p = l.split()
        if len(p) >= 3 and p[1] == 'call' and p[2] in ops:
            open_[p[0]] = (p[2], p[3] if len(p) > 3 else None, i)
        elif len(p) >= 3 and p[1] == 'ret' and p[2] in ops and p[0] in open_:
            op, arg, ci = open_.pop(p[0]); out.append((p[0], op, arg, p[3] if len(p) > 3 else None, ci, i))
    for t, (op, arg, ci) in open_.items(): out.append((t, op, arg, None, ci, None))
    return out

def linearizable(hist, init, apply_fn, maxops=14):
    """Wing-Gong search. apply_fn(state, op, arg) -> (state', ret). Pending ops may be dropped or linearised.
    Returns True/False, or None when the history is too long to decide."""
    if len(hist) > maxops: return None
    n = len(hist)
    INF = 10**9
    calls = [h[4] for h in hist]; rets = [h[5] if h[5] is not None else INF for h in hist]
    seen = set()
    def rec(done, state):
        key = (done, state)
        if key in seen: return False
        seen.add(key)
        if all((done >> i) & 1 or hist[i][5] is None for i in range(n)): return True
        # minimal: an op may go next if no undone op returned before its call
        minret = min([rets[i] for i in range(n) if not (done >> i) & 1] + [INF])
        for i in range(n):
            if (done >> i) & 1 or calls[i] > minret: continue
            res = apply_fn(state, hist[i][1], hist[i][2])
            if isinstance(res, tuple): res = [res]
            for st2, r in res:
                if hist[i][5] is None or r == hist[i][3]:
                    if rec(done | (1 << i), st2): return True
        return False
    return rec(0, init)

def fifo_apply(state, op, arg):
    if op == 'enq': return state + (arg,), '0' if False else None
    if op == 'deq':
        if not state: return state, '0'
        return state[1:], state[0]
    raise ValueError(op)

def lifo_apply(state, op, arg):
    if op == 'push': return state + (arg,), None
    if op == 'pop':
        if not state: return state, '0'
        return state[:-1], state[-1]
    raise ValueError(op)

def gp_reclaim_oracle(lines, ops, ret_op, locname):
    """Each operation is one read-side section.  A node returned by `ret_op` (or retired by 'call free') at step tau may be
    reclaimed once every operation in progress at tau has returned; any later access to a location of that node by an
    operation that began after tau is a violation.  locname(loc_string) -> node id or None."""
    inprog, retired = {}, []
    for i, l in enumerate(lines):
        p = l.split()
        if len(p) < 2: continue
        t, k = p[0], p[1]
        if k == 'call' and p[2] in ops: inprog[t] = i
        elif k == 'call' and p[2] == 'free': retired.append([p[3], i, {u: s for u, s in inprog.items() if u != t}])
        elif k == 'ret' and p[2] in ops:
            if p[2] == ret_op and len(p) > 3 and p[3] != '0': retired.append([p[3], i, {u: s for u, s in inprog.items() if u != t}])
            inprog.pop(t, None)
            for r in retired:
                if t in r[2] and r[2][t] < r[1]: r[2].pop(t)
        elif k in ('load', 'cas', 'xchg', 'store', 'or'):
            node = locname(p[2])
            if node is None: continue
            for rn, tau, waiting in retired:
                if rn == node and i > tau and not waiting and inprog.get(t, -1) > tau:
                    return 'step %d "%s" touches node %s, retired at step %d; every operation in progress then has returned and this operation began later' % (i, l, node, tau)
    return None

def sleeper_order(raw):
    """Program-order conformance with the futex handshake models (Futex/CrFutex.v: H_Dec ; H_Mb1 ; H_Splice ; H_Check ; ... ; H_Wait - and the same shape in wait_gp,
    the rcu_barrier completion wait, the defer and work-queue threads): a thread that has announced its sleep by decrementing futex word L must look at the
    condition it sleeps on (any access to another location) before it blocks in FUTEX_WAIT on L.  Returns a description of the first violation or None."""
    since = {}
    for l in raw.splitlines():
        p = l.split()
        if len(p) < 3 or not p[0].isdigit(): continue
        t, k, loc = p[0], p[1], p[2]
        d = since.setdefault(t, {})
        if k == 'dec': 
            for L in d:
                if L != loc: d[L] += 1
            d[loc] = 0
        elif k == 'futex_wait':
            if loc in d and d[loc] == 0 and p[-1] in ('sleep', 'EAGAIN'):
                return 'thread %s blocks in FUTEX_WAIT on %s right after announcing the sleep (decrement of %s) without looking at the condition again in between: a wake-up sent between its earlier look and the announcement is lost' % (t, loc, loc)
        elif k in ('load', 'xchg', 'cas', 'add', 'inc', 'or', 'and', 'lock', 'trylock', 'store'):
            for L in d:
                if L != loc: d[L] += 1
    return None

def waker_order(raw):
    """Program-order conformance of the WAKING side with the futex handshake models (Futex/*.v: the waker stores the new value of the word, then issues FUTEX_WAKE):
    when a thread issues FUTEX_WAKE on word L, its most recent write to L must be more recent than its most recent load of L that returned the value sleepers sleep
    on (the `val` of the FUTEX_WAIT calls on L in this run).  A wake-up issued first and the store afterwards is spent on a sleeper that re-checks the word, finds it
    unchanged and goes back to sleep.  (A late wake-up - store done, thread delayed before the system call, sleeper already in its next round - is legitimate and
    passes: the store precedes it.)  Returns a description of the first violation or None."""
    sleepval = {}
    for m in re.finditer(r'^\d+ futex_wait (\S+) val=(-?\d+)', raw, flags=re.M): sleepval.setdefault(m.group(1), set()).add(m.group(2))
    lastw = {}; lastl = {}
    for n, l in enumerate(raw.splitlines()):
        p = l.split()
        if len(p) < 3 or not p[0].isdigit(): continue
        t, k, loc = p[0], p[1], p[2]
        if k == 'load' and loc in sleepval and p[-1] in sleepval[loc]: lastl[(t, loc)] = n
        elif k in ('store', 'xchg', 'dec', 'inc', 'add', 'addret', 'or', 'and') or (k == 'cas' and len(p) > 6 and p[3][4:] == p[-1]): lastw[(t, loc)] = n
        elif k == 'futex_wake' and loc in sleepval and (t, loc) in lastl and lastw.get((t, loc), -1) < lastl[(t, loc)]:
            return 'thread %s issues FUTEX_WAKE on %s without having stored the new value of the word since it last read the value sleepers sleep on (%s): the woken thread re-checks the word, finds it unchanged and sleeps again - the wake-up is spent' % (t, loc, ','.join(sorted(sleepval[loc])))
    return None
