#!/usr/bin/env python3
"""Generate coq/Properties/Properties_<id>.v: for each (name, module, lemma) print the lemma's full statement
(as Coq prints it) and close it with `exact`.  The generated file is committed source; re-run only when theorems are added."""
import subprocess, sys, re, os, json
COQ=os.path.join(os.path.dirname(os.path.dirname(os.path.abspath(__file__))),'coq')
def gen(pid, header, imports, items, extra_open=''):
    probe='\n'.join(['Require Import %s.'%m for m in imports])+'\n'+extra_open+'\nSet Printing Width 110.\nSet Printing Depth 1000.\n'
    for name,lemma,_ in items: probe+='Check @%s.\n'%lemma
    open('/tmp/_probe.v','w').write(probe)
    r=subprocess.run(['coqc','-q','-R',COQ,'Urcu','/tmp/_probe.v'],capture_output=True,text=True,cwd='/tmp')
    if r.returncode: print(r.stdout[-3000:],r.stderr[-3000:]); sys.exit(1)
    chunks=[c for c in re.split(r'^(?=\S)',r.stdout,flags=re.M) if c.strip()]
    out='(* %s\n   Property theorems only: each is the full statement, closed by `exact`, followed by Print Assumptions. *)\n'%header
    out+='\n'.join(['Require Import %s.'%m for m in imports])+'\n'+extra_open+'\n\n'
    for (name,lemma,comment),ch in zip(items,chunks):
        ch=ch.strip(); i=ch.index(':'); ty=ch[i+1:].strip()
        ty=re.sub(r'\n\s*', '\n    ', ty)
        out+='(* %s *)\nTheorem %s :\n    %s.\nProof. exact (@%s). Qed.\nPrint Assumptions %s.\n\n'%(comment,name,ty,lemma,name)
    p=os.path.join(COQ,'Properties','Properties_%s.v'%pid); open(p,'w').write(out)
    r=subprocess.run(['coqc','-q','-R',COQ,'Urcu',p],capture_output=True,text=True,cwd=COQ)
    print(pid, 'rc',r.returncode, r.stdout.count('Closed under the global context'),'closed of',len(items)); 
    if r.returncode: print(r.stderr[-3000:])
if __name__=='__main__':
    spec=json.load(open(sys.argv[1]))
    gen(spec['id'],spec['header'],spec['imports'],[tuple(x) for x in spec['items']],spec.get('open',''))
