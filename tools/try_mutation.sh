#!/bin/bash
# usage: try_mutation.sh <patch.diff> <tier> <property ids...>  -- applies the patch to /repo, runs the checks, reverts
p="$1"; tier="$2"; shift 2
git -C /repo apply "$p" || exit 2
for id in "$@"; do echo "== $id"; (cd /verif && ./check $id --tier $tier 2>&1 | tail -6); done
git -C /repo checkout -- . ; git -C /repo status --short
