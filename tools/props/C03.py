"""C03 - call_rcu: proofs (CallRcu/CallRcuExec.v, Futex/CrFutex.v); refinement check of the real call_rcu code's traces against
the executable model; exactly-once / after-grace-period / stuck-state oracles."""
from vlib import *
import callrcu_common as CR
FILES = ['src/urcu-call-rcu-impl.h', 'src/urcu.c', 'include/urcu/call-rcu.h', 'src/wfcqueue.c', 'include/urcu/static/wfcqueue.h']
PROGS = ['C5Hc0K/()', 'Hc0K/()', 'C0C1/(C2)/()()', 'c0C2/(C4)/(C5)', 'HC0C1K/C2(C3)/()', '(C0)C1/HC2KC3/()', 'C0/C1/C2/(())']
TRUSTED = ['Coq 8.16.1 kernel; no axioms', 'extraction: ExtrOcamlBasic only; ocaml/callrcu_driver.ml', 'projection: tools/callrcu_common.py project() (trusted)',
           'harness: sched.c (library-created helper threads are scheduled threads; futex emulation)',
           'modelled: wfcqueue as an atomic FIFO linearised at the tail exchange (C10); the helper\'s synchronize_rcu() as start/end of an abstract grace period (C01); '
           'per-CPU helpers: one helper installed for the (single, simulated) CPU, torn down by free_all_cpu_call_rcu_data; released call_rcu_data structures are quarantined; qlen is debugging only']
# per-CPU helpers: thread 0 installs a helper for its CPU and uses it; another thread tears the per-CPU helpers down while thread 0 is frozen at every point of
# its operations (in particular inside call_rcu(), after it has selected the helper and before it has enqueued)
CPUPROGS = ['AC0C1/Z', 'AC0/ZC1/()', 'Ac0C2/Z()']
def cpu_cases(ctx):
    out = []
    for prog in CPUPROGS[:2 if ctx.quick() else 3]:
        th = [str(i) for i in range(prog.count('/') + 1)]; allth = th + [str(len(th) + i) for i in range(2)]
        for point in range(1, 140 if ctx.quick() else 260, 2 if ctx.quick() else 1):
            # thread 0 frozen after `point` steps; the tearing-down thread and the helper threads run (the teardown needs the helper to stop) until they block; then all
            out.append((prog, '0a' * point + ''.join(o + chr(ord('a') + int(o)) for o in allth[1:]) * 120))
    return out
def run(ctx):
    ctx.cov['source_hash'] = source_hash(FILES)
    prove(ctx)
    driver = build_model_driver(ctx, 'callrcu', 'ExtractCallRcu.v', 'callrcu_driver.ml')
    CR.run_scen(ctx, PROGS + CPUPROGS, 300 if ctx.quick() else 4000, 'C03', driver, extra_cases=cpu_cases(ctx) + CR.handshake_cases(ctx))
    return finish(ctx, trusted=TRUSTED, rule='Step/Flush/Spurious schedules over application threads and library-created helper threads: parking sweeps (step and operation level) + bursty random; '
                  'programs with concurrent callers, readers, chained callbacks, per-thread helpers created and destroyed with callbacks pending; non-trivial = a helper slept')
def replay(ctx, rp):
    print(json.dumps({k: v for k, v in (rp.get('failing_input') or {}).items() if k != 'schedule'}, indent=1)); return run(ctx)
