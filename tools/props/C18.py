"""C18 - RCU lists: proof (RcuList/RcuList.v: on x86-TSO a reader's cursor is always the head or a node whose forward pointer is already
initialised in memory, for add / add_tail / del / replace and every flush delay); refinement check of the real rculist.h / rcuhlist.h under the
controlled scheduler (every reader load must be the load of the model's cursor and return the model's value; final chain equal);
traversal oracle (terminates, entries only, initialised, resident nodes exactly once and in order, only nodes present during the traversal,
nothing touched after its grace period)."""
import re
from vlib import *
FILES = ['include/urcu/rculist.h', 'include/urcu/rcuhlist.h', 'include/urcu/list.h', 'include/urcu/hlist.h', 'include/urcu/static/pointer.h']
TRUSTED = ['Coq 8.16.1 kernel; no axioms', 'extraction: ExtrOcamlBasic only; ocaml/rculist_driver.ml', 'projection of traces onto model choices: tools/props/C18.py (trusted)',
           'harness: scen_list.c, sched.c, plain_hooks.c (the scenario is compiled with -fsanitize=thread instrumentation and our own callbacks: every plain store to a list node or head is a scheduling point and goes through the simulated store buffer like the hooked publication stores)',
           'modelled: forward pointers only (prev pointers are never read by RCU readers); one updater; grace period = harness-provided wait for open sections']
PROGS = ['a0d0gt1t2d1a3d2d3gt4/FfFF/fFfF', 'a0a1t2d1r03ga4d2g/FfFF/fFfF', 'h0h1h2x1gh3x0x2g/HGHH/GHGH', 'a0t1a2d0d1d2ga3/FFFF/ffff/Ff', 'h4h5x5h6x4gx6/HHHH/GGGG', 't0t1r02d1gr23d3/FfFf/fFfF',
         'a0h0a1h1d0x0gd1x1g/FHFH/HFHF']
SZ, OL, OH = 56, 16, 40

def nodeid(v, off):
    if v in ('0',): return 0
    m = re.match(r'&?E\+(\d+)$', v)
    if m and (int(m.group(1)) - off) % SZ == 0 and int(m.group(1)) >= off: return 2 + (int(m.group(1)) - off) // SZ
    if v in ('&LH+0', 'LH+0', '&HH+0', 'HH+0'): return 0
    return None

def is_next(loc, off):
    return loc == ('LH+0' if off == OL else 'HH+0') or (loc.startswith('E+') and (int(loc[2:]) - off) % SZ == 0 and int(loc[2:]) >= off)

def project(raw, prog):
    """-> (list block, hlist block).  Every store of the updater is in the trace (the scenario is built with instrumented plain stores): a store to a forward
    pointer is a model step 'U loc val' (the driver checks that it is the store the model issues at that point, so the order 'initialise, then publish' is checked,
    not assumed); stores to other fields only occupy a slot of the FIFO store buffer."""
    m = re.search(r'^- layout ent (\d+) l (\d+) h (\d+)', raw, flags=re.M)
    if not m or (int(m.group(1)), int(m.group(2)), int(m.group(3))) != (SZ, OL, OH): return None
    up = prog.split('/')[0]; lops = []; hops = []; i = 0
    while i < len(up):
        c = up[i]
        if c in 'atd': lops.append('%s%d' % (c, int(up[i + 1]) + 2)); i += 2
        elif c == 'r': lops.append('r%d,%d' % (int(up[i + 1]) + 2, int(up[i + 2]) + 2)); i += 3
        elif c == 'h': hops.append('a%d' % (int(up[i + 1]) + 2)); i += 2
        elif c == 'x': hops.append('d%d' % (int(up[i + 1]) + 2)); i += 2
        else: i += 1
    L = ['T ' + ' '.join(lops)]; H = ['T ' + ' '.join(hops)]
    pend = []
    for l in raw.splitlines():
        p = l.replace(' (fwd)', '').split()
        if len(p) < 3 or not p[0].isdigit(): continue
        t, k = p[0], p[1]
        if t == '0' and k == 'store':
            blk = None
            for B, off in ((L, OL), (H, OH)):
                if is_next(p[2], off):
                    v = nodeid(p[3][2:], off); B.append('U %s %s' % (nodeid(p[2], off), v if v is not None else 999)); blk = B
            pend.append(blk)
        elif t == '0' and k == 'flush' and pend:
            b = pend.pop(0)
            if b is not None: b.append('F')
        elif t != '0' and k == 'load' and (p[2] in ('LH+0', 'HH+0') or p[2].startswith('E+')):
            off = OL if is_next(p[2], OL) else OH if is_next(p[2], OH) else None
            if off is None: continue                                    # load of the payload (magic)
            loc = nodeid(p[2], off); v = nodeid(p[-1], off)
            (L if off == OL else H).append('R %s %s %s' % (t, loc, v if v is not None else 999))
    L.append('.'); H.append('.')
    return L, H

def timeline(raw):
    """content of the list and of the hlist after every event index: the chain of forward pointers in committed memory (a store takes effect when it is flushed)"""
    ev = [l.split() for l in raw.splitlines() if l and l[0].isdigit()]
    mem = {'LH+0': '&LH+0'}; states = []
    def chain(head, off):
        out = []; cur = head
        for _ in range(40):
            v = mem.get(cur, '0')
            if v in ('&' + head, '0'): break
            mm = re.match(r'&E\+(\d+)$', v)
            if not mm or (int(mm.group(1)) - off) % SZ: out.append(-1); break
            out.append((int(mm.group(1)) - off) // SZ); cur = 'E+' + mm.group(1)
        return out
    lst = []; hl = []
    for p in ev:
        if p[1] == 'flush' and len(p) > 3:
            mem[p[2]] = p[3][2:]
            lst = chain('LH+0', OL); hl = chain('HH+0', OH)
        states.append((lst, hl))
    return ev, states

def oracle(prog, s, cl, raw):
    if 'DEADLOCK' in raw: return 'stuck state'
    if 'STEP LIMIT' in raw: return 'live-lock: a traversal or the grace period does not terminate (step limit)'
    m = re.search(r'^.*\bBUG\b.*$', raw, flags=re.M)
    if m: return m.group(0)
    m = re.search(r'^(\d+) UAF (\S+)', raw, flags=re.M)
    if m: return 'reader %s touched %s, a node that was removed and whose grace period had elapsed' % (m.group(1), m.group(2))
    ev, states = timeline(raw)
    open_ = {}; vis = {}
    for i, p in enumerate(ev):
        t, k = p[0], p[1]
        if k == 'note' and p[2] == 'rl': open_[t] = i
        elif k == 'note' and p[2] == 'visited': vis[t] = (p[3] if len(p) > 3 else '')
        elif k == 'ret' and p[2] in ('trav', 'htrav') and t in open_:
            c = open_.pop(t); which = 0 if p[2] == 'trav' else 1; v = [x for x in vis.pop(t, '').split(',') if x]
            if any(x.endswith('!') for x in v): return 'reader %s visited entry %s whose contents were not initialised (or already poisoned)' % (t, [x for x in v if x.endswith('!')])
            v = [int(x) for x in v]
            if len(set(v)) != len(v): return 'reader %s visited an entry twice: %s' % (t, v)
            window = [st[which] for st in states[c:i + 1]]
            resident = [n for n in window[0] if all(n in st for st in window)]
            ever = set(n for st in window for n in st)
            for n in resident:
                if n not in v: return 'traversal by reader %s (events %d-%d) missed entry %d, which was in the list during the whole traversal; visited %s' % (t, c, i, n, v)
            for n in v:
                if n not in ever: return 'traversal by reader %s (events %d-%d) visited entry %d, which was not in the list at any moment of the traversal' % (t, c, i, n)
            rv = [n for n in v if n in resident]
            if rv != resident: return 'traversal by reader %s visited the resident entries in order %s, list order is %s' % (t, rv, resident)
    return None

def run(ctx):
    ctx.cov['source_hash'] = source_hash(FILES)
    prove(ctx)
    impl = build_scenario(ctx, 'scen_list', 'scen_list.c', plain=True)
    model = build_model_driver(ctx, 'rculist', 'ExtractRcuList.v', 'rculist_driver.ml')
    if impl:
        cases = [c for c in corpus('C18') if len(c) == 2]
        for prog in PROGS[:5 if ctx.quick() else len(PROGS)]:
            th = [str(i) for i in range(prog.count('/') + 1)]
            for v in th[1:]:                       # a reader frozen after each of its loads while the updater completes k operations, store buffered or flushed
                for point in range(1, 20 if ctx.quick() else 40):
                    for k0 in (0, 3, 8, 14):
                        cases.append((prog, '0a' * k0 + v * point + '>0a' * (1 + point % 3) + v * 3 + '>0a>0a'))
            for point in range(1, 30, 2): cases.append((prog, parking(th, point, 1, '0', point % 2)))
            # the updater suspended after each of its stores (plain ones included), all of them visible, while every reader does one whole traversal
            for point in range(1, 70 if ctx.quick() else 120): cases.append((prog, '0a' * point + ''.join('>' + v for v in th[1:])))
        n = 700 if ctx.quick() else 6000
        while len(cases) < n:
            prog = ctx.rng.choice(PROGS); th = [str(i) for i in range(prog.count('/') + 1)]
            cases.append((prog, bursty(ctx.rng, th, lo=40, hi=300, flush=ctx.rng.choice([0.0, 0.1, 0.4]), means=(1, 2, 4, 9))))
        tail = ''.join(chr(ord('a') + i) + str(i) for i in range(6)) * 200
        rs = run_many([[impl, p, s + tail] for p, s in cases], timeout=20)
        nor = ndis = 0; blocks = []; meta = []; distinct = set()
        for (p, s), (rc, raw) in zip(cases, rs):
            mb = re.search(r'^.*\bBUG\b.*$', raw, flags=re.M)
            o = mb.group(0) if mb else ('abnormal run: ' + raw[-300:]) if ('TIMEOUT' in raw or 'ABORT' in raw) else oracle(p, s, None, raw)
            if o:
                nor += 1
                if nor <= 3: ctx.fail('oracle', 'RCU list traversal oracle', o, concrete={'scenario': 'scen_list', 'prog': p, 'schedule': s + tail, 'verdict': o})
            pr = project(raw, p)
            if pr is None: ctx.fail('harness', 'struct layout of scen_list.c', raw[:200]); break
            for which, b in zip(('list', 'hlist'), pr): blocks.append(b); meta.append((p, s, which, raw))
            distinct.add(hash(raw))
            if len(ctx.cov['samples']) < 3: ctx.cov['samples'].append({'scenario': 'scen_list', 'prog': p, 'schedule': s[:60]})
        if model and blocks:
            rc, mo, _ = sh([model], inp='\n'.join('\n'.join(b) for b in blocks) + '\n', timeout=300); ml = mo.splitlines()
            if len(ml) != len(blocks): ctx.fail('harness', 'rculist driver output', 'expected %d verdicts, got %d' % (len(blocks), len(ml)))
            else:
                for (p, s, which, raw), r in zip(meta, ml):
                    bad = None
                    if not r.startswith('ok'): bad = r
                    else:
                        fin = re.search(r'^- %s(.*)$' % which, raw, flags=re.M)
                        want = ' '.join(str(int(x) + 2) for x in fin.group(1).split()) if fin else ''
                        if r.split('chain', 1)[1].strip() != want: bad = 'final chain: model "%s", implementation "%s"' % (r.split('chain', 1)[1].strip(), want)
                        else: ctx.cov['model_actions_checked'] = ctx.cov.get('model_actions_checked', 0) + int(r.split()[1])
                    if bad:
                        ndis += 1
                        if ndis <= 3: ctx.fail('correspondence', 'RcuList.exec accepts the %s trace of rculist.h / rcuhlist.h' % which, 'prog %s schedule %s...: %s' % (p, s[:60], bad),
                                               concrete={'scenario': 'scen_list', 'prog': p, 'schedule': s + tail, 'verdict': bad})
                    else: ctx.cov['traces_validated_against_impl'] += 1
        ctx.cov['evaluations'] += len(cases); ctx.cov['distinct_nontrivial'] += len(distinct)
        ctx.cov['disagreements'] = ndis; ctx.cov['oracle_violations'] = nor
        ctx.cov['input_distribution']['scen_list'] = {'cases': len(cases), 'programs': PROGS}
    return finish(ctx, trusted=TRUSTED, rule='one updater (add, add_tail, del, replace, hlist add/del, grace periods with poisoning) and 1-3 readers using all four traversal macros; '
                  'reader frozen after each load while the updater completes 1-3 operations with the store buffered or flushed + parking of the updater + bursty schedules with flush probability 0-0.4')

def replay(ctx, rp):
    f = rp.get('failing_input') or {}
    impl = build_scenario(ctx, 'scen_list', 'scen_list.c', plain=True)
    if not impl or not f: print('nothing to replay'); return 2
    rc, raw = run_many([[impl, f['prog'], f['schedule']]])[0]
    print(raw[-3000:]); o = oracle(f['prog'], f['schedule'], None, raw); print('verdict:', o or 'no oracle violation'); return 1 if o else 0
