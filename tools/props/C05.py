"""C05 - rculfhash: invariants + resident-node-found theorems; correspondence of Lfht.v with src/rculfhash.c; multiset linearizability oracle."""
from vlib import *
import lfht_common as L
PROGS = ['A0A1/A5A3/L0XL1XL5XL3X', 'A0L0X/A1L1X/L0L1L0', 'A0A1A5/L1XL0X/L0XL1X', 'A4A3/A0L4X/L3XL0X', 'A0A1/L0XL0/L0XA5']
def run(ctx):
    ctx.cov['source_hash'] = source_hash(L.FILES)
    prove(ctx)
    impl, model = L.build(ctx)
    if impl:
        cases = L.gen(ctx, PROGS, 400 if ctx.quick() else 5000, 'C05')
        corr_schedules(ctx, 'Lfht.v vs src/rculfhash.c', impl, model, cases, L.canon_c, oracle=L.oracle, nontrivial=L.contended, tail='012345' * 200, scenario='scen_lfht')
    return finish(ctx, trusted=L.TRUSTED, rule='corpus + parking sweeps (each thread frozen after k steps) + bursty schedules on colliding keys (hash 5 x4, 7, 4) in a 2-bucket table; '
                  'non-trivial = a failed cmpxchg or a removal helped by another thread; distinct = distinct (program, canonical trace)')
replay = L.replay
