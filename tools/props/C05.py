"""C05 - rculfhash: invariants + resident-node-found theorems; correspondence of Lfht.v with src/rculfhash.c; multiset linearizability oracle."""
from vlib import *
import lfht_common as L
import lfhtx_common as X
XPROGS = ['A0L0P2/A7T/L0NL0N', 'A0A3L0P7/A2A5T/TL0NT', 'A0A3A4/L0L3TL4/Z2Z1Z0', 'U0U3U6/Z3L6L3T/Z1L0T', 'A3A6L3X/Z2Z0/L6TL3', 'A0U2L0P7/L0NL0/L0XTL0X', 'A3A5L3X/U8L5NT/Z2A9Z1', 'U0R2R7/L0L0L0T/L0XTU1']
XCONFS = [('2', '8', 'o'), ('4', '8', 'o'), ('1', '8', 'c'), ('2', '8', 'm'), ('8', '8', 'o')]
PROGS = ['A0A1L0P2/L1XL0X/L0P7L2X', 'A0A1/A5A3/L0XL1XL5XL3X', 'A0L0X/A1L1X/L0L1L0', 'A0A1A5/L1XL0X/L0XL1X', 'A4A3/A0L4X/L3XL0X', 'A0A1/L0XL0/L0XA5']
def run(ctx):
    ctx.cov['source_hash'] = source_hash(L.FILES)
    prove(ctx)
    impl, model = L.build(ctx)
    if impl:
        cases = L.gen(ctx, PROGS, 400 if ctx.quick() else 5000, 'C05')
        corr_schedules(ctx, 'Lfht.v vs src/rculfhash.c', impl, model, cases, L.canon_c, oracle=L.oracle, nontrivial=L.contended, tail='012345' * 200, scenario='scen_lfht')
        # plain stores (node->next before the insertion / replacement cmpxchg, reverse_hash) as scheduling points and buffered stores: oracle only
        pimpl = build_scenario(ctx, 'scen_lfht_plain', 'scen_lfht.c', extra_src=[REPO + s for s in L.LFHT_SRCS], plain=True)
        if pimpl: corr_schedules(ctx, 'rculfhash with instrumented plain stores', pimpl, None, cases[::3 if ctx.quick() else 2], L.canon_c, oracle=L.oracle, nontrivial=L.contended, tail='012345' * 200, scenario='scen_lfht_plain (oracle only)')
    ximpl = X.build(ctx)
    if ximpl: X.run_cases(ctx, 'rculfhash all operations with concurrent resize', ximpl, X.gen(ctx, XPROGS, 300 if ctx.quick() else 4000, 'C05x', XCONFS))
    X.run_partitioned_faults(ctx, 'lookups and traversals during partitioned resizes with thread-creation faults', 'C05p', 120 if ctx.quick() else 1500)
    return finish(ctx, trusted=L.TRUSTED + ['oracle-only scenario scen_lfhtx.c: add / add_unique / add_replace / replace / del / lookup / next_duplicate / traversal with explicit grow and shrink (abstract RCU flavor, quarantining allocator)'], rule='corpus + parking sweeps (each thread frozen after k steps) + bursty schedules on colliding keys (hash 5 x4, 7, 4) in a 2-bucket table; '
                  'non-trivial = a failed cmpxchg or a removal helped by another thread; distinct = distinct (program, canonical trace)')
def replay(ctx, rp):
    return X.replay(ctx, rp) if (rp.get('failing_input') or {}).get('scenario') == 'scen_lfhtx' else L.replay(ctx, rp)
