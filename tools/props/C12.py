"""C12 - RCU lock-free queue: proof (Lfq/*.v) + lock-step correspondence of the extracted model with
static/rculfqueue.h under the controlled scheduler + FIFO / reclamation oracles on the implementation traces."""
import re, os, sys
from vlib import *
import oracles

FILES = ['include/urcu/static/rculfqueue.h', 'include/urcu/rculfqueue.h', 'src/rculfqueue.c']
PROGS = ['E0E1/DDD/E2D', 'E0D/E1D/DD', 'E0E1E2/DD/DE3', 'E0/D/E1/D', 'E0E1/E2E3/DDDD', 'DE0D/E1/DD']
TRUSTED = ['Coq 8.16.1 kernel (coqc; vm_compute not needed by these proofs; no native_compute)',
           'axioms: none (every theorem closed under the global context)',
           'extraction: ExtrOcamlBasic only; ocaml/lfq_driver.ml',
           'harness: verif_hooks.h, sched.c (scheduler), canonicalisation in tools/props/C12.py',
           'modelled: RCU grace period = abstract step enabled when every operation in progress is younger (ghost clock); '
           'x86 locked cmpxchg = atomic step; make_dummy malloc = fresh ids from a per-thread pool; no node reuse inside one run']

def nid(v):
    if v == '0': return '0'
    m = re.match(r'&?U\+(\d+)$', v)
    if m: return str(10 + int(m.group(1)) // 16)
    m = re.match(r'&?D\+(\d+)$', v)
    if m:
        o = int(m.group(1)); j = o // 40
        if o % 40 not in (0, 16): return v
        return '1' if j == 0 else str(30 + j - 1)
    return v
def loc(l):
    if l == 'q+0': return 'head'
    if l == 'q+8': return 'tail'
    n = nid(l)
    return 'next(%s)' % n
def canon_c(out):
    res = []
    for l in out.splitlines():
        l = re.sub(r' mo=-?\d+', '', l)
        p = l.split()
        if len(p) < 2 or not p[0].isdigit(): continue
        t, k = p[0], p[1]
        if k in ('start', 'exit'): continue
        if k == 'call':
            if p[2] == 'enq': res.append('%s call enq %s' % (t, nid(p[3])))
            elif p[2] == 'deq': res.append('%s call deq' % t)
            else: res.append('%s call free %s' % (t, nid(p[3])))
        elif k == 'ret':
            if p[2] == 'enq': res.append('%s ret enq' % t)
            else: res.append('%s ret deq %s' % (t, nid(p[3])))
        elif k == 'load': res.append('%s load %s -> %s' % (t, loc(p[2]), nid(p[4])))
        elif k == 'cas': res.append('%s cas %s exp=%s new=%s -> %s' % (t, loc(p[2]), nid(p[3][4:]), nid(p[4][4:]), nid(p[6])))
        else: res.append(' '.join(p))
    return res

def oracle(ctx, prog, sched, cl, raw):
    """property oracles on one implementation trace; returns a description of the failure or None"""
    if 'DEADLOCK' in raw or 'STEP LIMIT' in raw or 'ABORT' in raw or 'BUG' in raw: return 'abnormal run: ' + raw[-200:]
    m = re.search(r'^(\d+) solo \d+ LIMIT', raw, flags=re.M)
    if m: return 'thread %s running alone does not complete its operation while another thread is suspended inside enqueue / dequeue (between linking a node and advancing the tail the queue must be helped along, not waited for)' % m.group(1)
    hist = oracles.history([re.sub(r'^(\d+) (call|ret) (enq|deq)', r'\1 \2 \3', l) for l in cl], ('enq', 'deq'))
    hist = [(t, op, arg, (None if op == 'enq' else r), c, ri) for (t, op, arg, r, c, ri) in hist]
    for h in hist:
        if h[1] == 'deq' and h[3] not in (None, '0') and (h[3] == '1' or int(h[3]) >= 30): return 'dequeue returned dummy node %s' % h[3]
    ok = oracles.linearizable(hist, (), oracles.fifo_apply)
    if ok is False: return 'history is not a linearizable FIFO history'
    g = oracles.gp_reclaim_oracle(cl, ('enq', 'deq'), 'deq', lambda l: (re.match(r'next\((\d+)\)', l) or [None, None])[1])
    if g: return 'reclamation: ' + g
    # destroy succeeds iff no user node is left
    m = re.search(r'^- destroy (-?\d+)', raw, flags=re.M)
    if m:
        left = sum(1 for h in hist if h[1] == 'enq') - sum(1 for h in hist if h[1] == 'deq' and h[3] not in (None, '0'))
        if (m.group(1) == '0') != (left == 0): return 'cds_lfq_destroy_rcu returned %s with %d user nodes left' % (m.group(1), left)
    return None

def two_dummy_cases():
    out = []
    # two dequeuers suspended where each has seen the same last node and is about to append a dummy, enqueues in between: the queue ends as dummy, user node, dummy -
    # cds_lfq_destroy_rcu() at quiescence must still refuse (the end-of-run oracle compares its answer with the nodes left)
    for k1 in range(4, 20):
        for k2 in range(1, 12):
            out.append(('E0E1E2/D/D', '>0' + '1' * k1 + '2' * k2 + '>0>1>0>2'))
    # two dummies in a row with a node enqueued behind them: a slow dequeuer (thread 1) frozen k steps in (it has seen the last node), a complete dequeue appends its
    # dummy, the slow one goes on j steps (appends a second dummy, loses the head exchange), an enqueue completes, then two fresh dequeues, then the slow one ends
    # a thread suspended at every point of its enqueue / dequeue - in particular between its two compare-and-swaps - while another operation runs alone
    for prog in ('E0/E1', 'E0/E1D', 'E0E1D/D', 'E0D/E1'):
        for k in range(0, 24):
            out.append((prog, '0' * k + '}1}1'))
    for k in range(2, 16):
        for j in range(1, 22, 2):
            out.append(('E0DDD/D/E1', '>0' + '1' * k + '>0' + '1' * j + '>2' + '>0>0' + '1' * 200))
    return out

def gen_schedules(ctx, n):
    out = [c for c in corpus('C12') if len(c) == 2]
    for prog in PROGS[:3 if ctx.quick() else len(PROGS)]:
        th = [str(i) for i in range(prog.count('/') + 1)]
        for v in th:
            for point in range(1, 16 if ctx.quick() else 28):
                out.append((prog, parking(th, point, 1, v)))
    while len(out) < n:
        prog = ctx.rng.choice(PROGS); th = [str(i) for i in range(prog.count('/') + 1)]
        out.append((prog, bursty(ctx.rng, th)))
    return out

def contended(cl):
    return any(' cas ' in l and l.split('exp=')[1].split()[0] != l.rsplit('-> ', 1)[1] for l in cl)

def run(ctx):
    ctx.cov['source_hash'] = source_hash(FILES)
    prove(ctx)
    impl = build_scenario(ctx, 'scen_lfq', 'scen_lfq.c')
    model = build_model_driver(ctx, 'lfq', 'ExtractLfq.v', 'lfq_driver.ml')
    if impl:
        cases = gen_schedules(ctx, 400 if ctx.quick() else 6000)
        corr_schedules(ctx, 'Lfq.v vs static/rculfqueue.h', impl, model, cases, canon_c,
                       oracle=lambda p, s, cl, raw: oracle(ctx, p, s, cl, raw), nontrivial=contended, tail='012345' * 150, scenario='scen_lfq')
        corr_schedules(ctx, 'rculfqueue destroy at quiescence with several dummy nodes', impl, None, two_dummy_cases(), canon_c,
                       oracle=lambda p, s, cl, raw: oracle(ctx, p, s, cl, raw), nontrivial=contended, tail='012345' * 150, scenario='scen_lfq (oracle only)')
    pimpl = build_scenario(ctx, 'scen_lfq_plain', 'scen_lfq.c', plain=True)     # plain stores (node initialisation) as scheduling points: oracle only
    if pimpl and impl:
        corr_schedules(ctx, 'rculfqueue with instrumented plain stores', pimpl, None, cases[::3 if ctx.quick() else 2], canon_c,
                       oracle=lambda p, s, cl, raw: oracle(ctx, p, s, cl, raw), nontrivial=contended, tail='012345' * 150, scenario='scen_lfq_plain (oracle only)')
    return finish(ctx, trusted=TRUSTED,
                  rule='schedules = corpus + parking sweeps (each thread frozen after k of its steps while the others complete) + bursty random; '
                       'non-trivial = trace contains at least one failed cmpxchg (contention); distinct = distinct canonical traces')

def replay(ctx, rp):
    f = rp.get('failing_input') or {}
    impl = build_scenario(ctx, 'scen_lfq', 'scen_lfq.c')
    if not impl or not f: print('nothing to replay'); return 2
    rc, out = run_many([[impl, f['prog'], f['schedule']]])[0]
    cl = canon_c(out); print('\n'.join(cl[-60:]))
    o = oracle(ctx, f['prog'], f['schedule'], cl, out); print('verdict:', o or 'no violation'); return 1 if o else 0
