"""C09 - rculfhash resize: proofs (LfhtSeq/Resize.v: termination of the resize loop for every request after the F2 repair, refuted for the legacy
code, bucket bounds; Lfht/ResizeProto*.v: the grace-period protocol of grow/shrink keeps every reader away from released bucket tables and publishes
only populated orders); refinement check of the real resize code's actions against the extracted protocol acceptor; oracles on concurrent resize
scenarios (linearizability, traversal, quarantine of released tables, termination, bounds, target)."""
from vlib import *
import lfhtx_common as X
PROGS = ['A0A3A4/L0L3TL4/Z2Z1Z0', 'U0U3U6/Z3L6L3T/Z1L0T', 'A3A6L3X/Z2Z0/L6TL3', 'A8A9U6/L8XL9/Z3Z1', 'A3U5L3X/Z2Z1/Z0Z2/L5T', 'A0A4A3A6/Z3/Z0/TL6L4',
         'A3A6/z3z5z0/L3TL6', 'A0A9/z7z1z9/TL9', 'A4A8/z6L4z2/L8T']
DPROGS = ['A3A6A9Z3Z0/TL6TL9T', 'U3U9Z3Z1/L9TL3T', 'A3A6Z2Z0Z3Z1/L3A9L6T']       # double parking: the resizer is stopped inside a shrink, a reader enters, the resizer goes on
CONFS = [('2', '8', 'o'), ('4', '8', 'o'), ('8', '8', 'o'), ('1', '8', 'o'), ('2', '4', 'o')]
OCONFS = [('1', '8', 'c'), ('2', '8', 'm'), ('4', '4', 'c'), ('4', '8', 'm'), ('2', '0', 'o')]
TRUSTED = ['Coq 8.16.1 kernel; no axioms', 'extraction: ExtrOcamlBasic only; ocaml/resizeproto_driver.ml', 'projection: tools/lfhtx_common.py project_resize() (trusted)',
           'harness: scen_lfhtx.c (abstract RCU flavor whose synchronize_rcu waits for the sections open at its start and is a full barrier; recording allocator with quarantine), sched.c',
           'modelled: resize as alloc / link / size store (at the instant it becomes visible) / synchronize / flag / unlinked / free actions per bucket table; readers as sections that read size and obtain '
           'pointers into tables; Resize.v models the loop arithmetic of _do_cds_lfht_resize sequentially; the partitioned multi-thread resize runs with MIN_PARTITION_PER_THREAD_ORDER overridden to 0 and pthread_create fault choices; the lazy (work-queue) resize and destroy with queued resizes are not run here; '
           'the protocol acceptor runs on order-allocator configurations (chunk and mmap allocators: oracles only)']
def nontrivial(raw): return ' free tb' in raw or re.search(r'^\d+ note alloc tb', raw, flags=re.M) is not None
def run(ctx):
    ctx.cov['source_hash'] = source_hash(X.FILES)
    prove(ctx)
    impl = X.build(ctx)
    driver = build_model_driver(ctx, 'resizeproto', 'ExtractResizeProto.v', 'resizeproto_driver.ml')
    if impl:
        n = 260 if ctx.quick() else 4000
        cases = X.gen(ctx, PROGS, n, 'C09', CONFS)
        for prog in DPROGS[:2 if ctx.quick() else 3]:
            for p1 in range(60, 420, 4 if ctx.quick() else 1):
                for w1 in ((4, 9, 15) if ctx.quick() else (2, 4, 6, 9, 12, 15, 20)):
                    cases.append((prog, '0' * p1 + '1' * w1 + '0000000001' * 60, ('2', '8', 'o')))
        X.run_cases(ctx, 'resize', impl, cases, proto_driver=driver, nontrivial=nontrivial)
        pimpl = X.build_part(ctx)
        if pimpl:
            # partitioned resize: helper threads per level, chosen pthread_create calls fail with EAGAIN (leftover partitions done by the caller)
            pconfs = [('2', '8', 'o', '3', str(m)) for m in (0, 1, 2, 4, 6, 8, 10, 32, 48, 5)] + [('1', '8', 'o', '1', '0'), ('4', '8', 'o', '3', '16')]
            pprogs = ['A3A6A9/L3L6TL9/Z3Z1Z3', 'A0A4A3A6/Z3L6TL4/Z0Z2T', 'U3U5U6/Z2Z3L6L3T/L5TZ1']
            X.run_cases(ctx, 'partitioned resize with thread-creation faults', pimpl, X.gen(ctx, pprogs, n // 2, 'C09p', pconfs), proto_driver=driver, nontrivial=lambda raw: ' create ' in raw)
        # lazy resize carried out by the library's work-queue thread (AUTO_RESIZE; the worker is thread 1 of the run), the table emptied and destroyed while the
        # resize is queued / running / just finished: everything the destruction releases is quarantined, so a late access of the worker is reported
        acases = X.lazy_destroy_cases(ctx)
        X.run_cases(ctx, 'lazy resize by the work-queue thread, destroy of the emptied table', impl, acases, nontrivial=lambda raw: ' free tb' in raw)
        X.run_cases(ctx, 'automatic resize at the maximum bucket count (order / chunk / mmap allocators)', impl, X.auto_resize_bound_cases(ctx), nontrivial=nontrivial)
        X.run_cases(ctx, 'resize (chunk / mmap allocators, unbounded max)', impl, X.gen(ctx, PROGS, n // 2, 'C09x', OCONFS), nontrivial=nontrivial)
    X.auto_resize_probe(ctx)
    return finish(ctx, trusted=TRUSTED, rule='parking sweeps (every thread frozen at each step, incl. the resizer between size store, synchronize, unlink and free; updaters between reading size and '
                  'their cmpxchg), double parking (resizer stopped inside a shrink while a reader enters and obtains bucket pointers) + bursty schedules; tables of initial size 1-8, max 4/8/unbounded, with the '
                  'order, chunk and mmap allocators; resize requests incl. 0 and non powers of two; non-trivial = a bucket table was allocated or released during the run')
replay = X.replay
