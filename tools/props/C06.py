"""C06 - unique adds, atomic replace: proofs (Lfht/FlagProto.v: single ownership among del / replace / add_replace for every interleaving; LfhtSeq/SeqTable.v: unique keys under the
unique-type operations, sequentially); refinement check of the accesses to every node's next word in real rculfhash.c traces against the extracted ownership protocol, with the API-level
successes; oracles on concurrent add_unique / add_replace / replace / del / lookup / duplicate-walk / traversal scenarios (one winner, key never duplicated in any walk, key never absent while replaced)."""
from vlib import *
import lfht_common as L
import lfhtx_common as X
PROGS = ['U0L0P2/A1A5/L0L2', 'A0L0P2/L0X/L0P7', 'U0L0/U2L0/L0L0', 'U0U1/U2U5/L0XL0', 'U0L0X/U2L0X/L0L0', 'U3L3/U6L3X/L3XL3', 'U4/U7/L4XL4X', 'U0A1/U2L1/L0XL0X']
XPROGS = ['U0L0P2/A3A5T/L0NTL3', 'U0R2/A1A5/L0NTL1', 'U0L0N/U2L0N/U7L0NT', 'U0L0P2/L0NL0X/R7TL0N', 'R0R2/R7L0N/L0NTL0N', 'U0L0X/L0P2/L0P7T', 'U3U5L3P6/L3NL5X/TL3NT', 'U0Z2L0P2/U4L0NZ1/R7TL4N', 'U0L0P2/L0L0L0/L0L0T']
# a walker (full traversal) is suspended at every point while another thread deletes a node of an equal-hash run and uniquely re-adds its key
WPROGS = ['U1U0/T/L0XU2', 'U0U1/TT/L0XU7', 'U1U0U5/T/L0XR2L1', 'U1R0/T/L0P2L2XU7']
def walker_cases(ctx):
    out = []
    for prog in WPROGS:
        for p in range(1, 50 if ctx.quick() else 110):
            for cf in ([('1', '8', 'o')] if ctx.quick() else [('1', '8', 'o'), ('2', '8', 'o'), ('4', '8', 'c')]):
                out.append((prog, '>0>0>0' + 'a' * 8 + '1b' * p + '>2>2>2>2>2' + 'c' * 8, cf))
    return out
def grow_cases(ctx):
    """unique adds of a key whose hash IS the index of a bucket that a concurrent grow is creating, at every point of the grow (in particular between the linking of the new
    bucket node and the publication of the new size); then lookups of it, a second unique add of the same key and the end-of-run checks"""
    out = []
    for prog, cf in (('Z2/U3L3U5L3T', ('2', '8', 'o')), ('Z2/U4L4T/L4', ('2', '8', 'o')), ('Z3/U8L8T', ('4', '8', 'o')), ('Z3/R6L6T/U9L9', ('4', '8', 'o')), ('Z3/U9L9T', ('4', '8', 'c'))):
        for k in range(0, 120 if ctx.quick() else 200, 2 if ctx.quick() else 1):
            out.append((prog, '0a' * k + '>1>1>1>1>1' + '>2>2', cf))
    return out

def shrink_cases(ctx):
    """a unique add / add_replace frozen k steps into its operation - it has read the old size and stands on a bucket of the upper half as its insertion predecessor - while a
    shrink runs as far as it can: every level it removes, the first included, has to wait for that operation's read-side section; then lookups and traversals (each entry is handed to the table once)"""
    out = []
    for prog, cf in (('Z0/U6L6T/L6', ('8', '8', 'o')), ('Z1/U9L9T/L9', ('8', '8', 'o')), ('Z0/R8L8T/L8U6', ('8', '8', 'o')), ('Z1/U6L6T', ('8', '8', 'c')), ('Z2/U9L9T/U8L8', ('8', '8', 'o'))):
        for k in range(0, 40 if ctx.quick() else 70):
            out.append((prog, '1b' * k + '>0' + '1b' * 200 + '0a' * 300 + '>1>1>1>1' + '>2>2', cf))
            if k % 2 == 0: out.append((prog, '1b' * k + '0a' * 30 + '1b' * 3 + '0a' * 300 + '1b' * 200 + '>1>1>1>1' + '>2>2', cf))
    return out

def key_never_absent(prog, raw):
    """a key continuously present while it is being replaced is found by every concurrent lookup: programs whose only removals are replacements of a key inserted before the lookups began"""
    ev = X.events(raw); hist, _, _ = X.history(ev)
    removed_keys = set()
    for x in hist:
        if x[1] == 'del' and x[3] == '0': removed_keys.add(X.keyof(x[2]))
    first_in = {}
    for x in hist:
        if x[1] in ('add', 'addu', 'addr') and x[5] is not None and (x[1] != 'addu' or x[3] == x[2]):
            k = X.keyof(x[2]); first_in[k] = min(first_in.get(k, 10 ** 9), x[5])
    for x in hist:
        if x[1] == 'lookup' and x[3] == '0' and x[2] not in removed_keys and x[2] in first_in and first_in[x[2]] < x[4]:
            return 'lookup of key %d by thread %s (events %d-%d) found nothing although the key was inserted before and is only ever replaced, never deleted' % (x[2], x[0], x[4], x[5])
    return None
def run(ctx):
    ctx.cov['source_hash'] = source_hash(L.FILES)
    prove(ctx)
    impl, model = L.build(ctx)
    if impl:
        cases = L.gen(ctx, PROGS, 300 if ctx.quick() else 5000, 'C06')
        corr_schedules(ctx, 'Lfht.v vs src/rculfhash.c', impl, model, cases, L.canon_c, oracle=L.oracle, nontrivial=L.contended, tail='012345' * 200, scenario='scen_lfht')
    ximpl = X.build(ctx)
    fdriver = build_model_driver(ctx, 'flagproto', 'ExtractFlagProto.v', 'flagproto_driver.ml')
    if ximpl:
        X.run_cases(ctx, 'unique adds / replace', ximpl, X.gen(ctx, XPROGS, 400 if ctx.quick() else 6000, 'C06x', [('2', '8', 'o'), ('1', '8', 'o'), ('4', '8', 'c')]) + walker_cases(ctx) + grow_cases(ctx) + shrink_cases(ctx), flag_driver=fdriver, extra_oracle=key_never_absent)
    return finish(ctx, trusted=L.TRUSTED + ['extraction of FlagProto: ExtrOcamlBasic only; ocaml/flagproto_driver.ml; projection tools/lfhtx_common.py project_flags() (trusted)',
                  'modelled by FlagProto: the flag bits and ownership successes of one next word (pointer changes abstracted to "link" accesses); traversal-level uniqueness under concurrency is an oracle, the theorem is sequential'],
                  rule='corpus + parking sweeps + bursty schedules of concurrent add_unique / add_replace / replace / del / lookup + next_duplicate / traversal on keys shared by three entries, with resizes')
def replay(ctx, rp):
    return X.replay(ctx, rp) if (rp.get('failing_input') or {}).get('scenario') == 'scen_lfhtx' else L.replay(ctx, rp)
