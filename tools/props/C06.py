"""C06 - rculfhash add_unique: correspondence of the unique-scan model with src/rculfhash.c + duplicate/one-winner oracle."""
from vlib import *
import lfht_common as L
PROGS = ['U0L0/U2L0/L0L0', 'U0U1/U2U5/L0XL0', 'U0L0X/U2L0X/L0L0', 'U3L3/U6L3X/L3XL3', 'U4/U7/L4XL4X', 'U0A1/U2L1/L0XL0X']
def run(ctx):
    ctx.cov['source_hash'] = source_hash(L.FILES)
    prove(ctx)
    impl, model = L.build(ctx)
    if impl:
        cases = L.gen(ctx, PROGS, 400 if ctx.quick() else 5000, 'C06')
        corr_schedules(ctx, 'Lfht.v vs src/rculfhash.c', impl, model, cases, L.canon_c, oracle=L.oracle, nontrivial=L.contended, tail='012345' * 200, scenario='scen_lfht')
    return finish(ctx, trusted=L.TRUSTED, rule='corpus + parking sweeps + bursty schedules of concurrent add_unique on equal keys (entries 0/2, 3/6, 4/7 share a key) with lookups and dels')
replay = L.replay
