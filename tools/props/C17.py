"""C17 - progress: proofs (Progress/*.v: wait-free bounds for wfcqueue enqueue / wfstack push / pop_all from any state; lfstack push within six own steps when alone;
Lfq/LfqSolo.v: rculfqueue enqueue within 4d+4 own steps when alone, on the repaired model; no waiting step exists in the lock-free programs); solo-run oracle on the
real code: all other threads are frozen at an arbitrary point (incl. between the two halves of an enqueue / push, after a logical delete, inside a resize) and the
subject runs alone - it must complete within its bound and without a waiting step; non-blocking variants never wait and answer WOULDBLOCK only with an operation in flight."""
import re
from vlib import *
import lfhtx_common as X
FILES = ['include/urcu/static/wfcqueue.h', 'include/urcu/static/wfstack.h', 'include/urcu/static/lfstack.h', 'include/urcu/static/rculfqueue.h', 'src/rculfhash.c',
         'include/urcu/static/urcu-memb.h', 'include/urcu/static/urcu-mb.h']
TRUSTED = ['Coq 8.16.1 kernel; no axioms', 'harness: sched.c solo-run choice ("}t": thread t alone until its operation returns, at most 400 own steps), scenarios of C10/C11/C12/C05/C01',
           'modelled: one step = one hooked access / fence / call / return event; the bounds of the oracle are the theorems\' bounds where a theorem exists (wfcq enqueue 5, wfs push 5, lfs push 6) '
           'and generous fixed bounds otherwise (hash-table operations, rculfqueue dequeue, read-side lock/unlock); "finishes whenever it runs without interference from any reachable state" is sampled, not proved, for those']
# scenario -> (source, extra srcs, defs, programs, {op: (bound, may_wait)})
def scen_table():
    import gp_common as G
    return [
     ('scen_wfcq', 'scen_wfcq.c', [], [], ['dDd/E0E1/E2E3', 'nds/E0/E1/E2', 'DD/E0E1E2/E3'], {'enq': 5, 'deqnb': 12, 'splicenb': 14, 'empty': 4}),
     ('scen_wfs', 'scen_wfs.c', [], [], ['aa/P0P1/P2P3', 'pn/P0P1/P2', 'ne/P0/P1/P2'], {'push': 5, 'popnb': 12, 'empty': 3}),
     ('scen_lfs', 'scen_lfs.c', [], [], ['P0P1/P2P3/ae', 'P0rP1/P2/pr', 'P0/P1/P2/a'], {'push': 6, 'empty': 3}),
     ('scen_lfq', 'scen_lfq.c', [], [], ['E0E1/DDD/E2D', 'E0/D/E1/D', 'E0E1E2/DD/DD', 'E0D/E1D/E2D'], {'enq': 40, 'deq': 60}),
     ('scen_gp_memb', 'scen_gp.c', G.SRCS, G.DEFS, ['(r)(q)/(q)(r)/SS', '((r))/(q)/S/S'], {'lock': 5, 'unlock': 9}),
     ('scen_lfhtx', 'scen_lfhtx.c', X.SRCS, [], ['A0A3L0X/U2L3TL0/Z2L0N', 'A0U2L0P7/L0NL0T/L0XTL0X', 'A3A5L3X/U8L5NT/Z2A9Z1'],
      {'add': 120, 'addu': 120, 'addr': 120, 'lookup': 60, 'nextdup': 60, 'del': 120, 'replace': 120, 'trav': 160}),
    ]
NOWAIT = ('enq', 'push', 'deqnb', 'splicenb', 'popnb', 'empty', 'lookup', 'nextdup', 'trav', 'add', 'addu', 'addr', 'del', 'replace', 'lock', 'unlock')

def oracle(name, bounds, raw):
    if 'ABORT' in raw or 'TIMEOUT' in raw: return 'abnormal run: ' + raw[-200:]
    lines = [l.split() for l in raw.splitlines() if l and l[0].isdigit()]
    last = {}; opstart = {}; inflight = {}; pend = {}
    for i, p in enumerate(lines):
        t, k = p[0], p[1]
        if k == 'store': pend[t] = pend.get(t, 0) + 1
        elif k == 'flush': pend[t] = pend.get(t, 0) - 1
        if k == 'call': opstart[t] = (p[2], i); inflight[t] = p[2]
        elif k == 'ret': last[t] = (p[2], p[3] if len(p) > 3 else '', i); inflight.pop(t, None)
        elif k in ('relax', 'sleep') and t in opstart and opstart[t][0] in NOWAIT and t in inflight:
            return 'thread %s waits (%s) inside %s, an operation documented as non-waiting (event %d)' % (t, k, opstart[t][0], i)
        elif k == 'solo':
            n, why = int(p[2]), p[3]
            op = inflight.get(t)
            if op is None or (op not in NOWAIT and op not in bounds):
                if why != 'ok': continue           # the thread finished its program, or is inside an operation that is allowed to wait (synchronize_rcu, resize, blocking dequeue)
            if why == 'LIMIT': return 'thread %s running alone did not complete %s within 400 of its own steps while the other threads are suspended: it waits for them instead of helping' % (t, op)
            if why == 'blocked' and op in NOWAIT: return 'thread %s running alone blocks inside %s' % (t, op)
            if why == 'ok' and t in last and last[t][0] in bounds and n > bounds[last[t][0]]:
                return 'thread %s running alone needed %d own steps to complete %s (bound %d)' % (t, n, last[t][0], bounds[last[t][0]])
            if why == 'ok' and t in last and last[t][0] in ('deqnb', 'popnb', 'splicenb') and last[t][1] == '-1' and not [u for u in inflight if u != t] and not [u for u, c in pend.items() if u != t and c > 0]:
                return 'thread %s: %s answered WOULDBLOCK while no other operation was in progress (none called and not returned, no store of a returned one still buffered)' % (t, last[t][0])
    return None

def lazy_project(raw):
    """per cds_lfht_resize_lazy_count call of the trace: (size argument, count, [value of resize_target met by each compare-and-swap], [value each one tried to install])"""
    cur = {}; out = []
    for l in raw.splitlines():
        p = l.split()
        if len(p) < 3 or not p[0].isdigit(): continue
        t, k = p[0], p[1]
        if k == 'call' and p[2] == 'lazycount': cur[t] = {'count': int(p[3], 0), 'size': None, 'obs': [], 'new': []}
        elif k == 'note' and p[2] == 'lazysize' and t in cur: cur[t]['size'] = int(p[3])
        elif k == 'cas' and p[2] == 'target+0' and t in cur:
            cur[t]['obs'].append(int(p[-1], 0)); cur[t]['new'].append(int(p[4][4:], 0))
        elif k == 'ret' and p[2] == 'lazycount' and t in cur: out.append(cur.pop(t))
    return out
def lazy_model_compare(ctx, cases, blocks):
    """Progress/LazyCount.v shrink_run on the observed target values: the implementation made exactly the attempts the model makes, each with the model's comparison value"""
    model = build_model_driver(ctx, 'lazycount', 'ExtractLazyCount.v', 'lazycount_driver.ml')
    if not model: return
    calls = [(c, b) for c, bl in zip(cases, blocks) for b in bl if b['obs'] and b['size'] is not None and b['count'] < b['size']]
    inp = ''.join('T %d %d %s\n' % (b['size'], min(max(b['count'], 1), 8), ' '.join(str(x) for x in b['obs'])) for _, b in calls)
    rc, mo, _ = sh([model], inp=inp, timeout=120); ml = mo.splitlines(); nbad = 0
    for ((p, s), b), m in zip(calls, ml):
        ok = m.startswith('T -> ') and m != 'T -> spin' and int(m.split()[-1]) == len(b['obs'])
        if ok: ctx.cov['traces_validated_against_impl'] = ctx.cov.get('traces_validated_against_impl', 0) + 1
        else:
            nbad += 1
            if nbad <= 2: ctx.fail('correspondence', 'LazyCount.shrink_run vs the compare-and-swap attempts of cds_lfht_resize_lazy_count', 'prog %s schedule %s...: attempts met resize_target = %s (size argument %d, count %d); model: %s' % (p, s[:40], b['obs'][:8] + (['...'] if len(b['obs']) > 8 else []), b['size'], b['count'], m),
                                   concrete={'scenario': 'scen_lfhtx', 'prog': p, 'schedule': s, 'args': ['8', '8', 'o', '0', '0', '1'], 'observed': b, 'model': m})
    if len(ml) != len(calls): ctx.fail('harness', 'lazycount_driver output', 'expected %d lines, got %d' % (len(calls), len(ml)))
    ctx.cov['input_distribution']['lazy resize requests (scheduled)'] = {'calls_with_attempts': len(calls), 'with_retry': sum(1 for _, b in calls if len(b['obs']) > 1)}

def lazy_seq(ctx):
    """sequential differential: the real cds_lfht_resize_lazy_count against LazyCount.lazy_count over every relation of count / size argument / target / published size"""
    exe = os.path.join(BUILD, 'lfht_lazy')
    rc, so, se = sh(['gcc', '-O1', '-g', '-w', '-include', REPO + '/include/config.h', '-I' + REPO + '/include', '-I' + REPO + '/src', os.path.join(HARN, 'seqdiff/lfht_lazy.c')] + X.SRCS + ['-o', exe, '-lpthread'])
    if rc: ctx.fail('harness', 'build of seqdiff/lfht_lazy.c', se[-600:]); return
    model = build_model_driver(ctx, 'lazycount', 'ExtractLazyCount.v', 'lazycount_driver.ml')
    if not model: return
    n = 4000 if ctx.quick() else 100000
    cmds = [[exe, str(n), str(ctx.seed * 10 + i)] for i in range(4)]
    for (rc, out), cmd in zip(run_many(cmds, timeout=60), cmds):
        lines = out.splitlines()
        if rc != 0 or (lines and ' -> ' not in lines[-1]):
            last = lines[-1] if lines else ''
            ctx.fail('oracle', 'cds_lfht_resize_lazy_count returns (sequential call, nobody else touches the table)', 'the call "%s" (C auto max_nr_buckets resize_target size count) did not return within 20 s: the request loop spins without any other thread interfering' % last,
                     concrete={'probe': 'harness/seqdiff/lfht_lazy.c', 'args': cmd[1:], 'call (auto max_nr_buckets resize_target size count)': last})
            lines = lines[:-1]
        inp = '\n'.join(l.split(' -> ')[0] for l in lines) + '\n'
        rc2, mo, _ = sh([model], inp=inp, timeout=120); ml = mo.splitlines()
        bad = [(a, b) for a, b in zip(lines, ml) if a != b]
        ctx.cov['evaluations'] += len(lines); ctx.cov['traces_validated_against_impl'] = ctx.cov.get('traces_validated_against_impl', 0) + len(lines) - len(bad)
        if bad or len(ml) != len(lines):
            a, b = bad[0] if bad else ('<%d lines>' % len(lines), '<%d lines>' % len(ml))
            ctx.fail('correspondence', 'LazyCount.lazy_count vs cds_lfht_resize_lazy_count (sequential)', '%d of %d calls differ; first: impl "%s" model "%s"' % (len(bad), len(lines), a, b),
                     concrete={'probe': 'harness/seqdiff/lfht_lazy.c', 'args': cmd[1:], 'impl': a, 'model': b})
    ctx.cov['input_distribution']['lazy resize requests (sequential)'] = {'calls': 4 * n}

def run(ctx):
    ctx.cov['source_hash'] = source_hash(FILES)
    prove(ctx)
    lazy_seq(ctx)
    for name, src, extra, defs, progs, bounds in scen_table():
        impl = build_scenario(ctx, name + '_c17', src, extra_src=extra, defs=defs)
        if not impl: continue
        cases = []
        n = 150 if ctx.quick() else 2500
        for prog in progs:
            th = [str(i) for i in range(prog.count('/') + 1)]
            for v in th:
                for k in range(0, 30 if ctx.quick() else 80):
                    others = [t for t in th if t != v]
                    # the others run k steps round robin (frozen mid-operation), then v alone for up to three operations
                    cases.append((prog, ''.join(others[i % len(others)] for i in range(k)) + '}' + v + '}' + v + '}' + v))
                    # the same with every store of the others flushed at once (so that what they completed is visible to v)
                    cases.append((prog, ''.join(others[i % len(others)] + chr(ord('a') + int(others[i % len(others)])) for i in range(k)) + '}' + v + '}' + v + '}' + v))
        if name == 'scen_wfcq':
            # a non-blocking dequeue / splice that meets an enqueue in flight (it may answer WOULDBLOCK) must leave the queue usable: once that enqueue has completed
            # and nothing is in progress, the next non-blocking operations, run alone, answer with the nodes
            for prog in ('ddd/E0/E1', 'dnd/E0/E1', 'ndd/E0/E1', 'dddd/E0/E1E2'):
                for k in range(0, 9):
                    cases.append((prog, '>1b' + '2c' * k + '}0' + '>2cccc' + ('>2cccc' if 'E2' in prog else '') + '}0}0}0'))
                    cases.append((prog, '>1b' + '2' * k + '}0' + '>2cccc' + ('>2cccc' if 'E2' in prog else '') + '}0}0}0'))
        if name == 'scen_lfhtx':
            # targeted family: a remover (del / replace) frozen at every point of its operation - in particular between the logical removal and the unlink -
            # with its victim directly behind a bucket node or behind an ordinary node; an updater of the same chain then runs alone and must help, not wait
            for prog in ('A0L0X/A3A5', 'A0L0X/U3', 'A0L0X/R5', 'A4L4X/A6', 'A0A5L5X/A3', 'A0L0P2/A3', 'A0L0X/L0'):
                for k in range(0, 90 if ctx.quick() else 140):
                    cases.append((prog, '0a' * k + '}1}1'))
        if name == 'scen_lfhtx':
            # a replace / add_replace whose old node is removed (or replaced) by another thread between its look-up and its cmpxchg - the remover possibly frozen
            # after the logical removal - must give up (-ENOENT / retry) within its bound when it then runs alone
            for prog, npre in (('A0L0P2/L0X', 2), ('A0L0P2/L0P7', 2), ('A0A3L0P2/L0X', 3)):
                for j in range(0, 44 if ctx.quick() else 80):
                    cases.append((prog, '>0' * npre + '1b' * j + '}0'))
            for prog in ('A0R2/L0X', 'A0R2/L0P7'):
                for k in range(0, 60 if ctx.quick() else 100, 2 if ctx.quick() else 1):
                    cases.append((prog, '>0' + '0a' * k + '>1>1' + '}0'))
        if name == 'scen_lfhtx':
            # the lazy resize request (issued inside add / del): with the resize worker suspended after an earlier request, a later request must complete alone
            lz = []
            for prog in ('c2/c1', 'c2/c0', 'c1/c0', 'c2/c1/c0'):
                for k in range(0, 16 if ctx.quick() else 40):
                    lz.append((prog, '1' * 0 + '0a' * k + '}1}1'))
                    lz.append((prog, '>0' + '1b' * k + ('>2' if prog.count('/') > 1 else '') + '}1}1'))
            rs = run_many([[impl, p, s + '01' * 300, '8', '8', 'o', '0', '0', '1'] for p, s in lz], timeout=20)
            nlz = 0; blocks = []
            for (p, s), (rc, raw) in zip(lz, rs):
                o = oracle(name, dict(bounds, lazycount=40), raw)
                nsolo_lz = len(re.findall(r'^\d+ solo \d+ ok', raw, flags=re.M)); ctx.cov['distinct_nontrivial'] += nsolo_lz
                if o:
                    nlz += 1
                    if nlz <= 2: ctx.fail('oracle', 'solo-run progress oracle (lazy resize request, worker suspended)', o, concrete={'scenario': name, 'prog': p, 'schedule': s + '01' * 300, 'args': ['8', '8', 'o', '0', '0', '1'], 'verdict': o})
                blocks.append(lazy_project(raw))
            ctx.cov['evaluations'] += len(lz); ctx.cov['oracle_violations'] = ctx.cov.get('oracle_violations', 0) + nlz
            lazy_model_compare(ctx, lz, blocks)
            # the lazy GROW request (monotonic increase of resize_target) on a small table: one requester frozen between its load of the target and its cmpxchg
            # while another raises the target, then alone
            gz = []
            for prog in ('c2/c3', 'c1/c3', 'c2/c3/c1'):
                for k in range(0, 14 if ctx.quick() else 30):
                    gz.append((prog, '0a' * k + '>1' + '}0}0'))
                    gz.append((prog, '0a' * k + '1b' * 6 + '}0}0'))
            rs = run_many([[impl, p, s + '01' * 300, '2', '8', 'o', '0', '0', '1'] for p, s in gz], timeout=20)
            ngz = 0
            for (p, s), (rc, raw) in zip(gz, rs):
                o = oracle(name, dict(bounds, lazycount=40), raw)
                ctx.cov['distinct_nontrivial'] += len(re.findall(r'^\d+ solo \d+ ok', raw, flags=re.M))
                if o:
                    ngz += 1
                    if ngz <= 2: ctx.fail('oracle', 'solo-run progress oracle (lazy grow request, target raised by another thread)', o, concrete={'scenario': name, 'prog': p, 'schedule': s + '01' * 300, 'args': ['2', '8', 'o', '0', '0', '1'], 'verdict': o})
            ctx.cov['evaluations'] += len(gz); ctx.cov['oracle_violations'] = ctx.cov.get('oracle_violations', 0) + ngz
        while len(cases) < n + len(progs) * 40:
            prog = ctx.rng.choice(progs); th = [str(i) for i in range(prog.count('/') + 1)]; v = ctx.rng.choice(th)
            cases.append((prog, bursty(ctx.rng, th, lo=5, hi=120, means=(1, 2, 5, 12)) + '}' + v + '}' + v))
        tail = '012345' * 300
        extra_args = [['2', '8', 'o']] if name == 'scen_lfhtx' else [[]]
        rs = run_many([[impl, p, s + tail] + extra_args[0] for p, s in cases], timeout=20)
        nor = 0; nsolo = 0
        for (p, s), (rc, raw) in zip(cases, rs):
            o = oracle(name, bounds, raw)
            nsolo += len(re.findall(r'^\d+ solo \d+ ok', raw, flags=re.M))
            if o:
                nor += 1
                if nor <= 2: ctx.fail('oracle', 'solo-run progress oracle (%s)' % name, o, concrete={'scenario': name, 'prog': p, 'schedule': s + tail, 'verdict': o})
            if len(ctx.cov['samples']) < 3: ctx.cov['samples'].append({'scenario': name, 'prog': p, 'schedule': s[:60]})
        ctx.cov['evaluations'] += len(cases); ctx.cov['distinct_nontrivial'] += nsolo
        ctx.cov['oracle_violations'] = ctx.cov.get('oracle_violations', 0) + nor
        ctx.cov['input_distribution'][name] = {'cases': len(cases), 'solo_runs_completed': nsolo, 'bounds': bounds}
    return finish(ctx, trusted=TRUSTED, rule='for every scenario, thread v and k: the other threads run k steps (so they are suspended anywhere inside their operations), then v runs alone for up to three operations; '
                  'plus random prefixes; distinct_nontrivial = solo runs that completed; evaluations = schedules')
def replay(ctx, rp):
    f = rp.get('failing_input') or {}
    if not f: print('nothing to replay'); return 2
    for name, src, extra, defs, progs, bounds in scen_table():
        if name == f['scenario']:
            impl = build_scenario(ctx, name + '_c17', src, extra_src=extra, defs=defs)
            rc, out = run_many([[impl, f['prog'], f['schedule']] + (['2', '8', 'o'] if name == 'scen_lfhtx' else [])], timeout=20)[0]
            print(out[-3000:]); o = oracle(name, bounds, out); print('verdict:', o or 'no violation'); return 1 if o else 0
    return 2
