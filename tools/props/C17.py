"""C17 - progress: proofs (Progress/*.v: wait-free bounds for wfcqueue enqueue / wfstack push / pop_all from any state; lfstack push within six own steps when alone;
Lfq/LfqSolo.v: rculfqueue enqueue within 4d+4 own steps when alone, on the repaired model; no waiting step exists in the lock-free programs); solo-run oracle on the
real code: all other threads are frozen at an arbitrary point (incl. between the two halves of an enqueue / push, after a logical delete, inside a resize) and the
subject runs alone - it must complete within its bound and without a waiting step; non-blocking variants never wait and answer WOULDBLOCK only with an operation in flight."""
import re
from vlib import *
import lfhtx_common as X
FILES = ['include/urcu/static/wfcqueue.h', 'include/urcu/static/wfstack.h', 'include/urcu/static/lfstack.h', 'include/urcu/static/rculfqueue.h', 'src/rculfhash.c',
         'include/urcu/static/urcu-memb.h', 'include/urcu/static/urcu-mb.h']
TRUSTED = ['Coq 8.16.1 kernel; no axioms', 'harness: sched.c solo-run choice ("}t": thread t alone until its operation returns, at most 400 own steps), scenarios of C10/C11/C12/C05/C01',
           'modelled: one step = one hooked access / fence / call / return event; the bounds of the oracle are the theorems\' bounds where a theorem exists (wfcq enqueue 5, wfs push 5, lfs push 6) '
           'and generous fixed bounds otherwise (hash-table operations, rculfqueue dequeue, read-side lock/unlock); "finishes whenever it runs without interference from any reachable state" is sampled, not proved, for those']
# scenario -> (source, extra srcs, defs, programs, {op: (bound, may_wait)})
def scen_table():
    import gp_common as G
    return [
     ('scen_wfcq', 'scen_wfcq.c', [], [], ['dDd/E0E1/E2E3', 'nds/E0/E1/E2', 'DD/E0E1E2/E3'], {'enq': 5, 'deqnb': 12, 'splicenb': 14, 'empty': 4}),
     ('scen_wfs', 'scen_wfs.c', [], [], ['aa/P0P1/P2P3', 'pn/P0P1/P2', 'ne/P0/P1/P2'], {'push': 5, 'popnb': 12, 'empty': 3}),
     ('scen_lfs', 'scen_lfs.c', [], [], ['P0P1/P2P3/ae', 'P0rP1/P2/pr', 'P0/P1/P2/a'], {'push': 6, 'empty': 3}),
     ('scen_lfq', 'scen_lfq.c', [], [], ['E0E1/DDD/E2D', 'E0/D/E1/D', 'E0E1E2/DD/DD', 'E0D/E1D/E2D'], {'enq': 40, 'deq': 60}),
     ('scen_gp_memb', 'scen_gp.c', G.SRCS, G.DEFS, ['(r)(q)/(q)(r)/SS', '((r))/(q)/S/S'], {'lock': 5, 'unlock': 9}),
     ('scen_lfhtx', 'scen_lfhtx.c', X.SRCS, [], ['A0A3L0X/U2L3TL0/Z2L0N', 'A0U2L0P7/L0NL0T/L0XTL0X', 'A3A5L3X/U8L5NT/Z2A9Z1'],
      {'add': 120, 'addu': 120, 'addr': 120, 'lookup': 60, 'nextdup': 60, 'del': 120, 'replace': 120, 'trav': 160}),
    ]
NOWAIT = ('enq', 'push', 'deqnb', 'splicenb', 'popnb', 'empty', 'lookup', 'nextdup', 'trav', 'add', 'addu', 'addr', 'del', 'replace', 'lock', 'unlock')

def oracle(name, bounds, raw):
    if 'ABORT' in raw or 'TIMEOUT' in raw: return 'abnormal run: ' + raw[-200:]
    lines = [l.split() for l in raw.splitlines() if l and l[0].isdigit()]
    last = {}; opstart = {}; inflight = {}; pend = {}
    for i, p in enumerate(lines):
        t, k = p[0], p[1]
        if k == 'store': pend[t] = pend.get(t, 0) + 1
        elif k == 'flush': pend[t] = pend.get(t, 0) - 1
        if k == 'call': opstart[t] = (p[2], i); inflight[t] = p[2]
        elif k == 'ret': last[t] = (p[2], p[3] if len(p) > 3 else '', i); inflight.pop(t, None)
        elif k in ('relax', 'sleep') and t in opstart and opstart[t][0] in NOWAIT and t in inflight:
            return 'thread %s waits (%s) inside %s, an operation documented as non-waiting (event %d)' % (t, k, opstart[t][0], i)
        elif k == 'solo':
            n, why = int(p[2]), p[3]
            op = inflight.get(t)
            if op is None or (op not in NOWAIT and op not in bounds):
                if why != 'ok': continue           # the thread finished its program, or is inside an operation that is allowed to wait (synchronize_rcu, resize, blocking dequeue)
            if why == 'LIMIT': return 'thread %s running alone did not complete %s within 400 of its own steps while the other threads are suspended: it waits for them instead of helping' % (t, op)
            if why == 'blocked' and op in NOWAIT: return 'thread %s running alone blocks inside %s' % (t, op)
            if why == 'ok' and t in last and last[t][0] in bounds and n > bounds[last[t][0]]:
                return 'thread %s running alone needed %d own steps to complete %s (bound %d)' % (t, n, last[t][0], bounds[last[t][0]])
            if why == 'ok' and t in last and last[t][0] in ('deqnb', 'popnb', 'splicenb') and last[t][1] == '-1' and not [u for u in inflight if u != t] and not [u for u, c in pend.items() if u != t and c > 0]:
                return 'thread %s: %s answered WOULDBLOCK while no other operation was in progress (none called and not returned, no store of a returned one still buffered)' % (t, last[t][0])
    return None

def run(ctx):
    ctx.cov['source_hash'] = source_hash(FILES)
    prove(ctx)
    for name, src, extra, defs, progs, bounds in scen_table():
        impl = build_scenario(ctx, name + '_c17', src, extra_src=extra, defs=defs)
        if not impl: continue
        cases = []
        n = 150 if ctx.quick() else 2500
        for prog in progs:
            th = [str(i) for i in range(prog.count('/') + 1)]
            for v in th:
                for k in range(0, 30 if ctx.quick() else 80):
                    others = [t for t in th if t != v]
                    # the others run k steps round robin (frozen mid-operation), then v alone for up to three operations
                    cases.append((prog, ''.join(others[i % len(others)] for i in range(k)) + '}' + v + '}' + v + '}' + v))
                    # the same with every store of the others flushed at once (so that what they completed is visible to v)
                    cases.append((prog, ''.join(others[i % len(others)] + chr(ord('a') + int(others[i % len(others)])) for i in range(k)) + '}' + v + '}' + v + '}' + v))
        if name == 'scen_lfhtx':
            # targeted family: a remover (del / replace) frozen at every point of its operation - in particular between the logical removal and the unlink -
            # with its victim directly behind a bucket node or behind an ordinary node; an updater of the same chain then runs alone and must help, not wait
            for prog in ('A0L0X/A3A5', 'A0L0X/U3', 'A0L0X/R5', 'A4L4X/A6', 'A0A5L5X/A3', 'A0L0P2/A3', 'A0L0X/L0'):
                for k in range(0, 90 if ctx.quick() else 140):
                    cases.append((prog, '0a' * k + '}1}1'))
        if name == 'scen_lfhtx':
            # a replace / add_replace whose old node is removed (or replaced) by another thread between its look-up and its cmpxchg - the remover possibly frozen
            # after the logical removal - must give up (-ENOENT / retry) within its bound when it then runs alone
            for prog, npre in (('A0L0P2/L0X', 2), ('A0L0P2/L0P7', 2), ('A0A3L0P2/L0X', 3)):
                for j in range(0, 44 if ctx.quick() else 80):
                    cases.append((prog, '>0' * npre + '1b' * j + '}0'))
            for prog in ('A0R2/L0X', 'A0R2/L0P7'):
                for k in range(0, 60 if ctx.quick() else 100, 2 if ctx.quick() else 1):
                    cases.append((prog, '>0' + '0a' * k + '>1>1' + '}0'))
        while len(cases) < n + len(progs) * 40:
            prog = ctx.rng.choice(progs); th = [str(i) for i in range(prog.count('/') + 1)]; v = ctx.rng.choice(th)
            cases.append((prog, bursty(ctx.rng, th, lo=5, hi=120, means=(1, 2, 5, 12)) + '}' + v + '}' + v))
        tail = '012345' * 300
        extra_args = [['2', '8', 'o']] if name == 'scen_lfhtx' else [[]]
        rs = run_many([[impl, p, s + tail] + extra_args[0] for p, s in cases], timeout=20)
        nor = 0; nsolo = 0
        for (p, s), (rc, raw) in zip(cases, rs):
            o = oracle(name, bounds, raw)
            nsolo += len(re.findall(r'^\d+ solo \d+ ok', raw, flags=re.M))
            if o:
                nor += 1
                if nor <= 2: ctx.fail('oracle', 'solo-run progress oracle (%s)' % name, o, concrete={'scenario': name, 'prog': p, 'schedule': s + tail, 'verdict': o})
            if len(ctx.cov['samples']) < 3: ctx.cov['samples'].append({'scenario': name, 'prog': p, 'schedule': s[:60]})
        ctx.cov['evaluations'] += len(cases); ctx.cov['distinct_nontrivial'] += nsolo
        ctx.cov['oracle_violations'] = ctx.cov.get('oracle_violations', 0) + nor
        ctx.cov['input_distribution'][name] = {'cases': len(cases), 'solo_runs_completed': nsolo, 'bounds': bounds}
    return finish(ctx, trusted=TRUSTED, rule='for every scenario, thread v and k: the other threads run k steps (so they are suspended anywhere inside their operations), then v runs alone for up to three operations; '
                  'plus random prefixes; distinct_nontrivial = solo runs that completed; evaluations = schedules')
def replay(ctx, rp):
    f = rp.get('failing_input') or {}
    if not f: print('nothing to replay'); return 2
    for name, src, extra, defs, progs, bounds in scen_table():
        if name == f['scenario']:
            impl = build_scenario(ctx, name + '_c17', src, extra_src=extra, defs=defs)
            rc, out = run_many([[impl, f['prog'], f['schedule']] + (['2', '8', 'o'] if name == 'scen_lfhtx' else [])], timeout=20)[0]
            print(out[-3000:]); o = oracle(name, bounds, out); print('verdict:', o or 'no violation'); return 1 if o else 0
    return 2
