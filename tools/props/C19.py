"""C19 - read-side sections in signal handlers: proofs (Handler/Handler.v: frame property for handlers nested to any depth at any program point;
Handler/HandlerExec.v: the machine-word lock/unlock arithmetic with the source's constants refines it); the real memb / mb / bp flavors under the
controlled scheduler with a handler delivered at every hook point (incl. between the read of the reader word and the store that consumes it, inside
synchronize_rcu, inside bp registration; signals blocked by the library stay pending until the mask is lifted); every reader-word store and every
before/after word pair is evaluated by the extracted model functions; frame, grace-period (timing + litmus) and stuck-state oracles."""
import re
from vlib import *
import gp_common as G
FILES = ['include/urcu/static/urcu-memb.h', 'include/urcu/static/urcu-mb.h', 'include/urcu/static/urcu-bp.h', 'include/urcu/static/urcu-common.h', 'src/urcu.c', 'src/urcu-bp.c']
TRUSTED = ['Coq 8.16.1 kernel; no axioms', 'extraction: ExtrOcamlBasic only; ocaml/handler_driver.ml', 'harness: scen_sig.c, sched.c (signal delivery at hook points, signal-mask emulation); projection in tools/props/C19.py',
           'modelled: the reader word as (phase, nesting count); handlers run lock / loads / unlock; signal delivery only at the hook points of the interrupted thread (every shared access, fence, mutex and futex call, '
           'operation entry and exit) - the instruction-level delivery between two plain accesses of one operation is not explored']
PROGS = ['(r)(q)/SS', '((r)q)/(q)/SS', '(r)S/(q)S', '(q)(r)(q)/S/S']

def cases_for(ctx, flavor):
    out = [c for c in corpus('C19') if len(c) == 2]
    for prog in PROGS[:3 if ctx.quick() else len(PROGS)]:
        th = [str(i) for i in range(prog.count('/') + 1)]
        for v in th:
            others = ''.join(t for t in th if t != v)
            for k in range(0, 40 if ctx.quick() else 90):
                fl = v + chr(ord('a') + int(v))
                # handler at step k of v; a second one nested or shortly after; the other threads interleave before / after
                out.append((prog, fl * k + '^' + v + fl * 3))
                if k % 2 == 0: out.append((prog, (others * 6) + fl * k + '^' + v + v * 2 + '^' + v + fl * 4))
                if k % 3 == 0: out.append((prog, fl * k + '^' + v + v + ''.join('>' + o for o in others) + v * 5))
    # the interrupted thread completes its operations, then takes k steps of its exit path (bp: un-registration); the handler is delivered there, completes its
    # rcu_read_lock (j steps), every other thread completes an operation (a whole grace period), then the handler goes on
    for prog in ('(q)/SS', '(r)/S(q)S'):
        th = [str(i) for i in range(prog.count('/') + 1)]; v = '0'; fl = v + 'a'
        for k in range(0, 16 if ctx.quick() else 30):
            for j in (4, 6, 9):
                out.append((prog, '>0' * 3 + fl * k + '^0' + fl * j + '>1' + fl * 6 + '>1'))
    # a signal lands on a thread that is asleep inside its own synchronize_rcu() (leader waiting for a reader; the next leader blocked on the grace-period lock;
    # a third caller asleep in urcu_adaptative_busy_wait): the handler runs there, the futex wait returns EINTR, and every synchronize_rcu() must still return
    if 'bp' not in flavor:
        for prog in ('(r)(q)/S/S/S', '(r)/SS/S/S'):
            for n1 in (40, 80, 140):
                for tgt in ('3', '1', '2'):
                    for pre in ('', '0a' * 3):
                        out.append((prog, '>0' + pre + '1b' * n1 + '2c' * n1 + '3d' * n1 + '^' + tgt + (tgt + chr(ord('a') + int(tgt))) * 12 + '>0>0>0'))
    if 'bp' in flavor:
        # bp fork bracket (before_fork ... after_fork_parent) as the FIRST RCU-related action of a thread: a signal chosen at step k of the bracket stays pending while the
        # bracket has signals blocked and is delivered when the mask is lifted - the handler then registers the thread, so no library lock may be held at that point
        for prog in ('K(r)/(q)S', 'K/(r)S', 'K(q)K/S'):
            for k in range(0, 30 if ctx.quick() else 60):
                out.append((prog, '0a' * k + '^0' + '0a' * 40 + '>1>1'))
    n = len(out) + 150 if ctx.quick() else 6000
    while len(out) < n:
        prog = ctx.rng.choice(PROGS); th = [str(i) for i in range(prog.count('/') + 1)]
        s = bursty(ctx.rng, th, lo=40, hi=300, flush=ctx.rng.choice([0.0, 0.1, 0.3]), means=(1, 3, 10, 30))
        s = ''.join(ch + ('^' + ctx.rng.choice(th) if ctx.rng.random() < 0.08 else '') for ch in s)
        out.append((prog, s))
    return out

def observations(raw, bp):
    """lines for ocaml/handler_driver.ml: every reader-word store with the candidate values of tmp (the word as it was at the entry of the operation or
    after any handler that ran inside it), every before/after pair of a handler"""
    out = []; word = {}; op = {}
    for l in raw.splitlines():
        p = l.replace(' (fwd)', '').split()
        if len(p) < 3 or not p[0].isdigit(): continue
        t, k = p[0], p[1]
        if k == 'call' and p[2] in ('lock', 'unlock'): op.setdefault(t, []).append({'kind': p[2], 'g': 0, 'cands': {word.get(t, 0)}})
        elif k == 'ret' and p[2] in ('lock', 'unlock') and op.get(t):
            op[t].pop()
            if op[t]: op[t][-1]['cands'].add(word.get(t, 0))          # a handler finished inside the enclosing operation
        elif k == 'load' and p[2] == 'gp.ctr+0' and op.get(t): op[t][-1]['g'] = int(p[-1])
        elif k == 'store' and op.get(t) and (p[2] == 'rd%s+0' % t or (bp and p[2].startswith('?'))):
            v = int(p[3][2:]); o = op[t][-1]; cs = ' '.join(map(str, sorted(o['cands'] | {word.get(t, 0)})))
            out.append('L %d %d %s' % (v, o['g'], cs) if o['kind'] == 'lock' else 'U %d %s' % (v, cs))
            word[t] = v
        elif k == 'note' and p[2] == 'frame': out.append('F %s %s' % (p[3], p[4]))
    return out

def oracle(p, s, raw):
    abnormal = [w for w in ('DEADLOCK', 'STEP LIMIT', 'ABORT', 'TIMEOUT') if w in raw]
    if abnormal: return 'abnormal run (%s): a handler or the interrupted operation never returns: %s' % (abnormal[0], raw[-300:])
    m = re.search(r'^.*\bBUG\b.*$', raw, flags=re.M)
    if m: return m.group(0)
    m = re.search(r'^LITMUS.*$', raw, flags=re.M)
    if m: return m.group(0)
    return G.timing_oracle(raw)

def run_flavor(ctx, name, defs, driver, bp=False):
    impl = G.build(ctx, name, defs, 'scen_sig.c')
    if not impl: return
    cases = cases_for(ctx, name)
    tail = ''.join(chr(ord('a') + i) + str(i) for i in range(6)) * 400
    rs = run_many([[impl, p, s + tail] for p, s in cases], timeout=20)
    nor = ndis = 0; distinct = set(); obs = []; idx = []
    for (p, s), (rc, raw) in zip(cases, rs):
        o = oracle(p, s, raw)
        if o:
            nor += 1
            if nor <= 3: ctx.fail('oracle', 'signal-handler oracle (%s)' % name, o, concrete={'scenario': name, 'prog': p, 'schedule': s + tail, 'verdict': o})
        ob = observations(raw, bp); idx.append((len(obs), len(ob), p, s)); obs += ob
        if ' signal' in raw and re.search(r'call (lock|unlock|sync)[^\n]*\n(?:(?!ret )[^\n]*\n)*\d+ signal', raw): distinct.add(hash(raw))
        if len(ctx.cov['samples']) < 3: ctx.cov['samples'].append({'scenario': name, 'prog': p, 'schedule': s[:80]})
    if driver and obs:
        rc, mo, _ = sh([driver], inp='\n'.join(obs) + '\n', timeout=300); ml = mo.splitlines()
        if len(ml) != len(obs): ctx.fail('harness', 'handler driver output', 'expected %d verdicts, got %d' % (len(obs), len(ml)))
        else:
            for (a, n, p, s) in idx:
                bad = [x for x in ml[a:a + n] if x != 'ok']
                if bad:
                    ndis += 1
                    if ndis <= 3: ctx.fail('correspondence', 'HandlerExec.lockw/unlockw/simw agree with the reader-word stores of the %s flavor' % name,
                                           'prog %s schedule %s...: %s' % (p, s[:60], bad[0]), concrete={'scenario': name, 'prog': p, 'schedule': s + tail, 'verdict': bad[0]})
                else: ctx.cov['traces_validated_against_impl'] += 1
            ctx.cov['model_actions_checked'] = ctx.cov.get('model_actions_checked', 0) + len(obs)
    ctx.cov['evaluations'] += len(cases); ctx.cov['distinct_nontrivial'] += len(distinct)
    ctx.cov['oracle_violations'] = ctx.cov.get('oracle_violations', 0) + nor; ctx.cov['disagreements'] = ctx.cov.get('disagreements', 0) + ndis
    ctx.cov['input_distribution'][name] = {'cases': len(cases)}

def run(ctx):
    ctx.cov['source_hash'] = source_hash(FILES)
    prove(ctx)
    driver = build_model_driver(ctx, 'handler', 'ExtractHandler.v', 'handler_driver.ml')
    run_flavor(ctx, 'scen_sig_memb', [], driver)
    run_flavor(ctx, 'scen_sig_mb', ['-DFLAVOR_MB'], driver)
    run_flavor(ctx, 'scen_sig_bp', ['-DFLAVOR_BP'], driver, bp=True)
    return finish(ctx, trusted=TRUSTED, rule='for every thread and every step k of it: handler delivered at step k (store buffered or flushed), a second handler nested inside the first or right after it, other threads '
                  'interleaved before / after + bursty schedules with random deliveries; flavors memb, mb, bp (bp threads start unregistered: first use may happen in the handler); non-trivial = a handler ran inside an operation')
def replay(ctx, rp):
    f = rp.get('failing_input') or {}
    if not f: print('nothing to replay'); return 2
    defs = {'scen_sig_memb': [], 'scen_sig_mb': ['-DFLAVOR_MB'], 'scen_sig_bp': ['-DFLAVOR_BP']}[f['scenario']]
    impl = G.build(ctx, f['scenario'], defs, 'scen_sig.c')
    rc, out = run_many([[impl, f['prog'], f['schedule']]], timeout=20)[0]
    print(out[-3000:]); o = oracle(f['prog'], f['schedule'], out); print('verdict:', o or 'no violation'); return 1 if o else 0
