"""C04 - rcu_barrier: proofs (barrier_covers, conservation, futex skeleton); refinement check + barrier oracle on the real code."""
from vlib import *
import callrcu_common as CR
FILES = ['src/urcu-call-rcu-impl.h', 'src/urcu.c', 'include/urcu/call-rcu.h']
PROGS = ['HC0C1K/BB/()', 'C0C1B/(C2)B/()', 'C0B/C1B/(C2)', 'HC0C1BK/C2B/()', 'c0B/C2C3B/(())', 'HC0K/C1B/C2B']
def handoff_cases(ctx):
    """rcu_barrier() racing with the destruction of a busy per-thread helper H: H (thread 2) is frozen j steps into its batch, the barrier's marker is queued behind that batch,
    the default helper D (thread 3) runs its own marker and goes back to sleep, call_rcu_data_free(H) stops H and hands its leftovers - the marker - over to D"""
    out = []
    for prog in ('HC0K/C1B', 'HC0C2K/C1B/()'):
        for j in range(0, 70 if ctx.quick() else 140, 2 if ctx.quick() else 1):
            for jb in (25, 45):
                out.append((prog, '>0>0' + 'a' * 6 + '>1' + 'b' * 6 + '3d' * 150 + '2c' * j + '1b' * jb + '3d' * 150 + '0a' * 30 + '2c' * 200 + '0a' * 100))
    return out
def run(ctx):
    ctx.cov['source_hash'] = source_hash(FILES)
    prove(ctx)
    driver = build_model_driver(ctx, 'callrcu', 'ExtractCallRcu.v', 'callrcu_driver.ml')
    CR.run_scen(ctx, PROGS, 300 if ctx.quick() else 4000, 'C04', driver, extra_cases=handoff_cases(ctx) + CR.handshake_cases(ctx))
    return finish(ctx, trusted=__import__('props.C03', fromlist=['TRUSTED']).TRUSTED + ['completion object reference counting is exercised (ASan-free run) but not modelled'],
                  rule='as C03, with 1-2 concurrent rcu_barrier() callers, helpers created/destroyed during the barrier; barrier oracle: every callback whose call_rcu() returned '
                       'before the barrier call has finished when it returns; stuck-state oracle')
def replay(ctx, rp):
    print(json.dumps({k: v for k, v in (rp.get('failing_input') or {}).items() if k != 'schedule'}, indent=1)); return run(ctx)
