"""C16 - fork(): proofs (Fork/Fork.v: call_rcu PAUSE handshake for every schedule; BpArena prune); sequential differential of the bp registry prune (urcu_bp_prune_registry)
against the extracted arena model; real fork() probes on the memb flavor (default / per-CPU / per-thread helpers with pending callbacks) and on the bp flavor (other readers
registered, one inside a section behind a freed slot): exactly-once callbacks in parent and child, bounded termination of synchronize_rcu / rcu_barrier in the child, child registry; the hash table's work queue across fork (with and without a call_rcu helper)."""
import re
from vlib import *
from props import C15seq
FILES = ['src/urcu-call-rcu-impl.h', 'src/urcu-bp.c', 'src/urcu.c', 'src/rculfhash.c', 'src/workqueue.c']
SRCS = [REPO + s for s in ('/src/wfcqueue.c', '/src/wfstack.c', '/src/compat_futex.c', '/src/compat_arch.c')]
TRUSTED = ['Coq 8.16.1 kernel; no axioms', 'extraction: ExtrOcamlBasic only; ocaml/bparena_driver.ml', 'harness: seqdiff/bparena.c (prune operation), seqdiff/fork_callrcu.c, seqdiff/fork_bp.c (real fork(), real threads)',
           'modelled: helpers as phases idle / spliced / invoking / paused with queue, private batch and registration flag; the kernel\'s fork semantics (copy of memory, only the calling thread survives) and glibc\'s atfork/malloc '
           'interplay are not modelled; the hash table across fork: creation / use / worker-side destruction of an auto-resizing table in parent and child (seqdiff/fork_lfht.c); a resize in flight at the fork is not exercised']
def run(ctx):
    ctx.cov['source_hash'] = source_hash(FILES)
    prove(ctx)
    am = build_model_driver(ctx, 'bparena', 'ExtractBpArena.v', 'bparena_driver.ml')
    nseq = 10 if ctx.quick() else 120
    for tag, defs in (('2', ['-DURCU_VERIF_INIT_READER_COUNT=2']), ('default', [])):
        exe = os.path.join(BUILD, 'bparena_probe_' + tag)
        rc, so, se = sh(['gcc', '-O1', '-g', '-w', '-DURCU_VERIF'] + defs + ['-I' + REPO + '/include', '-I' + REPO + '/src', os.path.join(HARN, 'seqdiff/bparena.c')] + SRCS + ['-o', exe, '-lpthread'])
        if rc: ctx.fail('harness', 'build of seqdiff/bparena.c', se[-600:]); continue
        if am: C15seq.diff_run(ctx, 'BpArena.prune / alloc / free vs urcu_bp_prune_registry / arena_alloc / cleanup_thread (INIT_READER_COUNT %s)' % tag, exe, am,
                               [[exe, '700', str(ctx.seed * 100 + 50 + i), str(i % 3)] for i in range(nseq)], 'harness/seqdiff/bparena.c')
    probes = [('fork_callrcu', 'seqdiff/fork_callrcu.c', ['3' if ctx.quick() else '20', '0']), ('fork_callrcu', 'seqdiff/fork_callrcu.c', ['3' if ctx.quick() else '20', '1']),
              ('fork_bp', 'seqdiff/fork_bp.c', ['4' if ctx.quick() else '24']),
              ('fork_lfht', 'seqdiff/fork_lfht.c', ['3' if ctx.quick() else '15', '0']), ('fork_lfht', 'seqdiff/fork_lfht.c', ['3' if ctx.quick() else '15', '1'])]
    LFHT = [REPO + x for x in ('/src/rculfhash.c', '/src/rculfhash-mm-order.c', '/src/rculfhash-mm-chunk.c', '/src/rculfhash-mm-mmap.c', '/src/workqueue.c')]
    built = {}
    for name, src, args in probes:
        if name not in built:
            exe = os.path.join(BUILD, name)
            rc, so, se = sh(['gcc', '-O1', '-g', '-w', '-I' + REPO + '/include', '-I' + REPO + '/src', os.path.join(HARN, src)] + SRCS + (LFHT if name == 'fork_lfht' else []) + ['-o', exe, '-lpthread'])
            built[name] = None if rc else exe
            if rc: ctx.fail('harness', 'build of ' + src, se[-600:])
        exe = built[name]
        if not exe: continue
        out = os.path.join(BUILD, name + '.out')
        # never pipe the output of a forking probe: surviving children would keep the pipe open
        rc, _, _ = sh('timeout -s KILL 300 %s %s > %s 2>&1 < /dev/null' % (exe, ' '.join(args), out), timeout=320)
        txt = open(out).read() if os.path.exists(out) else ''
        rounds = len(re.findall(r'^round \d+ .* ok$', txt, flags=re.M)); ctx.cov['evaluations'] += rounds; ctx.cov['distinct_nontrivial'] += rounds
        bug = re.search(r'^BUG.*$', txt, flags=re.M)
        if rc != 0 or bug:
            v = bug.group(0) if bug else 'probe exited with %d: %s' % (rc, txt[-200:])
            ctx.fail('oracle', 'real fork() probe %s %s' % (name, ' '.join(args)), v, concrete={'probe': 'harness/' + src, 'args': args, 'verdict': v})
        if len(ctx.cov['samples']) < 3: ctx.cov['samples'].append({'probe': src, 'args': args, 'rounds_ok': rounds})
    ctx.cov['input_distribution']['fork'] = {'probes': [p[0] + ' ' + ' '.join(p[2]) for p in probes], 'arena sequences': 2 * nseq}
    return finish(ctx, trusted=TRUSTED, rule='real fork() with 120 pending callbacks per round (default helper; per-CPU + per-thread helpers), bp flavor with two readers inside sections and alternately a freed slot in front of them; '
                  'PRNG sequences of arena allocations / frees / prunes; evaluations = arena operations + fork rounds')
def replay(ctx, rp):
    print(json.dumps(rp.get('failing_input'), indent=1)); return run(ctx)
