"""C16 - fork(): proofs (Fork/Fork.v: call_rcu PAUSE handshake for every schedule; BpArena prune); sequential differential of the bp registry prune (urcu_bp_prune_registry)
against the extracted arena model; real fork() probes on the memb flavor (default / per-CPU / per-thread helpers with pending callbacks) and on the bp flavor (other readers
registered, one inside a section behind a freed slot): exactly-once callbacks in parent and child, bounded termination of synchronize_rcu / rcu_barrier in the child, child registry; the hash table's work queue across fork (with and without a call_rcu helper)."""
import re
from vlib import *
from props import C15seq
import gp_common as G
import callrcu_common as CR
FILES = ['src/urcu-call-rcu-impl.h', 'src/urcu-bp.c', 'src/urcu.c', 'src/rculfhash.c', 'src/workqueue.c']
SRCS = [REPO + s for s in ('/src/wfcqueue.c', '/src/wfstack.c', '/src/compat_futex.c', '/src/compat_arch.c')]
TRUSTED = ['Coq 8.16.1 kernel; no axioms', 'extraction: ExtrOcamlBasic only; ocaml/bparena_driver.ml, ocaml/fork_driver.ml', 'projection of scen_callrcu traces onto Fork.choice: tools/props/C16.py project_fork (trusted)', 'harness: seqdiff/bparena.c (prune operation), seqdiff/fork_callrcu.c, seqdiff/fork_bp.c (real fork(), real threads)',
           'modelled: helpers as phases idle / spliced / invoking / paused with queue, private batch and registration flag; the kernel\'s fork semantics (copy of memory, only the calling thread survives) and glibc\'s atfork/malloc '
           'interplay are not modelled; the hash table across fork: creation / use / worker-side destruction of an auto-resizing table in parent and child (seqdiff/fork_lfht.c); the fork bracket taken with the worker held inside a resize, in the first process and in a fork child (second generation); tables of two flavors (memb + bp) in one process, nested handlers of both flavors']
FPROGS = ['C0C1FC2', 'C0HC1C2FC3', 'c0C2FC4/(r)', 'HC0C1FC2FC3', 'C0FC1/(r)(q)', 'Hc0C2C3FC5F']
def project_fork(raw):
    """projection of a scen_callrcu trace with F operations onto Fork.choice (see ocaml/fork_driver.ml)"""
    ev = G.events(raw)
    m = re.search(r'^- layout crd flags (\d+)', raw, flags=re.M)
    if not m: return None
    FL = '+' + m.group(1); PAUSE, PAUSED = 16, 32
    ncrd = len(set(re.findall(r'\bcrd(\d+)\+', raw)))
    out = ['T %d' % ncrd]
    libthreads = set(p[0] for p in ev if p[1] == 'start'); helper_of = {}; phase = {}; began = ended = False; nreg = {}
    for p in ev:
        t, k = p[0], p[1]; loc = p[2] if len(p) > 2 else ''
        mm = re.match(r'crd(\d+)\+(\d+)$', loc)
        if mm and t in libthreads and t not in helper_of: helper_of[t] = int(mm.group(1))
        if k == 'xchg' and mm and mm.group(2) == '0':
            K = int(mm.group(1)); v = p[3][2:]
            if v == '&crd%d+8' % K:
                if t in libthreads and helper_of.get(t) == K:
                    if phase.get(K) == 'syncing': out.append('E %d' % K)
                    out.append('P %d' % K); phase[K] = 'spliced'
                else: return ['T 0', 'X unsupported: queue moved by call_rcu_data_free', '.']
            else:
                i = CR.oid(v)
                if i is not None: out.append('C %d %d' % (K, i))
        elif k == 'unlock' and loc.startswith('reg_lock') and t in helper_of and phase.get(helper_of[t]) not in ('spliced', 'syncing'):
            # a helper releases the registry lock outside synchronize_rcu(): rcu_register_thread() / rcu_unregister_thread() has completed
            # (1st = the registration at thread start, then alternately unregister for a pause and register after it)
            K = helper_of[t]; nreg[K] = nreg.get(K, 0) + 1
            if nreg[K] > 1: out.append(('U %d' if nreg[K] % 2 == 0 else 'G %d') % K)
        elif k == 'xchg' and loc == 'waiters+0' and t in helper_of and phase.get(helper_of[t]) == 'spliced': phase[helper_of[t]] = 'syncing'
        elif k == 'call' and p[2] == 'cb' and t in helper_of:
            K = helper_of[t]
            if phase.get(K) == 'syncing': out.append('E %d' % K); phase[K] = 'invoking'
            out.append('I %d %s' % (K, p[3]))
        elif k == 'or' and mm and loc.endswith(FL):
            v = int(p[3][2:]); K = int(mm.group(1))
            if v == PAUSED: out.append('Z %d' % K)
            elif v == PAUSE and not began: out.append('B'); began = True; ended = False
        elif k == 'and' and mm and loc.endswith(FL):
            v = int(p[3][2:]) & 0xffffffff; K = int(mm.group(1))
            if v == (~PAUSED) & 0xffffffff: out.append('R %d' % K)
            elif v == (~PAUSE) & 0xffffffff and not ended: out.append('N'); ended = True; began = False
        elif k == 'note' and len(p) > 2 and p[2] == 'forkq':
            out.append(('KQ', int(p[3]), p[7] if len(p) > 7 else ''))
        elif k == 'note' and len(p) > 2 and p[2] == 'forkreg':
            pass
        elif k == 'note' and len(p) > 2 and p[2] == 'forkpoint':
            qs = {}
            while out and isinstance(out[-1], tuple): _, kk, ids = out.pop(); qs[kk] = ids.rstrip(',')
            out.append('K ' + '|'.join(qs.get(i, '') for i in range(ncrd)))
    out.append('.')
    return out

def fork_refinement(ctx):
    """the PAUSE / PAUSED handshake of the real urcu-call-rcu-impl.h (call_rcu_before_fork / after_fork_parent around a would-be fork, helpers scheduled like any
    thread) must be a run of the extracted Fork model, and the callbacks found in the helpers' queues at the fork must be the model's"""
    impl = CR.build(ctx); driver = build_model_driver(ctx, 'fork', 'ExtractFork.v', 'fork_driver.ml')
    if not impl or not driver: return
    cases = []
    for prog in FPROGS[:4 if ctx.quick() else len(FPROGS)]:
        th = [str(i) for i in range(prog.count('/') + 1)]; allt = th + [str(len(th) + i) for i in range(2)]      # helper threads get the next ids
        for k in range(0, 60 if ctx.quick() else 160, 3 if ctx.quick() else 1):
            cases.append((prog, '0a' * k + ''.join(x + chr(ord('a') + int(x)) for x in allt[1:]) * 25 + '0a' * 40))
    # targeted family: the forking thread has raised PAUSE; the helper is advanced j steps into its pause path and frozen there while the forking thread
    # runs on to the fork point (if it can): the registry must be quiescent at whatever point the helper stands when PAUSED is visible
    for prog in FPROGS[:2]:
        for k in (24, 36, 48):
            for j in range(0, 36 if ctx.quick() else 80):
                cases.append((prog, '0a' * k + '1b' * j + '>0>0>0'))
    n = len(cases) + (150 if ctx.quick() else 3000)
    while len(cases) < n:
        prog = ctx.rng.choice(FPROGS); th = [str(i) for i in range(prog.count('/') + 1 + 2)]
        cases.append((prog, bursty(ctx.rng, th, lo=60, hi=500, flush=ctx.rng.choice([0.0, 0.1, 0.3]), means=(1, 3, 10, 30))))
    tail = ''.join(chr(ord('a') + i) + str(i) for i in range(6)) * 500
    rs = run_many([[impl, p, s + tail] for p, s in cases], timeout=30)
    blocks = []; nor = 0; nforks = 0
    for (p, s), (rc, raw) in zip(cases, rs):
        o = CR.oracle(p, s, None, raw)
        if 'ABORT' in raw or 'BUG ' in raw or 'TIMEOUT' in raw: o = 'abnormal run: ' + raw[-300:]
        for mreg in re.finditer(r'note forkreg owner (-?\d+) foreign (\d+) napp (\d+)', raw):      # state of the reader registry that fork() would copy
            owner, foreign, napp = int(mreg.group(1)), int(mreg.group(2)), int(mreg.group(3))
            # only the library's helper threads are the handlers' business: another APPLICATION thread registering / unregistering at the fork is outside the
            # documented precondition (no application thread besides the forking one is a registered reader at that moment)
            if not o and (owner >= napp or foreign != 0):
                o = 'at the fork point the reader registry is not quiescent: rcu_registry_lock is held by helper thread %d / %d helper thread(s) still registered - the child inherits a held lock or a reader that does not exist' % (owner, foreign)
        if o:
            nor += 1
            if nor <= 2: ctx.fail('oracle', 'call_rcu oracle on the fork-handshake scenario', o, concrete={'scenario': 'scen_callrcu', 'prog': p, 'schedule': s + tail, 'verdict': o})
        b = project_fork(raw)
        if b is None: ctx.fail('harness', 'layout line of scen_callrcu', raw[:200]); return
        blocks.append(b); nforks += sum(1 for l in b if l.startswith('K '))
    rc, out, err = sh([driver], inp='\n'.join('\n'.join(b) for b in blocks) + '\n', timeout=600); res = out.splitlines(); nrej = 0
    if len(res) != len(cases): ctx.fail('harness', 'fork driver output', 'expected %d verdicts, got %d: %s' % (len(cases), len(res), err[-300:])); return
    for (p, s), r in zip(cases, res):
        if r.startswith('ok'): ctx.cov['model_actions_checked'] = ctx.cov.get('model_actions_checked', 0) + int(r.split()[1]); ctx.cov['traces_validated_against_impl'] += 1
        else:
            nrej += 1
            if nrej <= 3: ctx.fail('correspondence', 'ForkRun.fstep accepts the PAUSE handshake of urcu-call-rcu-impl.h', 'prog %s schedule %s...: %s' % (p, s[:60], r),
                                   concrete={'scenario': 'scen_callrcu', 'prog': p, 'schedule': s + tail, 'verdict': r})
    ctx.cov['evaluations'] += len(cases); ctx.cov['distinct_nontrivial'] += nforks; ctx.cov['disagreements'] = ctx.cov.get('disagreements', 0) + nrej
    ctx.cov['input_distribution']['fork_handshake'] = {'cases': len(cases), 'fork_points_checked': nforks, 'programs': FPROGS}

def bp_bracket(ctx):
    """bp flavor: the parent's fork bracket (urcu_bp_before_fork / after_fork_parent) issued at any point relative to in-flight grace periods - another thread inside
    synchronize_rcu() waiting for a reader, dropping and re-taking the registry lock - under the controlled scheduler: nobody may be left blocked"""
    impl = G.build(ctx, 'scen_sig_bp_c16', ['-DFLAVOR_BP'], 'scen_sig.c')
    if not impl: return
    cases = []
    for prog in ('(r)/S/K', '(q)(r)/SS/KK', '(r)/K/S'):
        th = [str(i) for i in range(prog.count('/') + 1)]
        for k in range(0, 70 if ctx.quick() else 160, 2 if ctx.quick() else 1):
            for j in (0, 3, 8, 15):
                # the reader enters its section; the updater runs k steps into its grace period (waiting for the reader); the forking thread runs j steps into the
                # bracket; the updater goes on; then everybody completes
                cases.append((prog, '>0' + '1b' * k + '2c' * j + '1b' * 12 + '2c' * 30 + '>0>0>1>2'))
    tail = ''.join(chr(ord('a') + i) + str(i) for i in range(6)) * 400
    rs = run_many([[impl, p, s + tail] for p, s in cases], timeout=20)
    nor = 0
    for (p, s), (rc, raw) in zip(cases, rs):
        abnormal = [w for w in ('DEADLOCK', 'STEP LIMIT', 'ABORT', 'BUG ', 'TIMEOUT') if w in raw]
        o = ('the fork bracket and a concurrent grace period block each other (%s): %s' % (abnormal[0], raw[-250:])) if abnormal else G.timing_oracle(raw)
        if o:
            nor += 1
            if nor <= 2: ctx.fail('oracle', 'bp fork bracket against in-flight grace periods (scen_sig, bp)', o, concrete={'scenario': 'scen_sig_bp_c16', 'prog': p, 'schedule': s + tail, 'verdict': o})
    ctx.cov['evaluations'] += len(cases); ctx.cov['distinct_nontrivial'] += sum(1 for _, raw in rs if 'forkpoint' in raw and 'call sync' in raw)
    ctx.cov['input_distribution']['bp_fork_bracket'] = {'cases': len(cases)}

def run(ctx):
    ctx.cov['source_hash'] = source_hash(FILES)
    prove(ctx)
    fork_refinement(ctx)
    bp_bracket(ctx)
    am = build_model_driver(ctx, 'bparena', 'ExtractBpArena.v', 'bparena_driver.ml')
    nseq = 10 if ctx.quick() else 120
    for tag, defs in (('2', ['-DURCU_VERIF_INIT_READER_COUNT=2']), ('default', [])):
        exe = os.path.join(BUILD, 'bparena_probe_' + tag)
        rc, so, se = sh(['gcc', '-O1', '-g', '-w', '-include', REPO + '/include/config.h', '-DURCU_VERIF'] + defs + ['-I' + REPO + '/include', '-I' + REPO + '/src', os.path.join(HARN, 'seqdiff/bparena.c')] + SRCS + ['-o', exe, '-lpthread'])
        if rc: ctx.fail('harness', 'build of seqdiff/bparena.c', se[-600:]); continue
        if am: C15seq.diff_run(ctx, 'BpArena.prune / alloc / free vs urcu_bp_prune_registry / arena_alloc / cleanup_thread (INIT_READER_COUNT %s)' % tag, exe, am,
                               [[exe, '700', str(ctx.seed * 100 + 50 + i), str(i % 3)] for i in range(nseq)], 'harness/seqdiff/bparena.c')
    import lfhtx_common as X
    ximpl = X.build(ctx)
    if ximpl: X.run_wq(ctx, ximpl, build_model_driver(ctx, 'wqpause', 'ExtractWqPause.v', 'wqpause_driver.ml'))
    probes = [('fork_callrcu', 'seqdiff/fork_callrcu.c', ['3' if ctx.quick() else '20', '0']), ('fork_callrcu', 'seqdiff/fork_callrcu.c', ['3' if ctx.quick() else '20', '1']),
              ('fork_bp', 'seqdiff/fork_bp.c', ['4' if ctx.quick() else '24']),
              ('fork_lfht', 'seqdiff/fork_lfht.c', ['3' if ctx.quick() else '15', '0']), ('fork_lfht', 'seqdiff/fork_lfht.c', ['3' if ctx.quick() else '15', '1']), ('fork_lfht', 'seqdiff/fork_lfht.c', ['3' if ctx.quick() else '15', '2'])]
    LFHT = [REPO + x for x in ('/src/rculfhash.c', '/src/rculfhash-mm-order.c', '/src/rculfhash-mm-chunk.c', '/src/rculfhash-mm-mmap.c', '/src/workqueue.c')]
    built = {}
    for name, src, args in probes:
        if name not in built:
            exe = os.path.join(BUILD, name)
            rc, so, se = sh(['gcc', '-O1', '-g', '-w', '-include', REPO + '/include/config.h', '-I' + REPO + '/include', '-I' + REPO + '/src', os.path.join(HARN, src)] + SRCS + ((LFHT + [os.path.join(HARN, 'seqdiff/fork_lfht_bp.c'), REPO + '/src/urcu-bp.c']) if name == 'fork_lfht' else []) + ['-o', exe, '-lpthread'])
            built[name] = None if rc else exe
            if rc: ctx.fail('harness', 'build of ' + src, se[-600:])
        exe = built[name]
        if not exe: continue
        out = os.path.join(BUILD, name + '.out')
        # never pipe the output of a forking probe: surviving children would keep the pipe open
        rc, _, _ = sh('timeout -s KILL 300 %s %s > %s 2>&1 < /dev/null' % (exe, ' '.join(args), out), timeout=320)
        txt = open(out).read() if os.path.exists(out) else ''
        rounds = len(re.findall(r'^round \d+ .* ok$', txt, flags=re.M)); ctx.cov['evaluations'] += rounds; ctx.cov['distinct_nontrivial'] += rounds
        if name == 'fork_lfht': ctx.cov['input_distribution'].setdefault('fork_lfht busy-worker brackets', []).append({'args': args, 'child_exercised': len(re.findall(r'^child round \d+ busy-worker bracket exercised', txt, flags=re.M)), 'parent': (re.findall(r'^parent busy-worker brackets exercised (\d+ of \d+)', txt, flags=re.M) or ['?'])[0]})
        bug = re.search(r'^BUG.*$', txt, flags=re.M)
        if rc != 0 or bug:
            v = bug.group(0) if bug else 'probe exited with %d: %s' % (rc, txt[-200:])
            ctx.fail('oracle', 'real fork() probe %s %s' % (name, ' '.join(args)), v, concrete={'probe': 'harness/' + src, 'args': args, 'verdict': v})
        if len(ctx.cov['samples']) < 3: ctx.cov['samples'].append({'probe': src, 'args': args, 'rounds_ok': rounds})
    ctx.cov['input_distribution']['fork'] = {'probes': [p[0] + ' ' + ' '.join(p[2]) for p in probes], 'arena sequences': 2 * nseq}
    return finish(ctx, trusted=TRUSTED, rule='real fork() with 120 pending callbacks per round (default helper; per-CPU + per-thread helpers), bp flavor with two readers inside sections and alternately a freed slot in front of them; '
                  'PRNG sequences of arena allocations / frees / prunes; evaluations = arena operations + fork rounds')
def replay(ctx, rp):
    print(json.dumps(rp.get('failing_input'), indent=1)); return run(ctx)
