"""sequential parts of C15: urcu/list.h differential (pointer-level) and the bp registry arena probe, each against its extracted Coq model"""
from vlib import *
SRCS = [REPO + s for s in ('/src/wfcqueue.c', '/src/wfstack.c', '/src/compat_futex.c', '/src/compat_arch.c')]
def diff_run(ctx, what, exe, model, cmds, probe):
    for (rc, out), cmd in zip(run_many(cmds, timeout=60), cmds):
        lines = out.splitlines(); ctx.cov['evaluations'] += len(lines)
        if rc != 0 or 'BUG' in out:
            bug = next((l for l in lines if 'BUG' in l), out[-200:])
            ctx.fail('oracle', what + ' probe', 'probe exited with %d: %s' % (rc, bug), concrete={'probe': probe, 'args': cmd[1:], 'verdict': bug}); continue
        rc2, mo, _ = sh([model], inp=out, timeout=120); ml = mo.splitlines()
        bad = [(i, a, b) for i, (a, b) in enumerate(zip(lines, ml)) if a != b]
        if bad or len(ml) != len(lines):
            i, a, b = bad[0] if bad else (min(len(ml), len(lines)), '<end>', '<end>')
            ctx.fail('correspondence', what, 'operation %d: impl "%s" model "%s"' % (i, a[:200], b[:200]),
                     concrete={'probe': probe, 'args': cmd[1:], 'first_difference': {'op': i, 'impl': a[:300], 'model': b[:300]}})
        else: ctx.cov['traces_validated_against_impl'] += 1
def run(ctx):
    nseq = 12 if ctx.quick() else 150
    lm = build_model_driver(ctx, 'listdl', 'ExtractListDl.v', 'listdl_driver.ml')
    exe = os.path.join(BUILD, 'listdl_probe')
    rc, so, se = sh(['gcc', '-O1', '-g', '-w', '-include', REPO + '/include/config.h', '-I' + REPO + '/include', os.path.join(HARN, 'seqdiff/listdl.c'), '-o', exe])
    if rc: ctx.fail('harness', 'build of seqdiff/listdl.c', se[-600:])
    elif lm: diff_run(ctx, 'ListDl.lstep vs urcu/list.h (next/prev of every node after each operation)', exe, lm, [[exe, '600', str(ctx.seed * 100 + i)] for i in range(nseq)], 'harness/seqdiff/listdl.c')
    am = build_model_driver(ctx, 'bparena', 'ExtractBpArena.v', 'bparena_driver.ml')
    for tag, defs in (('2', ['-DURCU_VERIF_INIT_READER_COUNT=2']), ('default', [])):
        exe = os.path.join(BUILD, 'bparena_probe_' + tag)
        rc, so, se = sh(['gcc', '-O1', '-g', '-w', '-include', REPO + '/include/config.h', '-DURCU_VERIF'] + defs + ['-I' + REPO + '/include', '-I' + REPO + '/src', os.path.join(HARN, 'seqdiff/bparena.c')] + SRCS + ['-o', exe, '-lpthread'])
        if rc: ctx.fail('harness', 'build of seqdiff/bparena.c (%s)' % tag, se[-600:]); continue
        if am: diff_run(ctx, 'BpArena.alloc/free vs arena_alloc/expand_arena/cleanup_thread of urcu-bp.c (INIT_READER_COUNT %s)' % tag, exe, am,
                        [[exe, '500', str(ctx.seed * 100 + i), str(i % 3)] for i in range(nseq)], 'harness/seqdiff/bparena.c')
    ctx.cov['input_distribution']['sequential'] = {'list sequences': nseq, 'arena sequences': 2 * nseq, 'ops_each': '500-600', 'arena modes': 'mixed / mremap always fails / growth'}
