"""C15 - dynamic registration: proofs (ListDl/*.v: the cds_list operations the registries are built from implement abstract list operations on well-formed
doubly linked lists - add, del, move, splice; BpArena/BpArena.v: first-fit slot allocation, slots never move when the arena grows, a free slot always exists after one
expansion); sequential differential correspondence of the extracted list model with urcu/list.h (pointer-level dumps); grace-period oracles on the real
memb / mb / qsbr flavors with threads registering and unregistering while grace periods run; bp arena probe on the real urcu-bp.c."""
import re
from vlib import *
import gp_common as G
FILES = ['src/urcu.c', 'src/urcu-qsbr.c', 'src/urcu-bp.c', 'include/urcu/static/urcu-bp.h', 'include/urcu/list.h']
TRUSTED = ['Coq 8.16.1 kernel; no axioms', 'extraction: ExtrOcamlBasic only; ocaml/listdl_driver.ml', 'harness: seqdiff/listdl.c, seqdiff/bparena.c, scen_gp.c (-DDYNREG), sched.c',
           'modelled: lists as next/prev maps over node ids; the bp arena as chunks of allocation bits with the mremap outcome as an oracle bit; the grace-period algorithm itself is C01 - here its '
           'behaviour under a changing registry is covered by the timing/litmus oracles only']
DPROGS = ['(r)(q)(r)/-RU/SSS', '(r)(r)/-R(q)U/-RU/SS', '(r)U/-R(r)(q)U/SSS', '-R(r)UR(q)U/(q)(r)/SS', '(r)(q)/-RURURU/S/S', '-R(r)U/-R(q)U/-R(r)U/SSS']

def dyn_cases(ctx, n):
    out = [c for c in corpus('C15') if len(c) == 2]
    for prog in DPROGS[:3 if ctx.quick() else len(DPROGS)]:
        th = [str(i) for i in range(prog.count('/') + 1)]
        ups = [str(i) for i, tp in enumerate(prog.split('/')) if 'S' in tp]
        regs = [str(i) for i, tp in enumerate(prog.split('/')) if 'R' in tp]
        readers = [t for t in th if t not in ups]
        # reader r frozen inside a section for p1 steps; the updater runs w1 steps (into its wait); registrant x registers; the reader leaves; the updater finishes;
        # x unregisters; the reader enters again; the updater runs the next grace period
        for r in readers[:2]:
            for x in regs[:1]:
                if x == r: continue
                for p1 in range(2, 9):
                    for w1 in range(6, 60, 3 if ctx.quick() else 1):
                        u = ups[0]; fl = lambda t: t + chr(ord('a') + int(t))
                        out.append((prog, fl(r) * p1 + fl(u) * w1 + '>' + x + fl(r) * 6 + '>' + u + '>' + x + fl(r) * 4 + '>' + u + fl(r) * 3 + '>' + u))
        for v in th:
            for point in range(1, 30 if ctx.quick() else 60, 2):
                out.append((prog, parking(th, point, 1, v, 1)))
                if v not in ups: out.append((prog, parking_ops(th, v, point, 1, 2, 1, runner=ups[0])))
    while len(out) < n:
        prog = ctx.rng.choice(DPROGS); th = [str(i) for i in range(prog.count('/') + 1)]
        out.append((prog, bursty(ctx.rng, th, lo=60, hi=500, flush=ctx.rng.choice([0.0, 0.05, 0.3]), means=(1, 3, 10, 30, 60))))
    return out

def run_dyn(ctx, name, defs, n, driver=None, projector=None, model='GpMbDynExec (mb model with dynamic registry)'):
    impl = G.build(ctx, name, ['-DDYNREG'] + defs)
    if not impl: return
    cases = dyn_cases(ctx, n)
    tail = ''.join(chr(ord('a') + i) + str(i) for i in range(6)) * 400
    rs = run_many([[impl, p, s + tail] for p, s in cases], timeout=20)
    nor = 0; distinct = set()
    for (p, s), (rc, raw) in zip(cases, rs):
        abnormal = [w for w in ('DEADLOCK', 'STEP LIMIT', 'ABORT', 'BUG ', 'TIMEOUT') if w in raw]
        o = ('abnormal run (%s): %s' % (abnormal[0], raw[-300:])) if abnormal else G.oracle(p, s, None, raw)
        if o:
            nor += 1
            if nor <= 3: ctx.fail('oracle', 'grace-period oracle with dynamic registration (%s)' % name, o, concrete={'scenario': name, 'prog': p, 'schedule': s + tail, 'verdict': o})
        # non-trivial: a registration or unregistration took the registry lock while a grace period was in progress
        if re.search(r'call sync(?:(?!ret sync).)*call (un)?register', raw.replace('\n', ' ')): distinct.add(hash(raw))
        if len(ctx.cov['samples']) < 3: ctx.cov['samples'].append({'scenario': name, 'prog': p, 'schedule': s[:80]})
    ctx.cov['evaluations'] += len(cases); ctx.cov['distinct_nontrivial'] += len(distinct)
    ctx.cov['oracle_violations'] = ctx.cov.get('oracle_violations', 0) + nor
    ctx.cov['input_distribution'][name] = {'cases': len(cases), 'programs': DPROGS}
    if driver:
        # refinement: the trace - registrations and unregistrations included - must be a run of the dynamic-registry grace-period model (Gp/GpMbDynExec.v)
        from props import C01
        def project_for(prog):
            init = [str(i) for i, tp in enumerate(prog.split('/')) if not tp.startswith('-')]
            return lambda raw, nth: (projector or G.project_mb)(raw, nth, dyn_initial=init)
        by_prog = {}
        for (p, sch), (rc, raw) in zip(cases, rs): by_prog.setdefault(p, []).append(((p, sch), raw))
        for p, lst in by_prog.items():
            C01.refine(ctx, driver, [c for c, _ in lst], [r for _, r in lst], '%s accepts the trace of src/urcu.c (%s)' % (model, name), project_for(p))

BPPROGS = ['(r)/(q)(r)(q)(r)/SSS', '(r)(q)/(r)/(q)(r)(q)/SS', '(q)/(r)(r)/S/S(q)', '(r)/(q)/(r)/(q)/SSS']      # bp: a thread registers on first use and leaves when its program ends
def run_bp(ctx, n):
    impl = G.build(ctx, 'scen_sig_bp_dyn', ['-DFLAVOR_BP'], 'scen_sig.c')
    if not impl: return
    cases = []
    for prog in BPPROGS[:3 if ctx.quick() else len(BPPROGS)]:
        th = [str(i) for i in range(prog.count('/') + 1)]
        for v in th:
            for point in range(1, 40 if ctx.quick() else 80, 2): cases.append((prog, parking(th, point, 1, v, 1)))
            # a signal whose handler uses the read side, delivered at each step of the thread's first read-side call (its registration): "signals cannot interrupt registration"
            fl = v + chr(ord('a') + int(v))
            for k in range(0, 30 if ctx.quick() else 60): cases.append((prog, fl * k + '^' + v + fl * 4))
    while len(cases) < n:
        prog = ctx.rng.choice(BPPROGS); th = [str(i) for i in range(prog.count('/') + 1)]
        cases.append((prog, bursty(ctx.rng, th, lo=60, hi=500, flush=ctx.rng.choice([0.0, 0.05, 0.3]), means=(1, 3, 10, 30, 60))))
    tail = ''.join(chr(ord('a') + i) + str(i) for i in range(6)) * 400
    rs = run_many([[impl, p, s + tail] for p, s in cases], timeout=20); nor = 0
    for (p, s), (rc, raw) in zip(cases, rs):
        abnormal = [w for w in ('DEADLOCK', 'STEP LIMIT', 'ABORT', 'BUG ', 'TIMEOUT') if w in raw]
        o = ('abnormal run (%s): %s' % (abnormal[0], raw[-300:])) if abnormal else G.oracle(p, s, None, raw)
        if o:
            nor += 1
            if nor <= 3: ctx.fail('oracle', 'grace-period oracle, bp flavor with threads coming and going', o, concrete={'scenario': 'scen_sig_bp_dyn', 'prog': p, 'schedule': s + tail, 'verdict': o})
    ctx.cov['evaluations'] += len(cases); ctx.cov['distinct_nontrivial'] += len(set(hash(r[1]) for r in rs))
    ctx.cov['oracle_violations'] = ctx.cov.get('oracle_violations', 0) + nor
    ctx.cov['input_distribution']['scen_sig_bp_dyn'] = {'cases': len(cases), 'programs': BPPROGS}

QPROGS = ['rQrU/SS', 'rU/qQqU/SS', 'rQr/qU/S/S', 'rURrU/qQq/SS', 'qU/rU/rQrU/SSS']     # qsbr: threads unregister while online, possibly while an updater sleeps on the futex because of them
def run_qsbr(ctx, n):
    impl = G.build(ctx, 'scen_qsbr_dyn', ['-DDYNREG', '-DURCU_VERIF_RCU_QS_ACTIVE_ATTEMPTS=1'], 'scen_qsbr.c')
    if not impl: return
    cases = []
    for prog in QPROGS[:3 if ctx.quick() else len(QPROGS)]:
        th = [str(i) for i in range(prog.count('/') + 1)]
        ups = [str(i) for i, tp in enumerate(prog.split('/')) if 'S' in tp]
        for v in th:
            if v in ups: continue
            fl = lambda t: t + chr(ord('a') + int(t))
            for p1 in range(1, 10):            # reader frozen online after p1 steps; the updater runs until it sleeps; the reader resumes and unregisters
                for w1 in (30, 60, 120): cases.append((prog, fl(v) * p1 + fl(ups[0]) * w1 + fl(v) * 40 + '>' + ups[0]))
            for point in range(1, 30, 2): cases.append((prog, parking(th, point, 1, v, 1)))
    while len(cases) < n:
        prog = ctx.rng.choice(QPROGS); th = [str(i) for i in range(prog.count('/') + 1)]
        cases.append((prog, bursty(ctx.rng, th, lo=60, hi=500, flush=ctx.rng.choice([0.0, 0.05, 0.3]), means=(1, 3, 10, 30, 60))))
    tail = ''.join(chr(ord('a') + i) + str(i) for i in range(6)) * 400
    rs = run_many([[impl, p, s + tail] for p, s in cases], timeout=20); nor = 0
    for (p, s), (rc, raw) in zip(cases, rs):
        abnormal = [w for w in ('DEADLOCK', 'STEP LIMIT', 'ABORT', 'BUG ', 'TIMEOUT') if w in raw]
        o = ('abnormal run (%s): an updater is never released although every reader it waited for has left or passed a quiescent state: %s' % (abnormal[0], raw[-200:])) if abnormal else G.qsbr_oracle(p, s, None, raw)
        if o:
            nor += 1
            if nor <= 3: ctx.fail('oracle', 'grace-period oracle, qsbr with threads unregistering while online', o, concrete={'scenario': 'scen_qsbr_dyn', 'prog': p, 'schedule': s + tail, 'verdict': o})
    ctx.cov['evaluations'] += len(cases); ctx.cov['distinct_nontrivial'] += sum(1 for r in rs if 'futex_wait' in r[1] or 'sleep' in r[1])
    ctx.cov['oracle_violations'] = ctx.cov.get('oracle_violations', 0) + nor
    ctx.cov['input_distribution']['scen_qsbr_dyn'] = {'cases': len(cases), 'programs': QPROGS}

def run(ctx):
    ctx.cov['source_hash'] = source_hash(FILES)
    prove(ctx)
    n = 400 if ctx.quick() else 5000
    membdriver = build_model_driver(ctx, 'gpdyn', 'ExtractGpDyn.v', 'gpdyn_driver.ml')
    run_dyn(ctx, 'scen_gp_dyn_memb', [], n, membdriver, G.project_memb, 'GpDynExec (memb model with dynamic registry)')
    dyndriver = build_model_driver(ctx, 'gpmbdyn', 'ExtractGpMbDyn.v', 'gpmbdyn_driver.ml')
    run_dyn(ctx, 'scen_gp_dyn_mb', ['-DFLAVOR_MB'], n // 2, dyndriver)
    run_bp(ctx, n // 2)
    run_qsbr(ctx, n // 2)
    from props import C15seq
    C15seq.run(ctx)
    return finish(ctx, trusted=TRUSTED, rule='threads register and unregister (scheduled operations) while 2-3 grace periods run: targeted schedules (reader inside a section while the updater waits, a third thread '
                  'registers, the grace period ends, the third thread leaves, next grace period) + parking sweeps + bursty; sequential: PRNG sequences of list operations / bp registrations')
def replay(ctx, rp):
    f = rp.get('failing_input') or {}
    if not f or 'prog' not in f: print(json.dumps(f, indent=1)); return run(ctx)
    if f['scenario'] == 'scen_qsbr_dyn':
        impl = G.build(ctx, 'scen_qsbr_dyn', ['-DDYNREG', '-DURCU_VERIF_RCU_QS_ACTIVE_ATTEMPTS=1'], 'scen_qsbr.c'); rc, out = run_many([[impl, f['prog'], f['schedule']]], timeout=20)[0]
        print(out[-3000:]); o = G.qsbr_oracle(f['prog'], f['schedule'], None, out); print('verdict:', o or ('stuck' if 'DEADLOCK' in out else 'no violation')); return 1 if (o or 'DEADLOCK' in out) else 0
    if f['scenario'] == 'scen_sig_bp_dyn':
        impl = G.build(ctx, 'scen_sig_bp_dyn', ['-DFLAVOR_BP'], 'scen_sig.c'); rc, out = run_many([[impl, f['prog'], f['schedule']]], timeout=20)[0]
        print(out[-3000:]); o = G.oracle(f['prog'], f['schedule'], None, out); print('verdict:', o or 'no violation'); return 1 if o else 0
    impl = G.build(ctx, f['scenario'], ['-DDYNREG'] + (['-DFLAVOR_MB'] if f['scenario'].endswith('mb') and 'memb' not in f['scenario'] else []))
    rc, out = run_many([[impl, f['prog'], f['schedule']]], timeout=20)[0]
    print(out[-3000:]); o = G.oracle(f['prog'], f['schedule'], None, out); print('verdict:', o or 'no violation'); return 1 if o else 0
