"""C13 - defer_rcu: proofs (Defer/*.v) + sequential differential correspondence of the extracted ring model with the real
_defer_rcu / rcu_defer_barrier_thread (small and default ring sizes) + concurrent scenario with the reclaimer thread (oracle)."""
import re
from vlib import *
FILES = ['src/urcu-defer-impl.h', 'include/urcu/defer.h', 'src/urcu.c']
TRUSTED = ['Coq 8.16.1 kernel; no axioms; no native_compute', 'extraction: ExtrOcamlBasic only; ocaml/defer_driver.ml',
           'harness/seqdiff/defer.c; hooks URCU_VERIF_DEFER_QUEUE_SIZE / URCU_VERIF_DEFER_CALL (guarded, add-only)',
           'modelled: head/tail as unbounded counters; DeferWrap.rep_enq shows that the machine-word ring takes the same steps, and the probe runs that start just below 2^64 compare the counters modulo 2^64; '
           'grace period = the real synchronize_rcu() of the memb flavor in the probe, abstract in the model; the reclaimer thread futex protocol is covered by the Futex/CrFutex.v skeleton']
SRCS = [REPO + s for s in ('/src/wfcqueue.c', '/src/wfstack.c', '/src/compat_futex.c', '/src/compat_arch.c')]

def oracle_lines(lines):
    """exactly once / in order / exact arguments, on the implementation output alone"""
    queued, called = [], []
    for l in lines[1:]:
        if l.startswith('START '): continue
        h, c = l.split('|')[0].split(), l.split('|')[1]
        if h and h[0] == 'E': queued.append((h[1], h[2]))
        called += re.findall(r'\((\w+),(\w+)\)', c)
    if called != queued[:len(called)]:
        k = next((i for i, (a, b) in enumerate(zip(called, queued)) if a != b), min(len(called), len(queued)))
        return 'call #%d was %s, queued %s' % (k, called[k] if k < len(called) else '<none>', queued[k] if k < len(queued) else '<none>')
    if len(called) != len(queued): return '%d calls queued, %d made after the final barrier' % (len(queued), len(called))
    return None

def run(ctx):
    ctx.cov['source_hash'] = source_hash(FILES)
    prove(ctx)
    model = build_model_driver(ctx, 'defer', 'ExtractDefer.v', 'defer_driver.ml')
    sizes = [('16', 16), ('8', 8), ('default', None)] if ctx.quick() else [('16', 16), ('8', 8), ('4', 4), ('64', 64), ('default', None)]
    for tag, sz in sizes:
        exe = os.path.join(BUILD, 'defer_probe_' + tag)
        defs = ['-DURCU_VERIF'] + (['-DURCU_VERIF_DEFER_QUEUE_SIZE=%d' % sz] if sz else [])
        rc, so, se = sh(['gcc', '-O1', '-g', '-w'] + defs + ['-I' + REPO + '/include', '-I' + REPO + '/src', os.path.join(HARN, 'seqdiff/defer.c')] + SRCS + ['-o', exe, '-lpthread'])
        if rc: ctx.fail('harness', 'build of seqdiff/defer.c (size %s)' % tag, se[-800:]); continue
        nseq = (12 if ctx.quick() else 100) if sz else 2
        cmds = [[exe, str(300 if sz else 9000), str(ctx.seed * 1000 + i), str(i % 3 if sz else 1)] for i in range(nseq)]
        if sz and sz <= 16:      # the free-running head / tail counters start just below 2^64: every run crosses the wrap-around (DeferWrap.rep_enq)
            cmds += [[exe, '200', str(ctx.seed * 1000 + 500 + i), str(i % 3), str(2 ** 64 - k)] for i, k in enumerate((1, 2, 3, 5, 9, 17) if ctx.quick() else range(1, 40))]
        outs = run_many(cmds, timeout=120)
        for (rc, out), cmd in zip(outs, cmds):
            lines = out.splitlines()
            ctx.cov['evaluations'] += len(lines) - 1
            if rc != 0 or not lines:
                ctx.fail('oracle', 'defer probe run', 'probe exited with %d: %s' % (rc, out[-300:]), concrete={'probe': 'harness/seqdiff/defer.c', 'size': tag, 'args': cmd[1:], 'output_tail': out[-300:]}); continue
            o = oracle_lines(lines)
            if o: ctx.fail('oracle', 'defer exactly-once/in-order oracle', o, concrete={'probe': 'harness/seqdiff/defer.c', 'size': tag, 'args': cmd[1:], 'verdict': o})
            if model:
                rc2, mo, _ = sh([model], inp=out, timeout=300)
                ml = mo.splitlines()
                bad = [(i, a, b) for i, (a, b) in enumerate(zip(lines, ml)) if a != b]
                ctx.cov['traces_validated_against_impl'] += len(lines) - 1 - len(bad)
                if bad or len(ml) != len(lines):
                    i, a, b = bad[0] if bad else (min(len(ml), len(lines)), '<end>', '<end>')
                    ctx.fail('correspondence', 'DeferRun.dstep vs _defer_rcu/rcu_defer_barrier_thread (ring size %s)' % tag,
                             'operation %d: impl "%s" model "%s"' % (i, a[:300], b[:300]))
            full = sum(1 for l in lines if re.search(r'^E .*calls: \(', l))
            ctx.cov['distinct_nontrivial'] += full           # enqueues that found the ring nearly full and flushed synchronously
            if len(ctx.cov['samples']) < 3 and len(lines) > 5: ctx.cov['samples'].append({'size': tag, 'ops': [l[:160] for l in lines[1:5]]})
        ctx.cov['input_distribution'][tag] = {'sequences': nseq, 'ops_each': 300 if sz else 9000}
    return finish(ctx, trusted=TRUSTED, rule='operation sequences (enqueue with functions/arguments from an adversarial pool: odd, MARK, ~0, equal/changing functions; barriers) '
                  'from one PRNG; three modes (mixed, long bursts reaching occupancy SIZE-3..SIZE, adversarial only); ring sizes 8/16 (hook) and the default 4096; '
                  'evaluations = operations; distinct_nontrivial = enqueues that hit the nearly-full threshold and flushed synchronously')
def replay(ctx, rp):
    print(json.dumps(rp.get('failing_input'), indent=1)); return run(ctx)
