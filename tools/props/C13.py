"""C13 - defer_rcu: proofs (Defer/*.v) + sequential differential correspondence of the extracted ring model with the real
_defer_rcu / rcu_defer_barrier_thread (small and default ring sizes) + concurrent scenario with the reclaimer thread (oracle)."""
import re
from vlib import *
FILES = ['src/urcu-defer-impl.h', 'include/urcu/defer.h', 'src/urcu.c']
TRUSTED = ['Coq 8.16.1 kernel; no axioms; no native_compute', 'extraction: ExtrOcamlBasic only; ocaml/defer_driver.ml',
           'harness/seqdiff/defer.c; hooks URCU_VERIF_DEFER_QUEUE_SIZE / URCU_VERIF_DEFER_CALL (guarded, add-only)',
           'modelled: head/tail as unbounded counters; DeferWrap.rep_enq shows that the machine-word ring takes the same steps, and the probe runs that start just below 2^64 compare the counters modulo 2^64; '
           'grace period = the real synchronize_rcu() of the memb flavor in the probe, abstract in the model; the reclaimer thread futex protocol: Futex/CrFutex.v skeleton (theorem) + the real reclaimer thread under the controlled scheduler (scen_defer.c: exactly-once / order / grace-period / liveness / barrier oracles)']
SRCS = [REPO + s for s in ('/src/wfcqueue.c', '/src/wfstack.c', '/src/compat_futex.c', '/src/compat_arch.c')]

def oracle_lines(lines):
    """exactly once / in order / exact arguments, on the implementation output alone"""
    queued, called = [], []
    for l in lines[1:]:
        if l.startswith('START '): continue
        h, c = l.split('|')[0].split(), l.split('|')[1]
        if h and h[0] == 'E': queued.append((h[1], h[2]))
        called += re.findall(r'\((\w+),(\w+)\)', c)
    if called != queued[:len(called)]:
        k = next((i for i, (a, b) in enumerate(zip(called, queued)) if a != b), min(len(called), len(queued)))
        return 'call #%d was %s, queued %s' % (k, called[k] if k < len(called) else '<none>', queued[k] if k < len(queued) else '<none>')
    if len(called) != len(queued): return '%d calls queued, %d made after the final barrier' % (len(queued), len(called))
    return None

def lock_discipline(raw):
    """program-order facts the Defer/DeferLock.v model relies on, checked on the implementation trace: every deferred call is made, and every queue's tail is
    published, by a thread that holds rcu_defer_mutex (the drains of one queue - reclaimer, rcu_defer_barrier(), the owner's full-queue and final flushes - never
    overlap); a queue's head is only advanced by its owner"""
    m = re.search(r'^- dqoff (\d+) (\d+)', raw, re.M)
    if not m: return None
    hoff, toff = m.group(1), m.group(2)
    held = {}
    for l in raw.splitlines():
        p = l.split()
        if len(p) < 3 or not p[0].isdigit(): continue
        t, k, loc = p[0], p[1], p[2]
        h = held.setdefault(t, set())
        if k == 'lock' or (k == 'trylock' and p[-1] == 'ok'): h.add(loc)
        elif k == 'unlock': h.discard(loc)
        elif k == 'call' and loc == 'dcall' and 'dmutex+0' not in h:
            return 'thread %s makes the deferred call of object %s without holding rcu_defer_mutex: two drains of the same queue can overlap and make a call twice' % (t, p[3])
        elif k in ('store', 'xchg', 'cmpxchg', 'add', 'addret', 'inc', 'dec') and loc.startswith('dq'):
            q, off = loc[2:].split('+')
            if off == toff and 'dmutex+0' not in h:
                return 'thread %s publishes the tail of the queue of thread %s without holding rcu_defer_mutex' % (t, q)
            if off == hoff and q != t:
                return 'thread %s writes the head of the queue of thread %s (only the owner appends)' % (t, q)
    return None

RPROGS = ['RD1D2WD3WU', 'RD1WD2D3WU/(r)', 'RD1D2D3D4D5D6WU', 'RD1BD2WU/RD5D6WU', 'RD1D2WURD3WU', 'RD1D2BD3U/(q)(r)', 'RD1URD2BURD3WU', 'RD5URD6D1WU/(r)']
def reclaimer_oracle(prog, raw):
    """exactly once, in queue order, after the grace period, by the background reclaimer without further API calls; barrier / unregister return after the calls"""
    if 'DEADLOCK' in raw: return 'stuck state: a thread waits for ever (a queued call is never made by the background reclaimer, or barrier / unregister never returns)'
    if 'STEP LIMIT' in raw: return 'live-lock: a thread waits for calls that the background reclaimer never makes (lost wake-up) - step limit reached'
    if 'ABORT' in raw or 'BUG ' in raw: return 'abnormal run: ' + raw[-300:]
    import oracles
    so = oracles.sleeper_order(raw) or oracles.waker_order(raw) or lock_discipline(raw)
    if so: return so
    ev = [l.split() for l in raw.splitlines() if l and l[0].isdigit()]
    q = {}; made = {}; owner = {}; qtime = {}; open_ = {}; sections = []; depth = {}; qdone = {}
    for i, p in enumerate(ev):
        t, k = p[0], p[1]
        if k == 'call' and p[2] == 'defer': q.setdefault(t, []).append(p[3]); owner[p[3]] = t; qtime[p[3]] = i
        elif k == 'call' and p[2] == 'dcall':
            o = owner.get(p[3])
            if o is None: return 'call of object %s, which was never queued' % p[3]
            made.setdefault(o, []).append(p[3])
            if made[o] != q[o][:len(made[o])]: return 'calls queued by thread %s were %s, the calls made so far are %s (exactly once, in order)' % (o, q[o], made[o])
            for (tr, a, b) in sections + [(tr, a, None) for tr, a in open_.items()]:
                if a < qtime[p[3]] and (b is None or b > i): return 'call of object %s (queued at event %d) made at event %d while the read-side section of thread %s begun at event %d is still open' % (p[3], qtime[p[3]], i, tr, a)
        elif k == 'note' and len(p) >= 6 and p[2] == 'fn' and p[4] == 'arg':
            # the (function, argument) pair the library passes: D<i> queued function fn_b when i & 4 else fn_a, argument (i << 4) | (i % 3 == 1)
            a = int(p[5], 16); i0 = a >> 4
            if p[3] != ('b' if i0 & 4 else 'a') or a != ((i0 << 4) | (1 if i0 % 3 == 1 else 0)):
                return 'the call of object %d is made with function %s and argument %#x; queued: function %s, argument %#x' % (i0, p[3], a, 'b' if i0 & 4 else 'a', (i0 << 4) | (1 if i0 % 3 == 1 else 0))
        elif k == 'ret' and p[2] == 'lock':
            depth[t] = depth.get(t, 0) + 1
            if depth[t] == 1: open_[t] = i
        elif k == 'call' and p[2] == 'unlock':
            if depth.get(t, 0) == 1 and t in open_: sections.append((t, open_.pop(t), i))
            depth[t] = depth.get(t, 0) - 1
        elif k == 'ret' and p[2] == 'defer': qdone[t] = qdone.get(t, 0) + 1
        elif k == 'call' and p[2] == 'dbarrier': p.append(dict(qdone))        # the defer_rcu() calls that had returned when the barrier was called
        elif k == 'ret' and p[2] in ('dbarrier', 'dunreg'):
            if p[2] == 'dunreg':
                if len(made.get(t, [])) != len(q.get(t, [])): return 'rcu_defer_unregister_thread of thread %s returned with %d of its %d calls made' % (t, len(made.get(t, [])), len(q.get(t, [])))
            else:
                c = next((x for x in reversed(ev[:i]) if x[0] == t and x[1] == 'call' and x[2] == 'dbarrier'), None)
                snap = c[-1] if c and isinstance(c[-1], dict) else {}
                for o, n in snap.items():
                    if len(made.get(o, [])) < n: return 'rcu_defer_barrier of thread %s returned while only %d of the %d calls thread %s had queued before it were made' % (t, len(made.get(o, [])), n, o)
    for o, l in q.items():
        if made.get(o, []) != l: return 'at the end of the run thread %s queued %s, calls made %s' % (o, l, made.get(o, []))
    return None

def run_reclaimer(ctx):
    """the real reclaimer thread of urcu-defer-impl.h under the controlled scheduler (ring of 8 slots)"""
    import gp_common as G
    impl = build_scenario(ctx, 'scen_defer', 'scen_defer.c', extra_src=G.SRCS, defs=G.DEFS + ['-DURCU_VERIF_DEFER_QUEUE_SIZE=8'])
    if not impl: return
    cases = []
    for prog in ((RPROGS[:4] + RPROGS[6:]) if ctx.quick() else RPROGS):
        th = [str(i) for i in range(prog.count('/') + 1)]; rec = str(len(th)); recf = rec + chr(ord('a') + len(th))
        for v in th[:1]:
            vf = v + chr(ord('a') + int(v))
            for k in range(0, 90 if ctx.quick() else 200, 2 if ctx.quick() else 1):
                # the queuing thread frozen after k steps; the reclaimer runs until it sleeps; then everybody goes on
                cases.append((prog, vf * k + recf * 120))
                if k % 6 == 0: cases.append((prog, vf * k + recf * 25 + vf * 6 + recf * 120))
    # targeted family: a call queued while a grace period of the reclaimer (or of an explicit rcu_defer_barrier()) is already waiting for reader 1; reader 2
    # enters its section after that grace period started (so that grace period does not wait for it) and before the call is queued: the call must wait for
    # another grace period.  Thread ids: 0 queues, 1 and 2 read, the next one is the barrier caller (second program) / the library's reclaimer thread.
    for prog, w in (('RD1D2WU/()/()', '3d'), ('RD1D2WU/()/()/B', '3d'), ('RD1D2D3WU/()/()', '3d')):
        for n1 in (30, 60, 120, 200):
            for mid in ('>2>0', '>0>2', '>2>0>0'):
                cases.append((prog, '>1>0>0' + w * n1 + mid + '>1' + w * 300))
    n = len(cases) + (150 if ctx.quick() else 3000)
    while len(cases) < n:
        prog = ctx.rng.choice(RPROGS); th = [str(i) for i in range(prog.count('/') + 2)]
        cases.append((prog, bursty(ctx.rng, th, lo=60, hi=600, flush=ctx.rng.choice([0.0, 0.1, 0.4]), means=(1, 3, 10, 30), spurious=ctx.rng.choice([0.0, 0.03]))))
    tail = ''.join(chr(ord('a') + i) + str(i) for i in range(6)) * 700
    rs = run_many([[impl, p, s + tail] for p, s in cases], timeout=30)
    nor = 0; slept = 0
    for (p, s), (rc, raw) in zip(cases, rs):
        o = reclaimer_oracle(p, raw) if 'TIMEOUT' not in raw else 'abnormal run: timeout'
        if o:
            nor += 1
            if nor <= 3: ctx.fail('oracle', 'defer_rcu with the background reclaimer (scen_defer)', o, concrete={'scenario': 'scen_defer', 'prog': p, 'schedule': s + tail, 'verdict': o})
        if 'futex_wait dfutex' in raw and '-> sleep' in raw: slept += 1
    ctx.cov['evaluations'] += len(cases); ctx.cov['distinct_nontrivial'] += slept; ctx.cov['oracle_violations'] = ctx.cov.get('oracle_violations', 0) + nor
    ctx.cov['input_distribution']['scen_defer'] = {'cases': len(cases), 'runs_where_the_reclaimer_slept': slept, 'programs': RPROGS}

def run(ctx):
    ctx.cov['source_hash'] = source_hash(FILES)
    prove(ctx)
    run_reclaimer(ctx)
    model = build_model_driver(ctx, 'defer', 'ExtractDefer.v', 'defer_driver.ml')
    sizes = [('16', 16), ('8', 8), ('default', None)] if ctx.quick() else [('16', 16), ('8', 8), ('4', 4), ('64', 64), ('default', None)]
    for tag, sz in sizes:
        exe = os.path.join(BUILD, 'defer_probe_' + tag)
        defs = ['-DURCU_VERIF'] + (['-DURCU_VERIF_DEFER_QUEUE_SIZE=%d' % sz] if sz else [])
        rc, so, se = sh(['gcc', '-O1', '-g', '-w', '-include', REPO + '/include/config.h'] + defs + ['-I' + REPO + '/include', '-I' + REPO + '/src', os.path.join(HARN, 'seqdiff/defer.c')] + SRCS + ['-o', exe, '-lpthread'])
        if rc: ctx.fail('harness', 'build of seqdiff/defer.c (size %s)' % tag, se[-800:]); continue
        nseq = (12 if ctx.quick() else 100) if sz else 2
        cmds = [[exe, str(300 if sz else 9000), str(ctx.seed * 1000 + i), str(i % 3 if sz else 1)] for i in range(nseq)]
        if sz and sz <= 16:      # the free-running head / tail counters start just below 2^64: every run crosses the wrap-around (DeferWrap.rep_enq)
            cmds += [[exe, '200', str(ctx.seed * 1000 + 500 + i), str(i % 3), str(2 ** 64 - k)] for i, k in enumerate((1, 2, 3, 5, 9, 17) if ctx.quick() else range(1, 40))]
        outs = run_many(cmds, timeout=120)
        for (rc, out), cmd in zip(outs, cmds):
            lines = out.splitlines()
            ctx.cov['evaluations'] += len(lines) - 1
            if rc != 0 or not lines:
                ctx.fail('oracle', 'defer probe run', 'probe exited with %d: %s' % (rc, out[-300:]), concrete={'probe': 'harness/seqdiff/defer.c', 'size': tag, 'args': cmd[1:], 'output_tail': out[-300:]}); continue
            o = oracle_lines(lines)
            if o: ctx.fail('oracle', 'defer exactly-once/in-order oracle', o, concrete={'probe': 'harness/seqdiff/defer.c', 'size': tag, 'args': cmd[1:], 'verdict': o})
            if model:
                rc2, mo, _ = sh([model], inp=out, timeout=300)
                ml = mo.splitlines()
                bad = [(i, a, b) for i, (a, b) in enumerate(zip(lines, ml)) if a != b]
                ctx.cov['traces_validated_against_impl'] += len(lines) - 1 - len(bad)
                if bad or len(ml) != len(lines):
                    i, a, b = bad[0] if bad else (min(len(ml), len(lines)), '<end>', '<end>')
                    ctx.fail('correspondence', 'DeferRun.dstep vs _defer_rcu/rcu_defer_barrier_thread (ring size %s)' % tag,
                             'operation %d: impl "%s" model "%s"' % (i, a[:300], b[:300]))
            full = sum(1 for l in lines if re.search(r'^E .*calls: \(', l))
            ctx.cov['distinct_nontrivial'] += full           # enqueues that found the ring nearly full and flushed synchronously
            if len(ctx.cov['samples']) < 3 and len(lines) > 5: ctx.cov['samples'].append({'size': tag, 'ops': [l[:160] for l in lines[1:5]]})
        ctx.cov['input_distribution'][tag] = {'sequences': nseq, 'ops_each': 300 if sz else 9000}
    return finish(ctx, trusted=TRUSTED, rule='operation sequences (enqueue with functions/arguments from an adversarial pool: odd, MARK, ~0, equal/changing functions; barriers) '
                  'from one PRNG; three modes (mixed, long bursts reaching occupancy SIZE-3..SIZE, adversarial only); ring sizes 8/16 (hook) and the default 4096; '
                  'evaluations = operations; distinct_nontrivial = enqueues that hit the nearly-full threshold and flushed synchronously')
def replay(ctx, rp):
    print(json.dumps(rp.get('failing_input'), indent=1)); return run(ctx)
