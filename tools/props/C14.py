"""C14 - grace-period polling: proofs (Poll/*.v); (a) sequential differential correspondence of the extracted 64-bit model with the real
urcu-poll-impl.h near 0 / 2^63 / 2^64; (b) refinement check of the real code under the controlled scheduler: the atomic actions of each
trace (in lock order) with their results must be what PollWord.wstep returns, and every operation must have the shape lock/unlock only;
(c) abstract-grace-period oracle: a true poll needs a grace period that began after the start_poll call and ended before the answer;
completeness oracle at the end of every run."""
import re
from vlib import *
FILES = ['src/urcu-poll-impl.h', 'include/urcu/urcu-poll.h']
TRUSTED = ['Coq 8.16.1 kernel; no axioms; no native_compute', 'extraction: ExtrOcamlBasic only; ocaml/poll_driver.ml',
           'harness: seqdiff/poll.c, scen_poll.c, sched.c (mutex emulation); projection of traces onto atomic actions in lock order (this file)',
           'modelled: call_rcu as "the callback runs after a grace period that starts after the call" (C03 theorem); the grace period itself is abstract (C01); '
           'the comparison window 2^63 is a hypothesis of the 64-bit theorems']
PROGS = ['SP0/SP0P0/GGG', 'SSP0P1/SP0Q00/GGGG', 'SP0SP1/P0SQ00P0/GGGGG', 'S/S/S/GGGQ00Q10Q20', 'SP0P0/GSP0G/GGG']
C0S = ['0', '18446744073709551615', '9223372036854775807', '18446744073709551614']

def u64(v):
    try: return str(int(v) % (1 << 64))
    except ValueError: return v

def project(raw):
    """-> (action lines for the driver, observed result lines, conformance error or None)"""
    cur = {}; acts = []; obs = []; err = None; held = None
    init = re.search(r'^- init (\d+)', raw, flags=re.M)
    acts.append('I ' + init.group(1)); obs.append('I ' + init.group(1))
    slot = {}
    for l in raw.splitlines():
        p = l.split()
        if len(p) < 2 or not p[0].isdigit(): continue
        t, k = p[0], p[1]
        if k == 'call' and p[2] in ('start', 'poll', 'gp'):
            cur[t] = {'op': p[2], 'arg': u64(p[3]), 'ev': [], 'called': 0, 'idx': None}
        elif k in ('exit', 'start', 'signal'): continue
        elif t in cur:
            c = cur[t]
            if k == 'lock' and p[2].startswith('poll.lock'):
                c['ev'].append('lock')
                c['idx'] = len(acts)
                if c['op'] == 'start': acts.append('S')
                elif c['op'] == 'poll': acts.append('P ' + c['arg'])
                else: acts.append('W')
                obs.append(None)
            elif k == 'unlock': c['ev'].append('unlock')
            elif k == 'note' and p[2] == 'call_rcu': c['called'] += 1; c['ev'].append('call_rcu')
            elif k == 'note' and p[2] in ('gpbegin', 'gpend', 'polled', 'skip'): pass
            elif k == 'note' and p[2] == 'BUG': err = err or ' '.join(p)
            elif k == 'load' and c['op'] == 'gp' and (p[2].startswith('pend') or p[2].startswith('gpclock')): pass
            elif k == 'ret':
                c = cur.pop(t)
                if c['op'] == 'gp' and p[3] == '0':
                    if c['ev']: err = err or 'thread %s: idle worker cycle touched the poll state: %s' % (t, c['ev'])
                    continue
                want = ['lock', 'call_rcu', 'unlock'] if c['called'] else ['lock', 'unlock']
                if c['ev'] != want: err = err or 'thread %s: %s has events %s, the model allows only lock [call_rcu] unlock' % (t, c['op'], c['ev'])
                if c['idx'] is None: err = err or 'thread %s: %s returned without taking the lock' % (t, c['op']); continue
                if c['op'] == 'start': obs[c['idx']] = 'S -> %s %d' % (u64(p[3]), c['called'])
                elif c['op'] == 'poll': obs[c['idx']] = 'P %s -> %s' % (c['arg'], p[3])
                else: obs[c['idx']] = 'W -> %d' % c['called']
            else:
                c['ev'].append(k + ' ' + (p[2] if len(p) > 2 else ''))
    # operations still in flight at the end have no observed result: drop their actions from the tail only if nothing follows
    keep = [(a, o) for a, o in zip(acts, obs) if o is not None]
    if len(keep) != len(acts):
        first = next(i for i, o in enumerate(obs) if o is None)
        if any(o is not None for o in obs[first + 1:]): err = err or 'an operation took the lock and never returned while later ones did'
        acts, obs = acts[:first], obs[:first]
    return acts, obs, err

def oracle(raw):
    """abstract grace periods: [gpbegin, gpend] intervals of the helper; a poll answering true for handle (o, d) needs one that began
    after the start_poll call of (o, d) and ended before the answer; at the end every handle polls true"""
    if 'DEADLOCK' in raw: return 'stuck state'
    if 'STEP LIMIT' in raw: return 'live-lock: step limit reached'
    lines = [l.split() for l in raw.splitlines() if l and l[0].isdigit()]
    startcall = {}; nh = {}; pending_start = {}; gps = []; gb = None; lastpolled = {}; pollcall = {}; wastrue = {}
    for i, p in enumerate(lines):
        t, k = p[0], p[1]
        if k == 'call' and p[2] == 'start': pending_start[t] = i
        elif k == 'ret' and p[2] == 'start': startcall[(t, nh.get(t, 0))] = pending_start.pop(t); nh[t] = nh.get(t, 0) + 1
        elif k == 'note' and p[2] == 'gpbegin': gb = i
        elif k == 'note' and p[2] == 'gpend': gps.append((gb, i))
        elif k == 'note' and p[2] == 'polled': lastpolled[t] = (p[3], int(p[4]))
        elif k == 'call' and p[2] == 'poll': pollcall[t] = i; lastpolled.pop(t, None)
        elif k == 'ret' and p[2] == 'poll' and p[3] == '0' and t in lastpolled:
            h = lastpolled[t]
            if h in wastrue and wastrue[h] < pollcall.get(t, -1):
                return 'poll of handle %d of thread %s answered false at step %d although a poll of the same handle had answered true at step %d (once true it stays true)' % (h[1], h[0], i, wastrue[h])
        elif k == 'ret' and p[2] == 'poll' and p[3] == '1':
            o, d = lastpolled[t]; c = startcall.get((o, d)); wastrue.setdefault((o, d), i)
            if c is None: continue
            if not any(b >= c and e <= i for b, e in gps):
                return ('poll of handle %d of thread %s answered true at step %d, but no grace period both began after that start_poll call (step %d) and ended before the answer; '
                        'grace periods: %s' % (d, o, i, c, gps))
    for m in re.finditer(r'^- finalpoll (\d+) (\d+) (\d+) after (\d+)', raw, flags=re.M):
        if m.group(3) != '1': return 'handle %s of thread %s still polls false after %s further complete worker cycles' % (m.group(2), m.group(1), m.group(4))
    return None

def e2e_oracle(raw):
    """real poll code on the real call_rcu helper and the real grace period (scen_callrcu, ops S / P): a poll that answers true while a reader that was inside
    when the handle was requested is still inside the same section; and a poll answering false after one that answered true for the same handle"""
    import gp_common as G
    ev = G.events(raw)
    if 'DEADLOCK' in raw: return 'stuck state'
    depth = {}; open_ = {}; sections = []; starts = {}; polls = []
    for i, p in enumerate(ev):
        t, k = p[0], p[1]
        if k == 'ret' and p[2] == 'lock':
            depth[t] = depth.get(t, 0) + 1
            if depth[t] == 1: open_[t] = i
        elif k == 'call' and p[2] == 'unlock':
            if depth.get(t, 0) == 1 and t in open_: sections.append((t, open_.pop(t), i))
            depth[t] = depth.get(t, 0) - 1
        elif k == 'call' and p[2] == 'start': starts[(t, p[3])] = i
        elif k == 'call' and p[2] == 'poll': polls.append([t, p[3], i, None])
        elif k == 'ret' and p[2] == 'poll':
            for q in reversed(polls):
                if q[0] == t and q[3] is None: q[3] = (i, p[3]); break
    for t, a in open_.items(): sections.append((t, a, 10 ** 9))
    seen_true = set()
    for t, h, ci, r in polls:
        if r is None or (t, h) not in starts: continue
        ri, val = r
        if val == '1':
            seen_true.add((t, h))
            for (rt, a, b) in sections:
                if a < starts[(t, h)] and ri < b:
                    return 'poll_state_synchronize_rcu() of thread %s answered true at step %d while reader %s is still inside the section it entered at step %d, before start_poll_synchronize_rcu() was called at step %d' % (t, ri, rt, a, starts[(t, h)])
        elif (t, h) in seen_true: return 'handle %s of thread %s polled false after having polled true' % (h, t)
    # completeness: when nothing can move any more (QUIESCENT: every thread has exited or sleeps) every handle must have completed - a handle that still polls
    # false then has its worker callback queued on a helper that sleeps
    if 'QUIESCENT' in raw:
        m = re.search(r'^- finalpoll (\d+) 0$', raw, flags=re.M)
        if m: return 'at quiescence (every reader has left, no thread can move) the last handle of thread %s still polls false: the worker callback is queued on a helper that sleeps - polling never completes' % m.group(1)
    return None

E2E_PROGS = ['C0/()/SPPPP', 'C0C1/(())/SPSPPP']
E2E_FREE_PROGS = ['C0/()/HSSKPP', 'C0/()/HSKSPP']
def run_e2e(ctx):
    """(d) the abstraction of call_rcu used by scen_poll is not trusted alone: the same poll code runs on the real helper thread of src/urcu-call-rcu-impl.h and the
    real memb grace period.  Targeted family: the helper is frozen k steps into its cycle for an unrelated callback (before, inside and after its synchronize_rcu());
    then a reader enters, a handle is requested, the helper runs m more steps, and the handle is polled with the reader still inside."""
    import callrcu_common as CR
    impl = CR.build(ctx)
    if not impl: return
    cases = []
    for prog in E2E_PROGS[:1 if ctx.quick() else 2]:
        for k in range(0, 240 if ctx.quick() else 400, 1):
            for m in ((60,) if ctx.quick() else (60, 200)):
                cases.append((prog, '>0' + '3d' * k + '>1' + '>2' + '3d' * m + '>2' + '3d' * 200 + '>2' + '>1' + '3d' * 700 + '>2' + '3d' * 300 + '>2'))
    # handles taken through a per-thread helper that is freed while their callback is pending or re-queued: the leftover callbacks move to the default helper, which
    # has gone to sleep after an earlier, unrelated callback; every handle must still complete (final poll at quiescence).  Threads: 0 unrelated call_rcu, 1 reader,
    # 2 the polling thread (H = own helper, K = free it), 3 the default helper, 4 the per-thread helper.
    for prog in E2E_FREE_PROGS:
        for k in range(0, 160 if ctx.quick() else 300, 4 if ctx.quick() else 1):
            for j in ((0, 40) if ctx.quick() else (0, 10, 40, 120)):
                cases.append((prog, '>0' + '3d' * 300 + '>1' + '>2>2' + '4e' * k + '>2' + '2c' * j + '>1' + '4e' * 400 + '2c' * 400 + '3d' * 300))
    n = len(cases) + (60 if ctx.quick() else 1500)
    while len(cases) < n:
        prog = ctx.rng.choice(E2E_PROGS + E2E_FREE_PROGS); th = [str(i) for i in range(prog.count('/') + 3)]
        cases.append((prog, bursty(ctx.rng, th, lo=60, hi=600, flush=ctx.rng.choice([0.05, 0.3]), means=(1, 3, 10, 30, 80))))
    tail = ''.join(chr(ord('a') + i) + str(i) for i in range(6)) * 500
    rs = run_many([[impl, p, s + tail] for p, s in cases], timeout=30)
    nor = 0; early = 0; distinct = set()
    for (p, s), (rc, raw) in zip(cases, rs):
        o = ('abnormal run: ' + raw[-300:]) if ('BUG ' in raw or 'TIMEOUT' in raw or 'ABORT' in raw or 'STEP LIMIT' in raw) else e2e_oracle(raw)
        if o:
            nor += 1
            if nor <= 3: ctx.fail('oracle', 'poll on the real call_rcu helper: no early completion, once true stays true, complete at quiescence', o, concrete={'scenario': 'scen_callrcu', 'prog': p, 'schedule': s + tail, 'verdict': o})
        if re.search(r'ret poll 1', raw) and re.search(r'ret poll 0', raw): distinct.add(hash(raw))
    ctx.cov['evaluations'] += len(cases); ctx.cov['distinct_nontrivial'] += len(distinct)
    ctx.cov['oracle_violations'] = ctx.cov.get('oracle_violations', 0) + nor
    ctx.cov['input_distribution']['scen_callrcu (real helper, ops S/P)'] = {'cases': len(cases), 'programs': E2E_PROGS + E2E_FREE_PROGS, 'both_answers_seen': len(distinct)}

def run(ctx):
    ctx.cov['source_hash'] = source_hash(FILES)
    prove(ctx)
    model = build_model_driver(ctx, 'poll', 'ExtractPoll.v', 'poll_driver.ml')
    # (a) sequential differential, wrap boundaries
    exe = os.path.join(BUILD, 'poll_probe')
    rc, so, se = sh(['gcc', '-O1', '-g', '-w', '-include', REPO + '/include/config.h', '-I' + REPO + '/include', '-I' + REPO + '/src', os.path.join(HARN, 'seqdiff/poll.c'), '-o', exe, '-lpthread'])
    if rc: ctx.fail('harness', 'build of seqdiff/poll.c', se[-800:])
    elif model:
        nseq = 16 if ctx.quick() else 200
        cmds = [[exe, '400', str(ctx.seed * 1000 + i), C0S[i % 4] if i % 5 else str(ctx.rng.getrandbits(64))] for i in range(nseq)]
        for (rc, out), cmd in zip(run_many(cmds, timeout=60), cmds):
            lines = out.splitlines()
            inp = '\n'.join(re.sub(r' -> .*', '', re.sub(r'^D .*', 'D', l)) for l in lines) + '\n'
            rc2, mo, _ = sh([model], inp=inp, timeout=60); ml = mo.splitlines()
            ctx.cov['evaluations'] += len(lines)
            bad = [(i, a, b) for i, (a, b) in enumerate(zip(lines, ml)) if a != b]
            if rc or 'BUG' in out or bad or len(ml) != len(lines):
                i, a, b = bad[0] if bad else (min(len(ml), len(lines)), out[-200:], '<end>')
                ctx.fail('correspondence', 'PollWord.wstep vs urcu-poll-impl.h (sequential, start counter %s)' % cmd[3], 'operation %d: impl "%s" model "%s"' % (i, a, b),
                         concrete={'probe': 'harness/seqdiff/poll.c', 'args': cmd[1:], 'first_difference': {'op': i, 'impl': a, 'model': b}})
            else: ctx.cov['traces_validated_against_impl'] += 1
            ctx.cov['distinct_nontrivial'] += sum(1 for l in lines if l.startswith('S') and l.endswith(' 0'))     # handles taken while a worker grace period was in flight
        ctx.cov['input_distribution']['sequential'] = {'sequences': nseq, 'ops_each': 400, 'start_counters': C0S + ['random 64-bit']}
    # (b) + (c) concurrent: real code under the controlled scheduler
    impl = build_scenario(ctx, 'scen_poll', 'scen_poll.c')
    if impl:
        cases = [tuple(c) for c in corpus('C14') if len(c) == 3]
        for prog in PROGS[:3 if ctx.quick() else len(PROGS)]:
            th = [str(i) for i in range(prog.count('/') + 1)]
            for v in th:
                for point in range(1, 14 if ctx.quick() else 30):
                    cases.append((prog, parking(th, point, 1, v), C0S[point % 4]))
                    cases.append((prog, parking_ops(th, v, point, 1, 2, 1), C0S[(point + 1) % 4]))
        # a handle that has polled true is polled again while another thread is k steps into start_poll (holding the poll lock): the answer must not flip
        for k in range(0, 14):
            for c0 in C0S[:2]:
                cases.append(('SP0P0P0/SS/GGG', '>0>2>2>0' + '1' * k + '>0>0', c0))
        n = len(cases) + 200 if ctx.quick() else 6000
        while len(cases) < n:
            prog = ctx.rng.choice(PROGS); th = [str(i) for i in range(prog.count('/') + 1)]
            cases.append((prog, bursty(ctx.rng, th, lo=20, hi=160, means=(1, 2, 4, 9)), ctx.rng.choice(C0S)))
        tail = '0123456' * 80
        rs = run_many([[impl, p, s + tail, c0] for p, s, c0 in cases], timeout=20)
        nor = ndis = 0; distinct = set(); inputs = []; obs_all = []
        for (p, s, c0), (rc, raw) in zip(cases, rs):
            o = ('abnormal run: ' + raw[-300:]) if ('BUG ' in raw or 'TIMEOUT' in raw or 'ABORT' in raw) else oracle(raw)
            if o:
                nor += 1
                if nor <= 3: ctx.fail('oracle', 'poll soundness/completeness oracle', o, concrete={'scenario': 'scen_poll', 'prog': p, 'schedule': s + tail, 'start_counter': c0, 'verdict': o})
            acts, obs, err = project(raw)
            if err:
                ndis += 1
                if ndis <= 2: ctx.fail('correspondence', 'urcu-poll-impl.h operations are lock / [call_rcu] / unlock (program-order conformance)', 'prog %s schedule %s...: %s' % (p, s[:60], err))
            inputs.append(acts); obs_all.append(obs)
            distinct.add((p, tuple(obs)))
            if len(ctx.cov['samples']) < 3: ctx.cov['samples'].append({'scenario': 'scen_poll', 'prog': p, 'schedule': s[:60], 'start_counter': c0, 'actions': obs[:10]})
        if model:
            rc, mo, _ = sh([model], inp='\n'.join('\n'.join(a) for a in inputs) + '\n', timeout=300)
            ml = mo.splitlines(); k = 0
            for (p, s, c0), obs in zip(cases, obs_all):
                seg = ml[k:k + len(obs)]; k += len(obs)
                if seg != obs:
                    ndis += 1
                    if ndis <= 3:
                        d = next((j for j, (a, b) in enumerate(zip(obs, seg)) if a != b), min(len(obs), len(seg)))
                        ctx.fail('correspondence', 'PollWord.wstep accepts the atomic actions of urcu-poll-impl.h in lock order',
                                 'prog %s schedule %s... start %s: action %d: impl "%s" model "%s"' % (p, s[:60], c0, d, obs[d] if d < len(obs) else '<end>', seg[d] if d < len(seg) else '<end>'),
                                 concrete={'scenario': 'scen_poll', 'prog': p, 'schedule': s + tail, 'start_counter': c0, 'first_difference': {'action': d, 'impl': obs[d] if d < len(obs) else None, 'model': seg[d] if d < len(seg) else None}})
                else: ctx.cov['traces_validated_against_impl'] += 1
        ctx.cov['evaluations'] += len(cases); ctx.cov['distinct_nontrivial'] += len(distinct)
        ctx.cov['disagreements'] = ndis; ctx.cov['oracle_violations'] = nor
        ctx.cov['input_distribution']['scen_poll'] = {'cases': len(cases), 'programs': PROGS, 'start_counters': C0S}
    run_e2e(ctx)
    return finish(ctx, trusted=TRUSTED, rule='sequential: PRNG op sequences (start_poll / poll recent or old handle / run worker / dump) from counters near 0, 2^63, 2^64 and random; '
                  'concurrent: parking sweeps (step and operation level) + bursty schedules over 2-3 pollers and the helper; distinct = distinct (program, action results)')

def replay(ctx, rp):
    f = rp.get('failing_input') or {}
    if f.get('scenario') != 'scen_poll': print(json.dumps(f, indent=1)); return run(ctx)
    impl = build_scenario(ctx, 'scen_poll', 'scen_poll.c')
    rc, raw = run_many([[impl, f['prog'], f['schedule'], f['start_counter']]])[0]
    print(raw[-3000:]); o = oracle(raw); print('verdict:', o or 'no oracle violation'); return 1 if o else 0
