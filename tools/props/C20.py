"""C20 - uatomic: proof (Uatomic/*.v) + sequential differential correspondence of the extracted model with the real macros
(every op x width x signedness x offset, starting from a plain store, at the project's optimisation level, default and
builtins implementations, C and C++) + asm audit of uatomic/x86.h and of the emitted code + compiler-barrier litmus + thread hammer."""
import re, os
from vlib import *
FILES = ['include/urcu/uatomic/x86.h', 'include/urcu/uatomic/generic.h', 'include/urcu/uatomic/builtins.h', 'include/urcu/uatomic/builtins-generic.h',
         'include/urcu/uatomic/api.h', 'include/urcu/uatomic.h', 'include/urcu/compiler.h']
TRUSTED = ['Coq 8.16.1 kernel; no axioms (closed under the global context); the litmus invariant steps are checked by kernel conversion (cbn), no native_compute',
           'extraction: ExtrOcamlBasic only; ocaml/uatomic_driver.ml',
           'harness/seqdiff/uatomic.c (differential probe), ua_barrier.c (asm inspection), ua_hammer.c (real threads); audit regexes in tools/props/C20.py',
           'modelled: a lock-prefixed instruction / xchg is one atomic step and drains the store buffer (x86-TSO); little-endian byte order; '
           'only x86-64 is run; the compiler honours asm operand constraints and clobbers as documented']
INC = ['-I' + os.path.join(REPO, 'include')]

def audit_header(ctx):
    """every RMW template must be lock-prefixed or xchg, declare its memory operand read-write ("+m") and clobber memory"""
    p = os.path.join(REPO, 'include/urcu/uatomic/x86.h')
    txt = open(p).read()
    blocks = re.findall(r'__asm__\s+__volatile__\s*\((.*?)\);', txt, flags=re.S)
    n = 0; bad = []
    for b in blocks:
        m = re.search(r'"([^"]*)"', b)
        if not m: continue
        tmpl = m.group(1); ins = re.sub(r'lock;\s*', '', tmpl).split()[0] if tmpl.strip() else ''
        base = re.sub(r'[bwlq]$', '', ins)
        if base not in ('xchg', 'cmpxchg', 'xadd', 'add', 'inc', 'dec', 'and', 'or', 'sub'): continue
        n += 1
        if base != 'xchg' and not tmpl.strip().startswith('lock;'): bad.append('template "%s" is a read-modify-write without the lock prefix' % tmpl)
        if '"+m"' not in b: bad.append('template "%s": memory operand is not declared read-write ("+m")' % tmpl)
        if not re.search(r':\s*"memory"', b): bad.append('template "%s": no "memory" clobber (the operation is not a compiler barrier)' % tmpl)
    ctx.cov['asm_templates_audited'] = n
    if n < 32: bad.append('only %d RMW asm templates found in uatomic/x86.h (expected 36): the audit no longer recognises the header' % n)
    return bad

def audit_emitted(ctx):
    """compile ua_barrier.c at -O2 and inspect the assembly: locked instruction present, plain load of *flag on both sides"""
    out = os.path.join(BUILD, 'ua_barrier.s')
    rc, so, se = sh(['gcc', '-O2', '-S', '-o', out] + INC + [os.path.join(HARN, 'seqdiff/ua_barrier.c')])
    if rc: return ['ua_barrier.c does not compile: ' + se[-500:]]
    asm = open(out).read(); bad = []
    for fn, ins in (('lit_xchg', r'xchg'), ('lit_cmpxchg', r'lock;?\s*\n?\s*cmpxchg'), ('lit_add_return', r'lock;?\s*\n?\s*xadd'), ('lit_sub_return', r'lock;?\s*\n?\s*xadd')):
        m = re.search(r'^%s:\n(.*?)\n\s*ret' % fn, asm, flags=re.S | re.M)
        body = m.group(1) if m else ''
        mm = re.search(ins, body)
        if not mm: bad.append('%s: no %s instruction emitted for the operation' % (fn, ins.split('\\')[0])); continue
        before, after = body[:mm.start()], body[mm.end():]
        ld = r'\(%rdi\)\s*,'          # a read of *flag: (%rdi) as a source operand
        if not re.search(ld, before) or not re.search(ld, after):
            bad.append('%s: the two plain loads of *flag around the operation were merged or moved (not a compiler barrier): "int a=*flag; OP; int b=*flag;"' % fn)
    m = re.search(r'^lit_store_xchg:\n(.*?)\n\s*ret', asm, flags=re.S | re.M)
    body = m.group(1) if m else ''
    mm = re.search(r'xchg', body)
    if not mm or not re.search(r'\$1,\s*\(%rdi\)', body[:mm.start()]): bad.append('lit_store_xchg: the store "*flag = 1" before uatomic_xchg was dropped or moved after it')
    # store-buffering shape on the memory-order API, both language modes (C11 builtins / pre-C11 emulation in uatomic/x86.h)
    for std in ([], ['-std=gnu99']):
        out2 = os.path.join(BUILD, 'ua_barrier_%s.s' % (std[0][5:] if std else 'default'))
        rc, so, se = sh(['gcc', '-O2', '-S'] + std + ['-o', out2] + INC + [os.path.join(HARN, 'seqdiff/ua_barrier.c')])
        if rc: bad.append('ua_barrier.c does not compile with %s: %s' % (std, se[-300:])); continue
        asm2 = open(out2).read()
        for fn in ('lit_store_seqcst', 'lit_set_seqcst'):
            m = re.search(r'^%s:\n(.*?)\n\s*ret' % fn, asm2, flags=re.S | re.M)
            body = m.group(1) if m else ''
            ld = re.search(r'\(%rsi\)\s*,', body)
            if not ld or not re.search(r'mfence|xchg|lock', body[:ld.start()]):
                bad.append('%s (%s): no full fence (mfence / xchg / locked instruction) between the CMM_SEQ_CST store and the following CMM_SEQ_CST load: the store may sit in the store buffer past the load' % (fn, ' '.join(std) or 'default language mode'))
    ctx.cov['barrier_litmus_functions'] = 7
    return bad

def audit_operand_shapes(ctx):
    """the full-barrier operations must be full barriers for EVERY operand, also compile-time constants that make the memory update a no-op (adding 0, exchanging
    equal values): generated litmus functions over op x width x operand shape, compiled at -O2 in the default, pre-C11 and builtins configurations; each body must
    contain a fencing instruction (locked RMW, xchg with memory, mfence) with a plain load of *flag before and after it"""
    src = os.path.join(BUILD, 'ua_barrier_gen.c'); fns = []
    with open(src, 'w') as f:
        f.write('#include <urcu/uatomic.h>\n')
        for ty, tn in (('long', 'l'), ('int', 'i'), ('short', 's'), ('signed char', 'c')):
            for kn, k in (('zero', '0'), ('one', '1'), ('minus1', '-1'), ('var', 'v')):
                for op, call in (('add_return', 'uatomic_add_return(w, (%s) %s)' % (ty, k)), ('sub_return', 'uatomic_sub_return(w, (%s) %s)' % (ty, k)),
                                 ('xchg', 'uatomic_xchg(w, (%s) %s)' % (ty, k)), ('cmpxchg', 'uatomic_cmpxchg(w, (%s) %s, (%s) %s)' % (ty, k, ty, k))):
                    fn = 'g_%s_%s_%s' % (op, tn, kn); fns.append(fn)
                    f.write('int %s(int *flag, %s *w, %s v){ int a = *flag; (void) %s; int b = *flag; return a + 2*b; }\n' % (fn, ty, ty, call))
    bad = []; n = 0
    for tag, extra in (('default', []), ('-std=gnu99', ['-std=gnu99']), ('builtins', ['-DCONFIG_RCU_USE_ATOMIC_BUILTINS'])):
        out = os.path.join(BUILD, 'ua_barrier_gen_%s.s' % tag.strip('-').replace('=', ''))
        rc, so, se = sh(['gcc', '-O2', '-S'] + extra + ['-o', out] + INC + [src])
        if rc: bad.append('generated barrier litmus does not compile (%s): %s' % (tag, se[-300:])); continue
        asm = open(out).read()
        for fn in fns:
            m = re.search(r'^%s:\n(.*?)\n\s*ret' % fn, asm, flags=re.S | re.M)
            body = m.group(1) if m else ''
            mm = re.search(r'lock;?\s*\n?\s*\w+|xchg\w*\s+[^\n]*\(|mfence', body)
            n += 1
            if not mm:
                if len(bad) < 4: bad.append('%s (%s build): no fencing instruction emitted - the operation is not a memory barrier for this operand (op_width_operand: %s)' % (fn, tag, fn[2:]))
                continue
            ld = r'\(%rdi\)\s*,'
            if not re.search(ld, body[:mm.start()]) or not re.search(ld, body[mm.end():]):
                if len(bad) < 4: bad.append('%s (%s build): the plain loads of *flag around the operation were merged or moved (not a compiler barrier)' % (fn, tag))
    ctx.cov['barrier_operand_shape_functions'] = n
    return bad

def audit_result_types(ctx):
    """the value-returning operations return a value OF THE OPERAND'S TYPE (truncated to its width, with its signedness) - also when the result is used directly in a
    wider expression instead of being assigned to a variable of that type first: generated translation unit with compile-time type assertions for every op x operand
    type, and a run-time check that widens the results directly at the width / sign boundaries; default, pre-C11 and builtins configurations"""
    src = os.path.join(BUILD, 'ua_rettype_gen.c'); n = 0
    types = [('signed char', 'sc'), ('unsigned char', 'uc'), ('short', 'ss'), ('unsigned short', 'us'), ('int', 'si'), ('unsigned int', 'ui'), ('long', 'sl'), ('unsigned long', 'ul')]
    with open(src, 'w') as f:
        f.write('#include <stdio.h>\n#include <urcu/uatomic.h>\nstatic int bad;\n')
        f.write('#define SAME(e, T) _Static_assert(__builtin_types_compatible_p(__typeof__(e), T) && sizeof(e) == sizeof(T), "result type of " #e " is not " #T)\n')
        f.write('#define EXPECT(e, want) do { long long got = (long long)(e); if (got != (long long)(want)) { printf("BUG %s = %lld, expected %lld\\n", #e, got, (long long)(want)); bad = 1; } } while (0)\n')
        for ty, tn in types:
            f.write('static %s v_%s;\n' % (ty, tn))
        f.write('void types(void){\n')
        for ty, tn in types:
            for e in ('uatomic_add_return(&v_%s, 1)', 'uatomic_sub_return(&v_%s, 1)', 'uatomic_xchg(&v_%s, 1)', 'uatomic_cmpxchg(&v_%s, 0, 1)', 'uatomic_read(&v_%s)'):
                f.write('SAME(%s, %s);\n' % (e % tn, ty)); n += 1
        f.write('}\nint main(void){\n')
        for ty, tn in types:
            sg = not ty.startswith('unsigned'); 
            f.write('  v_%s = 1; EXPECT(uatomic_sub_return(&v_%s, 2), (%s)-1);\n' % (tn, tn, ty))                   # wraps below zero
            f.write('  v_%s = (%s)-1; EXPECT(uatomic_add_return(&v_%s, 1), 0);\n' % (tn, ty, tn))                   # wraps above the width (unsigned) / -1 + 1
            f.write('  v_%s = (%s)-1; EXPECT(uatomic_xchg(&v_%s, 0), (%s)-1);\n' % (tn, ty, tn, ty))
            f.write('  v_%s = (%s)-1; EXPECT(uatomic_cmpxchg(&v_%s, (%s)-1, 0), (%s)-1);\n' % (tn, ty, tn, ty, ty))
            f.write('  v_%s = (%s)-1; EXPECT(uatomic_cmpxchg(&v_%s, (%s)-1, 0) == (%s)-1, 1);\n' % (tn, ty, tn, ty, ty))   # the old value compares equal to the expected one in the operand's own type
        f.write('  return bad; }\n')
    bad = []
    for tag, extra in (('default', []), ('-std=gnu99', ['-std=gnu99']), ('builtins', ['-DCONFIG_RCU_USE_ATOMIC_BUILTINS'])):
        for opt in ('-O2', '-O0'):
            exe = os.path.join(BUILD, 'ua_rettype_gen')
            rc, so, se = sh(['gcc', opt, '-w'] + extra + INC + [src, '-o', exe])
            if rc:
                m = re.search(r'error: static assertion failed: "([^"]+)"', se)
                bad.append('%s build %s: %s' % (tag, opt, m.group(1) if m else 'generated result-type litmus does not compile: ' + se[-300:])); continue
            rc, out, _ = sh([exe], timeout=30)
            if rc or 'BUG' in out: bad.append('%s build %s: %s' % (tag, opt, (re.search(r'^BUG.*$', out, flags=re.M) or [out[-200:]])[0] if not hasattr(re.search(r'^BUG.*$', out, flags=re.M), 'group') else re.search(r'^BUG.*$', out, flags=re.M).group(0)))
    ctx.cov['result_type_assertions'] = n
    return bad[:4]

def run(ctx):
    ctx.cov['source_hash'] = source_hash(FILES)
    prove(ctx)
    model = build_model_driver(ctx, 'uatomic', 'ExtractUatomic.v', 'uatomic_driver.ml')
    n = 20000 if ctx.quick() else 400000
    variants = [('c-default', 'gcc', ['-O2'], []), ('c-O1', 'gcc', ['-O1'], []), ('c-builtins', 'gcc', ['-O2'], ['-DCONFIG_RCU_USE_ATOMIC_BUILTINS']),
                ('cxx-default', 'g++', ['-O2', '-x', 'c++', '-fpermissive', '-w'], [])]
    if not ctx.quick(): variants += [('c-O0', 'gcc', ['-O0'], []), ('clang', 'clang', ['-O2'], [])]
    dist = {}
    for name, cc, opt, defs in variants:
        exe = os.path.join(BUILD, 'ua_probe_' + name)
        rc, so, se = sh([cc] + opt + defs + INC + [os.path.join(HARN, 'seqdiff/uatomic.c'), '-o', exe])
        if rc: ctx.fail('harness', 'build of seqdiff/uatomic.c (%s)' % name, se[-800:]); continue
        rc, out, _ = sh([exe, str(n), str(ctx.seed)], timeout=300)
        lines = out.splitlines()
        if model:
            rc2, mo, me = sh([model], inp=out, timeout=600)
            ml = mo.splitlines(); bad = [(a, b) for a, b in zip(lines, ml) if a != b]
            if len(ml) != len(lines): bad.append(('<%d lines>' % len(lines), '<%d lines>' % len(ml)))
            ctx.cov['evaluations'] += len(lines)
            ctx.cov['traces_validated_against_impl'] += len(lines) - len(bad)
            if bad:
                a, b = bad[0]
                ctx.fail('correspondence', 'Uatomic.exec vs uatomic_* macros (%s build)' % name, '%d of %d cases differ; first: impl "%s" model "%s"' % (len(bad), len(lines), a, b),
                         concrete={'probe': 'harness/seqdiff/uatomic.c', 'build': name, 'case (op width signed off old a b)': a.split(' -> ')[0], 'impl': a, 'model': b,
                                   'meaning': 'plain store of `old` followed by the operation leaves/returns a value different from the documented one'})
        for l in lines:
            k = ' '.join(l.split()[:3]); dist[k] = dist.get(k, 0) + 1
        if name == 'c-default': ctx.cov['samples'] += lines[:3]
    ctx.cov['distinct_nontrivial'] = len(set(dist))  # distinct (op, width, signedness) classes exercised
    ctx.cov['input_distribution'] = {'op_width_signed_classes': len(dist), 'min_per_class': min(dist.values()) if dist else 0, 'builds': [v[0] for v in variants]}
    for b in audit_header(ctx): ctx.fail('translator', 'asm audit of include/urcu/uatomic/x86.h', b)
    for b in audit_result_types(ctx):
        ctx.fail('oracle', 'results have the operand type (compile-time assertions + direct widening at the boundaries)', b, concrete={'program': 'build/ua_rettype_gen.c (generated by tools/props/C20.py audit_result_types)', 'finding': b})
    for b in audit_operand_shapes(ctx):
        ctx.fail('oracle', 'full barrier for every operand shape (emitted code)', b, concrete={'program': 'build/ua_barrier_gen.c (generated by tools/props/C20.py audit_operand_shapes) compiled with gcc -O2', 'finding': b})
    for b in audit_emitted(ctx):
        ctx.fail('oracle', 'compiler-barrier litmus (emitted code)', b, concrete={'program': 'harness/seqdiff/ua_barrier.c compiled with gcc -O2', 'finding': b})
    # real threads
    exe = os.path.join(BUILD, 'ua_hammer')
    rc, so, se = sh(['gcc', '-O2'] + INC + [os.path.join(HARN, 'seqdiff/ua_hammer.c'), '-o', exe, '-lpthread'])
    if rc: ctx.fail('harness', 'build of ua_hammer.c', se[-800:])
    else:
        rc, out, _ = sh([exe, '100000' if ctx.quick() else '3000000', '5000' if ctx.quick() else '200000'], timeout=600)
        ctx.cov['hammer'] = out.strip().splitlines()[-1] if out.strip() else 'no output'
        if rc: ctx.fail('oracle', 'thread hammer (lost update / store-buffering)', out[-600:], concrete={'program': 'harness/seqdiff/ua_hammer.c', 'output': out[-600:]})
    return finish(ctx, trusted=TRUSTED, rule='cases = (op, width, signedness, offset, old, operands) from a boundary pool (0,1,0x7f,0x80,..,2^63,2^64-1) mixed with PRNG values, '
                  'each starting from a plain store; distinct_nontrivial = distinct (op,width,signedness) classes exercised; every build variant runs the same cases')
def replay(ctx, rp):
    print(json.dumps(rp.get('failing_input'), indent=1)); return run(ctx)
