"""C11 - stacks: chain-invariant proofs (Wfs/WfsProof.v on the TSO machine, Lfs/LfsProof.v with node reuse under the pop mutex);
lock-step correspondence of the extracted models with static/wfstack.h and static/lfstack.h; LIFO linearizability oracle on
richer scenarios (blocking / with-state / non-blocking pops, empty, node reuse)."""
import re
from vlib import *
import oracles

FILES = ['include/urcu/static/wfstack.h', 'include/urcu/static/lfstack.h', 'include/urcu/static/rculfstack.h', 'include/urcu/wfstack.h', 'include/urcu/lfstack.h', 'src/wfstack.c', 'src/lfstack.c']
TRUSTED = ['Coq 8.16.1 kernel; no axioms (closed under the global context); no native_compute',
           'extraction: ExtrOcamlBasic only; ocaml/wfs_driver.ml, ocaml/lfs_driver.ml, ocaml/lfsrcu_driver.ml, ocaml/wfsmx_driver.ml',
           'harness: verif_hooks.h, sched.c (simulated store buffers, mutex emulation); canonicalisation in tools/props/C11.py',
           'modelled: wfstack push / pop_all / blocking iteration on x86-TSO (poll(10ms) of the adaptative wait = one wait step); lfstack push / pop / pop_all / empty with the '
           'internal pop mutex as a lock word (a failed acquisition is a skipped choice), node->next initialisation as a private post-write; the rcu-protected legacy '
           'cds_lfs_*_rcu API and the single-consumer scheme are exercised by the oracle only']
WFS_MODEL_PROGS = ['P0P1/aa/P2', 'P0/P1/aaa', 'P0P1P2/aa', 'aP0a/P1P2/a']
WFS_STATE_PROGS = ['P0s/P1', 'P0P1s/a', 'P0s/P1/e', 'P0P1ss/P2']      # the LAST answer of pop_with_state against pushes / pop_all landing right after the pop's exchange
WFS_REUSE_PROGS = ['P0P1pa/AR', 'P0P1P2pa/AR', 'P0P1ppa/AR']      # a pop frozen between its loads and its head cmpxchg, against a mutex-protected pop_all whose owner pushes the top node again (ABA unless the pop mutex excludes it)
LFSRCU_PROGS = ['P0P1/P2/pp', 'P0/P1p/pP2', 'P0P1/pr/pr/e', 'P0/P1/P2/ppp', 'P0P1P2/pr/pp', 'P0pr/P1p/P2e']      # legacy cds_lfs_rcu: pop under RCU, reuse after a grace period
WFSMX_PROGS = ['P1P2/prp/rP3p', 'P1P2P3/pr/pr', 'P1/prprp/P2P3', 'P1P2/prpr/pp', 'P1P2P3P4/prprpr/prp', 'P1/pr/pr/P2']      # mutex-protected pop, the popped node pushed again at once (model WfsMx.v)
WFS_ORACLE_PROGS = ['P0P1/ps/P2e', 'P0P1P2/pp/sa', 'P0P1/nn/P2p', 'P0/P1/pe/se', 'P0P1/a/p/P2']
LFS_PROGS = ['P0P1p/are', 'P0P1P2/pr/a', 'P0P1/pr/pr/e', 'P0P1P2/ar/pp', 'P0P1/p/a/P2r', 'P0P1/par/pe']

def nid(v):
    if v in ('0', '1'): return v
    m = re.match(r'&?n\+(\d+)$', v)
    return str(2 + int(m.group(1)) // 8) if m else v
def loc(l):
    if l == 'head+0': return 'head'
    m = re.match(r'n\+(\d+)$', l)
    return 'next(%d)' % (2 + int(m.group(1)) // 8) if m else l
def canon_c(out):
    res = []
    for l in out.splitlines():
        l = re.sub(r' mo=-?\d+', '', l).replace(' (fwd)', '')
        p = l.split()
        if len(p) < 2 or not p[0].isdigit(): continue
        t, k = p[0], p[1]
        if k in ('start', 'exit', 'note'): continue
        if k == 'call': res.append('%s call %s %s' % (t, p[2], nid(p[3])))
        elif k == 'ret': res.append('%s ret %s %s' % (t, p[2], nid(p[3])))
        elif k == 'load': res.append('%s load %s -> %s' % (t, loc(p[2]), nid(p[4])))
        elif k == 'store': res.append('%s store %s v=%s' % (t, loc(p[2]), nid(p[3][2:])))
        elif k == 'xchg': res.append('%s xchg %s v=%s -> %s' % (t, loc(p[2]), nid(p[3][2:]), nid(p[5])))
        elif k == 'cas': res.append('%s cas %s exp=%s new=%s -> %s' % (t, loc(p[2]), nid(p[3][4:]), nid(p[4][4:]), nid(p[6])))
        elif k == 'flush': res.append('%s flush %s' % (t, loc(p[2])))
        elif k in ('lock', 'unlock'): res.append('%s %s' % (t, k))
        elif k == 'sleep': res.append('%s relax' % t)
        else: res.append(' '.join(p))
    return res

def history(raw):
    """[(t, op, arg, ret, call_idx, ret_idx)] from the raw trace; pop_all returns the visited chain (top first)"""
    open_ = {}; out = []; chain = {}; pstate = {}
    i = 0
    for l in raw.splitlines():
        p = l.split()
        if len(p) < 2 or not p[0].isdigit(): continue
        i += 1; t, k = p[0], p[1]
        if k == 'call' and p[2] in ('push', 'pop', 'pops', 'popnb', 'popall', 'empty'): open_[t] = (p[2], nid(p[3]), i)
        elif k == 'note' and p[2] == 'state': pstate[t] = p[3]
        elif k == 'note' and p[2] == 'chain': chain[t] = ','.join(str(int(x) + 2) for x in (p[3] if len(p) > 3 else '').split(',') if x)
        elif k == 'ret' and t in open_ and p[2] == open_[t][0]:
            op, arg, ci = open_.pop(t)
            r = chain.pop(t, '') if op == 'popall' else nid(p[3])
            if op == 'pops': r = '%s:%s' % (r, pstate.pop(t, '0'))      # the node together with the CDS_WFS_STATE_LAST answer
            out.append((t, op, arg, r, ci, i))
    for t, (op, arg, ci) in open_.items(): out.append((t, op, arg, None, ci, None))
    return out

def lifo_apply(state, op, arg):
    if op == 'push': return state + (arg,), ('1' if state else '0')
    if op == 'pop': return (state[:-1], state[-1]) if state else (state, '0')
    if op == 'pops': return (state[:-1], '%s:%d' % (state[-1], 1 if len(state) == 1 else 0)) if state else (state, '0:0')      # LAST = the stack became empty
    if op == 'popnb': return [(state[:-1], state[-1]) if state else (state, '0'), (state, '-1')]       # WOULDBLOCK is always an allowed answer here
    if op == 'popall': return (), ','.join(reversed(state))
    if op == 'empty': return state, ('0' if state else '1')
def oracle(p, s, cl, raw):
    if 'DEADLOCK' in raw: return 'stuck state (a pop waits for ever)'
    h = history(raw)
    ok = oracles.linearizable(h, (), lifo_apply, maxops=14)
    if ok is False: return 'history is not a linearizable LIFO history: ' + '; '.join('%s %s(%s)->%s' % (x[0], x[1], x[2], x[3]) for x in h)
    # conservation at the end (every operation complete): each pushed node returned at most once per push
    got = []
    for x in h:
        if x[1] in ('pop', 'pops', 'popnb') and x[3] not in (None, '0', '-1', '0:0'): got.append(x[3].split(':')[0])
        if x[1] == 'popall' and x[3]: got += x[3].split(',')
    pushed = [x[2] for x in h if x[1] == 'push']
    for n in set(got):
        if got.count(n) > pushed.count(n): return 'node %s was pushed %d time(s) and returned %d times' % (n, pushed.count(n), got.count(n))
    return None

def project_lfsrcu(prog, raw):
    """implementation trace of scen_lfsrcu -> action lines of LfsRcu/LfsRcuExec.v (rexec)"""
    def nid(v):
        if v in ('0', '0x0'): return 0
        m = re.match(r'&?n\+(\d+)$', v)
        return 2 + int(m.group(1)) // 8 if m else -1
    out = ['T ' + prog]; cur = {}
    for l in raw.splitlines():
        l = re.sub(r' mo=-?\d+', '', l)
        p = l.split()
        if len(p) < 2 or not p[0].isdigit(): continue
        t, k = p[0], p[1]
        if k == 'call':
            cur[t] = p[2]
            if p[2] == 'push': out.append('CP %s %d' % (t, nid(p[3])))
            elif p[2] in ('sync', 'skip'): out.append('SC %s' % t)
        elif k == 'ret':
            if p[2] == 'pop': out.append('RP %s %d' % (t, nid(p[3])))
            elif p[2] == 'push': out.append('RU %s' % t)
            elif p[2] == 'sync': out.append('SD %s' % t)
            cur.pop(t, None)
        elif k == 'cas' and p[2] == 'head+0': out.append('CAS %s %d %d %d' % (t, nid(p[3][4:]), nid(p[4][4:]), nid(p[6])))
        elif k == 'load' and cur.get(t) == 'pop':
            if p[2] == 'head+0': out.append('LH %s %d' % (t, nid(p[4])))
            else:
                m = re.match(r'n\+(\d+)$', p[2])
                if m: out.append('LN %s %d %d' % (t, 2 + int(m.group(1)) // 8, nid(p[4])))
        elif k == 'note' and cur.get(t) == 'pop' and p[2] == 'rl': out.append('EN %s' % t)
        elif k == 'note' and cur.get(t) == 'pop' and p[2] == 'ru': out.append('LV %s' % t)
    out.append('.')
    return out

def project_wfsmx(prog, raw):
    """implementation trace of scen_wfs (ops P, p, r) -> action lines of WfsMx/WfsMxExec.v (mexec)"""
    def nid(v):
        if v in ('0', '0x0'): return 0
        if v in ('1', '0x1'): return 1
        m = re.match(r'&?n\+(\d+)$', v)
        return 2 + int(m.group(1)) // 8 if m else -1
    out = ['T ' + prog]; cur = {}; pend = {}
    for l in raw.splitlines():
        l = re.sub(r' mo=-?\d+', '', l)
        p = l.split()
        if len(p) < 2 or not p[0].isdigit(): continue
        t, k = p[0], p[1]
        if k == 'call':
            cur[t] = p[2]
            if p[2] == 'push': out.append('CP %s %d' % (t, nid(p[3])))
            elif p[2] == 'pop': out.append('CQ %s' % t)
        elif k == 'ret':
            if p[2] == 'pop' and t in pend: out[pend.pop(t)] = 'UL %s %d' % (t, nid(p[3]))
            cur.pop(t, None)
        elif k == 'xchg' and p[2] == 'head+0': out.append('XC %s %d %d' % (t, nid(p[3][2:]), nid(p[5])))
        elif k == 'flush':
            m = re.match(r'n\+(\d+)$', p[2])
            if m: out.append('ST %s %d %d' % (t, 2 + int(m.group(1)) // 8, nid(p[3][2:])))
        elif k == 'lock' and p[2] == 'lock+0': out.append('LK %s' % t)
        elif k == 'unlock' and p[2] == 'lock+0': pend[t] = len(out); out.append('UL %s -1' % t)
        elif k == 'cas' and p[2] == 'head+0': out.append('CAS %s %d %d %d' % (t, nid(p[3][4:]), nid(p[4][4:]), nid(p[6])))
        elif k == 'load' and cur.get(t) == 'pop':
            if p[2] == 'head+0': out.append('LH %s %d' % (t, nid(p[4])))
            else:
                m = re.match(r'n\+(\d+)$', p[2])
                if m: out.append('LN %s %d %d' % (t, 2 + int(m.group(1)) // 8, nid(p[4])))
        elif k == 'note' and p[2] == 'norepush': out.append('NR %s' % t)
    out.append('.')
    return out

def gen(ctx, progs, n, tso, pid):
    out = []
    for prog in progs[:3 if ctx.quick() else len(progs)]:
        th = [str(i) for i in range(prog.count('/') + 1)]
        for v in th:
            for point in range(1, 12 if ctx.quick() else 26):
                out.append((prog, parking(th, point, 1, v, 1 if tso else 0)))
                if tso: out.append((prog, parking(th, point, 1, v, 0)))
    while len(out) < n:
        prog = ctx.rng.choice(progs); th = [str(i) for i in range(prog.count('/') + 1)]
        out.append((prog, bursty(ctx.rng, th, lo=30, hi=160, flush=ctx.rng.choice([0.0, 0.05, 0.3]) if tso else 0.0)))
    return out

def contended(cl):
    return any(' relax' in l for l in cl) or any(' cas head' in l and l.split('exp=')[1].split()[0] != l.rsplit('-> ', 1)[1] for l in cl)

def run(ctx):
    ctx.cov['source_hash'] = source_hash(FILES)
    prove(ctx)
    tail = ''.join(chr(ord('a') + i) + str(i) for i in range(6)) * 150
    n = 300 if ctx.quick() else 4000
    wimpl = build_scenario(ctx, 'scen_wfs', 'scen_wfs.c')
    wmodel = build_model_driver(ctx, 'wfs', 'ExtractWfs.v', 'wfs_driver.ml')
    if wimpl:
        corr_schedules(ctx, 'Wfs.v vs static/wfstack.h', wimpl, wmodel, [c for c in corpus('C11') if len(c) == 2 and 'w' == c[0][0]] + gen(ctx, WFS_MODEL_PROGS, n, True, 'C11'),
                       canon_c, oracle=oracle, nontrivial=contended, tail=tail, scenario='scen_wfs (push, pop_all + blocking iteration)')
        sgen = [(prog, '0a' * k + ('>1' if j else '1b' * 30) + '0a' * 40) for prog in WFS_STATE_PROGS for k in range(0, 40) for j in (0, 1)]
        rgen = [(prog, '>0' * prog.split('/')[0].count('P') + '0a' * k + '>1>1' + '0a' * 40) for prog in WFS_REUSE_PROGS for k in range(0, 16)]
        corr_schedules(ctx, 'wfstack LIFO', wimpl, None, sgen + rgen + gen(ctx, WFS_ORACLE_PROGS, n, True, 'C11'), canon_c, oracle=oracle, nontrivial=contended, tail=tail,
                       scenario='scen_wfs (blocking / with-state / non-blocking pop, empty) - oracle only')
    limpl = build_scenario(ctx, 'scen_lfs', 'scen_lfs.c')
    lmodel = build_model_driver(ctx, 'lfs', 'ExtractLfs.v', 'lfs_driver.ml')
    if limpl:
        corr_schedules(ctx, 'Lfs.v vs static/lfstack.h', limpl, lmodel, gen(ctx, LFS_PROGS, n, False, 'C11'), canon_c, oracle=oracle, nontrivial=contended,
                       tail='012345' * 150, scenario='scen_lfs (push, pop_blocking, pop_all_blocking, empty, node reuse)')
    # the same scenarios with plain stores (node->next = head in push, node initialisation) as scheduling points and buffered stores: oracle only
    rimpl = build_scenario(ctx, 'scen_lfsrcu', 'scen_lfsrcu.c')
    if rimpl:
        rc = gen(ctx, LFSRCU_PROGS, n, False, 'C11')
        # a push frozen before each of its steps - in particular before its first cmpxchg - while another push / a pop completes
        for prog in ('P0P1/P2/pp', 'P0P1/P2/P3p', 'P0/P1/pe'):
            for k in range(0, 14):
                rc.append((prog, '>0' * prog.split('/')[0].count('P') + '1' * k + '>2>2' + '1' * 30 + '012' * 40))
        blocks = []
        def roracle(p, s, cl, raw): blocks.append((p, s, project_lfsrcu(p, raw))); return oracle(p, s, cl, raw)
        corr_schedules(ctx, 'legacy rculfstack LIFO', rimpl, None, rc, canon_c, oracle=roracle, nontrivial=contended, tail='012345' * 150, scenario='scen_lfsrcu (cds_lfs_*_rcu, abstract RCU)')
        rdriver = build_model_driver(ctx, 'lfsrcu', 'ExtractLfsRcu.v', 'lfsrcu_driver.ml')
        if rdriver and blocks:
            rc2, out, err = sh([rdriver], inp='\n'.join('\n'.join(b) for _, _, b in blocks) + '\n', timeout=300); res = out.splitlines(); nrej = 0
            if len(res) != len(blocks): ctx.fail('harness', 'lfsrcu_driver output', 'expected %d verdicts, got %d: %s' % (len(blocks), len(res), err[-300:]))
            else:
                for (p, s, _), r in zip(blocks, res):
                    if not r.startswith('ok'):
                        nrej += 1
                        if nrej <= 2: ctx.fail('correspondence', 'LfsRcuExec accepts the trace of static/rculfstack.h', 'prog %s schedule %s...: the model does not accept the implementation trace: %s' % (p, s[:60], r),
                                               concrete={'scenario': 'scen_lfsrcu', 'prog': p, 'schedule': s + '012345' * 150, 'verdict': r})
                ctx.cov['traces_validated_against_impl'] += len(blocks) - nrej; ctx.cov['disagreements'] = ctx.cov.get('disagreements', 0) + nrej
    # wfstack with the mutex-protected single pop and immediate re-use of the popped node: refinement of the implementation traces against WfsMx/WfsMxExec.v
    # (sequentially consistent schedules: every step is followed by the flush of the thread's own store buffer - see the header of WfsMx.v)
    if wimpl:
        fl = lambda t: t + chr(ord('a') + int(t))
        mc = []
        for prog in WFSMX_PROGS[:3 if ctx.quick() else len(WFSMX_PROGS)]:
            th = [str(i) for i in range(prog.count('/') + 1)]
            for v in th:
                for k in range(1, 16 if ctx.quick() else 40):
                    mc.append((prog, fl(v) * k + ''.join(fl(u) * 60 for u in th if u != v)))
        while len(mc) < (400 if ctx.quick() else 4000):
            prog = ctx.rng.choice(WFSMX_PROGS); th = [str(i) for i in range(prog.count('/') + 1)]
            mc.append((prog, ''.join(fl(t) * ctx.rng.choice([1, 1, 2, 3, 5, 9]) for t in (ctx.rng.choice(th) for _ in range(80)))))
        mblocks = []
        def moracle(p, s, cl, raw): mblocks.append((p, s, project_wfsmx(p, raw))); return oracle(p, s, cl, raw)
        sctail = ''.join(fl(str(i)) for i in range(6)) * 150
        corr_schedules(ctx, 'wfstack mutex-protected pop with node re-use, LIFO', wimpl, None, mc, canon_c, oracle=moracle, nontrivial=contended, tail=sctail, scenario='scen_wfs (cds_wfs_push, cds_wfs_pop_blocking, re-push)')
        mdriver = build_model_driver(ctx, 'wfsmx', 'ExtractWfsMx.v', 'wfsmx_driver.ml')
        if mdriver and mblocks:
            rc2, out, err = sh([mdriver], inp='\n'.join('\n'.join(b) for _, _, b in mblocks) + '\n', timeout=300); res = out.splitlines(); nrej = 0
            if len(res) != len(mblocks): ctx.fail('harness', 'wfsmx_driver output', 'expected %d verdicts, got %d: %s' % (len(mblocks), len(res), err[-300:]))
            else:
                for (p, s, _), r in zip(mblocks, res):
                    if not r.startswith('ok'):
                        nrej += 1
                        if nrej <= 2: ctx.fail('correspondence', 'WfsMxExec accepts the trace of static/wfstack.h (push, mutex-protected pop, re-push)', 'prog %s schedule %s...: the model does not accept the implementation trace: %s' % (p, s[:60], r),
                                               concrete={'scenario': 'scen_wfs', 'prog': p, 'schedule': s + sctail, 'verdict': r})
                ctx.cov['traces_validated_against_impl'] += len(mblocks) - nrej; ctx.cov['disagreements'] = ctx.cov.get('disagreements', 0) + nrej
                ctx.cov['input_distribution']['wfsmx'] = {'traces': len(mblocks), 'popper_waited_for_a_pending_link': sum(1 for _, _, b in mblocks if any(l.startswith('LN') and l.endswith(' 0') for l in b)),
                                                          'pop_cmpxchg_failed': sum(1 for _, _, b in mblocks if any(l.startswith('CAS') and l.split()[2] != l.split()[4] for l in b))}
    for nm, src, progs, tso, tl in (('scen_wfs_plain', 'scen_wfs.c', WFS_MODEL_PROGS + WFS_ORACLE_PROGS, True, tail), ('scen_lfs_plain', 'scen_lfs.c', LFS_PROGS, False, '012345' * 150)):
        pimpl = build_scenario(ctx, nm, src, plain=True)
        if pimpl: corr_schedules(ctx, nm + ' LIFO with instrumented plain stores', pimpl, None, gen(ctx, progs, n // 2, tso, 'C11'), canon_c, oracle=oracle, nontrivial=contended, tail=tl, scenario=nm + ' (oracle only)')
    return finish(ctx, trusted=TRUSTED, rule='parking sweeps (each thread frozen at each program point, store buffered or flushed for wfstack) + bursty schedules; programs with 2-4 threads '
                  'pushing, popping, popping all and pushing popped nodes again; non-trivial = a waiter spun or a head cmpxchg failed; distinct = distinct (program, canonical trace)')

def replay(ctx, rp):
    f = rp.get('failing_input') or {}
    if not f: print('nothing to replay'); return 2
    src = 'scen_wfs' if 'wfs' in f.get('scenario', '') else 'scen_lfs'
    impl = build_scenario(ctx, src, src + '.c')
    rc, out = run_many([[impl, f['prog'], f['schedule']]])[0]
    cl = canon_c(out); print('\n'.join(cl[-60:]))
    o = oracle(f['prog'], f['schedule'], cl, out); print('verdict:', o or 'no violation'); return 1 if o else 0
