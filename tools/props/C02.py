"""C02 - grace periods complete: futex-handshake proofs (Futex/*.v); protocol-order conformance of the real traces with the
model's program order; stuck-state oracle under spurious / EINTR / ENOSYS fault choices on memb, mb and qsbr builds."""
import re
from vlib import *
import gp_common as G
FILES = ['src/urcu.c', 'src/urcu-qsbr.c', 'src/urcu-wait.h', 'include/urcu/static/urcu-common.h', 'include/urcu/static/urcu-qsbr.h', 'src/compat_futex.c', 'include/urcu/futex.h']
PROGS = ['(r)(q)/SS', '(r)(q)/S/S/S', '(r)/(q)/SS', '(r)(r)/S/S', '((r))(q)/SS/S']
QPROGS = ['QQ/SS', 'FNQ/S', 'rFNr/S/S/S', 'rQqFNr/SS', 'FNrQ/qQqQ/S/S']
TRUSTED = ['Coq 8.16.1 kernel; no axioms; the wait-node invariant is closed under every choice by case analysis inside Coq (finite state space), lifted by induction',
           'conformance automaton and oracles: tools/props/C02.py (trusted)', 'harness: sched.c futex emulation (EAGAIN, spurious wake-up, EINTR, ENOSYS for every call or spuriously for one FUTEX_WAIT), store buffers',
           'modelled: kernel futex semantics; the futex model has RCU_QS_ACTIVE_ATTEMPTS = 1 and no phases (phases only make the scan pass more often); '
           'qsbr `waiting` flag handshake and compat (ENOSYS) path: oracle only, no theorem yet; OS scheduler fairness is not modelled (progress = no stuck state + bounded solo completion)']

def conformance(raw):
    """program-order facts the Futex.v model relies on, checked on the implementation trace (memb/mb):
       updater: every FUTEX_WAIT on gp.futex follows  dec gp.futex ; barrier ; scan loads ; barrier ; load gp.futex -> -1  (in this order)
       reader : every outermost unlock stores its ctr before loading gp.futex; a load of -1 is followed by store 0 and FUTEX_WAKE"""
    ev = G.events(raw)
    last = {}
    for i, p in enumerate(ev):
        t, k = p[0], p[1]; loc = p[2] if len(p) > 2 else ''
        h = last.setdefault(t, [])
        if k in ('dec', 'membarrier', 'mb') or (k in ('load', 'store', 'futex_wait', 'futex_wake') and (loc.startswith('gp.futex') or loc.startswith('rd'))): h.append((k, loc, p))
        if k == 'futex_wait' and loc.startswith('gp.futex'):
            seq = [x[0] + ':' + x[1].split('+')[0] for x in h]
            di = max([n for n, y in enumerate(seq) if y == 'dec:gp.futex'] + [-1])
            s = ' '.join(seq[di:]) if di >= 0 else ' '.join(seq[-12:])
            if di < 0 or not re.match(r'dec:gp\.futex( membarrier:| mb:)+( load:rd\d+)+( membarrier:| mb:)+( load:gp\.futex futex_wait:gp\.futex)+$', s):
                return 'updater %s reaches FUTEX_WAIT without the sequence dec;barrier;scan;barrier;(load futex;wait)+ : %s' % (t, s)
        if k == 'call' and p[2] == 'unlock': h.append(('unlock', '', p))
    # reader exit order
    for t, h in last.items():
        for j, x in enumerate(h):
            if x[0] == 'unlock' and x[2][3] == '1':      # outermost
                rest = [y for y in h[j + 1:j + 6]]
                ks = [y[0] + ':' + y[1].split('+')[0] for y in rest]
                # expected: store:rdT ... load:gp.futex
                st = next((n for n, y in enumerate(ks) if y.startswith('store:rd')), None)
                ld = next((n for n, y in enumerate(ks) if y.startswith('load:gp.futex')), None)
                if st is None or ld is None or ld < st: return 'reader %s: outermost unlock does not store its ctr before loading gp.futex: %s' % (t, ' '.join(ks))
    return None

def conformance_locks(raw):
    """lock discipline of the grace-period wait (the models let registrations proceed while the updater sleeps: Gp/GpDyn*.v): a thread never goes to sleep in FUTEX_WAIT
    on the grace-period futex while it holds the registry lock"""
    held = {}
    for l in raw.splitlines():
        p = l.split()
        if len(p) < 3 or not p[0].isdigit(): continue
        t, k, loc = p[0], p[1], p[2]
        h = held.setdefault(t, set())
        if k == 'lock': h.add(loc)
        elif k == 'unlock': h.discard(loc)
        elif k == 'futex_wait' and loc.startswith('gp.futex') and p[-1] == 'sleep' and 'reg_lock+0' in h:
            return 'thread %s goes to sleep on the grace-period futex while holding the registry lock: rcu_register_thread() / rcu_unregister_thread() of any thread block until the awaited reader leaves (and for ever if that reader waits for them)' % t
    return None

def conformance_compat(raw):
    """program order of the futex fallback against Futex/CompatFutex.v (platform without the futex system call): pthread_cond_wait is called with the compat mutex
    held, and pthread_cond_broadcast is issued while holding that same mutex (that is what makes a sleeper's "check the word, then queue" atomic w.r.t. the wake-up)"""
    held = {}; cmx = {}
    for l in raw.splitlines():
        p = l.split()
        if len(p) < 3 or not p[0].isdigit(): continue
        t, k, loc = p[0], p[1], p[2]
        h = held.setdefault(t, [])
        if k == 'lock' or (k == 'trylock' and p[-1] == 'ok'): h.append(loc)
        elif k == 'unlock' and loc in h: h.remove(loc)
        elif k == 'cond_wait':
            if not h: return 'thread %s calls pthread_cond_wait on %s without holding a mutex' % (t, loc)
            cmx[loc] = h[-1]
        elif k == 'cond_woken': h.append(cmx.get(loc, '?'))        # the mutex is re-acquired on the way out of pthread_cond_wait
        elif k == 'cond_broadcast':
            need = cmx.get(loc)
            if (need and need not in h) or (not need and not h):
                return 'thread %s issues the wake-up broadcast on %s without holding the mutex the sleepers check the futex word under: a sleeper between its check and its pthread_cond_wait misses it' % (t, loc)
    return None

def conformance_qsbr(raw):
    """program-order facts the Futex/QsbrFutex.v model relies on, checked on the implementation trace of src/urcu-qsbr.c:
       reader  (quiescent state / offline): store of its ctr ; load of its waiting flag ; on 1: store waiting 0 ; load gp.futex ; on -1: store gp.futex 0 ; FUTEX_WAKE
       updater (wait_for_readers): every FUTEX_WAIT on gp.futex follows  store gp.futex -1 ; store waiting 1 for at least one reader ; mb ; loads of reader ctrs ; load gp.futex -> -1"""
    hist = {}
    for l in raw.splitlines():
        p = l.replace(' (fwd)', '').split()
        if len(p) < 2 or not p[0].isdigit(): continue
        t, k = p[0], p[1]; loc = p[2] if len(p) > 2 else ''
        h = hist.setdefault(t, [])
        base = loc.split('+')[0]
        if k in ('mb', 'futex_wake') or (k in ('load', 'store', 'futex_wait') and (base == 'gp.futex' or base.startswith('rd') or base.startswith('wt'))):
            val = None
            if k == 'store': val = p[3][2:] if len(p) > 3 and p[3].startswith('v=') else None
            elif k == 'load': val = p[-1]
            h.append((k, base, val))
        # reader side
        if k == 'load' and base == 'wt' + t:
            if not any(x[0] == 'store' and x[1] == 'rd' + t for x in h[-6:-1]):
                return 'reader %s looks at its waiting flag without having stored its counter first: %s' % (t, ' '.join('%s:%s' % (x[0], x[1]) for x in h[-6:]))
        if k == 'load' and base == 'gp.futex' and len(h) >= 2 and any(x[1] == 'wt' + t for x in h[-4:-1]):
            prev = [x for x in h[-4:-1] if x[1] == 'wt' + t]
            if not (prev and prev[-1][0] == 'store' and prev[-1][2] == '0' and any(x[0] == 'load' and x[2] == '1' for x in prev)):
                return 'reader %s loads gp.futex without the sequence load waiting -> 1 ; store waiting 0: %s' % (t, ' '.join('%s:%s=%s' % x for x in h[-5:]))
        if k == 'futex_wake' and base == 'gp.futex':
            if not (len(h) >= 3 and h[-2] == ('store', 'gp.futex', '0') and h[-3][0] == 'load' and h[-3][1] == 'gp.futex' and h[-3][2] == '-1'):
                # a flush of the store may be logged separately; accept store gp.futex 0 anywhere in the last four entries after a load of -1
                tailh = h[-6:-1]
                if not (any(x == ('store', 'gp.futex', '0') for x in tailh) and any(x[0] == 'load' and x[1] == 'gp.futex' and x[2] == '-1' for x in tailh)):
                    return 'thread %s calls FUTEX_WAKE without load gp.futex -> -1 ; store gp.futex 0 before it: %s' % (t, ' '.join('%s:%s=%s' % x for x in h[-6:]))
        # updater side
        if k == 'futex_wait' and base == 'gp.futex':
            di = max([n for n, x in enumerate(h) if x[0] == 'store' and x[1] == 'gp.futex' and x[2] == '-1'] + [-1])
            seq = ' '.join('%s:%s' % (x[0], re.sub(r'\d+$', 'N', x[1])) for x in (h[di:] if di >= 0 else h[-10:]))
            if di < 0 or not re.match(r'store:gp\.futex( mb:)*( store:wtN)+( mb:)+( load:rdN)+( mb:)*( load:gp\.futex futex_wait:gp\.futex)+$', seq):
                return 'updater %s reaches FUTEX_WAIT without the sequence store futex -1 ; store waiting flags ; barrier ; scan ; (load futex ; wait)+ : %s' % (t, seq)
    return None

def stuck_oracle(p, s, cl, raw):
    if 'DEADLOCK' in raw: return 'stuck state: an application thread is blocked and no choice is enabled at the end of the run (lost wake-up / deadlock)'
    if 'STEP LIMIT' in raw: return 'live-lock: a synchronize_rcu() caller never returns although every reader has left (step limit reached)'
    ncall = len(re.findall(r'^\d+ call sync', raw, flags=re.M)); nret = len(re.findall(r'^\d+ ret sync', raw, flags=re.M))
    if ncall != nret: return '%d synchronize_rcu() calls, %d returns' % (ncall, nret)
    return None

def gen(ctx, progs, n):
    out = []
    for prog in progs[:2 if ctx.quick() else len(progs)]:
        th = [str(i) for i in range(prog.count('/') + 1)]
        for v in th:
            for point in range(1, 30 if ctx.quick() else 70):
                out.append((prog, parking(th, point, 1, v, 1)))
                out.append((prog, parking_ops(th, v, point, 1, 2, 1)))
    for prog in [q for q in progs if q.count('/') == 1][:1]:      # two-thread programs: fine double parking
        for p1 in range(1, 10 if ctx.quick() else 24):
            for w1 in range(6, 34 if ctx.quick() else 60, 1):
                for p2 in (1, 2, 3):
                    out.append((prog, parking_fine('0', '1', p1, w1, p2)))
    # EINTR delivered to a thread asleep on a futex: a queued waiter (wait-node futex) or the grace-period leader (gp.futex), after k steps of the leader
    for prog in [q for q in progs if q.count('/') >= 2 and 'S' in q.split('/')[1] and 'S' in q.split('/')[2]][:2]:
        for k in range(0, 50 if ctx.quick() else 120, 3 if ctx.quick() else 1):
            for j in (0, 2, 5):
                out.append((prog, '1b' * k + '>2' + '!2' + '2c' * j + '>1>2>1>2'))
                out.append((prog, '0a' * 4 + '1b' * k + '>2' + '>1' + '!1' + '1b' * j + '!2' + '>0>0>1>2'))
                if j == 0: out.append((prog, '~2~1' + '0a' * 4 + '1b' * k + '>2' + '>1' + '>0>0>1>2>1>2'))     # spurious ENOSYS of the sleepers' FUTEX_WAIT (compat fallback must cope with wakes that reach the kernel)
    # qsbr: a grace-period leader asleep on the futex, waiting for a thread that is online and whose next RCU-visible action is synchronize_rcu() itself
    # (the caller marks itself offline for the duration - that transition must wake the leader)
    if any(p.startswith('QQ/') or 'Q' in p for p in progs):
        for prog in ('S/S', 'S/S/Q', 'S/rS', 'SS/S'):
            for k in range(12, 130, 4 if ctx.quick() else 1):
                out.append((prog, '0a' * k + '>1' + '0a' * 20 + '>1>0>0'))
    nrand = len(out) + max(n // 2, 150)        # the random part is always present, whatever the size of the sweeps
    while len(out) < nrand:
        prog = ctx.rng.choice(progs); th = [str(i) for i in range(prog.count('/') + 1)]
        s = bursty(ctx.rng, th, lo=60, hi=500, flush=ctx.rng.choice([0.05, 0.2, 0.4]), means=(1, 3, 10, 30), spurious=ctx.rng.choice([0.0, 0.02, 0.05]))
        if ctx.rng.random() < 0.5:      # EINTR choices at random positions
            s = list(s)
            for _ in range(ctx.rng.randint(1, 6)): s.insert(ctx.rng.randrange(len(s)), ctx.rng.choice('!!~') + ctx.rng.choice(th))
            s = ''.join(s)
        out.append((prog, s))
    return out

def run_flavor(ctx, name, src, defs, progs, n, conf=True):
    impl = build_scenario(ctx, name, src, extra_src=G.SRCS, defs=defs)
    if not impl: return
    cases = gen(ctx, progs, n) if ('nofutex' not in name and 'dyn' not in name) else []
    if 'dyn' in name:
        # the awaited reader leaves only after another thread has registered, and that thread registers while the updater is asleep
        for prog in ('(W2)/S/-R', '(W2)/S/-R/S'):
            for k in range(20, 120, 2 if ctx.quick() else 1):
                cases.append((prog, '>0' + '1b' * k + '2c' * 60 + '0a' * 30 + '1b' * 200 + '2c' * 100 + '0a' * 100))
    if 'nofutex' in name:
        # compat fallback (mutex + condition variable): the sleeper frozen at every step of its way to sleep - in particular between its check of the word under
        # the lock and its pthread_cond_wait - while the reader it waits for leaves and sends the wake-up; also with a second sleeper
        fam = (('Q/S', ''), ('Q/S/S', '')) if 'qsbr' in name else (('()/S/S', '>0'), ('()/S/S/S', '>0'))
        for prog, first in fam:
            for k in range(0, 110 if ctx.quick() else 300, 1):
                cases.append((prog, first + '1b' * k + '>0' + '1b' * 300 + '2c' * 300))
                if k % 2 == 0 and prog.count('/') > 1: cases.append((prog, first + '1b' * 70 + '2c' * k + '>0' + '1b' * 300 + '2c' * 300))
        rnd = gen(ctx, progs, n); cases += rnd[-max(n // 2, 100):]        # the random part (bursty schedules with fault choices)
    tail = ''.join(chr(ord('a') + i) + str(i) for i in range(6)) * 500
    rs = run_many([[impl, p, s + tail] for p, s in cases], timeout=30)
    nor = 0; slept = 0
    for (p, s), (rc, raw) in zip(cases, rs):
        o = stuck_oracle(p, s, None, raw) or (G.qsbr_oracle if 'qsbr' in name else G.oracle)(p, s, None, raw) or (conformance(raw) if conf else None) or (conformance_qsbr(raw) if 'qsbr' in name else None) or (conformance_compat(raw) if 'nofutex' in name else None) or conformance_locks(raw)
        if 'BUG ' in raw or 'ABORT' in raw or 'TIMEOUT' in raw: o = 'abnormal run: ' + raw[-300:]
        if o:
            nor += 1
            if nor <= 3: ctx.fail('oracle', 'completion oracle (%s)' % name, o, concrete={'scenario': name, 'prog': p, 'schedule': s + tail, 'verdict': o})
        if '-> sleep' in raw or ' cond_wait ' in raw: slept += 1
        if len(ctx.cov['samples']) < 3 and '-> sleep' in raw: ctx.cov['samples'].append({'scenario': name, 'prog': p, 'schedule': s[:80]})
    ctx.cov['evaluations'] += len(cases); ctx.cov['distinct_nontrivial'] += slept
    ctx.cov['oracle_violations'] = ctx.cov.get('oracle_violations', 0) + nor
    ctx.cov['input_distribution'][name] = {'cases': len(cases), 'runs_where_a_thread_slept_on_a_futex': slept,
                                           'with_spurious': sum(1 for _, s in cases if any(c.isupper() for c in s)), 'with_eintr': sum(1 for _, s in cases if '!' in s)}
    ctx.cov['traces_validated_against_impl'] += (len(cases) - nor) if conf else 0

def run(ctx):
    ctx.cov['source_hash'] = source_hash(FILES)
    prove(ctx)
    n = 300 if ctx.quick() else 4000
    A1 = ['-DURCU_VERIF_RCU_QS_ACTIVE_ATTEMPTS=1', '-DURCU_VERIF_URCU_WAIT_ATTEMPTS=1']
    run_flavor(ctx, 'scen_gp_memb_a1', 'scen_gp.c', A1, PROGS, n)
    run_flavor(ctx, 'scen_gp_memb_a2', 'scen_gp.c', G.DEFS, PROGS, n // 2)
    run_flavor(ctx, 'scen_gp_mb_a1', 'scen_gp.c', A1 + ['-DFLAVOR_MB'], PROGS, n // 2)
    run_flavor(ctx, 'scen_qsbr_a1', 'scen_qsbr.c', A1, QPROGS, n, conf=False)
    run_flavor(ctx, 'scen_gp_memb_dyn', 'scen_gp.c', A1 + ['-DDYNREG'], PROGS[:1], n // 6, conf=False)
    run_flavor(ctx, 'scen_gp_memb_enosys', 'scen_gp.c', A1 + ['-DFUTEX_ENOSYS'], PROGS[:2], n // 3, conf=False)
    # the platform without a futex system call: futex_noasync() is compat_futex_noasync() (mutex + condition variable) - qsbr grace-period futex, wait-node futex of merged callers
    run_flavor(ctx, 'scen_qsbr_nofutex', 'scen_qsbr.c', A1 + ['-DVERIF_NO_FUTEX'], QPROGS[:2], n // 6, conf=False)
    run_flavor(ctx, 'scen_gp_memb_nofutex', 'scen_gp.c', A1 + ['-DVERIF_NO_FUTEX'], PROGS[:2], n // 6, conf=False)
    return finish(ctx, trusted=TRUSTED, rule='Step/Flush/Spurious/EINTR schedules: parking sweeps (step and operation level) + bursty random with fault choices; 1-3 concurrent synchronize_rcu() callers; '
                  'RCU_QS_ACTIVE_ATTEMPTS and URCU_WAIT_ATTEMPTS overridden to 1 or 2 so that the sleep paths run; non-trivial = some thread actually slept on a futex; '
                  'traces_validated = runs whose program order conforms to the model (dec;barrier;scan;barrier;load before FUTEX_WAIT; ctr store before futex load)')
def replay(ctx, rp):
    f = rp.get('failing_input') or {}
    if not f: print('nothing to replay'); return 2
    print(json.dumps({k: f[k] for k in f if k != 'schedule'}, indent=1)); return run(ctx)
