"""C08 - sequential hash table: proofs (LfhtSeq/*.v); sequential differential correspondence of the extracted SeqTable.sstep (results of every operation incl. full traversal order,
duplicate walks, counts, destroy) and of the bucket index arithmetic models with the real src/rculfhash.c for every allocator and size configuration; bucket-structure
self-checks after every resize."""
import re
from vlib import *
FILES = ['src/rculfhash.c', 'src/rculfhash-mm-order.c', 'src/rculfhash-mm-chunk.c', 'src/rculfhash-mm-mmap.c', 'src/rculfhash-internal.h', 'include/urcu/rculfhash.h']
SRCS = [REPO + '/src/' + f for f in ('rculfhash-mm-order.c', 'rculfhash-mm-chunk.c', 'rculfhash-mm-mmap.c', 'workqueue.c', 'wfcqueue.c', 'wfstack.c', 'compat_futex.c', 'compat_arch.c')]
TRUSTED = ['Coq 8.16.1 kernel; no axioms', 'extraction: ExtrOcamlBasic only; ocaml/seqtable_driver.ml', 'harness: seqdiff/lfht_seq.c (trivial single-thread RCU flavor)',
           'modelled: the data nodes of the split-ordered list (bucket nodes are checked by the probe itself against bit_reverse(index) and chain order, and their index arithmetic by BucketIdx for the order and chunk allocators; '
           'the mmap allocator\'s single mapping is exercised, not modelled); resize is a no-op on the content; CDS_LFHT_AUTO_RESIZE (worker thread) is not run here; mmap / calloc are assumed to succeed']
def pow2(x): return x != 0 and x & (x - 1) == 0
def expect_new(init, minb, maxb, mm):
    if not pow2(minb) or not pow2(init): return False
    if mm == 'd': mm = 'o' if maxb == 0 else 'x'
    if mm == 'o' and maxb == 0: return True
    return pow2(maxb)
def run(ctx):
    ctx.cov['source_hash'] = source_hash(FILES)
    prove(ctx)
    model = build_model_driver(ctx, 'seqtable', 'ExtractSeqTable.v', 'seqtable_driver.ml')
    exe = os.path.join(BUILD, 'lfht_seq')
    rc, so, se = sh(['gcc', '-O1', '-g', '-w', '-include', REPO + '/include/config.h', '-I' + REPO + '/include', '-I' + REPO + '/src', os.path.join(HARN, 'seqdiff/lfht_seq.c')] + SRCS + ['-o', exe, '-lpthread'])
    if rc: ctx.fail('harness', 'build of seqdiff/lfht_seq.c', se[-800:]); return finish(ctx, trusted=TRUSTED)
    confs = []
    for mm in 'ocmd':
        for init, minb, maxb in ((1, 1, 16), (2, 1, 64), (4, 4, 64), (8, 2, 8), (16, 1, 128), (1, 1, 0), (2, 2, 2), (64, 8, 256), (4, 1, 4), (3, 1, 16), (4, 3, 16), (4, 1, 24), (32, 16, 8)):
            for flags in (0, 2):
                confs.append((init, minb, maxb, flags, mm))
    if ctx.quick(): confs = confs[::3] + confs[1::7]
    cmds = [[exe, '500' if ctx.quick() else '3000', str(ctx.seed * 1000 + i)] + [str(x) for x in c] for i, c in enumerate(confs)]
    dist = {}
    for (rc, out), cmd, c in zip(run_many(cmds, timeout=120), cmds, confs):
        lines = out.splitlines(); ctx.cov['evaluations'] += len(lines)
        want = expect_new(c[0], c[1], c[2], c[4])
        got = bool(lines) and lines[0] == 'NEW ok'
        if rc != 0 or want != got or 'BUG' in out:
            bug = next((l for l in lines if 'BUG' in l), None) or ('cds_lfht_new returned %s for init=%d min=%d max=%d mm=%s, expected %s' % ('a table' if got else 'NULL', c[0], c[1], c[2], c[4], 'a table' if want else 'NULL') if want != got and rc == 0 else 'probe exited with %d: %s' % (rc, out[-300:]))
            ctx.fail('oracle', 'sequential hash-table probe', bug, concrete={'probe': 'harness/seqdiff/lfht_seq.c', 'args': cmd[1:], 'verdict': bug}); continue
        if not got: continue
        if model:
            rc2, mo, _ = sh([model], inp=out, timeout=120); ml = mo.splitlines()
            bad = [(i, a, b) for i, (a, b) in enumerate(zip(lines, ml)) if a != b]
            if bad or len(ml) != len(lines):
                i, a, b = bad[0] if bad else (min(len(ml), len(lines)), '<end>', '<end>')
                ctx.fail('correspondence', 'SeqTable.sstep / BucketIdx vs src/rculfhash.c (init %d min %d max %d flags %d mm %s)' % c, 'operation %d: impl "%s" model "%s"' % (i, a[:200], b[:200]),
                         concrete={'probe': 'harness/seqdiff/lfht_seq.c', 'args': cmd[1:], 'first_difference': {'op': i, 'impl': a[:300], 'model': b[:300]}})
            else: ctx.cov['traces_validated_against_impl'] += 1
        for l in lines:
            k = l[:1]; dist[k] = dist.get(k, 0) + 1
        ctx.cov['distinct_nontrivial'] += sum(1 for l in lines if l.startswith('Z '))
        if len(ctx.cov['samples']) < 3: ctx.cov['samples'].append({'config': c, 'ops': lines[1:6]})
    ctx.cov['input_distribution']['lfht_seq'] = {'configurations': len(confs), 'op_lines': dist}
    # flags = CDS_LFHT_AUTO_RESIZE: one user thread under the controlled scheduler, the library's work-queue thread scheduled between its operations
    # (results against the multiset specification, final state, bucket count within [1, max] for every allocator)
    import lfhtx_common as X
    ximpl = X.build(ctx)
    if ximpl: X.run_cases(ctx, 'sequential operations on an auto-resizing table (work-queue thread scheduled between operations)', ximpl, X.auto_resize_bound_cases(ctx),
                          nontrivial=lambda raw: ' alloc tb' in raw)
    X.auto_resize_probe(ctx)
    pimpl = X.build_part(ctx)
    if pimpl: X.run_cases(ctx, 'sequential operations with every resize done by the partitioned multi-thread path', pimpl, X.partitioned_seq_cases(ctx), nontrivial=lambda raw: ' create ' in raw)
    return finish(ctx, trusted=TRUSTED, rule='PRNG operation sequences (add / add_unique / add_replace / replace / del / lookup + duplicate walk / traversal / count / resize to 0, 1, powers and non powers of two, ~0 / destroy) on 48 nodes with 16 keys over 8 '
                  'hashes (0, 1, 2, 3, 5, 8, 2^63, 2^64-1: small hashes equal to future bucket indices, high-bit-only differences); allocators order / chunk / mmap / default x initial size, minimum, maximum (incl. invalid ones) x flags; '
                  'evaluations = output lines; distinct_nontrivial = resizes')
def replay(ctx, rp):
    print(json.dumps(rp.get('failing_input'), indent=1)); return run(ctx)
