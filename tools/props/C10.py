"""C10 - wfcqueue: chain-invariant proof on the TSO machine + lock-step correspondence of the extracted model with
static/wfcqueue.h (strict TSO rule: RMW/fence only on an empty store buffer) + FIFO oracle."""
import re
from vlib import *
import oracles

FILES = ['include/urcu/static/wfcqueue.h', 'include/urcu/wfcqueue.h', 'src/wfcqueue.c', 'include/urcu/static/wfqueue.h', 'src/wfqueue.c']
WQPROGS = ['DDDD/E0E1/E2E3', 'DDD/E0/E1/E2', 'DDDDD/E0E1E2', 'DDDD/E0E1/E2']      # legacy cds_wfq
OPROGS = ['dDdd/E0E1/E2', 'dsdn/E0E1/E2E3', 'wIew/E0/E1E2', 'ddddd/E0/E1/E2', 'nDsI/E0E1/E2', 'edIds/E0E1E2']
PROGS = ['DDDDD/E0E1/E2E3', 'DDD/E0/E1/E2', 'DDDD/E0E1E2', 'DD/E0/E1', 'DDDDDD/E0E1/E2/E3E4']
TRUSTED = ['Coq 8.16.1 kernel; no axioms (closed under the global context); no native_compute',
           'extraction: ExtrOcamlBasic only; ocaml/wfcq_driver.ml',
           'harness: verif_hooks.h, sched.c with simulated store buffers; canonicalisation in tools/props/C10.py',
           'modelled: x86-TSO store buffers, xchg/cmpxchg atomic and enabled only on an empty buffer; one dequeuer (thread 0) as the API requires; '
           'poll(10ms) of the adaptative wait = Sleep step']

def nid(v):
    if v == '0': return '0'
    m = re.match(r'&?n\+(\d+)$', v)
    if m: return str(2 + int(m.group(1)) // 8)
    if re.match(r'&?head\+0$', v): return '1'
    return v
def loc(l):
    if l == 'head+0': return 'head'
    if l == 'tail+0': return 'tail'
    m = re.match(r'n\+(\d+)$', l)
    return 'next(%d)' % (2 + int(m.group(1)) // 8) if m else l
def canon_c(out):
    res = []
    for l in out.splitlines():
        l = re.sub(r' mo=-?\d+', '', l).replace(' (fwd)', '')
        p = l.split()
        if len(p) < 2 or not p[0].isdigit(): continue
        t, k = p[0], p[1]
        if k in ('start', 'exit'): continue
        if k == 'call': res.append('%s call enq %s' % (t, nid(p[3])) if p[2] == 'enq' else '%s call deq' % t)
        elif k == 'ret': res.append('%s ret %s %s' % (t, p[2], nid(p[3])))
        elif k == 'load': res.append('%s load %s -> %s' % (t, loc(p[2]), nid(p[4])))
        elif k == 'store': res.append('%s store %s v=%s' % (t, loc(p[2]), nid(p[3][2:])))
        elif k == 'xchg': res.append('%s xchg %s v=%s -> %s' % (t, loc(p[2]), nid(p[3][2:]), nid(p[5])))
        elif k == 'cas': res.append('%s cas %s exp=%s new=%s -> %s' % (t, loc(p[2]), nid(p[3][4:]), nid(p[4][4:]), nid(p[6])))
        elif k == 'flush': res.append('%s flush %s' % (t, loc(p[2])))
        else: res.append(' '.join(p))
    return res

def fifo_wfcq_apply(state, op, arg):
    if op == 'enq': return state + (arg,), ('1' if state else '0')    # returns "queue was non-empty"
    if op == 'enqv': return state + (arg,), '0'                          # legacy cds_wfq_enqueue returns nothing
    if op in ('deq', 'deqs'): return (state[1:], state[0]) if state else (state, '0')
    if op == 'deqnb': return [(state[1:], state[0]) if state else (state, '0'), (state, '-1')]     # WOULDBLOCK always tolerated here (C17 checks when it may occur)
    if op == 'splice': return (), ','.join(state)
    if op == 'splicenb': return [((), ','.join(state)), (state, 'WB')]
    if op == 'iter': return state, ','.join(state)
    if op == 'empty': return state, ('0' if state else '1')
OPS = ('enq', 'enqv', 'deq', 'deqs', 'deqnb', 'splice', 'splicenb', 'iter', 'empty')
def history(raw):
    open_ = {}; out = []; chain = {}; i = 0
    for l in raw.splitlines():
        p = l.split()
        if len(p) < 2 or not p[0].isdigit(): continue
        i += 1; t, k = p[0], p[1]
        if k == 'call' and p[2] in OPS: open_[t] = (p[2], nid(p[3]), i)
        elif k == 'note' and p[2] == 'chain': chain[t] = ','.join(str(int(x) + 2) for x in (p[3] if len(p) > 3 else '').split(',') if x)
        elif k == 'ret' and p[2] == 'walk':
            # the content of the private queue belongs to the splice this thread performed just before
            for j in range(len(out) - 1, -1, -1):
                if out[j][0] == t and out[j][1] in ('splice', 'splicenb'):
                    if out[j][3] != 'WB': out[j] = out[j][:3] + (chain.pop(t, ''),) + out[j][4:]
                    break
        elif k == 'ret' and t in open_ and p[2] == open_[t][0]:
            op, arg, ci = open_.pop(t)
            if op == 'iter': r = chain.pop(t, '')
            elif op in ('splice', 'splicenb'): r = 'WB' if p[3] == '-1' else ''
            else: r = nid(p[3])
            out.append((t, op, arg, r, ci, i))
    for t, (op, arg, ci) in open_.items(): out.append((t, op, arg, None, ci, None))
    return out
def oracle(p, s, cl, raw):
    if 'DEADLOCK' in raw: return 'stuck state'
    if 'STEP LIMIT' in raw: return 'live-lock: a dequeuer-side operation never returns (step limit reached)'
    hist = history(raw)
    ok = oracles.linearizable(hist, (), fifo_wfcq_apply, maxops=14)
    if ok is False: return 'history is not a linearizable FIFO history (incl. was-non-empty, splice, iteration, empty): ' + '; '.join('%s %s(%s)->%s' % (x[0], x[1], x[2], x[3]) for x in hist)
    deq = []
    for h in hist:
        if h[1] in ('deq', 'deqs', 'deqnb') and h[3] not in (None, '0', '-1'): deq.append(h[3])
        if h[1] in ('splice', 'splicenb') and h[3] not in (None, 'WB', ''): deq += h[3].split(',')
    if len(set(deq)) != len(deq): return 'a node was dequeued twice: %s' % deq
    enq_all = [h[2] for h in hist if h[1] in ('enq', 'enqv')]
    if any(d not in enq_all for d in deq): return 'dequeue returned a node that was never enqueued'
    m = re.search(r'^- drain(.*)$', raw, flags=re.M)
    if m and all(h[5] is not None for h in hist):
        rest = m.group(1).split()
        if 'WOULDBLOCK' in rest: return 'at quiescence the queue still answers WOULDBLOCK after 50 attempts: nodes %s are lost' % sorted(set(enq_all) - set(deq))
        rest = [str(int(x) + 2) for x in rest]
        if sorted(deq + rest) != sorted(enq_all): return 'conservation: enqueued %s, dequeued %s, left in the queue %s' % (enq_all, deq, rest)
    return None

def gen(ctx, n):
    out = [c for c in corpus('C10') if len(c) == 2]
    for prog in PROGS[:2 if ctx.quick() else len(PROGS)]:
        th = [str(i) for i in range(prog.count('/') + 1)]
        for v in th[1:]:
            for point in range(1, 6):        # enqueuer frozen before mb / xchg / store / ret, with its store buffered or not
                for fm in (0, 1):
                    out.append((prog, parking(th, point, 1, v, fm) + (chr(ord('a') + int(v)) if fm else '')))
        for point in range(1, 14 if ctx.quick() else 30):
            out.append((prog, parking(th, point, 1, '0', 1)))
    while len(out) < n:
        prog = ctx.rng.choice(PROGS); th = [str(i) for i in range(prog.count('/') + 1)]
        out.append((prog, bursty(ctx.rng, th, flush=ctx.rng.choice([0.0, 0.02, 0.1, 0.3]))))
    return out

def nontrivial(cl):
    return any(' relax' in l or ' sleep' in l for l in cl) or any(l.startswith('0 cas') and l.split('exp=')[1].split()[0] != l.rsplit('-> ', 1)[1] for l in cl)

def run(ctx):
    ctx.cov['source_hash'] = source_hash(FILES)
    prove(ctx)
    impl = build_scenario(ctx, 'scen_wfcq', 'scen_wfcq.c')
    model = build_model_driver(ctx, 'wfcq', 'ExtractWfcq.v', 'wfcq_driver.ml')
    if impl:
        cases = gen(ctx, 400 if ctx.quick() else 6000)
        tail = ''.join(chr(ord('a') + i) + str(i) for i in range(6)) * 150
        corr_schedules(ctx, 'Wfcq.v vs static/wfcqueue.h', impl, model, cases, canon_c, oracle=oracle, nontrivial=nontrivial, tail=tail, scenario='scen_wfcq')
        ocases = []
        for prog in OPROGS[:4 if ctx.quick() else len(OPROGS)]:
            th = [str(i) for i in range(prog.count('/') + 1)]
            for v in th[1:]:
                for point in range(1, 6):
                    for fm in (0, 1):
                        for k0 in (0, 2, 5, 9):          # the dequeuer first runs k0 steps, then the enqueuer is frozen at `point`, then the dequeuer goes on alone
                            ocases.append((prog, '0' * k0 + v * point + ('0a' * 40) + parking(th, 0, 1, v, fm)))
                            for u in th[1:]:      # one enqueue by u completes first, so that the queue holds exactly one node when v is frozen
                                if u != v: ocases.append((prog, '0' * k0 + '>' + u + chr(ord('a') + int(u)) + v * point + ('0a' * 40) + parking(th, 0, 1, v, fm)))
        while len(ocases) < (300 if ctx.quick() else 4000):
            prog = ctx.rng.choice(OPROGS); th = [str(i) for i in range(prog.count('/') + 1)]
            ocases.append((prog, bursty(ctx.rng, th, flush=ctx.rng.choice([0.0, 0.05, 0.3]))))
        # several consumers through the mutex-protected API: one locked dequeue frozen at each of its steps (it holds the queue's dequeue lock) while another consumer
        # splices / dequeues through the locked API - which must wait for the lock
        for prog, ne in (('LL/SL/E0E1E2', 3), ('LLL/S/E0E1', 2), ('LS/LL/E0E1E2E3', 4), ('SL/SL/E0E1E2', 3)):
            for k in range(0, 22 if ctx.quick() else 40):
                ocases.append((prog, '>2' * ne + 'c' * 8 + '0a' * k + '>1>1' + '0a' * 40 + '1b' * 40))
                ocases.append((prog, '>2' * (ne - 1) + '2' * 3 + '0a' * k + '>1>1' + '0a' * 40 + '1b' * 40))      # the last enqueue suspended between its tail exchange and its link store
        corr_schedules(ctx, 'wfcqueue FIFO (non-blocking dequeue, with-state, splice, iteration, empty)', impl, None, ocases, canon_c, oracle=oracle, nontrivial=nontrivial, tail=tail, scenario='scen_wfcq (oracle only)')
    # legacy cds_wfq (static/wfqueue.h): FIFO oracle; standard and plain-store-instrumented builds
    for nm, pl in (('scen_wfq', False), ('scen_wfq_plain', True)):
        wq = build_scenario(ctx, nm, 'scen_wfq.c', plain=pl)
        if not wq: continue
        wcases = []
        for prog in WQPROGS[:3 if ctx.quick() else len(WQPROGS)]:
            th = [str(i) for i in range(prog.count('/') + 1)]
            for v in th[1:]:
                for point in range(1, 8):
                    for fm in (0, 1): wcases.append((prog, parking(th, point, 1, v, fm) + (chr(ord('a') + int(v)) if fm else '')))
                    # the dummy node has been through the queue once (one enqueue, dequeue, dequeue-on-empty), then an enqueue is frozen at `point` while the dequeuer runs
                    wcases.append((prog, '>1' + 'b' * 4 + '>0>0' + 'a' * 4 + v * point + '0a' * 30))
            for point in range(1, 30, 2): wcases.append((prog, parking(th, point, 1, '0', 1)))
        while len(wcases) < (150 if ctx.quick() else 3000):
            prog = ctx.rng.choice(WQPROGS); th = [str(i) for i in range(prog.count('/') + 1)]
            wcases.append((prog, bursty(ctx.rng, th, flush=ctx.rng.choice([0.0, 0.05, 0.3]))))
        corr_schedules(ctx, 'legacy wfqueue FIFO' + (' with instrumented plain stores' if pl else ''), wq, None, wcases, canon_c, oracle=oracle, nontrivial=nontrivial, tail=tail, scenario=nm + ' (oracle only)')
    # the same scenario with plain stores (node initialisation) as scheduling points and buffered stores: oracle only
    pimpl = build_scenario(ctx, 'scen_wfcq_plain', 'scen_wfcq.c', plain=True)
    if pimpl and impl:
        pc = (cases + ocases)[::3 if ctx.quick() else 2]
        corr_schedules(ctx, 'wfcqueue FIFO with instrumented plain stores', pimpl, None, pc, canon_c, oracle=oracle, nontrivial=nontrivial, tail=tail, scenario='scen_wfcq_plain (oracle only)')
    return finish(ctx, trusted=TRUSTED,
                  rule='schedules (Step/Flush choices) = corpus + parking sweeps (enqueuer frozen at each program point incl. between tail exchange and link store, '
                       'store buffered or flushed; dequeuer frozen at each point) + bursty random with flush probability 0-0.3; non-trivial = the dequeuer had to wait '
                       '(relax/sleep) or lost the tail cmpxchg; distinct = distinct canonical traces')

def replay(ctx, rp):
    f = rp.get('failing_input') or {}
    impl = build_scenario(ctx, 'scen_wfcq', 'scen_wfcq.c')
    if not impl or not f: print('nothing to replay'); return 2
    rc, out = run_many([[impl, f['prog'], f['schedule']]])[0]
    cl = canon_c(out); print('\n'.join(cl[-60:]))
    o = oracle(f['prog'], f['schedule'], cl, out); print('verdict:', o or 'no violation'); return 1 if o else 0
