"""C07 - rculfhash: single owner of a removed node; competing removers of the same node under the controlled scheduler."""
from vlib import *
import lfht_common as L
import lfhtx_common as X
XPROGS = ['A0L0X/L0P2/L0X', 'A0L0P2/L0X/R7L0X', 'U0L0X/R2L0P7/L0XL0X', 'A0A2L0XL0X/L0P7L0X/L0NX']
DPROGS = ['A3A6A9Z3Z0/TL6TL9T', 'U3U9Z3Z1/L9TL3T']
# the owner of a deleted node waits for a grace period and releases it (op x): nobody may reach the node afterwards.  The deleter is suspended at every point while a
# neighbour is inserted in front of the node, or its predecessor is deleted or replaced
RPROGS = ['A3/L3x/A0/L3L0TL3', 'A0A3/L3x/L0X/L3L0TL3', 'A0A3/L3x/L0P2/TL3L0T', 'A9A4/L9x/A6A0/L9TL9', 'A0/L0x/A1/L0L1TL0', 'U4U3/L3x/L4XU0/L3TL3']
def reclaim_cases(ctx):
    return [(prog, '>0>0' + 'a' * 8 + '1b' * p + '>2>2>2' + 'c' * 8 + '>1>1' + 'b' * 8, cf) for prog in RPROGS for p in range(1, 60 if ctx.quick() else 140)
            for cf in ([('1', '8', 'o')] if ctx.quick() else [('1', '8', 'o'), ('2', '8', 'o'), ('4', '8', 'c')])]
# a resize (grow, then shrink back) frozen at every step - inside the garbage collection of a bucket chain it walks as an RCU reader - while the owners of two nodes of
# those chains delete them, wait for a grace period and release them: the resize must still be counted as a reader by that grace period
ZPROGS = ['A3A6A9Z3Z0/L6x/L9x', 'A0A3A5Z2Z0/L3x/L5x', 'A4A6Z3Z1/L4x/L6x']
def resize_reclaim_cases(ctx):
    out = []
    for prog in ZPROGS[:2 if ctx.quick() else 3]:
        na = prog.split('/')[0].count('A')
        for p in range(0, 150 if ctx.quick() else 320, 2 if ctx.quick() else 1):
            for cf in ([('1', '8', 'o')] if ctx.quick() else [('1', '8', 'o'), ('2', '8', 'c')]):
                out.append((prog, '>0' * na + 'a' * 8 + '0a' * p + '>1>1>1' + 'b' * 8 + '>2>2>2' + 'c' * 8 + '0a' * 400, cf))          # frozen inside the grow, or (later) the shrink
                out.append((prog, '>0' * (na + 1) + 'a' * 8 + '0a' * p + '>1>1>1' + 'b' * 8 + '>2>2>2' + 'c' * 8 + '0a' * 400, cf))    # grow complete, frozen p steps into the shrink
    return out
PROGS = ['A0L0P7/L0P2/L0X/L0', 'A0L0X/L0X/L0X', 'A0A1L0X/L0XL1X/L1XL0X', 'A0L0XL0X/L0XA1/L0X', 'A5A0/L5XL0X/L0XL5X/L5X']
def run(ctx):
    ctx.cov['source_hash'] = source_hash(L.FILES)
    prove(ctx)
    impl, model = L.build(ctx)
    if impl:
        cases = L.gen(ctx, PROGS, 400 if ctx.quick() else 5000, 'C07')
        corr_schedules(ctx, 'Lfht.v vs src/rculfhash.c', impl, model, cases, L.canon_c, oracle=L.oracle,
                       nontrivial=lambda cl: sum(1 for l in cl if ' ret del ' in l) >= 2 and L.contended(cl), tail='012345' * 200, scenario='scen_lfht')
    ximpl = X.build(ctx)
    if ximpl:
        fdriver = build_model_driver(ctx, 'flagproto', 'ExtractFlagProto.v', 'flagproto_driver.ml')
        X.run_cases(ctx, 'ownership among del / replace / add_replace', ximpl, X.gen(ctx, XPROGS, 300 if ctx.quick() else 4000, 'C07x', [('2', '8', 'o'), ('1', '8', 'o')]), flag_driver=fdriver)
        X.run_cases(ctx, 'a deleted node is unreachable after a grace period', ximpl, reclaim_cases(ctx))
        X.run_cases(ctx, 'a resize walking a chain is a reader: nodes deleted meanwhile are not released under it', ximpl, resize_reclaim_cases(ctx))
        dcases = [(prog, '0' * p1 + '1' * w1 + '0000000001' * 60, ('2', '8', 'o')) for prog in DPROGS for p1 in range(60, 420, 4 if ctx.quick() else 1) for w1 in (4, 9, 15)]
        driver = build_model_driver(ctx, 'resizeproto', 'ExtractResizeProto.v', 'resizeproto_driver.ml')
        X.run_cases(ctx, 'released bucket tables are never touched again', ximpl, dcases, proto_driver=driver)
        X.run_partitioned_faults(ctx, 'bucket tables released by a partitioned shrink with thread-creation faults are never touched again', 'C07p', 120 if ctx.quick() else 1500, proto_driver=driver)
        X.run_cases(ctx, 'the table itself after cds_lfht_destroy (work-queue thread still inside its resize work item)', ximpl, X.lazy_destroy_cases(ctx), nontrivial=lambda raw: ' free tb' in raw)
    return finish(ctx, trusted=L.TRUSTED + ['"no access after a grace period": theorem on the pc-level model without resize (Lfht/LfhtDead.v: unlinked stays unlinked, a thread without references never reaches the node); '
                  'the resize paths (their garbage collection runs as an RCU reader) are covered by the quarantine oracle only'],
                  rule='corpus + parking sweeps + bursty schedules of 2-4 threads all looking up and deleting the same nodes; non-trivial = at least two del calls and contention')
def replay(ctx, rp):
    return X.replay(ctx, rp) if (rp.get('failing_input') or {}).get('scenario') == 'scen_lfhtx' else L.replay(ctx, rp)
