"""C07 - rculfhash: single owner of a removed node; competing removers of the same node under the controlled scheduler."""
from vlib import *
import lfht_common as L
PROGS = ['A0L0X/L0X/L0X', 'A0A1L0X/L0XL1X/L1XL0X', 'A0L0XL0X/L0XA1/L0X', 'A5A0/L5XL0X/L0XL5X/L5X']
def run(ctx):
    ctx.cov['source_hash'] = source_hash(L.FILES)
    prove(ctx)
    impl, model = L.build(ctx)
    if impl:
        cases = L.gen(ctx, PROGS, 400 if ctx.quick() else 5000, 'C07')
        corr_schedules(ctx, 'Lfht.v vs src/rculfhash.c', impl, model, cases, L.canon_c, oracle=L.oracle,
                       nontrivial=lambda cl: sum(1 for l in cl if ' ret del ' in l) >= 2 and L.contended(cl), tail='012345' * 200, scenario='scen_lfht')
    return finish(ctx, trusted=L.TRUSTED + ['C07 partial: "no access after a grace period" is proved for the queue (C12 theorem) with the same ghost-clock device; '
                  'for the table only the single-owner half is a theorem so far'],
                  rule='corpus + parking sweeps + bursty schedules of 2-4 threads all looking up and deleting the same nodes; non-trivial = at least two del calls and contention')
replay = L.replay
