"""C01 - grace period waits for pre-existing readers: proofs (Gp/*.v); refinement check of the real urcu.c traces (memb and mb builds)
against the executable models; timing + litmus oracles on memb (membarrier / fallback) and mb builds."""
from vlib import *
import gp_common as G
FILES = ['src/urcu.c', 'src/urcu-wait.h', 'include/urcu/static/urcu-common.h', 'include/urcu/static/urcu-memb.h', 'include/urcu/static/urcu-mb.h',
         'src/urcu-qsbr.c', 'include/urcu/static/urcu-qsbr.h', 'src/urcu-bp.c', 'include/urcu/static/urcu-bp.h']
PROGS = ['(r)(q)/SS', '(r)(q)/(r)(q)/SS', '(r(q))/(q)(r)/S/S', '((r)q)(r)/S(r)/S', '(q)(q)(q)/(r)(r)/SS', '(r)/(q)/(rq)/SS']
BPPROGS = ['(r)/(q)(r)(q)(r)/SSS', '(r)(q)/(r)/(q)(r)(q)/SS', '(q)/(r)(r)/S/S(q)', '(r)/(q)/(r)/(q)/SSS']      # bp: threads register at their first read-side call, also while a grace period is waiting
QPROGS = ['FNr/SS', 'rFNrQq/SS', 'rQqFNr/qFNrQq/SS', 'rQrQr/FNq/S/S', 'qFNqFNq/rQr/SS', 'rFNr/S/qQq/S']
TRUSTED = ['Coq 8.16.1 kernel; no axioms; no native_compute',
           'extraction: ExtrOcamlBasic only; ocaml/gp_driver.ml, ocaml/gpmb_driver.ml',
           'projection of implementation events onto model actions: tools/gp_common.py project_memb / project_mb (trusted, 30 lines each)',
           'harness: verif_hooks.h, sched.c (store buffers; membarrier = drain every buffer)',
           'modelled: sys_membarrier drains every running thread\'s store buffer; mutexes; registry list surgery and waiter batching are not in the model '
           '(the projection places the grace-period start at the leader\'s urcu_move_waiters); static registry during a run (dynamic registration: C15)']

def gen(ctx, n, progs):
    out = [c for c in corpus('C01') if len(c) == 2]
    for prog in progs[:2 if ctx.quick() else len(progs)]:
        th = [str(i) for i in range(prog.count('/') + 1)]
        for v in th:
            for point in range(1, 14 if ctx.quick() else 40):
                for k in (1, 2):
                    out.append((prog, parking(th, point, k, v, 0)))
                out.append((prog, parking(th, point, 2, v, 1)))
    # op-level double parking: victim frozen inside an operation across exactly one whole grace period, resumed for a few steps,
    # frozen again across the next one (stale snapshots need two consecutive grace periods)
    for prog in progs[:3 if ctx.quick() else len(progs)]:
        th = [str(i) for i in range(prog.count('/') + 1)]
        ups = [str(i) for i, tp in enumerate(prog.split('/')) if 'S' in tp]
        for v in th:
            if v in ups: continue
            for p1 in range(1, 26 if ctx.quick() else 60):
                for p2 in (1, 2, 3, 5):
                    out.append((prog, parking_ops(th, v, p1, 1, p2, 1, runner=ups[0])))
    # nested sections: thread 0 is inside its outer section, an updater is n1 steps into its grace period (flipped, waiting for thread 0, possibly asleep), thread 0
    # takes a nested lock (and optionally leaves it), another reader's outermost unlock wakes the updater, the updater runs on: it must still wait for the OUTER section
    if any(p.startswith('(r(q))') for p in progs):
        prog = '(r(q))/(q)(r)/S/S'
        for n1 in (20, 35, 50, 70, 100, 140):
            for inner in ('>0', '>0>0', '>0>0>0'):
                out.append((prog, '>0' + '2c' * n1 + inner + '>1>1>1' + '2c' * 200 + '>0>0>0>0'))
    while len(out) < n:
        prog = ctx.rng.choice(progs); th = [str(i) for i in range(prog.count('/') + 1)]
        out.append((prog, bursty(ctx.rng, th, lo=40, hi=400, flush=ctx.rng.choice([0.0, 0.02, 0.1, 0.3]), means=(1, 3, 10, 30, 60))))
    return out

def qsbr_cases(ctx):
    """qsbr: a thread comes back online (also through the tail of its own synchronize_rcu) with its reader-word store still in its store buffer, runs on into its
    implicit section for k steps without any flush, and a grace period of another thread runs to completion in between: it must not"""
    out = []
    for prog, pre in (('FNr/S', 1), ('rFNrQ/S', 2), ('FNqQ/S/S', 1), ('Sr/S', 0), ('FNFNr/SS', 3)):
        for k in range(1, 26 if ctx.quick() else 60):
            out.append((prog, '>0' * pre + 'a' * 4 + '0' * k + '>1' + '0a' * 80 + '>1'))
            out.append((prog, '>0' * pre + 'a' * 4 + '1b' * 30 + '0' * k + '>1' + '0a' * 80 + '>1'))      # the grace period already under way
    return out

def bp_cases(ctx):
    """bp: a thread makes its first read-side call (= registers) while a grace period is waiting for another reader, and keeps its section open across the next grace period"""
    out = []
    for prog in ('(r)/(q)(r)/SS', '(r)(q)/(r)(q)/SSS'):
        for j in range(4, 90 if ctx.quick() else 160, 2 if ctx.quick() else 1):
            # t0 enters a section; the updater (t2) runs j steps into its grace period; t1 registers and enters; t0 leaves; the updater finishes and starts the next grace period
            out.append((prog, '>0' + 'a' * 4 + '2c' * j + '>1' + 'b' * 4 + '>0>0' + 'a' * 4 + '>2' + '2c' * 120 + '>1>1>1'))
    return out

def refine(ctx, driver, cases, raws, what, project=None):
    """feed the projected traces to the model interpreter"""
    blocks = []
    for (p, s), raw in zip(cases, raws):
        blocks += (project or G.project_memb)(raw, p.count('/') + 1)
    rc, out, err = sh([driver], inp='\n'.join(blocks) + '\n', timeout=600)
    res = out.splitlines(); nrej = 0
    if len(res) != len(cases): ctx.fail('harness', 'gp_driver output', 'expected %d verdicts, got %d: %s' % (len(cases), len(res), err[-300:])); return
    nact = 0
    for (p, s), r in zip(cases, res):
        if r.startswith('ok'): nact += int(r.split()[1])
        else:
            nrej += 1
            if nrej <= 2: ctx.fail('correspondence', what, 'prog %s schedule %s...: the model does not accept the implementation trace: %s' % (p, s[:60], r))
    ctx.cov['traces_validated_against_impl'] += len(cases) - nrej
    ctx.cov['model_actions_checked'] = ctx.cov.get('model_actions_checked', 0) + nact
    ctx.cov['disagreements'] = ctx.cov.get('disagreements', 0) + nrej

def run_flavor(ctx, name, defs, progs, n, driver=None, src='scen_gp.c', orc=None, project=None, model='GpExec (memb model)', extra_cases=()):
    orc = orc or G.oracle
    impl = G.build(ctx, name, defs, src)
    if not impl: return
    cases = gen(ctx, n, progs) + list(extra_cases)
    tail = ''.join(chr(ord('a') + i) + str(i) for i in range(6)) * 400
    rs = run_many([[impl, p, s + tail] for p, s in cases], timeout=20)
    raws = [r[1] for r in rs]
    distinct = set(); nor = 0
    for (p, s), raw in zip(cases, raws):
        abnormal = [w for w in ('DEADLOCK', 'STEP LIMIT', 'ABORT', 'BUG ', 'TIMEOUT') if w in raw]
        o = ('abnormal run (%s): %s' % (abnormal[0], raw[-300:])) if abnormal else orc(p, s, None, raw)
        if o:
            nor += 1
            if nor <= 3: ctx.fail('oracle', 'grace-period oracle (%s)' % name, o, concrete={'scenario': name, 'prog': p, 'schedule': s + tail, 'verdict': o})
        if ' flush rd' in raw and 'futex' in raw: distinct.add(hash(raw))
        if len(ctx.cov['samples']) < 3: ctx.cov['samples'].append({'scenario': name, 'prog': p, 'schedule': s[:80]})
    ctx.cov['evaluations'] += len(cases); ctx.cov['distinct_nontrivial'] += len(distinct)
    ctx.cov['oracle_violations'] = ctx.cov.get('oracle_violations', 0) + nor
    ctx.cov['input_distribution'][name] = {'cases': len(cases)}
    if driver: refine(ctx, driver, cases, raws, '%s accepts the trace of %s (%s)' % (model, 'src/urcu-qsbr.c' if 'qsbr' in name else 'src/urcu.c', name), project)

def run(ctx):
    ctx.cov['source_hash'] = source_hash(FILES)
    prove(ctx)
    driver = build_model_driver(ctx, 'gp', 'ExtractGp.v', 'gp_driver.ml')
    n = 300 if ctx.quick() else 4000
    run_flavor(ctx, 'scen_gp_memb', [], PROGS, n, driver)
    run_flavor(ctx, 'scen_gp_memb_nomembarrier', ['-DNO_MEMBARRIER'], PROGS, n // 2)
    mbdriver = build_model_driver(ctx, 'gpmb', 'ExtractGpMb.v', 'gpmb_driver.ml')
    run_flavor(ctx, 'scen_gp_mb', ['-DFLAVOR_MB'], PROGS, n // 2, mbdriver, project=G.project_mb, model='GpMbExec (mb model)')
    qdriver = build_model_driver(ctx, 'gpqsbr', 'ExtractGpQsbr.v', 'gpqsbr_driver.ml')
    run_flavor(ctx, 'scen_qsbr', [], QPROGS, n, qdriver, src='scen_qsbr.c', orc=G.qsbr_oracle, project=G.project_qsbr, model='GpQsbrExec (qsbr model)', extra_cases=qsbr_cases(ctx))
    run_flavor(ctx, 'scen_sig_bp_c01', ['-DFLAVOR_BP'], BPPROGS, n // 2, src='scen_sig.c', extra_cases=bp_cases(ctx))
    return finish(ctx, trusted=TRUSTED, rule='Step/Flush schedules = corpus + parking sweeps (each thread frozen after k steps while the others complete 1 or 2 whole operations, '
                  'store buffers flushed eagerly or not) + bursty random (flush probability 0-0.3); every scenario has >= 2 consecutive grace periods and both litmus load orders; '
                  'non-trivial = trace has a delayed reader store and reaches the futex path; builds: memb+membarrier (refinement-checked against GpExec), mb (refinement-checked against GpMbExec), memb fallback, qsbr, bp (registration on first use)')
def replay(ctx, rp):
    f = rp.get('failing_input') or {}
    if not f: print('nothing to replay'); return 2
    defs = {'scen_gp_memb': [], 'scen_gp_memb_nomembarrier': ['-DNO_MEMBARRIER'], 'scen_gp_mb': ['-DFLAVOR_MB'], 'scen_qsbr': [], 'scen_sig_bp_c01': ['-DFLAVOR_BP']}[f['scenario']]
    impl = G.build(ctx, f['scenario'], defs, 'scen_qsbr.c' if f['scenario'] == 'scen_qsbr' else 'scen_sig.c' if 'bp' in f['scenario'] else 'scen_gp.c')
    rc, out = run_many([[impl, f['prog'], f['schedule']]], timeout=20)[0]
    print(out[-3000:]); o = (G.qsbr_oracle if f['scenario'] == 'scen_qsbr' else G.oracle)(f['prog'], f['schedule'], None, out); print('verdict:', o or 'no violation'); return 1 if o else 0
