/* Stand-in for the ThreadSanitizer runtime: a scenario translation unit compiled with -fsanitize=thread calls these before every plain load and
   store.  Stores are forwarded to the controlled scheduler (sched.c: vh_plain_write), which turns those into tracked ranges into scheduling points and
   buffered stores; loads are ignored (they read real memory, which holds the newest value of every location). */
#include <stddef.h>
void vh_plain_write(void *addr, size_t sz);
void __tsan_init(void){}
void __tsan_func_entry(void *pc){ (void)pc; }
void __tsan_func_exit(void){}
#define RD(n) void __tsan_read##n(void *a){ (void)a; } void __tsan_unaligned_read##n(void *a){ (void)a; }
#define WR(n) void __tsan_write##n(void *a){ vh_plain_write(a,n); } void __tsan_unaligned_write##n(void *a){ vh_plain_write(a,n); }
RD(1) RD(2) RD(4) RD(8) RD(16) WR(1) WR(2) WR(4) WR(8) WR(16)
void __tsan_read_range(void *a, size_t n){ (void)a; (void)n; }
void __tsan_write_range(void *a, size_t n){ (void)a; (void)n; }
void __tsan_vptr_update(void **a, void *b){ (void)a; (void)b; }
void __tsan_vptr_read(void **a){ (void)a; }
