/* Controlled scheduler with simulated x86-TSO store buffers.
 *
 * Real code compiled with -include verif_hooks.h calls vh_* at every shared-memory access,
 * fence, mutex, futex, membarrier, thread create/join/exit.  Every such call is a scheduling
 * point: the thread publishes what it is about to do, hands the baton to the controller
 * (vs_run, on the main thread) and waits to be chosen.  One event line is printed per step.
 *
 * Store buffers: a buffered store is written to real memory at once (so that the writer's own
 * un-hooked plain loads are forwarded) and the previously committed value is kept in a side
 * table that every other thread's hooked load / RMW consults until the entry is flushed.
 */
#define _GNU_SOURCE
#include <pthread.h>
#include <semaphore.h>
#include <stdio.h>
#include <stdlib.h>
#include <string.h>
#include <stdint.h>
#include <stdarg.h>
#include <signal.h>
#include "sched.h"
#undef pthread_create
#undef pthread_join
#undef pthread_exit
#undef pthread_mutex_lock
#undef pthread_mutex_unlock
#undef pthread_mutex_trylock
#undef pthread_cond_wait
#undef pthread_cond_broadcast
#undef pthread_cond_signal
#undef syscall
#undef poll
#undef usleep
#include <errno.h>
#include <unistd.h>
#include <linux/futex.h>
#ifndef __NR_futex
#define __NR_futex 202      /* x86-64; only reached in the VERIF_NO_FUTEX build, where the library never issues the call */
#endif

#define MAXT 64
#define MAXBUF 256
struct sbent { void *addr; size_t sz; unsigned long v; int mo; };
struct thr {
	pthread_t tid; int alive; int is_app; int frozen;
	sem_t go;
	struct sbent buf[MAXBUF]; int nbuf;
	void (*fn)(int); void *(*pfn)(void *); void *parg; int want_join;
	int needs_empty;          /* pending action is enabled only on an empty buffer */
	pthread_mutex_t *want_mutex; int32_t *want_futex; int32_t want_val; long wakes; int woken; int wake_reason; pthread_cond_t *want_cond;
	int sig_pending; long steps; long rets; int masked; int sig_deferred; sigset_t mask; int enosys_next;
} T[MAXT];
static struct { pthread_mutex_t *m; int owner; } MX[128]; static int nmx;
static int mx_idx(pthread_mutex_t *m){ for(int i=0;i<nmx;i++) if(MX[i].m==m) return i; MX[nmx].m=m; MX[nmx].owner=-1; return nmx++; }
int vs_mutex_owner(pthread_mutex_t *m){ return MX[mx_idx(m)].owner; }
static int NT;
static sem_t ctl, born;
static __thread int me = -1;
static __thread int noyield;
int vs_tso = 1, vs_strict = 1; long vs_step_limit = 100000;
int vs_end_with_apps;      /* the run ends when the schedule is exhausted and every application thread has exited (a library thread that never sleeps would keep it going) */
static void (*sig_handler)(int);
int vs_self(void){ return me; }
long vs_steps(int t){ return T[t].steps; }
static int mx_idx(pthread_mutex_t *m);
int vs_mutex_owner(pthread_mutex_t *m); /* scenario thread id holding m under the emulation, -1 when free */
void vs_set_signal_handler(void (*fn)(int)){ sig_handler=fn; }

static struct { const void *base; size_t sz; const char *name; } regs[512]; static int nregs;
void vs_region(const void *base, size_t sz, const char *name){
	for(int i=0;i<nregs;i++) if(regs[i].base==base){ regs[i].sz=sz; regs[i].name=name; return; }
	regs[nregs].base=base; regs[nregs].sz=sz; regs[nregs].name=name; nregs++; }
static struct { const char *base; size_t sz; } dead[256]; static int ndead;
void vs_retire(const void *p, size_t sz){ dead[ndead].base=p; dead[ndead].sz=sz; ndead++; }
void vs_unretire(const void *p){ for(int i=0;i<ndead;i++) if(dead[i].base==(const char*)p){ dead[i]=dead[--ndead]; return; } }
static void chk_dead(const void *a){ for(int i=0;i<ndead;i++) if((const char*)a>=dead[i].base && (const char*)a<dead[i].base+dead[i].sz){ char l[64];
	extern void vs_ploc(char*,const void*); vs_ploc(l,a); printf("%d UAF %s\n", me, l); } }

static const char *K[] = {"load","store","xchg","cas","addret","add","or","and","inc","dec","mb","relax","sleep","call","ret","sub"};
void vs_ploc(char *o, const void *a){
	if(!a){ strcpy(o,"-"); return; }
	for(int i=0;i<nregs;i++) if((const char*)a>=(const char*)regs[i].base && (const char*)a<(const char*)regs[i].base+regs[i].sz){ sprintf(o,"%s+%ld",regs[i].name,(long)((const char*)a-(const char*)regs[i].base)); return; }
	sprintf(o,"?%p",a);
}
static void pval(char *o, unsigned long v, size_t sz){
	for(int i=0;i<nregs;i++) if((const char*)v>=(const char*)regs[i].base && (const char*)v<(const char*)regs[i].base+regs[i].sz){ sprintf(o,"&%s+%ld",regs[i].name,(long)((const char*)v-(const char*)regs[i].base)); return; }
	if(sz==4) sprintf(o,"%ld",(long)(int32_t)v); else if(sz==2) sprintf(o,"%ld",(long)(uint16_t)v); else if(sz==1) sprintf(o,"%ld",(long)(uint8_t)v);
	else sprintf(o,"%ld",(long)v);
}
/* committed view */
static struct { void *addr; size_t sz; unsigned long v; int npend; } CM[1024]; static int ncm;
static int cm_find(const void *a){ for(int i=0;i<ncm;i++) if(CM[i].addr==a && CM[i].npend>0) return i; return -1; }
static void commit_one(int t){
	struct sbent e=T[t].buf[0]; memmove(T[t].buf,T[t].buf+1,sizeof(e)*(--T[t].nbuf));
	int i=cm_find(e.addr); if(i<0){ printf("BUG no shadow\n"); fflush(stdout); _exit(6);} CM[i].v=e.v; if(--CM[i].npend==0) memcpy(e.addr,&CM[i].v,e.sz); }
static void drain(int t){ while(T[t].nbuf) commit_one(t); }
/* what pthread_create / pthread_join synchronise with: the creator's earlier stores, every store of the joined thread */
static void drain_logged(int t){ while(T[t].nbuf){ char l[64], v[64]; vs_ploc(l,T[t].buf[0].addr); pval(v,T[t].buf[0].v,T[t].buf[0].sz); commit_one(t); printf("%d flush %s v=%s\n", t, l, v); } }
static void drain_all(void){ for(int t=0;t<NT;t++) drain(t); }
static unsigned long committed_read(const void *addr, size_t sz){ unsigned long v=0; int i=cm_find(addr); if(i>=0) return CM[i].v; memcpy(&v,addr,sz); return v; }
static unsigned long rmw_begin(const void *addr, size_t sz, int *idx){ unsigned long saved=0; *idx=cm_find(addr); if(*idx>=0){ memcpy(&saved,addr,sz); memcpy((void*)addr,&CM[*idx].v,sz);} return saved; }
static void rmw_end(const void *addr, size_t sz, int idx, unsigned long saved){ if(idx>=0){ unsigned long nv=0; memcpy(&nv,addr,sz); CM[idx].v=nv; memcpy((void*)addr,&saved,sz);} }
static __thread int rmw_idx; static __thread unsigned long rmw_saved;

static void park(void){ sem_post(&ctl); sem_wait(&T[me].go); }
/* Plain (un-hooked) stores of a translation unit compiled with -fsanitize=thread and linked with plain_hooks.c instead of the sanitizer runtime: inside a range
   registered with vs_plain_track() such a store is a scheduling point and goes through the store buffer like a hooked store (event "store ... mo=9").  The
   callback runs just before the store instruction, so the value is picked up at the thread's next callback, hook or note (no other thread runs in between). */
static struct { const char *base; size_t sz; } ptrk[16]; static int nptrk;
void vs_plain_track(const void *p, size_t sz){ ptrk[nptrk].base=p; ptrk[nptrk].sz=sz; nptrk++; }
static __thread struct { void *addr; size_t sz; unsigned long old; int active; } pp;
static void plain_settle(void){
	if(!pp.active) return; pp.active=0;
	unsigned long v=0; memcpy(&v,pp.addr,pp.sz);
	char l[64],vs[64]; vs_ploc(l,pp.addr); pval(vs,v,pp.sz); printf("%d store %s v=%s mo=9\n", me, l, vs);
	if(vs_tso){
		if(T[me].nbuf>=MAXBUF){ printf("BUG store buffer overflow\n"); fflush(stdout); _exit(6); }
		struct sbent *e=&T[me].buf[T[me].nbuf++]; e->addr=pp.addr; e->sz=pp.sz; e->v=v; e->mo=9;
		int i=cm_find(pp.addr); if(i<0){ for(i=0;i<ncm;i++) if(CM[i].npend==0) break; if(i==ncm) ncm++; CM[i].addr=pp.addr; CM[i].sz=pp.sz; CM[i].v=pp.old; CM[i].npend=0; }
		CM[i].npend++; } }
static void yield_point(int needs_empty);
void vh_plain_write(void *addr, size_t sz){
	if(me<0) return; plain_settle(); if(noyield||!nptrk) return;
	int hit=0; for(int i=0;i<nptrk;i++) if((const char*)addr>=ptrk[i].base && (const char*)addr<ptrk[i].base+ptrk[i].sz) hit=1; if(!hit) return;
	if(sz>8){ printf("BUG plain store of %lu bytes into a tracked range\n",(unsigned long)sz); return; }
	yield_point(0); chk_dead(addr);
	pp.addr=addr; pp.sz=sz; pp.old=0; memcpy(&pp.old,addr,sz); pp.active=1; }
/* scheduling point; needs_empty: the action about to be performed requires an empty own buffer */
static void yield_point(int needs_empty){
	if(me<0) return; plain_settle(); if(noyield) return;
	T[me].needs_empty = needs_empty && vs_strict;
	park();
	while(T[me].sig_pending){
		int ne=T[me].needs_empty; pthread_mutex_t *wm=T[me].want_mutex;
		T[me].sig_pending=0; T[me].want_mutex=0; printf("%d signal\n", me);
		if(sig_handler) sig_handler(me);
		printf("%d sigreturn\n", me);
		T[me].needs_empty=ne; T[me].want_mutex=wm;
		park();
	}
	T[me].steps++;
	if(needs_empty) drain(me);   /* no-op in strict mode */
}
/* quiet section: hooks neither yield nor log (used for per-thread set-up that must not be scheduled) */
void vs_quiet_begin(void){ if(me>=0){ plain_settle(); noyield++; } }
void vs_quiet_end(void){ if(me>=0) noyield--; }
void vs_atomic_begin(void){ if(me>=0){ yield_point(1); noyield++; } }
void vs_atomic_end(void){ if(me>=0) noyield--; }

void vh_pre(enum vk k, const void *addr, size_t sz, unsigned long a, unsigned long b, int mo){
	if(me<0) return;
	plain_settle();
	if(noyield){ if(addr) rmw_saved=rmw_begin(addr,sz,&rmw_idx); else rmw_idx=-1; return; }
	int ne = !(k==VK_RELAX||k==VK_SLEEP||k==VK_CALL||k==VK_RET);
	yield_point(ne);
	if(addr){ chk_dead(addr); rmw_saved=rmw_begin(addr,sz,&rmw_idx); } else rmw_idx=-1;
	char l[64],va[64],vb[64]; vs_ploc(l,addr); pval(va,a,sz); pval(vb,b,sz);
	if(k==VK_CAS) printf("%d %s %s exp=%s new=%s mo=%d", me, K[k], l, va, vb, mo);
	else if(k==VK_MB||k==VK_RELAX||k==VK_SLEEP) printf("%d %s", me, K[k]);
	else printf("%d %s %s v=%s mo=%d", me, K[k], l, va, mo);
	if(k==VK_MB||k==VK_RELAX||k==VK_SLEEP||k==VK_CALL||k==VK_RET) printf("\n");
}
void vh_post(enum vk k, const void *addr, size_t sz, unsigned long res){
	if(me<0) return; if(addr) rmw_end(addr,sz,rmw_idx,rmw_saved); if(noyield) return;
	char v[64]; pval(v,res,sz); if(k==VK_XCHG||k==VK_CAS||k==VK_ADDRET) printf(" -> %s\n", v); else printf("\n"); }
void vh_mb(void){ if(me>=0) vh_pre(VK_MB,0,0,0,0,0); __asm__ __volatile__ ("mfence":::"memory"); }
unsigned long vh_load(const void *addr, size_t sz, int mo){
	unsigned long v=0;
	if(me<0){ memcpy(&v,addr,sz); return v; }
	yield_point(0);
	int hit=0; for(int i=T[me].nbuf-1;i>=0;i--) if(T[me].buf[i].addr==addr){ v=T[me].buf[i].v; hit=1; break; }
	if(!hit) v=committed_read(addr,sz);
	if(noyield) return v;
	chk_dead(addr);
	char l[64],vs[64]; vs_ploc(l,addr); pval(vs,v,sz); printf("%d load %s mo=%d -> %s%s\n", me, l, mo, vs, hit?" (fwd)":"");
	return v;
}
void vh_store(void *addr, size_t sz, unsigned long v, int mo){
	if(me<0){ memcpy(addr,&v,sz); return; }
	yield_point(0);
	if(!noyield){ chk_dead(addr); char l[64],vs[64]; vs_ploc(l,addr); pval(vs,v,sz); printf("%d store %s v=%s mo=%d\n", me, l, vs, mo); }
	if(vs_tso && !noyield){
		if(T[me].nbuf>=MAXBUF){ printf("BUG store buffer overflow\n"); fflush(stdout); _exit(6); }
		struct sbent *e=&T[me].buf[T[me].nbuf++]; e->addr=addr; e->sz=sz; e->v=v; e->mo=mo;
		int i=cm_find(addr); if(i<0){ for(i=0;i<ncm;i++) if(CM[i].npend==0) break; if(i==ncm) ncm++; CM[i].addr=addr; CM[i].sz=sz; CM[i].v=0; memcpy(&CM[i].v,addr,sz); CM[i].npend=0; }
		CM[i].npend++; memcpy(addr,&v,sz); }
	else { int i=cm_find(addr); if(i>=0) CM[i].v=v; else memcpy(addr,&v,sz); }
}
int vh_mutex_lock(pthread_mutex_t *m){
	if(me<0) return 0;
	int i=mx_idx(m);
	if(noyield){ if(MX[i].owner!=-1 && MX[i].owner!=me){ printf("BUG atomic section blocks on mutex\n"); fflush(stdout); _exit(4);} MX[i].owner=me; return 0; }
	T[me].want_mutex=m; yield_point(1); T[me].want_mutex=0;
	if(MX[i].owner!=-1){ printf("BUG mutex granted while busy\n"); fflush(stdout); _exit(4);} MX[i].owner=me;
	char l[64]; vs_ploc(l,m); printf("%d lock %s\n", me, l); return 0; }
int vh_mutex_trylock(pthread_mutex_t *m){
	if(me<0) return 0;
	int i=mx_idx(m); yield_point(1);
	char l[64]; vs_ploc(l,m);
	if(MX[i].owner!=-1){ printf("%d trylock %s -> busy\n", me, l); return EBUSY; }
	MX[i].owner=me; printf("%d trylock %s -> ok\n", me, l); return 0; }
/* a scenario may declare one mutex whose critical sections are outside the property under test as far as signals go: a signal chosen while the thread
   holds it stays pending until the unlock (as if the code had blocked signals there) */
static pthread_mutex_t *sigdefer_mx;
static int (*sigdefer_pred)(int);
void vs_defer_signals_while_holding(pthread_mutex_t *m){ sigdefer_mx=m; }
/* ... and only for the threads the predicate selects (e.g. exiting threads) */
void vs_defer_signals_only_if(int (*pred)(int)){ sigdefer_pred=pred; }
static int holds_sigdefer(int t){ return sigdefer_mx && MX[mx_idx(sigdefer_mx)].owner==t && (!sigdefer_pred || sigdefer_pred(t)); }
int vh_mutex_unlock(pthread_mutex_t *m){
	if(me<0) return 0;
	int i=mx_idx(m);
	if(noyield){ MX[i].owner=-1; return 0; }
	yield_point(1); MX[i].owner=-1;
	char l[64]; vs_ploc(l,m); printf("%d unlock %s\n", me, l);
	if(m==sigdefer_mx && !T[me].masked && T[me].sig_deferred && sig_handler){ T[me].sig_deferred=0; printf("%d signal (was pending)\n", me); sig_handler(me); printf("%d sigreturn\n", me); }
	return 0; }
/* condition variables: wait = release the mutex and block until a broadcast (or a spurious wake-up choice), then re-acquire */
int vh_cond_wait(pthread_cond_t *c, pthread_mutex_t *m){
	if(me<0) return 0;
	int i=mx_idx(m); char l[64]; vs_ploc(l,c);
	yield_point(1); MX[i].owner=-1; printf("%d cond_wait %s\n", me, l);
	T[me].want_cond=c; T[me].woken=0; yield_point(0); T[me].want_cond=0;
	T[me].want_mutex=m; yield_point(1); T[me].want_mutex=0; MX[i].owner=me; printf("%d cond_woken %s\n", me, l); return 0; }
int vh_cond_broadcast(pthread_cond_t *c){
	if(me<0) return 0;
	yield_point(1); int n=0; for(int t=0;t<NT;t++) if(T[t].want_cond==c && !T[t].woken){ T[t].woken=1; n++; }
	char l[64]; vs_ploc(l,c); printf("%d cond_broadcast %s -> %d\n", me, l, n); return 0; }
int vs_membarrier_available = 1;
int vs_futex_enosys = 0;
long vh_syscall(long nr, ...){
	va_list ap; va_start(ap,nr);
	if(nr==__NR_membarrier){ int cmd=va_arg(ap,int); va_end(ap);
		if(cmd==0) return vs_membarrier_available ? ((1<<3)|(1<<4)) : 0; /* QUERY */
		if(cmd==(1<<4)) return 0;  /* REGISTER_PRIVATE_EXPEDITED */
		if(me>=0 && !noyield){ yield_point(0); } drain_all(); if(me>=0 && !noyield) printf("%d membarrier\n", me); return 0; }
	if(nr==__NR_futex){ int32_t *ua=va_arg(ap,int32_t*); int op=va_arg(ap,int); int32_t val=va_arg(ap,int32_t); va_end(ap);
		char l[64]; vs_ploc(l,ua);
		if(me<0) return 0;
		if(vs_futex_enosys){ yield_point(1); printf("%d futex %s -> ENOSYS\n", me, l); errno=ENOSYS; return -1; }
		if(op==FUTEX_WAIT && T[me].enosys_next){ T[me].enosys_next=0; yield_point(1); printf("%d futex_wait %s val=%d -> ENOSYS (spurious)\n", me, l, val); errno=ENOSYS; return -1; }   /* fault choice '~t': sys_futex FUTEX_WAIT spuriously returns ENOSYS (mips / parisc signal restart bug) while wakes reach the kernel */
		if(op==FUTEX_WAIT){ yield_point(1);
			if((int32_t)committed_read(ua,4)!=val){ printf("%d futex_wait %s val=%d -> EAGAIN\n", me,l,val); errno=EAGAIN; return -1; }
			printf("%d futex_wait %s val=%d -> sleep\n", me,l,val);
			T[me].want_futex=ua; T[me].want_val=val; T[me].woken=0; T[me].wake_reason=0; yield_point(0); T[me].want_futex=0;
			if(T[me].wake_reason==2){ printf("%d futex_eintr %s\n", me,l); errno=EINTR; return -1; }
			printf("%d futex_woken %s\n", me,l); return 0; }
		else { yield_point(1); int n=0;
			for(int t=0;t<NT && n<val;t++) if(T[t].want_futex==ua && !T[t].woken){ T[t].woken=1; n++; }
			T[me].wakes++;
			printf("%d futex_wake %s -> %d\n", me,l,n); return n; } }
	va_end(ap); printf("unexpected syscall %ld\n", nr); fflush(stdout); _exit(5); }
/* signal mask emulation: a signal chosen by the schedule while the thread has it blocked stays pending and is delivered when the mask is lifted */
#undef pthread_sigmask
int vh_pthread_sigmask(int how, const sigset_t *set, sigset_t *old){
	if(me<0) return pthread_sigmask(how,set,old);
	if(!noyield){ yield_point(0); printf("%d sigmask %d\n", me, how); }      /* a signal can still arrive right before the mask changes */
	if(old) *old=T[me].mask;
	if(set){ if(how==SIG_SETMASK) T[me].mask=*set; else for(int s=1;s<32;s++) if(sigismember(set,s)){ if(how==SIG_BLOCK) sigaddset(&T[me].mask,s); else sigdelset(&T[me].mask,s); } }
	T[me].masked = sigismember(&T[me].mask,SIGUSR1);
	if(!T[me].masked && T[me].sig_deferred && sig_handler){ T[me].sig_deferred=0; printf("%d signal (was pending)\n", me); sig_handler(me); printf("%d sigreturn\n", me); }
	return 0; }
int vh_poll(void *fds, unsigned long n, int ms){ (void)fds; (void)n; (void)ms; vh_pre(VK_SLEEP,0,0,0,0,0); return 0; }
int vh_usleep(unsigned us){ (void)us; vh_pre(VK_SLEEP,0,0,0,0,0); return 0; }
void vs_call(const char *op, unsigned long a){ if(me>=0) plain_settle(); if(me<0||noyield) return; yield_point(0); char v[64]; pval(v,a,8); printf("%d call %s %s\n", me, op, v); }
void vs_ret(const char *op, unsigned long r){ if(me>=0) plain_settle(); if(me<0||noyield) return; yield_point(0); T[me].rets++; char v[64]; pval(v,r,8); printf("%d ret %s %s\n", me, op, v); }
void vs_note(const char *fmt, ...){ if(me>=0) plain_settle(); va_list ap; va_start(ap,fmt); printf("%d note ", me); vprintf(fmt,ap); printf("\n"); va_end(ap); }

static int enabled(int t){
	if(!T[t].alive || T[t].frozen) return 0;
	if(T[t].needs_empty && T[t].nbuf) return 0;
	if(T[t].want_mutex && MX[mx_idx(T[t].want_mutex)].owner!=-1) return 0;
	if(T[t].want_futex && !T[t].woken) return 0;
	if(T[t].want_cond && !T[t].woken) return 0;
	if(T[t].want_join>=0 && T[T[t].want_join].alive) return 0;
	return 1; }
/* the fork child: every library-created thread alive now ceases to exist (it is never scheduled again) */
void vs_freeze_lib_threads(void){ for(int t=0;t<NT;t++) if(T[t].alive && !T[t].is_app){ T[t].frozen=1; printf("%d frozen\n", t); } }
int vs_is_app(int t){ return t>=0 && t<NT && T[t].is_app; }
static void *tmain(void *arg){ int t=(int)(long)arg; me=t;
	if(!T[t].fn){ sem_post(&born); sem_wait(&T[t].go); T[t].steps++; printf("%d start\n",t); }
	if(T[t].fn) T[t].fn(t); else T[t].pfn(T[t].parg);
	plain_settle(); T[t].alive=0; T[t].needs_empty=0; printf("%d exit\n",t); sem_post(&ctl); return 0; }
static int spawn_common(void){ static int inited; if(!inited){ sem_init(&born,0,0); sem_init(&ctl,0,0); inited=1; }
	if(NT>=MAXT){ printf("BUG too many threads\n"); fflush(stdout); _exit(6); }
	int t=NT++; T[t].alive=1; T[t].want_join=-1; sem_init(&T[t].go,0,0); return t; }
void vs_spawn(void (*fn)(int)){ int t=spawn_common(); T[t].fn=fn; T[t].is_app=1; pthread_create(&T[t].tid,0,tmain,(void*)(long)t); sem_wait(&ctl); }
/* fault choice for thread creation: bit k of vs_create_fail_mask makes the k-th pthread_create of the run fail with EAGAIN */
unsigned long vs_create_fail_mask; static int ncreate;
int vh_pthread_create(pthread_t *tid, const pthread_attr_t *a, void *(*fn)(void *), void *arg){
	if(me<0) return pthread_create(tid,a,fn,arg);
	yield_point(0); drain_logged(me);      /* pthread_create synchronises: everything the creator stored before is visible to the new thread */
	{ int k=ncreate++; if(k<64 && ((vs_create_fail_mask>>k)&1)){ printf("%d create_fail EAGAIN\n",me); return 11; } } int t=spawn_common(); T[t].fn=0; T[t].pfn=fn; T[t].parg=arg; pthread_create(&T[t].tid,0,tmain,(void*)(long)t); sem_wait(&born); *tid=T[t].tid; { char v[64]; pval(v,(unsigned long)arg,8); printf("%d create %d arg=%s\n",me,t,v); } return 0; }
void vh_pthread_exit(void *r){ if(me>=0){ yield_point(0); T[me].alive=0; T[me].needs_empty=0; printf("%d exit\n",me); sem_post(&ctl);} pthread_exit(r); }
int vh_pthread_join(pthread_t tid, void **ret){
	if(me<0) return 0;
	int t=-1; for(int i=0;i<NT;i++) if(pthread_equal(T[i].tid,tid)) t=i; T[me].want_join=t; yield_point(0); T[me].want_join=-1; if(t>=0) drain_logged(t);   /* pthread_join synchronises with the end of the joined thread: all its stores are visible now */
	printf("%d join %d\n",me,t); if(ret)*ret=0; return 0; }

static void on_abort(int sig){ (void)sig; printf("ABORT\n"); fflush(stdout); _exit(7); }
void vs_run(const char *sched){
	const char *p=sched; int rr=0; long steps=0;
	signal(SIGABRT,on_abort); signal(SIGSEGV,on_abort);
	for(;;){
		int alive=0; for(int t=0;t<NT;t++) alive+=T[t].alive+T[t].nbuf; if(!alive) break;
		int c; int rt=-1; if(*p) c=*p++; else { if(vs_end_with_apps){ int app=0; for(int u=0;u<NT;u++) app+=T[u].alive&&T[u].is_app; if(!app){ printf("APPS DONE\n"); break; } } rt=rr++%NT; c = T[rt].nbuf ? 'a' : '0'; }      /* after the schedule: round robin over all threads (ids may exceed 9) */
		if(rt>=0 ? c=='a' : (c>='a'&&c<'a'+NT)){ int t = rt>=0 ? rt : c-'a'; if(T[t].nbuf){ char l[64], v[64]; vs_ploc(l,T[t].buf[0].addr); pval(v,T[t].buf[0].v,T[t].buf[0].sz); commit_one(t); printf("%d flush %s v=%s\n", t, l, v);} continue; }
		if(c>='A'&&c<'A'+NT){ int t=c-'A'; if((T[t].want_futex||T[t].want_cond)&&!T[t].woken){ T[t].woken=1; T[t].wake_reason=1; printf("%d spurious\n",t);} continue; }
		if(c=='~'){ if(*p){ int t=*p++-'0'; if(t>=0&&t<NT) T[t].enosys_next=1; } continue; }
		if(c=='!'){ if(*p){ int t=*p++-'0'; if(t>=0&&t<NT&&T[t].want_futex&&!T[t].woken){ T[t].woken=1; T[t].wake_reason=2; } } continue; }
		if(c=='^'){ if(*p){ int t=*p++-'0'; if(t>=0&&t<NT&&T[t].alive&&sig_handler&&T[t].want_join<0&&!(T[t].want_futex&&T[t].woken)){ if(T[t].masked || holds_sigdefer(t)){ T[t].sig_deferred=1; } else {
				/* a thread asleep in FUTEX_WAIT runs the handler and its system call then returns EINTR (handler installed without SA_RESTART) */
				if(T[t].want_futex){ T[t].woken=1; T[t].wake_reason=2; }
				T[t].sig_pending=1; sem_post(&T[t].go); sem_wait(&ctl);} } } continue; }
		if(c=='}'){ /* solo run with report (C17): thread t alone until its current operation returns; at most 400 own steps */
			if(*p){ int t=*p++-'0'; if(t>=0&&t<NT&&T[t].alive){ long r0=T[t].rets, s0=T[t].steps; int guard=0; const char *why="ok";
				while(T[t].alive && T[t].rets==r0){
					if(guard++>=400){ why="LIMIT"; break; }
					if(T[t].needs_empty && T[t].nbuf){ commit_one(t); continue; }
					if(!enabled(t)){ why="blocked"; break; }
					sem_post(&T[t].go); sem_wait(&ctl); }
				printf("%d solo %ld %s\n", t, T[t].steps-s0, why); } }
			continue; }
		if(c=='@'){ /* run thread t until it has issued its next FUTEX_WAKE (stop right behind it), flushing its own buffer when needed; stops when t blocks */
			if(*p){ int t=*p++-'0'; if(t>=0&&t<NT){ long w0=T[t].wakes; int guard=0;
				while(T[t].alive && T[t].wakes==w0 && guard++<5000){
					if(T[t].needs_empty && T[t].nbuf){ char l[64], v[64]; vs_ploc(l,T[t].buf[0].addr); pval(v,T[t].buf[0].v,T[t].buf[0].sz); commit_one(t); printf("%d flush %s v=%s\n", t, l, v); continue; }
					if(!enabled(t)) break;
					sem_post(&T[t].go); sem_wait(&ctl); if(++steps>vs_step_limit){ printf("STEP LIMIT\n"); fflush(stdout); _exit(3);} } } }
			continue; }
		if(c=='>'){ /* run thread t until it completes its current operation (next ret event), flushing its own buffer when needed */
			if(*p){ int t=*p++-'0'; if(t>=0&&t<NT){ long r0=T[t].rets; int guard=0;
				while(T[t].alive && T[t].rets==r0 && guard++<5000){
					if(T[t].needs_empty && T[t].nbuf){ char l[64], v[64]; vs_ploc(l,T[t].buf[0].addr); pval(v,T[t].buf[0].v,T[t].buf[0].sz); commit_one(t); printf("%d flush %s v=%s\n", t, l, v); continue; }
					if(!enabled(t)) break;
					sem_post(&T[t].go); sem_wait(&ctl); if(++steps>vs_step_limit){ printf("STEP LIMIT\n"); fflush(stdout); _exit(3);} } } }
			continue; }
		int t = rt>=0 ? rt : c-'0';
		if(t<0||t>=NT||!enabled(t)) {
			if(!*p){ int any=0; for(int u=0;u<NT;u++) any+=enabled(u)+T[u].nbuf;
				if(!any){ int app=0; for(int u=0;u<NT;u++) if(T[u].alive && T[u].is_app) app++;
					if(app){ printf("DEADLOCK\n"); fflush(stdout); _exit(2);} else { printf("QUIESCENT\n"); fflush(stdout); return; } } }
			continue; }
		sem_post(&T[t].go); sem_wait(&ctl);
		if(++steps>vs_step_limit){ printf("STEP LIMIT\n"); fflush(stdout); _exit(3);} }
	fflush(stdout);
}
