/* call_rcu / rcu_barrier scenario: real src/urcu.c + urcu-call-rcu-impl.h (memb flavor) under the controlled scheduler.
   usage: scen_callrcu PROG SCHED ; ops per thread:
     C<i> call_rcu(object i)   c<i> call_rcu(object i) whose callback re-enqueues object i+1   B rcu_barrier()
     ( ) read-side section     H create and install a per-thread helper   K uninstall and free the per-thread helper
     A create a helper and install it as the per-CPU helper of CPU 0   Z free_all_cpu_call_rcu_data()
     S start_poll_synchronize_rcu() (the handle becomes the thread's current one)   P poll_state_synchronize_rcu(current handle)   [C14: the real poll code on the real helper]
     F call_rcu_before_fork(); [the point at which fork() would copy the address space: the pending callbacks of every helper are printed]; call_rcu_after_fork_parent()
   Helper threads are created by the library (pthread_create is interposed) and scheduled like any other thread. */
#define RCU_MEMBARRIER
#define _GNU_SOURCE
#include <stdlib.h>
#include <sched.h>
/* every scenario thread "runs on CPU 0": call_rcu() picks the per-CPU helper of CPU 0 when one is installed (op A) */
#define sched_getcpu() 0
/* allocations of the library are named (and never recycled) so that helper structures have canonical names in the trace */
void *vs_named_malloc(size_t sz); void vs_named_free(void *p); void *vs_named_calloc(size_t n, size_t sz);
#define malloc(x) vs_named_malloc(x)
#define free(x) vs_named_free(x)
#define calloc(n,s) vs_named_calloc(n,s)
#include "/repo/src/urcu.c"
#undef malloc
#undef free
#undef calloc
#include "sched.h"
#include <string.h>
#define MAXTH 6
#define NO 10
struct obj { struct rcu_head h; int id; int ran; int chain; };
static struct obj O[NO];
static char *prog[MAXTH]; static int nprog;
static char tn[MAXTH+8][8]; static char crn[8][8]; static struct call_rcu_data *crds[8]; static int ncrd;
static void name_crd(struct call_rcu_data *c){ (void)c; }
static char mnames[64][8]; static int nm;
static struct urcu_gp_poll_state PH[MAXTH]; static int PHn[MAXTH];      /* last polling handle of each thread (polled once more at the end of the run) */
static void *scen_reader[MAXTH]; /* reader records of the scenario threads: anything else in the registry at a fork point belongs to a helper */
void *vs_named_malloc(size_t sz){ void *p=calloc(1,sz<16?16:sz);
	if(sz==sizeof(struct call_rcu_data) && ncrd<8){ sprintf(crn[ncrd],"crd%d",ncrd); vs_region(p,sz,crn[ncrd]); crds[ncrd++]=p; }
	else if(nm<64){ sprintf(mnames[nm],"m%d",nm); vs_region(p,sz<16?16:sz,mnames[nm]); nm++; }
	return p; }
void vs_retire(const void *p, size_t sz);
/* the completion object of rcu_barrier() (reference-counted: the caller and every helper's marker hold one reference): named, and quarantined when released */
static void *cmps[32]; static int ncmp; static char cmpn[32][8];
void *vs_named_calloc(size_t n, size_t sz){ void *p=calloc(n,sz);
	if(n==1 && sz==sizeof(struct call_rcu_completion) && ncmp<32){ sprintf(cmpn[ncmp],"cmp%d",ncmp); vs_region(p,sz,cmpn[ncmp]); cmps[ncmp++]=p; }
	return p; }
/* memory is never recycled; a released call_rcu_data is quarantined: every later access to it is reported (UAF) */
void vs_named_free(void *p){ for(int k=0;k<ncrd;k++) if(crds[k]==p) vs_retire(p,sizeof(struct call_rcu_data));
	for(int k=0;k<ncmp;k++) if(cmps[k]==p){ vs_note("freecmp %d",k); vs_retire(p,sizeof(struct call_rcu_completion)); } }
static void cb(struct rcu_head *h){ struct obj *o=caa_container_of(h,struct obj,h);
	vs_call("cb",o->id); o->ran++;
	if(o->chain){ struct obj *n=&O[o->id+1]; vs_quiet_begin(); name_crd(get_call_rcu_data()); vs_quiet_end(); vs_call("call_rcu",n->id); call_rcu(&n->h,cb); vs_ret("call_rcu",n->id); }
	vs_ret("cb",o->id); }
static void body(int t){
	sprintf(tn[t],"rd%d",t); vs_region(&URCU_TLS(rcu_reader).ctr,sizeof(unsigned long),tn[t]);
	scen_reader[t]=&URCU_TLS(rcu_reader);
	vs_quiet_begin(); rcu_register_thread(); vs_quiet_end();
	int depth=0; struct urcu_gp_poll_state ph; int nph=0; memset(&ph,0,sizeof ph);
	for(char *p=prog[t]; *p; p++){
		switch(*p){
		case 'S': vs_call("start",nph); ph=start_poll_synchronize_rcu(); vs_ret("start",ph.grace_period_id); nph++; PH[t]=ph; PHn[t]=nph; break;
		case 'P': if(nph){ vs_call("poll",nph-1); int r=poll_state_synchronize_rcu(ph); vs_ret("poll",r); } break;
		case 'C': case 'c': { struct obj *o=&O[p[1]-'0']; o->chain=(*p=='c'); p++;
			/* resolving (and possibly creating) the helper is library code too, but naming its region must not be scheduled */
			struct call_rcu_data *c=get_call_rcu_data(); vs_quiet_begin(); name_crd(c); vs_quiet_end();
			vs_call("call_rcu",o->id); call_rcu(&o->h,cb); vs_ret("call_rcu",o->id); break; }
		case 'A': { vs_call("mkcpuhelper",0); struct call_rcu_data *c=create_call_rcu_data(0,0); int r=set_cpu_call_rcu_data(0,c); if(r) call_rcu_data_free(c); vs_ret("mkcpuhelper",(unsigned long)r); break; }
		case 'Z': vs_call("freecpuhelpers",0); free_all_cpu_call_rcu_data(); vs_ret("freecpuhelpers",0); break;
		case 'F': { vs_call("beforefork",0); call_rcu_before_fork(); vs_ret("beforefork",0);
			vs_quiet_begin();
			for(int k=0;k<ncrd;k++){ char buf[256]; int l=0; buf[0]=0; struct cds_wfcq_node *n=crds[k]->cbs_head.node.next; int g=0;
				while(n && g++<40){ struct rcu_head *rh=caa_container_of(n,struct rcu_head,next); if((char*)rh>=(char*)O && (char*)rh<(char*)(O+NO)) l+=sprintf(buf+l,"%d,",((struct obj*)rh)->id); else l+=sprintf(buf+l,"x,"); n=n->next; }
				vs_note("forkq %d flags %lu : %s",k,crds[k]->flags,buf); }
			{ /* what fork() would copy of the reader registry: the lock must be free and no helper registered */
			  int foreign=0; struct urcu_reader *rr; cds_list_for_each_entry(rr,&registry,node){ int mine=0; for(int k=0;k<MAXTH;k++) if(scen_reader[k]==(void*)rr) mine=1; if(!mine) foreign++; }
			  vs_note("forkreg owner %d foreign %d napp %d", vs_mutex_owner(&rcu_registry_lock), foreign, nprog); }
			vs_quiet_end(); vs_note("forkpoint");
			vs_call("afterfork",0); call_rcu_after_fork_parent(); vs_ret("afterfork",0); break; }
		case 'B': vs_call("barrier",0); rcu_barrier(); vs_ret("barrier",0); break;
		case '(': vs_call("lock",depth); rcu_read_lock(); vs_ret("lock",0); depth++; break;
		case ')': vs_call("unlock",depth); rcu_read_unlock(); vs_ret("unlock",0); depth--; break;
		case 'H': { vs_call("mkhelper",0); struct call_rcu_data *c=create_call_rcu_data(0,-1); set_thread_call_rcu_data(c); vs_quiet_begin(); name_crd(c); vs_quiet_end(); vs_ret("mkhelper",(unsigned long)c); break; }
		case 'K': { struct call_rcu_data *c=get_thread_call_rcu_data(); vs_call("freehelper",(unsigned long)c); set_thread_call_rcu_data(NULL); call_rcu_data_free(c); vs_ret("freehelper",0); break; }
		}
	}
	rcu_unregister_thread();
}
int main(int argc,char**argv){
	static char obuf[1<<22]; setvbuf(stdout,obuf,_IOFBF,sizeof obuf);
	if(argc<3) return 9;
	for(char *s=strtok(argv[1],"/"); s && nprog<MAXTH; s=strtok(0,"/")) prog[nprog++]=s;
	for(int i=0;i<NO;i++) O[i].id=i;
	rcu_init();
	vs_region(&rcu_gp.ctr,8,"gp.ctr"); vs_region(&rcu_gp.futex,4,"gp.futex"); vs_region(&rcu_gp_lock,sizeof rcu_gp_lock,"gp_lock"); vs_region(&rcu_registry_lock,sizeof rcu_registry_lock,"reg_lock");
	vs_region(&gp_waiters,sizeof gp_waiters,"waiters"); vs_region(&call_rcu_mutex,sizeof call_rcu_mutex,"crmutex"); vs_region(O,sizeof O,"O");
	printf("- layout crd flags %d\n",(int)offsetof(struct call_rcu_data,flags));
	for(int i=0;i<nprog;i++) vs_spawn(body);
	vs_run(argv[2]);
	for(int i=0;i<NO;i++) printf("- ran %d %d\n", i, O[i].ran);
	for(int t=0;t<MAXTH;t++) if(PHn[t]) printf("- finalpoll %d %d\n", t, (int)poll_state_synchronize_rcu(PH[t]));
	fflush(stdout); _exit(0); }
