#define RCU_MEMBARRIER
#include "urcu_a2.c"
#include "sched.h"
struct obj { struct rcu_head h; int id; int ran; };
static struct obj O[6];
static void cb(struct rcu_head *h){ struct obj *o=caa_container_of(h,struct obj,h); o->ran++; printf("%d cb %d\n", -1, o->id); }
static char tn[8][8];
static void treg(int t){ sprintf(tn[t],"rd%d",t); vs_region(&URCU_TLS(rcu_reader),sizeof(struct urcu_reader),tn[t]); }
static void caller(int t){ treg(t); rcu_register_thread();
	for(int i=0;i<2;i++){ struct obj *o=&O[t*2+i]; o->id=t*2+i; vs_call("call_rcu",o->id); call_rcu(&o->h,cb); vs_ret("call_rcu",0); }
	vs_call("barrier",0); rcu_barrier(); vs_ret("barrier",0);
	for(int i=0;i<2;i++) if(O[t*2+i].ran!=1) printf("VIOLATION barrier returned but cb %d ran %d times\n", t*2+i, O[t*2+i].ran);
	rcu_unregister_thread(); }
static void reader(int t){ treg(t); rcu_register_thread(); for(int i=0;i<3;i++){ rcu_read_lock(); rcu_read_unlock(); } rcu_unregister_thread(); }
int main(int argc,char**argv){ setvbuf(stdout,0,_IOLBF,0);
	vs_region(&rcu_gp.ctr,8,"gp.ctr"); vs_region(&rcu_gp.futex,4,"gp.futex"); vs_region(&rcu_gp_lock,sizeof rcu_gp_lock,"gp_lock"); vs_region(&rcu_registry_lock,sizeof rcu_registry_lock,"reg_lock");
	vs_region(&gp_waiters,sizeof gp_waiters,"waiters"); vs_region(&call_rcu_mutex,sizeof call_rcu_mutex,"crmutex"); vs_region(O,sizeof O,"O");
	vs_spawn(caller); vs_spawn(caller); vs_spawn(reader);
	vs_run(argc>1?argv[1]:"");
	for(int i=0;i<4;i++) if(O[i].ran!=1) printf("VIOLATION cb %d ran %d times\n", i, O[i].ran);
	fflush(stdout); _exit(0); }
