/* rculfhash scenario: real src/rculfhash.c (order allocator, size-2 table, no resize) under the controlled scheduler.
   usage: scen_lfht PROG SCHED ; ops: A<i> add entry i, U<i> add_unique entry i, L<i> lookup (hash,key) of entry i, X del the node found by the last lookup,
   P<i> cds_lfht_replace of the node found by the last lookup (through the iterator that lookup left) by entry i */
#define _LGPL_SOURCE
#include <stdbool.h>
#include <string.h>
#include <urcu/flavor.h>
#include <urcu/rculfhash.h>
#include "lfht_flavor.h"
#define rcu_flavor vflavor
#include "/repo/src/rculfhash.c"
#undef _LGPL_SOURCE
#include "sched.h"
static void f_lock(void){} static void f_unlock(void){} static void f_sync(void){ vs_call("sync",0); }
static void f_call_rcu(struct rcu_head *h, void (*fn)(struct rcu_head *)){ fn(h); }
struct ent { struct cds_lfht_node n; int key; };
#define NE 8
static const unsigned long EH[NE] = {5,5,5,7,4,5,7,4};
static const int EK[NE] = {0,1,0,3,4,5,3,4};
static struct ent E[NE]; static struct cds_lfht *ht;
static int match(struct cds_lfht_node *n, const void *k){ return ((struct ent*)n)->key==*(const int*)k; }
#define MAXTH 6
static char *prog[MAXTH]; static int nprog;
static void body(int t){ struct cds_lfht_node *found=0; struct cds_lfht_iter it; it.node=0; it.next=0;
  for(char *p=prog[t]; *p; p++){
	int i = p[1]-'0';
	if(*p=='A'){ p++; vs_call("add",(unsigned long)&E[i]); cds_lfht_add(ht, EH[i], &E[i].n); vs_ret("add",(unsigned long)&E[i]); }
	else if(*p=='U'){ p++; vs_call("add",(unsigned long)&E[i]); struct cds_lfht_node *r=cds_lfht_add_unique(ht, EH[i], match, &E[i].key, &E[i].n); vs_ret("add",(unsigned long)r); }
	else if(*p=='L'){ p++; int k=EK[i]; vs_call("lookup",k); cds_lfht_lookup(ht,EH[i],match,&k,&it); found=cds_lfht_iter_get_node(&it); vs_ret("lookup",(unsigned long)found); }
	else if(*p=='P'){ p++; vs_call("replace",(unsigned long)it.node); int r=cds_lfht_replace(ht,&it,EH[i],match,&E[i].key,&E[i].n); vs_ret("replace",(unsigned long)(r==0?0:r==-ENOENT?2:3)); }
	else if(*p=='X'){ vs_call("del",(unsigned long)found); int r=cds_lfht_del(ht,found); vs_ret("del",r); } } }
int main(int argc,char**argv){
  static char obuf[1<<20]; setvbuf(stdout,obuf,_IOFBF,sizeof obuf);
  if(argc<3) return 9;
  for(char *s=strtok(argv[1],"/"); s && nprog<MAXTH; s=strtok(0,"/")) prog[nprog++]=s;
  for(int i=0;i<NE;i++){ E[i].key=EK[i]; cds_lfht_node_init(&E[i].n); }
  ht=_cds_lfht_new(2,1,4,0,&cds_lfht_mm_order,&vflavor,NULL);
  vs_region(&ht->size,sizeof ht->size,"size"); vs_region(E,sizeof E,"E"); vs_plain_track(E,sizeof E);   /* effective in the build with instrumented plain stores */ vs_region(ht,sizeof *ht,"ht"); vs_region(ht->tbl_order[0],16*1,"b0"); vs_region(ht->tbl_order[1],16,"b1");
  vs_strict=0;
  for(int i=0;i<nprog;i++) vs_spawn(body);
  vs_run(argv[2]);
  long b,a; unsigned long c; cds_lfht_count_nodes(ht,&b,&c,&a); printf("- final count %lu\n",c);
  /* chain dump: every node reachable from bucket 0 with its flags */
  { struct cds_lfht_node *n = ht->tbl_order[0]; printf("- chain");
    while(n){ unsigned long w=(unsigned long)n->next; char nm[32];
      if((char*)n>=(char*)E && (char*)n<(char*)(E+NE)) sprintf(nm,"%d",(int)(3+((struct ent*)n-E))); else sprintf(nm,"b%d", n==ht->tbl_order[0]?0:1);
      printf(" %s:%lu", nm, w&7); n=(struct cds_lfht_node*)(w&~7UL); } printf("\n"); }
  fflush(stdout); _exit(0); }
