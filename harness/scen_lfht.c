#define _LGPL_SOURCE
#include <stdbool.h>
#include <urcu/flavor.h>
#include <urcu/rculfhash.h>
/* harness-provided abstract RCU flavor */
static void f_lock(void); static void f_unlock(void); static int f_ongoing(void){ return 0; }
static void f_qs(void){} static void f_off(void){} static void f_on(void){}
static void f_call_rcu(struct rcu_head *h, void (*fn)(struct rcu_head *)){ fn(h); }
static void f_sync(void); static void f_reg(void){} static void f_unreg(void){}
static void f_barrier(void){} static void f_atfork(struct urcu_atfork *a){ (void)a; }
static const struct rcu_flavor_struct vflavor = {
  .read_lock=f_lock,.read_unlock=f_unlock,.read_ongoing=f_ongoing,.read_quiescent_state=f_qs,
  .update_call_rcu=f_call_rcu,.update_synchronize_rcu=f_sync,.update_defer_rcu=0,
  .thread_offline=f_off,.thread_online=f_on,.register_thread=f_reg,.unregister_thread=f_unreg,
  .barrier=f_barrier,.register_rculfhash_atfork=f_atfork,.unregister_rculfhash_atfork=f_atfork };
#define rcu_flavor vflavor
#include "/repo/src/rculfhash.c"
#undef _LGPL_SOURCE
#include "sched.h"
static void f_lock(void){} static void f_unlock(void){} static void f_sync(void){ vs_call("sync",0); }
struct ent { struct cds_lfht_node n; int key; };
static struct ent E[8]; static struct cds_lfht *ht;
static int match(struct cds_lfht_node *n, const void *k){ return ((struct ent*)n)->key==*(const int*)k; }
static void adder(int t){ for(int i=0;i<2;i++){ struct ent *e=&E[t*2+i]; e->key=t*2+i; f_lock(); vs_call("add",(unsigned long)e); cds_lfht_add(ht, 5 /* all collide */, &e->n); vs_ret("add",0); f_unlock(); } }
static void remover(int t){ for(int i=0;i<4;i++){ int k=i; struct cds_lfht_iter it; f_lock(); vs_call("lookup",k); cds_lfht_lookup(ht,5,match,&k,&it); struct cds_lfht_node *n=cds_lfht_iter_get_node(&it); vs_ret("lookup",(unsigned long)n); { vs_call("del",(unsigned long)n); int r=cds_lfht_del(ht,n); vs_ret("del",r);} f_unlock(); } }
int main(int argc,char**argv){ setvbuf(stdout,0,_IOLBF,0);
  ht=_cds_lfht_new(2,1,4,0,&cds_lfht_mm_order,&vflavor,NULL);
  vs_region(E,sizeof E,"E"); vs_region(ht,sizeof *ht,"ht"); vs_region(ht->tbl_order[0],16*1,"b0"); vs_region(ht->tbl_order[1],16,"b1");
  vs_spawn(adder); vs_spawn(adder); vs_spawn(remover);
  vs_run(argc>1?argv[1]:"");
  long b,a; unsigned long c; cds_lfht_count_nodes(ht,&b,&c,&a); printf("final count %lu\n",c); fflush(stdout); _exit(0); }
