/* legacy wfqueue scenario: real static/wfqueue.h (cds_wfq, the queue with a dummy node) under the controlled scheduler (strict TSO rule).
   usage: scen_wfq PROG SCHED ; ops: E<digit> cds_wfq_enqueue (returns nothing), D = __cds_wfq_dequeue_blocking (callers serialised by the program: only thread 0
   dequeues).  At the end the queue is drained. */
#define _LGPL_SOURCE
#include <urcu/wfqueue.h>
#include <stdio.h>
#include <stdlib.h>
#include <string.h>
#include "sched.h"
#define MAXTH 6
static struct cds_wfq_queue q; static struct cds_wfq_node n[10];
static char *prog[MAXTH]; static int nprog;
static void body(int t){ for(char *p=prog[t]; *p; p++){
	if(*p=='E'){ struct cds_wfq_node *x=&n[p[1]-'0']; p++; cds_wfq_node_init(x); vs_call("enqv",(unsigned long)x); cds_wfq_enqueue(&q,x); vs_ret("enqv",0); }
	else if(*p=='D'){ vs_call("deq",0); struct cds_wfq_node *x=__cds_wfq_dequeue_blocking(&q); vs_ret("deq",(unsigned long)x); } } }
int main(int argc,char**argv){
	static char obuf[1<<20]; setvbuf(stdout,obuf,_IOFBF,sizeof obuf);
	if(argc<3) return 9;
	for(char *s=strtok(argv[1],"/"); s && nprog<MAXTH; s=strtok(0,"/")) prog[nprog++]=s;
	cds_wfq_init(&q);
	vs_region(&q,sizeof q,"q"); vs_region(n,sizeof n,"n"); vs_plain_track(n,sizeof n); vs_plain_track(&q,sizeof q);
	for(int i=0;i<nprog;i++) vs_spawn(body);
	vs_run(argv[2]);
	{ printf("- drain"); struct cds_wfq_node *x; int g=0; while((x=__cds_wfq_dequeue_blocking(&q)) && g++<20) printf(" %d",(int)(x-n)); printf("\n"); }
	fflush(stdout); _exit(0); }
