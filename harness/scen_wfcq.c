#define _LGPL_SOURCE
#include <urcu/wfcqueue.h>
#include <stdio.h>
#include <stdlib.h>
#include "sched.h"
static struct cds_wfcq_head h; static struct cds_wfcq_tail tl; static struct cds_wfcq_node n[4];
static void enq(int t){ for(int i=0;i<2;i++){ struct cds_wfcq_node *x=&n[t*2+i]; vs_call("enq",(unsigned long)x); int r=cds_wfcq_enqueue(&h,&tl,x); vs_ret("enq",r);} }
static void deq(int t){ for(int i=0;i<5;i++){ vs_call("deq",0); struct cds_wfcq_node *x=__cds_wfcq_dequeue_blocking(&h,&tl); vs_ret("deq",(unsigned long)x);} }
int main(int argc,char**argv){
	cds_wfcq_init(&h,&tl); for(int i=0;i<4;i++) cds_wfcq_node_init(&n[i]);
	vs_region(&h.node,sizeof h.node,"head"); vs_region(&tl,sizeof tl,"tail"); vs_region(n,sizeof n,"n");
	vs_spawn(enq); vs_spawn(enq); vs_spawn(deq);
	vs_run(argc>1?argv[1]:"");
	return 0; }
