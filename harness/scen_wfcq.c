/* wfcqueue scenario: real static/wfcqueue.h under the controlled scheduler (strict TSO rule).
   usage: scen_wfcq PROG SCHED ; thread 0 dequeues ('D' = __cds_wfcq_dequeue_blocking), others enqueue ('E<digit>') */
#define _LGPL_SOURCE
#include <urcu/wfcqueue.h>
#include <stdio.h>
#include <stdlib.h>
#include <string.h>
#include "sched.h"
#define MAXTH 6
static struct cds_wfcq_head h; static struct cds_wfcq_tail tl; static struct cds_wfcq_node n[10];
static char *prog[MAXTH]; static int nprog;
static void body(int t){ for(char *p=prog[t]; *p; p++){
	if(*p=='E'){ struct cds_wfcq_node *x=&n[p[1]-'0']; p++; vs_call("enq",(unsigned long)x); int r=cds_wfcq_enqueue(&h,&tl,x); vs_ret("enq",r); }
	else if(*p=='D'){ vs_call("deq",0); struct cds_wfcq_node *x=__cds_wfcq_dequeue_blocking(&h,&tl); vs_ret("deq",(unsigned long)x); } } }
int main(int argc,char**argv){
	static char obuf[1<<20]; setvbuf(stdout,obuf,_IOFBF,sizeof obuf);
	if(argc<3) return 9;
	for(char *s=strtok(argv[1],"/"); s && nprog<MAXTH; s=strtok(0,"/")) prog[nprog++]=s;
	cds_wfcq_init(&h,&tl); for(int i=0;i<10;i++) cds_wfcq_node_init(&n[i]);
	vs_region(&h.node,sizeof h.node,"head"); vs_region(&tl,sizeof tl,"tail"); vs_region(n,sizeof n,"n");
	for(int i=0;i<nprog;i++) vs_spawn(body);
	vs_run(argv[2]);
	fflush(stdout); _exit(0); }
