/* wfcqueue scenario: real static/wfcqueue.h under the controlled scheduler (strict TSO rule).
   usage: scen_wfcq PROG SCHED ; thread 0 dequeues ('D' = __cds_wfcq_dequeue_blocking), others enqueue ('E<digit>').
   Further dequeuer-side operations (oracle only, not in the Coq model): d = __cds_wfcq_dequeue_nonblocking (-1 = WOULDBLOCK),
   w = __cds_wfcq_dequeue_with_state_blocking, s / n = __cds_wfcq_splice_blocking / _nonblocking into a private queue whose content is then
   recorded, e = cds_wfcq_empty, I = __cds_wfcq_for_each_blocking.  The mutex-protected multi-consumer API, usable by any thread: L = cds_wfcq_dequeue_blocking,
   S = cds_wfcq_splice_blocking into a private queue (both take the internal dequeue lock of the source queue).  At the end the queue is drained with bounded non-blocking dequeues. */
#define _LGPL_SOURCE
#include <urcu/wfcqueue.h>
#include <stdio.h>
#include <stdlib.h>
#include <string.h>
#include "sched.h"
#define MAXTH 6
static struct cds_wfcq_head h; static struct cds_wfcq_tail tl; static struct cds_wfcq_node n[10];
static char *prog[MAXTH]; static int nprog;
static void body(int t){ for(char *p=prog[t]; *p; p++){
	if(*p=='E'){ struct cds_wfcq_node *x=&n[p[1]-'0']; p++; vs_call("enq",(unsigned long)x); int r=cds_wfcq_enqueue(&h,&tl,x); vs_ret("enq",r); }
	else if(*p=='D'){ vs_call("deq",0); struct cds_wfcq_node *x=__cds_wfcq_dequeue_blocking(&h,&tl); vs_ret("deq",(unsigned long)x); }
	else if(*p=='L'){ vs_call("deq",0); struct cds_wfcq_node *x=cds_wfcq_dequeue_blocking(&h,&tl); vs_ret("deq",(unsigned long)x); }
	else if(*p=='d'){ vs_call("deqnb",0); struct cds_wfcq_node *x=__cds_wfcq_dequeue_nonblocking(&h,&tl); vs_ret("deqnb",x==CDS_WFCQ_WOULDBLOCK?(unsigned long)-1:(unsigned long)x); }
	else if(*p=='w'){ int st=0; vs_call("deqs",0); struct cds_wfcq_node *x=__cds_wfcq_dequeue_with_state_blocking(&h,&tl,&st); vs_note("state %d",st); vs_ret("deqs",(unsigned long)x); }
	else if(*p=='s'||*p=='n'||*p=='S'){ /* a fresh private queue per splice: its memory is never reused while an old store to it may still sit in the simulated store buffer */
		static struct { struct cds_wfcq_head h; struct cds_wfcq_tail t; } PQ[64]; static int npq; if(npq>=64) continue;
		struct cds_wfcq_head *ph2=&PQ[npq].h; struct cds_wfcq_tail *pt2=&PQ[npq].t; npq++;
		#define h2 (*ph2)
		#define t2 (*pt2)
		struct cds_wfcq_node *x; char buf[256]; int l=0; buf[0]=0; vs_quiet_begin(); cds_wfcq_init(&h2,&t2); vs_quiet_end();
		vs_call(*p!='n'?"splice":"splicenb",0); enum cds_wfcq_ret r = *p=='S' ? cds_wfcq_splice_blocking(&h2,&t2,&h,&tl) : *p=='s' ? __cds_wfcq_splice_blocking(&h2,&t2,&h,&tl) : __cds_wfcq_splice_nonblocking(&h2,&t2,&h,&tl);
		vs_ret(*p!='n'?"splice":"splicenb",(unsigned long)r);
		/* the walk over the private queue is a separate (blocking) operation: it may wait for an enqueuer whose node was spliced with its link still pending */
		vs_call("walk",0); if(r!=CDS_WFCQ_RET_WOULDBLOCK) __cds_wfcq_for_each_blocking(&h2,&t2,x){ l+=sprintf(buf+l,"%d,",(int)(x-n)); } vs_note("chain %s",buf); vs_ret("walk",0); }
		#undef h2
		#undef t2
	else if(*p=='e'){ vs_call("empty",0); int r=cds_wfcq_empty(&h,&tl); vs_ret("empty",r); }
	else if(*p=='I'){ struct cds_wfcq_node *x; char buf[256]; int l=0; buf[0]=0; vs_call("iter",0); __cds_wfcq_for_each_blocking(&h,&tl,x){ l+=sprintf(buf+l,"%d,",(int)(x-n)); } vs_note("chain %s",buf); vs_ret("iter",0); } } }
int main(int argc,char**argv){
	static char obuf[1<<20]; setvbuf(stdout,obuf,_IOFBF,sizeof obuf);
	if(argc<3) return 9;
	for(char *s=strtok(argv[1],"/"); s && nprog<MAXTH; s=strtok(0,"/")) prog[nprog++]=s;
	cds_wfcq_init(&h,&tl); for(int i=0;i<10;i++) cds_wfcq_node_init(&n[i]);
	vs_region(&h.lock,sizeof h.lock,"qlock"); vs_region(&h.node,sizeof h.node,"head"); vs_region(&tl,sizeof tl,"tail"); vs_region(n,sizeof n,"n"); vs_plain_track(n,sizeof n);   /* effective in the build with instrumented plain stores */
	for(int i=0;i<nprog;i++) vs_spawn(body);
	vs_run(argv[2]);
	{ printf("- drain"); int tries=0; for(;;){ struct cds_wfcq_node *x=__cds_wfcq_dequeue_nonblocking(&h,&tl); if(x==CDS_WFCQ_WOULDBLOCK){ if(++tries>50){ printf(" WOULDBLOCK"); break; } continue; } if(!x) break; printf(" %d",(int)(x-n)); } printf("\n"); }
	fflush(stdout); _exit(0); }
