/* harness-provided abstract RCU flavor for rculfhash.c (the table takes its flavor as a parameter) */
static void f_lock(void); static void f_unlock(void); static int f_ongoing(void){ return 0; }
static void f_qs(void){} static void f_off(void){} static void f_on(void){}
static void f_call_rcu(struct rcu_head *h, void (*fn)(struct rcu_head *));
static void f_sync(void); static void f_reg(void){} static void f_unreg(void){}
static void f_barrier(void){} static void f_atfork(struct urcu_atfork *a){ (void)a; }
static const struct rcu_flavor_struct vflavor = {
  .read_lock=f_lock,.read_unlock=f_unlock,.read_ongoing=f_ongoing,.read_quiescent_state=f_qs,
  .update_call_rcu=f_call_rcu,.update_synchronize_rcu=f_sync,.update_defer_rcu=0,
  .thread_offline=f_off,.thread_online=f_on,.register_thread=f_reg,.unregister_thread=f_unreg,
  .barrier=f_barrier,.register_rculfhash_atfork=f_atfork,.unregister_rculfhash_atfork=f_atfork };
