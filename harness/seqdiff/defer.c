/* C13 sequential differential probe: real _defer_rcu / rcu_defer_barrier_thread of src/urcu-defer-impl.h (inside src/urcu.c)
   with a small ring (hook URCU_VERIF_DEFER_QUEUE_SIZE) and the deferred call recorded instead of executed (hook
   URCU_VERIF_DEFER_CALL), so that arbitrary function/argument bit patterns can be queued.  Prints one line per operation:
   "E f p" / "B", the calls made by that operation, and the whole queue state (argv[4]: initial value of head and tail, to run across the 2^64 wrap-around).  The same operations are run by the Coq model. */
#include <stdio.h>
#include <stdint.h>
#include <stdlib.h>
static void record_call(void (*f)(void *), void *p);
#define URCU_VERIF_DEFER_CALL(f, p) record_call(f, p)
#define RCU_MEMBARRIER
#include "/repo/src/urcu.c"
static char line[1 << 16]; static int ll;
static void record_call(void (*f)(void *), void *p){ ll += sprintf(line + ll, " (%lx,%lx)", (unsigned long)f, (unsigned long)p); }
static uint64_t rs;
static uint64_t rnd(void){ rs ^= rs << 13; rs ^= rs >> 7; rs ^= rs << 17; return rs; }
static void dump(void){ struct defer_queue *d = &URCU_TLS(defer_queue);
  printf("calls:%s | H=%lu T=%lu in=%lx out=%lx q=", line, d->head, d->tail, (unsigned long)d->last_fct_in, (unsigned long)d->last_fct_out);
  /* at most 32 slots around head (all of them for small rings) */
  unsigned long n = DEFER_QUEUE_SIZE < 32 ? DEFER_QUEUE_SIZE : 32, base = DEFER_QUEUE_SIZE < 32 ? 0 : d->head + DEFER_QUEUE_SIZE - 16;
  for (unsigned long i = 0; i < n; i++) printf("%lx,", (unsigned long)d->q[(base + i) & DEFER_QUEUE_MASK]); printf("\n"); ll = 0; line[0] = 0; }
int main(int argc, char **argv){
  static char obuf[1 << 22]; setvbuf(stdout, obuf, _IOFBF, sizeof obuf);
  long n = argc > 1 ? atol(argv[1]) : 200; rs = (argc > 2 ? strtoull(argv[2], 0, 10) : 1) * 2654435761u + 88172645463325252ull;
  int mode = argc > 3 ? atoi(argv[3]) : 0;   /* 0: mixed; 1: long bursts (occupancy SIZE-3..SIZE); 2: adversarial patterns only */
  static const uint64_t F[] = { 0x1000, 0x2000, 0x3001, 0x1001, ~1ull, 0x2000, 0x5557, 0x8000000000000000ull };
  static const uint64_t P[] = { 0, 1, 2, 3, ~0ull, ~1ull, ~2ull, 0x1000, 0x1001, 0x2000, 0x8000000000000001ull, 0x10 };
  rcu_register_thread();
  URCU_TLS(defer_queue).q = calloc(DEFER_QUEUE_SIZE, sizeof(void *));
  printf("SIZE %d\n", (int)DEFER_QUEUE_SIZE);
  if (argc > 4) { unsigned long st = strtoull(argv[4], 0, 0); URCU_TLS(defer_queue).head = URCU_TLS(defer_queue).tail = st; printf("START %lu\n", st); }   /* free-running counters start just below the wrap-around */
  uint64_t lastf = F[0];
  for (long i = 0; i < n; i++) {
    uint64_t r = rnd();
    int barrier = mode == 1 ? (r % 29 == 0) : (r % 7 == 0);
    if (barrier) { printf("B | "); rcu_defer_barrier_thread(); dump(); continue; }
    uint64_t f = (mode == 2 || (r >> 8) % 4 == 0) ? F[(r >> 16) % 8] : lastf; lastf = f;
    uint64_t p = (mode == 2 || (r >> 24) % 3) ? P[(r >> 32) % 12] : (rnd() & ~1ull);
    printf("E %lx %lx | ", (unsigned long)f, (unsigned long)p);
    _defer_rcu((void (*)(void *))f, (void *)p); dump();
  }
  printf("B | "); rcu_defer_barrier_thread(); dump();
  return 0; }
