/* real threads: RMW operations on the same and on adjacent locations never lose an update (supports the tie "the instruction is
   atomic"); store-buffering litmus with an RMW as the only barrier.  Prints LOST/SB lines on failure. */
#include <pthread.h>
#include <stdio.h>
#include <stdint.h>
#include <stdlib.h>
#include <urcu/uatomic.h>
#define NT 4
static long iters;
static struct { unsigned char c1; unsigned char c1b; unsigned short c2; unsigned int c4; unsigned long c8; unsigned long tick; unsigned long x; } S;
static unsigned char seen[1<<22];
static pthread_barrier_t bar;
static void *worker(void *a){ (void)a; pthread_barrier_wait(&bar);
  for (long i = 0; i < iters; i++) {
    uatomic_add(&S.c1, 3); uatomic_sub(&S.c1b, 1); uatomic_inc(&S.c2); (void)uatomic_add_return(&S.c4, 5); (void)uatomic_sub_return(&S.c8, 7);
    unsigned long t = uatomic_add_return(&S.tick, 1); if (t < sizeof seen) { if (uatomic_xchg(&seen[t], 1)) { printf("LOST duplicate ticket %lu\n", t); } }
    unsigned long o, n; do { o = uatomic_read(&S.x); n = o + 1; } while (uatomic_cmpxchg(&S.x, o, n) != o);
  } return 0; }
static volatile int X, Y; static int r0, r1; static long priv0, priv1; static pthread_barrier_t b2;
static void *sb0(void *a){ long n=(long)a; for(long i=0;i<n;i++){ pthread_barrier_wait(&b2); X=1; (void)uatomic_add_return(&priv0,1); r0=Y; pthread_barrier_wait(&b2); pthread_barrier_wait(&b2);} return 0; }
static void *sb1(void *a){ long n=(long)a; for(long i=0;i<n;i++){ pthread_barrier_wait(&b2); Y=1; (void)uatomic_xchg(&priv1,i); r1=X; pthread_barrier_wait(&b2); pthread_barrier_wait(&b2);} return 0; }
int main(int argc, char **argv){ iters = argc > 1 ? atol(argv[1]) : 200000; long sbn = argc > 2 ? atol(argv[2]) : 20000; int bad = 0;
  pthread_t t[NT]; pthread_barrier_init(&bar, 0, NT);
  for (int i = 0; i < NT; i++) pthread_create(&t[i], 0, worker, 0);
  for (int i = 0; i < NT; i++) pthread_join(t[i], 0);
  long n = iters * NT;
  if (S.c1 != (unsigned char)(3*n)) { printf("LOST c1 %u expected %u\n", S.c1, (unsigned char)(3*n)); bad++; }
  if (S.c1b != (unsigned char)(-n)) { printf("LOST c1b (adjacent byte) %u expected %u\n", S.c1b, (unsigned char)(-n)); bad++; }
  if (S.c2 != (unsigned short)n) { printf("LOST c2 %u expected %u\n", S.c2, (unsigned short)n); bad++; }
  if (S.c4 != (unsigned int)(5*n)) { printf("LOST c4 %u expected %u\n", S.c4, (unsigned int)(5*n)); bad++; }
  if (S.c8 != (unsigned long)(-7*n)) { printf("LOST c8 %lu expected %lu\n", S.c8, (unsigned long)(-7*n)); bad++; }
  if (S.tick != (unsigned long)n) { printf("LOST tick %lu expected %ld\n", S.tick, n); bad++; }
  if (S.x != (unsigned long)n) { printf("LOST cmpxchg counter %lu expected %ld\n", S.x, n); bad++; }
  pthread_barrier_init(&b2, 0, 3); pthread_t a, b; pthread_create(&a,0,sb0,(void*)sbn); pthread_create(&b,0,sb1,(void*)sbn); long forb = 0;
  for (long i = 0; i < sbn; i++) { X = 0; Y = 0; pthread_barrier_wait(&b2); pthread_barrier_wait(&b2); if (r0 == 0 && r1 == 0) forb++; pthread_barrier_wait(&b2); }
  pthread_join(a,0); pthread_join(b,0);
  if (forb) { printf("SB forbidden outcome r0=r1=0 seen %ld times\n", forb); bad++; }
  printf("hammer ops=%ld sb_rounds=%ld bad=%d\n", n, sbn, bad); return bad != 0; }
