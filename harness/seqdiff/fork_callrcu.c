/* C16 real-fork probe (memb flavor compiled from /repo's src/urcu.c): callbacks pending at fork() bracketed by call_rcu_before_fork / after_fork_parent /
   after_fork_child run exactly once in the parent and exactly once in the child; rcu_barrier(), synchronize_rcu(), call_rcu() and read-side sections work in
   both afterwards.  mode 0: default helper only; 1: plus per-CPU helpers and a per-thread helper.  Every wait is bounded (alarm in the child, timed wait in
   the parent); prints one line per round and BUG lines. */
#define _GNU_SOURCE
#define RCU_MEMBARRIER
#include "/repo/src/urcu.c"
#include <stdio.h>
#include <stdlib.h>
#include <unistd.h>
#include <sys/wait.h>
#include <time.h>
#define N 120
static int called[N]; struct item { struct rcu_head h; int i; };
static void cb(struct rcu_head *h){ struct item *it=caa_container_of(h,struct item,h); __sync_fetch_and_add(&called[it->i],1); }
static int wait_child(pid_t p, int secs){ int st=0; for(int k=0;k<secs*20;k++){ pid_t r=waitpid(p,&st,WNOHANG); if(r==p) return st; usleep(50000); } kill(p,SIGKILL); waitpid(p,&st,0); return -1; }
int main(int argc,char**argv){ int rounds=argc>1?atoi(argv[1]):6, mode=argc>2?atoi(argv[2]):0; int bad=0;
  rcu_register_thread();
  if(mode){ create_all_cpu_call_rcu_data(0); struct call_rcu_data *c=create_call_rcu_data(0,-1); set_thread_call_rcu_data(c); }
  for (int r=0;r<rounds && !bad;r++){ struct item *its=calloc(N,sizeof *its); for(int i=0;i<N;i++) called[i]=0;
    for(int i=0;i<N;i++){ its[i].i=i; call_rcu(&its[i].h,cb); if (i==N/2 && (r&1)) usleep(100); }
    fflush(stdout); call_rcu_before_fork(); pid_t p=fork();
    if (p==0){ alarm(20); call_rcu_after_fork_child();
      rcu_read_lock(); rcu_read_unlock(); synchronize_rcu(); rcu_barrier();
      int b=0; for(int i=0;i<N;i++) if(called[i]!=1){ if(!b) printf("BUG child round %d: callback %d ran %d times\n",r,i,called[i]); b=1; }
      struct item extra; extra.i=0; called[0]=0; call_rcu(&extra.h,cb); rcu_barrier(); if(called[0]!=1){ printf("BUG child round %d: a callback queued after the fork ran %d times\n",r,called[0]); b=1; }
      fflush(stdout); _exit(b?3:0); }
    call_rcu_after_fork_parent(); rcu_barrier();
    for(int i=0;i<N;i++) if(called[i]!=1){ printf("BUG parent round %d: callback %d ran %d times\n",r,i,called[i]); bad=1; break; }
    int st=wait_child(p,25); if(st==-1){ printf("BUG child round %d: hangs (killed after 25 s)\n",r); bad=1; } else if(!WIFEXITED(st)||WEXITSTATUS(st)){ printf("BUG child round %d: exit status %x\n",r,st); bad=1; }
    printf("round %d mode %d %s\n",r,mode,bad?"failed":"ok"); free(its); }
  fflush(stdout); _exit(bad); }
