/* compiler-level barrier litmus: around each operation documented as a full barrier, a plain load of *flag must be performed
   both before and after it (the operation must be a compiler barrier).  Compiled to assembly and inspected by the check. */
#include <urcu/uatomic.h>
int lit_xchg(int *flag, long *w){ int a = *flag; (void) uatomic_xchg(w, 1L); int b = *flag; return a + 2*b; }
int lit_cmpxchg(int *flag, long *w){ int a = *flag; (void) uatomic_cmpxchg(w, 0L, 1L); int b = *flag; return a + 2*b; }
int lit_add_return(int *flag, long *w){ int a = *flag; (void) uatomic_add_return(w, 1L); int b = *flag; return a + 2*b; }
int lit_sub_return(int *flag, long *w){ int a = *flag; (void) uatomic_sub_return(w, 1L); int b = *flag; return a + 2*b; }
/* store before the operation must be emitted before it */
void lit_store_xchg(int *flag, long *w){ *flag = 1; (void) uatomic_xchg(w, 1L); *flag = 2; }

/* memory-order API: a sequentially consistent store followed by a sequentially consistent load (store-buffering litmus): a full fence must separate them,
   in the C11-builtin configuration and in the pre-C11 (x86.h emulation) configuration alike */
void lit_store_seqcst(long *x, long *y, long *r){ uatomic_store(x, 1L, CMM_SEQ_CST); *r = uatomic_load(y, CMM_SEQ_CST); }
void lit_set_seqcst(long *x, long *y, long *r){ uatomic_set(x, 1L, CMM_SEQ_CST); *r = uatomic_load(y, CMM_SEQ_CST); }
