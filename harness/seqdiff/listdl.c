/* C15 sequential differential probe: the real urcu/list.h operations used by the reader registries, on an array of nodes; after every
   operation the next/prev fields of every node are printed as node indices.  ocaml/listdl_driver.ml runs ListDl.lstep on the same operations. */
#include <stdio.h>
#include <stdlib.h>
#include <stdint.h>
#include <urcu/list.h>
#define NN 12
#define NH 3
static struct cds_list_head N[NN]; static int where[NN];   /* where[i] = head index of the list holding node i, -1 if none */
static uint64_t rs; static uint64_t rnd(void){ rs ^= rs << 13; rs ^= rs >> 7; rs ^= rs << 17; return rs; }
static int idx(struct cds_list_head *p){ return (int)(p - N); }
static void dump(void){ for(int i=0;i<NN;i++) printf(" %d:%d", idx(N[i].next), idx(N[i].prev)); printf("\n"); }
int main(int argc,char**argv){
  long n = argc>1 ? atol(argv[1]) : 300; rs = (argc>2 ? strtoull(argv[2],0,10) : 1) * 2654435761u + 88172645463325252ull;
  for(int i=0;i<NN;i++){ N[i].next=N[i].prev=&N[i]; where[i]=-1; }
  for(int h=0;h<NH;h++){ CDS_INIT_LIST_HEAD(&N[h]); printf("I %d |",h); dump(); }
  for(long k=0;k<n;k++){ uint64_t r=rnd(); int op=r%6, x=NH+(r>>8)%(NN-NH), h=(r>>16)%NH, h2=(r>>24)%NH;
    if(op<=1){ if(where[x]!=-1) continue; if(op==0){ cds_list_add(&N[x],&N[h]); printf("A %d %d |",x,h); } else { cds_list_add_tail(&N[x],&N[h]); printf("T %d %d |",x,h); } where[x]=h; dump(); }
    else if(op==2){ if(where[x]==-1) continue; cds_list_del(&N[x]); where[x]=-1; printf("D %d |",x); dump(); }
    else if(op==3){ if(where[x]==-1) continue; cds_list_move(&N[x],&N[h]); where[x]=h; printf("M %d %d |",x,h); dump(); }
    else if(op==4){ if(h==h2) continue; cds_list_splice(&N[h],&N[h2]); for(int i=NH;i<NN;i++) if(where[i]==h) where[i]=h2; printf("S %d %d |",h,h2); dump();
                    CDS_INIT_LIST_HEAD(&N[h]); printf("I %d |",h); dump(); }
    else { printf("E %d %d |\n", h, cds_list_empty(&N[h])); }
  }
  return 0; }
