/* C20 sequential differential probe: every uatomic op x target type x operand type (same as the target, or any other integer type for add / sub) x offset on values from a boundary pool and a PRNG,
   each starting from a PLAIN store (so that a wrong asm constraint shows), compiled at the project's optimisation level.
   Output: one line per case: op width signed off old a b -> ret mem(32 bytes hex).  The same cases are evaluated by the Coq model. */
#include <stdio.h>
#include <stdint.h>
#include <stdlib.h>
#include <string.h>
#include <urcu/uatomic.h>
static const uint64_t V[] = {0,1,2,0x7f,0x80,0xff,0x100,0x7fff,0x8000,0xffff,0x10000,0x7fffffff,0x80000000ull,0xffffffffull,0x100000000ull,
  0x7fffffffffffffffull,0x8000000000000000ull,0xffffffffffffffffull,0x1234567890abcdefull,0xfedcba0987654321ull};
#define NV (sizeof V/sizeof V[0])
static uint64_t rs;
static uint64_t rnd(void){ rs ^= rs << 13; rs ^= rs >> 7; rs ^= rs << 17; return rs; }
static uint64_t pick(void){ uint64_t r = rnd(); if ((r & 3) != 0) return V[(r >> 8) % NV]; return rnd(); }
static void dump(const char *op, int w, int sg, int off, uint64_t old, uint64_t a, uint64_t b, uint64_t ret, const unsigned char *g){
  printf("%s %d %d %d %llx %llx %llx -> %llx ", op, w, sg, off, (unsigned long long)old, (unsigned long long)a, (unsigned long long)b, (unsigned long long)ret);
  for (int i = 0; i < 32; i++) printf("%02x", g[i]); printf("\n"); }
#define M(T) ((sizeof(T)==8)?~0ull:((1ull<<(8*sizeof(T)))-1))
#define SX(T,v) ((uint64_t)(long)(T)(v))      /* operand as the implementation's caa_cast_long_keep_sign sees it */
#define CASE(T, SG, opname, stmt, A, B, retexpr) do { union { unsigned char g[32]; T x[32/sizeof(T)]; } u; memset(u.g,0xa5,32); \
    T *p=&u.x[8/sizeof(T)+off]; T r=0; (void)r; *p=(T)old; __asm__ __volatile__("":::"memory")/*nothing: keep plain store*/; stmt; \
    dump(opname,(int)sizeof(T),SG,off,(uint64_t)(T)old & M(T),A,B,(uint64_t)(retexpr) & M(T),u.g); } while(0)
/* the compiler barrier above is deliberately a comment-only asm with a memory clobber?  No: it must NOT hide a wrong constraint. */
#undef CASE
#define CASE(T, SG, opname, stmt, A, B, retexpr) do { union { unsigned char g[32]; T x[32/sizeof(T)]; } u; memset(u.g,0xa5,32); \
    T *p=&u.x[8/sizeof(T)+off]; T r=0; (void)r; *p=(T)old; stmt; \
    dump(opname,(int)sizeof(T),SG,off,(uint64_t)(T)old & M(T),A,B,(uint64_t)(retexpr) & M(T),u.g); } while(0)
#define TEST(T, SG) do { uint64_t old=pick(), a=pick(), b=pick(); int off=(int)(rnd()%2); \
  switch (rnd()%13) { \
  case 0: CASE(T,SG,"add_return", r=uatomic_add_return(p,(T)a), SX(T,a),0, r); break; \
  case 1: CASE(T,SG,"sub_return", r=uatomic_sub_return(p,(T)a), SX(T,a),0, r); break; \
  case 2: CASE(T,SG,"xchg", r=uatomic_xchg(p,(T)a), SX(T,a),0, r); break; \
  case 3: CASE(T,SG,"cmpxchg", r=uatomic_cmpxchg(p,(T)old,(T)b), SX(T,old),SX(T,b), r); break; \
  case 4: CASE(T,SG,"cmpxchg", r=uatomic_cmpxchg(p,(T)a,(T)b), SX(T,a),SX(T,b), r); break; \
  case 5: CASE(T,SG,"add", uatomic_add(p,(T)a), SX(T,a),0, 0); break; \
  case 6: CASE(T,SG,"sub", uatomic_sub(p,(T)a), SX(T,a),0, 0); break; \
  case 7: CASE(T,SG,"and", uatomic_and(p,(T)a), SX(T,a),0, 0); break; \
  case 8: CASE(T,SG,"or", uatomic_or(p,(T)a), SX(T,a),0, 0); break; \
  case 9: CASE(T,SG,"inc", uatomic_inc(p), 0,0, 0); break; \
  case 10: CASE(T,SG,"dec", uatomic_dec(p), 0,0, 0); break; \
  case 11: CASE(T,SG,"set", uatomic_set(p,(T)a), SX(T,a),0, 0); break; \
  case 12: CASE(T,SG,"read", r=uatomic_read(p), 0,0, r); break; \
  } } while(0)
/* operand of another integer type than the target: the documented effect is "add / subtract the VALUE of the operand" (caa_cast_long_keep_sign), whatever its width and signedness */
#define TESTX(T, SG, OT) do { uint64_t old=pick(), a=pick(), b=0; int off=(int)(rnd()%2); (void)b; \
  switch (rnd()%4) { \
  case 0: CASE(T,SG,"add_return", r=uatomic_add_return(p,(OT)a), SX(OT,a),0, r); break; \
  case 1: CASE(T,SG,"sub_return", r=uatomic_sub_return(p,(OT)a), SX(OT,a),0, r); break; \
  case 2: CASE(T,SG,"add", uatomic_add(p,(OT)a), SX(OT,a),0, 0); break; \
  case 3: CASE(T,SG,"sub", uatomic_sub(p,(OT)a), SX(OT,a),0, 0); break; \
  } } while(0)
#define TESTXT(T, SG) do { switch (rnd()%8) { \
    case 0: TESTX(T,SG,unsigned char); break; case 1: TESTX(T,SG,signed char); break; case 2: TESTX(T,SG,unsigned short); break; case 3: TESTX(T,SG,short); break; \
    case 4: TESTX(T,SG,unsigned int); break; case 5: TESTX(T,SG,int); break; case 6: TESTX(T,SG,unsigned long); break; case 7: TESTX(T,SG,long); break; } } while(0)
int main(int argc, char **argv){
  static char obuf[1<<22]; setvbuf(stdout,obuf,_IOFBF,sizeof obuf);
  long n = argc > 1 ? atol(argv[1]) : 1000; rs = argc > 2 ? strtoull(argv[2],0,10)*2654435761u + 88172645463325252ull : 88172645463325252ull;
  for (long i = 0; i < n; i++) {
    if (rnd()%4 == 0) {      /* one case in four: operand type differs from the target type */
      switch (rnd()%8) {
      case 0: TESTXT(unsigned char,0); break; case 1: TESTXT(signed char,1); break; case 2: TESTXT(unsigned short,0); break; case 3: TESTXT(short,1); break;
      case 4: TESTXT(unsigned int,0); break; case 5: TESTXT(int,1); break; case 6: TESTXT(unsigned long,0); break; case 7: TESTXT(long,1); break; }
      continue; }
    switch (rnd()%8) {
    case 0: TEST(unsigned char,0); break; case 1: TEST(signed char,1); break; case 2: TEST(unsigned short,0); break; case 3: TEST(short,1); break;
    case 4: TEST(unsigned int,0); break; case 5: TEST(int,1); break; case 6: TEST(unsigned long,0); break; case 7: TEST(long,1); break; } }
  return 0; }
