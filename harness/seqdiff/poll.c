/* C14 sequential differential probe: the real src/urcu-poll-impl.h with call_rcu replaced by a recorder (the worker callback is
   run when the driver says so) and counters started near 0, 2^63 and 2^64, so that the unsigned wrap and the (long) casts are
   exercised.  Prints one line per operation in the format of ocaml/poll_driver.ml. */
#include <stdio.h>
#include <stdlib.h>
#include <stdint.h>
#include <stdbool.h>
#include <pthread.h>
#include <urcu/system.h>
#include <urcu/uatomic.h>
#include <urcu/urcu-poll.h>
#include <urcu/call-rcu.h>
static struct rcu_head *pend_head; static void (*pend_fn)(struct rcu_head *); static int ncalls;
static void poll_call_rcu(struct rcu_head *h, void (*fn)(struct rcu_head *)){ if(pend_fn){ printf("BUG worker callback queued twice\n"); } pend_head=h; pend_fn=fn; ncalls++; }
#define call_rcu poll_call_rcu
static void mutex_lock(pthread_mutex_t *m){ pthread_mutex_lock(m); }
static void mutex_unlock(pthread_mutex_t *m){ pthread_mutex_unlock(m); }
#include "/repo/src/urcu-poll-impl.h"
static uint64_t rs; static uint64_t rnd(void){ rs ^= rs << 13; rs ^= rs >> 7; rs ^= rs << 17; return rs; }
int main(int argc,char**argv){
  long n = argc>1 ? atol(argv[1]) : 300; rs = (argc>2 ? strtoull(argv[2],0,10) : 1) * 2654435761u + 88172645463325252ull;
  unsigned long c0 = argc>3 ? strtoul(argv[3],0,0) : 0;
  poll_worker_gp_state.current_state.grace_period_id=c0; poll_worker_gp_state.latest_target.grace_period_id=c0;
  printf("I %lu\n", c0);
  static unsigned long H[4096]; int nh=0;
  for(long i=0;i<n;i++){ uint64_t r=rnd(); int k=r%8;
    if(k<=1 && nh<4096){ int c=ncalls; struct urcu_gp_poll_state h=start_poll_synchronize_rcu(); H[nh++]=h.grace_period_id; printf("S -> %lu %d\n", h.grace_period_id, ncalls-c); }
    else if(k<=4 && nh){ /* poll a recent handle (most are inside the comparison window); rarely an old one */
      int j = (r>>8)%4 ? nh-1-(int)((r>>16)%(nh<6?nh:6)) : (int)((r>>16)%nh);
      struct urcu_gp_poll_state h; h.grace_period_id=H[j]; bool b=poll_state_synchronize_rcu(h); printf("P %lu -> %d\n", H[j], (int)b); }
    else if(k<=6){ if(!pend_fn){ printf("W -> none\n"); continue; } void (*f)(struct rcu_head*)=pend_fn; struct rcu_head *h=pend_head; pend_fn=0; int c=ncalls; f(h); printf("W -> %d\n", ncalls-c); }
    else printf("D cur %lu latest %lu active %d pending %d\n", poll_worker_gp_state.current_state.grace_period_id, poll_worker_gp_state.latest_target.grace_period_id, (int)poll_worker_gp_state.active, pend_fn!=0);
  }
  return 0; }
