/* C08 sequential differential probe: the real src/rculfhash.c driven by one thread (trivial RCU flavor: no concurrency), for every bucket allocator and size
   configuration.  One line per operation in the format of ocaml/seqtable_driver.ml, which runs SeqTable.sstep on the same operations; after every resize the
   bucket structure is checked (every index below size has a linked bucket node with the bit-reversed index, buckets precede data nodes of equal reverse hash)
   and sample "B i table offset" lines are printed for the index arithmetic models.  usage: lfht_seq NOPS SEED INIT MIN MAX FLAGS MM */
#define _LGPL_SOURCE
#include <stdbool.h>
#include <stdio.h>
#include <stdlib.h>
#include <stdint.h>
#include <string.h>
#include <urcu/flavor.h>
#include <urcu/rculfhash.h>
#include "../lfht_flavor.h"
#define rcu_flavor vflavor
#include "/repo/src/rculfhash.c"
static void f_lock(void){} static void f_unlock(void){} static void f_sync(void){}
static void f_call_rcu(struct rcu_head *h, void (*fn)(struct rcu_head *)){ fn(h); }
struct ent { struct cds_lfht_node n; unsigned long hash; long key; int id; int in; unsigned long gen; long out; };   /* out: operation number at which the node last left the table */
#define NE 48
static const unsigned long HP[8] = { 0, 1, 2, 3, 5, 8, 0x8000000000000000UL, 0xffffffffffffffffUL };
static struct ent E[NE]; static struct cds_lfht *ht; static char mmc;
static int match(struct cds_lfht_node *n, const void *k){ return ((struct ent*)n)->key==*(const long*)k; }
static uint64_t rs; static uint64_t rnd(void){ rs ^= rs << 13; rs ^= rs >> 7; rs ^= rs << 17; return rs; }
static int idof(struct cds_lfht_node *n){ return n ? ((struct ent*)n)->id : -1; }
static void pid(struct cds_lfht_node *n){ if(n) printf("%d\n", idof(n)); else printf("none\n"); }
static void check_buckets(void){
  unsigned long size=ht->size, nb=0, prev=0; int first=1; struct cds_lfht_node *n=bucket_at(ht,0);
  for(unsigned long i=0;i<size;i++){ struct cds_lfht_node *b=bucket_at(ht,i); if(b->reverse_hash!=bit_reverse_ulong(i) || !is_bucket(b->next) || is_removed(b->next)) printf("BUG bucket %lu of %lu: reverse hash %lx flags %lu\n",i,size,b->reverse_hash,(unsigned long)b->next&7); }
  int prev_bucket=0;
  while(n){ unsigned long w=(unsigned long)n->next; int isb=(w&BUCKET_FLAG)!=0;
    if(!first && (n->reverse_hash<prev || (n->reverse_hash==prev && isb && !prev_bucket))) printf("BUG chain order: %s node with reverse hash %lx after %s node with %lx\n", isb?"bucket":"data", n->reverse_hash, prev_bucket?"bucket":"data", prev);
    if(w&REMOVED_FLAG) printf("BUG removed node still linked\n");
    nb+=isb; prev=n->reverse_hash; prev_bucket=isb; first=0; n=(struct cds_lfht_node*)(w&~7UL); }
  if(nb!=size) printf("BUG %lu bucket nodes linked for size %lu\n", nb, size);
  /* index arithmetic samples */
  for(unsigned long i=0;i<size;i+= (size>16? size/8+1 : 1)){ struct cds_lfht_node *b=bucket_at(ht,i);
    if(mmc=='o'){ for(unsigned long o=0;o<=cds_lfht_get_count_order_ulong(size);o++){ unsigned long len = o? (o<=ht->min_alloc_buckets_order? 0 : 1UL<<(o-1)) : ht->min_nr_alloc_buckets; if(len && b>=ht->tbl_order[o] && b<ht->tbl_order[o]+len) printf("B o %lu %lu -> %lu %lu\n", ht->min_nr_alloc_buckets, i, o, (unsigned long)(b-ht->tbl_order[o])); } }
    else if(mmc=='c'){ unsigned long c=i>>ht->min_alloc_buckets_order; printf("B c %lu %lu -> %lu %lu\n", ht->min_alloc_buckets_order, i, c, (unsigned long)(b-ht->tbl_chunk[c])); } } }
int main(int argc,char**argv){
  if(argc<8) return 9;
  setvbuf(stdout,NULL,_IOLBF,0);   /* an assertion inside the library must not lose the operation that triggered it */
  long nops=atol(argv[1]); rs=strtoull(argv[2],0,10)*2654435761u+88172645463325252ull;
  unsigned long init=strtoul(argv[3],0,0), minb=strtoul(argv[4],0,0), maxb=strtoul(argv[5],0,0); int flags=atoi(argv[6]); mmc=argv[7][0];
  const struct cds_lfht_mm_type *mm = mmc=='o'?&cds_lfht_mm_order : mmc=='c'?&cds_lfht_mm_chunk : mmc=='m'?&cds_lfht_mm_mmap : NULL;
  for(int i=0;i<NE;i++){ E[i].id=i; E[i].key=i%16; E[i].hash=HP[(i%16)%8]; }
  ht=_cds_lfht_new(init,minb,maxb,flags,mm,&vflavor,NULL);
  if(!ht){ printf("NEW NULL\n"); return 0; }
  printf("NEW ok\n"); check_buckets();
  static const unsigned long SZ[] = { 0,1,2,3,4,5,7,8,16,33,64,128, ~0UL, 6, 32 };
  struct cds_lfht_iter it, sit; struct cds_lfht_node *sold=0; unsigned long sgen=0; long stime=0;
  /* the kept iterator stands for one read-side critical section: a node removed inside that section may not be handed to the table again before it ends (no grace period can have elapsed) */
#define REUSE(e) do{ if(sold && (e)->out>stime) sold=0; }while(0)
#define OUT(e) ((e)->in=0, (e)->out=k)
  for(long k=0;k<nops;k++){ uint64_t r=rnd(); int op=r%18; int i=(r>>8)%NE;
    if(op<=2){ if(E[i].in) continue; cds_lfht_node_init(&E[i].n); E[i].gen++; REUSE(&E[i]); printf("A %d %lu %ld -> ",i,E[i].hash,E[i].key); cds_lfht_add(ht,E[i].hash,&E[i].n); E[i].in=1; printf("%d\n",i); }
    else if(op<=4){ if(E[i].in) continue; cds_lfht_node_init(&E[i].n); E[i].gen++; REUSE(&E[i]); printf("U %d %lu %ld -> ",i,E[i].hash,E[i].key); struct cds_lfht_node *x=cds_lfht_add_unique(ht,E[i].hash,match,&E[i].key,&E[i].n); if(x==&E[i].n) E[i].in=1; pid(x); }
    else if(op==5){ if(E[i].in) continue; cds_lfht_node_init(&E[i].n); E[i].gen++; REUSE(&E[i]); printf("R %d %lu %ld -> ",i,E[i].hash,E[i].key); struct cds_lfht_node *x=cds_lfht_add_replace(ht,E[i].hash,match,&E[i].key,&E[i].n); E[i].in=1; if(x) OUT((struct ent*)x); pid(x); }
    else if(op==6){ if(E[i].in) continue; long key=E[i].key; cds_lfht_lookup(ht,E[i].hash,match,&key,&it); struct cds_lfht_node *old=cds_lfht_iter_get_node(&it); if(!old) continue;
      cds_lfht_node_init(&E[i].n); E[i].gen++; REUSE(&E[i]); printf("P %d %d %lu %ld -> ",idof(old),i,E[i].hash,E[i].key); int x=cds_lfht_replace(ht,&it,E[i].hash,match,&E[i].key,&E[i].n); if(!x){ E[i].in=1; OUT((struct ent*)old); } printf("%s\n", x?"err":"0"); }
    else if(op<=8){ if(!E[i].in) continue; printf("D %d -> ",i); int x=cds_lfht_del(ht,&E[i].n); if(!x) OUT(&E[i]); printf("%s\n", x?"err":"0"); }
    else if(op<=11){ long key=(r>>16)%18; unsigned long h=HP[(key%16)%8]; if((r>>24)%11==0) h^=4; printf("L %lu %ld -> ",h,key); cds_lfht_lookup(ht,h,match,&key,&it); struct cds_lfht_node *x=cds_lfht_iter_get_node(&it); pid(x);
      while(x){ struct ent *e=(struct ent*)x; printf("N %d %lu %ld -> ",e->id,e->hash,e->key); cds_lfht_next_duplicate(ht,match,&key,&it); x=cds_lfht_iter_get_node(&it); pid(x); } }
    else if(op==16){ long key=E[i].key; printf("L %lu %ld -> ",E[i].hash,key); cds_lfht_lookup(ht,E[i].hash,match,&key,&sit); sold=cds_lfht_iter_get_node(&sit); pid(sold); if(sold){ sgen=((struct ent*)sold)->gen; stime=k; } }   /* keep this iterator */
    else if(op==17){ /* replace through the iterator kept from an earlier lookup, after any number of other updates (same read-side section: no resize in between) */
      if(!sold) continue; struct ent *o=(struct ent*)sold; if(o->gen!=sgen){ sold=0; continue; }
      int j=-1; for(int q=0;q<NE;q++){ int c=(i+q)%NE; if(!E[c].in && E[c].key==o->key && E[c].hash==o->hash && &E[c]!=o && E[c].out<=stime){ j=c; break; } } if(j<0) continue;
      cds_lfht_node_init(&E[j].n); E[j].gen++; printf("P %d %d %lu %ld -> ",idof(sold),j,E[j].hash,E[j].key); int x=cds_lfht_replace(ht,&sit,E[j].hash,match,&E[j].key,&E[j].n); if(!x){ E[j].in=1; OUT(o); } printf("%s\n", x?"err":"0"); sold=0; }
    else if(op==12){ struct cds_lfht_node *x; printf("T ->"); cds_lfht_for_each(ht,&it,x) printf(" %d",idof(x)); printf("\n"); }
    else if(op==13){ long b,a; unsigned long c; cds_lfht_count_nodes(ht,&b,&c,&a); printf("C -> %lu\n",c); }
    else if(op==14){ unsigned long n=SZ[(r>>16)%15]; if(ht->max_nr_buckets>65536 && n>1024) n=1024;   /* an unbounded table really would grow to 2^63 buckets */
      sold=0; printf("Z %lu -> ",n); cds_lfht_resize(ht,n); printf("0\n"); check_buckets(); }
    else { if((r>>16)%6) continue; printf("X -> "); int any=0; for(int j=0;j<NE;j++) any|=E[j].in; int x=any? cds_lfht_destroy(ht,NULL) : 1; if(any) printf("%s\n", x?"err":"0"); else printf("skip\n"); }
  }
  { struct cds_lfht_node *x; printf("T ->"); cds_lfht_for_each(ht,&it,x) printf(" %d",idof(x)); printf("\n"); }
  for(int j=0;j<NE;j++) if(E[j].in){ printf("D %d -> ",j); int x=cds_lfht_del(ht,&E[j].n); printf("%s\n", x?"err":"0"); }
  printf("X -> "); { int x=cds_lfht_destroy(ht,NULL); printf("%s\n", x?"err":"0"); }
  return 0; }
