/* C09 / C08 probe for AUTOMATIC resizing with the real work-queue thread (memb flavor compiled from /repo's src/urcu.c, src/rculfhash.c, src/workqueue.c):
   one application thread fills tables created with CDS_LFHT_AUTO_RESIZE (chain-length trigger) and CDS_LFHT_AUTO_RESIZE | CDS_LFHT_ACCOUNTING (node-count
   trigger, > 2 * 2^COUNT_COMMIT_ORDER additions from one CPU) whose max_nr_buckets is far smaller than the number of nodes; while the worker resizes and once it
   has settled: the published size and the requested target stay within [1, max_nr_buckets], every bucket array asked from the allocator fits that maximum, every
   stored key is found, count_nodes agrees; then everything is removed (shrink by count) and the table destroyed.  Every wait is bounded.
   usage: lfht_auto ROUNDS */
#define _GNU_SOURCE
#define RCU_MEMBARRIER
#include "/repo/src/urcu.c"
#include <urcu/rculfhash.h>
#include "/repo/src/rculfhash-internal.h"
#include <stdio.h>
#include <stdlib.h>
#include <unistd.h>
#include <sched.h>
#define NN 6000
struct ent { struct cds_lfht_node n; long key; };
static struct ent E[NN];
static int match(struct cds_lfht_node *n, const void *k){ return caa_container_of(n,struct ent,n)->key==*(const long*)k; }
static unsigned long largest;     /* largest single bucket-array request (in bucket nodes) seen by the allocator */
static void *r_malloc(void *st, size_t sz){ (void)st; return malloc(sz); }
static void *r_calloc(void *st, size_t n, size_t sz){ (void)st; if(sz==sizeof(struct cds_lfht_node) && n>largest) largest=n; return calloc(n,sz); }
static void *r_realloc(void *st, void *p, size_t sz){ (void)st; return realloc(p,sz); }
static void *r_aligned(void *st, size_t al, size_t sz){ (void)st; void *p=0; if(posix_memalign(&p,al,sz)) return 0; return p; }
static void r_free(void *st, void *p){ (void)st; free(p); }
static const struct cds_lfht_alloc rec_alloc = { r_malloc, r_calloc, r_realloc, r_aligned, r_free, 0 };
static int bad;
static void check_bounds(struct cds_lfht *ht, unsigned long maxb, const char *when, const char *cfg){
  unsigned long sz=CMM_LOAD_SHARED(ht->size), tg=CMM_LOAD_SHARED(ht->resize_target);
  if(sz<1 || sz>maxb || (sz&(sz-1))){ printf("BUG %s %s: %lu buckets published, max_nr_buckets is %lu\n",cfg,when,sz,maxb); bad=1; }
  if(tg>maxb){ printf("BUG %s %s: resize target %lu above max_nr_buckets %lu\n",cfg,when,tg,maxb); bad=1; } }
static int one(const struct cds_lfht_mm_type *mm, char mmc, unsigned long maxb, int flags, int round){
  char cfg[64]; sprintf(cfg,"mm=%c max=%lu flags=%d",mmc,maxb,flags); largest=0;
  struct cds_lfht *ht=_cds_lfht_new_with_alloc(1,1,maxb,flags,mm,&rcu_flavor,&rec_alloc,NULL);
  if(!ht){ printf("BUG %s: cds_lfht_new failed\n",cfg); return 1; }
  for(int i=0;i<NN;i++){ cds_lfht_node_init(&E[i].n); E[i].key=i; rcu_read_lock(); cds_lfht_add(ht,(unsigned long)i*2654435761UL+round,match? &E[i].n : 0); rcu_read_unlock();
    if((i&255)==0) check_bounds(ht,maxb,"during the additions",cfg); }
  for(int k=0;k<40;k++){ usleep(5000); check_bounds(ht,maxb,"while the worker settles",cfg); }
  if(mmc=='o' && largest > maxb){ printf("BUG %s: a bucket array of %lu nodes was requested, the whole table may hold %lu bucket nodes\n",cfg,largest,maxb); bad=1; }
  long split=0, nfound=0; long cnt=0, after=0;
  rcu_read_lock();
  for(int i=0;i<NN;i++){ struct cds_lfht_iter it; long k=i; cds_lfht_lookup(ht,(unsigned long)i*2654435761UL+round,match,&k,&it); if(cds_lfht_iter_get_node(&it)==&E[i].n) nfound++; }
  cds_lfht_count_nodes(ht,&split,(unsigned long*)&cnt,&after);
  rcu_read_unlock();
  if(nfound!=NN){ printf("BUG %s: %ld of %d stored keys found after the automatic resizes\n",cfg,nfound,NN); bad=1; }
  if(cnt!=NN){ printf("BUG %s: count_nodes says %ld, %d nodes are stored\n",cfg,cnt,NN); bad=1; }
  for(int i=0;i<NN;i++){ rcu_read_lock(); if(cds_lfht_del(ht,&E[i].n)){ printf("BUG %s: del of stored node %d failed\n",cfg,i); bad=1; } rcu_read_unlock(); if((i&511)==0) check_bounds(ht,maxb,"during the removals",cfg); }
  for(int k=0;k<20;k++){ usleep(5000); check_bounds(ht,maxb,"after the removals",cfg); }
  synchronize_rcu();
  int r=cds_lfht_destroy(ht,NULL);
  if(r){ printf("BUG %s: destroy of the emptied table returned %d\n",cfg,r); bad=1; }
  printf("round %d %s size-ok ok\n",round,cfg);
  return 0; }
int main(int argc,char**argv){
  int rounds=argc>1?atoi(argv[1]):1;
  cpu_set_t cs; CPU_ZERO(&cs); CPU_SET(sched_getcpu()>=0?sched_getcpu():0,&cs); sched_setaffinity(0,sizeof cs,&cs);     /* one CPU: its split counter alone reaches the commit threshold */
  rcu_register_thread();
  for(int r=0;r<rounds;r++){
    for(int fl=0;fl<2;fl++){ int flags=CDS_LFHT_AUTO_RESIZE|(fl?CDS_LFHT_ACCOUNTING:0);
      one(&cds_lfht_mm_order,'o',8,flags,r); one(&cds_lfht_mm_chunk,'c',64,flags,r); one(&cds_lfht_mm_mmap,'m',64,flags,r); one(&cds_lfht_mm_order,'o',512,flags,r); } }
  rcu_unregister_thread();
  if(bad){ printf("BUG automatic resizing left the bounds\n"); return 1; }
  return 0; }
