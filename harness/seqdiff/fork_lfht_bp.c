/* second compilation unit of the C16 hash-table fork probe: the bp flavor (the flavor-independent API maps to one flavor per compilation unit); compiled with /repo's src/urcu-bp.c */
#include <urcu/urcu-bp.h>
const struct rcu_flavor_struct *bp_flavor(void){ return &urcu_bp_flavor; }
void bp_read_lock(void){ urcu_bp_read_lock(); }
void bp_read_unlock(void){ urcu_bp_read_unlock(); }
void bp_synchronize_rcu(void){ urcu_bp_synchronize_rcu(); }
void bp_call_rcu_before_fork(void){ urcu_bp_call_rcu_before_fork(); }
void bp_call_rcu_after_fork_parent(void){ urcu_bp_call_rcu_after_fork_parent(); }
void bp_call_rcu_after_fork_child(void){ urcu_bp_call_rcu_after_fork_child(); }
