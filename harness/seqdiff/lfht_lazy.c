/* C17 sequential differential probe for the lazy resize request of rculfhash.c: the real static cds_lfht_resize_lazy_count() (src/rculfhash.c compiled into this
   program) is called on a table header in every relation of count / size argument / resize_target / published size, including stale size arguments (the caller
   read the size before a resize request by somebody else) and pending shrinks (resize_target below the published size).  One line per call in the format of
   ocaml/lazycount_driver.ml.  The work-queue insertion is replaced by a recorder (no worker thread runs).  The input of a call is printed before the call, so a
   call that never returns is identified by the last line.  usage: lfht_lazy NCASES SEED */
#define _LGPL_SOURCE
#include <stdio.h>
#include <stdlib.h>
#include <stdint.h>
#include <unistd.h>
#include <stdbool.h>
#include <string.h>
#include <urcu/flavor.h>
#include <urcu/rculfhash.h>
#include "../lfht_flavor.h"
#define rcu_flavor vflavor
#define urcu_workqueue_queue_work probe_queue_work
#include "/repo/src/rculfhash.c"
static void f_lock(void){} static void f_unlock(void){} static void f_sync(void){}
static void f_call_rcu(struct rcu_head *h, void (*fn)(struct rcu_head *)){ fn(h); }
static int launched;
void probe_queue_work(struct urcu_workqueue *wq, struct urcu_work *w, void (*fn)(struct urcu_work *)){ (void)wq; (void)fn; launched++; free(caa_container_of(w, struct resize_work, work)); }
static void *p_malloc(void *st, size_t sz){ (void)st; return malloc(sz); }
static const struct cds_lfht_alloc p_alloc = { p_malloc, 0, 0, 0, 0, 0 };
static uint64_t rs; static uint64_t rnd(void){ rs ^= rs << 13; rs ^= rs >> 7; rs ^= rs << 17; return rs; }
static unsigned long pick(void){ unsigned k=rnd()%16;
  if(k<10) return 1UL<<(rnd()%8);                       /* small powers of two: all relative orders occur */
  if(k<12) return rnd()%40;                             /* small arbitrary values, 0 included */
  if(k<14) return 1UL<<(rnd()%64);
  return rnd(); }
int main(int argc,char**argv){ long n=argc>1?atol(argv[1]):1000; rs=(argc>2?strtoull(argv[2],0,0):1)*0x9E3779B97F4A7C15ULL+1;
  struct cds_lfht *ht=calloc(1,sizeof *ht); ht->alloc=&p_alloc;
  alarm(20);
  for(long i=0;i<n;i++){
    int autoflag = rnd()%8 != 0; unsigned long maxb = (rnd()%4) ? (1UL<<(3+rnd()%8)) : (1UL<<(rnd()%64)), size=pick(), tgt=pick(), count=pick(), published=pick();
    if(rnd()%3==0) tgt=size;                            /* the common case: no request pending */
    if(size==0) size=1;
    ht->flags = autoflag ? CDS_LFHT_AUTO_RESIZE : 0; ht->max_nr_buckets=maxb; ht->size=published; ht->resize_target=tgt; ht->resize_initiated=0; ht->in_progress_destroy=0; launched=0;
    printf("C %d %lu %lu %lu %lu", autoflag, maxb, tgt, size, count); fflush(stdout);
    cds_lfht_resize_lazy_count(ht, size, count);
    printf(" -> %lu %s\n", ht->resize_target, launched ? "L" : "Q"); }
  fflush(stdout); return 0; }
