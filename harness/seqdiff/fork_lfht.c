/* C16 real-fork probe for the hash table's resize worker (memb flavor compiled from /repo's src/urcu.c, src/rculfhash.c, src/workqueue.c): a process that owns an
   auto-resizing table forks with the documented call_rcu handlers (they also cover the table's work queue); afterwards parent and child must both be able to
   create another auto-resizing table (needs the mutex the handlers hold across the fork), use it, and destroy it - the destruction of an auto-resizing table is
   carried out by the worker thread, so the release of the table's memory (seen by a recording allocator) shows that a worker serves the queue.
   mode 0: the process never used call_rcu (no helper thread exists at the fork); mode 1: a call_rcu helper exists.  Every wait is bounded.
   Nested generations: the child brackets a (would-be) fork of its own while its re-created worker is inside a resize (held there by a slow allocator): when
   call_rcu_before_fork() returns the worker must be parked, not inside the resize - in the first process as well as in a fork child.
   mode 2: the process owns tables of TWO flavors (memb and bp): the hash table registers its fork handlers with each flavor that owns a table, so the documented
   handlers of both flavors bracket the fork (nested), and afterwards tables of both flavors must be usable in parent and child; a watchdog thread bounds the bracket.
   Growth by lazy resize is deliberately not used as the sign of life: a lazy resize request can be lost for a reason unrelated to fork (DESIGN.md 9.3). */
#define _GNU_SOURCE
#define RCU_MEMBARRIER
#include "/repo/src/urcu.c"
#include <urcu/rculfhash.h>
#include <stdio.h>
#include <stdlib.h>
#include <unistd.h>
#include <sys/wait.h>
#define NN 64
struct ent { struct cds_lfht_node n; int key; };
static void cbf(struct rcu_head *h){ (void)h; }
static int match(struct cds_lfht_node *n, const void *k){ return caa_container_of(n,struct ent,n)->key==*(const int*)k; }
static int wait_child(pid_t p, int secs){ int st=0; for(int k=0;k<secs*20;k++){ pid_t r=waitpid(p,&st,WNOHANG); if(r==p) return st; usleep(50000); } kill(p,SIGKILL); waitpid(p,&st,0); return -1; }
/* recording allocator: number of blocks handed out and not yet released */
static long live;
static void *r_malloc(void *st, size_t sz){ (void)st; __sync_fetch_and_add(&live,1); return malloc(sz); }
static void *r_calloc(void *st, size_t n, size_t sz){ (void)st; __sync_fetch_and_add(&live,1); return calloc(n,sz); }
static void *r_realloc(void *st, void *p, size_t sz){ (void)st; if(!p) __sync_fetch_and_add(&live,1); return realloc(p,sz); }
static void *r_aligned(void *st, size_t al, size_t sz){ (void)st; void *p=0; if(posix_memalign(&p,al,sz)) return 0; __sync_fetch_and_add(&live,1); return p; }
static void r_free(void *st, void *p){ (void)st; if(p){ __sync_fetch_and_sub(&live,1); free(p); } }
static const struct cds_lfht_alloc rec_alloc = { r_malloc, r_calloc, r_realloc, r_aligned, r_free, 0 };
/* slow allocator: the first allocation made by a thread other than the process's only application thread (= the resize worker, inside a resize) is held for a while */
static pthread_t app_thread; static volatile int slow_armed, inworker, worker_seen;
static void *s_calloc(void *st, size_t n, size_t sz){ (void)st;
  if(slow_armed && !pthread_equal(pthread_self(),app_thread)){ slow_armed=0; worker_seen=1; inworker=1; cmm_smp_mb(); usleep(400000); cmm_smp_mb(); inworker=0; }
  return calloc(n,sz); }
static void *s_malloc(void *st, size_t sz){ (void)st; return malloc(sz); }
static void *s_realloc(void *st, void *p, size_t sz){ (void)st; return realloc(p,sz); }
static void *s_aligned(void *st, size_t al, size_t sz){ (void)st; void *p=0; return posix_memalign(&p,al,sz)?0:p; }
static void s_free(void *st, void *p){ (void)st; free(p); }
static const struct cds_lfht_alloc slow_alloc = { s_malloc, s_calloc, s_realloc, s_aligned, s_free, 0 };
/* the fork bracket with the worker busy: returns 1 on a violation; *busy tells whether the worker was indeed caught inside a resize (a lazy resize request may be lost, see DESIGN.md 9.3) */
static struct ent eb[4*NN];
static int busy_bracket(const char *who, int round, int *busy){ int b=0;
  struct cds_lfht *h3=_cds_lfht_new_with_alloc(1,1,0,CDS_LFHT_AUTO_RESIZE,NULL,&rcu_flavor,&slow_alloc,NULL);
  if(!h3){ printf("BUG %s round %d: cds_lfht_new failed\n",who,round); return 1; }
  worker_seen=0; inworker=0; cmm_smp_mb(); slow_armed=1;
  rcu_read_lock(); for(int i=0;i<4*NN;i++){ eb[i].key=i; cds_lfht_node_init(&eb[i].n); cds_lfht_add(h3,(unsigned long)i*2654435761UL,&eb[i].n); } rcu_read_unlock();
  int k; for(k=0;k<2000 && !inworker;k++) usleep(500);
  *busy = inworker;
  call_rcu_before_fork();
  cmm_smp_mb();
  if(inworker){ printf("BUG %s round %d: call_rcu_before_fork() returned while the hash table's resize worker is inside a resize (not parked): fork() would copy its locks and its reader registration\n",who,round); b=1; }
  call_rcu_after_fork_parent();
  slow_armed=0;
  rcu_read_lock(); for(int i=0;i<4*NN;i++) cds_lfht_del(h3,&eb[i].n); rcu_read_unlock(); synchronize_rcu();
  if(cds_lfht_destroy(h3,NULL)){ printf("BUG %s round %d: destroy of the slow table failed\n",who,round); b=1; }
  return b; }
static int use_tables(struct cds_lfht *ht, struct ent *e, const char *who, int round){ int b=0; (void)ht;
  long live0=__sync_fetch_and_add(&live,0);
  struct cds_lfht *h2=_cds_lfht_new_with_alloc(1,1,0,CDS_LFHT_AUTO_RESIZE,NULL,&rcu_flavor,&rec_alloc,NULL);      /* takes the mutex the fork handlers hold across the fork */
  if(!h2){ printf("BUG %s round %d: cds_lfht_new failed\n",who,round); return 1; }
  rcu_read_lock();
  for(int i=0;i<NN;i++){ e[i].key=i; cds_lfht_node_init(&e[i].n); cds_lfht_add(h2,(unsigned long)i*2654435761UL,&e[i].n); }
  for(int i=0;i<NN;i++){ struct cds_lfht_iter it; cds_lfht_lookup(h2,(unsigned long)i*2654435761UL,match,&i,&it); if(cds_lfht_iter_get_node(&it)!=&e[i].n){ printf("BUG %s round %d: lookup of key %d fails\n",who,round,i); b=1; break; } }
  for(int i=0;i<NN;i++) if(cds_lfht_del(h2,&e[i].n)){ printf("BUG %s round %d: del of key %d fails\n",who,round,i); b=1; break; }
  rcu_read_unlock(); synchronize_rcu();
  if(cds_lfht_destroy(h2,NULL)){ printf("BUG %s round %d: destroy of an empty table failed\n",who,round); return 1; }
  int k; for(k=0;k<250;k++){ if(__sync_fetch_and_add(&live,0)<=live0) break; usleep(20000); }
  if(k==250){ printf("BUG %s round %d: the memory of a destroyed auto-resize table was not released within 5 s (%ld blocks outstanding): no worker thread serves the hash table work queue\n",who,round,__sync_fetch_and_add(&live,0)-live0); b=1; }
  return b; }
/* bp flavor, second compilation unit (fork_lfht_bp.c) */
extern const struct rcu_flavor_struct *bp_flavor(void); extern void bp_read_lock(void), bp_read_unlock(void), bp_synchronize_rcu(void);
extern void bp_call_rcu_before_fork(void), bp_call_rcu_after_fork_parent(void), bp_call_rcu_after_fork_child(void);
static volatile long progress; static const char *volatile stage="";
static void *watchdog(void *a){ (void)a; long last=-1; int idle=0; for(;;){ usleep(500000); long p=progress; if(p==last){ if(++idle>=30){ printf("BUG two-flavor fork bracket: no progress for 15 s at stage \"%s\" (the forking thread hangs inside the fork handlers)\n",stage); fflush(stdout); _exit(3); } } else { idle=0; last=p; } } return 0; }
static int use_bp_table(struct cds_lfht *hb, struct ent *e, const char *who, int round){ int b=0;
  bp_read_lock();
  for(int i=0;i<NN;i++){ e[i].key=i; cds_lfht_node_init(&e[i].n); cds_lfht_add(hb,(unsigned long)i*2654435761UL,&e[i].n); }
  for(int i=0;i<NN;i++){ struct cds_lfht_iter it; cds_lfht_lookup(hb,(unsigned long)i*2654435761UL,match,&i,&it); if(cds_lfht_iter_get_node(&it)!=&e[i].n){ printf("BUG %s round %d: lookup of key %d in the bp table fails\n",who,round,i); b=1; break; } }
  for(int i=0;i<NN;i++) if(cds_lfht_del(hb,&e[i].n)){ printf("BUG %s round %d: del of key %d in the bp table fails\n",who,round,i); b=1; break; }
  bp_read_unlock(); bp_synchronize_rcu(); return b; }
static int two_flavors(int rounds){ int bad=0; pthread_t wd; pthread_create(&wd,NULL,watchdog,NULL);
  struct ent *e=calloc(NN,sizeof *e), *e2=calloc(NN,sizeof *e2);
  struct cds_lfht *ht=cds_lfht_new(1,1,0,CDS_LFHT_AUTO_RESIZE,NULL);
  struct cds_lfht *hb=_cds_lfht_new(1,1,0,CDS_LFHT_AUTO_RESIZE,NULL,bp_flavor(),NULL);
  if(!ht||!hb){ printf("BUG cds_lfht_new failed\n"); return 1; }
  for(int r=0;r<rounds && !bad;r++){
    fflush(stdout); stage="call_rcu_before_fork (memb)"; progress++; call_rcu_before_fork(); stage="call_rcu_before_fork (bp)"; progress++; bp_call_rcu_before_fork(); stage="fork"; progress++;
    pid_t p=fork();
    if(p==0){ alarm(20); bp_call_rcu_after_fork_child(); call_rcu_after_fork_child();
      rcu_read_lock(); rcu_read_unlock(); synchronize_rcu();
      int b=use_tables(ht,e,"child (two flavors)",r); if(!b) b=use_bp_table(hb,e2,"child (two flavors)",r);
      fflush(stdout); _exit(b?3:0); }
    stage="call_rcu_after_fork_parent (bp)"; progress++; bp_call_rcu_after_fork_parent(); stage="call_rcu_after_fork_parent (memb)"; progress++; call_rcu_after_fork_parent(); stage="use"; progress++;
    bad|=use_tables(ht,e,"parent (two flavors)",r); progress++; bad|=use_bp_table(hb,e2,"parent (two flavors)",r); progress++;
    int st=-2; for(int k=0;k<500;k++){ progress++; int s2=0; pid_t q=waitpid(p,&s2,WNOHANG); if(q==p){ st=s2; break; } usleep(50000); }
    if(st==-2){ kill(p,SIGKILL); waitpid(p,&st,0); printf("BUG child round %d (two flavors): hangs (killed after 25 s)\n",r); bad=1; }
    else if(WIFSIGNALED(st)){ printf("BUG child round %d (two flavors): killed by signal %d (14 = did not finish within 20 s)\n",r,WTERMSIG(st)); bad=1; }
    else if(WEXITSTATUS(st)){ printf("BUG child round %d (two flavors): reported a failure\n",r); bad=1; }
    printf("round %d mode 2 %s\n",r,bad?"failed":"ok"); }
  fflush(stdout); _exit(bad); }
int main(int argc,char**argv){ int rounds=argc>1?atoi(argv[1]):3, mode=argc>2?atoi(argv[2]):0; int bad=0;
  if(mode==2){ rcu_register_thread(); app_thread=pthread_self(); return two_flavors(rounds); }
  rcu_register_thread(); app_thread=pthread_self(); int nbusy=0, nbr=0;
  struct ent *e=calloc(NN,sizeof *e);
  if(mode){ static struct rcu_head h; call_rcu(&h,cbf); rcu_barrier(); }
  struct cds_lfht *ht=cds_lfht_new(1,1,0,CDS_LFHT_AUTO_RESIZE,NULL);
  if(!ht){ printf("BUG cds_lfht_new failed\n"); return 1; }
  for(int r=0;r<rounds && !bad;r++){
    fflush(stdout); call_rcu_before_fork(); pid_t p=fork();
    if(p==0){ alarm(20); call_rcu_after_fork_child();
      rcu_read_lock(); rcu_read_unlock(); synchronize_rcu();
      int b=use_tables(ht,e,"child",r); int cb=0; if(!b){ b=busy_bracket("child",r,&cb); if(!b) b=use_tables(ht,e,"child (after its own fork bracket)",r); }
      printf("child round %d busy-worker bracket %s\n",r,cb?"exercised":"not exercised"); fflush(stdout); _exit(b?3:0); }
    call_rcu_after_fork_parent();
    bad|=use_tables(ht,e,"parent",r);
    { int pb=0; bad|=busy_bracket("parent",r,&pb); nbusy+=pb; nbr++; }
    int st=wait_child(p,25); if(st==-1){ printf("BUG child round %d: hangs (killed after 25 s)\n",r); bad=1; } else if(WIFSIGNALED(st)){ printf("BUG child round %d: killed by signal %d (14 = did not finish within 20 s)\n",r,WTERMSIG(st)); bad=1; } else if(WEXITSTATUS(st)){ printf("BUG child round %d: exit status %d\n",r,WEXITSTATUS(st)); bad=1; }
    printf("round %d mode %d %s\n",r,mode,bad?"failed":"ok"); }
  printf("parent busy-worker brackets exercised %d of %d\n",nbusy,nbr);
  fflush(stdout); _exit(bad); }
