/* C15 bp registry arena probe: the real arena_alloc / expand_arena / cleanup_thread / find_chunk of src/urcu-bp.c driven sequentially (as they are
   under rcu_registry_lock), with mremap forced to fail or allowed to try (its real outcome is recorded as the oracle bit).  Every operation prints
   the slot as (chunk ordinal, index) and then the allocation bits of every chunk; addresses of live slots are checked never to move.
   ocaml/bparena_driver.ml runs BpArena.alloc / free / prune on the same operations (X = the fork child's urcu_bp_prune_registry). */
#define _GNU_SOURCE
#include <stdio.h>
#include <stdlib.h>
#include <stdint.h>
#include <sys/mman.h>
static int force_fail, last_ok;
static void *verif_mremap(void *old, size_t os, size_t ns, int fl){ if(force_fail){ last_ok=0; return MAP_FAILED; } void *r=mremap(old,os,ns,fl); last_ok=(r!=MAP_FAILED); return r; }
#define mremap(a,b,c,d) verif_mremap(a,b,c,d)
#include "/repo/src/urcu-bp.c"
#undef mremap
static uint64_t rs; static uint64_t rnd(void){ rs ^= rs << 13; rs ^= rs >> 7; rs ^= rs << 17; return rs; }
static int chunk_ord(struct registry_chunk *c){ int i=0; struct registry_chunk *k; cds_list_for_each_entry(k,&registry_arena.chunk_list,node){ if(k==c) return i; i++; } return -1; }
static void dump(void){ struct registry_chunk *k; cds_list_for_each_entry(k,&registry_arena.chunk_list,node){ printf(" ["); size_t u=0; for(size_t j=0;j<k->capacity;j++){ putchar(k->readers[j].alloc?'1':'0'); u+=k->readers[j].alloc!=0; } printf("]"); if(u!=k->used) printf(" BUG used=%zu counted=%zu",k->used,u); } printf("\n"); }
#define MAXL 4096
static struct rcu_reader *live[MAXL]; static int lc[MAXL], lj[MAXL]; static int nl;
int main(int argc,char**argv){
  long n = argc>1 ? atol(argv[1]) : 300; rs = (argc>2 ? strtoull(argv[2],0,10) : 1) * 2654435761u + 88172645463325252ull;
  int mode = argc>3 ? atoi(argv[3]) : 0;      /* 0 mixed, 1 mremap always fails, 2 mostly allocations (growth) */
  printf("INIT %d\n",(int)INIT_READER_COUNT);
  for(long k=0;k<n;k++){ uint64_t r=rnd(); int doalloc = mode==2 ? (r%8!=0) : (r%5<3);
    if(doalloc && nl<MAXL){ force_fail = mode==1 || (r>>8)%3==0; last_ok=-1;
      struct rcu_reader *p=arena_alloc(&registry_arena); if(!p){ printf("A -> NULL\n"); continue; }
      cds_list_add(&p->node,&registry);
      struct registry_chunk *c=find_chunk(p); int ci=chunk_ord(c), j=(int)(p-&c->readers[0]);
      printf("A %d -> %d %d |", last_ok, ci, j); dump(); live[nl]=p; lc[nl]=ci; lj[nl]=j; nl++; }
    else if(nl>1 && (r>>40)%24==0){ /* child side of fork: only the forking thread's slot survives (urcu_bp_prune_registry) */
      int i=(r>>16)%nl; for(int k2=0;k2<nl;k2++) live[k2]->tid = (k2==i) ? pthread_self() : (pthread_t)1;
      urcu_bp_prune_registry(); printf("X %d %d |",lc[i],lj[i]); dump(); live[0]=live[i]; lc[0]=lc[i]; lj[0]=lj[i]; nl=1; }
    else if(nl){ int i=(r>>16)%nl; struct rcu_reader *p=live[i]; struct registry_chunk *c=find_chunk(p);
      if(chunk_ord(c)!=lc[i] || (int)(p-&c->readers[0])!=lj[i]) printf("BUG slot moved\n");
      cleanup_thread(c,p); printf("F %d %d |",lc[i],lj[i]); dump(); live[i]=live[nl-1]; lc[i]=lc[nl-1]; lj[i]=lj[nl-1]; nl--; }
    /* stability: every live slot still has its (chunk, index) name and its alloc bit */
    for(int i=0;i<nl;i++){ struct registry_chunk *c=find_chunk(live[i]); if(!c || chunk_ord(c)!=lc[i] || (int)(live[i]-&c->readers[0])!=lj[i] || !live[i]->alloc){ printf("BUG live slot %d %d moved or lost\n",lc[i],lj[i]); break; } }
  }
  return 0; }
