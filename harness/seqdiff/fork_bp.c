/* C16 real-fork probe, bp flavor (compiled from /repo's src/urcu-bp.c): fork() bracketed by the bp handlers and the call_rcu handlers while other threads are
   registered readers - one of them inside a read-side critical section, registered behind a slot freed by an exited thread.  The child (only the forking
   thread) must be able to run a read-side section, synchronize_rcu(), call_rcu() + rcu_barrier() at once; the parent continues unaffected; the child's registry
   holds only the forking thread.  All waits are bounded. */
#define _GNU_SOURCE
#include "/repo/src/urcu-bp.c"
#include <stdio.h>
#include <stdlib.h>
#include <unistd.h>
#include <sys/wait.h>
#include <semaphore.h>
static sem_t in_cs[4], leave[4], quit[4]; static int ncb;
static void cb(struct rcu_head *h){ (void)h; __sync_fetch_and_add(&ncb,1); }
static void *reader(void *a){ long k=(long)a; urcu_bp_read_lock(); sem_post(&in_cs[k]); sem_wait(&leave[k]); urcu_bp_read_unlock(); sem_wait(&quit[k]); return 0; }
static void *shortlived(void *a){ (void)a; urcu_bp_read_lock(); urcu_bp_read_unlock(); return 0; }     /* registers, then exits: leaves a hole in the arena */
static int wait_child(pid_t p, int secs){ int st=0; for(int k=0;k<secs*20;k++){ pid_t r=waitpid(p,&st,WNOHANG); if(r==p) return st; usleep(50000); } kill(p,SIGKILL); waitpid(p,&st,0); return -1; }
static int registry_count(void){ int n=0; struct rcu_reader *r; cds_list_for_each_entry(r,&registry,node) n++; return n; }
int main(int argc,char**argv){ int rounds=argc>1?atoi(argv[1]):4; int bad=0;
  urcu_bp_read_lock(); urcu_bp_read_unlock();          /* the forking thread is a registered reader */
  for(int r=0;r<rounds && !bad;r++){
    pthread_t a, rd[2]; for(int k=0;k<2;k++){ sem_init(&in_cs[k],0,0); sem_init(&leave[k],0,0); sem_init(&quit[k],0,0); }
    int hole = r&1;
    if(hole){ pthread_create(&a,0,shortlived,0); }               /* A registers first ... */
    if(hole) usleep(20000);
    for(long k=0;k<2;k++){ pthread_create(&rd[k],0,reader,(void*)k); sem_wait(&in_cs[k]); }   /* ... then the readers, which stay inside a section */
    if(hole) pthread_join(a,0);                                   /* ... and A exits: its slot in front of theirs is free */
    static struct rcu_head hs[20]; ncb=0; for(int i=0;i<20;i++) urcu_bp_call_rcu(&hs[i],cb);
    fflush(stdout); urcu_bp_call_rcu_before_fork(); urcu_bp_before_fork(); pid_t p=fork();
    if(p==0){ alarm(15); urcu_bp_after_fork_child();
      int n=registry_count();           /* before the call_rcu handler: it creates a helper thread, which registers itself as a reader */
      urcu_bp_call_rcu_after_fork_child(); int b=0; if(n!=1){ printf("BUG child round %d: registry holds %d readers, expected only the forking thread\n",r,n); b=1; }
      urcu_bp_read_lock(); urcu_bp_read_unlock(); urcu_bp_synchronize_rcu(); urcu_bp_barrier();
      if(ncb!=20){ printf("BUG child round %d: %d of 20 callbacks ran\n",r,ncb); b=1; }
      fflush(stdout); _exit(b?3:0); }
    urcu_bp_after_fork_parent(); urcu_bp_call_rcu_after_fork_parent();
    for(int k=0;k<2;k++) sem_post(&leave[k]);
    urcu_bp_barrier(); if(ncb!=20){ printf("BUG parent round %d: %d of 20 callbacks ran\n",r,ncb); bad=1; }
    int st=wait_child(p,20); if(st==-1){ printf("BUG child round %d (hole=%d): hangs in synchronize_rcu / rcu_barrier (killed after 20 s)\n",r,hole); bad=1; } else if(!WIFEXITED(st)||WEXITSTATUS(st)){ printf("BUG child round %d: exit status %x\n",r,st); bad=1; }
    for(int k=0;k<2;k++){ sem_post(&quit[k]); pthread_join(rd[k],0); }
    printf("round %d hole %d %s\n",r,hole,bad?"failed":"ok"); }
  fflush(stdout); _exit(bad); }
