/* wfstack scenario: real static/wfstack.h under the controlled scheduler (strict TSO rule).
   usage: scen_wfs PROG SCHED ; ops: P<d> push node d; a = __cds_wfs_pop_all followed by cds_wfs_for_each_blocking over the returned head
   (the visited nodes are recorded); p = cds_wfs_pop_blocking (internal mutex); s = cds_wfs_pop_with_state_blocking; e = cds_wfs_empty;
   n = non-blocking pop under the lock (may report WOULDBLOCK); A = cds_wfs_pop_all_blocking (internal mutex) + iteration; R = push again the top node this
   thread's last pop_all returned (node reuse by its owner; nothing if it owns none); r = initialise and push again, at once, the node this thread's last successful p
   returned (nothing if none). The model Wfs.v covers P and a, the model WfsMx.v covers P, p and r; the other ops are checked by the oracle only. */
#define _LGPL_SOURCE
#include <urcu/wfstack.h>
#include <stdio.h>
#include <stdlib.h>
#include <string.h>
#include "sched.h"
#define MAXTH 6
static struct cds_wfs_stack s; static struct cds_wfs_node n[10];
static char *prog[MAXTH]; static int nprog;
static void body(int t){
  struct cds_wfs_node *own=0, *lastp=0;
  for(char *p=prog[t]; *p; p++){
	if(*p=='P'){ struct cds_wfs_node *x=&n[p[1]-'0']; p++; vs_call("push",(unsigned long)x); int r=cds_wfs_push(&s,x); vs_ret("push",r); }
	else if(*p=='a'){ vs_call("popall",0); struct cds_wfs_head *h=__cds_wfs_pop_all(&s); struct cds_wfs_node *x; char buf[256]; int l=0; buf[0]=0;
		cds_wfs_for_each_blocking(h,x){ l+=sprintf(buf+l,"%d,",(int)(x-n)); } vs_note("chain %s",buf); vs_ret("popall",0); }
	else if(*p=='A'){ vs_call("popall",0); struct cds_wfs_head *h=cds_wfs_pop_all_blocking(&s); struct cds_wfs_node *x; char buf[256]; int l=0; buf[0]=0;
		cds_wfs_for_each_blocking(h,x){ if(!l) own=x; l+=sprintf(buf+l,"%d,",(int)(x-n)); } vs_note("chain %s",buf); vs_ret("popall",0); }
	else if(*p=='R'){ if(own){ struct cds_wfs_node *x=own; own=0; cds_wfs_node_init(x); vs_call("push",(unsigned long)x); int r=cds_wfs_push(&s,x); vs_ret("push",r); } }
	else if(*p=='p'){ vs_call("pop",0); struct cds_wfs_node *x=cds_wfs_pop_blocking(&s); if(x) lastp=x; vs_ret("pop",(unsigned long)x); }
	else if(*p=='r'){ if(lastp){ struct cds_wfs_node *x=lastp; lastp=0; cds_wfs_node_init(x); vs_call("push",(unsigned long)x); int r=cds_wfs_push(&s,x); vs_ret("push",r); } else vs_note("norepush"); }
	else if(*p=='s'){ int st=0; vs_call("pops",0); struct cds_wfs_node *x=cds_wfs_pop_with_state_blocking(&s,&st); vs_note("state %d",st); vs_ret("pops",(unsigned long)x); }
	else if(*p=='n'){ vs_call("popnb",0); cds_wfs_pop_lock(&s); struct cds_wfs_node *x=__cds_wfs_pop_nonblocking(&s); cds_wfs_pop_unlock(&s); vs_ret("popnb",(unsigned long)x); }
	else if(*p=='e'){ vs_call("empty",0); int r=cds_wfs_empty(&s); vs_ret("empty",r); } } }
int main(int argc,char**argv){
	static char obuf[1<<20]; setvbuf(stdout,obuf,_IOFBF,sizeof obuf);
	if(argc<3) return 9;
	for(char *q=strtok(argv[1],"/"); q && nprog<MAXTH; q=strtok(0,"/")) prog[nprog++]=q;
	cds_wfs_init(&s); for(int i=0;i<10;i++) cds_wfs_node_init(&n[i]);
	vs_region(&s.head,sizeof s.head,"head"); vs_region(&s.lock,sizeof s.lock,"lock"); vs_region(n,sizeof n,"n"); vs_plain_track(n,sizeof n);
	for(int i=0;i<nprog;i++) vs_spawn(body);
	vs_run(argv[2]);
	fflush(stdout); _exit(0); }
