/* controlled scheduler interface (harness side of the correspondence check) */
#ifndef VS_SCHED_H
#define VS_SCHED_H
#include "verif_hooks.h"
/* name a memory region so that addresses and pointer values print symbolically */
void vs_region(const void *base, size_t sz, const char *name);
/* create a scenario thread; it runs up to its first hook and parks there */
void vs_spawn(void (*fn)(int));
/* run the schedule: digit = Step t, 'a'+t = Flush t, 'A'+t = spurious futex return for t,
   '!' followed by digit = EINTR for t, '~' followed by digit = the next FUTEX_WAIT of t returns ENOSYS (spuriously; wakes still reach the kernel), '^'+digit = deliver the registered signal handler on t (a thread asleep in FUTEX_WAIT runs it and the wait then returns EINTR),
   '>'+digit = run t until it completes its current operation (next ret event) or blocks, '}'+digit = the same alone, at most 400 own steps, with a "t solo N ok/LIMIT/blocked" report line.
   After the string ends, remaining threads are completed round-robin (flush first). */
void vs_run(const char *sched);
void vs_call(const char *op, unsigned long a);
void vs_ret(const char *op, unsigned long r);
/* free-form event line (not a scheduling point) */
void vs_note(const char *fmt, ...);
/* quarantine: after vs_retire(p,sz) every hooked access into [p,p+sz) is reported as UAF */
void vs_retire(const void *p, size_t sz);
void vs_unretire(const void *p);
/* plain stores into [p,p+sz) by code compiled with -fsanitize=thread (+ plain_hooks.c) become scheduling points and buffered stores */
void vs_plain_track(const void *p, size_t sz);
/* no preemption / no events between begin and end (sub-component treated as atomic) */
void vs_atomic_begin(void);
void vs_atomic_end(void);
void vs_quiet_begin(void);
void vs_quiet_end(void);
/* a handler to run on thread t at a '^t' choice */
void vs_set_signal_handler(void (*fn)(int));
/* signals chosen while the thread holds m stay pending until it unlocks m */
void vs_defer_signals_while_holding(pthread_mutex_t *m);
void vs_defer_signals_only_if(int (*pred)(int t));
void vs_freeze_lib_threads(void);
extern int vs_end_with_apps;
int vs_is_app(int t);
extern unsigned long vs_create_fail_mask; /* bit k: the k-th pthread_create of the run fails with EAGAIN */
extern int vs_tso;        /* 1: simulate store buffers (default), 0: SC */
extern int vs_strict;     /* 1: RMW/fence/lock/futex enabled only on an empty own buffer (default) */
extern int vs_self(void); /* scenario thread id of the caller, -1 outside */
extern int vs_mutex_owner(pthread_mutex_t *m); /* scenario thread id holding m under the mutex emulation, -1 when free */
extern long vs_steps(int t); /* number of hooked steps taken by t so far */
#endif
