/* defer_rcu scenario: real src/urcu-defer-impl.h (inside src/urcu.c, memb flavor) under the controlled scheduler, with its background reclaimer thread
   (created by the library through the interposed pthread_create and scheduled like any other thread).
   usage: scen_defer PROG SCHED ; ops per thread:
     R rcu_defer_register_thread   U rcu_defer_unregister_thread   D<i> defer_rcu(fn, object i)   B rcu_defer_barrier()
     W wait, without any further API call, until every call this thread queued so far has been made (the background reclaimer must make them)
     ( ) read-side section
   The deferred call is recorded instead of executed (hook URCU_VERIF_DEFER_CALL); the ring is small (hook URCU_VERIF_DEFER_QUEUE_SIZE). */
#include <stdio.h>
#include <stdlib.h>
static void record_call(void (*f)(void *), void *p);
#define URCU_VERIF_DEFER_CALL(f, p) record_call(f, p)
#define RCU_MEMBARRIER
#include "/repo/src/urcu.c"
#include "sched.h"
#include <string.h>
#define MAXTH 6
#define NO 16
static unsigned long ran[NO]; static int owner[NO]; static unsigned long queued[MAXTH], done_[MAXTH];
static char *prog[MAXTH]; static int nprog; static char tn[MAXTH+4][8], dn[MAXTH+4][8];
static void fn_a(void *p){ (void)p; } static void fn_b(void *p){ (void)p; }
static void record_call(void (*f)(void *), void *p){ long i=(long)p>>4; vs_call("dcall",(unsigned long)i); vs_note("fn %c arg %lx",f==fn_a?'a':f==fn_b?'b':'?',(unsigned long)p);
	if(i>=0&&i<NO){ ran[i]++; CMM_STORE_SHARED(done_[owner[i]],done_[owner[i]]+1); } vs_ret("dcall",(unsigned long)i); }
static void body(int t){
	sprintf(tn[t],"rd%d",t); vs_region(&URCU_TLS(rcu_reader).ctr,sizeof(unsigned long),tn[t]);
	sprintf(dn[t],"dq%d",t); vs_region(&URCU_TLS(defer_queue),sizeof(struct defer_queue),dn[t]);
	vs_quiet_begin(); rcu_register_thread(); vs_quiet_end();
	int depth=0;
	for(char *p=prog[t]; *p; p++){
		switch(*p){
		case 'R': vs_call("dreg",0); rcu_defer_register_thread(); vs_ret("dreg",0); break;
		case 'U': vs_call("dunreg",0); rcu_defer_unregister_thread(); vs_ret("dunreg",0); break;
		case 'D': { int i=p[1]-'a'>=0&&p[1]>='a'? 10+p[1]-'a' : p[1]-'0'; p++; owner[i]=t; queued[t]++;
			/* argument: object index in the high bits, low bit patterns that exercise the encoding (odd = looks like a function pointer) */
			void *arg=(void*)(((long)i<<4)|(i%3==1?1:0)); vs_call("defer",i); defer_rcu((i&4)?fn_b:fn_a,arg); vs_ret("defer",i); break; }
		case 'B': vs_call("dbarrier",0); rcu_defer_barrier(); vs_ret("dbarrier",0); break;
		case 'W': vs_call("dwait",queued[t]); while(CMM_LOAD_SHARED(done_[t])<queued[t]) caa_cpu_relax(); vs_ret("dwait",0); break;
		case '(': vs_call("lock",depth); rcu_read_lock(); vs_ret("lock",0); depth++; break;
		case ')': vs_call("unlock",depth); rcu_read_unlock(); vs_ret("unlock",0); depth--; break;
		}
	}
	rcu_unregister_thread();      /* scheduled like any operation: it takes the registry lock, which the reclaimer may hold inside its grace period */
}
int main(int argc,char**argv){
	static char obuf[1<<22]; setvbuf(stdout,obuf,_IOFBF,sizeof obuf);
	if(argc<3) return 9;
	for(char *s=strtok(argv[1],"/"); s && nprog<MAXTH; s=strtok(0,"/")) prog[nprog++]=s;
	rcu_init();
	vs_region(&rcu_gp.ctr,8,"gp.ctr"); vs_region(&rcu_gp.futex,4,"gp.futex"); vs_region(&rcu_gp_lock,sizeof rcu_gp_lock,"gp_lock"); vs_region(&rcu_registry_lock,sizeof rcu_registry_lock,"reg_lock");
	vs_region(&gp_waiters,sizeof gp_waiters,"waiters"); vs_region(&rcu_defer_mutex,sizeof rcu_defer_mutex,"dmutex"); vs_region(&defer_thread_mutex,sizeof defer_thread_mutex,"dtmutex");
	vs_region(&defer_thread_futex,4,"dfutex"); vs_region(&defer_thread_stop,4,"dstop"); vs_region(done_,sizeof done_,"done");
	printf("- size %d\n",(int)DEFER_QUEUE_SIZE);
	printf("- dqoff %d %d\n",(int)offsetof(struct defer_queue,head),(int)offsetof(struct defer_queue,tail));
	for(int i=0;i<nprog;i++) vs_spawn(body);
	vs_run(argv[2]);
	for(int i=0;i<NO;i++) if(ran[i]) printf("- ran %d %lu\n", i, ran[i]);
	fflush(stdout); _exit(0); }
