#define RCU_MEMBARRIER
#include "urcu_a2_d.c"
#include "sched.h"
static int seq[4][64], nseq[4]; static int expect[4];
static char tn[8][8];
static void treg(int t){ sprintf(tn[t],"rd%d",t); vs_region(&URCU_TLS(rcu_reader),sizeof(struct urcu_reader),tn[t]); }
static void f1(void *p){ unsigned long v=(unsigned long)p; int t=v>>8, k=v&0xff; if(k!=expect[t]) printf("VIOLATION defer order thread %d got %d expected %d\n",t,k,expect[t]); expect[t]++; }
static void f2(void *p){ f1(p); }
static void user(int t){ treg(t); rcu_register_thread(); rcu_defer_register_thread();
	for(int i=0;i<14;i++){ defer_rcu((i%5<3)?f1:f2,(void*)(unsigned long)((t<<8)|i)); }
	rcu_defer_barrier();
	if(expect[t]!=14) printf("VIOLATION defer barrier: thread %d only %d ran\n",t,expect[t]);
	rcu_defer_unregister_thread();
#ifdef REREG
	rcu_defer_register_thread(); defer_rcu(f1,(void*)(unsigned long)((t<<8)|14)); rcu_defer_unregister_thread();
	if(expect[t]!=15) printf("VIOLATION defer after re-register: thread %d only %d ran\n",t,expect[t]);
#endif
	rcu_unregister_thread(); }
static void reader(int t){ treg(t); rcu_register_thread(); for(int i=0;i<3;i++){ rcu_read_lock(); rcu_read_unlock(); } rcu_unregister_thread(); }
int main(int argc,char**argv){ setvbuf(stdout,0,_IOLBF,0);
	vs_region(&rcu_gp.ctr,8,"gp.ctr"); vs_region(&rcu_gp.futex,4,"gp.futex"); vs_region(&defer_thread_futex,4,"dfutex");
	vs_spawn(user); vs_spawn(user); vs_spawn(reader);
	vs_run(argc>1?argv[1]:""); fflush(stdout); _exit(0); }
