/* lfstack scenario: real static/lfstack.h (the mutex-protected *_blocking API) under the controlled scheduler.
   usage: scen_lfs PROG SCHED ; ops: P<d> push node d, p = cds_lfs_pop_blocking, a = cds_lfs_pop_all_blocking (returned chain is walked
   and recorded), r = push again the node obtained by this thread's last pop / the top node of its last pop_all, e = cds_lfs_empty */
#define _LGPL_SOURCE
#include <urcu/lfstack.h>
#include <stdio.h>
#include <stdlib.h>
#include <string.h>
#include "sched.h"
#define MAXTH 6
static struct cds_lfs_stack s; static struct cds_lfs_node n[10];
static char *prog[MAXTH]; static int nprog;
static void body(int t){ struct cds_lfs_node *last=0;
  for(char *p=prog[t]; *p; p++){
	if(*p=='P'||*p=='r'){ struct cds_lfs_node *x= *p=='P' ? &n[p[1]-'0'] : last; if(*p=='P') p++; if(!x){ vs_call("skip",0); vs_ret("skip",0); continue; } if(*p=='r') last=0;
		vs_call("push",(unsigned long)x); int r=cds_lfs_push(&s,x); vs_ret("push",r); }
	else if(*p=='p'){ vs_call("pop",0); struct cds_lfs_node *x=cds_lfs_pop_blocking(&s); if(x) last=x; vs_ret("pop",(unsigned long)x); }
	else if(*p=='a'){ vs_call("popall",0); struct cds_lfs_head *h=cds_lfs_pop_all_blocking(&s); struct cds_lfs_node *x; char buf[256]; int l=0; buf[0]=0;
		cds_lfs_for_each(h,x){ l+=sprintf(buf+l,"%d,",(int)(x-n)); } if(h) last=&h->node; vs_note("chain %s",buf); vs_ret("popall",(unsigned long)h); }
	else if(*p=='e'){ vs_call("empty",0); int r=cds_lfs_empty(&s); vs_ret("empty",r); } } }
int main(int argc,char**argv){
	static char obuf[1<<20]; setvbuf(stdout,obuf,_IOFBF,sizeof obuf);
	if(argc<3) return 9;
	for(char *q=strtok(argv[1],"/"); q && nprog<MAXTH; q=strtok(0,"/")) prog[nprog++]=q;
	cds_lfs_init(&s); for(int i=0;i<10;i++) cds_lfs_node_init(&n[i]);
	vs_region(&s.head,sizeof s.head,"head"); vs_region(&s.lock,sizeof s.lock,"lock"); vs_region(n,sizeof n,"n"); vs_plain_track(n,sizeof n);
	vs_strict=0;
	for(int i=0;i<nprog;i++) vs_spawn(body);
	vs_run(argv[2]);
	{ struct cds_lfs_node *x=&s.head->node; printf("- final"); while(s.head && x){ printf(" %d",(int)(x-n)); x=x->next; } printf("\n"); }
	fflush(stdout); _exit(0); }
