/* grace-period scenario: real src/urcu.c (memb or mb flavor) under the controlled scheduler with simulated store buffers.
   usage: scen_gp PROG SCHED ; thread programs separated by '/':
     reader:  ( rcu_read_lock   ) rcu_read_unlock   r load post_g then pre_g for every g   q load pre_g then post_g
     updater: S  = pre_g := 1; synchronize_rcu(); post_g := 1   (g numbered per occurrence)
     with -DDYNREG (C15): R = rcu_register_thread(), U = rcu_unregister_thread() as scheduled operations; a program starting with '-' starts
     unregistered; threads leave as soon as their program ends (the registry changes while grace periods run)
     W<t> = wait (spinning) until thread t has completed an R operation (the reader's exit then depends on a registration)
   Litmus violations are printed as "LITMUS ..." lines; the timing oracle and the refinement check work on the trace. */
#ifdef FLAVOR_MB
#define RCU_MB
#else
#define RCU_MEMBARRIER
#endif
#include "/repo/src/urcu.c"
#include "sched.h"
#include <string.h>
#define MAXTH 6
#define NG 16
static unsigned long pre[NG], post[NG]; static int ng_total;
static char *prog[MAXTH]; static int nprog; static int gbase[MAXTH];
static char tlsname[MAXTH][16]; static long updaters_left;
extern int vs_membarrier_available;
static unsigned long regdone[8];
static void body(int t){
	int reader = strchr(prog[t],'S') == 0; int g = gbase[t]; int depth = 0;
	unsigned long vpost[NG], vpre[NG]; int have = 0;
	sprintf(tlsname[t],"rd%d",t); vs_region(&URCU_TLS(rcu_reader).ctr,sizeof(unsigned long),tlsname[t]);
	int registered = 1;
#ifdef DYNREG
	if(prog[t][0]=='-') registered = 0; else
#endif
	{ vs_quiet_begin(); rcu_register_thread(); vs_quiet_end(); }
	(void)reader;
	for(char *p=prog[t]; *p; p++){
		switch(*p){
		case '(': vs_call("lock",depth); rcu_read_lock(); vs_ret("lock",0); depth++; break;
		case ')': vs_call("unlock",depth); rcu_read_unlock(); vs_ret("unlock",0); depth--; if(!depth) have=0; break;
		case 'r': for(int i=0;i<ng_total;i++) vpost[i]=CMM_LOAD_SHARED(post[i]); for(int i=0;i<ng_total;i++) vpre[i]=CMM_LOAD_SHARED(pre[i]);
			if(depth) for(int i=0;i<ng_total;i++) if(vpost[i]==1 && vpre[i]==0) printf("LITMUS reader %d saw post_%d=1 then pre_%d=0 inside one section\n",t,i,i);
			break;
		case 'q': for(int i=0;i<ng_total;i++) vpre[i]=CMM_LOAD_SHARED(pre[i]); for(int i=0;i<ng_total;i++) vpost[i]=CMM_LOAD_SHARED(post[i]);
			if(depth) for(int i=0;i<ng_total;i++) if(vpost[i]==1 && vpre[i]==0) printf("LITMUS reader %d saw pre_%d=0 then post_%d=1 inside one section\n",t,i,i);
			break;
#ifdef DYNREG
		case 'R': if(!registered){ vs_call("register",0); rcu_register_thread(); vs_ret("register",0); registered=1; CMM_STORE_SHARED(regdone[t],1); } break;
		case 'W': { int o=p[1]-'0'; p++; vs_call("waitreg",o); while(!CMM_LOAD_SHARED(regdone[o])) caa_cpu_relax(); vs_ret("waitreg",o); } break;      /* an application-level dependency: go on only when thread o has registered */
		case 'U': if(registered && !depth){ vs_call("unregister",0); rcu_unregister_thread(); vs_ret("unregister",0); registered=0; } break;
#endif
		case 'S': CMM_STORE_SHARED(pre[g],1); vs_call("sync",g); synchronize_rcu(); vs_ret("sync",g); CMM_STORE_SHARED(post[g],1); g++; break;
		}
	}
	(void)have;
	/* keep the registry static while grace periods run (the Layer-A model has a fixed registry; C15 varies it): leave only
	   after every updater has finished */
#ifndef DYNREG
	if(!reader) uatomic_dec(&updaters_left);
	while(CMM_LOAD_SHARED(updaters_left)) caa_cpu_relax();
	rcu_unregister_thread();
#else
	if(registered){ vs_call("unregister",0); rcu_unregister_thread(); vs_ret("unregister",0); }
#endif
}
int main(int argc,char**argv){
	static char obuf[1<<22]; setvbuf(stdout,obuf,_IOFBF,sizeof obuf);
	if(argc<3) return 9;
#ifdef FUTEX_ENOSYS
	{ extern int vs_futex_enosys; vs_futex_enosys = 1; }
#endif
#ifdef NO_MEMBARRIER
	vs_membarrier_available = 0;
#endif
	for(char *s=strtok(argv[1],"/"); s && nprog<MAXTH; s=strtok(0,"/")){ gbase[nprog]=ng_total; for(char *c=s;*c;c++) if(*c=='S') ng_total++; if(strchr(s,'S')) updaters_left++; prog[nprog++]=s; }
	rcu_init();
	vs_region(&rcu_gp.ctr,8,"gp.ctr"); vs_region(&rcu_gp.futex,4,"gp.futex"); vs_region(&rcu_gp_lock,sizeof rcu_gp_lock,"gp_lock"); vs_region(&rcu_registry_lock,sizeof rcu_registry_lock,"reg_lock");
	vs_region(&gp_waiters,sizeof gp_waiters,"waiters"); vs_region(pre,sizeof pre,"pre"); vs_region(post,sizeof post,"post"); vs_region(&updaters_left,8,"uleft");
	
#ifdef RCU_MEMBARRIER
	printf("- has_sys_membarrier %d\n", (int)urcu_memb_has_sys_membarrier);
#endif
	for(int i=0;i<nprog;i++) vs_spawn(body);
	vs_run(argv[2]);
	fflush(stdout); _exit(0); }
