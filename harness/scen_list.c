/* C18 scenario: real urcu/rculist.h and urcu/rcuhlist.h under the controlled scheduler.
   usage: scen_list PROG SCHED ; thread 0 is the (only) updater, the other threads are readers.
   updater ops: a<i> cds_list_add_rcu, t<i> cds_list_add_tail_rcu, d<i> cds_list_del_rcu, r<i><j> cds_list_replace_rcu(i by j),
                h<i> cds_hlist_add_head_rcu, x<i> cds_hlist_del_rcu, g = wait for a grace period (all sections open now end), then
                poison every node removed before it (any later access is reported)
   reader ops:  F = cds_list_for_each_entry_rcu, f = cds_list_for_each_rcu, H = cds_hlist_for_each_entry_rcu_2,
                G = cds_hlist_for_each_entry_rcu (4 arguments), each in its own read-side section; visited entries are recorded.
   Entries are initialised (magic) before they are published; readers check the magic of every entry they visit. */
#define _LGPL_SOURCE
#include <stdio.h>
#include <stdlib.h>
#include <string.h>
#include <urcu/rculist.h>
#include <urcu/rcuhlist.h>
#include "sched.h"
#define MAXTH 6
#define NE 10
struct ent { long id; long magic; struct cds_list_head l; long pad; struct cds_hlist_node h; };
static struct ent E[NE]; static CDS_LIST_HEAD(LH); static struct cds_hlist_head HH;
static unsigned long gen[MAXTH+2];
static void rl(void){ int t=vs_self(); gen[t]++; vs_note("rl"); }
static void ru(void){ int t=vs_self(); vs_note("ru"); gen[t]++; }
static struct ent *removed[64]; static int nrem, npois;
static void gp(void){ unsigned long snap[MAXTH+2]; int me=vs_self(); int upto=nrem;
	vs_call("sync",0); cmm_smp_mb();
	for(int t=0;t<MAXTH;t++) snap[t]=gen[t];
	vs_note("syncbegin");
	for(int t=0;t<MAXTH;t++) if(t!=me && (snap[t]&1)) while(CMM_LOAD_SHARED(gen[t])==snap[t]) caa_cpu_relax();
	vs_note("syncend"); cmm_smp_mb();
	/* the poisoning is the harness's own action (not a store of the code under test): no scheduling point, and an entry removed from both structures is poisoned once */
	vs_quiet_begin();
	for(;npois<upto;npois++){ if(removed[npois]->magic==0) continue; vs_note("poison %ld",removed[npois]->id); removed[npois]->magic=0; vs_retire(removed[npois],sizeof(struct ent)); }
	vs_quiet_end();
	vs_ret("sync",0); }
static char *prog[MAXTH]; static int nprog;
static int valid(void *p){ char *c=(char*)p; return c>=(char*)E && c<(char*)(E+NE) && (c-(char*)E)%sizeof(struct ent)==0; }
static void visit(char *buf,int *l,void *p){ if(!valid(p)){ *l+=sprintf(buf+*l,"BAD,"); vs_note("BUG visited %p which is not an entry",p); return; }
	struct ent *e=p; *l+=sprintf(buf+*l,"%ld%s,",e->id, CMM_LOAD_SHARED(e->magic)==0x5a5a?"":"!"); }
static void body(int t){
  for(char *p=prog[t]; *p; p++){
	int i=p[1]-'0'; char buf[512]; int l=0; buf[0]=0; int n=0;
	switch(*p){
	case 'a': p++; E[i].magic=0x5a5a; vs_call("add",i); cds_list_add_rcu(&E[i].l,&LH); vs_ret("add",0); break;
	case 't': p++; E[i].magic=0x5a5a; vs_call("addtail",i); cds_list_add_tail_rcu(&E[i].l,&LH); vs_ret("addtail",0); break;
	case 'd': p++; vs_call("del",i); cds_list_del_rcu(&E[i].l); removed[nrem++]=&E[i]; vs_ret("del",0); break;
	case 'r': { int j=p[2]-'0'; p+=2; E[j].magic=0x5a5a; vs_call("replace",i); vs_note("with %d",j); cds_list_replace_rcu(&E[i].l,&E[j].l); removed[nrem++]=&E[i]; vs_ret("replace",0); break; }
	case 'h': p++; E[i].magic=0x5a5a; vs_call("hadd",i); cds_hlist_add_head_rcu(&E[i].h,&HH); vs_ret("hadd",0); break;
	case 'x': p++; vs_call("hdel",i); cds_hlist_del_rcu(&E[i].h); removed[nrem++]=&E[i]; vs_ret("hdel",0); break;
	case 'g': gp(); break;
	case 'F': { struct ent *e; vs_call("trav",0); rl(); cds_list_for_each_entry_rcu(e,&LH,l){ visit(buf,&l,e); if(++n>40){ vs_note("BUG traversal does not terminate"); break; } } ru(); vs_note("visited %s",buf); vs_ret("trav",0); break; }
	case 'f': { struct cds_list_head *q; vs_call("trav",0); rl(); cds_list_for_each_rcu(q,&LH){ visit(buf,&l,cds_list_entry(q,struct ent,l)); if(++n>40){ vs_note("BUG traversal does not terminate"); break; } } ru(); vs_note("visited %s",buf); vs_ret("trav",0); break; }
	case 'H': { struct ent *e; vs_call("htrav",0); rl(); cds_hlist_for_each_entry_rcu_2(e,&HH,h){ visit(buf,&l,e); if(++n>40){ vs_note("BUG traversal does not terminate"); break; } } ru(); vs_note("visited %s",buf); vs_ret("htrav",0); break; }
	case 'G': { struct ent *e; struct cds_hlist_node *q; vs_call("htrav",0); rl(); cds_hlist_for_each_entry_rcu(e,q,&HH,h){ visit(buf,&l,e); if(++n>40){ vs_note("BUG traversal does not terminate"); break; } } ru(); vs_note("visited %s",buf); vs_ret("htrav",0); break; }
	} } }
int main(int argc,char**argv){
	static char obuf[1<<20]; setvbuf(stdout,obuf,_IOFBF,sizeof obuf);
	if(argc<3) return 9;
	for(char *q=strtok(argv[1],"/"); q && nprog<MAXTH; q=strtok(0,"/")) prog[nprog++]=q;
	for(int i=0;i<NE;i++) E[i].id=i;
	vs_region(E,sizeof E,"E"); vs_region(&LH,sizeof LH,"LH"); vs_region(&HH,sizeof HH,"HH"); vs_region(gen,sizeof gen,"gen");
	vs_plain_track(E,sizeof E); vs_plain_track(&LH,sizeof LH); vs_plain_track(&HH,sizeof HH);   /* effective in the build with instrumented plain stores */
	printf("- layout ent %d l %d h %d\n",(int)sizeof(struct ent),(int)offsetof(struct ent,l),(int)offsetof(struct ent,h));
	for(int i=0;i<nprog;i++) vs_spawn(body);
	vs_run(argv[2]);
	{ printf("- list"); struct cds_list_head *q; int n=0; for(q=LH.next;q!=&LH&&n<40;q=q->next,n++) printf(" %ld",cds_list_entry(q,struct ent,l)->id); printf("\n"); }
	{ printf("- listback"); struct cds_list_head *q; int n=0; for(q=LH.prev;q!=&LH&&n<40;q=q->prev,n++) printf(" %ld",cds_list_entry(q,struct ent,l)->id); printf("\n"); }
	{ printf("- hlist"); struct cds_hlist_node *q; int n=0; for(q=HH.next;q&&n<40;q=q->next,n++) printf(" %ld",cds_hlist_entry(q,struct ent,h)->id); printf("\n"); }
	fflush(stdout); _exit(0); }
