/* rculfhash extended scenario: real src/rculfhash.c under the controlled scheduler with every public operation, explicit resizes,
   an abstract RCU flavor whose synchronize_rcu() really waits for the read-side sections open at its start (schedulable spin), and a
   recording bucket allocator whose freed tables are quarantined (every later hooked access into them is reported as UAF).
   usage: scen_lfhtx PROG SCHED [init_size [max_buckets [mm [nr_cpus_mask [create_fail_mask [flags]]]]]]      mm: o(rder) c(hunk) m(map); flags: cds_lfht_new flags
   (1 = CDS_LFHT_AUTO_RESIZE: lazy resizes are carried out by the library's work-queue thread, which is scheduled like any other thread)
   nr_cpus_mask >= 1 (with -DURCU_VERIF_MIN_PARTITION_PER_THREAD_ORDER=0) makes every resize level use the partitioned multi-thread path;
   create_fail_mask makes chosen pthread_create calls of the run fail with EAGAIN (single-thread fallback for the leftover partitions).
   ops: A<i> add entry i, U<i> add_unique, R<i> add_replace, L<i> lookup (hash,key) of entry i (sets the thread's iterator), N next_duplicate on
   the iterator, X del the iterator's node, x the same followed - when it succeeds - by a grace period and the release of the node (every later access to it is reported), P<i> replace the iterator's node by entry i, T full traversal (first/next), Z<k> resize to 2^k, z<d> resize to d (any count),
   c<k> the lazy resize request add / del issue when the node count crosses a threshold: cds_lfht_resize_lazy_count(table, size read now, 2^k) (AUTO_RESIZE tables),
   F = the fork bracket of the parent (cds_lfht_before_fork ; [fork point: who holds the resize mutex is noted] ; cds_lfht_after_fork_parent), G = the same followed by what the
   fork CHILD does (every library thread ceases to exist; cds_lfht_after_fork_child re-creates the work-queue thread): the run continues as the child,
   C count_nodes, Y cds_lfht_destroy (the program must not use the table afterwards; the end-of-run checks are skipped).  Each operation is one read-side critical
   section (resize and destroy are called outside any). */
#define _LGPL_SOURCE
#include <stdbool.h>
#include <string.h>
#include <stdio.h>
#include <stdlib.h>
#include <urcu/flavor.h>
#include <urcu/rculfhash.h>
#include "lfht_flavor.h"
#define rcu_flavor vflavor
#include "/repo/src/rculfhash.c"
#undef _LGPL_SOURCE
#include "sched.h"
#define MAXTH 6
static unsigned long gen[MAXTH+2];          /* odd: thread is inside a read-side section */
static void f_lock(void){ int t=vs_self(); if(t>=0){ gen[t]++; vs_note("rl"); } }
static void f_unlock(void){ int t=vs_self(); if(t>=0){ vs_note("ru"); gen[t]++; } }
static void f_sync(void){ unsigned long snap[MAXTH+2]; int me=vs_self();
	vs_call("sync",0); cmm_smp_mb();      /* synchronize_rcu() is a full barrier on both sides */
	for(int t=0;t<MAXTH;t++) snap[t]=gen[t];
	vs_note("syncbegin");
	for(int t=0;t<MAXTH;t++) if(t!=me && (snap[t]&1)) while(CMM_LOAD_SHARED(gen[t])==snap[t]) caa_cpu_relax();
	vs_note("syncend"); cmm_smp_mb(); vs_ret("sync",0); }
static void f_call_rcu(struct rcu_head *h, void (*fn)(struct rcu_head *)){ vs_note("BUG unexpected update_call_rcu"); fn(h); }
/* recording allocator */
static struct { void *p; size_t sz; char name[12]; } TB[64]; static int ntb;
static void *a_calloc(void *st, size_t n, size_t sz){ (void)st; void *p=calloc(n,sz); TB[ntb].p=p; TB[ntb].sz=n*sz; sprintf(TB[ntb].name,"tb%d",ntb); if(ntb) vs_region(p,n*sz,TB[ntb].name); vs_note("alloc %s %lu",TB[ntb].name,(unsigned long)(n*sz)); ntb++; return p; }
static void *a_malloc(void *st, size_t sz){ return a_calloc(st,1,sz); }
static void *a_realloc(void *st, void *p, size_t sz){ (void)st; (void)p; (void)sz; vs_note("BUG realloc"); return 0; }
static void *a_aligned(void *st, size_t al, size_t sz){ (void)al; return a_calloc(st,1,sz); }
static void a_free(void *st, void *p){ (void)st; if(!p) return; for(int i=0;i<ntb;i++) if(TB[i].p==p){ vs_note("free %s",TB[i].name); vs_retire(p,TB[i].sz); return; } vs_note("BUG free of unknown block"); }
static const struct cds_lfht_alloc v_alloc = { a_malloc, a_calloc, a_realloc, a_aligned, a_free, 0 };
struct ent { struct cds_lfht_node n; int key; int id; };
#define NE 10
static const unsigned long EH[NE] = {1,1,1,3,2,3,6,1,5,7};
static const int EK[NE]           = {10,11,10,30,20,31,60,10,50,70};
static struct ent E[NE]; static struct cds_lfht *ht; static int destroyed;
static int match(struct cds_lfht_node *n, const void *k){ return ((struct ent*)n)->key==*(const int*)k; }
static char *prog[MAXTH]; static int nprog;
static int lflags; static unsigned long g_init, g_maxb; static const struct cds_lfht_mm_type *g_mm;
static void name_table(void){ vs_region(&ht->size,sizeof ht->size,"size"); vs_region(&ht->resize_target,sizeof ht->resize_target,"target");
  vs_region(&ht->resize_mutex,sizeof ht->resize_mutex,"rsmutex"); vs_region(ht,sizeof *ht,"ht"); }
static unsigned long idof(struct cds_lfht_node *n){ return (unsigned long)n; }
static void body(int t){ struct cds_lfht_iter it; it.node=0; it.next=0; int itkey=0;
  if(lflags&1){ if(t==0){ vs_call("new",0); struct cds_lfht *h=_cds_lfht_new_with_alloc(g_init,1,g_maxb,lflags,g_mm,&vflavor,&v_alloc,NULL); vs_quiet_begin(); ht=h; name_table(); vs_quiet_end(); CMM_STORE_SHARED(ht,h); vs_ret("new",0); }
    else while(!CMM_LOAD_SHARED(ht)) caa_cpu_relax(); }
  for(char *p=prog[t]; *p; p++){
	int i = p[1]-'0';
	switch(*p){
	case 'A': p++; vs_call("add",idof(&E[i].n)); f_lock(); cds_lfht_add(ht, EH[i], &E[i].n); f_unlock(); vs_ret("add",idof(&E[i].n)); break;
	case 'U': { p++; vs_call("addu",idof(&E[i].n)); f_lock(); struct cds_lfht_node *r=cds_lfht_add_unique(ht, EH[i], match, &E[i].key, &E[i].n); f_unlock(); vs_ret("addu",idof(r)); break; }
	case 'R': { p++; vs_call("addr",idof(&E[i].n)); f_lock(); struct cds_lfht_node *r=cds_lfht_add_replace(ht, EH[i], match, &E[i].key, &E[i].n); f_unlock(); vs_ret("addr",idof(r)); break; }
	case 'L': { p++; itkey=EK[i]; vs_call("lookup",itkey); f_lock(); cds_lfht_lookup(ht,EH[i],match,&itkey,&it); f_unlock(); vs_ret("lookup",idof(cds_lfht_iter_get_node(&it))); break; }
	case 'N': { if(!it.node){ vs_call("skip",0); vs_ret("skip",0); break; } vs_call("nextdup",idof(it.node)); f_lock(); cds_lfht_next_duplicate(ht,match,&itkey,&it); f_unlock(); vs_ret("nextdup",idof(cds_lfht_iter_get_node(&it))); break; }
	case 'X': { vs_call("del",idof(it.node)); f_lock(); int r=cds_lfht_del(ht,it.node); f_unlock(); vs_ret("del",r); break; }
	case 'x': { struct cds_lfht_node *dn=it.node; vs_call("del",idof(dn)); f_lock(); int r=cds_lfht_del(ht,dn); f_unlock(); vs_ret("del",r);
		if(!r){ f_sync(); vs_note("reclaim %d",((struct ent*)dn)->id); vs_retire(dn,sizeof(struct ent)); } break; }   /* the owner waits for a grace period and frees the node */
	case 'P': { p++; vs_call("replace",idof(it.node)); vs_note("with %d",i); f_lock(); int r=cds_lfht_replace(ht,&it,EH[i],match,&E[i].key,&E[i].n); f_unlock(); vs_ret("replace",r); break; }
	case 'T': { char buf[512]; int l=0; buf[0]=0; struct cds_lfht_iter ti; struct cds_lfht_node *x; vs_call("trav",0); f_lock();
		cds_lfht_for_each(ht,&ti,x){ if(l<480) l+=sprintf(buf+l,"%d,",((struct ent*)x)->id); } f_unlock(); vs_note("visited %s",buf); vs_ret("trav",0); break; }
	case 'c': p++; { unsigned long sz=rcu_dereference(ht->size); vs_call("lazycount",1UL<<i); vs_note("lazysize %lu",sz); f_lock(); cds_lfht_resize_lazy_count(ht,sz,1UL<<i); f_unlock(); vs_ret("lazycount",0); } break;
	case 'F': { vs_call("forkbracket",0); cds_lfht_before_fork(NULL); int o=vs_mutex_owner(&ht->resize_mutex); vs_note("forkwq rsowner %d %s",o,(o>=0&&!vs_is_app(o))?"LIB":"ok"); cds_lfht_after_fork_parent(NULL); vs_ret("forkbracket",0); } break;
	case 'G': { vs_call("forkchild",0); cds_lfht_before_fork(NULL); int o=vs_mutex_owner(&ht->resize_mutex); vs_note("forkwq rsowner %d %s",o,(o>=0&&!vs_is_app(o))?"LIB":"ok"); vs_note("forkchild"); vs_freeze_lib_threads(); vs_end_with_apps=1; /* the child's re-created worker never sleeps again (its futex word was left at -1 by the parent's worker: DESIGN.md 9.4) */ cds_lfht_after_fork_child(NULL); vs_ret("forkchild",0); } break;
	case 'Z': p++; vs_call("resize",1UL<<i); cds_lfht_resize(ht,1UL<<i); vs_ret("resize",0); break;
	case 'z': p++; vs_call("resize",(unsigned long)i); cds_lfht_resize(ht,(unsigned long)i); vs_ret("resize",0); break;
	case 'Y': { vs_call("destroy",0); int r=cds_lfht_destroy(ht,NULL); destroyed=1; vs_ret("destroy",(unsigned long)r); break; }
	case 'C': { long b,a; unsigned long c; vs_call("count",0); f_lock(); cds_lfht_count_nodes(ht,&b,&c,&a); f_unlock(); vs_ret("count",c); break; }
	} } }
int main(int argc,char**argv){
  static char obuf[1<<21]; setvbuf(stdout,obuf,_IOFBF,sizeof obuf);
  if(argc<3) return 9;
  for(char *s=strtok(argv[1],"/"); s && nprog<MAXTH; s=strtok(0,"/")) prog[nprog++]=s;
  unsigned long init = argc>3 ? strtoul(argv[3],0,0) : 2, maxb = argc>4 ? strtoul(argv[4],0,0) : 8;
  const struct cds_lfht_mm_type *mm = (argc>5 && argv[5][0]=='c') ? &cds_lfht_mm_chunk : (argc>5 && argv[5][0]=='m') ? &cds_lfht_mm_mmap : &cds_lfht_mm_order;
  for(int i=0;i<NE;i++){ E[i].key=EK[i]; E[i].id=i; cds_lfht_node_init(&E[i].n); }
  lflags = argc>8 ? atoi(argv[8]) : 0; g_init=init; g_maxb=maxb; g_mm=mm;
  /* with CDS_LFHT_AUTO_RESIZE the table is created by scenario thread 0, so that the work-queue thread the library starts is a scheduled thread */
  if(!(lflags&1)){ ht=_cds_lfht_new_with_alloc(init,1,maxb,lflags,mm,&vflavor,&v_alloc,NULL);
    if(!ht){ printf("- new failed\n"); fflush(stdout); _exit(0); } name_table(); }
  if(argc>6 && atol(argv[6])>0) nr_cpus_mask = atol(argv[6]);
  if(argc>7) vs_create_fail_mask = strtoul(argv[7],0,0);
  vs_region(E,sizeof E,"E"); vs_region(gen,sizeof gen,"gen");
  printf("- init size %lu max %lu\n", init, maxb);
  vs_strict=0;
  for(int i=0;i<nprog;i++) vs_spawn(body);
  vs_run(argv[2]);
  if(destroyed){ printf("- destroyed\n"); fflush(stdout); _exit(0); }
  { long b,a; unsigned long c; cds_lfht_count_nodes(ht,&b,&c,&a); printf("- final count %lu size %lu\n",c,ht->size); }
  { struct cds_lfht_node *n = bucket_at(ht,0); printf("- chain");
    while(n){ unsigned long w=(unsigned long)n->next; if((char*)n>=(char*)E && (char*)n<(char*)(E+NE)) printf(" %d:%lu:%lx", ((struct ent*)n)->id, w&7, n->reverse_hash); else printf(" b:%lu:%lx", w&7, n->reverse_hash);
      n=(struct cds_lfht_node*)(w&~7UL); } printf("\n"); }
  for(int i=0;i<NE;i++){ struct cds_lfht_iter it; int k=EK[i]; cds_lfht_lookup(ht,EH[i],match,&k,&it); struct cds_lfht_node *r=cds_lfht_iter_get_node(&it); int nd=0;
      while(r){ nd++; cds_lfht_next_duplicate(ht,match,&k,&it); r=cds_lfht_iter_get_node(&it); } printf("- finallookup %d key %d found %d\n", i, k, nd); }
  for(unsigned long j=0;j<ht->size;j++){ struct cds_lfht_node *b=bucket_at(ht,j); if(!is_bucket(b->next) || is_removed(b->next)) printf("- BUG bucket %lu below size has flags %lu\n", j, (unsigned long)b->next&7); }
  fflush(stdout); _exit(0); }
