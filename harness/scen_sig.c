/* C19 scenario: read-side critical sections inside signal handlers, real src/urcu.c (memb / mb) or src/urcu-bp.c (-DFLAVOR_BP) under the controlled
   scheduler.  A '^t' choice delivers the handler to thread t at its current hook point - in particular between the plain read of the reader word and
   the store that consumes it in rcu_read_lock / rcu_read_unlock, inside synchronize_rcu, inside bp registration - unless t has blocked signals
   (then it stays pending until the mask is lifted).  The handler runs lock / litmus loads / unlock, possibly nested, and checks the frame property:
   nesting count and rcu_read_ongoing() as before, the very same word when the count is non-zero.
   usage: scen_sig PROG SCHED ; ops: ( ) r q S as in scen_gp.c, K (bp) = urcu_bp_before_fork(); urcu_bp_after_fork_parent() ; bp threads start unregistered (registration happens on first use, also in a handler). */
#ifdef FLAVOR_BP
#include "/repo/src/urcu-bp.c"
#define RL() urcu_bp_read_lock()
#define RU() urcu_bp_read_unlock()
#define SYNC() urcu_bp_synchronize_rcu()
#define ONGOING() urcu_bp_read_ongoing()
#define WORD() (URCU_TLS(urcu_bp_reader) ? URCU_TLS(urcu_bp_reader)->ctr : 0UL)
#define NESTMASK URCU_BP_GP_CTR_NEST_MASK
#else
#ifdef FLAVOR_MB
#define RCU_MB
#else
#define RCU_MEMBARRIER
#endif
#include "/repo/src/urcu.c"
#define RL() rcu_read_lock()
#define RU() rcu_read_unlock()
#define SYNC() synchronize_rcu()
#define ONGOING() rcu_read_ongoing()
#define WORD() (URCU_TLS(rcu_reader).ctr)
#define NESTMASK URCU_GP_CTR_NEST_MASK
#endif
#include "sched.h"
#include <string.h>
#define MAXTH 6
#define NG 16
static unsigned long pre[NG], post[NG]; static int ng_total;
static char *prog[MAXTH]; static int nprog; static int gbase[MAXTH];
static char tlsname[MAXTH][16]; static int hdepth[MAXTH]; static int insec[MAXTH];
#ifdef FLAVOR_BP
/* bp: the reader state of a registered thread never moves (C15): remember the slot the thread was first seen with */
static void *myslot[MAXTH]; static int exiting[MAXTH];     /* during thread exit a handler may legitimately register the thread anew */
static int is_exiting(int t){ return t>=0 && t<MAXTH && exiting[t]; }
static void slot_check(int t){ void *p=URCU_TLS(urcu_bp_reader); if(!p||exiting[t]) return; if(!myslot[t]) myslot[t]=p; else if(myslot[t]!=p){ vs_note("BUG the reader slot of thread %d moved from %p to %p (registered twice)",t,myslot[t],p); myslot[t]=p; } }
#else
#define slot_check(t) do{}while(0)
#endif
static void litmus(int t, int order, const char *who){
	unsigned long vpost[NG], vpre[NG];
	if(order){ for(int i=0;i<ng_total;i++) vpost[i]=CMM_LOAD_SHARED(post[i]); for(int i=0;i<ng_total;i++) vpre[i]=CMM_LOAD_SHARED(pre[i]); }
	else { for(int i=0;i<ng_total;i++) vpre[i]=CMM_LOAD_SHARED(pre[i]); for(int i=0;i<ng_total;i++) vpost[i]=CMM_LOAD_SHARED(post[i]); }
	for(int i=0;i<ng_total;i++) if(vpost[i]==1 && vpre[i]==0) printf("LITMUS %s %d saw post_%d=1 and pre_%d=0 inside one section\n",who,t,i,i); }
static void handler(int t){
	unsigned long w0=WORD(); int o0=ONGOING(); unsigned long w0b=WORD();    /* bp: ONGOING() may register the thread; the word is 0 either way */
	hdepth[t]++;
	vs_call("lock",100+hdepth[t]); RL(); slot_check(t); vs_ret("lock",0);
	litmus(t, !(hdepth[t]&1), "handler");   /* depth 1: pre first, then post - the order that exposes a grace period that did not wait for this section */
	vs_call("unlock",100+hdepth[t]); RU(); vs_ret("unlock",0);
	hdepth[t]--;
	unsigned long w1=WORD(); int o1=ONGOING();
	vs_note("frame %lu %lu", w0b, w1);
	if((w0b&NESTMASK)!=(w1&NESTMASK) || ((w0b&NESTMASK) && w0b!=w1) || o0!=o1 || (w0&NESTMASK)!=(w0b&NESTMASK))
		vs_note("BUG handler changed the read-side state: word %lu -> %lu, ongoing %d -> %d", w0, w1, o0, o1);
}
static void body(int t){
	int g = gbase[t]; int depth = 0;
#ifndef FLAVOR_BP
	sprintf(tlsname[t],"rd%d",t); vs_region(&URCU_TLS(rcu_reader).ctr,sizeof(unsigned long),tlsname[t]);
	vs_quiet_begin(); rcu_register_thread(); vs_quiet_end();
#endif
	for(char *p=prog[t]; *p; p++){
		switch(*p){
		case '(': vs_call("lock",depth); RL(); slot_check(t); vs_ret("lock",0); depth++; break;
		case ')': vs_call("unlock",depth); RU(); vs_ret("unlock",0); depth--; break;
		case 'r': if(depth) litmus(t,1,"reader"); break;
		case 'q': if(depth) litmus(t,0,"reader"); break;
		case 'S': CMM_STORE_SHARED(pre[g],1); vs_call("sync",g); SYNC(); vs_ret("sync",g); CMM_STORE_SHARED(post[g],1); g++; break;
#ifdef FLAVOR_BP
		/* the documented fork bracket of the parent, without the fork itself: before_fork takes the library's locks, after_fork_parent releases them */
		case 'K': vs_call("forkbracket",0); urcu_bp_before_fork(); vs_note("forkpoint"); urcu_bp_after_fork_parent(); vs_ret("forkbracket",0); break;
#endif
		}
	}
#ifdef FLAVOR_BP
	/* thread exit: what the pthread key destructor does (it runs again while the key has a value: a handler may have re-registered the thread).  Signals stay
	   enabled, as in real life, except inside the critical section of init_lock in urcu_bp_exit() (see main) */
	exiting[t]=1;
	for(int it=0; it<4 && URCU_TLS(urcu_bp_reader); it++){ vs_call("unregister",0); struct rcu_reader *r=URCU_TLS(urcu_bp_reader); pthread_setspecific(urcu_bp_key,NULL); urcu_bp_unregister(r); vs_ret("unregister",0); }
	myslot[t]=0;
#else
	/* a thread that is leaving the registry is no longer a reader: a handler using RCU while (or after) rcu_unregister_thread() runs is outside C19 (the read-side
	   API requires a registered thread), so the thread blocks signals first, as an application must */
	{ sigset_t all; sigfillset(&all); pthread_sigmask(SIG_BLOCK,&all,NULL); }
	vs_call("unregister",0); rcu_unregister_thread(); vs_ret("unregister",0);
#endif
}
int main(int argc,char**argv){
	static char obuf[1<<22]; setvbuf(stdout,obuf,_IOFBF,sizeof obuf);
	if(argc<3) return 9;
	for(char *s=strtok(argv[1],"/"); s && nprog<MAXTH; s=strtok(0,"/")){ gbase[nprog]=ng_total; for(char *c=s;*c;c++) if(*c=='S') ng_total++; prog[nprog++]=s; }
#ifdef FLAVOR_BP
	vs_region(&rcu_gp.ctr,8,"gp.ctr"); vs_region(&rcu_gp_lock,sizeof rcu_gp_lock,"gp_lock"); vs_region(&rcu_registry_lock,sizeof rcu_registry_lock,"reg_lock"); vs_region(&init_lock,sizeof init_lock,"init_lock");
#else
	rcu_init();
	vs_region(&rcu_gp.ctr,8,"gp.ctr"); vs_region(&rcu_gp.futex,4,"gp.futex"); vs_region(&rcu_gp_lock,sizeof rcu_gp_lock,"gp_lock"); vs_region(&rcu_registry_lock,sizeof rcu_registry_lock,"reg_lock");
	vs_region(&gp_waiters,sizeof gp_waiters,"waiters");
#endif
#ifdef FLAVOR_BP
	/* a handler that uses RCU while the exiting thread holds init_lock in urcu_bp_exit() would re-register and self-deadlock on init_lock; the thread is no longer
	   a registered reader there, so this is outside C19: such a signal is kept pending until the unlock */
	vs_defer_signals_while_holding(&init_lock); vs_defer_signals_only_if(is_exiting);      /* everywhere else (registration on first use) the library itself must keep signals away from init_lock */
#endif
	vs_region(pre,sizeof pre,"pre"); vs_region(post,sizeof post,"post");
	vs_set_signal_handler(handler);
	for(int i=0;i<nprog;i++) vs_spawn(body);
	vs_run(argv[2]);
#ifdef FLAVOR_BP
	{ int live=0; struct registry_chunk *c; cds_list_for_each_entry(c,&registry_arena.chunk_list,node) for(size_t i=0;i<c->capacity;i++) live+=c->readers[i].alloc?1:0;
	  printf("- bp live slots %d\n",live); }      /* every thread has exited: no slot may still be allocated */
#endif
	fflush(stdout); _exit(0); }
