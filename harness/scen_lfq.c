/* rculfqueue scenario: real static/rculfqueue.h under the controlled scheduler.
   usage: scen_lfq PROG SCHED ; PROG = thread programs separated by '/', E<digit> = enqueue user node, D = dequeue */
#define _LGPL_SOURCE
#include <stdio.h>
#include <stdlib.h>
#include <string.h>
void *vs_dummy_alloc(size_t sz);
#define malloc(x) vs_dummy_alloc(x)
void vs_dummy_free(void *p);
#define free(x) vs_dummy_free(x)
#include <urcu/rculfqueue.h>
#undef malloc
#undef free
#include "sched.h"
#define MAXTH 6
static struct cds_lfq_node_rcu_dummy DP[1+8*MAXTH];
static __thread int mytid = -1; static int dcount[MAXTH];
void *vs_dummy_alloc(size_t sz){ (void)sz; if(mytid<0) return &DP[0]; return &DP[1+mytid*8+dcount[mytid]++]; }
void vs_dummy_free(void *p){ (void)p; }
static struct cds_lfq_queue_rcu q; static struct cds_lfq_node_rcu U[10];
static char *prog[MAXTH]; static int nprog;
/* queue_call_rcu of the scenario: records the retirement; the grace-period oracle works on the trace */
static void qcr(struct rcu_head *h, void (*fn)(struct rcu_head *)){ (void)fn; vs_call("free",(unsigned long)h); }
static void enq1(struct cds_lfq_node_rcu *x){ vs_call("enq",(unsigned long)x); cds_lfq_enqueue_rcu(&q,x); vs_ret("enq",0); }
static void deq1(void){ vs_call("deq",0); struct cds_lfq_node_rcu *x=cds_lfq_dequeue_rcu(&q); vs_ret("deq",(unsigned long)x); }
static void body(int t){ mytid=t; for(char *p=prog[t]; *p; p++){ if(*p=='E'){ enq1(&U[p[1]-'0']); p++; } else if(*p=='D') deq1(); } }
int main(int argc,char**argv){
  static char obuf[1<<20]; setvbuf(stdout,obuf,_IOFBF,sizeof obuf);
  if(argc<3) return 9;
  for(char *s=strtok(argv[1],"/"); s && nprog<MAXTH; s=strtok(0,"/")) prog[nprog++]=s;
  for(int i=0;i<10;i++) cds_lfq_node_init_rcu(&U[i]);
  cds_lfq_init_rcu(&q,qcr);
  vs_region(&q,sizeof q,"q"); vs_region(U,sizeof U,"U"); vs_region(DP,sizeof DP,"D"); vs_plain_track(U,sizeof U); vs_plain_track(DP,sizeof DP);
  vs_strict=0;
  for(int i=0;i<nprog;i++) vs_spawn(body);
  vs_run(argv[2]);
  int r=cds_lfq_destroy_rcu(&q);
  printf("- destroy %d\n", r);
  fflush(stdout); _exit(0); }
