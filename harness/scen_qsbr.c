#include "qsbr_a2.c"
#include "sched.h"
static unsigned long X, Y; static char tn[8][8];
static void treg(int t){ sprintf(tn[t],"rd%d",t); vs_region(&URCU_TLS(urcu_qsbr_reader),sizeof(struct urcu_qsbr_reader),tn[t]); }
static void reader(int t){ treg(t); urcu_qsbr_register_thread();
	for(int i=0;i<3;i++){ unsigned long r1=CMM_LOAD_SHARED(X), r2=CMM_LOAD_SHARED(Y);
	  if(r2==1&&r1==0) printf("VIOLATION litmus reader %d\n",t);
	  if(i==1){ urcu_qsbr_thread_offline(); urcu_qsbr_thread_online(); } else urcu_qsbr_quiescent_state(); }
	urcu_qsbr_unregister_thread(); }
static void updater(int t){ treg(t); urcu_qsbr_register_thread(); urcu_qsbr_synchronize_rcu(); CMM_STORE_SHARED(X,1); vs_call("sync",0); urcu_qsbr_synchronize_rcu(); vs_ret("sync",0); CMM_STORE_SHARED(Y,1); urcu_qsbr_unregister_thread(); }
int main(int argc,char**argv){ setvbuf(stdout,0,_IOLBF,0);
	vs_region(&urcu_qsbr_gp.ctr,8,"gp.ctr"); vs_region(&urcu_qsbr_gp.futex,4,"gp.futex"); vs_region(&rcu_gp_lock,sizeof rcu_gp_lock,"gp_lock"); vs_region(&rcu_registry_lock,sizeof rcu_registry_lock,"reg_lock");
	vs_region(&gp_waiters,sizeof gp_waiters,"waiters"); vs_region(&X,8,"X"); vs_region(&Y,8,"Y");
	vs_spawn(reader); vs_spawn(reader); vs_spawn(updater); vs_spawn(updater);
	vs_run(argc>1?argv[1]:""); fflush(stdout); _exit(0); }
