/* qsbr grace-period scenario: real src/urcu-qsbr.c under the controlled scheduler with simulated store buffers.
   usage: scen_qsbr PROG SCHED ; reader ops: Q rcu_quiescent_state  F rcu_thread_offline  N rcu_thread_online  r/q litmus loads
   (a thread is online after registration); updater op: S = pre_g := 1; synchronize_rcu(); post_g := 1.
   Implicit sections run between consecutive quiescent points of an online thread.
   With -DDYNREG (C15): U = rcu_unregister_thread() while online (no explicit offline first), R = rcu_register_thread(); a thread leaves as soon as its
   program ends, by unregistering directly (the library's unregister must release an updater that waits for it). */
#include "/repo/src/urcu-qsbr.c"
#include "sched.h"
#include <string.h>
#define MAXTH 6
#define NG 16
static unsigned long pre[NG], post[NG]; static int ng_total;
static char *prog[MAXTH]; static int nprog; static int gbase[MAXTH];
static char tlsname[MAXTH][16], wname[MAXTH][16]; static long updaters_left;
static void body(int t){
	int updater = strchr(prog[t],'S') != 0; int g = gbase[t]; int online = 1; int registered = 1;
	unsigned long vpost[NG], vpre[NG];
	sprintf(tlsname[t],"rd%d",t); vs_region(&URCU_TLS(urcu_qsbr_reader).ctr,sizeof(unsigned long),tlsname[t]);
	sprintf(wname[t],"wt%d",t); vs_region(&URCU_TLS(urcu_qsbr_reader).waiting,sizeof(int),wname[t]);
	vs_quiet_begin(); urcu_qsbr_register_thread(); vs_quiet_end();
	vs_call("begin",0);   /* start of the first implicit section */
	for(char *p=prog[t]; *p; p++){
		switch(*p){
		case 'Q': vs_call("qs",0); urcu_qsbr_quiescent_state(); vs_ret("qs",0); break;
		case 'F': vs_call("offline",0); urcu_qsbr_thread_offline(); vs_ret("offline",0); online=0; break;
		case 'N': vs_call("online",0); urcu_qsbr_thread_online(); vs_ret("online",0); online=1; break;
		case 'r': for(int i=0;i<ng_total;i++) vpost[i]=CMM_LOAD_SHARED(post[i]); for(int i=0;i<ng_total;i++) vpre[i]=CMM_LOAD_SHARED(pre[i]);
			if(online) for(int i=0;i<ng_total;i++) if(vpost[i]==1 && vpre[i]==0) printf("LITMUS reader %d saw post_%d=1 then pre_%d=0 inside one implicit section\n",t,i,i);
			break;
		case 'q': for(int i=0;i<ng_total;i++) vpre[i]=CMM_LOAD_SHARED(pre[i]); for(int i=0;i<ng_total;i++) vpost[i]=CMM_LOAD_SHARED(post[i]);
			if(online) for(int i=0;i<ng_total;i++) if(vpost[i]==1 && vpre[i]==0) printf("LITMUS reader %d saw pre_%d=0 then post_%d=1 inside one implicit section\n",t,i,i);
			break;
#ifdef DYNREG
		case 'U': if(registered){ vs_call("unregister",0); urcu_qsbr_unregister_thread(); vs_ret("unregister",0); registered=0; online=0; } break;
		case 'R': if(!registered){ vs_call("register",0); urcu_qsbr_register_thread(); vs_ret("online",0); registered=1; online=1; } break;
#endif
		case 'S': CMM_STORE_SHARED(pre[g],1); vs_call("sync",g); urcu_qsbr_synchronize_rcu(); vs_ret("sync",g); CMM_STORE_SHARED(post[g],1); g++; break;
		}
	}
#ifdef DYNREG
	(void)updater; if(registered){ vs_call("unregister",0); urcu_qsbr_unregister_thread(); vs_ret("unregister",0); }
#else
	(void)registered;
	vs_call("offline",0); urcu_qsbr_thread_offline(); vs_ret("offline",0);
	if(updater) uatomic_dec(&updaters_left);
	while(CMM_LOAD_SHARED(updaters_left)) caa_cpu_relax();
	urcu_qsbr_unregister_thread();
#endif
}
int main(int argc,char**argv){
	static char obuf[1<<22]; setvbuf(stdout,obuf,_IOFBF,sizeof obuf);
	if(argc<3) return 9;
	for(char *s=strtok(argv[1],"/"); s && nprog<MAXTH; s=strtok(0,"/")){ gbase[nprog]=ng_total; for(char *c=s;*c;c++) if(*c=='S') ng_total++; if(strchr(s,'S')) updaters_left++; prog[nprog++]=s; }
	vs_region(&urcu_qsbr_gp.ctr,8,"gp.ctr"); vs_region(&urcu_qsbr_gp.futex,4,"gp.futex"); vs_region(&rcu_gp_lock,sizeof rcu_gp_lock,"gp_lock"); vs_region(&rcu_registry_lock,sizeof rcu_registry_lock,"reg_lock");
	vs_region(&gp_waiters,sizeof gp_waiters,"waiters"); vs_region(pre,sizeof pre,"pre"); vs_region(post,sizeof post,"post"); vs_region(&updaters_left,8,"uleft");
	for(int i=0;i<nprog;i++) vs_spawn(body);
	vs_run(argv[2]);
	fflush(stdout); _exit(0); }
