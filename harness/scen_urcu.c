#define RCU_MEMBARRIER
#include "/repo/src/urcu.c"
#include "sched.h"
static unsigned long X, Y; static unsigned long r1[4], r2[4];
static char tlsname[4][16];
static void reader(int t){ sprintf(tlsname[t],"rd%d",t); vs_region(&URCU_TLS(rcu_reader),sizeof(struct urcu_reader),tlsname[t]); rcu_register_thread();
	for(int i=0;i<2;i++){ vs_call("lock",0); rcu_read_lock(); vs_ret("lock",0);
	  r1[t]=CMM_LOAD_SHARED(X); r2[t]=CMM_LOAD_SHARED(Y);
	  vs_call("unlock",0); rcu_read_unlock(); vs_ret("unlock",0);
	  if(r2[t]==1 && r1[t]==0){ printf("VIOLATION litmus reader %d saw post=1 pre=0\n", t); } }
	rcu_unregister_thread(); }
static void updater(int t){ CMM_STORE_SHARED(X,1); vs_call("sync",0); synchronize_rcu(); vs_ret("sync",0); CMM_STORE_SHARED(Y,1); }
int main(int argc,char**argv){
	vs_region(&rcu_gp.ctr,8,"gp.ctr"); vs_region(&rcu_gp.futex,4,"gp.futex"); vs_region(&rcu_gp_lock,sizeof rcu_gp_lock,"gp_lock"); vs_region(&rcu_registry_lock,sizeof rcu_registry_lock,"reg_lock");
	vs_region(&gp_waiters,sizeof gp_waiters,"waiters"); vs_region(&X,8,"X"); vs_region(&Y,8,"Y");
	vs_spawn(reader); vs_spawn(reader); vs_spawn(updater);
	vs_run(argc>1?argv[1]:"");
	return 0; }
