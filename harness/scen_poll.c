/* C14 scenario: the real src/urcu-poll-impl.h under the controlled scheduler.  call_rcu is the abstraction proved in C03:
   "the callback runs after a grace period that starts after the call"; the helper thread of the scenario takes the queued
   worker callback, lets an (abstract) grace period begin and end at scheduler-chosen instants, then invokes it.
   usage: scen_poll PROG SCHED [start-counter]
   ops per poller thread: S = start_poll_synchronize_rcu() (handle stored as the thread's next own handle);
   P<d> = poll_state_synchronize_rcu(own handle d); Q<t><d> = poll handle d of thread t (skipped if not issued yet);
   helper thread program: G = one worker cycle (if a callback is queued: grace period begins, ends, callback runs). */
#include <stdio.h>
#include <stdlib.h>
#include <string.h>
#include <stdbool.h>
#include <urcu/urcu-poll.h>
#include <urcu/call-rcu.h>
#include "sched.h"
static struct rcu_head *pend_head; static void (*pend_fn)(struct rcu_head *);
static void poll_call_rcu(struct rcu_head *h, void (*fn)(struct rcu_head *)){
	if(pend_fn) vs_note("BUG worker callback queued twice");
	vs_note("call_rcu worker"); pend_head=h; pend_fn=fn; }
#define call_rcu poll_call_rcu
static void mutex_lock(pthread_mutex_t *m){ pthread_mutex_lock(m); }
static void mutex_unlock(pthread_mutex_t *m){ pthread_mutex_unlock(m); }
#include "/repo/src/urcu-poll-impl.h"
#define MAXTH 6
static char *prog[MAXTH]; static int nprog;
static struct urcu_gp_poll_state H[MAXTH][16]; static int nh[MAXTH];
static unsigned long gpdummy;
static void body(int t){
	for(char *p=prog[t]; *p; p++){
		if(*p=='S'){ vs_call("start",0); struct urcu_gp_poll_state h=start_poll_synchronize_rcu(); H[t][nh[t]]=h; vs_ret("start",h.grace_period_id); nh[t]++; }
		else if(*p=='P'||*p=='Q'){ int o=t; if(*p=='Q'){ o=p[1]-'0'; p++; } int d=p[1]-'0'; p++;
			if(d>=nh[o]){ vs_note("skip poll %d %d", o, d); continue; }
			vs_call("poll",H[o][d].grace_period_id); bool r=poll_state_synchronize_rcu(H[o][d]); vs_note("polled %d %d", o, d); vs_ret("poll",r); }
		else if(*p=='G'){ vs_call("gp",0);
			void (*f)(struct rcu_head *)=(void (*)(struct rcu_head *))CMM_LOAD_SHARED(pend_fn);
			if(!f){ vs_ret("gp",0); continue; }
			struct rcu_head *h=pend_head; pend_fn=0; pend_head=0;
			vs_note("gpbegin"); (void)CMM_LOAD_SHARED(gpdummy); vs_note("gpend");
			f(h); vs_ret("gp",1); }
	}
}
int main(int argc,char**argv){
	static char obuf[1<<20]; setvbuf(stdout,obuf,_IOFBF,sizeof obuf);
	if(argc<3) return 9;
	for(char *s=strtok(argv[1],"/"); s && nprog<MAXTH; s=strtok(0,"/")) prog[nprog++]=s;
	unsigned long c0 = argc>3 ? strtoul(argv[3],0,0) : 0;
	poll_worker_gp_state.current_state.grace_period_id=c0; poll_worker_gp_state.latest_target.grace_period_id=c0;
	vs_region(&poll_worker_gp_state.lock,sizeof(pthread_mutex_t),"poll.lock"); vs_region(&poll_worker_gp_state,sizeof poll_worker_gp_state,"poll");
	vs_region(&pend_fn,sizeof pend_fn,"pend"); vs_region(&gpdummy,sizeof gpdummy,"gpclock");
	printf("- init %lu\n", c0);
	for(int i=0;i<nprog;i++) vs_spawn(body);
	vs_run(argv[2]);
	int cyc=0; while(pend_fn && cyc<2){ void (*f)(struct rcu_head *)=pend_fn; struct rcu_head *h=pend_head; pend_fn=0; pend_head=0; f(h); cyc++; }
	for(int t=0;t<nprog;t++) for(int d=0;d<nh[t];d++) printf("- finalpoll %d %d %d after %d\n", t, d, (int)poll_state_synchronize_rcu(H[t][d]), cyc);
	printf("- final cur %lu latest %lu active %d pending %d\n", poll_worker_gp_state.current_state.grace_period_id, poll_worker_gp_state.latest_target.grace_period_id, (int)poll_worker_gp_state.active, pend_fn!=0);
	fflush(stdout); _exit(0); }
