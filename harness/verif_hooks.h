/* Hook header, force-included (-include) in front of every harness translation unit.
 *
 * It needs no change in /repo.  cmm_smp_mb() is pre-defined (arch/generic.h only defines it
 * #ifndef) so that the inline barrier helpers of uatomic/x86.h call the hook too; the other
 * primitives are re-defined after the original headers have been read (macros expand at use).
 * uatomic_load_mo()/uatomic_store_mo(), rcu_dereference(), rcu_assign_pointer() are left as
 * the headers define them: they expand to CMM_LOAD_SHARED / CMM_STORE_SHARED plus the barriers
 * the header chooses for the memory order, and those are what appears in the trace.
 *
 * Every hook macro evaluates each of its arguments exactly once.
 */
#ifndef VERIF_HOOKS_H
#define VERIF_HOOKS_H
#include <stdint.h>
#include <stddef.h>
#ifdef VERIF_NO_FUTEX
/* the configuration of a platform without a futex system call: urcu/futex.h takes its generic branch (compat_futex_noasync: mutex + condition variable;
   compat_futex_async: polling) */
#include <sys/syscall.h>
#undef __NR_futex
#undef SYS_futex
#endif
extern void vh_mb(void);
#define cmm_smp_mb() vh_mb()
#include <urcu/arch.h>
#include <urcu/system.h>
#include <urcu/uatomic.h>

enum vk { VK_LOAD, VK_STORE, VK_XCHG, VK_CAS, VK_ADDRET, VK_ADD, VK_OR, VK_AND, VK_INC, VK_DEC,
          VK_MB, VK_RELAX, VK_SLEEP, VK_CALL, VK_RET, VK_SUB };
extern void vh_pre(enum vk k, const void *addr, size_t sz, unsigned long a, unsigned long b, int mo);
extern void vh_post(enum vk k, const void *addr, size_t sz, unsigned long res);
extern unsigned long vh_load(const void *addr, size_t sz, int mo);
extern void vh_store(void *addr, size_t sz, unsigned long v, int mo);

#undef CMM_LOAD_SHARED
#define CMM_LOAD_SHARED(p) ((__typeof__(p)) vh_load((const void *)&(p), sizeof(p), -1))
#undef _CMM_LOAD_SHARED
#define _CMM_LOAD_SHARED(p) CMM_LOAD_SHARED(p)
#undef CMM_STORE_SHARED
#define CMM_STORE_SHARED(x, v) __extension__ ({ __typeof__(x) _vv = (v); vh_store((void *)&(x), sizeof(x), (unsigned long)_vv, -1); _vv; })
#undef _CMM_STORE_SHARED
#define _CMM_STORE_SHARED(x, v) CMM_STORE_SHARED(x, v)

/* C11-toolchain definitions of generic.h, re-stated: __atomic_load_n / __atomic_store_n become the
   hooked access; a store with C11 seq_cst order is a locked instruction on x86 (store + full fence);
   cmm_seq_cst_fence_after_atomic() is the header's own inline function (it calls the hooked cmm_smp_mb) */
#undef uatomic_load_mo
#define uatomic_load_mo(addr, mo) __extension__ ({ \
	__typeof__(addr) _la = (addr); int _lmo = (mo); \
	__typeof__(*(addr)) _lr = (__typeof__(*(addr))) vh_load((const void *)_la, sizeof(*_la), _lmo); \
	cmm_seq_cst_fence_after_atomic(_lmo); _lr; })
#undef uatomic_store_mo
#define uatomic_store_mo(addr, v, mo) do { \
	__typeof__(addr) _sa = (addr); __typeof__(*(addr)) _sv = (v); int _smo = (mo); \
	vh_store((void *)_sa, sizeof(*_sa), (unsigned long)_sv, _smo); \
	if (cmm_to_c11(_smo) == CMM_SEQ_CST) vh_mb(); \
	cmm_seq_cst_fence_after_atomic(_smo); } while (0)
#undef uatomic_xchg_mo
#define uatomic_xchg_mo(addr, v, mo) __extension__ ({ \
	__typeof__(addr) _a = (addr); __typeof__(*(addr)) _v = (v); \
	vh_pre(VK_XCHG, _a, sizeof(*_a), (unsigned long)_v, 0, (mo)); \
	__typeof__(*(addr)) _r = _uatomic_xchg(_a, _v); \
	vh_post(VK_XCHG, _a, sizeof(*_a), (unsigned long)_r); _r; })
#undef uatomic_cmpxchg_mo
#define uatomic_cmpxchg_mo(addr, old, _new, mos, mof) __extension__ ({ \
	__typeof__(addr) _a = (addr); __typeof__(*(addr)) _o = (old); __typeof__(*(addr)) _n = (_new); \
	vh_pre(VK_CAS, _a, sizeof(*_a), (unsigned long)_o, (unsigned long)_n, (mos)); \
	__typeof__(*(addr)) _r = _uatomic_cmpxchg(_a, _o, _n); \
	vh_post(VK_CAS, _a, sizeof(*_a), (unsigned long)_r); _r; })
#undef uatomic_add_return_mo
#define uatomic_add_return_mo(addr, v, mo) __extension__ ({ \
	__typeof__(addr) _a = (addr); __typeof__(*(addr)) _v = (__typeof__(*(addr)))(v); \
	vh_pre(VK_ADDRET, _a, sizeof(*_a), (unsigned long)_v, 0, (mo)); \
	__typeof__(*(addr)) _r = _uatomic_add_return(_a, _v); \
	vh_post(VK_ADDRET, _a, sizeof(*_a), (unsigned long)_r); _r; })
#define VH_VOID_RMW(K, orig, addr, v, mo) __extension__ ({ \
	__typeof__(addr) _a = (addr); __typeof__(*(addr)) _v = (__typeof__(*(addr)))(v); \
	vh_pre(K, _a, sizeof(*_a), (unsigned long)_v, 0, (mo)); orig(_a, _v); vh_post(K, _a, sizeof(*_a), 0); })
#undef uatomic_or_mo
#define uatomic_or_mo(addr, v, mo) VH_VOID_RMW(VK_OR, _uatomic_or, addr, v, mo)
#undef uatomic_and_mo
#define uatomic_and_mo(addr, v, mo) VH_VOID_RMW(VK_AND, _uatomic_and, addr, v, mo)
#undef uatomic_add_mo
#define uatomic_add_mo(addr, v, mo) VH_VOID_RMW(VK_ADD, _uatomic_add, addr, v, mo)
#undef uatomic_inc_mo
#define uatomic_inc_mo(addr, mo) __extension__ ({ __typeof__(addr) _a = (addr); vh_pre(VK_INC, _a, sizeof(*_a), 0, 0, (mo)); _uatomic_inc(_a); vh_post(VK_INC, _a, sizeof(*_a), 0); })
#undef uatomic_dec_mo
#define uatomic_dec_mo(addr, mo) __extension__ ({ __typeof__(addr) _a = (addr); vh_pre(VK_DEC, _a, sizeof(*_a), 0, 0, (mo)); _uatomic_dec(_a); vh_post(VK_DEC, _a, sizeof(*_a), 0); })
#undef caa_cpu_relax
#define caa_cpu_relax() vh_pre(VK_RELAX, 0, 0, 0, 0, 0)

#include <pthread.h>
#include <unistd.h>
#include <sys/syscall.h>
extern int vh_mutex_lock(pthread_mutex_t *m);
extern int vh_mutex_trylock(pthread_mutex_t *m);
extern int vh_mutex_unlock(pthread_mutex_t *m);
#define pthread_mutex_lock(m) vh_mutex_lock(m)
#define pthread_mutex_trylock(m) vh_mutex_trylock(m)
#define pthread_mutex_unlock(m) vh_mutex_unlock(m)
extern int vh_cond_wait(pthread_cond_t *c, pthread_mutex_t *m);
extern int vh_cond_broadcast(pthread_cond_t *c);
#define pthread_cond_wait(c, m) vh_cond_wait(c, m)
#define pthread_cond_broadcast(c) vh_cond_broadcast(c)
#define pthread_cond_signal(c) vh_cond_broadcast(c)
extern int vh_pthread_create(pthread_t *t, const pthread_attr_t *a, void *(*fn)(void *), void *arg);
extern int vh_pthread_join(pthread_t t, void **ret);
#define pthread_create vh_pthread_create
#define pthread_join vh_pthread_join
extern void vh_pthread_exit(void *r) __attribute__((noreturn));
#define pthread_exit vh_pthread_exit
extern long vh_syscall(long nr, ...);
#define syscall vh_syscall
#include <poll.h>
extern int vh_poll(void *fds, unsigned long n, int ms);
#define poll(a,b,c) vh_poll((void*)(a),(b),(c))
#include <signal.h>
extern int vh_pthread_sigmask(int how, const sigset_t *set, sigset_t *old);
#define pthread_sigmask(h,s,o) vh_pthread_sigmask(h,s,o)
extern int vh_usleep(unsigned us);
#define usleep(x) vh_usleep(x)
#endif
