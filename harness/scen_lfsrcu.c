/* legacy RCU lock-free stack scenario: real static/rculfstack.h (cds_lfs_*_rcu) under the controlled scheduler.
   usage: scen_lfsrcu PROG SCHED ; ops: P<d> cds_lfs_push_rcu(node d), p = cds_lfs_pop_rcu inside a read-side critical section of an abstract RCU (the section
   also covers the use of the returned node), r = wait for a grace period of that abstract RCU - it really waits for every section open at its start (schedulable
   spin) - and push again the node obtained by this thread's last pop (node reuse after a grace period), e = the stack is empty (head load). */
#define _LGPL_SOURCE
#include <urcu/rculfstack.h>
#include <stdio.h>
#include <stdlib.h>
#include <string.h>
#include "sched.h"
#define MAXTH 6
static struct cds_lfs_stack_rcu s; static struct cds_lfs_node_rcu n[10];
static char *prog[MAXTH]; static int nprog;
static unsigned long gen[MAXTH+2];          /* odd: thread is inside a read-side section */
static void f_lock(void){ int t=vs_self(); if(t>=0){ gen[t]++; cmm_smp_mb(); vs_note("rl"); } }
static void f_unlock(void){ int t=vs_self(); if(t>=0){ vs_note("ru"); cmm_smp_mb(); gen[t]++; } }
static void f_sync(void){ unsigned long snap[MAXTH+2]; int me=vs_self();
	vs_call("sync",0); cmm_smp_mb();
	for(int t=0;t<MAXTH;t++) snap[t]=gen[t];
	for(int t=0;t<MAXTH;t++) if(t!=me && (snap[t]&1)) while(CMM_LOAD_SHARED(gen[t])==snap[t]) caa_cpu_relax();
	cmm_smp_mb(); vs_ret("sync",0); }
static void body(int t){ struct cds_lfs_node_rcu *last=0;
  for(char *p=prog[t]; *p; p++){
	if(*p=='P'){ struct cds_lfs_node_rcu *x=&n[p[1]-'0']; p++; vs_call("push",(unsigned long)x); int r=cds_lfs_push_rcu(&s,x); vs_ret("push",r); }
	else if(*p=='r'){ struct cds_lfs_node_rcu *x=last; last=0; if(!x){ vs_call("skip",0); vs_ret("skip",0); continue; }
		f_sync(); vs_call("push",(unsigned long)x); int r=cds_lfs_push_rcu(&s,x); vs_ret("push",r); }
	else if(*p=='p'){ vs_call("pop",0); f_lock(); struct cds_lfs_node_rcu *x=cds_lfs_pop_rcu(&s); f_unlock(); if(x) last=x; vs_ret("pop",(unsigned long)x); }
	else if(*p=='e'){ vs_call("empty",0); int r = CMM_LOAD_SHARED(s.head)==NULL; vs_ret("empty",r); } } }
int main(int argc,char**argv){
	static char obuf[1<<20]; setvbuf(stdout,obuf,_IOFBF,sizeof obuf);
	if(argc<3) return 9;
	for(char *q=strtok(argv[1],"/"); q && nprog<MAXTH; q=strtok(0,"/")) prog[nprog++]=q;
	cds_lfs_init_rcu(&s); for(int i=0;i<10;i++) cds_lfs_node_init_rcu(&n[i]);
	vs_region(&s.head,sizeof s.head,"head"); vs_region(n,sizeof n,"n"); vs_region(gen,sizeof gen,"gen"); vs_plain_track(n,sizeof n);
	vs_strict=0;
	for(int i=0;i<nprog;i++) vs_spawn(body);
	vs_run(argv[2]);
	{ struct cds_lfs_node_rcu *x=s.head; printf("- final"); int g=0; while(x && g++<20){ printf(" %d",(int)(x-n)); x=x->next; } printf("\n"); }
	fflush(stdout); _exit(0); }
