(* runs the extracted wfstack model: driver PROG SCHED ; ops P<d> push node d (id d+2), a = pop_all followed by the blocking iteration *)
open Wfs_model
let rec nat_of_int i = if i <= 0 then O else S (nat_of_int (i-1))
let rec int_of_nat = function O -> 0 | S n -> 1 + int_of_nat n
let rec pos_of_int i = if i = 1 then XH else if i land 1 = 0 then XO (pos_of_int (i lsr 1)) else XI (pos_of_int (i lsr 1))
let n_of_int i = if i = 0 then N0 else Npos (pos_of_int i)
let rec int_of_pos = function XH -> 1 | XO p -> 2 * int_of_pos p | XI p -> 2 * int_of_pos p + 1
let int_of_n = function N0 -> 0 | Npos p -> int_of_pos p
let sloc = function SHead -> "head" | SNext k -> Printf.sprintf "next(%d)" (int_of_n k)
let parse_prog s =
  let ops = ref [] in
  let i = ref 0 in
  while !i < String.length s do
    (match s.[!i] with
     | 'P' -> ops := OPush (n_of_int (2 + Char.code s.[!i+1] - 48)) :: !ops; incr i
     | 'a' -> ops := OPopAll :: !ops
     | _ -> ());
    incr i
  done; List.rev !ops
let opname o = match int_of_nat o with 0 -> "push" | _ -> "popall"
let () =
  let progs = Array.of_list (List.map parse_prog (String.split_on_char '/' Sys.argv.(1))) in
  let threads t = let i = int_of_nat t in if i < Array.length progs then progs.(i) else [] in
  let cs = ref [] in
  String.iter (fun c -> let k = Char.code c in
    if k >= 48 && k < 58 then cs := Step (nat_of_int (k-48)) :: !cs
    else if k >= 97 && k < 107 then cs := Flush (nat_of_int (k-97)) :: !cs) Sys.argv.(2);
  let evs = run_s threads (List.rev !cs) in
  let i = int_of_n in
  List.iter (function
    | EvFlush (t,l,_) -> Printf.printf "%d flush %s\n" (int_of_nat t) (sloc l)
    | Ev (t,a,r) -> let t = int_of_nat t in
      (match a with
       | ALoad l -> Printf.printf "%d load %s -> %d\n" t (sloc l) (i r)
       | AStore (l,v) -> Printf.printf "%d store %s v=%d\n" t (sloc l) (i v)
       | AXchg (l,v) -> Printf.printf "%d xchg %s v=%d -> %d\n" t (sloc l) (i v) (i r)
       | ACas (l,e,n) -> Printf.printf "%d cas %s exp=%d new=%d -> %d\n" t (sloc l) (i e) (i n) (i r)
       | AFence -> Printf.printf "%d mb\n" t
       | ARelax -> Printf.printf "%d relax\n" t
       | ASleep -> Printf.printf "%d sleep\n" t
       | ACall (o,v) -> Printf.printf "%d call %s %d\n" t (opname o) (i v)
       | ARet (o,v) -> Printf.printf "%d ret %s %d\n" t (opname o) (i v)
       | ADone -> ())) evs
