(* reads "I c0" / "S" / "P h" / "W" lines (the atomic actions of an implementation run of urcu-poll-impl.h, in lock order, or a
   sequential operation list), runs the extracted PollWord.wstep and prints what the model returns for each action *)
open Poll_model
let rec pos_of_int64 (x : int64) : positive =       (* x > 0 as unsigned *)
  if x = 1L then XH else
    let hi = Int64.shift_right_logical x 1 in
    if Int64.logand x 1L = 1L then XI (pos_of_int64 hi) else XO (pos_of_int64 hi)
let z_of_u64 (x : int64) : z = if x = 0L then Z0 else Zpos (pos_of_int64 x)
let rec int64_of_pos = function XH -> 1L | XO p -> Int64.shift_left (int64_of_pos p) 1 | XI p -> Int64.logor (Int64.shift_left (int64_of_pos p) 1) 1L
let u64_of_z = function Z0 -> 0L | Zpos p -> int64_of_pos p | Zneg p -> Int64.neg (int64_of_pos p)
let u s = Int64.of_string ("0u" ^ s)
let () =
  let st = ref (winit Z0) in
  try while true do
    let l = input_line stdin in
    match List.filter (fun s -> s <> "") (String.split_on_char ' ' l) with
    | ["I"; c] -> st := winit (z_of_u64 (u c)); Printf.printf "I %Lu\n" (u64_of_z !st.wcur)
    | ["S"] -> let (s', r) = wstep !st OStart in st := s';
        (match r with RHandle (h, c) -> Printf.printf "S -> %Lu %d\n" (u64_of_z h) (if c then 1 else 0) | _ -> print_endline "S -> ?")
    | ["P"; h] -> let (s', r) = wstep !st (OPoll (z_of_u64 (u h))) in st := s';
        (match r with RPoll b -> Printf.printf "P %s -> %d\n" h (if b then 1 else 0) | _ -> print_endline "P -> ?")
    | ["W"] -> let (s', r) = wstep !st OWorker in st := s';
        (match r with RWorker b -> Printf.printf "W -> %d\n" (if b then 1 else 0) | RNone -> print_endline "W -> none" | _ -> print_endline "W -> ?")
    | ["D"] -> Printf.printf "D cur %Lu latest %Lu active %d pending %d\n" (u64_of_z !st.wcur) (u64_of_z !st.wlat) (if !st.wact then 1 else 0) (if !st.wpend then 1 else 0)
    | _ -> ()
  done with End_of_file -> ()
