(* Refinement check for RCU lists: reads blocks "T <ops>" / "U loc val" (updater store of val to the next field of loc issued) / "F" (oldest buffered store becomes visible) /
   "R r loc val" (reader r loaded val from the next field of loc) / ".", runs the extracted RcuList.exec on the same choices and checks that
   every reader load is the load the model's cursor performs and returns the model's value; at "." the model's memory chain is printed. *)
open Rculist_model
let rec nat_of_int i = if i <= 0 then O else S (nat_of_int (i-1))
let rec pos_of_int i = if i = 1 then XH else if i land 1 = 0 then XO (pos_of_int (i lsr 1)) else XI (pos_of_int (i lsr 1))
let n_of_int i = if i = 0 then N0 else Npos (pos_of_int i)
let rec int_of_pos = function XH -> 1 | XO p -> 2 * int_of_pos p | XI p -> 2 * int_of_pos p + 1
let int_of_n = function N0 -> 0 | Npos p -> int_of_pos p
let parse_op s =
  let num x = n_of_int (int_of_string x) in
  match s.[0] with
  | 'a' -> UAdd (num (String.sub s 1 (String.length s - 1)))
  | 't' -> UAddTail (num (String.sub s 1 (String.length s - 1)))
  | 'd' -> UDel (num (String.sub s 1 (String.length s - 1)))
  | _ -> (match String.split_on_char ',' (String.sub s 1 (String.length s - 1)) with [o; n] -> URepl (num o, num n) | _ -> failwith "op")
let () =
  let st = ref (init []) and n = ref 0 and bad = ref None in
  let finish () =
    (match !bad with
     | None -> let buf = Buffer.create 64 in
         let rec walk x k = if k > 40 then Buffer.add_string buf " ..." else
           let nx = int_of_n (!st.m (n_of_int x)) in if nx = 0 then () else (Buffer.add_string buf (Printf.sprintf " %d" nx); walk nx (k+1)) in
         walk 0 0; Printf.printf "ok %d chain%s\n" !n (Buffer.contents buf)
     | Some msg -> Printf.printf "mismatch %s\n" msg);
    st := init []; n := 0; bad := None in
  try while true do
    let l = input_line stdin in
    (match List.filter (fun s -> s <> "") (String.split_on_char ' ' l) with
     | ["."] -> finish ()
     | "T" :: ops -> st := init (List.map parse_op ops)
     | ["U"] -> if !bad = None then (st := exec UStep !st; incr n)
     | ["U"; loc; v] -> if !bad = None then begin      (* the store the implementation issued must be the store the model issues at this point *)
         let loc = int_of_string loc and v = int_of_string v in
         let before = List.length !st.buf in
         st := exec UStep !st; incr n;
         (match List.rev !st.buf with
          | (a, w) :: _ when List.length !st.buf = before + 1 ->
              if int_of_n a <> loc || int_of_n w <> v then
                bad := Some (Printf.sprintf "action %d: updater stores %d to the next field of %d, the model's next store is %d to the next field of %d" !n v loc (int_of_n w) (int_of_n a))
          | _ -> bad := Some (Printf.sprintf "action %d: updater stores %d to the next field of %d, the model issues no store here" !n v loc)) end
     | ["F"] -> if !bad = None then (st := exec UFlush !st; incr n)
     | ["R"; r; loc; v] -> if !bad = None then begin
         let r = nat_of_int (int_of_string r) and loc = int_of_string loc and v = int_of_string v in
         let cur = int_of_n (!st.rcur r) in
         if cur <> loc then bad := Some (Printf.sprintf "action %d: reader loads the next field of %d, the model's cursor is %d" !n loc cur)
         else begin st := exec (RStep r) !st; incr n;
           let got = int_of_n (!st.rcur r) in
           if got <> v then bad := Some (Printf.sprintf "action %d: reader read %d from the next field of %d, the model says %d" !n v loc got) end end
     | _ -> ())
  done with End_of_file -> ()
