(* reads blocks of projected resize-protocol actions (one per line, block ends with "."), runs the extracted acceptor
   ResizeProto.prun_idx from pinit k and prints one verdict per block: "ok <n>" or "rejected action <i>: <line>" *)
open Resizeproto_model
let rec nat_of_int i = if i <= 0 then O else S (nat_of_int (i-1))
let rec int_of_nat = function O -> 0 | S n -> 1 + int_of_nat n
let () =
  let k = ref 0 and acts = ref [] and lines = ref [] in
  let flush () =
    let l = List.rev !acts in
    (match prun_idx (pinit (nat_of_int !k)) l O with
     | Inl n -> Printf.printf "ok %d\n" (int_of_nat n)
     | Inr i -> let i = int_of_nat i in Printf.printf "rejected action %d: %s (after: %s)\n" i (List.nth (List.rev !lines) i)
                  (String.concat "; " (List.filteri (fun j _ -> j >= i - 6 && j < i) (List.rev !lines))));
    acts := []; lines := []; k := 0 in
  try while true do
    let l = input_line stdin in
    let n s = nat_of_int (int_of_string s) in
    let add a = acts := a :: !acts; lines := l :: !lines in
    match List.filter (fun s -> s <> "") (String.split_on_char ' ' l) with
    | ["."] -> flush ()
    | ["I"; x] -> k := int_of_string x
    | ["A"; id; o] -> add (PAlloc (n id, n o))
    | ["L"; id] -> add (PLink (n id))
    | ["S"; x] -> add (PSize (n x))
    | ["Y"; t] -> add (PSyncBegin (n t))
    | ["Z"; t] -> add (PSyncEnd (n t))
    | ["U"; id] -> add (PFlag (n id))
    | ["D"; id] -> add (PUnlinked (n id))
    | ["F"; id] -> add (PFree (n id))
    | ["E"; t] -> add (PEnter (n t))
    | ["X"; t] -> add (PExit (n t))
    | ["R"; t; x] -> add (PReadSize (n t, n x))
    | ["Q"; t; id] -> add (PTouch (n t, n id))
    | _ -> ()
  done with End_of_file -> ()
