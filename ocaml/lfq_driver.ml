(* runs the extracted rculfqueue model on a thread-program spec and a schedule; prints one canonical line per event.
   usage: driver PROG SCHED   PROG = thread programs separated by '/', each a string of E<digit> (enqueue user node) and D (dequeue) *)
open Lfq_model
let rec nat_of_int i = if i <= 0 then O else S (nat_of_int (i-1))
let rec int_of_nat = function O -> 0 | S n -> 1 + int_of_nat n
let rec pos_of_int i = if i = 1 then XH else if i land 1 = 0 then XO (pos_of_int (i lsr 1)) else XI (pos_of_int (i lsr 1))
let n_of_int i = if i = 0 then N0 else Npos (pos_of_int i)
let rec int_of_pos = function XH -> 1 | XO p -> 2 * int_of_pos p | XI p -> 2 * int_of_pos p + 1
let int_of_n = function N0 -> 0 | Npos p -> int_of_pos p
let sloc = function LHead -> "head" | LTail -> "tail" | LNext k -> Printf.sprintf "next(%d)" (int_of_n k)
(* ids: 1 = initial dummy; 10+i = user node i; 30+8t+k = k-th dummy allocated by thread t *)
let isd n = let i = int_of_n n in i = 1 || i >= 30
let m0 = function LHead -> n_of_int 1 | LTail -> n_of_int 1 | LNext _ -> N0
let sup t = List.init 8 (fun k -> n_of_int (30 + 8*t + k))
let parse_prog s =
  let ops = ref [] in
  let i = ref 0 in
  while !i < String.length s do
    (match s.[!i] with
     | 'E' -> ops := OEnq (n_of_int (10 + Char.code s.[!i+1] - 48)) :: !ops; incr i
     | 'D' -> ops := ODeq :: !ops
     | _ -> ());
    incr i
  done; List.rev !ops
let () =
  let progs = Array.of_list (List.map parse_prog (String.split_on_char '/' Sys.argv.(1))) in
  let threads t = let i = int_of_nat t in if i < Array.length progs then (progs.(i), sup i) else ([], []) in
  let sched = Sys.argv.(2) in
  let cs = ref [] in
  String.iter (fun c -> let k = Char.code c in
    if k >= 48 && k < 58 then cs := Step (nat_of_int (k-48)) :: !cs
    else if k >= 97 && k < 107 then cs := Flush (nat_of_int (k-97)) :: !cs) sched;
  let evs = run_q isd m0 threads (List.rev !cs) in
  List.iter (function
    | EvFlush (t,l,_) -> Printf.printf "%d flush %s\n" (int_of_nat t) (sloc l)
    | Ev (t,a,r) -> let t = int_of_nat t in
      (match a with
       | ALoad l -> Printf.printf "%d load %s -> %d\n" t (sloc l) (int_of_n r)
       | ACas (l,e,n) -> Printf.printf "%d cas %s exp=%d new=%d -> %d\n" t (sloc l) (int_of_n e) (int_of_n n) (int_of_n r)
       | AFence -> Printf.printf "%d mb\n" t
       | ACall (o,v) -> (match int_of_nat o with 0 -> Printf.printf "%d call enq %d\n" t (int_of_n v) | 1 -> Printf.printf "%d call deq\n" t | _ -> Printf.printf "%d call free %d\n" t (int_of_n v))
       | ARet (o,v) -> (match int_of_nat o with 0 -> Printf.printf "%d ret enq\n" t | _ -> Printf.printf "%d ret deq %d\n" t (int_of_n v))
       | _ -> ())) evs
