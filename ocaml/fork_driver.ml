(* Refinement check for the call_rcu fork handshake: reads blocks "T nh" / "C h c" (call_rcu of callback c queued on helper h) / "P h" (helper splices
   its queue) / "E h" (its grace period ends) / "I h c" (it invokes c) / "U h" (its rcu_unregister_thread() has returned) / "Z h" (it raises PAUSED) / "R h" (it clears PAUSED) / "G h" (its rcu_register_thread() has returned) / "B" (the forking thread
   raises PAUSE) / "K q0|q1|..." (the point where fork() copies the address space, with the callbacks found in each helper's queue) / "N" (PAUSE cleared) /
   ".", feeds them to the extracted ForkRun.fstep and compares the queues at the fork with the model's. *)
open Fork_model
let rec nat_of_int i = if i <= 0 then O else S (nat_of_int (i-1))
let rec int_of_nat = function O -> 0 | S n -> 1 + int_of_nat n
let () =
  let nh = ref O and st = ref init and n = ref 0 and bad = ref None in
  let step c what = if !bad = None then (match fstep !nh c !st with Some s' -> st := s'; incr n | None -> bad := Some (Printf.sprintf "action %d (%s) is not enabled in the model" !n what)) in
  let finish () = (match !bad with None -> Printf.printf "ok %d\n" !n | Some m -> Printf.printf "rejected %s\n" m); st := init; n := 0; bad := None in
  try while true do
    let l = input_line stdin in
    (match List.filter (fun s -> s <> "") (String.split_on_char ' ' l) with
     | ["."] -> finish ()
     | ["T"; k] -> nh := nat_of_int (int_of_string k)
     | ["C"; h; c] -> step (CCall (nat_of_int (int_of_string h), nat_of_int (int_of_string c))) l
     | ["P"; h] -> step (HSplice (nat_of_int (int_of_string h))) l
     | ["E"; h] -> step (HSync (nat_of_int (int_of_string h))) l
     | ["I"; h; c] -> if !bad = None then begin
         let hh = nat_of_int (int_of_string h) in
         (match (!st.hp hh).hbatch with
          | c0 :: _ when int_of_nat c0 = int_of_string c -> step (HInvoke hh) l
          | c0 :: _ -> bad := Some (Printf.sprintf "action %d: helper %s invokes callback %s, the head of the model's batch is %d" !n h c (int_of_nat c0))
          | [] -> bad := Some (Printf.sprintf "action %d: helper %s invokes callback %s, the model's batch is empty" !n h c)) end
     | ["Z"; h] -> step (HPause (nat_of_int (int_of_string h))) l
     | ["R"; h] -> step (HResume (nat_of_int (int_of_string h))) l
     | ["U"; h] -> step (HUnreg (nat_of_int (int_of_string h))) l
     | ["G"; h] -> step (HReg (nat_of_int (int_of_string h))) l
     | ["B"] -> step FBegin l
     | ["N"] -> step FEnd l
     | "K" :: rest -> if !bad = None then begin
         let impl = String.concat " " rest in
         let model = String.concat "|" (List.map (fun q -> String.concat "," (List.map (fun c -> string_of_int (int_of_nat c)) q)) (queues !nh !st)) in
         if not (enabled !nh FFork !st) then bad := Some (Printf.sprintf "action %d: fork point reached, but in the model not every helper is PAUSED" !n)
         else if impl <> model then bad := Some (Printf.sprintf "action %d: at the fork the helpers' queues hold [%s], the model says [%s]" !n impl model)
         else step FFork l end
     | _ -> ())
  done with End_of_file -> ()
