(* reads the operation lines of harness/seqdiff/listdl.c, applies the extracted ListDl.lstep and prints the same lines with the model's next/prev dump *)
open Listdl_model
let rec nat_of_int i = if i <= 0 then O else S (nat_of_int (i-1))
let rec int_of_nat = function O -> 0 | S n -> 1 + int_of_nat n
let nn = 12
let () =
  let m = ref lmem0 in
  let ids = Array.init nn nat_of_int in
  let compact () = let a = Array.init nn (fun i -> !m.nx ids.(i)) and b = Array.init nn (fun i -> !m.pv ids.(i)) in
    m := { nx = (fun x -> let i = int_of_nat x in if i < nn then a.(i) else x); pv = (fun x -> let i = int_of_nat x in if i < nn then b.(i) else x) } in
  let dump head = compact (); print_string head; print_string " |";
    for i = 0 to nn-1 do Printf.printf " %d:%d" (int_of_nat (!m.nx ids.(i))) (int_of_nat (!m.pv ids.(i))) done; print_newline () in
  try while true do
    let l = input_line stdin in
    let head = String.trim (List.hd (String.split_on_char '|' l)) in
    let n s = nat_of_int (int_of_string s) in
    match String.split_on_char ' ' head with
    | ["I"; h] -> m := lstep !m (LInit (n h)); dump head
    | ["A"; x; h] -> m := lstep !m (LAdd (n x, n h)); dump head
    | ["T"; x; h] -> m := lstep !m (LAddTail (n x, n h)); dump head
    | ["D"; x] -> m := lstep !m (LDel (n x)); dump head
    | ["M"; x; h] -> m := lstep !m (LMove (n x, n h)); dump head
    | ["S"; a; h] -> m := lstep !m (LSplice (n a, n h)); dump head
    | ["E"; h; _] -> Printf.printf "E %s %d |\n" h (if l_empty !m (n h) then 1 else 0)
    | _ -> ()
  done with End_of_file -> ()
