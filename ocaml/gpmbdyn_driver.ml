(* refinement check of implementation traces against the mb-flavor grace-period model with dynamic registration (Gp/GpMbDynExec.v).
   stdin: one trace per block: "T <regs...>" then one action per line, "." ends the block.
   actions: L r p | S r p n | N r | F r p n | Y | M | C r p n | P p | E | G r (registered) | U r (unregistered)      (p = 0/1 phase bit, n = nesting count)
   stdout per block: "ok <n>" or "reject <k> <action>" *)
open Gpmbdyn_model
let rec nat_of_int i = if i <= 0 then O else S (nat_of_int (i-1))
let b s = s = "1"
let () =
  let regs = ref [] and st = ref None and k = ref 0 and failed = ref None in
  (try while true do
    let l = input_line stdin in
    let t = List.filter (fun s -> s <> "") (String.split_on_char ' ' l) in
    match t with
    | "T" :: rs -> let ids = List.map int_of_string rs in
        regs := List.map nat_of_int ids;
        st := Some init; k := 0; failed := None
    | ["."] -> (match !failed with None -> Printf.printf "ok %d\n" !k | Some (i, a) -> Printf.printf "reject %d %s\n" i a)
    | _ when !failed <> None -> ()
    | _ ->
      let n = int_of_string and r x = nat_of_int (int_of_string x) in
      let a = match t with
        | ["L"; x; p] -> MLoadGp (r x, b p)
        | ["S"; x; p; c] -> MStoreCtr (r x, (b p, nat_of_int (n c)))
        | ["N"; x] -> MFence (r x)
        | ["F"; x; p; c] -> MFlush (r x, (b p, nat_of_int (n c)))
        | ["Y"] -> MSyncStart | ["M"] -> MMb
        | ["C"; x; p; c] -> MScan (r x, (b p, nat_of_int (n c)))
        | ["P"; p] -> MFlip (b p)
        | ["G"; x] -> MReg (r x) | ["U"; x] -> MUnreg (r x) | _ -> MEnd in
      (match !st with
       | Some s -> (match mexec !regs a s with Some s' -> st := Some s'; incr k | None -> failed := Some (!k, l))
       | None -> ())
  done with End_of_file -> ())
