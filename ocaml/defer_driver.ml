(* reads the operation lines printed by harness/seqdiff/defer.c, runs the extracted DeferRun.dstep and prints lines in the same format *)
open Defer_model
let n_of_int64 (x : int64) : n =
  let rec go i acc = if i < 0 then acc else
    let b = Int64.logand (Int64.shift_right_logical x i) 1L = 1L in
    let acc' = match acc with N0 -> if b then Npos XH else N0 | Npos p -> Npos (if b then XI p else XO p) in go (i-1) acc' in
  go 63 N0
let rec int64_of_pos = function XH -> 1L | XO p -> Int64.shift_left (int64_of_pos p) 1 | XI p -> Int64.logor (Int64.shift_left (int64_of_pos p) 1) 1L
let int64_of_n = function N0 -> 0L | Npos p -> int64_of_pos p
let hx s = Scanf.sscanf s "%Lx" (fun x -> x)
let () =
  let size = Scanf.sscanf (input_line stdin) "SIZE %d" (fun d -> d) in
  Printf.printf "SIZE %d\n" size;
  let sz = n_of_int64 (Int64.of_int size) in
  let r = ref ring0 in
  let pending_line = ref None in
  (match (try Some (input_line stdin) with End_of_file -> None) with
   | Some l when String.length l > 6 && String.sub l 0 6 = "START " ->
       let st = Scanf.sscanf l "START %Lu" (fun x -> x) in print_endline l;
       r := { ring0 with h = n_of_int64 st; t = n_of_int64 st }     (* unbounded counters from here on; printed modulo 2^64 (DeferWrap.rep_enq) *)
   | Some l -> pending_line := Some l
   | None -> ());
  let idx = Array.init size (fun i -> n_of_int64 (Int64.of_int i)) in
  let cur = ref (Array.make size N0) in
  let nops = ref 0 in
  try while true do
    let l = (match !pending_line with Some l -> pending_line := None; l | None -> input_line stdin) in
    let head = List.hd (String.split_on_char '|' l) in
    let toks = List.filter (fun s -> s <> "") (String.split_on_char ' ' head) in
    let op = match toks with
      | ["E"; f; p] -> DEnq (n_of_int64 (hx f), n_of_int64 (hx p))
      | _ -> DBarrier in
    let (r', calls) = dstep sz !r op in
    (* compact the slot function into an array so that lookups stay O(1) *)
    incr nops;
    let r' = if !nops mod 64 = 0 || size < 64 then begin
        let a = Array.init size (fun i -> r'.q idx.(i)) in cur := a;
        { r' with q = (fun s -> a.(Int64.to_int (int64_of_n s))) } end else r' in
    let a = if !nops mod 64 = 0 || size < 64 then !cur else
        (let n = 32 in let base = Int64.add (int64_of_n r'.h) (Int64.of_int (size - 16)) in
         let a = Array.copy !cur in
         for i = 0 to n - 1 do let j = Int64.to_int (Int64.rem (Int64.add base (Int64.of_int i)) (Int64.of_int size)) in a.(j) <- r'.q idx.(j) done; a) in
    r := r';
    Printf.printf "%s| calls:" head;
    List.iter (fun (f, p) -> Printf.printf " (%Lx,%Lx)" (int64_of_n f) (int64_of_n p)) calls;
    Printf.printf " | H=%Lu T=%Lu in=%Lx out=%Lx q=" (int64_of_n r'.h) (int64_of_n r'.t) (int64_of_n r'.last_in) (int64_of_n r'.last_out);
    let n = if size < 32 then size else 32 in
    let base = if size < 32 then 0L else Int64.add (int64_of_n r'.h) (Int64.of_int (size - 16)) in
    for i = 0 to n - 1 do Printf.printf "%Lx," (int64_of_n (a.(Int64.to_int (Int64.rem (Int64.add base (Int64.of_int i)) (Int64.of_int size))))) done;
    print_newline ()
  done with End_of_file -> ()
