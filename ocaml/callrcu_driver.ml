(* refinement check of implementation traces against CallRcu/CallRcuExec.v.
   stdin blocks: "T <reader ids...>", actions one per line, "." ends the block.
   actions: C h c | M h h' | L r | U r | P h | Y h | E h | I h c ; stdout: "ok n" or "reject k action" *)
open Callrcu_model
let rec nat_of_int i = if i <= 0 then O else S (nat_of_int (i-1))
let () =
  let readers = ref [] and st = ref init and k = ref 0 and failed = ref None in
  (try while true do
    let l = input_line stdin in
    let t = List.filter (fun s -> s <> "") (String.split_on_char ' ' l) in
    match t with
    | "T" :: rs -> readers := List.map (fun x -> nat_of_int (int_of_string x)) rs; st := init; k := 0; failed := None
    | ["."] -> (match !failed with None -> Printf.printf "ok %d\n" !k | Some (i, a) -> Printf.printf "reject %d %s\n" i a)
    | _ when !failed <> None -> ()
    | _ ->
      let n x = nat_of_int (int_of_string x) in
      let a = match t with
        | ["C"; h; c] -> CCall (n h, n c) | ["M"; h; h'] -> CMove (n h, n h')
        | ["L"; r] -> RLock (n r) | ["U"; r] -> RUnlock (n r)
        | ["P"; h] -> HSplice (n h) | ["Y"; h] -> HSyncStart (n h) | ["E"; h] -> HSyncEnd (n h)
        | ["I"; h; c] -> HInvoke (n h, n c) | _ -> failwith ("bad action " ^ l) in
      (match cexec !readers a !st with Some s' -> st := s'; incr k | None -> failed := Some (!k, l))
  done with End_of_file -> ())
