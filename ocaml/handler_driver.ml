(* evaluates the extracted HandlerExec functions on observations from implementation traces:
   "L v g tmp1 tmp2 ..": a reader-word store v by rcu_read_lock must be lockw g tmp for one of the candidate tmp values
   "U v tmp1 tmp2 ..":   a store by rcu_read_unlock must be unlockw tmp for one candidate
   "F w0 w1":            reader word before / after a completed handler must satisfy simw
   one verdict line per input line *)
open Handler_model
let rec pos_of_int64 (x : int64) : positive = if x = 1L then XH else let hi = Int64.shift_right_logical x 1 in if Int64.logand x 1L = 1L then XI (pos_of_int64 hi) else XO (pos_of_int64 hi)
let n_of s = let x = Int64.of_string ("0u" ^ s) in if x = 0L then N0 else Npos (pos_of_int64 x)
let () =
  try while true do
    let l = input_line stdin in
    match List.filter (fun s -> s <> "") (String.split_on_char ' ' l) with
    | "L" :: v :: g :: tmps -> print_endline (if List.exists (fun t -> lockw (n_of g) (n_of t) = n_of v) tmps then "ok" else "bad " ^ l)
    | "U" :: v :: tmps -> print_endline (if List.exists (fun t -> unlockw (n_of t) = n_of v) tmps then "ok" else "bad " ^ l)
    | ["F"; w0; w1] -> print_endline (if simw (n_of w1) (n_of w0) then "ok" else "bad " ^ l)
    | _ -> print_endline "ok"
  done with End_of_file -> ()
