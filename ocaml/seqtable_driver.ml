(* reads the lines of harness/seqdiff/lfht_seq.c, runs the extracted SeqTable.sstep (and BucketIdx.order_at / chunk_at for the "B" lines) and prints the same lines with the model's answers *)
open Seqtable_model
let rec pos_of_int64 (x : int64) : positive = if x = 1L then XH else let hi = Int64.shift_right_logical x 1 in if Int64.logand x 1L = 1L then XI (pos_of_int64 hi) else XO (pos_of_int64 hi)
let n_of s = let x = Int64.of_string ("0u" ^ s) in if x = 0L then N0 else Npos (pos_of_int64 x)
let rec int64_of_pos = function XH -> 1L | XO p -> Int64.shift_left (int64_of_pos p) 1 | XI p -> Int64.logor (Int64.shift_left (int64_of_pos p) 1) 1L
let s_of = function N0 -> "0" | Npos p -> Printf.sprintf "%Lu" (int64_of_pos p)
let node i h k = { sid = n_of i; shash = n_of h; skey = n_of k }
let res = function RNode i -> s_of i | RNone -> "none" | RInt v -> s_of v | RErr -> "err" | RList l -> String.concat " " (List.map s_of l)
let () =
  let t = ref [] in
  try while true do
    let l = input_line stdin in
    let head = String.trim (List.hd (String.split_on_char '-' l)) in        (* text before "->" *)
    let run o = let (t', r) = sstep !t o in t := t'; r in
    match List.filter (fun s -> s <> "") (String.split_on_char ' ' head) with
    | ["A"; i; h; k] -> Printf.printf "%s -> %s\n" head (res (run (SAdd (node i h k))))
    | ["U"; i; h; k] -> Printf.printf "%s -> %s\n" head (res (run (SAddUnique (node i h k))))
    | ["R"; i; h; k] -> Printf.printf "%s -> %s\n" head (res (run (SAddReplace (node i h k))))
    | ["P"; o; i; h; k] -> Printf.printf "%s -> %s\n" head (res (run (SReplace (n_of o, node i h k))))
    | ["D"; i] -> Printf.printf "%s -> %s\n" head (res (run (SDel (n_of i))))
    | ["L"; h; k] -> Printf.printf "%s -> %s\n" head (res (run (SLookup (n_of h, n_of k))))
    | ["N"; i; h; k] -> Printf.printf "%s -> %s\n" head (res (run (SNextDup (node i h k))))
    | ["T"] -> let r = res (run STraverse) in Printf.printf "T ->%s\n" (if r = "" then "" else " " ^ r)
    | ["C"] -> Printf.printf "C -> %s\n" (res (run SCount))
    | ["Z"; n] -> Printf.printf "Z %s -> %s\n" n (res (run SResize))
    | ["X"] -> if String.length l >= 9 && String.sub l 5 4 = "skip" then print_endline l else Printf.printf "X -> %s\n" (res (run SDestroy))
    | ["B"; "o"; m; i] -> let (o, off) = order_at (n_of m) (n_of i) in Printf.printf "B o %s %s -> %s %s\n" m i (s_of o) (s_of off)
    | ["B"; "c"; m; i] -> let (c, off) = chunk_at (n_of m) (n_of i) in Printf.printf "B c %s %s -> %s %s\n" m i (s_of c) (s_of off)
    | _ -> print_endline l
  done with End_of_file -> ()
