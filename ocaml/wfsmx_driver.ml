(* refinement check of implementation traces of static/wfstack.h (push, mutex-protected pop, re-push of the popped node) against WfsMx/WfsMxExec.v.
   stdin: one trace per block: "T <prog>" (the scenario's program: P<d> push node d (model id d+2), p pop, r push the popped node again; other letters ignored),
   then one action per line, "." ends it.
   actions: CP t n | XC t n old | ST t n v | CQ t | LK t | LH t v | LN t a v | CAS t e n o | UL t r | NR t
   stdout per block: "ok <n>" (accept = true: Coq theorem accept_sound applies) or "reject <k> <action>" *)
open Wfsmx_model
let rec nat_of_int i = if i <= 0 then O else S (nat_of_int (i-1))
let rec int_of_nat = function O -> 0 | S n -> 1 + int_of_nat n
let rec pos_of_int i = if i = 1 then XH else if i land 1 = 0 then XO (pos_of_int (i lsr 1)) else XI (pos_of_int (i lsr 1))
let n_of_int i = if i = 0 then N0 else Npos (pos_of_int i)
let parse_prog s =
  let ops = ref [] in
  let i = ref 0 in
  while !i < String.length s do
    (match s.[!i] with
     | 'P' -> ops := OPush (n_of_int (2 + Char.code s.[!i+1] - 48)) :: !ops; incr i
     | 'p' -> ops := OPop :: !ops
     | 'r' -> ops := ORepush :: !ops
     | _ -> ());
    incr i
  done; List.rev !ops
let () =
  let progs = ref [] and acts = ref [] and lines = ref [] and bad = ref None in
  (try while true do
    let l = input_line stdin in
    let t = List.filter (fun s -> s <> "") (String.split_on_char ' ' l) in
    match t with
    | ["T"; prog] -> progs := List.map parse_prog (String.split_on_char '/' prog); acts := []; lines := []; bad := None
    | ["."] ->
        (match !bad with
         | Some (i, a) -> Printf.printf "reject %d %s\n" i a
         | None ->
            let al = List.rev !acts in
            if accept !progs al then Printf.printf "ok %d\n" (List.length al)
            else (match mfail al (init (threads_of !progs)) O with
                  | Some k -> let i = int_of_nat k in Printf.printf "reject %d %s\n" i (List.nth (List.rev !lines) i)
                  | None -> Printf.printf "reject -1 the programs are not well formed (a node pushed twice, or node id 0 / 1)\n"))
    | _ when !bad <> None -> ()
    | _ ->
      let th x = nat_of_int (int_of_string x) and n x = n_of_int (int_of_string x) in
      let a = match t with
        | ["CP"; x; v] -> Some (ACallPush (th x, n v))
        | ["XC"; x; v; o] -> Some (AXchg (th x, n v, n o))
        | ["ST"; x; v; w] -> Some (AStore (th x, n v, n w))
        | ["CQ"; x] -> Some (ACallPop (th x))
        | ["LK"; x] -> Some (ALock (th x))
        | ["LH"; x; v] -> Some (ALoadHead (th x, n v))
        | ["LN"; x; h; v] -> Some (ALoadNext (th x, n h, n v))
        | ["CAS"; x; e; nw; o] -> Some (ACas (th x, n e, n nw, n o))
        | ["UL"; x; r] -> Some (AUnlock (th x, n r))
        | ["NR"; x] -> Some (ASkip (th x))
        | _ -> None in
      (match a with
       | Some a -> acts := a :: !acts; lines := l :: !lines
       | None -> bad := Some (List.length !acts, "unparsed: " ^ l))
  done with End_of_file -> ())
