(* refinement check of implementation traces of static/rculfstack.h against the rculfstack model (LfsRcu/LfsRcuExec.v).
   stdin: one trace per block: "T <prog>" (the scenario's program: P<d> push node d (model id d+2), p pop, r reuse, e ignored), then one action per line, "." ends it.
   actions: CP t n | CAS t e n o | LH t v | LN t h v | EN t | LV t | RP t r | RU t | SC t | SD t
   stdout per block: "ok <n>" or "reject <k> <action>" *)
open Lfsrcu_model
let rec nat_of_int i = if i <= 0 then O else S (nat_of_int (i-1))
let rec pos_of_int i = if i = 1 then XH else if i land 1 = 0 then XO (pos_of_int (i lsr 1)) else XI (pos_of_int (i lsr 1))
let n_of_int i = if i = 0 then N0 else Npos (pos_of_int i)
let parse_prog s =
  let ops = ref [] in
  let i = ref 0 in
  while !i < String.length s do
    (match s.[!i] with
     | 'P' -> ops := OPush (n_of_int (2 + Char.code s.[!i+1] - 48)) :: !ops; incr i
     | 'p' -> ops := OPop :: !ops
     | 'r' -> ops := OReuse :: !ops
     | _ -> ());
    incr i
  done; List.rev !ops
let () =
  let nt = ref O and st = ref None and k = ref 0 and failed = ref None in
  (try while true do
    let l = input_line stdin in
    let t = List.filter (fun s -> s <> "") (String.split_on_char ' ' l) in
    match t with
    | ["T"; prog] ->
        let progs = Array.of_list (List.map parse_prog (String.split_on_char '/' prog)) in
        let rec int_of_nat = function O -> 0 | S n -> 1 + int_of_nat n in
        nt := nat_of_int (Array.length progs);
        st := Some (init (fun t -> let i = int_of_nat t in if i < Array.length progs then progs.(i) else [])); k := 0; failed := None
    | ["."] -> (match !failed with None -> Printf.printf "ok %d\n" !k | Some (i, a) -> Printf.printf "reject %d %s\n" i a)
    | _ when !failed <> None -> ()
    | _ ->
      let th x = nat_of_int (int_of_string x) and n x = n_of_int (int_of_string x) in
      let a = match t with
        | ["CP"; x; v] -> Some (ACallPush (th x, n v))
        | ["CAS"; x; e; nw; o] -> Some (ACas (th x, n e, n nw, n o))
        | ["LH"; x; v] -> Some (ALoadHead (th x, n v))
        | ["LN"; x; h; v] -> Some (ALoadNext (th x, n h, n v))
        | ["EN"; x] -> Some (AEnter (th x)) | ["LV"; x] -> Some (ALeave (th x))
        | ["RP"; x; r] -> Some (ARetPop (th x, n r)) | ["RU"; x] -> Some (ARetPush (th x))
        | ["SC"; x] -> Some (ASyncCall (th x)) | ["SD"; x] -> Some (ASyncDone (th x))
        | _ -> None in
      (match !st, a with
       | Some s, Some a -> (match rexec !nt a s with Some s' -> st := Some s'; incr k | None -> failed := Some (!k, l))
       | _, None -> failed := Some (!k, "unparsed: " ^ l)
       | None, _ -> ())
  done with End_of_file -> ())
