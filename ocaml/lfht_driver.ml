(* runs the extracted rculfhash model: driver PROG SCHED ; ops A<i> U<i> L<i> X P<i> as in harness/scen_lfht.c
   node ids: 1 = bucket 0, 2 = bucket 1, 3+i = entry i.  Reverse hashes are given by order-preserving ranks. *)
open Lfht_model
let rec nat_of_int i = if i <= 0 then O else S (nat_of_int (i-1))
let rec int_of_nat = function O -> 0 | S n -> 1 + int_of_nat n
let rec pos_of_int i = if i = 1 then XH else if i land 1 = 0 then XO (pos_of_int (i lsr 1)) else XI (pos_of_int (i lsr 1))
let n_of_int i = if i = 0 then N0 else Npos (pos_of_int i)
let rec int_of_pos = function XH -> 1 | XO p -> 2 * int_of_pos p | XI p -> 2 * int_of_pos p + 1
let int_of_n = function N0 -> 0 | Npos p -> int_of_pos p
let sloc = function HSize -> "size" | HNext k -> Printf.sprintf "next(%d)" (int_of_n k) | HIns k -> Printf.sprintf "ins(%d)" (int_of_n k)
let eh = [|5;5;5;7;4;5;7;4|]
let ek = [|0;1;0;3;4;5;3;4|]
(* rank of the bit-reversed hash: b0 (0) < hash 4 < b1 < hash 5 < hash 7 *)
let rank_of_hash h = match h with 4 -> 2 | 5 -> 10 | 7 -> 14 | _ -> 15
let cfg = { rh = (fun id -> let i = int_of_n id in n_of_int (if i = 1 then 0 else if i = 2 then 8 else if i >= 3 && i < 11 then rank_of_hash eh.(i-3) else 15));
            hashof = (fun id -> let i = int_of_n id in n_of_int (if i = 1 then 0 else if i = 2 then 1 else if i >= 3 && i < 11 then eh.(i-3) else 0));
            key = (fun id -> let i = int_of_n id in n_of_int (if i >= 3 && i < 11 then ek.(i-3) else 99));
            bucket = (fun idx -> n_of_int (int_of_n idx + 1)) }
let m0 = function HSize -> n_of_int 2 | HNext k -> (match int_of_n k with 1 -> n_of_int (8*2+2) | 2 -> n_of_int 2 | _ -> N0) | HIns k -> (match int_of_n k with 1 | 2 -> n_of_int 1 | _ -> N0)
let parse_prog s =
  let ops = ref [] in
  let i = ref 0 in
  while !i < String.length s do
    (match s.[!i] with
     | 'A' -> let e = Char.code s.[!i+1] - 48 in ops := OAdd (n_of_int (3+e), n_of_int eh.(e), false) :: !ops; incr i
     | 'U' -> let e = Char.code s.[!i+1] - 48 in ops := OAdd (n_of_int (3+e), n_of_int eh.(e), true) :: !ops; incr i
     | 'L' -> let e = Char.code s.[!i+1] - 48 in ops := OLookup (n_of_int eh.(e), n_of_int (rank_of_hash eh.(e)), n_of_int ek.(e)) :: !ops; incr i
     | 'P' -> let e = Char.code s.[!i+1] - 48 in ops := OReplaceFound (n_of_int (3+e)) :: !ops; incr i
     | 'X' -> ops := ODelFound :: !ops
     | _ -> ());
    incr i
  done; List.rev !ops
let () =
  let progs = Array.of_list (List.map parse_prog (String.split_on_char '/' Sys.argv.(1))) in
  let threads t = let i = int_of_nat t in if i < Array.length progs then progs.(i) else [] in
  let cs = ref [] in
  String.iter (fun c -> let k = Char.code c in
    if k >= 48 && k < 58 then cs := Step (nat_of_int (k-48)) :: !cs
    else if k >= 97 && k < 107 then cs := Flush (nat_of_int (k-97)) :: !cs) Sys.argv.(2);
  let evs = run_h cfg m0 threads (List.rev !cs) in
  let opn o = match int_of_nat o with 0 -> "add" | 1 -> "lookup" | 2 -> "del" | _ -> "replace" in
  let i = int_of_n in
  List.iter (function
    | EvFlush (t,l,_) -> Printf.printf "%d flush %s\n" (int_of_nat t) (sloc l)
    | Ev (t,a,r) -> let t = int_of_nat t in
      (match a with
       | ALoad l -> Printf.printf "%d load %s -> %d\n" t (sloc l) (i r)
       | AStore (l,v) -> Printf.printf "%d store %s v=%d\n" t (sloc l) (i v)
       | AXchg (l,v) -> Printf.printf "%d xchg %s v=%d -> %d\n" t (sloc l) (i v) (i r)
       | ACas (l,e,n) -> Printf.printf "%d cas %s exp=%d new=%d -> %d\n" t (sloc l) (i e) (i n) (i r)
       | AFor (l,v) -> Printf.printf "%d or %s v=%d\n" t (sloc l) (i v)
       | AFence -> Printf.printf "%d mb\n" t
       | ARelax -> Printf.printf "%d relax\n" t
       | ASleep -> Printf.printf "%d sleep\n" t
       | ACall (o,v) -> Printf.printf "%d call %s %d\n" t (opn o) (i v)
       | ARet (o,v) -> Printf.printf "%d ret %s %d\n" t (opn o) (i v)
       | ADone -> ())) evs
