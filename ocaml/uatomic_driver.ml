(* reads the case lines printed by harness/seqdiff/uatomic.c on stdin, evaluates the extracted Coq model (Uatomic.exec) on the same
   inputs and prints lines in the same format *)
open Uatomic_model
let rec nat_of_int i = if i <= 0 then O else S (nat_of_int (i-1))
let n_of_int64 (x : int64) : n =
  (* bits, most significant first *)
  let rec go i acc = if i < 0 then acc else
    let b = Int64.logand (Int64.shift_right_logical x i) 1L = 1L in
    let acc' = match acc with N0 -> if b then Npos XH else N0 | Npos p -> Npos (if b then XI p else XO p) in go (i-1) acc' in
  go 63 N0
let rec int64_of_pos = function XH -> 1L | XO p -> Int64.shift_left (int64_of_pos p) 1 | XI p -> Int64.logor (Int64.shift_left (int64_of_pos p) 1) 1L
let int64_of_n = function N0 -> 0L | Npos p -> int64_of_pos p
let hex s = Int64.of_string ("0u" ^ Int64.to_string (Int64.of_string ("0x" ^ s))) [@@ocaml.warning "-32"]
let parse_hex s = Scanf.sscanf s "%Lx" (fun x -> x)
let () =
  try while true do
    let line = input_line stdin in
    Scanf.sscanf line "%s %d %d %d %s %s %s" (fun opn w sg off olds a_s b_s ->
      let old = n_of_int64 (parse_hex olds) and a = n_of_int64 (parse_hex a_s) and b = n_of_int64 (parse_hex b_s) in
      let wn = nat_of_int w in
      let addr = n_of_int64 (Int64.of_int (8 + off * w)) in
      let m0 = (fun _ -> n_of_int64 165L) in
      let m1 = wr m0 addr wn old in                       (* the plain initialising store *)
      let o = match opn with
        | "add_return" -> OAddRet a | "sub_return" -> OSubRet a | "xchg" -> OXchg a | "cmpxchg" -> OCmpxchg (a, b)
        | "add" -> OAdd a | "sub" -> OSub a | "and" -> OAnd a | "or" -> OOr a | "inc" -> OInc | "dec" -> ODec
        | "set" -> OSet a | _ -> ORead in
      let (m2, r) = exec m1 addr wn o in
      let r = match opn with "add"|"sub"|"and"|"or"|"inc"|"dec"|"set" -> 0L | _ -> int64_of_n r in
      Printf.printf "%s %d %d %d %s %s %s -> %Lx " opn w sg off olds a_s b_s r;
      for i = 0 to 31 do Printf.printf "%02Lx" (int64_of_n (m2 (n_of_int64 (Int64.of_int i)))) done;
      print_newline ())
  done with End_of_file -> ()
