(* reads "C auto maxb tgt size count" lines (one sequential call of cds_lfht_resize_lazy_count: the table's flags, max_nr_buckets, resize_target before the call,
   and the arguments) and prints what the extracted Progress/LazyCount.v lazy_count gives: the new resize_target and L (resize launched) or Q;
   "T size count t1 t2 ..." (the values of resize_target met by the successive compare-and-swap attempts of one shrink request observed in a concurrent run):
   prints the model's outcome and its number of attempts, or "spin" when the model does not finish on those observations *)
open Lazycount_model
let rec pos_of_int64 (x : int64) : positive =
  if x = 1L then XH else
    let hi = Int64.shift_right_logical x 1 in
    if Int64.logand x 1L = 1L then XI (pos_of_int64 hi) else XO (pos_of_int64 hi)
let n_of_u64 (x : int64) : n = if x = 0L then N0 else Npos (pos_of_int64 x)
let rec int64_of_pos = function XH -> 1L | XO p -> Int64.shift_left (int64_of_pos p) 1 | XI p -> Int64.logor (Int64.shift_left (int64_of_pos p) 1) 1L
let u64_of_n = function N0 -> 0L | Npos p -> int64_of_pos p
let u s = n_of_u64 (Int64.of_string ("0u" ^ s))
let rec int_of_nat = function O -> 0 | S k -> 1 + int_of_nat k
let rs = function Launch -> "L" | Quiet -> "Q"
let () =
  try while true do
    let l = input_line stdin in
    match List.filter (fun s -> s <> "") (String.split_on_char ' ' l) with
    | ["C"; a; m; t; s; c] ->
        let (t', r) = lazy_count (a = "1") (u m) (u t) (u s) (u c) in
        Printf.printf "C %s %s %s %s %s -> %Lu %s\n" a m t s c (u64_of_n t') (rs r)
    | "T" :: s :: c :: obs ->
        (match shrink_run (List.map u obs) (u s) (u c) with
         | Some ((t', r), k) -> Printf.printf "T -> %Lu %s %d\n" (u64_of_n t') (rs r) (int_of_nat k)
         | None -> print_endline "T -> spin")
    | _ -> ()
  done with End_of_file -> ()
