(* reads the lines of harness/seqdiff/bparena.c, runs the extracted BpArena.alloc / free and prints the same lines with the model's slot and allocation bits *)
open Bparena_model
let rec nat_of_int i = if i <= 0 then O else S (nat_of_int (i-1))
let rec int_of_nat = function O -> 0 | S n -> 1 + int_of_nat n
let dump a = List.iter (fun c -> print_string " ["; List.iter (fun b -> print_char (if b then '1' else '0')) c; print_string "]") a; print_newline ()
let () =
  let init = ref 8 and a = ref [] in
  try while true do
    let l = input_line stdin in
    let head = String.trim (List.hd (String.split_on_char '|' l)) in
    match List.filter (fun s -> s <> "") (String.split_on_char ' ' head) with
    | ["INIT"; k] -> init := int_of_string k; Printf.printf "INIT %d\n" !init
    | "A" :: ok :: _ -> let (a', r) = alloc (nat_of_int !init) !a (ok = "1") in a := a';
        (match r with Some (i, j) -> Printf.printf "A %s -> %d %d |" ok (int_of_nat i) (int_of_nat j); dump !a | None -> print_endline "A -> NULL")
    | ["X"; i; j] -> a := prune !a (nat_of_int (int_of_string i)) (nat_of_int (int_of_string j)); Printf.printf "X %s %s |" i j; dump !a
    | ["F"; i; j] -> a := free !a (nat_of_int (int_of_string i)) (nat_of_int (int_of_string j)); Printf.printf "F %s %s |" i j; dump !a
    | _ -> print_endline l
  done with End_of_file -> ()
