(* refinement check of implementation traces against the qsbr grace-period model (Gp/GpQsbrExec.v).
   stdin: one trace per block: "T <regs...>" (threads registered and online at the start), then one action per line, "." ends the block.
   actions: L r g | S r w | N r | F r w | R r | U g | C r w | E     (counter values in model units: 0 = offline, k = k-th value of the global counter)
   stdout per block: "ok <n>" or "reject <k> <action>" *)
open Gpqsbr_model
let rec nat_of_int i = if i <= 0 then O else S (nat_of_int (i-1))
let () =
  let regs = ref [] and st = ref None and k = ref 0 and failed = ref None in
  (try while true do
    let l = input_line stdin in
    let t = List.filter (fun s -> s <> "") (String.split_on_char ' ' l) in
    match t with
    | "T" :: rs -> regs := List.map (fun x -> nat_of_int (int_of_string x)) rs; st := Some (init_on !regs); k := 0; failed := None
    | ["."] -> (match !failed with None -> Printf.printf "ok %d\n" !k | Some (i, a) -> Printf.printf "reject %d %s\n" i a)
    | _ when !failed <> None -> ()
    | _ ->
      let n x = nat_of_int (int_of_string x) in
      let a = match t with
        | ["L"; x; g] -> QLoad (n x, n g)
        | ["S"; x; w] -> QStore (n x, n w)
        | ["N"; x] -> QFence (n x)
        | ["F"; x; w] -> QFlush (n x, n w)
        | ["R"; x] -> QRet (n x)
        | ["U"; g] -> UInc (n g)
        | ["C"; x; w] -> UScan (n x, n w)
        | _ -> UEnd in
      (match !st with
       | Some s -> (match qexec !regs a s with Some s' -> st := Some s'; incr k | None -> failed := Some (!k, l))
       | None -> ())
  done with End_of_file -> ())
