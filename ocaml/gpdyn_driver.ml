(* refinement check of implementation traces against the memb-flavor grace-period model with dynamic registration (Gp/GpDynExec.v).
   stdin: one trace per block: "T <regs...>" then one action per line, "." ends the block.
   actions: L r p | S r p n | F r p n | Y | M | C r p n | P p | E | G r (registered) | U r (unregistered)      (p = 0/1 phase bit, n = nesting count)
   stdout per block: "ok <n>" or "reject <k> <action>" *)
open Gpdyn_model
let rec nat_of_int i = if i <= 0 then O else S (nat_of_int (i-1))
let b s = s = "1"
let () =
  let regs = ref [] and st = ref None and k = ref 0 and failed = ref None in
  (try while true do
    let l = input_line stdin in
    let t = List.filter (fun s -> s <> "") (String.split_on_char ' ' l) in
    match t with
    | "T" :: rs -> let ids = List.map int_of_string rs in
        regs := List.map nat_of_int ids;
        st := Some init0;
        k := 0; failed := None
    | ["."] -> (match !failed with None -> Printf.printf "ok %d\n" !k | Some (i, a) -> Printf.printf "reject %d %s\n" i a)
    | _ when !failed <> None -> ()
    | _ ->
      let n = int_of_string and r x = nat_of_int (int_of_string x) in
      let a = match t with
        | ["L"; x; p] -> GLoadGp (r x, b p)
        | ["S"; x; p; c] -> GStoreCtr (r x, (b p, nat_of_int (n c)))
        | ["F"; x; p; c] -> GFlush (r x, (b p, nat_of_int (n c)))
        | ["Y"] -> GSyncStart | ["M"] -> GMembarrier
        | ["C"; x; p; c] -> GScan (r x, (b p, nat_of_int (n c)))
        | ["P"; p] -> GFlip (b p)
        | ["G"; x] -> GReg (r x) | ["U"; x] -> GUnreg (r x) | _ -> GEnd in
      (match !st with
       | Some s -> (match gexec !regs a s with Some s' -> st := Some s'; incr k | None -> failed := Some (!k, l))
       | None -> ())
  done with End_of_file -> ())
