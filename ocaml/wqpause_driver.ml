(* refinement check of the work-queue PAUSE / PAUSED flag accesses of an implementation run against Fork/WqPause.v (wqexec).
   stdin: one trace per block: "T", then one action per line, "." ends the block.
   actions: FO | FA | FL p pd | WO | WA | WL p pd | CH          (p / pd = 0/1: the PAUSE / PAUSED bit of the value loaded)
   stdout per block: "ok <n>" or "reject <k> <action>" *)
open Wqpause_model
let b s = s = "1"
let () =
  let st = ref None and k = ref 0 and failed = ref None in
  (try while true do
    let l = input_line stdin in
    let t = List.filter (fun s -> s <> "") (String.split_on_char ' ' l) in
    match t with
    | "T" :: _ -> st := Some init; k := 0; failed := None
    | ["."] -> (match !failed with None -> Printf.printf "ok %d\n" !k | Some (i, a) -> Printf.printf "reject %d %s\n" i a)
    | _ when !failed <> None -> ()
    | _ ->
      let a = match t with
        | ["FO"] -> FOr | ["FA"] -> FAnd | ["FL"; p; pd] -> FLoad (b p, b pd)
        | ["WO"] -> WOr | ["WA"] -> WAnd | ["WL"; p; pd] -> WLoad (b p, b pd)
        | _ -> Child in
      (match !st with
       | Some s -> (match wqexec a s with Some s' -> st := Some s'; incr k | None -> failed := Some (!k, l))
       | None -> ())
  done with End_of_file -> ())
