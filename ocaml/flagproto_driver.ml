(* reads blocks of accesses to one node's next word ("O" / "X p" / "R ok" / "K ok", block ends with "."), runs the extracted FlagProto.frun_idx and prints
   per block "ok <successes> <removed> <owner>" or "rejected access <i>: <line>" *)
open Flagproto_model
let rec nat_of_int i = if i <= 0 then O else S (nat_of_int (i-1))
let rec int_of_nat = function O -> 0 | S n -> 1 + int_of_nat n
let () =
  let acts = ref [] and lines = ref [] in
  try while true do
    let l = input_line stdin in
    let add a = acts := a :: !acts; lines := l :: !lines in
    match List.filter (fun s -> s <> "") (String.split_on_char ' ' l) with
    | ["."] -> (match frun_idx fword0 (List.rev !acts) O with
                | Inl w -> Printf.printf "ok %d %d %d\n" (int_of_nat w.succ) (if w.removed then 1 else 0) (if w.owner then 1 else 0)
                | Inr i -> Printf.printf "rejected access %d: %s\n" (int_of_nat i) (List.nth (List.rev !lines) (int_of_nat i)));
               acts := []; lines := []
    | ["O"] -> add FOr
    | ["X"; p] -> add (FXchgOwner (p = "1"))
    | ["R"; ok] -> add (FCasReplace (ok = "1"))
    | ["K"; ok] -> add (FCasLink (ok = "1"))
    | "BAD" :: _ -> add (FXchgOwner true); add (FXchgOwner false)      (* an access the protocol has no action for: force a rejection *)
    | _ -> ()
  done with End_of_file -> ()
