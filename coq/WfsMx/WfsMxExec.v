(* Executable acceptor for the wfstack model with the mutex-protected pop: the hooked accesses, mutex operations and call / return events of an implementation run of
   static/wfstack.h (cds_wfs_push, cds_wfs_pop_blocking, re-push of the popped node), with the values read and written, are checked against the model state; every
   accepted action is zero or one step of WfsMx.step, so the theorems of WfsMxProof.v apply to accepted traces. *)
From Coq Require Import List Arith NArith Bool Lia.
Import ListNotations.
Require Import Urcu.WfsMx.WfsMx Urcu.WfsMx.WfsMxProof.
Local Open Scope N_scope.

Inductive mact :=
| ACallPush (t : nat) (n : N)            (* cds_wfs_push(n) is called on an initialised node (a new one, or the one this thread popped last) *)
| AXchg (t : nat) (n old : N)            (* xchg(&head, n) returned old *)
| AStore (t : nat) (n v : N)             (* n->next = v reaches memory *)
| ACallPop (t : nat)                     (* cds_wfs_pop_blocking is called *)
| ALock (t : nat)                        (* the stack's mutex is acquired *)
| ALoadHead (t : nat) (v : N)            (* the popper loads head *)
| ALoadNext (t : nat) (a v : N)          (* the popper loads a->next (NULL: it will look again) *)
| ACas (t : nat) (e nw old : N)          (* cmpxchg(&head, e, nw) returned old *)
| AUnlock (t : nat) (r : N)              (* the mutex is released by a pop that then returns r *)
| ASkip (t : nat).                       (* the thread has no popped node to push again: nothing happens *)

Notation step := (WfsMx.step true).
Definition mexec (a : mact) (s : st) : option st :=
  match a with
  | ACallPush t n =>
      match tpc (th s t), todo (th s t) with
      | Idle, OPush m :: _ => if n =? m then Some (step t s) else None
      | Idle, ORepush :: _ => if (n =? last (th s t)) && negb (n =? 0) then Some (step t s) else None
      | _, _ => None
      end
  | AXchg t n old => match tpc (th s t) with U_Xchg m => if (n =? m) && (old =? WfsMx.head s) then Some (step t s) else None | _ => None end
  | AStore t n v => match tpc (th s t) with U_Store m o => if (n =? m) && (v =? o) then Some (step t s) else None | _ => None end
  | ACallPop t => match tpc (th s t), todo (th s t) with Idle, OPop :: _ => Some (step t s) | _, _ => None end
  | ALock t => match tpc (th s t), lock s with Q_Lock, None => Some (step t s) | _, _ => None end
  | ALoadHead t v => match tpc (th s t) with Q_Head => if v =? WfsMx.head s then Some (step t s) else None | _ => None end
  | ALoadNext t a v => match tpc (th s t) with Q_Next a' => if (a =? a') && (v =? nxt s a) then Some (step t s) else None | _ => None end
  | ACas t e nw old => match tpc (th s t) with Q_Cas a b => if (e =? a) && (nw =? b) && (old =? WfsMx.head s) then Some (step t s) else None | _ => None end
  | AUnlock t r => match tpc (th s t) with Q_Unlock r' => if r =? r' then Some (step t s) else None | _ => None end
  | ASkip t => match tpc (th s t), todo (th s t) with Idle, ORepush :: _ => if last (th s t) =? 0 then Some (step t s) else None | _, _ => None end
  end.
Fixpoint mrun (l : list mact) (s : st) : option st :=
  match l with [] => Some s | a :: l' => match mexec a s with Some s' => mrun l' s' | None => None end end.

Lemma mexec_inv a s s' : Inv s -> mexec a s = Some s' -> Inv s'.
Proof.
  intros HI H. destruct a; unfold mexec in H;
    repeat match type of H with context [match ?x with _ => _ end] => destruct x eqn:? end; try discriminate H;
    injection H as <-; apply Inv_step; exact HI.
Qed.
Theorem accepted_wfs_pop_trace_keeps_invariant (threads : nat -> list op) :
  (forall t, NoDup (pushes (threads t)) /\ ~ In 0 (pushes (threads t)) /\ ~ In vend (pushes (threads t))) ->
  (forall t u n, In n (pushes (threads t)) -> In n (pushes (threads u)) -> t = u) ->
  forall l s, mrun l (init threads) = Some s -> Inv s.
Proof.
  intros H1 H2 l. generalize (Inv_init threads H1 H2). generalize (init threads).
  induction l as [|a l IH]; intros s0 HI s H; cbn [mrun] in H; [injection H as <-; exact HI|].
  destruct (mexec a s0) as [s1|] eqn:E; [|discriminate]. apply (IH s1 (mexec_inv a s0 s1 HI E) s H).
Qed.
(* executable side conditions of the theorem, for the driver *)
Fixpoint nodupb (l : list N) : bool := match l with [] => true | x :: r => negb (existsb (N.eqb x) r) && nodupb r end.
Definition wf_threads (progs : list (list op)) : bool :=
  let all := concat (map pushes progs) in nodupb all && negb (existsb (N.eqb 0) all) && negb (existsb (N.eqb vend) all).
Definition threads_of (progs : list (list op)) (t : nat) : list op := nth t progs [].
Definition accept (progs : list (list op)) (l : list mact) : bool :=
  wf_threads progs && match mrun l (init (threads_of progs)) with Some _ => true | None => false end.
Lemma nodupb_sound l : nodupb l = true -> NoDup l.
Proof.
  induction l as [|x r IH]; cbn [nodupb]; [constructor|]. intros H. apply andb_prop in H. destruct H as [H1 H2]. constructor; [|apply IH; exact H2].
  intros Hin. apply negb_true_iff in H1. assert (E : existsb (N.eqb x) r = true) by (apply existsb_exists; exists x; split; [exact Hin|apply N.eqb_refl]). congruence.
Qed.
Lemma not_existsb_in v l : negb (existsb (N.eqb v) l) = true -> ~ In v l.
Proof. intros H Hin. apply negb_true_iff in H. assert (E : existsb (N.eqb v) l = true) by (apply existsb_exists; exists v; split; [exact Hin|apply N.eqb_refl]). congruence. Qed.
Lemma in_nth_concat (L : list (list N)) i n : In n (nth i L []) -> In n (concat L).
Proof. revert i. induction L as [|a L IH]; intros i H; [destruct i; destruct H|]. cbn [concat]. apply in_or_app. destruct i as [|i]; [left; exact H|right; apply (IH i H)]. Qed.
Lemma concat_nodup_nth (L : list (list N)) : NoDup (concat L) -> forall i, NoDup (nth i L []).
Proof.
  induction L as [|a L IH]; intros H i; [destruct i; constructor|]. cbn [concat] in H. destruct i as [|i]; cbn [nth].
  - revert H. generalize (concat L). induction a as [|y a IHa]; intros c H; [constructor|]. cbn [app] in H. inversion H as [|? ? Hn Hd]; subst. constructor; [intros Hin; apply Hn; apply in_or_app; left; exact Hin|apply (IHa c); exact Hd].
  - apply IH. apply (NoDup_app_r a). exact H.
Qed.
Lemma nodup_app_disj (a c : list N) n : NoDup (a ++ c) -> In n a -> In n c -> False.
Proof. induction a as [|y a IH]; cbn [app]; intros H Ha Hc; [destruct Ha|]. inversion H as [|? ? Hn Hd]; subst. destruct Ha as [->|Ha]; [apply Hn; apply in_or_app; right; exact Hc|apply IH; assumption]. Qed.
Lemma concat_nodup_disj (L : list (list N)) : NoDup (concat L) -> forall i j n, In n (nth i L []) -> In n (nth j L []) -> i = j.
Proof.
  induction L as [|a L IH]; intros H i j n Hi Hj; [destruct i; destruct Hi|]. cbn [concat] in H.
  assert (H' : NoDup (concat L)) by (apply (NoDup_app_r a); exact H).
  destruct i as [|i], j as [|j]; cbn [nth] in *; [reflexivity| | |f_equal; apply (IH H' i j n Hi Hj)].
  - exfalso. apply (nodup_app_disj a (concat L) n H Hi). apply (in_nth_concat L j n Hj).
  - exfalso. apply (nodup_app_disj a (concat L) n H Hj). apply (in_nth_concat L i n Hi).
Qed.
Lemma nth_map_pushes progs t : nth t (map pushes progs) [] = pushes (threads_of progs t).
Proof. unfold threads_of. change (@nil N) with (pushes []). apply map_nth. Qed.
(* what the driver computes: the trace is accepted for a well-formed set of programs; then the invariant holds in the state it ends in *)
Theorem accept_sound progs l : accept progs l = true -> exists s, mrun l (init (threads_of progs)) = Some s /\ Inv s.
Proof.
  unfold accept, wf_threads. intros H. apply andb_prop in H. destruct H as [Hw Hr]. apply andb_prop in Hw. destruct Hw as [Hw H3]. apply andb_prop in Hw. destruct Hw as [H1 H2].
  apply nodupb_sound in H1. pose proof (not_existsb_in _ _ H2) as N0. pose proof (not_existsb_in _ _ H3) as N1.
  destruct (mrun l (init (threads_of progs))) as [s|] eqn:E; [|discriminate]. exists s. split; [reflexivity|].
  apply (accepted_wfs_pop_trace_keeps_invariant (threads_of progs)) with (l := l); [| |exact E].
  - intros t. rewrite <- nth_map_pushes. split; [apply concat_nodup_nth; exact H1|]. split; intros Hin; [apply N0|apply N1]; apply (in_nth_concat _ t _ Hin).
  - intros t u n Ht Hu. rewrite <- nth_map_pushes in Ht, Hu. apply (concat_nodup_disj _ H1 t u n Ht Hu).
Qed.
(* position of the first rejected action, for the report *)
Fixpoint mfail (l : list mact) (s : st) (k : nat) : option nat :=
  match l with [] => None | a :: l' => match mexec a s with Some s' => mfail l' s' (S k) | None => Some k end end.
Print Assumptions accept_sound.
