(* wfstack with the mutex-protected pop: every history of the model - any number of concurrent pushers and poppers, popped nodes pushed again at once, every schedule -
   is linearizable w.r.t. the LIFO specification (push with its "stack was non-empty" answer, pop answering the top node or NULL).  Linearisation points: the xchg of
   push, the successful head cmpxchg of pop, the head load of a pop that sees the end marker. *)
From Coq Require Import List Arith NArith Bool Lia.
Import ListNotations.
Require Import Urcu.Base.Lin.
Require Import Urcu.WfsMx.WfsMx Urcu.WfsMx.WfsMxProof.
Local Open Scope N_scope.

Inductive sop := LPush (n : N) | LPop.
Definition top (l : list N) : N := match l with [] => 0 | x :: _ => x end.
Definition lspec (l : list N) (o : sop) : list N * N :=
  match o with
  | LPush n => (n :: l, match l with [] => 0 | _ => 1 end)
  | LPop => (tl l, top l)
  end.
Notation ast := (Lin.ast sop N (list N)).
Notation runl := (Lin.runl sop N (list N) lspec N.eq_dec).
Notation lev := (Lin.ev sop N).
Notation lpend := (Lin.pend sop N).
Notation step := (WfsMx.step true).
Definition pret (old : N) : N := if old =? vend then 0 else 1.

(* history events and linearisation points of the step thread t is about to take *)
Definition evs_of (s : st) (t : nat) : list lev :=
  let x := th s t in
  match tpc x with
  | Idle => match todo x with
            | OPush n :: _ => [Lin.Inv _ _ t (LPush n)]
            | OPop :: _ => [Lin.Inv _ _ t LPop]
            | ORepush :: _ => if last x =? 0 then [] else [Lin.Inv _ _ t (LPush (last x))]
            | [] => []
            end
  | U_Xchg n => [Lin.Lin _ _ t]
  | U_Store n old => [Lin.Res _ _ t (pret old)]
  | Q_Head => if WfsMx.head s =? vend then [Lin.Lin _ _ t] else []
  | Q_Cas a _ => if WfsMx.head s =? a then [Lin.Lin _ _ t] else []
  | Q_Unlock r => [Lin.Res _ _ t r]
  | Q_Lock | Q_Next _ => []
  end.
Fixpoint htrace (cs : list nat) (s : st) : list lev :=
  match cs with [] => [] | t :: cs' => evs_of s t ++ htrace cs' (step t s) end.

Definition PR (p : pc) (q : lpend) : Prop :=
  match p with
  | Idle => q = Lin.Idle _ _
  | U_Xchg n => q = Lin.Called _ _ (LPush n)
  | U_Store n old => q = Lin.Done _ _ (LPush n) (pret old)
  | Q_Lock | Q_Head | Q_Next _ | Q_Cas _ _ => q = Lin.Called _ _ LPop
  | Q_Unlock r => q = Lin.Done _ _ LPop r
  end.
Record Sim (s : st) (a : ast) : Prop := { S_q : sig _ _ _ a = stk s; S_pr : forall t, PR (tpc (th s t)) (pm _ _ _ a t) }.

Lemma head_vend s : Inv s -> (WfsMx.head s =? vend) = match stk s with [] => true | _ => false end.
Proof. intros HI. pose proof (I_chain s HI) as H. destruct (stk s) as [|y l]; cbn [chainm] in H; [rewrite H; reflexivity|]. destruct H as (-> & _ & Hn & _). apply N.eqb_neq. exact Hn. Qed.
Lemma head_top s : Inv s -> WfsMx.head s <> vend -> WfsMx.head s = top (stk s).
Proof. intros HI Hne. pose proof (I_chain s HI) as H. destruct (stk s) as [|y l]; cbn [chainm top] in *; [contradiction|apply H]. Qed.

Lemma Sim_set (s : st) (a a' : ast) t hd f p td l lk sk g :
  Sim s a -> sig _ _ _ a' = sk -> PR p (pm _ _ _ a' t) -> (forall u, u <> t -> pm _ _ _ a' u = pm _ _ _ a u) ->
  Sim {| WfsMx.head := hd; nxt := f; th := setth s t p td l; lock := lk; stk := sk; gn := g |} a'.
Proof.
  intros HS Hq Hp Ho. constructor; cbn [stk th]; [exact Hq|]. intros u. unfold setth. destruct (Nat.eq_dec u t) as [->|Hne].
  - rewrite updt_same. exact Hp.
  - rewrite updt_other by exact Hne. rewrite (Ho u Hne). apply (S_pr s a HS u).
Qed.

Lemma sim_step (s : st) (a : ast) t : Inv s -> Sim s a -> exists a' l, runl a (evs_of s t) = Some (a', l) /\ Sim (step t s) a'.
Proof.
  intros HI HS. pose proof (S_pr s a HS t) as Hpr. pose proof (S_q s a HS) as Hq.
  pose proof (head_vend s HI) as Hz.
  unfold evs_of, WfsMx.step. set (x := th s t) in *.
  assert (Hquiet : forall hd f p td l lk g, PR p (pm _ _ _ a t) ->
            exists a' l0, runl a [] = Some (a', l0) /\ Sim {| WfsMx.head := hd; nxt := f; th := setth s t p td l; lock := lk; stk := stk s; gn := g |} a').
  { intros hd f p td l lk g Hp. exists a, []. split; [reflexivity|]. apply (Sim_set s a a t); [exact HS|exact Hq|exact Hp|intros u _; reflexivity]. }
  assert (Hinv : forall hd f p td l lk g o, pm _ _ _ a t = Lin.Idle _ _ -> PR p (Lin.Called _ _ o) ->
            exists a' l0, runl a [Lin.Inv _ _ t o] = Some (a', l0) /\ Sim {| WfsMx.head := hd; nxt := f; th := setth s t p td l; lock := lk; stk := stk s; gn := g |} a').
  { intros hd f p td l lk g o Hp Hc. exists (Lin.setp _ _ _ a t (Lin.Called _ _ o)), []. split; [cbn [Lin.runl]; rewrite Hp; reflexivity|].
    apply (Sim_set s a _ t); [exact HS|exact Hq| |intros u Hu; cbn [Lin.setp pm]; apply Lin.upd_other; exact Hu]. cbn [Lin.setp pm]. rewrite Lin.upd_same. exact Hc. }
  assert (Hres : forall hd f td l lk g o r, pm _ _ _ a t = Lin.Done _ _ o r ->
            exists a' l0, runl a [Lin.Res _ _ t r] = Some (a', l0) /\ Sim {| WfsMx.head := hd; nxt := f; th := setth s t Idle td l; lock := lk; stk := stk s; gn := g |} a').
  { intros hd f td l lk g o r Hp. exists (Lin.setp _ _ _ a t (Lin.Idle _ _)), []. split; [cbn [Lin.runl]; rewrite Hp; destruct (N.eq_dec r r); [reflexivity|contradiction]|].
    apply (Sim_set s a _ t); [exact HS|exact Hq| |intros u Hu; cbn [Lin.setp pm]; apply Lin.upd_other; exact Hu]. cbn [PR Lin.setp pm]. apply Lin.upd_same. }
  destruct (tpc x) eqn:Ep; cbn [PR] in Hpr.
  - (* Idle *)
    destruct (todo x) as [|[n| |] r] eqn:Etd.
    + exists a, []. split; [reflexivity|exact HS].
    + apply Hinv; [exact Hpr|reflexivity].
    + apply Hinv; [exact Hpr|reflexivity].
    + destruct (last x =? 0); [apply Hquiet; exact Hpr|apply Hinv; [exact Hpr|reflexivity]].
  - (* U_Xchg: the push takes effect *)
    assert (Er : snd (lspec (stk s) (LPush n)) = pret (WfsMx.head s)) by (unfold pret; rewrite Hz; cbn; destruct (stk s); reflexivity).
    exists {| sig := n :: stk s; pm := Lin.upd _ _ (pm _ _ _ a) t (Lin.Done _ _ (LPush n) (pret (WfsMx.head s))) |}, [(t, LPush n, pret (WfsMx.head s))].
    split.
    + cbn [Lin.runl]. rewrite Hpr, Hq. cbn [lspec] in *. cbn [snd] in Er. rewrite Er. reflexivity.
    + apply (Sim_set s a _ t); [exact HS|reflexivity| |intros u Hu; apply Lin.upd_other; exact Hu]. cbn [PR pm]. apply Lin.upd_same.
  - (* U_Store: the push returns *)
    apply (Hres _ _ _ _ _ _ (LPush n)). exact Hpr.
  - (* Q_Lock *)
    destruct (lock s); [exists a, []; split; [reflexivity|exact HS]|apply Hquiet; exact Hpr].
  - (* Q_Head *)
    destruct (N.eqb_spec (WfsMx.head s) vend) as [E0|E0].
    + (* the pop sees an empty stack *)
      assert (Es : stk s = []) by (destruct (stk s); [reflexivity|discriminate Hz]).
      exists {| sig := []; pm := Lin.upd _ _ (pm _ _ _ a) t (Lin.Done _ _ LPop 0) |}, [(t, LPop, 0)].
      split; [cbn [Lin.runl]; rewrite Hpr, Hq, Es; reflexivity|].
      apply (Sim_set s a _ t); [exact HS|cbn; symmetry; exact Es| |intros u Hu; apply Lin.upd_other; exact Hu].
      cbn [PR pm]. apply Lin.upd_same.
    + apply Hquiet. exact Hpr.
  - (* Q_Next *)
    destruct (nxt s a0 =? 0); [exists a, []; split; [reflexivity|exact HS]|apply Hquiet; exact Hpr].
  - (* Q_Cas *)
    destruct (N.eqb_spec (WfsMx.head s) a0) as [Eh|Eh].
    + (* the pop takes the top *)
      assert (Hne : WfsMx.head s <> vend).
      { pose proof (I_hold s HI t) as H. fold x in H. rewrite Ep in H. cbn [holdp] in H. destruct H as (Hin & _). intros E. rewrite E in Hz. destruct (stk s); [destruct Hin|discriminate Hz]. }
      assert (Et : top (stk s) = a0) by (rewrite <- (head_top s HI Hne); exact Eh).
      exists {| sig := tl (stk s); pm := Lin.upd _ _ (pm _ _ _ a) t (Lin.Done _ _ LPop a0) |}, [(t, LPop, a0)].
      split; [cbn [Lin.runl]; rewrite Hpr, Hq; cbn [lspec]; rewrite Et; reflexivity|].
      apply (Sim_set s a _ t); [exact HS|reflexivity| |intros u Hu; apply Lin.upd_other; exact Hu].
      cbn [PR pm]. apply Lin.upd_same.
    + apply Hquiet. exact Hpr.
  - (* Q_Unlock *)
    apply (Hres _ _ _ _ _ _ LPop). exact Hpr.
Qed.

Theorem wfsmx_accepted : forall cs s a, Inv s -> Sim s a -> exists a' l, runl a (htrace cs s) = Some (a', l).
Proof.
  intros cs. induction cs as [|t cs IH]; intros s a HI HS; cbn [htrace].
  - exists a, []. reflexivity.
  - destruct (sim_step s a t HI HS) as (a1 & l1 & E1 & HS1).
    destruct (IH (step t s) a1 (Inv_step t s HI) HS1) as (a2 & l2 & E2). exists a2, (l1 ++ l2). eapply Lin.runl_app_some; eassumption.
Qed.

Definition a0 : ast := {| sig := []; pm := fun _ => Lin.Idle _ _ |}.
Theorem wfs_mutex_pop_linearizable (threads : nat -> list op) :
  (forall t, NoDup (pushes (threads t)) /\ ~ In 0 (pushes (threads t)) /\ ~ In vend (pushes (threads t))) ->
  (forall t u n, In n (pushes (threads t)) -> In n (pushes (threads u)) -> t = u) ->
  forall cs, exists a' L,
  runl a0 (htrace cs (init threads)) = Some (a', L) /\
  Lin.legal sop N (list N) lspec [] L /\
  (forall t, Lin.tops sop N t L = Lin.hcomp sop N t None (htrace cs (init threads)) ++ Lin.pre sop N (pm _ _ _ a' t)).
Proof.
  intros H1 H2 cs. pose proof (Inv_init threads H1 H2) as HI.
  assert (HS : Sim (init threads) a0) by (constructor; [reflexivity|intros t; reflexivity]).
  destruct (wfsmx_accepted cs _ a0 HI HS) as (a' & L & E). exists a', L. split; [exact E|].
  destruct (Lin.accepted_implies_hw sop N (list N) lspec N.eq_dec [] _ a' L E) as (A & B & _). split; assumption.
Qed.
Print Assumptions wfs_mutex_pop_linearizable.
