(* wfstack with its mutex-protected single pop (include/urcu/static/wfstack.h: cds_wfs_push, cds_wfs_pop_blocking = lock ; ___cds_wfs_pop ; unlock) and immediate
   re-use of a popped node by the thread that popped it.  Any number of wait-free pushers; poppers exclude one another with the stack's mutex; a popped node may be
   initialised and pushed again at once - no grace period - because the only threads that can hold a stale (head, next) pair are poppers, and those are serialised.
   Step-level model on sequentially consistent memory: every operation begins with a locked instruction (xchg of the push, the mutex of the pop), so a pusher's
   buffered store of node->next is in memory before its thread does anything else that another thread can observe; the store is its own step here, and a popper that
   reads NULL waits (cds_wfs_node_sync_next).  Ghost state: the abstract stack and the logical successor of every node, fixed at the push's xchg. *)
From Coq Require Import List Arith NArith Bool Lia.
Import ListNotations.
Local Open Scope N_scope.

Definition vend : N := 1.                    (* CDS_WFS_END *)
Inductive op := OPush (n : N) | OPop | ORepush.
Inductive pc :=
| Idle
| U_Xchg (n : N)         (* push: node n initialised (next = NULL); about to xchg(&head, n) *)
| U_Store (n old : N)    (* about to store n->next = old *)
| Q_Lock                 (* pop: about to take the mutex *)
| Q_Head                 (* about to load head *)
| Q_Next (a : N)         (* about to load a->next (again, while it reads NULL) *)
| Q_Cas (a b : N)        (* about to cmpxchg(&head, a, b) *)
| Q_Unlock (r : N).      (* about to release the mutex and return r (0 = empty) *)
Record thr := { tpc : pc; todo : list op; last : N }.
Record st := { head : N; nxt : N -> N; th : nat -> thr; lock : option nat;
               stk : list N;             (* ghost: the abstract stack, top first *)
               gn : N -> N }.            (* ghost: logical successor of a node, fixed when it is pushed *)

Definition updn (f : N -> N) (k v : N) : N -> N := fun x => if N.eqb x k then v else f x.
Definition updt (f : nat -> thr) (k : nat) (v : thr) : nat -> thr := fun x => if Nat.eqb x k then v else f x.

Section M.
Variable locked : bool.       (* true: the code as it is; false: pop without the mutex (refuted) *)
Definition setth (s : st) t p td l : nat -> thr := updt (th s) t {| tpc := p; todo := td; last := l |}.
Definition step (t : nat) (s : st) : st :=
  let x := th s t in
  match tpc x with
  | Idle =>
      match todo x with
      | [] => s
      | OPush n :: r => {| head := head s; nxt := updn (nxt s) n 0; th := setth s t (U_Xchg n) r (last x); lock := lock s; stk := stk s; gn := gn s |}
      | OPop :: r => {| head := head s; nxt := nxt s; th := setth s t Q_Lock r (last x); lock := lock s; stk := stk s; gn := gn s |}
      | ORepush :: r => if last x =? 0 then {| head := head s; nxt := nxt s; th := setth s t Idle r 0; lock := lock s; stk := stk s; gn := gn s |}
                        else {| head := head s; nxt := updn (nxt s) (last x) 0; th := setth s t (U_Xchg (last x)) r 0; lock := lock s; stk := stk s; gn := gn s |}
      end
  | U_Xchg n => {| head := n; nxt := nxt s; th := setth s t (U_Store n (head s)) (todo x) (last x); lock := lock s; stk := n :: stk s; gn := updn (gn s) n (head s) |}
  | U_Store n old => {| head := head s; nxt := updn (nxt s) n old; th := setth s t Idle (todo x) (last x); lock := lock s; stk := stk s; gn := gn s |}
  | Q_Lock => if locked then match lock s with
                             | None => {| head := head s; nxt := nxt s; th := setth s t Q_Head (todo x) (last x); lock := Some t; stk := stk s; gn := gn s |}
                             | Some _ => s end
              else {| head := head s; nxt := nxt s; th := setth s t Q_Head (todo x) (last x); lock := lock s; stk := stk s; gn := gn s |}
  | Q_Head => {| head := head s; nxt := nxt s; th := setth s t (if head s =? vend then Q_Unlock 0 else Q_Next (head s)) (todo x) (last x); lock := lock s; stk := stk s; gn := gn s |}
  | Q_Next a => if nxt s a =? 0 then s
                else {| head := head s; nxt := nxt s; th := setth s t (Q_Cas a (nxt s a)) (todo x) (last x); lock := lock s; stk := stk s; gn := gn s |}
  | Q_Cas a b =>
      if head s =? a then {| head := b; nxt := nxt s; th := setth s t (Q_Unlock a) (todo x) (last x); lock := lock s; stk := tl (stk s); gn := gn s |}
      else {| head := head s; nxt := nxt s; th := setth s t Q_Head (todo x) (last x); lock := lock s; stk := stk s; gn := gn s |}
  | Q_Unlock r => {| head := head s; nxt := nxt s; th := setth s t Idle (todo x) (if r =? 0 then last x else r); lock := (if locked then None else lock s); stk := stk s; gn := gn s |}
  end.
Fixpoint run (cs : list nat) (s : st) : st := match cs with [] => s | t :: cs' => run cs' (step t s) end.
End M.

Definition init (threads : nat -> list op) : st :=
  {| head := vend; nxt := fun _ => 0; th := fun t => {| tpc := Idle; todo := threads t; last := 0 |}; lock := None; stk := []; gn := fun _ => 0 |}.

(* the logical successors spell the abstract stack *)
Fixpoint chainm (f : N -> N) (a : N) (l : list N) : Prop :=
  match l with [] => a = vend | x :: l' => a = x /\ x <> 0 /\ x <> vend /\ chainm f (f x) l' end.
