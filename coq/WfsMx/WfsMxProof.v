(* wfstack, mutex-protected pop with immediate node re-use: the logical successors spell the abstract stack, every node has one owner, and when a popper's cmpxchg
   succeeds its (head, next) pair is the top of the stack and that node's current successor - for every schedule, any number of pushers and poppers.  Without the
   mutex the ABA corruption is exhibited. *)
From Coq Require Import List Arith NArith Bool Lia.
Import ListNotations.
Require Import Urcu.WfsMx.WfsMx.
Local Open Scope N_scope.

Fixpoint pushes (l : list op) : list N := match l with [] => [] | OPush n :: r => n :: pushes r | _ :: r => pushes r end.
Definition lastl (x : N) : list N := if x =? 0 then [] else [x].
Definition pcn (p : pc) : list N := match p with U_Xchg n => [n] | Q_Unlock r => lastl r | _ => [] end.
Definition owned (x : thr) : list N := lastl (last x) ++ pcn (tpc x) ++ pushes (todo x).
Definition inQ (p : pc) : bool := match p with Q_Head | Q_Next _ | Q_Cas _ _ | Q_Unlock _ => true | _ => false end.
Definition holdp (f g : N -> N) (l : list N) (p : pc) : Prop :=
  match p with
  | Q_Next a => In a l
  | Q_Cas a b => In a l /\ b = g a /\ f a = b
  | U_Xchg n => f n = 0
  | U_Store n old => In n l /\ old = g n /\ f n = 0
  | _ => True
  end.
Notation step := (step true).

Record Inv (s : st) : Prop := {
  I_chain : chainm (gn s) (head s) (stk s);
  I_nodup : NoDup (stk s);
  I_own : forall t n, In n (owned (th s t)) -> ~ In n (stk s) /\ n <> 0 /\ n <> vend;
  I_disj : forall t u n, In n (owned (th s t)) -> In n (owned (th s u)) -> t = u;
  I_nd : forall t, NoDup (owned (th s t));
  I_hold : forall t, holdp (nxt s) (gn s) (stk s) (tpc (th s t));
  I_lock : forall t, inQ (tpc (th s t)) = true -> lock s = Some t;
  I_link : forall x, In x (stk s) -> gn s x <> 0 /\ (nxt s x = gn s x \/ nxt s x = 0);
  I_st1 : forall t u n o o', tpc (th s t) = U_Store n o -> tpc (th s u) = U_Store n o' -> t = u
}.

Lemma updt_same f k v : updt f k v k = v.  Proof. unfold updt. now rewrite Nat.eqb_refl. Qed.
Lemma updt_other f k v x : x <> k -> updt f k v x = f x.
Proof. unfold updt. intros H. destruct (Nat.eqb_spec x k); [contradiction|reflexivity]. Qed.
Lemma updn_same f k v : updn f k v k = v.  Proof. unfold updn. now rewrite N.eqb_refl. Qed.
Lemma updn_other f k v x : x <> k -> updn f k v x = f x.
Proof. unfold updn. intros H. destruct (N.eqb_spec x k); [contradiction|reflexivity]. Qed.
Lemma chainm_ext f f' l : forall a, (forall x, In x l -> f' x = f x) -> chainm f a l -> chainm f' a l.
Proof.
  induction l as [|y l IH]; intros a He H; cbn [chainm] in *; [exact H|]. destruct H as (-> & Hn & Hv & H). split; [reflexivity|split; [exact Hn|split; [exact Hv|]]].
  rewrite (He y (or_introl eq_refl)). apply IH; [intros x Hx; apply He; right; exact Hx|exact H].
Qed.
Lemma chain_head_nz f a l : chainm f a l -> a <> 0.
Proof. destruct l; cbn [chainm]; [intros ->; discriminate|intros (-> & H & _); exact H]. Qed.
Lemma lastl_in r n : In n (lastl r) -> n = r /\ r <> 0.
Proof. unfold lastl. destruct (N.eqb_spec r 0); [intros []|intros [<-|[]]; split; [reflexivity|assumption]]. Qed.
Lemma lastl_nz r : r <> 0 -> lastl r = [r].
Proof. unfold lastl. destruct (N.eqb_spec r 0); [contradiction|reflexivity]. Qed.

(* a step of thread t that leaves head, the abstract stack and the logical successors alone *)
Lemma Inv_local (s : st) t (x' : thr) (f' : N -> N) (lk' : option nat) :
  Inv s ->
  (forall y, f' y = nxt s y \/ In y (owned (th s t)) \/ (exists old, tpc (th s t) = U_Store y old /\ f' y = old)) ->
  (forall n, In n (owned x') -> In n (owned (th s t))) -> NoDup (owned x') ->
  holdp f' (gn s) (stk s) (tpc x') ->
  (forall u, u <> t -> inQ (tpc (th s u)) = true -> lk' = Some u) -> (inQ (tpc x') = true -> lk' = Some t) ->
  (forall n o, tpc x' = U_Store n o -> tpc (th s t) = U_Store n o) ->
  Inv {| head := head s; nxt := f'; th := updt (th s) t x'; lock := lk'; stk := stk s; gn := gn s |}.
Proof.
  intros [A1 A2 A3 A4 A5 A6 A7 A8 A9] Hf Hown Hnd Hhold Hl1 Hl2 Hst.
  assert (Hstk : forall y, In y (stk s) -> f' y = nxt s y \/ (f' y = gn s y /\ nxt s y = 0 /\ exists old, tpc (th s t) = U_Store y old)).
  { intros y Hy. destruct (Hf y) as [E|[Ho|(old & E1 & E2)]]; [left; exact E|destruct (A3 t y Ho) as [Hn _]; contradiction|].
    right. pose proof (A6 t) as H. rewrite E1 in H. cbn [holdp] in H. destruct H as (_ & H2 & H3). split; [congruence|split; [exact H3|exists old; exact E1]]. }
  constructor; cbn [head nxt th lock stk gn].
  - exact A1.
  - exact A2.
  - intros u n. destruct (Nat.eq_dec u t) as [->|Hne]; [rewrite updt_same; intros H; apply (A3 t n (Hown n H))|rewrite updt_other by exact Hne; apply A3].
  - intros u v n. destruct (Nat.eq_dec u t) as [->|Hu]; destruct (Nat.eq_dec v t) as [->|Hv]; rewrite ?updt_same, ?updt_other by assumption; intros H1 H2; try reflexivity.
    + apply (A4 t v n (Hown n H1) H2).
    + apply (A4 u t n H1 (Hown n H2)).
    + apply (A4 u v n H1 H2).
  - intros u. destruct (Nat.eq_dec u t) as [->|Hne]; [rewrite updt_same; exact Hnd|rewrite updt_other by exact Hne; apply A5].
  - intros u. destruct (Nat.eq_dec u t) as [->|Hne]; [rewrite updt_same; exact Hhold|rewrite updt_other by exact Hne].
    pose proof (A6 u) as H. destruct (tpc (th s u)) eqn:Eu; cbn [holdp] in *; try exact H.
    + (* U_Xchg n: n is owned by u *)
      assert (Ho : In n (owned (th s u))) by (unfold owned; rewrite Eu; apply in_or_app; right; left; reflexivity).
      destruct (Hf n) as [E|[Ho'|(old & E1 & _)]]; [rewrite E; exact H|exfalso; apply Hne; apply (A4 u t n Ho Ho')|].
      exfalso. pose proof (A6 t) as Ht. rewrite E1 in Ht. cbn [holdp] in Ht. destruct Ht as (Hin & _). destruct (A3 u n Ho) as [Hn _]. contradiction.
    + (* U_Store n old *)
      destruct H as (H1 & H2 & H3). split; [exact H1|split; [exact H2|]].
      destruct (Hstk n H1) as [E|(_ & _ & o' & E1)]; [rewrite E; exact H3|]. exfalso. apply Hne. apply (A9 u t n old o' Eu E1).
    + (* Q_Cas a b *)
      destruct H as (H1 & H2 & H3). split; [exact H1|split; [exact H2|]].
      destruct (Hstk a H1) as [E|(_ & E0 & _)]; [rewrite E; exact H3|]. exfalso. destruct (A8 a H1) as [Hg _]. congruence.
  - intros u. destruct (Nat.eq_dec u t) as [->|Hne]; [rewrite updt_same; exact Hl2|rewrite updt_other by exact Hne; apply Hl1; exact Hne].
  - intros x Hx. destruct (A8 x Hx) as [Hg Hn]. split; [exact Hg|]. destruct (Hstk x Hx) as [E|(E & _)]; [rewrite E; exact Hn|left; exact E].
  - intros u v n o o'. destruct (Nat.eq_dec u t) as [->|Hu]; destruct (Nat.eq_dec v t) as [->|Hv]; rewrite ?updt_same, ?updt_other by assumption; intros H1 H2; try reflexivity.
    + apply (A9 t v n o o' (Hst n o H1) H2).
    + apply (A9 u t n o o' H1 (Hst n o' H2)).
    + apply (A9 u v n o o' H1 H2).
Qed.

Lemma NoDup_app_remove_mid (a b : list N) (y : N) : NoDup (a ++ y :: b) -> NoDup (a ++ b) /\ ~ In y (a ++ b).
Proof. intros H. split; [apply (NoDup_remove_1 a b y H)|apply (NoDup_remove_2 a b y H)]. Qed.
Lemma NoDup_insert (a b : list N) h : NoDup (a ++ b) -> ~ In h (a ++ b) -> NoDup (a ++ h :: b).
Proof.
  intros H Hn. induction a as [|y a IH]; cbn [app] in *; [constructor; assumption|].
  inversion H; subst. constructor.
  - intros Hin. apply in_app_or in Hin. destruct Hin as [Hin|[E|Hin]]; [apply H2; apply in_or_app; left; exact Hin|subst; apply Hn; left; reflexivity|apply H2; apply in_or_app; right; exact Hin].
  - apply IH; [assumption|intros Hin; apply Hn; right; exact Hin].
Qed.

Lemma NoDup_app_r (a b : list N) : NoDup (a ++ b) -> NoDup b.
Proof. induction a as [|y a IH]; cbn [app]; [exact (fun h => h)|]. intros H. inversion H; subst. apply IH. assumption. Qed.

Lemma Inv_step t (s : st) : Inv s -> Inv (step t s).
Proof.
  intros HI. pose proof HI as [A1 A2 A3 A4 A5 A6 A7 A8 A9].
  unfold WfsMx.step. set (x := th s t) in *.
  assert (Hq : forall u, u <> t -> inQ (tpc (th s u)) = true -> lock s = Some u) by (intros u _; apply A7).
  pose proof (A6 t) as Ht. fold x in Ht.
  destruct (tpc x) eqn:Ep; cbn [holdp] in Ht.
  - (* Idle *)
    destruct (todo x) as [|[n| |] r] eqn:Etd; [exact HI| | |].
    + (* push n: initialise the node *)
      apply Inv_local; try assumption; try exact I; fold x; cbn [tpc todo last].
      * intros y. destruct (N.eq_dec y n) as [->|Hy]; [right; left; unfold owned; rewrite Ep, Etd; apply in_or_app; right; cbn; left; reflexivity|left; apply updn_other; exact Hy].
      * intros m. unfold owned; cbn [tpc todo last pcn pushes]. rewrite Ep, Etd. cbn [pcn pushes app]. exact (fun h => h).
      * pose proof (A5 t) as H. fold x in H. unfold owned in *; cbn [tpc todo last pcn pushes]. rewrite Ep, Etd in H. exact H.
      * cbn [holdp]. apply updn_same.
      * discriminate.
      * discriminate.
    + (* pop *)
      apply Inv_local; try assumption; try exact I; fold x; cbn [tpc todo last].
      * intros y. left. reflexivity.
      * intros m. unfold owned; cbn [tpc todo last pcn pushes]. rewrite Ep, Etd. cbn [pcn pushes app]. exact (fun h => h).
      * pose proof (A5 t) as H. fold x in H. unfold owned in *; cbn [tpc todo last pcn pushes]. rewrite Ep, Etd in H. exact H.
      * discriminate.
      * discriminate.
    + (* push again the node popped last *)
      destruct (N.eqb_spec (last x) 0) as [E0|Hnz].
      * apply Inv_local; try assumption; try exact I; fold x; cbn [tpc todo last].
        -- intros y. left. reflexivity.
        -- intros m. unfold owned; cbn [tpc todo last pcn pushes]. rewrite Ep, Etd. cbn [pcn pushes app lastl N.eqb]. intros H. apply in_or_app. right. exact H.
        -- pose proof (A5 t) as H. fold x in H. unfold owned in *; cbn [tpc todo last pcn pushes]. rewrite Ep, Etd in H. rewrite E0 in H. exact H.
        -- discriminate.
        -- discriminate.
      * apply Inv_local; try assumption; try exact I; fold x; cbn [tpc todo last].
        -- intros y. destruct (N.eq_dec y (last x)) as [->|Hy]; [right; left; unfold owned; apply in_or_app; left; rewrite lastl_nz by exact Hnz; left; reflexivity|left; apply updn_other; exact Hy].
        -- intros m. unfold owned; cbn [tpc todo last pcn pushes]. rewrite Ep, Etd. cbn [pcn pushes app lastl N.eqb]. rewrite lastl_nz by exact Hnz. exact (fun h => h).
        -- pose proof (A5 t) as H. fold x in H. unfold owned in *; cbn [tpc todo last pcn pushes]. rewrite Ep, Etd in H. rewrite lastl_nz in H by exact Hnz. exact H.
        -- cbn [holdp]. apply updn_same.
        -- discriminate.
        -- discriminate.
  - (* U_Xchg n: the push is published *)
    assert (Hon : In n (owned x)) by (unfold owned; rewrite Ep; apply in_or_app; right; left; reflexivity).
    destruct (A3 t n Hon) as (Hns & Hn0 & Hnv).
    assert (Hgn : forall y, In y (stk s) -> updn (gn s) n (head s) y = gn s y) by (intros y Hy; apply updn_other; intros ->; contradiction).
    pose proof (A5 t) as Hndx. fold x in Hndx. unfold owned in Hndx. rewrite Ep in Hndx. cbn [pcn app] in Hndx.
    destruct (NoDup_app_remove_mid _ _ _ Hndx) as [Hnd' Hnin].
    assert (Hsub : forall m, In m (owned {| tpc := U_Store n (head s); todo := todo x; last := last x |}) -> In m (owned x) /\ m <> n).
    { intros m. unfold owned; cbn [tpc todo last pcn app]. rewrite Ep. cbn [pcn app]. intros H. split; [apply in_app_or in H; apply in_or_app; destruct H; [left|right; right]; assumption|intros ->; contradiction]. }
    constructor; cbn [head nxt th lock stk gn].
    + cbn [chainm]. split; [reflexivity|split; [exact Hn0|split; [exact Hnv|]]]. rewrite updn_same. apply (chainm_ext (gn s)); [exact Hgn|exact A1].
    + constructor; assumption.
    + intros u m. unfold setth. destruct (Nat.eq_dec u t) as [->|Hne]; [rewrite updt_same|rewrite updt_other by exact Hne].
      * intros H. destruct (Hsub m H) as [Ho Hmn]. destruct (A3 t m Ho) as (B1 & B2 & B3). split; [intros [E|Hin]; [congruence|contradiction]|split; assumption].
      * intros H. destruct (A3 u m H) as (B1 & B2 & B3). split; [intros [E|Hin]; [subst m; apply Hne; apply (A4 u t n H Hon)|contradiction]|split; assumption].
    + intros u v m. unfold setth. destruct (Nat.eq_dec u t) as [->|Hu]; destruct (Nat.eq_dec v t) as [->|Hv]; rewrite ?updt_same, ?updt_other by assumption; intros H1 H2; try reflexivity.
      * apply (A4 t v m (proj1 (Hsub m H1)) H2).
      * apply (A4 u t m H1 (proj1 (Hsub m H2))).
      * apply (A4 u v m H1 H2).
    + intros u. unfold setth. destruct (Nat.eq_dec u t) as [->|Hne]; [rewrite updt_same; unfold owned; cbn [tpc todo last pcn app]; exact Hnd'|rewrite updt_other by exact Hne; apply A5].
    + intros u. unfold setth. destruct (Nat.eq_dec u t) as [->|Hne]; [rewrite updt_same; cbn [tpc holdp]; split; [left; reflexivity|split; [symmetry; apply updn_same|exact Ht]]|rewrite updt_other by exact Hne].
      pose proof (A6 u) as H. destruct (tpc (th s u)) eqn:Eu; cbn [holdp] in *; try exact H.
      * destruct H as (H1 & H2 & H3). split; [right; exact H1|split; [rewrite (Hgn _ H1); exact H2|exact H3]].
      * right; exact H.
      * destruct H as (H1 & H2 & H3). split; [right; exact H1|split; [rewrite (Hgn _ H1); exact H2|exact H3]].
    + intros u. unfold setth. destruct (Nat.eq_dec u t) as [->|Hne]; [rewrite updt_same; cbn [tpc inQ]; discriminate|rewrite updt_other by exact Hne; apply A7].
    + intros y [<-|Hy].
      * rewrite updn_same. split; [apply (chain_head_nz _ _ _ A1)|right; exact Ht].
      * rewrite (Hgn y Hy). apply A8. exact Hy.
    + intros u v m o o'. unfold setth. destruct (Nat.eq_dec u t) as [->|Hu]; destruct (Nat.eq_dec v t) as [->|Hv]; rewrite ?updt_same, ?updt_other by assumption; cbn [tpc]; intros H1 H2; try reflexivity.
      * injection H1 as <- <-. pose proof (A6 v) as H. rewrite H2 in H. cbn [holdp] in H. destruct H as [H _]. contradiction.
      * injection H2 as <- <-. pose proof (A6 u) as H. rewrite H1 in H. cbn [holdp] in H. destruct H as [H _]. contradiction.
      * apply (A9 u v m o o' H1 H2).
  - (* U_Store n old: the link becomes visible *)
    destruct Ht as (H1 & H2 & H3).
    apply Inv_local; try assumption; try exact I; fold x; cbn [tpc todo last].
    + intros y. destruct (N.eq_dec y n) as [->|Hy]; [right; right; exists old; split; [exact Ep|apply updn_same]|left; apply updn_other; exact Hy].
    + intros m. unfold owned; cbn [tpc todo last pcn]. rewrite Ep. exact (fun h => h).
    + pose proof (A5 t) as H. fold x in H. unfold owned in *; cbn [tpc todo last pcn]. rewrite Ep in H. exact H.
    + discriminate.
    + discriminate.
  - (* Q_Lock *)
    destruct (lock s) as [o|] eqn:El; [exact HI|].
    apply Inv_local; try assumption; try exact I; fold x; cbn [tpc todo last].
    + intros y. left. reflexivity.
    + intros m. unfold owned; cbn [tpc todo last pcn]. rewrite Ep. exact (fun h => h).
    + pose proof (A5 t) as H. fold x in H. unfold owned in *; cbn [tpc todo last pcn]. rewrite Ep in H. exact H.
    + intros u _ Hu. pose proof (A7 u Hu) as H. discriminate H.
    + reflexivity.
    + discriminate.
  - (* Q_Head *)
    assert (Hlk : lock s = Some t) by (apply A7; fold x; rewrite Ep; reflexivity).
    apply Inv_local; try assumption; try exact I; fold x; cbn [tpc todo last].
    + intros y. left. reflexivity.
    + intros m. unfold owned; cbn [tpc todo last]. rewrite Ep. destruct (head s =? vend); cbn [pcn lastl N.eqb app]; exact (fun h => h).
    + pose proof (A5 t) as H. fold x in H. unfold owned in *; cbn [tpc todo last]. rewrite Ep in H. destruct (head s =? vend); cbn [pcn lastl N.eqb app] in *; exact H.
    + destruct (N.eqb_spec (head s) vend) as [E|Hne]; cbn [holdp]; [exact I|]. destruct (stk s) as [|y l]; cbn [chainm] in A1; [contradiction|destruct A1 as (-> & _); left; reflexivity].
    + intros _. exact Hlk.
    + destruct (head s =? vend); discriminate.
  - (* Q_Next a *)
    assert (Hlk : lock s = Some t) by (apply A7; fold x; rewrite Ep; reflexivity).
    destruct (N.eqb_spec (nxt s a) 0) as [E0|Hnz]; [exact HI|].
    apply Inv_local; try assumption; try exact I; fold x; cbn [tpc todo last].
    + intros y. left. reflexivity.
    + intros m. unfold owned; cbn [tpc todo last pcn]. rewrite Ep. exact (fun h => h).
    + pose proof (A5 t) as H. fold x in H. unfold owned in *; cbn [tpc todo last pcn]. rewrite Ep in H. exact H.
    + cbn [holdp]. split; [exact Ht|split; [|reflexivity]]. destruct (A8 a Ht) as [_ [E|E]]; [exact E|contradiction].
    + intros _. exact Hlk.
    + discriminate.
  - (* Q_Cas a b *)
    assert (Hlk : lock s = Some t) by (apply A7; fold x; rewrite Ep; reflexivity).
    destruct Ht as (H1 & H2 & H3).
    destruct (N.eqb_spec (head s) a) as [Eh|Hne].
    + (* success: a is the top, b its logical successor *)
      destruct (stk s) as [|y l] eqn:Es; [contradiction|]. cbn [chainm] in A1. destruct A1 as (Ey & Hy0 & Hyv & Hc). rewrite Eh in Ey. subst y.
      destruct (proj1 (NoDup_cons_iff a l) A2) as [Hnin Hndl].
      assert (Hothers : forall u, u <> t -> inQ (tpc (th s u)) = false).
      { intros u Hu. destruct (inQ (tpc (th s u))) eqn:E; [|reflexivity]. pose proof (A7 u E) as HH. rewrite Hlk in HH. injection HH as ->. contradiction. }
      assert (Hax : ~ In a (owned x)) by (intros H; destruct (A3 t a H) as [Hn _]; apply Hn; left; reflexivity).
      assert (Hsub : forall m, In m (owned {| tpc := Q_Unlock a; todo := todo x; last := last x |}) -> m = a \/ In m (owned x)).
      { intros m. unfold owned; cbn [tpc todo last pcn]. rewrite Ep. cbn [pcn app]. rewrite (lastl_nz a) by exact Hy0. intros H. apply in_app_or in H. destruct H as [H|[H|H]]; [right; apply in_or_app; left; exact H|left; symmetry; exact H|right; apply in_or_app; right; exact H]. }
      constructor; cbn [head nxt th lock stk gn tl].
      * rewrite H2. exact Hc.
      * exact Hndl.
      * intros u m. unfold setth. destruct (Nat.eq_dec u t) as [->|Hu]; [rewrite updt_same|rewrite updt_other by exact Hu].
        -- intros H. destruct (Hsub m H) as [->|Ho]; [split; [exact Hnin|split; assumption]|]. destruct (A3 t m Ho) as (B1 & B2 & B3). split; [intros Hin; apply B1; right; exact Hin|split; assumption].
        -- intros H. destruct (A3 u m H) as (B1 & B2 & B3). split; [intros Hin; apply B1; right; exact Hin|split; assumption].
      * intros u v m. unfold setth. destruct (Nat.eq_dec u t) as [->|Hu]; destruct (Nat.eq_dec v t) as [->|Hv]; rewrite ?updt_same, ?updt_other by assumption; intros G1 G2; try reflexivity.
        -- destruct (Hsub m G1) as [->|Ho]; [exfalso; destruct (A3 v a G2) as [Hn _]; apply Hn; left; reflexivity|apply (A4 t v m Ho G2)].
        -- destruct (Hsub m G2) as [->|Ho]; [exfalso; destruct (A3 u a G1) as [Hn _]; apply Hn; left; reflexivity|apply (A4 u t m G1 Ho)].
        -- apply (A4 u v m G1 G2).
      * intros u. unfold setth. destruct (Nat.eq_dec u t) as [->|Hu]; [rewrite updt_same|rewrite updt_other by exact Hu; apply A5].
        unfold owned; cbn [tpc todo last pcn]. rewrite (lastl_nz a) by exact Hy0. cbn [app]. apply NoDup_insert.
        -- pose proof (A5 t) as H. fold x in H. unfold owned in H. rewrite Ep in H. exact H.
        -- intros H. apply Hax. unfold owned. rewrite Ep. exact H.
      * intros u. unfold setth. destruct (Nat.eq_dec u t) as [->|Hu]; [rewrite updt_same; exact I|rewrite updt_other by exact Hu].
        pose proof (A6 u) as H. pose proof (Hothers u Hu) as Hq'. destruct (tpc (th s u)) eqn:Eu; cbn [holdp inQ] in *; try exact H; try discriminate Hq'.
        destruct H as (G1 & G2 & G3). split; [|split; assumption]. destruct G1 as [<-|G1]; [|exact G1]. exfalso. destruct (A8 a (or_introl eq_refl)) as [Hg _]. congruence.
      * intros u. unfold setth. destruct (Nat.eq_dec u t) as [->|Hu]; [rewrite updt_same; intros _; exact Hlk|rewrite updt_other by exact Hu; apply A7].
      * intros y Hy. apply A8. right. exact Hy.
      * intros u v m o o'. unfold setth. destruct (Nat.eq_dec u t) as [->|Hu]; destruct (Nat.eq_dec v t) as [->|Hv]; rewrite ?updt_same, ?updt_other by assumption; cbn [tpc]; intros G1 G2; try reflexivity; try discriminate.
        apply (A9 u v m o o' G1 G2).
    + (* failure: a push came in between; look at the head again *)
      apply Inv_local; try assumption; try exact I; fold x; cbn [tpc todo last].
      * intros y. left. reflexivity.
      * intros m. unfold owned; cbn [tpc todo last pcn]. rewrite Ep. exact (fun h => h).
      * pose proof (A5 t) as H. fold x in H. unfold owned in *; cbn [tpc todo last pcn]. rewrite Ep in H. exact H.
      * intros _. exact Hlk.
      * discriminate.
  - (* Q_Unlock r *)
    assert (Hlk : lock s = Some t) by (apply A7; fold x; rewrite Ep; reflexivity).
    apply Inv_local; try assumption; try exact I; fold x; cbn [tpc todo last].
    + intros y. left. reflexivity.
    + intros m. unfold owned; cbn [tpc todo last]. rewrite Ep. cbn [pcn app]. destruct (N.eqb_spec r 0) as [->|Hr]; [cbn [lastl N.eqb app]; exact (fun h => h)|].
      intros H. apply in_or_app. right. exact H.
    + pose proof (A5 t) as H. fold x in H. unfold owned in *; cbn [tpc todo last]. rewrite Ep in H. cbn [pcn app] in *. destruct (N.eqb_spec r 0) as [->|Hr]; [cbn [lastl N.eqb app] in H; exact H|].
      apply (NoDup_app_r (lastl (last x))). exact H.
    + intros u Hu Hq'. pose proof (A7 u Hq') as HH. rewrite Hlk in HH. injection HH as ->. contradiction.
    + discriminate.
    + discriminate.
Qed.

Lemma Inv_init (threads : nat -> list op) :
  (forall t, NoDup (pushes (threads t)) /\ ~ In 0 (pushes (threads t)) /\ ~ In vend (pushes (threads t))) ->
  (forall t u n, In n (pushes (threads t)) -> In n (pushes (threads u)) -> t = u) ->
  Inv (init threads).
Proof.
  intros H1 H2. constructor; cbn [init head nxt th lock stk gn tpc todo last chainm holdp inQ].
  - reflexivity.
  - constructor.
  - intros t n. unfold owned; cbn [tpc todo last lastl N.eqb pcn app]. intros H. destruct (H1 t) as (_ & B & C). split; [intros []|split; intros ->; contradiction].
  - intros t u n. unfold owned; cbn [tpc todo last lastl N.eqb pcn app]. apply H2.
  - intros t. unfold owned; cbn [tpc todo last lastl N.eqb pcn app]. apply H1.
  - intros t. exact I.
  - intros t H. discriminate H.
  - intros x [].
  - intros t u n o o'. discriminate.
Qed.

Section All.
Variable threads : nat -> list op.
Hypothesis Hnd : forall t, NoDup (pushes (threads t)) /\ ~ In 0 (pushes (threads t)) /\ ~ In vend (pushes (threads t)).
Hypothesis Hdisj : forall t u n, In n (pushes (threads t)) -> In n (pushes (threads u)) -> t = u.

(* every schedule, any number of pushers and poppers, popped nodes pushed again at once *)
Theorem wfs_mutex_pop_invariant_all_schedules : forall cs, Inv (run true cs (init threads)).
Proof.
  intros cs. generalize (Inv_init threads Hnd Hdisj). generalize (init threads).
  induction cs as [|t cs IH]; intros s0 H0; cbn [run]; [exact H0|]. apply IH. apply Inv_step. exact H0.
Qed.
(* the cmpxchg of a pop that succeeds removes exactly the top node, and installs that node's current logical successor: no ABA *)
Theorem pop_cmpxchg_never_stale : forall cs t a b, let s := run true cs (init threads) in
  tpc (th s t) = Q_Cas a b -> head s = a -> exists l, stk s = a :: l /\ chainm (gn s) b l /\ stk (step t s) = l /\ head (step t s) = b.
Proof.
  intros cs t a b s Hp Hh. pose proof (wfs_mutex_pop_invariant_all_schedules cs) as [A1 A2 A3 A4 A5 A6 A7 A8 A9]. fold s in A1, A2, A6.
  pose proof (A6 t) as H. rewrite Hp in H. cbn [holdp] in H. destruct H as (H1 & H2 & H3).
  destruct (stk s) as [|y l] eqn:Es; [contradiction|]. cbn [chainm] in A1. destruct A1 as (Ey & _ & _ & Hc). rewrite Hh in Ey. subst y.
  exists l. split; [reflexivity|]. split; [rewrite H2; exact Hc|]. unfold WfsMx.step. rewrite Hp. rewrite (proj2 (N.eqb_eq _ _) Hh). cbn [stk head]. rewrite Es. split; reflexivity.
Qed.
(* a pop returns only while holding the mutex, and what it returns was the top *)
Theorem poppers_exclude_one_another : forall cs t u, let s := run true cs (init threads) in
  inQ (tpc (th s t)) = true -> inQ (tpc (th s u)) = true -> t = u.
Proof.
  intros cs t u s H1 H2. pose proof (wfs_mutex_pop_invariant_all_schedules cs) as HI. pose proof (I_lock _ HI t H1) as E1. pose proof (I_lock _ HI u H2) as E2. fold s in E1, E2. congruence.
Qed.
End All.

(* non-vacuity: a push whose link is still pending makes the popper wait; a push in between makes its cmpxchg fail; the popped node is pushed again at once *)
Definition ex_threads (t : nat) : list op := match t with 0%nat => [OPush 5; OPush 6] | 1%nat => [OPop; ORepush; OPop] | 2%nat => [OPush 7; OPop] | _ => [] end.
Example ex_run : let s := run true [0;0;0;0;0; 1;1;1;1; 2;2; 0; 1;1;1;1; 2; 1;1;1; 1;1;1; 1;1;1;1;1;1; 2;2;2;2;2;2]%nat (init ex_threads) in
  stk s = [5] /\ last (th s 1%nat) = 7 /\ last (th s 2%nat) = 6 /\ WfsMx.head s = 5 /\ lock s = None.
Proof. vm_compute. repeat split. Qed.

(* without the mutex: popper 1 holds (6, next = 5); popper 2 pops 6, popper 3 pops 5, popper 2 pushes 6 again; popper 1's cmpxchg succeeds on the recycled 6 and
   installs 5 - a node that thread 3 owns - as head, while the abstract stack is empty *)
Definition aba_threads (t : nat) : list op := match t with 0%nat => [OPush 5; OPush 6] | 1%nat => [OPop] | 2%nat => [OPop; ORepush] | 3%nat => [OPop] | _ => [] end.
Theorem pop_without_mutex_refuted : exists cs, let s := WfsMx.run false cs (init aba_threads) in WfsMx.head s = 5 /\ stk s = [] /\ last (th s 3%nat) = 5.
Proof. exists ([0;0;0;0;0;0] ++ [1;1;1;1] ++ [2;2;2;2;2;2] ++ [3;3;3;3;3;3] ++ [2;2;2] ++ [1])%nat. vm_compute. repeat split. Qed.
Print Assumptions wfs_mutex_pop_invariant_all_schedules.
Print Assumptions pop_cmpxchg_never_stale.
