(* rculfstack: the memory chain spells the abstract stack, every node has one owner, and a popper's (head, next) pair is never stale when its cmpxchg succeeds - for
   every schedule, any number of pushers and poppers, with popped nodes pushed again after a grace period.  Without the grace period the ABA corruption is exhibited. *)
From Coq Require Import List Arith NArith Bool Lia.
Import ListNotations.
Require Import Urcu.LfsRcu.LfsRcu.
Local Open Scope N_scope.

Fixpoint pushes (l : list op) : list N := match l with [] => [] | OPush n :: r => n :: pushes r | _ :: r => pushes r end.
Definition lastl (x : N) : list N := if x =? 0 then [] else [x].
Definition pcn (p : pc) : list N := match p with U_Cas n _ => [n] | O_Exit r => lastl r | R_Wait y => [y] | _ => [] end.
Definition owned (x : thr) : list N := lastl (last x) ++ pcn (tpc x) ++ pushes (todo x).
Definition fresh (x : thr) : list N := match tpc x with U_Cas n _ => [n] | _ => [] end ++ pushes (todo x).
Definition holdok (s : st) (t : nat) : Prop :=
  match tpc (th s t) with
  | O_Next h => h <> 0 /\ (In h (stk s) \/ blk s h t = true)
  | O_Cas h nx => h <> 0 /\ ((In h (stk s) /\ nxt s h = nx) \/ blk s h t = true)
  | _ => True
  end.

Section P.
Variable NT : nat.
Notation step := (step NT true).

Record Inv (s : st) : Prop := {
  I_chain : chainm (nxt s) (head s) (stk s);
  I_nodup : NoDup (stk s);
  I_own : forall t n, In n (owned (th s t)) -> ~ In n (stk s) /\ n <> 0;
  I_disj : forall t u n, In n (owned (th s t)) -> In n (owned (th s u)) -> t = u;
  I_nd : forall t, NoDup (owned (th s t));
  I_hold : forall t, holdok s t;
  I_blk : forall x u, blk s x u = true -> insec (tpc (th s u)) = true /\ ~ In x (stk s);
  I_fresh : forall t n, In n (fresh (th s t)) -> forall u, blk s n u = false;
  I_nt : forall t, (NT <= t)%nat -> tpc (th s t) = Idle /\ todo (th s t) = [];
  I_link : forall t n h, tpc (th s t) = U_Cas n h -> nxt s n = h
}.

Lemma updt_same f k v : updt f k v k = v.  Proof. unfold updt. now rewrite Nat.eqb_refl. Qed.
Lemma updt_other f k v x : x <> k -> updt f k v x = f x.
Proof. unfold updt. intros H. destruct (Nat.eqb_spec x k); [contradiction|reflexivity]. Qed.
Lemma updn_same f k v : updn f k v k = v.  Proof. unfold updn. now rewrite N.eqb_refl. Qed.
Lemma updn_other f k v x : x <> k -> updn f k v x = f x.
Proof. unfold updn. intros H. destruct (N.eqb_spec x k); [contradiction|reflexivity]. Qed.
Lemma chainm_ext f f' l : forall a, (forall x, In x l -> f' x = f x) -> chainm f a l -> chainm f' a l.
Proof.
  induction l as [|y l IH]; intros a He H; cbn [chainm] in *; [exact H|]. destruct H as (-> & Hn & H). split; [reflexivity|split; [exact Hn|]].
  rewrite (He y (or_introl eq_refl)). apply IH; [intros x Hx; apply He; right; exact Hx|exact H].
Qed.
Lemma fresh_owned x n : In n (fresh x) -> In n (owned x).
Proof. unfold fresh, owned. intros H. apply in_or_app. right. apply in_app_or in H. apply in_or_app. destruct H as [H|H]; [left|right; exact H]. destruct (tpc x); cbn in *; tauto. Qed.
Lemma lastl_in r n : In n (lastl r) -> n = r /\ r <> 0.
Proof. unfold lastl. destruct (N.eqb_spec r 0); [intros []|intros [<-|[]]; split; [reflexivity|assumption]]. Qed.

(* a step of thread t that leaves head, the abstract stack and the blocker sets alone; it may write the link of one node it owns *)
Lemma Inv_local (s : st) t (x' : thr) (f' : N -> N) :
  Inv s -> (t < NT)%nat ->
  (forall y, f' y = nxt s y \/ In y (owned (th s t))) ->
  (forall n, In n (owned x') -> In n (owned (th s t))) -> NoDup (owned x') ->
  (forall n, In n (fresh x') -> In n (fresh (th s t)) \/ forall u, blk s n u = false) ->
  (insec (tpc (th s t)) = true -> insec (tpc x') = true) ->
  (match tpc x' with
   | O_Next h => h <> 0 /\ (In h (stk s) \/ blk s h t = true)
   | O_Cas h nx => h <> 0 /\ ((In h (stk s) /\ f' h = nx) \/ blk s h t = true)
   | U_Cas n h => f' n = h
   | _ => True end) ->
  Inv {| head := head s; nxt := f'; th := updt (th s) t x'; stk := stk s; blk := blk s |}.
Proof.
  intros [A1 A2 A3 A4 A5 A6 A7 A8 A9 A10] Ht Hf Hown Hnd Hfr Hsec Hhold.
  assert (Hstk : forall y, In y (stk s) -> f' y = nxt s y).
  { intros y Hy. destruct (Hf y) as [E|Ho]; [exact E|]. destruct (A3 t y Ho) as [Hn _]. contradiction. }
  constructor; cbn [head nxt th stk blk].
  - apply (chainm_ext (nxt s)); [exact Hstk|exact A1].
  - exact A2.
  - intros u n. destruct (Nat.eq_dec u t) as [->|Hne]; [rewrite updt_same; intros H; apply (A3 t n (Hown n H))|rewrite updt_other by exact Hne; apply A3].
  - intros u v n. destruct (Nat.eq_dec u t) as [->|Hu]; destruct (Nat.eq_dec v t) as [->|Hv]; rewrite ?updt_same, ?updt_other by assumption; intros H1 H2; try reflexivity.
    + apply (A4 t v n (Hown n H1) H2).
    + apply (A4 u t n H1 (Hown n H2)).
    + apply (A4 u v n H1 H2).
  - intros u. destruct (Nat.eq_dec u t) as [->|Hne]; [rewrite updt_same; exact Hnd|rewrite updt_other by exact Hne; apply A5].
  - intros u. unfold holdok; cbn [th stk blk nxt]. destruct (Nat.eq_dec u t) as [->|Hne]; [rewrite updt_same; destruct (tpc x'); try exact I; exact Hhold|rewrite updt_other by exact Hne].
    pose proof (A6 u) as H. unfold holdok in H. destruct (tpc (th s u)); try exact H.
    destruct H as [Hh [[Hi He]|Hb]]; split; try exact Hh; [left; split; [exact Hi|rewrite (Hstk _ Hi); exact He]|right; exact Hb].
  - intros y u Hb. destruct (A7 y u Hb) as [B1 B2]. split; [|exact B2]. destruct (Nat.eq_dec u t) as [->|Hne]; [rewrite updt_same; apply Hsec; exact B1|rewrite updt_other by exact Hne; exact B1].
  - intros u n. destruct (Nat.eq_dec u t) as [->|Hne]; [rewrite updt_same|rewrite updt_other by exact Hne; apply A8].
    intros H. destruct (Hfr n H) as [H'|H']; [apply (A8 t n H')|exact H'].
  - intros u Hu. rewrite updt_other by lia. apply A9. exact Hu.
  - intros u n h. destruct (Nat.eq_dec u t) as [->|Hne]; [rewrite updt_same; intros E; rewrite E in Hhold; exact Hhold|rewrite updt_other by exact Hne].
    intros E. destruct (Hf n) as [E'|Ho]; [rewrite E'; apply (A10 u n h E)|].
    exfalso. apply Hne. apply (A4 u t n); [|exact Ho]. unfold owned. rewrite E. apply in_or_app. right. left. reflexivity.
Qed.

Lemma NoDup_insert (a b : list N) h : NoDup (a ++ b) -> ~ In h a -> ~ In h b -> NoDup (a ++ h :: b).
Proof.
  intros H Ha Hb. induction a as [|y a IH]; cbn [app] in *; [constructor; assumption|].
  inversion H; subst. constructor.
  - intros Hin. apply in_app_or in Hin. destruct Hin as [Hin|[E|Hin]]; [apply H2; apply in_or_app; left; exact Hin|subst; apply Ha; left; reflexivity|apply H2; apply in_or_app; right; exact Hin].
  - apply IH; [assumption|intros Hin; apply Ha; right; exact Hin].
Qed.
Lemma NoDup_app_r (a b : list N) : NoDup (a ++ b) -> NoDup b.
Proof. induction a as [|y a IH]; cbn [app]; [exact (fun h => h)|]. intros H. inversion H; subst. apply IH. assumption. Qed.
Lemma chain_top (f : N -> N) a l : chainm f a l -> a <> 0 -> exists l', l = a :: l' /\ chainm f (f a) l'.
Proof. destruct l as [|y l']; cbn [chainm]; [intros -> H; contradiction|]. intros (-> & _ & H) _. exists l'. split; [reflexivity|exact H]. Qed.

Lemma Inv_step t (s : st) : Inv s -> Inv (step t s).
Proof.
  intros HI. pose proof HI as [A1 A2 A3 A4 A5 A6 A7 A8 A9 A10].
  destruct (le_lt_dec NT t) as [Hge|Ht].
  { destruct (A9 t Hge) as [E1 E2]. unfold LfsRcu.step. rewrite E1, E2. exact HI. }
  unfold LfsRcu.step. set (x := th s t) in *.
  assert (Hsame : forall p td l f', (forall y, f' y = nxt s y \/ In y (owned x)) -> owned {| tpc := p; todo := td; last := l |} = owned x ->
            (forall n, In n (fresh {| tpc := p; todo := td; last := l |}) -> In n (fresh x) \/ forall u, blk s n u = false) ->
            (insec (tpc x) = true -> insec p = true) ->
            (match p with O_Next h => h <> 0 /\ (In h (stk s) \/ blk s h t = true) | O_Cas h nx => h <> 0 /\ ((In h (stk s) /\ f' h = nx) \/ blk s h t = true) | U_Cas n h => f' n = h | _ => True end) ->
            Inv {| head := head s; nxt := f'; th := setth s t p td l; stk := stk s; blk := blk s |}).
  { intros p td l f' Hf Ho Hfr Hs Hh. apply Inv_local; try assumption; [intros n Hn; rewrite Ho in Hn; exact Hn|rewrite Ho; apply A5]. }
  destruct (tpc x) eqn:Ep.
  - (* Idle *)
    destruct (todo x) as [|[n| |] r] eqn:Etd; [exact HI| | |].
    + apply Hsame.
      * intros y. destruct (N.eq_dec y n) as [->|Hy]; [right; unfold owned; rewrite Ep, Etd; apply in_or_app; right; cbn; left; reflexivity|left; apply updn_other; exact Hy].
      * unfold owned; cbn [tpc todo last pcn pushes]. rewrite Ep, Etd. reflexivity.
      * intros m Hm. left. unfold fresh in *; cbn [tpc todo] in *. rewrite Ep, Etd. exact Hm.
      * discriminate.
      * apply updn_same.
    + apply Hsame; [intros y; left; reflexivity|unfold owned; cbn [tpc todo last pcn pushes]; rewrite Ep, Etd; reflexivity| |discriminate|exact I].
      intros m Hm. left. unfold fresh in *; cbn [tpc todo] in *. rewrite Ep, Etd. exact Hm.
    + destruct (N.eqb_spec (last x) 0) as [El|El].
      * apply Hsame; [intros y; left; reflexivity| | |discriminate|exact I].
        -- unfold owned; cbn [tpc todo last pcn pushes]. rewrite Ep, Etd, El. reflexivity.
        -- intros m Hm. left. unfold fresh in *; cbn [tpc todo] in *. rewrite Ep, Etd. exact Hm.
      * apply Hsame; [intros y; left; reflexivity| | |discriminate|exact I].
        -- unfold owned, lastl; cbn [tpc todo last pcn pushes]. rewrite Ep, Etd. destruct (N.eqb_spec (last x) 0); [contradiction|]. reflexivity.
        -- intros m Hm. left. unfold fresh in *; cbn [tpc todo] in *. rewrite Ep, Etd. exact Hm.
  - (* U_Cas *)
    assert (Hno : In n (owned x)) by (unfold owned; rewrite Ep; apply in_or_app; right; left; reflexivity).
    destruct (N.eqb_spec (head s) h) as [Eh|Eh].
    + (* the push takes effect *)
      destruct (A3 t n Hno) as [Hns Hn0].
      assert (Hox : owned x = lastl (last x) ++ n :: pushes (todo x)) by (unfold owned; rewrite Ep; reflexivity).
      assert (Hnd : NoDup (lastl (last x) ++ n :: pushes (todo x))) by (rewrite <- Hox; apply A5).
      assert (Hrest : forall m, In m (lastl (last x) ++ pushes (todo x)) -> In m (owned x) /\ m <> n).
      { intros m Hm. split; [rewrite Hox; apply in_app_or in Hm; apply in_or_app; destruct Hm; [left|right; right]; assumption|].
        intros ->. apply NoDup_remove_2 in Hnd. contradiction. }
      constructor; cbn [head nxt th stk blk].
      * cbn [chainm]. split; [reflexivity|split; [exact Hn0|]]. rewrite (A10 t n h Ep), <- Eh. exact A1.
      * constructor; assumption.
      * intros u m. unfold setth. destruct (Nat.eq_dec u t) as [->|Hne]; [rewrite updt_same|rewrite updt_other by exact Hne].
        -- unfold owned; cbn [tpc todo last pcn app]. intros Hm. destruct (Hrest m Hm) as [Ho Hmn]. destruct (A3 t m Ho) as [B1 B2]. split; [intros [E|Hi]; [congruence|contradiction]|exact B2].
        -- intros Hm. destruct (A3 u m Hm) as [B1 B2]. split; [|exact B2]. intros [E|Hi]; [|contradiction]. subst m. apply Hne. apply (A4 u t n Hm Hno).
      * intros u v m. unfold setth. destruct (Nat.eq_dec u t) as [->|Hu]; destruct (Nat.eq_dec v t) as [->|Hv]; rewrite ?updt_same, ?updt_other by assumption; intros H1 H2; try reflexivity.
        -- unfold owned in H1; cbn [tpc todo last pcn app] in H1. apply (A4 t v m (proj1 (Hrest m H1)) H2).
        -- unfold owned in H2; cbn [tpc todo last pcn app] in H2. apply (A4 u t m H1 (proj1 (Hrest m H2))).
        -- apply (A4 u v m H1 H2).
      * intros u. unfold setth. destruct (Nat.eq_dec u t) as [->|Hne]; [rewrite updt_same|rewrite updt_other by exact Hne; apply A5].
        unfold owned; cbn [tpc todo last pcn app]. apply NoDup_remove_1 in Hnd. exact Hnd.
      * intros u. unfold holdok, setth; cbn [th stk blk nxt]. destruct (Nat.eq_dec u t) as [->|Hne]; [rewrite updt_same; exact I|rewrite updt_other by exact Hne].
        pose proof (A6 u) as H. unfold holdok in H. destruct (tpc (th s u)); try exact H.
        -- destruct H as [Hh [Hi|Hb]]; split; try exact Hh; [left; right; exact Hi|right; exact Hb].
        -- destruct H as [Hh [[Hi He]|Hb]]; split; try exact Hh; [left; split; [right; exact Hi|exact He]|right; exact Hb].
      * intros y u Hb. destruct (A7 y u Hb) as [B1 B2]. split.
        -- unfold setth. destruct (Nat.eq_dec u t) as [->|Hne]; [exfalso; fold x in B1; rewrite Ep in B1; discriminate|rewrite updt_other by exact Hne; exact B1].
        -- intros [E|Hi]; [|contradiction]. subst y. assert (Hf : In n (fresh x)) by (unfold fresh; rewrite Ep; left; reflexivity). rewrite (A8 t n Hf u) in Hb. discriminate.
      * intros u m. unfold setth. destruct (Nat.eq_dec u t) as [->|Hne]; [rewrite updt_same|rewrite updt_other by exact Hne; apply A8].
        unfold fresh; cbn [tpc todo app]. intros Hm. apply (A8 t m). unfold fresh. fold x. rewrite Ep. right. exact Hm.
      * intros u Hu. unfold setth. rewrite updt_other by lia. apply A9. exact Hu.
      * intros u m h'. unfold setth. destruct (Nat.eq_dec u t) as [->|Hne]; [rewrite updt_same; discriminate|rewrite updt_other by exact Hne; apply A10].
    + (* retry with the head just seen *)
      apply Hsame.
      * intros y. destruct (N.eq_dec y n) as [->|Hy]; [right; exact Hno|left; apply updn_other; exact Hy].
      * unfold owned; cbn [tpc todo last pcn]. rewrite Ep. reflexivity.
      * intros m Hm. left. unfold fresh in *; cbn [tpc todo] in *. rewrite Ep. exact Hm.
      * discriminate.
      * apply updn_same.
  - (* O_Head *)
    destruct (N.eqb_spec (head s) 0) as [E0|E0].
    + apply Hsame; [intros y; left; reflexivity|unfold owned; cbn [tpc todo last pcn]; rewrite Ep; reflexivity| |intros _; reflexivity|exact I].
      intros m Hm. left. unfold fresh in *; cbn [tpc todo] in *. rewrite Ep. exact Hm.
    + apply Hsame; [intros y; left; reflexivity|unfold owned; cbn [tpc todo last pcn]; rewrite Ep; reflexivity| |intros _; reflexivity|].
      * intros m Hm. left. unfold fresh in *; cbn [tpc todo] in *. rewrite Ep. exact Hm.
      * split; [exact E0|left]. destruct (chain_top _ _ _ A1 E0) as (l' & El & _). rewrite El. left. reflexivity.
  - (* O_Next *)
    apply Hsame; [intros y; left; reflexivity|unfold owned; cbn [tpc todo last pcn]; rewrite Ep; reflexivity| |intros _; reflexivity|].
    + intros m Hm. left. unfold fresh in *; cbn [tpc todo] in *. rewrite Ep. exact Hm.
    + pose proof (A6 t) as H. unfold holdok in H. fold x in H. rewrite Ep in H. destruct H as [Hh [Hi|Hb]]; split; try exact Hh; [left; split; [exact Hi|reflexivity]|right; exact Hb].
  - (* O_Cas *)
    destruct (N.eqb_spec (head s) h) as [Eh|Eh].
    + (* the pop takes effect: the pair (h, nx) is not stale *)
      pose proof (A6 t) as H. unfold holdok in H. fold x in H. rewrite Ep in H. destruct H as [Hh0 Hd].
      destruct (chain_top _ _ _ A1 ltac:(rewrite Eh; exact Hh0)) as (l' & El & Hc). rewrite Eh in El, Hc.
      assert (Hin : In h (stk s)) by (rewrite El; left; reflexivity).
      assert (Enx : nxt s h = nx) by (destruct Hd as [[_ E]|Hb]; [exact E|destruct (A7 h t Hb) as [_ B]; contradiction]).
      assert (Hnd : NoDup (h :: l')) by (rewrite <- El; exact A2). apply NoDup_cons_iff in Hnd. destruct Hnd as [Hhl Hndl].
      assert (Hox : owned x = lastl (last x) ++ pushes (todo x)) by (unfold owned; rewrite Ep; reflexivity).
      assert (Hnoto : ~ In h (owned x)) by (intros Ho; destruct (A3 t h Ho); contradiction).
      rewrite El. cbn [tl].
      constructor; cbn [head nxt th stk blk].
      * rewrite <- Enx. exact Hc.
      * exact Hndl.
      * intros u m. unfold setth. destruct (Nat.eq_dec u t) as [->|Hne]; [rewrite updt_same|rewrite updt_other by exact Hne].
        -- unfold owned; cbn [tpc todo last pcn]. intros Hm. apply in_app_or in Hm. destruct Hm as [Hm|Hm]; [|apply in_app_or in Hm; destruct Hm as [Hm|Hm]].
           ++ assert (Ho : In m (owned x)) by (rewrite Hox; apply in_or_app; left; exact Hm). destruct (A3 t m Ho) as [B1 B2]. split; [intros Hi; apply B1; rewrite El; right; exact Hi|exact B2].
           ++ apply lastl_in in Hm. destruct Hm as [-> _]. split; [exact Hhl|exact Hh0].
           ++ assert (Ho : In m (owned x)) by (rewrite Hox; apply in_or_app; right; exact Hm). destruct (A3 t m Ho) as [B1 B2]. split; [intros Hi; apply B1; rewrite El; right; exact Hi|exact B2].
        -- intros Hm. destruct (A3 u m Hm) as [B1 B2]. split; [intros Hi; apply B1; rewrite El; right; exact Hi|exact B2].
      * assert (Hnew : forall m, In m (owned {| tpc := O_Exit h; todo := todo x; last := last x |}) -> In m (owned x) \/ m = h).
        { intros m Hm. unfold owned in Hm; cbn [tpc todo last pcn] in Hm. apply in_app_or in Hm. destruct Hm as [Hm|Hm]; [left; rewrite Hox; apply in_or_app; left; exact Hm|].
          apply in_app_or in Hm. destruct Hm as [Hm|Hm]; [right; apply lastl_in in Hm; apply Hm|left; rewrite Hox; apply in_or_app; right; exact Hm]. }
        intros u v m. unfold setth. destruct (Nat.eq_dec u t) as [->|Hu]; destruct (Nat.eq_dec v t) as [->|Hv]; rewrite ?updt_same, ?updt_other by assumption; intros H1 H2; try reflexivity.
        -- destruct (Hnew m H1) as [Ho| ->]; [apply (A4 t v m Ho H2)|exfalso; destruct (A3 v h H2); contradiction].
        -- destruct (Hnew m H2) as [Ho| ->]; [apply (A4 u t m H1 Ho)|exfalso; destruct (A3 u h H1); contradiction].
        -- apply (A4 u v m H1 H2).
      * intros u. unfold setth. destruct (Nat.eq_dec u t) as [->|Hne]; [rewrite updt_same|rewrite updt_other by exact Hne; apply A5].
        unfold owned; cbn [tpc todo last pcn]. unfold lastl at 2. destruct (N.eqb_spec h 0); [contradiction|]. cbn [app].
        apply NoDup_insert; [rewrite <- Hox; apply A5| |]; intros Hi; apply Hnoto; rewrite Hox; apply in_or_app; [left|right]; exact Hi.
      * intros u. unfold holdok, setth; cbn [th stk blk nxt]. destruct (Nat.eq_dec u t) as [->|Hne]; [rewrite updt_same; exact I|rewrite updt_other by exact Hne].
        pose proof (A6 u) as H. unfold holdok in H. destruct (tpc (th s u)) eqn:Eu; try exact H.
        -- destruct H as [Hh Hd']. split; [exact Hh|]. destruct (N.eqb_spec h0 h) as [->|Hneq]; [right; reflexivity|].
           destruct Hd' as [Hi|Hb]; [left; rewrite El in Hi; destruct Hi as [E|Hi]; [congruence|exact Hi]|right; exact Hb].
        -- destruct H as [Hh Hd']. split; [exact Hh|]. destruct (N.eqb_spec h0 h) as [->|Hneq]; [right; reflexivity|].
           destruct Hd' as [[Hi He]|Hb]; [left; split; [rewrite El in Hi; destruct Hi as [E|Hi]; [congruence|exact Hi]|exact He]|right; exact Hb].
      * intros y u Hb. unfold setth. assert (Hsec : insec (tpc (th s u)) = true -> insec (tpc (updt (th s) t {| tpc := O_Exit h; todo := todo x; last := last x |} u)) = true).
        { intros B. destruct (Nat.eq_dec u t) as [->|Hne]; [rewrite updt_same; reflexivity|rewrite updt_other by exact Hne; exact B]. }
        destruct (N.eqb_spec y h) as [->|Hneq]; [split; [apply Hsec; exact Hb|exact Hhl]|].
        destruct (A7 y u Hb) as [B1 B2]. split; [apply Hsec; exact B1|intros Hi; apply B2; rewrite El; right; exact Hi].
      * intros u m Hm v. assert (Hmo : In m (owned (th s u))).
        { unfold setth in Hm. destruct (Nat.eq_dec u t) as [->|Hne]; [rewrite updt_same in Hm|rewrite updt_other in Hm by exact Hne; apply fresh_owned; exact Hm].
          unfold fresh in Hm; cbn [tpc todo app] in Hm. fold x. rewrite Hox. apply in_or_app. right. exact Hm. }
        assert (Hmh : m <> h) by (intros ->; destruct (A3 u h Hmo); contradiction).
        destruct (N.eqb_spec m h); [contradiction|]. apply (A8 u m).
        unfold setth in Hm. destruct (Nat.eq_dec u t) as [->|Hne]; [rewrite updt_same in Hm|rewrite updt_other in Hm by exact Hne; exact Hm].
        unfold fresh in *; cbn [tpc todo app] in Hm. fold x. rewrite Ep. exact Hm.
      * intros u Hu. unfold setth. rewrite updt_other by lia. apply A9. exact Hu.
      * intros u m h'. unfold setth. destruct (Nat.eq_dec u t) as [->|Hne]; [rewrite updt_same; discriminate|rewrite updt_other by exact Hne; apply A10].
    + apply Hsame; [intros y; left; reflexivity|unfold owned; cbn [tpc todo last pcn]; rewrite Ep; reflexivity| |intros _; reflexivity|exact I].
      intros m Hm. left. unfold fresh in *; cbn [tpc todo] in *. rewrite Ep. exact Hm.
  - (* O_Exit: the section ends *)
    assert (Hsub : forall m, In m (owned {| tpc := Idle; todo := todo x; last := if r =? 0 then last x else r |}) -> In m (owned x)).
    { intros m. unfold owned; cbn [tpc todo last pcn app]. rewrite Ep. cbn [pcn]. destruct (N.eqb_spec r 0) as [->|Hr].
      - unfold lastl at 3. cbn. exact (fun h => h).
      - intros Hm. apply in_or_app. right. unfold lastl in Hm at 1. destruct (N.eqb_spec r 0); [contradiction|]. unfold lastl at 1. destruct (N.eqb_spec r 0); [contradiction|]. exact Hm. }
    constructor; cbn [head nxt th stk blk].
    + exact A1.
    + exact A2.
    + intros u m. unfold setth. destruct (Nat.eq_dec u t) as [->|Hne]; [rewrite updt_same; intros Hm; apply (A3 t m (Hsub m Hm))|rewrite updt_other by exact Hne; apply A3].
    + intros u v m. unfold setth. destruct (Nat.eq_dec u t) as [->|Hu]; destruct (Nat.eq_dec v t) as [->|Hv]; rewrite ?updt_same, ?updt_other by assumption; intros H1 H2; try reflexivity.
      * apply (A4 t v m (Hsub m H1) H2).
      * apply (A4 u t m H1 (Hsub m H2)).
      * apply (A4 u v m H1 H2).
    + intros u. unfold setth. destruct (Nat.eq_dec u t) as [->|Hne]; [rewrite updt_same|rewrite updt_other by exact Hne; apply A5].
      pose proof (A5 t) as Hnd. fold x in Hnd. unfold owned in *; cbn [tpc todo last pcn app]. rewrite Ep in Hnd. cbn [pcn] in Hnd.
      destruct (N.eqb_spec r 0) as [->|Hr]; [unfold lastl in Hnd at 2; cbn in Hnd; exact Hnd|].
      apply NoDup_app_r in Hnd. unfold lastl in Hnd. unfold lastl at 1. destruct (N.eqb_spec r 0); [contradiction|]. exact Hnd.
    + intros u. unfold holdok, setth; cbn [th stk blk nxt]. destruct (Nat.eq_dec u t) as [->|Hne]; [rewrite updt_same; exact I|rewrite updt_other by exact Hne].
      pose proof (A6 u) as H. unfold holdok in H. destruct (Nat.eqb_spec u t); [contradiction|]. exact H.
    + intros y u Hb. destruct (Nat.eqb_spec u t) as [E|Hne]; [discriminate|]. unfold setth. rewrite updt_other by exact Hne. apply (A7 y u Hb).
    + intros u m Hm v. destruct (Nat.eqb_spec v t); [reflexivity|]. apply (A8 u m).
      unfold setth in Hm. destruct (Nat.eq_dec u t) as [->|Hne]; [rewrite updt_same in Hm|rewrite updt_other in Hm by exact Hne; exact Hm].
      unfold fresh in *; cbn [tpc todo app] in Hm. fold x. rewrite Ep. exact Hm.
    + intros u Hu. unfold setth. rewrite updt_other by lia. apply A9. exact Hu.
    + intros u m h'. unfold setth. destruct (Nat.eq_dec u t) as [->|Hne]; [rewrite updt_same; discriminate|rewrite updt_other by exact Hne; apply A10].
  - (* R_Wait: the grace period *)
    cbn [negb orb]. destruct (forallb (fun u => negb (blk s x0 u)) (seq 0 NT)) eqn:Ef; [|exact HI].
    assert (Hnone : forall u, blk s x0 u = false).
    { intros u. destruct (blk s x0 u) eqn:Eb; [|reflexivity]. exfalso. destruct (A7 x0 u Eb) as [B1 _].
      destruct (le_lt_dec NT u) as [Hu|Hu]; [destruct (A9 u Hu) as [E1 _]; rewrite E1 in B1; discriminate|].
      rewrite forallb_forall in Ef. specialize (Ef u ltac:(apply in_seq; lia)). rewrite Eb in Ef. discriminate. }
    apply Hsame.
    + intros y. destruct (N.eq_dec y x0) as [->|Hy]; [right; unfold owned; rewrite Ep; apply in_or_app; right; left; reflexivity|left; apply updn_other; exact Hy].
    + unfold owned; cbn [tpc todo last pcn]. rewrite Ep. reflexivity.
    + intros m Hm. unfold fresh in Hm; cbn [tpc todo app] in Hm. destruct Hm as [<-|Hm]; [right; exact Hnone|left; unfold fresh; rewrite Ep; exact Hm].
    + discriminate.
    + apply updn_same.
Qed.
End P.

Section T.
Variable NT : nat.
Lemma Inv_init (threads : nat -> list op) :
  (forall t, NoDup (pushes (threads t)) /\ ~ In 0 (pushes (threads t))) ->
  (forall t u n, In n (pushes (threads t)) -> In n (pushes (threads u)) -> t = u) ->
  (forall t, (NT <= t)%nat -> threads t = []) ->
  Inv NT (init threads).
Proof.
  intros H1 H2 H3. constructor; cbn [init head nxt th stk blk tpc todo last].
  - reflexivity.
  - constructor.
  - intros t n Hn. unfold owned in Hn; cbn in Hn. split; [intros []|]. intros ->. apply (proj2 (H1 t)). exact Hn.
  - intros t u n A B. unfold owned in A, B; cbn in A, B. apply (H2 t u n A B).
  - intros t. unfold owned; cbn. apply (H1 t).
  - intros t. exact I.
  - intros x u H. discriminate.
  - intros t n _ u. reflexivity.
  - intros t Ht. split; [reflexivity|apply H3; exact Ht].
  - intros t n h H. discriminate.
Qed.

(* every schedule, any number of pushers and poppers, node reuse after a grace period: the memory chain spells the abstract stack, nodes have one owner *)
Theorem rculfs_invariant_all_schedules (threads : nat -> list op) :
  (forall t, NoDup (pushes (threads t)) /\ ~ In 0 (pushes (threads t))) ->
  (forall t u n, In n (pushes (threads t)) -> In n (pushes (threads u)) -> t = u) ->
  (forall t, (NT <= t)%nat -> threads t = []) ->
  forall cs, Inv NT (run NT true cs (init threads)).
Proof.
  intros H1 H2 H3 cs. generalize (Inv_init threads H1 H2 H3). generalize (init threads).
  induction cs as [|t cs IH]; intros s HI; cbn [run]; [exact HI|]. apply IH. apply Inv_step. exact HI.
Qed.

(* no ABA: when a popper's cmpxchg succeeds, the node it takes is the top of the abstract stack and the successor it installs is the node below it - however long
   the popper was delayed between its loads and the cmpxchg *)
Theorem pop_cmpxchg_never_stale (s : st) t h nx : Inv NT s -> tpc (th s t) = O_Cas h nx -> head s = h ->
  exists l, stk s = h :: l /\ chainm (nxt s) nx l /\ stk (step NT true t s) = l /\ head (step NT true t s) = nx /\ tpc (th (step NT true t s) t) = O_Exit h.
Proof.
  intros HI Ep Eh. pose proof (I_hold NT s HI t) as H. unfold holdok in H. rewrite Ep in H. destruct H as [Hh0 Hd].
  destruct (chain_top _ _ _ (I_chain NT s HI) ltac:(rewrite Eh; exact Hh0)) as (l & El & Hc). rewrite Eh in El, Hc.
  assert (Enx : nxt s h = nx).
  { destruct Hd as [[_ E]|Hb]; [exact E|]. destruct (I_blk NT s HI h t Hb) as [_ B]. exfalso. apply B. rewrite El. left. reflexivity. }
  exists l. split; [exact El|]. split; [rewrite <- Enx; exact Hc|].
  unfold step. rewrite Ep. rewrite Eh, N.eqb_refl. cbn [stk head th]. rewrite El. cbn [tl]. unfold setth. rewrite updt_same. cbn. repeat split.
Qed.
End T.
Print Assumptions rculfs_invariant_all_schedules.
Print Assumptions pop_cmpxchg_never_stale.

(* non-vacuity and sensitivity: three threads; thread 0 pushes 2, 3, 4, pops 4 and pushes it again; thread 1 is a popper delayed between its loads (4, then 3) and its
   cmpxchg; thread 2 pops 3 in between.  Without the grace period thread 0 re-pushes 4 at once, thread 1's cmpxchg finds the head equal to 4 again and installs 3 -
   a node thread 2 owns: the memory no longer spells the abstract stack (ABA).  With the grace period thread 0 waits for thread 1's section. *)
Definition aba_threads (t : nat) : list op := match t with O => [OPush 2; OPush 3; OPush 4; OPop; OReuse] | S O => [OPop] | S (S O) => [OPop] | _ => [] end.
Definition aba_sched : list nat := [0; 0; 0; 0; 0; 0; 0; 0;  1; 1; 1;  0; 0; 0; 0; 0;  2; 2; 2; 2; 2;  0; 0; 0; 0;  1]%nat.
Theorem reuse_without_grace_period_refuted :
  let s := run 3 false aba_sched (init aba_threads) in ~ chainm (nxt s) (head s) (stk s) /\ head s = 3 /\ stk s = [2].
Proof. vm_compute. split; [intros [H _]; discriminate H|split; reflexivity]. Qed.
Example with_grace_period_the_reuser_waits :
  let s := run 3 true aba_sched (init aba_threads) in tpc (th s 0%nat) = R_Wait 4 /\ head s = 2 /\ stk s = [2] /\ tpc (th s 1%nat) = O_Head.
Proof. vm_compute. repeat split. Qed.
