(* Executable acceptor for the rculfstack model: the hooked accesses and call / return events of an implementation run of static/rculfstack.h (under an RCU whose
   read-side sections and grace periods are visible in the trace), with the values read and written, are checked against the model state; every accepted action is
   zero or one step of LfsRcu.step, so the theorems of LfsRcuProof.v apply to accepted traces. *)
From Coq Require Import List Arith NArith Bool Lia.
Import ListNotations.
Require Import Urcu.LfsRcu.LfsRcu Urcu.LfsRcu.LfsRcuProof.
Local Open Scope N_scope.

Inductive ract :=
| ACallPush (t : nat) (n : N)            (* cds_lfs_push_rcu(n) is called *)
| ACas (t : nat) (e nw old : N)          (* cmpxchg(&head, e, nw) returned old *)
| ALoadHead (t : nat) (v : N)            (* a popper loads head *)
| ALoadNext (t : nat) (h v : N)          (* a popper loads h->next *)
| AEnter (t : nat)                       (* rcu_read_lock of a popper has returned *)
| ALeave (t : nat)                       (* rcu_read_unlock of a popper begins *)
| ARetPop (t : nat) (r : N)              (* cds_lfs_pop_rcu returned r *)
| ARetPush (t : nat)                     (* cds_lfs_push_rcu returned *)
| ASyncCall (t : nat)                    (* the owner of a popped node calls synchronize_rcu before reusing it (or has no node: nothing happens) *)
| ASyncDone (t : nat).                   (* synchronize_rcu returned *)

Section X.
Variable NT : nat.
Notation step := (step NT true).
Definition rexec (a : ract) (s : st) : option st :=
  match a with
  | ACallPush t n =>
      match tpc (th s t), todo (th s t) with
      | Idle, OPush m :: _ => if n =? m then Some (step t s) else None
      | U_Cas m 0, _ => if n =? m then Some s else None                    (* the push of a reused node: the model is already at its first cmpxchg *)
      | _, _ => None
      end
  | ACas t e nw old =>
      if old =? head s then
        match tpc (th s t) with
        | U_Cas n h => if (e =? h) && (nw =? n) then Some (step t s) else None
        | O_Cas h nx => if (e =? h) && (nw =? nx) then Some (step t s) else None
        | _ => None
        end
      else None
  | ALoadHead t v => match tpc (th s t) with O_Head => if v =? head s then Some (step t s) else None | _ => None end
  | ALoadNext t h v => match tpc (th s t) with O_Next h' => if (h =? h') && (v =? nxt s h) then Some (step t s) else None | _ => None end
  | AEnter t => match tpc (th s t), todo (th s t) with Idle, OPop :: _ => Some (step t s) | _, _ => None end
  | ALeave t => match tpc (th s t) with O_Exit _ => Some (step t s) | _ => None end
  | ARetPop t r => match tpc (th s t) with Idle => if (r =? 0) || (r =? last (th s t)) then Some s else None | _ => None end
  | ARetPush t => match tpc (th s t) with Idle => Some s | _ => None end
  | ASyncCall t => match tpc (th s t), todo (th s t) with Idle, OReuse :: _ => Some (step t s) | _, _ => None end
  | ASyncDone t => match tpc (th s t) with
                   | R_Wait y => if forallb (fun u => negb (blk s y u)) (seq 0 NT) then Some (step t s) else None     (* the grace period may only end when no section that could hold y is open *)
                   | _ => None end
  end.
Fixpoint rrun (l : list ract) (s : st) : option st :=
  match l with [] => Some s | a :: l' => match rexec a s with Some s' => rrun l' s' | None => None end end.

Lemma rexec_inv a s s' : Inv NT s -> rexec a s = Some s' -> Inv NT s'.
Proof.
  intros HI H. destruct a; unfold rexec in H;
    repeat match type of H with context [match ?x with _ => _ end] => destruct x eqn:? end; try discriminate H;
    injection H as <-; try exact HI; apply Inv_step; exact HI.
Qed.
Theorem accepted_rculfs_trace_keeps_invariant (threads : nat -> list op) :
  (forall t, NoDup (pushes (threads t)) /\ ~ In 0 (pushes (threads t))) ->
  (forall t u n, In n (pushes (threads t)) -> In n (pushes (threads u)) -> t = u) ->
  (forall t, (NT <= t)%nat -> threads t = []) ->
  forall l s, rrun l (init threads) = Some s -> Inv NT s.
Proof.
  intros H1 H2 H3 l. generalize (Inv_init NT threads H1 H2 H3). generalize (init threads).
  induction l as [|a l IH]; intros s0 HI s H; cbn [rrun] in H; [injection H as <-; exact HI|].
  destruct (rexec a s0) as [s1|] eqn:E; [|discriminate]. apply (IH s1 (rexec_inv a s0 s1 HI E) s H).
Qed.
End X.
Print Assumptions accepted_rculfs_trace_keeps_invariant.
