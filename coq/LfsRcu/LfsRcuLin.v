(* rculfstack: every history of the model - any number of concurrent pushers and poppers, reuse after a grace period, every schedule - is linearizable w.r.t. the LIFO
   specification (push with its "stack was non-empty" answer, pop answering the top node or NULL).  Linearisation points: the successful head cmpxchg of push and of
   pop, the head load of a pop that sees NULL. *)
From Coq Require Import List Arith NArith Bool Lia.
Import ListNotations.
Require Import Urcu.Base.Lin.
Require Import Urcu.LfsRcu.LfsRcu Urcu.LfsRcu.LfsRcuProof.
Local Open Scope N_scope.

Inductive sop := LPush (n : N) | LPop.
Definition top (l : list N) : N := match l with [] => 0 | x :: _ => x end.
Definition lspec (l : list N) (o : sop) : list N * N :=
  match o with
  | LPush n => (n :: l, match l with [] => 0 | _ => 1 end)
  | LPop => (tl l, top l)
  end.
Notation ast := (Lin.ast sop N (list N)).
Notation runl := (Lin.runl sop N (list N) lspec N.eq_dec).
Notation lev := (Lin.ev sop N).
Notation lpend := (Lin.pend sop N).

Section L.
Variable NT : nat.
Notation step := (step NT true).

(* history events and linearisation points of the step thread t is about to take *)
Definition evs_of (s : st) (t : nat) : list lev :=
  let x := th s t in
  match tpc x with
  | Idle => match todo x with
            | OPush n :: _ => [Lin.Inv _ _ t (LPush n)]
            | OPop :: _ => [Lin.Inv _ _ t LPop]
            | _ => []
            end
  | U_Cas n h => if head s =? h then [Lin.Lin _ _ t; Lin.Res _ _ t (if h =? 0 then 0 else 1)] else []
  | O_Head => if head s =? 0 then [Lin.Lin _ _ t] else []
  | O_Cas h _ => if head s =? h then [Lin.Lin _ _ t] else []
  | O_Exit r => [Lin.Res _ _ t r]
  | R_Wait y => if forallb (fun u => negb (blk s y u)) (seq 0 NT) then [Lin.Inv _ _ t (LPush y)] else []
  | O_Next _ => []
  end.
Fixpoint htrace (cs : list nat) (s : st) : list lev :=
  match cs with [] => [] | t :: cs' => evs_of s t ++ htrace cs' (step t s) end.

Definition PR (p : pc) (q : lpend) : Prop :=
  match p with
  | Idle | R_Wait _ => q = Lin.Idle _ _
  | U_Cas n _ => q = Lin.Called _ _ (LPush n)
  | O_Head | O_Next _ | O_Cas _ _ => q = Lin.Called _ _ LPop
  | O_Exit r => q = Lin.Done _ _ LPop r
  end.
Record Sim (s : st) (a : ast) : Prop := { S_q : sig _ _ _ a = stk s; S_pr : forall t, PR (tpc (th s t)) (pm _ _ _ a t) }.

Lemma head_top s : Inv NT s -> head s = top (stk s).
Proof. intros HI. pose proof (I_chain NT s HI) as H. destruct (stk s) as [|y l]; cbn [chainm top] in *; [exact H|apply H]. Qed.
Lemma head_zero s : Inv NT s -> (head s =? 0) = match stk s with [] => true | _ => false end.
Proof. intros HI. pose proof (I_chain NT s HI) as H. destruct (stk s) as [|y l]; cbn [chainm] in H; [rewrite H; reflexivity|]. destruct H as (-> & Hn & _). apply N.eqb_neq. exact Hn. Qed.

Lemma Sim_set (s : st) (a a' : ast) t hd f p td l sk bk :
  Sim s a -> sig _ _ _ a' = sk -> PR p (pm _ _ _ a' t) -> (forall u, u <> t -> pm _ _ _ a' u = pm _ _ _ a u) ->
  Sim {| head := hd; nxt := f; th := setth s t p td l; stk := sk; blk := bk |} a'.
Proof.
  intros HS Hq Hp Ho. constructor; cbn [stk th]; [exact Hq|]. intros u. unfold setth. destruct (Nat.eq_dec u t) as [->|Hne].
  - rewrite updt_same. exact Hp.
  - rewrite updt_other by exact Hne. rewrite (Ho u Hne). apply (S_pr s a HS u).
Qed.

Lemma sim_step (s : st) (a : ast) t : Inv NT s -> Sim s a -> exists a' l, runl a (evs_of s t) = Some (a', l) /\ Sim (step t s) a'.
Proof.
  intros HI HS. pose proof (S_pr s a HS t) as Hpr. pose proof (S_q s a HS) as Hq.
  pose proof (head_top s HI) as Hh. pose proof (head_zero s HI) as Hz.
  unfold evs_of, LfsRcu.step. set (x := th s t) in *.
  assert (Hquiet : forall hd f p td l bk, PR p (pm _ _ _ a t) -> exists a' l0, runl a [] = Some (a', l0) /\ Sim {| head := hd; nxt := f; th := setth s t p td l; stk := stk s; blk := bk |} a').
  { intros hd f p td l bk Hp. exists a, []. split; [reflexivity|]. apply (Sim_set s a a t); [exact HS|exact Hq|exact Hp|intros u _; reflexivity]. }
  assert (Hinv : forall hd f p td l bk o, pm _ _ _ a t = Lin.Idle _ _ -> PR p (Lin.Called _ _ o) ->
            exists a' l0, runl a [Lin.Inv _ _ t o] = Some (a', l0) /\ Sim {| head := hd; nxt := f; th := setth s t p td l; stk := stk s; blk := bk |} a').
  { intros hd f p td l bk o Hp Hc. exists (Lin.setp _ _ _ a t (Lin.Called _ _ o)), []. split; [cbn [Lin.runl]; rewrite Hp; reflexivity|].
    apply (Sim_set s a _ t); [exact HS|exact Hq| |intros u Hu; cbn [Lin.setp pm]; apply Lin.upd_other; exact Hu]. cbn [Lin.setp pm]. rewrite Lin.upd_same. exact Hc. }
  destruct (tpc x) eqn:Ep; cbn [PR] in Hpr.
  - (* Idle *)
    destruct (todo x) as [|[n| |] r] eqn:Etd.
    + exists a, []. split; [reflexivity|exact HS].
    + apply Hinv; [exact Hpr|reflexivity].
    + apply Hinv; [exact Hpr|reflexivity].
    + destruct (last x =? 0); apply Hquiet; exact Hpr.
  - (* U_Cas *)
    destruct (N.eqb_spec (head s) h) as [Eh|Eh].
    + (* the push takes effect and returns *)
      set (r := if h =? 0 then 0 else 1).
      assert (Er : snd (lspec (stk s) (LPush n)) = r).
      { unfold r. rewrite <- Eh. rewrite Hz. cbn. destruct (stk s); reflexivity. }
      exists (Lin.setp _ _ _ {| sig := n :: stk s; pm := Lin.upd _ _ (pm _ _ _ a) t (Lin.Done _ _ (LPush n) r) |} t (Lin.Idle _ _)), [(t, LPush n, r)].
      split.
      * cbn [Lin.runl]. rewrite Hpr, Hq. cbn [lspec] in *. cbn [snd] in Er. rewrite Er. cbn [pm Lin.setp sig]. rewrite Lin.upd_same.
        destruct (N.eq_dec r r); [reflexivity|contradiction].
      * apply (Sim_set s a _ t); [exact HS|reflexivity| |].
        -- cbn [PR Lin.setp pm]. apply Lin.upd_same.
        -- intros u Hu. cbn [Lin.setp pm]. rewrite !Lin.upd_other by exact Hu. reflexivity.
    + apply Hquiet. exact Hpr.
  - (* O_Head *)
    destruct (N.eqb_spec (head s) 0) as [E0|E0].
    + (* the pop sees an empty stack *)
      assert (Es : stk s = []) by (destruct (stk s); [reflexivity|discriminate Hz]).
      exists {| sig := []; pm := Lin.upd _ _ (pm _ _ _ a) t (Lin.Done _ _ LPop 0) |}, [(t, LPop, 0)].
      split; [cbn [Lin.runl]; rewrite Hpr, Hq, Es; reflexivity|].
      apply (Sim_set s a _ t); [exact HS|cbn; symmetry; exact Es| |intros u Hu; apply Lin.upd_other; exact Hu].
      cbn [PR pm]. apply Lin.upd_same.
    + apply Hquiet. exact Hpr.
  - (* O_Next *) apply Hquiet. exact Hpr.
  - (* O_Cas *)
    destruct (N.eqb_spec (head s) h) as [Eh|Eh].
    + (* the pop takes the top *)
      assert (Et : top (stk s) = h) by (rewrite <- Hh; exact Eh).
      exists {| sig := tl (stk s); pm := Lin.upd _ _ (pm _ _ _ a) t (Lin.Done _ _ LPop h) |}, [(t, LPop, h)].
      split; [cbn [Lin.runl]; rewrite Hpr, Hq; cbn [lspec]; rewrite Et; reflexivity|].
      apply (Sim_set s a _ t); [exact HS|reflexivity| |intros u Hu; apply Lin.upd_other; exact Hu].
      cbn [PR pm]. apply Lin.upd_same.
    + apply Hquiet. exact Hpr.
  - (* O_Exit *)
    exists (Lin.setp _ _ _ a t (Lin.Idle _ _)), []. split; [cbn [Lin.runl]; rewrite Hpr; destruct (N.eq_dec r r); [reflexivity|contradiction]|].
    apply (Sim_set s a _ t); [exact HS|exact Hq| |intros u Hu; cbn [Lin.setp pm]; apply Lin.upd_other; exact Hu].
    cbn [PR Lin.setp pm]. apply Lin.upd_same.
  - (* R_Wait: the reuse starts as a push once the grace period is over *)
    cbn [negb orb]. destruct (forallb (fun u => negb (blk s x0 u)) (seq 0 NT)); [|exists a, []; split; [reflexivity|exact HS]].
    apply Hinv; [exact Hpr|reflexivity].
Qed.

Theorem rculfs_accepted : forall cs s a, Inv NT s -> Sim s a -> exists a' l, runl a (htrace cs s) = Some (a', l).
Proof.
  intros cs. induction cs as [|t cs IH]; intros s a HI HS; cbn [htrace].
  - exists a, []. reflexivity.
  - destruct (sim_step s a t HI HS) as (a1 & l1 & E1 & HS1).
    destruct (IH (step t s) a1 (Inv_step NT t s HI) HS1) as (a2 & l2 & E2). exists a2, (l1 ++ l2). eapply Lin.runl_app_some; eassumption.
Qed.

Definition a0 : ast := {| sig := []; pm := fun _ => Lin.Idle _ _ |}.
Theorem rculfs_linearizable (threads : nat -> list op) :
  (forall t, NoDup (pushes (threads t)) /\ ~ In 0 (pushes (threads t))) ->
  (forall t u n, In n (pushes (threads t)) -> In n (pushes (threads u)) -> t = u) ->
  (forall t, (NT <= t)%nat -> threads t = []) ->
  forall cs, exists a' L,
  runl a0 (htrace cs (init threads)) = Some (a', L) /\
  Lin.legal sop N (list N) lspec [] L /\
  (forall t, Lin.tops sop N t L = Lin.hcomp sop N t None (htrace cs (init threads)) ++ Lin.pre sop N (pm _ _ _ a' t)).
Proof.
  intros H1 H2 H3 cs. pose proof (Inv_init NT threads H1 H2 H3) as HI.
  assert (HS : Sim (init threads) a0) by (constructor; [reflexivity|intros t; reflexivity]).
  destruct (rculfs_accepted cs _ a0 HI HS) as (a' & L & E). exists a', L. split; [exact E|].
  destruct (Lin.accepted_implies_hw sop N (list N) lspec N.eq_dec [] _ a' L E) as (A & B & _). split; assumption.
Qed.
End L.
Print Assumptions rculfs_linearizable.
