(* Legacy RCU lock-free stack (include/urcu/static/rculfstack.h: cds_lfs_push_rcu, cds_lfs_pop_rcu): no mutex - any number of concurrent pushers and poppers; a popper
   runs inside a read-side critical section, and a popped node is pushed again (or freed) only after a grace period, i.e. when every section that was open when the
   node was popped has ended.  Step-level model on sequentially consistent memory (every shared access of this code is a load or a locked cmpxchg; the plain store
   node->next = head is private and the publishing cmpxchg is a full barrier), with the abstract stack and, per popped node, the set of threads that may still hold a
   reference to it as ghost state.  The grace period is abstract: "reuse x" is enabled when that set is empty. *)
From Coq Require Import List Arith NArith Bool Lia.
Import ListNotations.
Local Open Scope N_scope.

Inductive op := OPush (n : N) | OPop | OReuse.
Inductive pc :=
| Idle
| U_Cas (n h : N)        (* push: n->next = h is stored; about to cmpxchg(&head, h, n) *)
| O_Head                 (* pop, inside its section: about to load head *)
| O_Next (h : N)         (* about to load h->next *)
| O_Cas (h nx : N)       (* about to cmpxchg(&head, h, nx) *)
| O_Exit (r : N)         (* leaves the section with answer r *)
| R_Wait (x : N).        (* waits for the grace period before pushing x again *)
Record thr := { tpc : pc; todo : list op; last : N }.
Record st := { head : N; nxt : N -> N; th : nat -> thr;
               stk : list N;                    (* ghost: the abstract stack, top first *)
               blk : N -> nat -> bool }.        (* ghost: blk x u = thread u was inside a section when x was popped and has not left it since *)

Definition updn (f : N -> N) (k v : N) : N -> N := fun x => if N.eqb x k then v else f x.
Definition updt (f : nat -> thr) (k : nat) (v : thr) : nat -> thr := fun x => if Nat.eqb x k then v else f x.
Definition insec (p : pc) : bool := match p with O_Head | O_Next _ | O_Cas _ _ | O_Exit _ => true | _ => false end.

Section M.
Variable NT : nat.            (* threads 0 .. NT-1 *)
Variable waits : bool.        (* true: reuse waits for the grace period (the documented rule); false: the refuted variant *)

Definition setth (s : st) t p td l : nat -> thr := updt (th s) t {| tpc := p; todo := td; last := l |}.
Definition step (t : nat) (s : st) : st :=
  let x := th s t in
  match tpc x with
  | Idle =>
      match todo x with
      | [] => s
      | OPush n :: r => {| head := head s; nxt := updn (nxt s) n 0; th := setth s t (U_Cas n 0) r (last x); stk := stk s; blk := blk s |}
      | OPop :: r => {| head := head s; nxt := nxt s; th := setth s t O_Head r (last x); stk := stk s; blk := blk s |}
      | OReuse :: r => if last x =? 0 then {| head := head s; nxt := nxt s; th := setth s t Idle r 0; stk := stk s; blk := blk s |}
                       else {| head := head s; nxt := nxt s; th := setth s t (R_Wait (last x)) r 0; stk := stk s; blk := blk s |}
      end
  | U_Cas n h =>
      if head s =? h then {| head := n; nxt := nxt s; th := setth s t Idle (todo x) (last x); stk := n :: stk s; blk := blk s |}
      else {| head := head s; nxt := updn (nxt s) n (head s); th := setth s t (U_Cas n (head s)) (todo x) (last x); stk := stk s; blk := blk s |}
  | O_Head => {| head := head s; nxt := nxt s; th := setth s t (if head s =? 0 then O_Exit 0 else O_Next (head s)) (todo x) (last x); stk := stk s; blk := blk s |}
  | O_Next h => {| head := head s; nxt := nxt s; th := setth s t (O_Cas h (nxt s h)) (todo x) (last x); stk := stk s; blk := blk s |}
  | O_Cas h nx =>
      if head s =? h then {| head := nx; nxt := nxt s; th := setth s t (O_Exit h) (todo x) (last x); stk := tl (stk s);
                             blk := fun y u => if y =? h then insec (tpc (th s u)) else blk s y u |}
      else {| head := head s; nxt := nxt s; th := setth s t O_Head (todo x) (last x); stk := stk s; blk := blk s |}
  | O_Exit r => {| head := head s; nxt := nxt s; th := setth s t Idle (todo x) (if r =? 0 then last x else r); stk := stk s;
                   blk := fun y u => if Nat.eqb u t then false else blk s y u |}
  | R_Wait y =>
      if negb waits || forallb (fun u => negb (blk s y u)) (seq 0 NT)
      then {| head := head s; nxt := updn (nxt s) y 0; th := setth s t (U_Cas y 0) (todo x) (last x); stk := stk s; blk := blk s |}
      else s
  end.
Fixpoint run (cs : list nat) (s : st) : st := match cs with [] => s | t :: cs' => run cs' (step t s) end.
End M.

Definition init (threads : nat -> list op) : st :=
  {| head := 0; nxt := fun _ => 0; th := fun t => {| tpc := Idle; todo := threads t; last := 0 |}; stk := []; blk := fun _ _ => false |}.

(* memory spells the abstract stack *)
Fixpoint chainm (f : N -> N) (a : N) (l : list N) : Prop :=
  match l with [] => a = 0 | x :: l' => a = x /\ x <> 0 /\ chainm f (f x) l' end.
