(* scratch: linearizability as acceptance by the atomic-object automaton, and its Herlihy-Wing reading *)
From Coq Require Import List Arith Bool Lia.
Import ListNotations.

Section LIN.
Variables O R S : Type.
Variable spec : S -> O -> S * R.
Variable R_eq_dec : forall r r' : R, {r = r'} + {r <> r'}.

Inductive ev := Inv (t : nat) (o : O) | Lin (t : nat) | Res (t : nat) (r : R).
Inductive pend := Idle | Called (o : O) | Done (o : O) (r : R).
Record ast := { sig : S; pm : nat -> pend }.
Definition upd (f : nat -> pend) (t : nat) (x : pend) : nat -> pend := fun u => if Nat.eqb u t then x else f u.
Definition setp (a : ast) t x : ast := {| sig := sig a; pm := upd (pm a) t x |}.
Definition op := (nat * O * R)%type.

(* run the automaton; the operations in linearisation order, with the results the specification gives, are collected *)
Fixpoint runl (a : ast) (tr : list ev) : option (ast * list op) :=
  match tr with
  | [] => Some (a, [])
  | Inv t o :: tr' => match pm a t with Idle => runl (setp a t (Called o)) tr' | _ => None end
  | Lin t :: tr' =>
      match pm a t with
      | Called o => let '(s', r) := spec (sig a) o in
                    match runl {| sig := s'; pm := upd (pm a) t (Done o r) |} tr' with
                    | Some (a', l) => Some (a', (t, o, r) :: l) | None => None end
      | _ => None
      end
  | Res t r :: tr' => match pm a t with
                      | Done o r' => if R_eq_dec r r' then runl (setp a t Idle) tr' else None
                      | _ => None end
  end.

(* the history proper: Lin moves erased *)
Definition erase (tr : list ev) : list ev := filter (fun e => match e with Lin _ => false | _ => true end) tr.
Definition linearizable (s0 : S) (h : list ev) : Prop :=
  exists tr, erase tr = h /\ runl {| sig := s0; pm := fun _ => Idle |} tr <> None.

(* ---- Herlihy-Wing reading ---- *)
Fixpoint legal (s : S) (l : list op) : Prop :=
  match l with [] => True | (_, o, r) :: l' => let '(s', r') := spec s o in r = r' /\ legal s' l' end.

Lemma runl_legal tr : forall a a' l, runl a tr = Some (a', l) -> legal (sig a) l.
Proof.
  induction tr as [|e tr IH]; intros a a' l H; cbn [runl] in H.
  - inversion H; subst. exact I.
  - destruct e as [t o|t|t r].
    + destruct (pm a t); try discriminate. apply (IH _ _ _ H).
    + destruct (pm a t) as [|o|]; try discriminate. destruct (spec (sig a) o) as [s' r] eqn:Es.
      destruct (runl {| sig := s'; pm := upd (pm a) t (Done o r) |} tr) as [[a1 l1]|] eqn:E; [|discriminate].
      inversion H; subst. cbn [legal]. rewrite Es. split; [reflexivity|]. apply (IH _ _ _ E).
    + destruct (pm a t) as [| |o r']; try discriminate. destruct (R_eq_dec r r'); [|discriminate]. apply (IH _ _ _ H).
Qed.

Lemma runl_app tr1 : forall tr2 a a' l, runl a (tr1 ++ tr2) = Some (a', l) ->
  exists a1 l1 l2, runl a tr1 = Some (a1, l1) /\ runl a1 tr2 = Some (a', l2) /\ l = l1 ++ l2.
Proof.
  induction tr1 as [|e tr1 IH]; intros tr2 a a' l H; cbn [app] in H.
  - exists a, [], l. cbn. auto.
  - cbn [runl] in *. destruct e as [t o|t|t r].
    + destruct (pm a t); try discriminate. apply (IH _ _ _ _ H).
    + destruct (pm a t) as [|o|]; try discriminate. destruct (spec (sig a) o) as [s' r].
      destruct (runl {| sig := s'; pm := upd (pm a) t (Done o r) |} (tr1 ++ tr2)) as [[a2 l2]|] eqn:E; [|discriminate].
      inversion H; subst. destruct (IH _ _ _ _ E) as (a1 & l1 & l3 & E1 & E2 & E3).
      rewrite E1. exists a1, ((t, o, r) :: l1), l3. subst l2. auto.
    + destruct (pm a t) as [| |o r']; try discriminate. destruct (R_eq_dec r r'); [|discriminate]. apply (IH _ _ _ _ H).
Qed.

Lemma runl_app_some tr1 : forall tr2 a a1 a2 l1 l2, runl a tr1 = Some (a1, l1) -> runl a1 tr2 = Some (a2, l2) ->
  runl a (tr1 ++ tr2) = Some (a2, l1 ++ l2).
Proof.
  induction tr1 as [|e tr1 IH]; intros tr2 a a1 a2 l1 l2 H1 H2; cbn [app runl] in *.
  - inversion H1; subst. exact H2.
  - destruct e as [t o|t|t r].
    + destruct (pm a t); try discriminate. apply (IH _ _ _ _ _ _ H1 H2).
    + destruct (pm a t) as [|o|]; try discriminate. destruct (spec (sig a) o) as [s' r].
      destruct (runl {| sig := s'; pm := upd (pm a) t (Done o r) |} tr1) as [[a3 l3]|] eqn:E; [|discriminate].
      inversion H1; subst. rewrite (IH _ _ _ _ _ _ E H2). reflexivity.
    + destruct (pm a t) as [| |o r']; try discriminate. destruct (R_eq_dec r r'); [|discriminate]. apply (IH _ _ _ _ _ _ H1 H2).
Qed.

(* per-thread counts *)
Definition count (t : nat) (l : list op) : nat := length (filter (fun x : op => Nat.eqb (fst (fst x)) t) l).
Fixpoint ninv (t : nat) (tr : list ev) : nat :=
  match tr with [] => 0 | Inv u _ :: r => (if Nat.eqb u t then 1 else 0) + ninv t r | _ :: r => ninv t r end.
Fixpoint nres (t : nat) (tr : list ev) : nat :=
  match tr with [] => 0 | Res u _ :: r => (if Nat.eqb u t then 1 else 0) + nres t r | _ :: r => nres t r end.
Definition wI (p : pend) : nat := match p with Called _ => 1 | _ => 0 end.
Definition wD (p : pend) : nat := match p with Done _ _ => 1 | _ => 0 end.

Lemma upd_same f t x : upd f t x t = x.
Proof. unfold upd. now rewrite Nat.eqb_refl. Qed.
Lemma upd_other f t x u : u <> t -> upd f t x u = f u.
Proof. unfold upd. intros H. destruct (Nat.eqb_spec u t); congruence. Qed.

Lemma runl_counts tr : forall t a a' l, runl a tr = Some (a', l) ->
  ninv t tr + wI (pm a t) = count t l + wI (pm a' t) /\ count t l + wD (pm a t) = nres t tr + wD (pm a' t).
Proof.
  induction tr as [|e tr IH]; intros t a a' l H; cbn [runl] in H.
  - inversion H; subst. cbn. lia.
  - destruct e as [u o|u|u r].
    + destruct (pm a u) eqn:Eu; try discriminate. destruct (IH t _ _ _ H) as [A B]. cbn [ninv nres setp pm] in *.
      destruct (Nat.eqb_spec u t) as [->|Hne]; [rewrite upd_same in A, B; rewrite Eu; cbn [wI wD] in *; lia|rewrite upd_other in A, B by congruence; lia].
    + destruct (pm a u) as [|o|] eqn:Eu; try discriminate. destruct (spec (sig a) o) as [s' r].
      destruct (runl {| sig := s'; pm := upd (pm a) u (Done o r) |} tr) as [[a1 l1]|] eqn:E; [|discriminate].
      inversion H; subst. destruct (IH t _ _ _ E) as [A B]. cbn [ninv nres pm] in *. unfold count in *. cbn [filter fst].
      destruct (Nat.eqb_spec u t) as [->|Hne]; [rewrite upd_same in A, B; rewrite Eu; cbn [wI wD length] in *; lia|rewrite upd_other in A, B by congruence; lia].
    + destruct (pm a u) as [| |o r'] eqn:Eu; try discriminate. destruct (R_eq_dec r r'); [|discriminate].
      destruct (IH t _ _ _ H) as [A B]. cbn [ninv nres setp pm] in *.
      destruct (Nat.eqb_spec u t) as [->|Hne]; [rewrite upd_same in A, B; rewrite Eu; cbn [wI wD] in *; lia|rewrite upd_other in A, B by congruence; lia].
Qed.

(* per-thread agreement between the linearisation and the history *)
Definition tops (t : nat) (l : list op) : list (O * R) :=
  map (fun x : op => (snd (fst x), snd x)) (filter (fun x : op => Nat.eqb (fst (fst x)) t) l).
Fixpoint hcomp (t : nat) (p : option O) (tr : list ev) : list (O * R) :=
  match tr with
  | [] => []
  | Inv u o :: r => if Nat.eqb u t then hcomp t (Some o) r else hcomp t p r
  | Res u x :: r => if Nat.eqb u t then match p with Some o => (o, x) :: hcomp t None r | None => hcomp t None r end else hcomp t p r
  | Lin _ :: r => hcomp t p r
  end.
Definition pre (p : pend) : list (O * R) := match p with Done o r => [(o, r)] | _ => [] end.
Definition pcall (p : pend) : option O := match p with Idle => None | Called o | Done o _ => Some o end.

Lemma runl_thread tr : forall t a a' l, runl a tr = Some (a', l) ->
  pre (pm a t) ++ tops t l = hcomp t (pcall (pm a t)) tr ++ pre (pm a' t).
Proof.
  induction tr as [|e tr IH]; intros t a a' l H; cbn [runl] in H.
  - inversion H; subst. cbn. rewrite app_nil_r. reflexivity.
  - destruct e as [u o|u|u r].
    + destruct (pm a u) eqn:Eu; try discriminate. specialize (IH t _ _ _ H). cbn [hcomp setp pm] in *.
      destruct (Nat.eqb_spec u t) as [->|Hne]; [rewrite upd_same in IH; rewrite Eu; cbn [pre pcall app] in *; exact IH|rewrite upd_other in IH by congruence; exact IH].
    + destruct (pm a u) as [|o|] eqn:Eu; try discriminate. destruct (spec (sig a) o) as [s' r].
      destruct (runl {| sig := s'; pm := upd (pm a) u (Done o r) |} tr) as [[a1 l1]|] eqn:E; [|discriminate].
      inversion H; subst. specialize (IH t _ _ _ E). cbn [hcomp pm] in *. unfold tops in *. cbn [filter fst].
      destruct (Nat.eqb_spec u t) as [->|Hne]; [rewrite upd_same in IH; rewrite Eu; cbn [pre pcall app map fst snd] in *; exact IH|rewrite upd_other in IH by congruence; exact IH].
    + destruct (pm a u) as [| |o r'] eqn:Eu; try discriminate. destruct (R_eq_dec r r') as [->|]; [|discriminate].
      specialize (IH t _ _ _ H). cbn [hcomp setp pm] in *.
      destruct (Nat.eqb_spec u t) as [->|Hne]; [rewrite upd_same in IH; rewrite Eu; cbn [pre pcall app] in *; f_equal; exact IH|rewrite upd_other in IH by congruence; exact IH].
Qed.

(* The Herlihy-Wing reading of acceptance.  L = the operations in linearisation order.
   (1) L is a legal sequential history of the specification.
   (2) For every thread, its operations in L are exactly its completed operations in the history, in order, with the same
       results, followed by at most one operation (a pending call that was linearised).
   (3) Real-time order, in prefix form: for every cut of the trace, the operations linearised before the cut form a prefix
       L1 of L; a thread has at least as many operations in L1 as it has responses before the cut and at most as many as it
       has invocations before the cut.  Hence an operation that responded before the cut is in L1 and one invoked after
       the cut is not: the former precedes the latter in L. *)
Theorem accepted_implies_hw s0 tr a' L : runl {| sig := s0; pm := fun _ => Idle |} tr = Some (a', L) ->
  legal s0 L /\
  (forall t, tops t L = hcomp t None tr ++ pre (pm a' t)) /\
  (forall tr1 tr2, tr = tr1 ++ tr2 -> exists L1 L2, L = L1 ++ L2 /\
     forall t, nres t tr1 <= count t L1 <= ninv t tr1).
Proof.
  intros H. split; [apply (runl_legal tr _ _ _ H)|split].
  - intros t. apply (runl_thread tr t _ _ _ H).
  - intros tr1 tr2 ->. destruct (runl_app tr1 tr2 _ _ _ H) as (a1 & L1 & L2 & E1 & E2 & E3).
    exists L1, L2. split; [exact E3|]. intros t. destruct (runl_counts tr1 t _ _ _ E1) as [A B]. cbn [pm wI wD] in A, B. lia.
Qed.
End LIN.
Print Assumptions accepted_implies_hw.
