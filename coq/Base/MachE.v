(* scratch v2: generic TSO machine, threads as a total map nat -> tstate *)
From Coq Require Import List Arith NArith Bool Lia.
Import ListNotations.

Section MACH.
Variable loc : Type.
Variable loc_eqb : loc -> loc -> bool.
Hypothesis loc_eqb_spec : forall a b, reflect (a = b) (loc_eqb a b).
Definition val := N.

Inductive act :=
| ALoad (l : loc) | AStore (l : loc) (v : val) | AXchg (l : loc) (v : val) | ACas (l : loc) (e n : val)
| AFence | ARelax | ASleep | ACall (op : nat) (arg : val) | ARet (op : nat) (r : val) | ADone.

Record prog := { pst : Type; pact : pst -> act; pnext : pst -> val -> pst }.
Variable P : prog.

Definition mem := loc -> val.
Definition upd (m : mem) (l : loc) (v : val) : mem := fun l' => if loc_eqb l l' then v else m l'.
Definition sbuf := list (loc * val).
Record tstate := { tpc : pst P; tbuf : sbuf }.
Definition tupd (f : nat -> tstate) (t : nat) (x : tstate) : nat -> tstate := fun u => if Nat.eqb u t then x else f u.
Record state := { smem : mem; sthr : nat -> tstate }.

Inductive choice := Step (t : nat) | Flush (t : nat).
Inductive event := Ev (t : nat) (a : act) (r : val) | EvFlush (t : nat) (l : loc) (v : val).

Fixpoint buf_lookup (b : sbuf) (l : loc) : option val :=
  match b with
  | [] => None
  | (l', v) :: b' => match buf_lookup b' l with Some v' => Some v' | None => if loc_eqb l' l then Some v else None end
  end.
Fixpoint drain (m : mem) (b : sbuf) : mem :=
  match b with [] => m | (l, v) :: b' => drain (upd m l v) b' end.

Definition tstep (m : mem) (ts : tstate) : option (mem * tstate * val) :=
  let pc := tpc ts in
  match pact P pc with
  | ALoad l => let v := match buf_lookup (tbuf ts) l with Some v => v | None => m l end in
               Some (m, {| tpc := pnext P pc v; tbuf := tbuf ts |}, v)
  | AStore l v => Some (m, {| tpc := pnext P pc 0%N; tbuf := tbuf ts ++ [(l, v)] |}, 0%N)
  | AXchg l v => match tbuf ts with [] => Some (upd m l v, {| tpc := pnext P pc (m l); tbuf := [] |}, m l) | _ => None end
  | ACas l e n => match tbuf ts with [] => let old := m l in
                  Some ((if N.eqb old e then upd m l n else m), {| tpc := pnext P pc old; tbuf := [] |}, old) | _ => None end
  | AFence => match tbuf ts with [] => Some (m, {| tpc := pnext P pc 0%N; tbuf := [] |}, 0%N) | _ => None end
  | ARelax | ASleep | ACall _ _ | ARet _ _ => Some (m, {| tpc := pnext P pc 0%N; tbuf := tbuf ts |}, 0%N)
  | ADone => None
  end.

Definition exec (c : choice) (s : state) : state * option event :=
  match c with
  | Step t =>
      let ts := sthr s t in
      match tstep (smem s) ts with
      | None => (s, None)
      | Some (m', ts', r) => ({| smem := m'; sthr := tupd (sthr s) t ts' |}, Some (Ev t (pact P (tpc ts)) r))
      end
  | Flush t =>
      let ts := sthr s t in
      match tbuf ts with
      | [] => (s, None)
      | (l, v) :: b' => ({| smem := upd (smem s) l v; sthr := tupd (sthr s) t {| tpc := tpc ts; tbuf := b' |} |}, Some (EvFlush t l v))
      end
  end.

Lemma upd_same m l v : upd m l v l = v.
Proof. unfold upd. destruct (loc_eqb_spec l l); congruence. Qed.
Lemma upd_other m l v l' : l <> l' -> upd m l v l' = m l'.
Proof. unfold upd. destruct (loc_eqb_spec l l'); congruence. Qed.
Lemma tupd_same f t x : tupd f t x t = x.
Proof. unfold tupd. now rewrite Nat.eqb_refl. Qed.
Lemma tupd_other f t x u : u <> t -> tupd f t x u = f u.
Proof. unfold tupd. intros H. destruct (Nat.eqb_spec u t); congruence. Qed.
Fixpoint run (cs : list choice) (s : state) : state * list event :=
  match cs with
  | [] => (s, [])
  | c :: cs' => let '(s1, e) := exec c s in let '(s2, es) := run cs' s1 in
                (s2, match e with Some x => x :: es | None => es end)
  end.
End MACH.
