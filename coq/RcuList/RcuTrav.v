(* RCU list traversal, memory level.  Ghost state: the committed list L (the path from the head in committed memory), an immutable
   rational key per published node (list order = key order; removed nodes keep their key), and the set of nodes ever published.
   Every store the updater makes visible is one of five shapes (initialise a fresh node, publish at the head, publish at the tail,
   unlink, replace).  Invariant: every pointer of every published node - live or removed - leads forward in key order.  *)
From Coq Require Import List Arith NArith Bool Lia QArith Lqa Sorting.Sorted.
Import ListNotations.
Require Import Urcu.RcuList.RcuList Urcu.RcuList.RcuTravL.
Local Open Scope N_scope.

Definition keyf := N -> Q.
Definition kupd (k : keyf) (n : N) (q : Q) : keyf := fun x => if x =? n then q else k x.
Definition klt (k : keyf) (a b : N) : Prop := (k a < k b)%Q.
Definition sorted (k : keyf) (L : list N) : Prop := StronglySorted (klt k) L.
Record gst := { gm : mem; gL : list N; gkey : keyf; gever : list N }.
Record WF (g : gst) : Prop := {
  W_sorted : sorted (gkey g) (gL g);
  W_sub : forall x, In x (gL g) -> In x (gever g);
  W_nohead : ~ In HEAD (gever g);
  W_chain : chain (gm g) HEAD (gL g);
  W_fwd : forall x, In x (gever g) -> gm g x = HEAD \/ (In (gm g x) (gever g) /\ klt (gkey g) x (gm g x))
}.

Inductive mstep (g : gst) : N -> N -> gst -> Prop :=
| M_init n v : ~ In n (gever g) -> n <> HEAD ->
    mstep g n v {| gm := upd (gm g) n v; gL := gL g; gkey := gkey g; gever := gever g |}
| M_addh n k : ~ In n (gever g) -> n <> HEAD -> gm g n = first (gL g) -> (forall x, In x (gL g) -> (k < gkey g x)%Q) ->
    mstep g HEAD n {| gm := upd (gm g) HEAD n; gL := n :: gL g; gkey := kupd (gkey g) n k; gever := n :: gever g |}
| M_addt n k : ~ In n (gever g) -> n <> HEAD -> gm g n = HEAD -> (forall x, In x (gL g) -> (gkey g x < k)%Q) ->
    mstep g (lastn (gL g)) n {| gm := upd (gm g) (lastn (gL g)) n; gL := gL g ++ [n]; gkey := kupd (gkey g) n k; gever := n :: gever g |}
| M_del x : In x (gL g) ->
    mstep g (pred_of HEAD (gL g) x) (succ_of (gL g) x)
          {| gm := upd (gm g) (pred_of HEAD (gL g) x) (succ_of (gL g) x); gL := remove1 (gL g) x; gkey := gkey g; gever := gever g |}
| M_repl o n : In o (gL g) -> ~ In n (gever g) -> n <> HEAD -> gm g n = succ_of (gL g) o ->
    mstep g (pred_of HEAD (gL g) o) n
          {| gm := upd (gm g) (pred_of HEAD (gL g) o) n; gL := replace1 (gL g) o n; gkey := kupd (gkey g) n (gkey g o); gever := n :: gever g |}.

(* ---- sortedness ---- *)
Lemma kupd_same k n q : kupd k n q n = q.  Proof. unfold kupd. rewrite N.eqb_refl. reflexivity. Qed.
Lemma kupd_other k n q x : x <> n -> kupd k n q x = k x.  Proof. unfold kupd. intros H. destruct (N.eqb_spec x n); [contradiction|reflexivity]. Qed.

Lemma sorted_NoDup k L : sorted k L -> NoDup L.
Proof.
  intros H. induction H as [|x L H IH Hf]; constructor; [|exact IH].
  intros Hin. rewrite Forall_forall in Hf. specialize (Hf x Hin). unfold klt in Hf. lra.
Qed.
Lemma sorted_ext k k' L : (forall x, In x L -> k' x = k x) -> sorted k L -> sorted k' L.
Proof.
  intros He H. induction H as [|x L H IH Hf]; constructor.
  - apply IH. intros y Hy. apply He. right. exact Hy.
  - rewrite Forall_forall in *. intros y Hy. unfold klt. rewrite (He x (or_introl eq_refl)), (He y (or_intror Hy)). apply Hf. exact Hy.
Qed.
Lemma sorted_kupd k L n q : ~ In n L -> sorted k L -> sorted (kupd k n q) L.
Proof. intros Hn. apply sorted_ext. intros x Hx. apply kupd_other. intros ->. contradiction. Qed.
Lemma sorted_remove1 k x : forall L, sorted k L -> sorted k (remove1 L x).
Proof.
  induction L as [|y L IH]; intros H; [exact H|]. inversion H as [|? ? H1 H2]; subst. cbn [remove1]. destruct (y =? x); [exact H1|].
  constructor; [apply IH; exact H1|]. rewrite Forall_forall in *. intros z Hz. apply H2. apply (remove1_in _ _ _ Hz).
Qed.
Lemma sorted_app_last k L n : sorted k L -> (forall x, In x L -> klt k x n) -> sorted k (L ++ [n]).
Proof.
  intros H Hn. induction H as [|x L H IH Hf]; cbn [app]; [constructor; constructor|].
  constructor; [apply IH; intros y Hy; apply Hn; right; exact Hy|].
  rewrite Forall_forall in *. intros y Hy. apply in_app_or in Hy. destruct Hy as [Hy|[<-|[]]]; [apply Hf; exact Hy|apply Hn; left; reflexivity].
Qed.
(* the replacing node takes the key of the replaced one *)
Lemma sorted_replace1 k o n : forall L, ~ In n L -> sorted k L -> sorted (kupd k n (k o)) (replace1 L o n).
Proof.
  induction L as [|y L IH]; intros Hn H; [constructor|]. inversion H as [|? ? H1 H2]; subst. cbn [replace1].
  assert (HnL : ~ In n L) by (intros Hin; apply Hn; right; exact Hin).
  assert (Hny : y <> n) by (intros ->; apply Hn; left; reflexivity).
  destruct (N.eqb_spec y o) as [E|E].
  - subst y. constructor; [apply sorted_kupd; assumption|]. rewrite Forall_forall in *. intros z Hz. unfold klt. rewrite kupd_same, kupd_other by (intros ->; contradiction). apply H2. exact Hz.
  - constructor; [apply IH; assumption|]. rewrite Forall_forall in *. intros z Hz. unfold klt. rewrite (kupd_other _ _ _ y Hny).
    destruct (replace1_in _ _ _ _ Hz) as [->|Hz'].
    + rewrite kupd_same. (* o is in L, behind y *)
      assert (Ho : In o L).
      { clear -Hz HnL. induction L as [|w L IH]; [destruct Hz|]. cbn [replace1] in Hz. destruct (N.eqb_spec w o) as [->|E]; [left; reflexivity|].
        destruct Hz as [Hz|Hz]; [exfalso; apply HnL; left; exact Hz|right; apply IH; [intros Hin; apply HnL; right; exact Hin|exact Hz]]. }
      apply H2. exact Ho.
    + rewrite kupd_other by (intros ->; contradiction). apply H2. exact Hz'.
Qed.

(* keys of the predecessor, the node and the successor in a sorted list *)
Lemma sorted_pred_succ k x : forall L p, sorted k L -> (forall y, In y L -> p = HEAD \/ klt k p y) -> In x L ->
  (pred_of p L x = HEAD \/ klt k (pred_of p L x) x) /\ (succ_of L x = HEAD \/ (In (succ_of L x) L /\ klt k x (succ_of L x))).
Proof.
  induction L as [|y L IH]; intros p H Hp Hx; [destruct Hx|]. inversion H as [|? ? H1 H2]; subst. rewrite Forall_forall in H2. cbn [pred_of succ_of].
  destruct (N.eqb_spec y x) as [E|E].
  - rewrite <- E in *. split; [apply Hp; left; reflexivity|]. destruct L as [|z L]; [left; reflexivity|]. right. cbn [first]. split; [right; left; reflexivity|apply H2; left; reflexivity].
  - destruct Hx as [Hx|Hx]; [contradiction|]. destruct (IH y H1 (fun z Hz => or_intror (H2 z Hz)) Hx) as [A B]. split; [exact A|].
    destruct B as [B|[B1 B2]]; [left; exact B|right; split; [right; exact B1|exact B2]].
Qed.

(* ---- the invariant is preserved by every store shape ---- *)
Lemma fwd_mono (m m' : mem) (ev ev' : list N) (k k' : keyf) x : (forall y, In y ev -> In y ev') ->
  (forall y, In y ev -> k' y = k y) -> In x ev -> m' x = m x -> (m x = HEAD \/ (In (m x) ev /\ klt k x (m x))) ->
  m' x = HEAD \/ (In (m' x) ev' /\ klt k' x (m' x)).
Proof.
  intros Hs Hk Hx Em [H|[H1 H2]]; rewrite Em; [left; exact H|right]. split; [apply Hs; exact H1|]. unfold klt in *. rewrite (Hk x Hx), (Hk _ H1). exact H2.
Qed.

Lemma WF_mstep g a v g' : WF g -> mstep g a v g' -> WF g'.
Proof.
  intros HW Hs. pose proof (sorted_NoDup _ _ (W_sorted g HW)) as Hnd.
  assert (HhL : ~ In HEAD (gL g)) by (intros H; apply (W_nohead g HW); apply (W_sub g HW); exact H).
  assert (HndH : NoDup (HEAD :: gL g)) by (constructor; assumption).
  destruct Hs as [n v Hn Hh|n k Hn Hh Hf Hk|n k Hn Hh Hz Hk|x Hx|o n Ho Hn Hh Hsn].
  - (* initialisation of a fresh node *)
    assert (HnL : ~ In n (gL g)) by (intros H; apply Hn; apply (W_sub g HW); exact H).
    constructor; cbn [gm gL gkey gever]; try apply HW.
    + apply chain_frame; [intros [E|E]; [congruence|contradiction]|apply (W_chain g HW)].
    + intros x Hx. rewrite upd_other by (intros ->; contradiction). apply (W_fwd g HW x Hx).
  - (* publication at the head *)
    assert (HnL : ~ In n (gL g)) by (intros H; apply Hn; apply (W_sub g HW); exact H).
    constructor; cbn [gm gL gkey gever].
    + constructor; [apply sorted_kupd; [exact HnL|apply (W_sorted g HW)]|]. rewrite Forall_forall. intros y Hy. unfold klt.
      rewrite kupd_same, kupd_other by (intros ->; contradiction). apply Hk. exact Hy.
    + intros x [<-|Hx]; [left; reflexivity|right; apply (W_sub g HW); exact Hx].
    + intros [E|E]; [congruence|apply (W_nohead g HW); exact E].
    + apply chain_addh; try assumption. apply (W_chain g HW).
    + intros x [<-|Hx].
      * rewrite upd_other by exact Hh. rewrite Hf. destruct (gL g) as [|y L] eqn:EL; [left; reflexivity|]. right. cbn [first].
        split; [right; apply (W_sub g HW); rewrite EL; left; reflexivity|]. unfold klt. rewrite kupd_same, kupd_other; [apply Hk; left; reflexivity|].
        intros ->. apply HnL. try rewrite EL. left. reflexivity.
      * assert (x <> HEAD) by (intros ->; apply (W_nohead g HW); exact Hx).
        apply (fwd_mono (gm g) _ (gever g) _ (gkey g)); try assumption; [intros y Hy; right; exact Hy|intros y Hy; apply kupd_other; intros ->; contradiction|apply upd_other; assumption|apply (W_fwd g HW x Hx)].
  - (* publication at the tail *)
    assert (HnL : ~ In n (gL g)) by (intros H; apply Hn; apply (W_sub g HW); exact H).
    rewrite lastn_last.
    constructor; cbn [gm gL gkey gever].
    + apply sorted_app_last; [apply sorted_kupd; [exact HnL|apply (W_sorted g HW)]|]. intros y Hy. unfold klt.
      rewrite kupd_same, kupd_other by (intros ->; contradiction). apply Hk. exact Hy.
    + intros x Hx. apply in_app_or in Hx. destruct Hx as [Hx|[<-|[]]]; [right; apply (W_sub g HW); exact Hx|left; reflexivity].
    + intros [E|E]; [congruence|apply (W_nohead g HW); exact E].
    + apply chain_addt; try assumption; [apply (W_chain g HW)|intros [E|E]; [congruence|contradiction]].
    + intros x [<-|Hx].
      * rewrite upd_other; [left; exact Hz|]. intros E. destruct (last_in_or (gL g) HEAD) as [E'|E']; [congruence|]. apply HnL. rewrite E. exact E'.
      * destruct (N.eq_dec x (last (gL g) HEAD)) as [Ex|Ex].
        -- rewrite Ex, upd_same. right. split; [left; reflexivity|]. unfold klt. rewrite kupd_same, kupd_other.
           ++ apply Hk. destruct (last_in_or (gL g) HEAD) as [E'|E']; [|exact E']. exfalso. apply (W_nohead g HW). rewrite <- E', <- Ex. exact Hx.
           ++ intros E. apply Hn. rewrite <- E, <- Ex. exact Hx.
        -- apply (fwd_mono (gm g) _ (gever g) _ (gkey g)); try assumption; [intros y Hy; right; exact Hy|intros y Hy; apply kupd_other; intros ->; contradiction|apply upd_other; assumption|apply (W_fwd g HW x Hx)].
  - (* unlink *)
    destruct (chain_pred_succ _ _ _ _ (W_chain g HW) Hx) as [Hp Hsx].
    destruct (sorted_pred_succ (gkey g) x (gL g) HEAD (W_sorted g HW) (fun y _ => or_introl eq_refl) Hx) as [Kp Ks].
    constructor; cbn [gm gL gkey gever].
    + apply sorted_remove1. apply (W_sorted g HW).
    + intros y Hy. apply (W_sub g HW). apply (remove1_in _ _ _ Hy).
    + apply (W_nohead g HW).
    + apply chain_del; try assumption. apply (W_chain g HW).
    + intros y Hy. destruct (N.eq_dec y (pred_of HEAD (gL g) x)) as [Ey|Ey].
      * rewrite Ey, upd_same. destruct Ks as [Ks|[Ks1 Ks2]]; [left; exact Ks|right]. split; [apply (W_sub g HW); exact Ks1|].
        destruct Kp as [Kp|Kp]; [exfalso; apply (W_nohead g HW); rewrite <- Kp, <- Ey; exact Hy|]. unfold klt in *. lra.
      * rewrite upd_other by exact Ey. apply (W_fwd g HW y Hy).
  - (* replace *)
    assert (HnL : ~ In n (gL g)) by (intros H; apply Hn; apply (W_sub g HW); exact H).
    destruct (chain_pred_succ _ _ _ _ (W_chain g HW) Ho) as [Hp Hso].
    destruct (sorted_pred_succ (gkey g) o (gL g) HEAD (W_sorted g HW) (fun y _ => or_introl eq_refl) Ho) as [Kp Ks].
    assert (Hpn : pred_of HEAD (gL g) o <> n).
    { intros E. destruct (pred_of_in' (gL g) HEAD o Ho) as [E'|E']; [congruence|]. apply HnL. rewrite <- E. exact E'. }
    constructor; cbn [gm gL gkey gever].
    + apply sorted_replace1; [exact HnL|apply (W_sorted g HW)].
    + intros y Hy. destruct (replace1_in _ _ _ _ Hy) as [->|Hy']; [left; reflexivity|right; apply (W_sub g HW); exact Hy'].
    + intros [E|E]; [congruence|apply (W_nohead g HW); exact E].
    + apply chain_repl; try assumption; [apply (W_chain g HW)|intros [E|E]; [congruence|contradiction]].
    + intros y [<-|Hy].
      * rewrite upd_other by (intros E; apply Hpn; symmetry; exact E). rewrite Hsn. destruct Ks as [Ks|[Ks1 Ks2]]; [left; exact Ks|right].
        split; [right; apply (W_sub g HW); exact Ks1|]. unfold klt in *. rewrite kupd_same, kupd_other; [exact Ks2|]. intros E. apply HnL. rewrite <- E. exact Ks1.
      * destruct (N.eq_dec y (pred_of HEAD (gL g) o)) as [Ey|Ey].
        -- rewrite Ey, upd_same. right. split; [left; reflexivity|]. unfold klt. rewrite kupd_same, kupd_other by exact Hpn.
           destruct Kp as [Kp|Kp]; [exfalso; apply (W_nohead g HW); rewrite <- Kp, <- Ey; exact Hy|exact Kp].
        -- apply (fwd_mono (gm g) _ (gever g) _ (gkey g)); try assumption; [intros z Hz; right; exact Hz|intros z Hz; apply kupd_other; intros ->; contradiction|apply upd_other; assumption|apply (W_fwd g HW y Hy)].
Qed.

(* ---- what lies ahead of a cursor ---- *)
Inductive ahead (mm : mem) : N -> N -> Prop :=
| ah_one c x : mm c = x -> x <> HEAD -> ahead mm c x
| ah_step c y x : mm c = y -> y <> HEAD -> ahead mm y x -> ahead mm c x.

Lemma ahead_inv mm c x : ahead mm c x -> (mm c = x /\ x <> HEAD) \/ (mm c <> HEAD /\ ahead mm (mm c) x).
Proof. intros H. inversion H as [c0 x0 E Hx|c0 y x0 E Hy Ha]; subst; [left; split; [reflexivity|exact Hx]|right; split; assumption]. Qed.
Lemma ahead_same_succ mm a b x : mm a = mm b -> ahead mm a x -> ahead mm b x.
Proof. intros E H. destruct (ahead_inv _ _ _ H) as [[A B]|[A B]]; [apply ah_one; [congruence|exact B]|apply (ah_step mm b (mm a)); [congruence|exact A|exact B]]. Qed.
Lemma ahead_nohead mm c : mm c = HEAD -> forall x, ~ ahead mm c x.
Proof. intros E x H. destruct (ahead_inv _ _ _ H) as [[A B]|[A _]]; congruence. Qed.

Definition onlist (g : gst) (y : N) : Prop := y = HEAD \/ In y (gever g).
Lemma closed g : WF g -> forall y, onlist g y -> gm g y = HEAD \/ In (gm g y) (gever g).
Proof.
  intros HW y [->|Hy].
  - rewrite (chain_first _ _ _ (W_chain g HW)). destruct (first_in (gL g)) as [H|H]; [left; exact H|right; apply (W_sub g HW); exact H].
  - destruct (W_fwd g HW y Hy) as [H|[H _]]; [left; exact H|right; exact H].
Qed.
Lemma ahead_key g : WF g -> forall c x, ahead (gm g) c x -> onlist g c -> In x (gever g) /\ (In c (gever g) -> klt (gkey g) c x).
Proof.
  intros HW c x H. induction H as [c x E Hx|c y x E Hy Ha IH]; intros Hc.
  - destruct (closed g HW c Hc) as [H|H]; [congruence|]. rewrite E in H. split; [exact H|]. intros Hc'.
    destruct (W_fwd g HW c Hc') as [H'|[_ H']]; [congruence|rewrite E in H'; exact H'].
  - destruct (closed g HW c Hc) as [H|H]; [congruence|]. rewrite E in H. destruct (IH (or_intror H)) as [A B]. split; [exact A|]. intros Hc'.
    destruct (W_fwd g HW c Hc') as [H'|[_ H']]; [congruence|]. rewrite E in H'. specialize (B H). unfold klt in *. lra.
Qed.

(* two memories that agree on the published nodes have the same paths *)
Lemma ahead_agree g (m2 : mem) : WF g -> (forall y, onlist g y -> m2 y = gm g y) ->
  forall c x, onlist g c -> (ahead (gm g) c x <-> ahead m2 c x).
Proof.
  intros HW He c x Hc. split; intros H.
  - revert Hc. induction H as [c x E Hx|c y x E Hy Ha IH]; intros Hc.
    + apply ah_one; [rewrite (He c Hc); exact E|exact Hx].
    + apply (ah_step m2 c y); [rewrite (He c Hc); exact E|exact Hy|]. apply IH. destruct (closed g HW c Hc) as [H|H]; [congruence|right; rewrite <- E; exact H].
  - revert Hc. induction H as [c x E Hx|c y x E Hy Ha IH]; intros Hc.
    + apply ah_one; [rewrite <- (He c Hc); exact E|exact Hx].
    + apply (ah_step (gm g) c y); [rewrite <- (He c Hc); exact E|exact Hy|]. apply IH. rewrite (He c Hc) in E. destruct (closed g HW c Hc) as [H|H]; [congruence|right; rewrite <- E; exact H].
Qed.

(* a store at p does not change the paths that avoid p *)
Lemma ahead_frame mm p v c x : c <> p -> (forall z, ahead mm c z -> z <> p) -> ahead mm c x -> ahead (upd mm p v) c x.
Proof.
  intros Hc Hz H. induction H as [c x E Hx|c y x E Hy Ha IH].
  - apply ah_one; [rewrite upd_other by exact Hc; exact E|exact Hx].
  - apply (ah_step _ c y); [rewrite upd_other by exact Hc; exact E|exact Hy|]. apply IH.
    + apply (Hz y). apply ah_one; assumption.
    + intros z Hz'. apply Hz. apply (ah_step mm c y); assumption.
Qed.

(* forward: what was ahead of c (except the skipped node) is still ahead after the store, provided that holds for p itself *)
Lemma ahead_upd_F mm p v skip : (forall x, ahead mm p x -> x <> skip -> v = x \/ (v <> HEAD /\ ahead (upd mm p v) v x)) ->
  forall c x, ahead mm c x -> x <> skip -> ahead (upd mm p v) c x.
Proof.
  intros Hp c x H Hs.
  assert (Hpp : ahead mm p x -> ahead (upd mm p v) p x).
  { intros Ha. destruct (Hp x Ha Hs) as [E|[E1 E2]].
    - apply ah_one; [rewrite upd_same; exact E|]. destruct (ahead_inv _ _ _ Ha) as [[_ B]|[_ B]]; [exact B|]. clear -B. induction B; assumption.
    - apply (ah_step _ p v); [apply upd_same|exact E1|exact E2]. }
  induction H as [c x E Hx|c y x E Hy Ha IH].
  - destruct (N.eq_dec c p) as [->|Hc]; [apply Hpp; apply ah_one; assumption|]. apply ah_one; [rewrite upd_other by exact Hc; exact E|exact Hx].
  - destruct (N.eq_dec c p) as [->|Hc]; [apply Hpp; apply (ah_step mm p y); assumption|].
    apply (ah_step _ c y); [rewrite upd_other by exact Hc; exact E|exact Hy|apply IH; assumption].
Qed.

(* backward: what is ahead of c after the store is new or was ahead before *)
Lemma ahead_upd_B mm p v (New : N -> Prop) : (v = HEAD \/ New v \/ ahead mm p v) -> (v <> HEAD -> forall x, ahead mm v x -> ahead mm p x) ->
  forall c x, ahead (upd mm p v) c x -> New x \/ ahead mm c x.
Proof.
  intros Hv Hb c x H. induction H as [c x E Hx|c y x E Hy Ha IH].
  - destruct (N.eq_dec c p) as [->|Hc].
    + rewrite upd_same in E. subst x. destruct Hv as [Hv|[Hv|Hv]]; [congruence|left; exact Hv|right; exact Hv].
    + rewrite upd_other in E by exact Hc. right. apply ah_one; assumption.
  - destruct IH as [IH|IH]; [left; exact IH|]. destruct (N.eq_dec c p) as [->|Hc].
    + rewrite upd_same in E. subst y. right. apply Hb; [exact Hy|exact IH].
    + rewrite upd_other in E by exact Hc. right. apply (ah_step mm c y); assumption.
Qed.

Lemma ahead_ne mm c x : ahead mm c x -> x <> HEAD.
Proof. intros H. induction H; assumption. Qed.
Lemma ahead_irrefl g : WF g -> forall p z, In p (gever g) -> ahead (gm g) p z -> z <> p.
Proof. intros HW p z Hp H E. subst z. destruct (ahead_key g HW p p H (or_intror Hp)) as [_ B]. specialize (B Hp). unfold klt in B. lra. Qed.
Lemma ahead_not_p g : WF g -> forall p z, onlist g p -> ahead (gm g) p z -> z <> p.
Proof. intros HW p z [->|Hp] H; [apply (ahead_ne _ _ _ H)|apply (ahead_irrefl g HW p z Hp H)]. Qed.
Lemma chain_last mm : forall L p, chain mm p L -> mm (last L p) = HEAD.
Proof. induction L as [|x L IH]; intros p H; [exact H|]. rewrite last_cons_default. apply IH. apply H. Qed.
Lemma remove1_notin : forall L x, NoDup L -> ~ In x (remove1 L x).
Proof.
  induction L as [|y L IH]; intros x Hnd; [intros []|]. apply NoDup_cons_iff in Hnd. destruct Hnd as [Hy Hnd]. cbn [remove1].
  destruct (N.eqb_spec y x) as [E|E]; [rewrite <- E; exact Hy|]. intros [H|H]; [contradiction|apply (IH x Hnd H)].
Qed.
Lemma replace1_notin : forall L o n, NoDup L -> o <> n -> ~ In o (replace1 L o n).
Proof.
  induction L as [|y L IH]; intros o n Hnd Hne; [intros []|]. apply NoDup_cons_iff in Hnd. destruct Hnd as [Hy Hnd]. cbn [replace1].
  destruct (N.eqb_spec y o) as [E|E]; [rewrite <- E in *; intros [H|H]; [congruence|contradiction]|]. intros [H|H]; [contradiction|apply (IH o n Hnd Hne H)].
Qed.
Lemma pred_onlist g x : WF g -> In x (gL g) -> onlist g (pred_of HEAD (gL g) x).
Proof. intros HW Hx. destruct (pred_of_in' (gL g) HEAD x Hx) as [H|H]; [left; exact H|right; apply (W_sub g HW); exact H]. Qed.

(* the two directions, for every store shape *)
Lemma mstep_ahead g a v g' : WF g -> mstep g a v g' -> forall c x, onlist g c ->
  (ahead (gm g) c x -> In x (gL g') -> ahead (gm g') c x) /\ (ahead (gm g') c x -> In x (gL g') \/ ahead (gm g) c x).
Proof.
  intros HW Hs c x Hc. pose proof (sorted_NoDup _ _ (W_sorted g HW)) as Hnd.
  destruct Hs as [n v Hn Hh|n k Hn Hh Hf Hk|n k Hn Hh Hz Hk|y Hy|o n Ho Hn Hh Hsn]; cbn [gm gL].
  - (* fresh node: nothing on any path changes *)
    assert (He : forall y, onlist g y -> upd (gm g) n v y = gm g y) by (intros y [->|Hy]; apply upd_other; [congruence|intros ->; contradiction]).
    pose proof (ahead_agree g _ HW He c x Hc) as [A B]. split; [intros H _; apply A; exact H|intros H; right; apply B; exact H].
  - (* head *)
    assert (Es : gm g n = gm g HEAD) by (rewrite Hf; symmetry; apply (chain_first _ _ _ (W_chain g HW))).
    split.
    + intros H _. apply (ahead_upd_F (gm g) HEAD n HEAD); [|exact H|apply (ahead_ne _ _ _ H)].
      intros x' Hx' _. right. split; [exact Hh|]. apply ahead_frame; [exact Hh|intros z Hz'; apply (ahead_ne _ _ _ Hz')|]. apply (ahead_same_succ _ HEAD n); [symmetry; exact Es|exact Hx'].
    + intros H. destruct (ahead_upd_B (gm g) HEAD n (fun z => z = n) (or_intror (or_introl eq_refl))
                            (fun _ z Hz' => ahead_same_succ _ n HEAD z Es Hz') c x H) as [->|H']; [left; left; reflexivity|right; exact H'].
  - (* tail *)
    rewrite lastn_last. pose proof (chain_last _ _ _ (W_chain g HW)) as El. split.
    + intros H _. apply (ahead_upd_F (gm g) _ n HEAD); [|exact H|apply (ahead_ne _ _ _ H)].
      intros x' Hx'. destruct (ahead_nohead _ _ El x' Hx').
    + intros H. destruct (ahead_upd_B (gm g) _ n (fun z => z = n) (or_intror (or_introl eq_refl))
                            (fun _ z Hz' => False_ind _ (ahead_nohead _ _ Hz z Hz')) c x H) as [->|H']; [left; apply in_or_app; right; left; reflexivity|right; exact H'].
  - (* unlink of y *)
    destruct (chain_pred_succ _ _ _ _ (W_chain g HW) Hy) as [Hp Hsy]. set (p := pred_of HEAD (gL g) y) in *.
    pose proof (pred_onlist g y HW Hy) as Hpo. fold p in Hpo.
    assert (Hyh : y <> HEAD) by (intros ->; apply (W_nohead g HW); apply (W_sub g HW); exact Hy).
    rewrite <- Hsy. split.
    + intros H Hx. assert (Hxy : x <> y) by (intros ->; apply (remove1_notin _ _ Hnd Hx)).
      apply (ahead_upd_F (gm g) p (gm g y) y); [|exact H|exact Hxy].
      intros x' Hx' Hne. destruct (ahead_inv _ _ _ Hx') as [[A _]|[_ A]]; [congruence|]. rewrite Hp in A.
      destruct (ahead_inv _ _ _ A) as [[B _]|[B1 B2]]; [left; exact B|right]. split; [exact B1|].
      assert (Hpw : forall z, ahead (gm g) (gm g y) z -> ahead (gm g) p z).
      { intros z Hz'. apply (ah_step _ p y); [exact Hp|exact Hyh|]. apply (ah_step _ y (gm g y)); [reflexivity|exact B1|exact Hz']. }
      apply ahead_frame; [|intros z Hz'; apply (ahead_not_p g HW p z Hpo (Hpw z Hz'))|exact B2].
      apply (ahead_not_p g HW p _ Hpo). apply (ah_step _ p y); [exact Hp|exact Hyh|apply ah_one; [reflexivity|exact B1]].
    + intros H. assert (Hpy : forall z, ahead (gm g) y z -> ahead (gm g) p z) by (intros z Hz'; apply (ah_step _ p y); assumption).
      destruct (ahead_upd_B (gm g) p (gm g y) (fun _ => False)) with (c := c) (x := x) as [[]|H']; [| |exact H|right; exact H'].
      * destruct (N.eq_dec (gm g y) HEAD) as [E|E]; [left; exact E|right; right]. apply Hpy. apply ah_one; [reflexivity|exact E].
      * intros Hv z Hz'. apply Hpy. apply (ah_step _ y (gm g y)); [reflexivity|exact Hv|exact Hz'].
  - (* replace o by n *)
    destruct (chain_pred_succ _ _ _ _ (W_chain g HW) Ho) as [Hp Hso]. set (p := pred_of HEAD (gL g) o) in *.
    pose proof (pred_onlist g o HW Ho) as Hpo. fold p in Hpo.
    assert (Hoh : o <> HEAD) by (intros ->; apply (W_nohead g HW); apply (W_sub g HW); exact Ho).
    assert (Es : gm g n = gm g o) by congruence.
    assert (Hon : o <> n) by (intros ->; apply Hn; apply (W_sub g HW); exact Ho).
    assert (Hnp : n <> p) by (intros E; destruct Hpo as [E'|E']; [congruence|apply Hn; rewrite E; exact E']).
    assert (Hpo' : forall z, ahead (gm g) n z -> ahead (gm g) p z).
    { intros z Hz'. apply (ah_step _ p o); [exact Hp|exact Hoh|]. apply (ahead_same_succ _ n o); [exact Es|exact Hz']. }
    split.
    + intros H Hx. assert (Hxo : x <> o) by (intros ->; apply (replace1_notin _ _ _ Hnd Hon Hx)).
      apply (ahead_upd_F (gm g) p n o); [|exact H|exact Hxo].
      intros x' Hx' Hne. right. split; [exact Hh|]. destruct (ahead_inv _ _ _ Hx') as [[A _]|[_ A]]; [congruence|]. rewrite Hp in A.
      assert (An : ahead (gm g) n x') by (apply (ahead_same_succ _ o n); [symmetry; exact Es|exact A]).
      apply ahead_frame; [exact Hnp|intros z Hz'; apply (ahead_not_p g HW p z Hpo (Hpo' z Hz'))|exact An].
    + intros H. destruct (ahead_upd_B (gm g) p n (fun z => z = n) (or_intror (or_introl eq_refl)) (fun _ z Hz' => Hpo' z Hz') c x H) as [->|H'];
        [left; apply replace1_new; exact Ho|right; exact H'].
Qed.

(* ---- one reader: cursor, visited nodes (in order), nodes resident since the start, nodes in the list at some moment since the start ---- *)
Record rst := { rc : N; rV : list N; rR : list N; rW : list N; rL0 : list N; rE0 : list N }.
Record RInv (g : gst) (r : rst) : Prop := {
  R_cur : onlist g (rc r);
  R_V0 : rc r = HEAD -> rV r = [];
  R_Vc : rc r <> HEAD -> In (rc r) (rV r);
  R_Vs : sorted (gkey g) (rV r);
  R_Vle : forall x, In x (rV r) -> x = rc r \/ klt (gkey g) x (rc r);
  R_Vev : forall x, In x (rV r) -> In x (gever g);
  R_VW : forall x, In x (rV r) -> In x (rW r);
  R_aW : forall x, ahead (gm g) (rc r) x -> In x (rW r);
  R_res : forall x, In x (rR r) -> In x (rV r) \/ ahead (gm g) (rc r) x;
  R_RL : forall x, In x (rR r) -> In x (gL g);
  R_LW : forall x, In x (gL g) -> In x (rW r);
  R_E0 : forall x, In x (rE0 r) -> In x (gever g);
  R_W0 : forall x, In x (rW r) -> In x (rL0 r) \/ ~ In x (rE0 r)
}.
Definition r0 (g : gst) : rst := {| rc := HEAD; rV := []; rR := gL g; rW := gL g; rL0 := gL g; rE0 := gever g |}.
Definition rnext (g : gst) (r : rst) : rst :=
  {| rc := gm g (rc r); rV := rV r ++ [gm g (rc r)]; rR := rR r; rW := rW r; rL0 := rL0 r; rE0 := rE0 r |}.
Definition rupd (g' : gst) (r : rst) : rst :=
  {| rc := rc r; rV := rV r; rR := filter (inb (gL g')) (rR r); rW := gL g' ++ rW r; rL0 := rL0 r; rE0 := rE0 r |}.

Lemma chain_ahead mm : forall L p x, chain mm p L -> ahead mm p x -> In x L.
Proof.
  induction L as [|y L IH]; intros p x Hc H; cbn [chain] in Hc.
  - destruct (ahead_nohead _ _ Hc x H).
  - destruct Hc as [H1 H2]. destruct (ahead_inv _ _ _ H) as [[A _]|[_ A]]; [left; congruence|]. rewrite H1 in A. right. apply (IH y x H2 A).
Qed.
Lemma chain_ahead_in mm : forall L p x, chain mm p L -> ~ In HEAD L -> In x L -> ahead mm p x.
Proof.
  induction L as [|y L IH]; intros p x Hc Hh Hx; [destruct Hx|]. cbn [chain] in Hc. destruct Hc as [H1 H2].
  assert (Hy : y <> HEAD) by (intros ->; apply Hh; left; reflexivity).
  destruct Hx as [<-|Hx]; [apply ah_one; assumption|]. apply (ah_step mm p y); [exact H1|exact Hy|]. apply IH; [exact H2|intros H; apply Hh; right; exact H|exact Hx].
Qed.

Lemma RInv_start g : WF g -> RInv g (r0 g).
Proof.
  intros HW. assert (HhL : ~ In HEAD (gL g)) by (intros H; apply (W_nohead g HW); apply (W_sub g HW); exact H).
  constructor; cbn [r0 rc rV rR rW rL0 rE0].
  - left. reflexivity.
  - reflexivity.
  - intros H. destruct (H eq_refl).
  - constructor.
  - intros x [].
  - intros x [].
  - intros x [].
  - intros x H. apply (chain_ahead _ _ _ _ (W_chain g HW) H).
  - intros x Hx. right. apply (chain_ahead_in _ _ _ _ (W_chain g HW) HhL Hx).
  - intros x Hx. exact Hx.
  - intros x Hx. exact Hx.
  - intros x Hx. exact Hx.
  - intros x Hx. left. exact Hx.
Qed.

(* the reader follows one pointer *)
Lemma RInv_next g r : WF g -> RInv g r -> gm g (rc r) <> HEAD -> RInv g (rnext g r).
Proof.
  intros HW HR Hn. set (c' := gm g (rc r)) in *.
  assert (Ha : ahead (gm g) (rc r) c') by (apply ah_one; [reflexivity|exact Hn]).
  destruct (ahead_key g HW _ _ Ha (R_cur g r HR)) as [Hc' Hk].
  constructor; cbn [rnext rc rV rR rW rL0 rE0]; fold c'.
  - right. exact Hc'.
  - intros E. contradiction.
  - intros _. apply in_or_app. right. left. reflexivity.
  - apply sorted_app_last; [apply (R_Vs g r HR)|]. intros x Hx.
    assert (Hrc : rc r <> HEAD) by (intros E; rewrite (R_V0 g r HR E) in Hx; destruct Hx).
    assert (Hce : In (rc r) (gever g)) by (destruct (R_cur g r HR) as [E|E]; [contradiction|exact E]).
    destruct (R_Vle g r HR x Hx) as [->|H]; [apply Hk; exact Hce|]. specialize (Hk Hce). unfold klt in *. lra.
  - intros x Hx. apply in_app_or in Hx. destruct Hx as [Hx|[<-|[]]]; [right|left; reflexivity].
    assert (Hrc : rc r <> HEAD) by (intros E; rewrite (R_V0 g r HR E) in Hx; destruct Hx).
    assert (Hce : In (rc r) (gever g)) by (destruct (R_cur g r HR) as [E|E]; [contradiction|exact E]).
    destruct (R_Vle g r HR x Hx) as [->|H]; [apply Hk; exact Hce|]. specialize (Hk Hce). unfold klt in *. lra.
  - intros x Hx. apply in_app_or in Hx. destruct Hx as [Hx|[<-|[]]]; [apply (R_Vev g r HR x Hx)|exact Hc'].
  - intros x Hx. apply in_app_or in Hx. destruct Hx as [Hx|[<-|[]]]; [apply (R_VW g r HR x Hx)|apply (R_aW g r HR c' Ha)].
  - intros x Hx. apply (R_aW g r HR). apply (ah_step _ (rc r) c'); [reflexivity|exact Hn|exact Hx].
  - intros x Hx. destruct (R_res g r HR x Hx) as [H|H]; [left; apply in_or_app; left; exact H|].
    destruct (ahead_inv _ _ _ H) as [[A _]|[_ A]]; [left; apply in_or_app; right; left; exact A|right; exact A].
  - apply (R_RL g r HR).
  - apply (R_LW g r HR).
  - apply (R_E0 g r HR).
  - apply (R_W0 g r HR).
Qed.
(* ... until it is back at the head: every node that was in the list during the whole traversal has been visited *)
Lemma RInv_end g r : RInv g r -> gm g (rc r) = HEAD -> forall x, In x (rR r) -> In x (rV r).
Proof. intros HR Hz x Hx. destruct (R_res g r HR x Hx) as [H|H]; [exact H|destruct (ahead_nohead _ _ Hz x H)]. Qed.

Lemma mstep_mono g a v g' : mstep g a v g' ->
  (forall x, In x (gever g) -> In x (gever g')) /\ (forall x, In x (gever g) -> gkey g' x = gkey g x) /\
  (forall x, In x (gL g') -> In x (gL g) \/ ~ In x (gever g)).
Proof.
  intros Hs. destruct Hs as [n v Hn Hh|n k Hn Hh Hf Hk|n k Hn Hh Hz Hk|y Hy|o n Ho Hn Hh Hsn]; cbn [gever gkey gL]; repeat split;
    try (intros x Hx; exact Hx); try (intros x Hx; reflexivity); try (intros x Hx; right; exact Hx); try (intros x Hx; left; exact Hx);
    try (intros x Hx; apply kupd_other; intros ->; contradiction).
  - intros x [<-|Hx]; [right; exact Hn|left; exact Hx].
  - intros x Hx. apply in_app_or in Hx. destruct Hx as [Hx|[<-|[]]]; [left; exact Hx|right; exact Hn].
  - intros x Hx. left. apply (remove1_in _ _ _ Hx).
  - intros x Hx. destruct (replace1_in _ _ _ _ Hx) as [->|H]; [right; exact Hn|left; exact H].
Qed.

(* a store of the updater becomes visible *)
Lemma RInv_mstep g a v g' r : WF g -> mstep g a v g' -> RInv g r -> RInv g' (rupd g' r).
Proof.
  intros HW Hs HR. destruct (mstep_mono g a v g' Hs) as (Me & Mk & ML).
  assert (Hks : forall x y, In x (gever g) -> In y (gever g) -> klt (gkey g) x y -> klt (gkey g') x y) by (intros x y Hx Hy H; unfold klt; rewrite (Mk x Hx), (Mk y Hy); exact H).
  constructor; cbn [rupd rc rV rR rW rL0 rE0].
  - destruct (R_cur g r HR) as [E|E]; [left; exact E|right; apply Me; exact E].
  - apply (R_V0 g r HR).
  - apply (R_Vc g r HR).
  - apply (sorted_ext (gkey g)); [intros x Hx; apply Mk; apply (R_Vev g r HR x Hx)|apply (R_Vs g r HR)].
  - intros x Hx. destruct (R_Vle g r HR x Hx) as [E|H]; [left; exact E|right].
    assert (Hrc : rc r <> HEAD) by (intros E; rewrite (R_V0 g r HR E) in Hx; destruct Hx).
    apply Hks; [apply (R_Vev g r HR x Hx)|destruct (R_cur g r HR) as [E|E]; [contradiction|exact E]|exact H].
  - intros x Hx. apply Me. apply (R_Vev g r HR x Hx).
  - intros x Hx. apply in_or_app. right. apply (R_VW g r HR x Hx).
  - intros x Hx. destruct (proj2 (mstep_ahead g a v g' HW Hs (rc r) x (R_cur g r HR)) Hx) as [H|H]; apply in_or_app; [left; exact H|right; apply (R_aW g r HR x H)].
  - intros x Hx. apply filter_In in Hx. destruct Hx as [Hx Hin]. apply inb_In in Hin.
    destruct (R_res g r HR x Hx) as [H|H]; [left; exact H|right]. apply (proj1 (mstep_ahead g a v g' HW Hs (rc r) x (R_cur g r HR)) H Hin).
  - intros x Hx. apply filter_In in Hx. destruct Hx as [_ Hin]. apply inb_In in Hin. exact Hin.
  - intros x Hx. apply in_or_app. left. exact Hx.
  - intros x Hx. apply Me. apply (R_E0 g r HR x Hx).
  - intros x Hx. apply in_app_or in Hx. destruct Hx as [Hx|Hx]; [|apply (R_W0 g r HR x Hx)].
    destruct (ML x Hx) as [H|H]; [apply (R_W0 g r HR x (R_LW g r HR x H))|right; intros H0; apply H; apply (R_E0 g r HR x H0)].
Qed.

(* ---- the combined system: stores of the updater becoming visible (any of the five shapes, any time), one reader doing traversal after traversal ---- *)
Record tst := { tg : gst; tr : rst; tfin : bool (* the traversal has ended: the cursor is back at the head *) }.
Inductive tstep : tst -> tst -> Prop :=
| T_store t a v g' : mstep (tg t) a v g' -> tstep t {| tg := g'; tr := rupd g' (tr t); tfin := tfin t |}
| T_read t : tfin t = false -> gm (tg t) (rc (tr t)) <> HEAD -> tstep t {| tg := tg t; tr := rnext (tg t) (tr t); tfin := false |}
| T_end t : tfin t = false -> gm (tg t) (rc (tr t)) = HEAD ->
    tstep t {| tg := tg t; tr := {| rc := HEAD; rV := rV (tr t); rR := rR (tr t); rW := rW (tr t); rL0 := rL0 (tr t); rE0 := rE0 (tr t) |}; tfin := true |}
| T_start t : tfin t = true \/ rc (tr t) = HEAD (* a new traversal begins: its first load of the head pointer is the next step *) -> tstep t {| tg := tg t; tr := r0 (tg t); tfin := false |}.

(* what is known about a traversal, while it runs and after it has ended *)
Record Facts (g : gst) (r : rst) : Prop := {
  F_sorted : sorted (gkey g) (rV r);                        (* visited in key order = list order, each at most once *)
  F_ev : forall x, In x (rV r) -> In x (gever g);
  F_VW : forall x, In x (rV r) -> In x (rW r);              (* visited nodes were in the list at some moment of the traversal *)
  F_W0 : forall x, In x (rW r) -> In x (rL0 r) \/ ~ In x (rE0 r);
  F_E0 : forall x, In x (rE0 r) -> In x (gever g)
}.
Definition TInv (t : tst) : Prop :=
  WF (tg t) /\ Facts (tg t) (tr t) /\ sorted (gkey (tg t)) (gL (tg t)) /\
  (tfin t = false -> RInv (tg t) (tr t)) /\ (tfin t = true -> forall x, In x (rR (tr t)) -> In x (rV (tr t))).

Lemma Facts_of_RInv g r : RInv g r -> Facts g r.
Proof. intros HR. constructor; [apply (R_Vs g r HR)|apply (R_Vev g r HR)|apply (R_VW g r HR)|apply (R_W0 g r HR)|apply (R_E0 g r HR)]. Qed.

Lemma Facts_mstep g a v g' r : mstep g a v g' -> (forall x, In x (gL g) -> In x (rW r)) -> Facts g r -> Facts g' (rupd g' r).
Proof.
  intros Hs HLW HF. destruct (mstep_mono g a v g' Hs) as (Me & Mk & ML). constructor; cbn [rupd rV rW rL0 rE0].
  - apply (sorted_ext (gkey g)); [intros x Hx; apply Mk; apply (F_ev g r HF x Hx)|apply (F_sorted g r HF)].
  - intros x Hx. apply Me. apply (F_ev g r HF x Hx).
  - intros x Hx. apply in_or_app. right. apply (F_VW g r HF x Hx).
  - intros x Hx. apply in_app_or in Hx. destruct Hx as [Hx|Hx]; [|apply (F_W0 g r HF x Hx)].
    destruct (ML x Hx) as [H|H]; [apply (F_W0 g r HF x (HLW x H))|right; intros H0; apply H; apply (F_E0 g r HF x H0)].
  - intros x Hx. apply Me. apply (F_E0 g r HF x Hx).
Qed.

(* W always contains the current list (also after the end of the traversal) - kept as part of the step lemma *)
Definition LW (t : tst) : Prop := forall x, In x (gL (tg t)) -> In x (rW (tr t)).

Lemma TInv_step t t' : TInv t -> LW t -> tstep t t' -> TInv t' /\ LW t'.
Proof.
  intros (HW & HF & HS & Hrun & Hfin) HLW Hs.
  destruct Hs as [t a v g' Hm|t Hf Hn|t Hf Hz|t Hf]; unfold TInv, LW; cbn [tg tr tfin].
  - pose proof (WF_mstep _ _ _ _ HW Hm) as HW'. split; [split; [exact HW'|split; [apply (Facts_mstep (tg t) a v g'); assumption|split; [apply (W_sorted _ HW')|split]]]|].
    + intros E. apply (RInv_mstep (tg t) a v g'); [exact HW|exact Hm|apply Hrun; exact E].
    + intros E x Hx. cbn [rupd rR rV] in *. apply filter_In in Hx. apply (Hfin E x (proj1 Hx)).
    + intros x Hx. cbn [rupd rW]. apply in_or_app. left. exact Hx.
  - pose proof (RInv_next _ _ HW (Hrun Hf) Hn) as HR'. split; [split; [exact HW|split; [apply Facts_of_RInv; exact HR'|split; [exact HS|split; [intros _; exact HR'|discriminate]]]]|].
    intros x Hx. cbn [rnext rW]. apply (HLW x Hx).
  - split; [split; [exact HW|split; [|split; [exact HS|split; [discriminate|]]]]|].
    + destruct HF as [A B Cc D E]. constructor; cbn [rV rW rL0 rE0]; assumption.
    + intros _ x Hx. cbn [rR rV] in *. apply (RInv_end _ _ (Hrun Hf) Hz x Hx).
    + intros x Hx. cbn [rW]. apply (HLW x Hx).
  - pose proof (RInv_start _ HW) as HR'. split; [split; [exact HW|split; [apply Facts_of_RInv; exact HR'|split; [exact HS|split; [intros _; exact HR'|discriminate]]]]|].
    intros x Hx. exact Hx.
Qed.

Inductive treach (t0 : tst) : tst -> Prop :=
| TR_refl : treach t0 t0
| TR_step t t' : treach t0 t -> tstep t t' -> treach t0 t'.

(* start of the observation: any well-formed memory, the reader about to begin a traversal *)
Definition tinit (g : gst) : tst := {| tg := g; tr := r0 g; tfin := false |}.
Lemma TInv_init g : WF g -> TInv (tinit g) /\ LW (tinit g).
Proof.
  intros HW. pose proof (RInv_start g HW) as HR. split; [split; [exact HW|split; [apply Facts_of_RInv; exact HR|split; [apply (W_sorted g HW)|split; [intros _; exact HR|discriminate]]]]|].
  intros x Hx. exact Hx.
Qed.
Lemma TInv_reach g t : WF g -> treach (tinit g) t -> TInv t /\ LW t.
Proof. intros HW H. induction H as [|t t' _ IH Hs]; [apply TInv_init; exact HW|destruct IH as [A B]; apply (TInv_step t t' A B Hs)]. Qed.

(* ---- the traversal theorems: every interleaving of visible updater stores and reader steps, any number of traversals ---- *)
Section TRAV.
Variables (g0 : gst) (t : tst).
Hypothesis HW0 : WF g0.
Hypothesis Hreach : treach (tinit g0) t.

(* order and exactly-once: the visited nodes are strictly increasing in the key order in which the list itself is sorted at every moment *)
Theorem trav_in_list_order : sorted (gkey (tg t)) (rV (tr t)) /\ sorted (gkey (tg t)) (gL (tg t)) /\ NoDup (rV (tr t)).
Proof.
  destruct (TInv_reach g0 t HW0 Hreach) as [(HW & HF & HS & _) _]. split; [apply (F_sorted _ _ HF)|split; [exact HS|apply (sorted_NoDup _ _ (F_sorted _ _ HF))]].
Qed.
(* only nodes that were in the list at some moment since the traversal began *)
Theorem trav_visited_was_present : forall x, In x (rV (tr t)) -> In x (rW (tr t)).
Proof. destruct (TInv_reach g0 t HW0 Hreach) as [(_ & HF & _) _]. apply (F_VW _ _ HF). Qed.
(* a node that had been unlinked before the traversal began is never visited - this is what lets the updater release it after a grace period *)
Theorem trav_never_visits_removed : forall x, In x (rE0 (tr t)) -> ~ In x (rL0 (tr t)) -> ~ In x (rV (tr t)).
Proof.
  destruct (TInv_reach g0 t HW0 Hreach) as [(_ & HF & _) _]. intros x HE HL HV.
  destruct (F_W0 _ _ HF x (F_VW _ _ HF x HV)) as [H|H]; contradiction.
Qed.
(* when the traversal has ended, every node that was in the list during the whole traversal has been visited *)
Theorem trav_resident_visited : tfin t = true -> forall x, In x (rR (tr t)) -> In x (rV (tr t)).
Proof. destruct (TInv_reach g0 t HW0 Hreach) as [(_ & _ & _ & _ & Hfin) _]. exact Hfin. Qed.
End TRAV.

(* what rR is: the nodes that were in the list at the start of the traversal and at every store since *)
Lemma rupd_resident g' r x : In x (rR (rupd g' r)) <-> In x (rR r) /\ In x (gL g').
Proof. cbn [rupd rR]. rewrite filter_In, inb_In. reflexivity. Qed.

(* termination: while the updater makes no store visible, each reader step visits a published node that was not visited before, so a traversal
   ends within (number of published nodes) + 1 steps *)
Definition unvisited (g : gst) (r : rst) : nat := length (filter (fun x => negb (inb (rV r) x)) (gever g)).
Lemma filter_length_lt {A} (f f' : A -> bool) (l : list A) : (forall x, f' x = true -> f x = true) ->
  (exists x, In x l /\ f x = true /\ f' x = false) -> (length (filter f' l) < length (filter f l))%nat.
Proof.
  intros Hi. induction l as [|a l IH]; intros (x & Hx & H1 & H2); [destruct Hx|]. cbn [filter].
  assert (Hle : (length (filter f' l) <= length (filter f l))%nat).
  { clear -Hi. induction l as [|b l IH]; [apply le_n|]. cbn [filter]. destruct (f' b) eqn:E; [rewrite (Hi b E); cbn; lia|destruct (f b); cbn; lia]. }
  destruct Hx as [<-|Hx].
  - rewrite H1, H2. cbn [length]. lia.
  - specialize (IH (ex_intro _ x (conj Hx (conj H1 H2)))). destruct (f' a) eqn:E; [rewrite (Hi a E); cbn; lia|destruct (f a); cbn; lia].
Qed.
Theorem read_step_progress g r : WF g -> RInv g r -> gm g (rc r) <> HEAD -> (unvisited g (rnext g r) < unvisited g r)%nat.
Proof.
  intros HW HR Hn. unfold unvisited. apply filter_length_lt.
  - intros x H. apply negb_true_iff in H. apply negb_true_iff. destruct (inb (rV r) x) eqn:E; [|reflexivity].
    apply inb_In in E. assert (Hin : In x (rV (rnext g r))) by (cbn [rnext rV]; apply in_or_app; left; exact E). apply inb_In in Hin. congruence.
  - set (c' := gm g (rc r)). assert (Ha : ahead (gm g) (rc r) c') by (apply ah_one; [reflexivity|exact Hn]).
    destruct (ahead_key g HW _ _ Ha (R_cur g r HR)) as [Hc' Hk]. exists c'. split; [exact Hc'|split].
    + apply negb_true_iff. destruct (inb (rV r) c') eqn:E; [|reflexivity]. apply inb_In in E. exfalso.
      assert (Hrc : rc r <> HEAD) by (intros E0; rewrite (R_V0 g r HR E0) in E; destruct E).
      assert (Hce : In (rc r) (gever g)) by (destruct (R_cur g r HR) as [E0|E0]; [contradiction|exact E0]). specialize (Hk Hce).
      destruct (R_Vle g r HR c' E) as [E1|E1]; unfold klt in *; [rewrite E1 in Hk; lra|lra].
    + apply negb_false_iff. apply inb_In. cbn [rnext rV]. apply in_or_app. right. left. reflexivity.
Qed.
Print Assumptions trav_resident_visited.
Print Assumptions trav_in_list_order.
Print Assumptions read_step_progress.
