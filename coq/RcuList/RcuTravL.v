(* list-level facts about the functions RcuList.exec uses to compute its stores (first, lastn, succ_of, pred_of, remove1, replace1),
   stated over the path predicate  chain mm p L :  p -> x1 -> ... -> xk -> HEAD  in memory mm *)
From Coq Require Import List Arith NArith Bool Lia.
Import ListNotations.
Require Import Urcu.RcuList.RcuList.
Local Open Scope N_scope.

Fixpoint chain (mm : mem) (p : N) (L : list N) : Prop :=
  match L with [] => mm p = HEAD | x :: L' => mm p = x /\ chain mm x L' end.

Lemma chain_first mm p L : chain mm p L -> mm p = first L.
Proof. destruct L as [|x L]; cbn; [auto|intros [H _]; exact H]. Qed.

Lemma chain_frame mm a v : forall L p, ~ In a (p :: L) -> chain mm p L -> chain (upd mm a v) p L.
Proof.
  induction L as [|x L IH]; intros p Hn H; cbn [chain] in *.
  - rewrite upd_other; [exact H|]. intros ->. apply Hn. left. reflexivity.
  - destruct H as [H1 H2]. split.
    + rewrite upd_other; [exact H1|]. intros ->. apply Hn. left. reflexivity.
    + apply IH; [|exact H2]. intros Hin. apply Hn. right. exact Hin.
Qed.

Lemma lastn_last : forall L, lastn L = last L HEAD.
Proof. induction L as [|x [|y L] IH]; try reflexivity. change (lastn (x :: y :: L)) with (lastn (y :: L)). rewrite IH. reflexivity. Qed.

Lemma last_in_or {A} (L : list A) d : last L d = d \/ In (last L d) L.
Proof. induction L as [|x [|y L] IH]; [left; reflexivity|right; left; reflexivity|]. destruct IH as [H|H]; [left; exact H|right; right; exact H]. Qed.
Lemma last_cons_in {A} (L : list A) x d : In (last (x :: L) d) (x :: L).
Proof. revert x. induction L as [|y L IH]; intros x; [left; reflexivity|]. right. apply IH. Qed.

(* add at the head *)
Lemma chain_addh mm L n : chain mm HEAD L -> ~ In HEAD L -> n <> HEAD -> mm n = first L -> chain (upd mm HEAD n) HEAD (n :: L).
Proof.
  intros Hc Hh Hn Hf. cbn [chain]. split; [apply upd_same|].
  apply chain_frame; [intros [E|E]; [congruence|contradiction]|].
  destruct L as [|x L]; cbn [chain first] in *; [exact Hf|]. destruct Hc as [_ Hc]. split; assumption.
Qed.

Lemma last_cons_default {A} : forall (L : list A) x p, last (x :: L) p = last L x.
Proof.
  induction L as [|y L IH]; intros x p; [reflexivity|].
  change (last (x :: y :: L) p) with (last (y :: L) p). rewrite (IH y p), (IH y x). reflexivity.
Qed.

(* add at the tail *)
Lemma chain_addt mm n : forall L p, chain mm p L -> NoDup (p :: L) -> ~ In n (p :: L) -> mm n = HEAD ->
  chain (upd mm (last L p) n) p (L ++ [n]).
Proof.
  induction L as [|x L IH]; intros p Hc Hnd Hn Hz.
  - cbn. split; [apply upd_same|]. rewrite upd_other; [exact Hz|]. intros ->. apply Hn. left. reflexivity.
  - cbn [chain] in Hc. destruct Hc as [H1 H2]. apply NoDup_cons_iff in Hnd; destruct Hnd as [Hp Hnd'].
    change ((x :: L) ++ [n]) with (x :: (L ++ [n])). cbn [chain].
    assert (El : last (x :: L) p = last L x) by apply last_cons_default.
    rewrite El. split.
    + rewrite upd_other; [exact H1|]. intros E. apply Hp. rewrite E. destruct (last_in_or L x) as [E'|E']; [rewrite E'; left; reflexivity|right; exact E'].
    + apply IH; [exact H2|exact Hnd'| |exact Hz]. intros Hin. apply Hn. right. exact Hin.
Qed.

Lemma pred_of_in : forall L p x, pred_of p L x = p \/ In (pred_of p L x) L \/ pred_of p L x = HEAD.
Proof.
  induction L as [|y L IH]; intros p x; cbn [pred_of]; [right; right; reflexivity|].
  destruct (y =? x); [left; reflexivity|]. destruct (IH y x) as [H|[H|H]]; [right; left; left; symmetry; exact H|right; left; right; exact H|right; right; exact H].
Qed.
Lemma pred_of_in' : forall L p x, In x L -> pred_of p L x = p \/ In (pred_of p L x) L.
Proof.
  induction L as [|y L IH]; intros p x Hx; [destruct Hx|]. cbn [pred_of].
  destruct (N.eqb_spec y x) as [E|E]; [left; reflexivity|]. destruct Hx as [Hx|Hx]; [contradiction|].
  destruct (IH y x Hx) as [H|H]; [right; left; symmetry; exact H|right; right; exact H].
Qed.
Lemma succ_of_in' : forall L x, succ_of L x = HEAD \/ In (succ_of L x) L.
Proof. exact succ_in. Qed.

(* what the pointers of the predecessor and of the node itself are *)
Lemma chain_pred_succ mm : forall L p x, chain mm p L -> In x L -> mm (pred_of p L x) = x /\ mm x = succ_of L x.
Proof.
  induction L as [|y L IH]; intros p x Hc Hx; [destruct Hx|]. cbn [chain] in Hc. destruct Hc as [H1 H2]. cbn [pred_of succ_of].
  destruct (N.eqb_spec y x) as [E|E].
  - rewrite <- E in *. clear E. split; [exact H1|apply chain_first; exact H2].
  - destruct Hx as [Hx|Hx]; [contradiction|]. apply IH; assumption.
Qed.

(* delete *)
Lemma chain_del mm x : forall L p, chain mm p L -> NoDup (p :: L) -> In x L ->
  chain (upd mm (pred_of p L x) (succ_of L x)) p (remove1 L x).
Proof.
  induction L as [|y L IH]; intros p Hc Hnd Hx; [destruct Hx|]. cbn [chain] in Hc. destruct Hc as [H1 H2].
  apply NoDup_cons_iff in Hnd; destruct Hnd as [Hp Hnd']. cbn [pred_of succ_of remove1].
  destruct (N.eqb_spec y x) as [E|E].
  - rewrite <- E in *. clear E. destruct L as [|z L]; cbn [chain first]; [apply upd_same|]. cbn [chain] in H2. destruct H2 as [H3 H4].
    split; [apply upd_same|]. apply chain_frame; [|exact H4]. intros Hin. apply Hp. right. exact Hin.
  - destruct Hx as [Hx|Hx]; [contradiction|]. cbn [chain]. split.
    + rewrite upd_other; [exact H1|]. intros Ep. apply Hp. rewrite Ep.
      destruct (pred_of_in' L y x Hx) as [H|H]; [rewrite H; left; reflexivity|right; exact H].
    + apply IH; assumption.
Qed.

(* replace *)
Lemma chain_repl mm o n : forall L p, chain mm p L -> NoDup (p :: L) -> In o L -> ~ In n (p :: L) -> mm n = succ_of L o ->
  chain (upd mm (pred_of p L o) n) p (replace1 L o n).
Proof.
  induction L as [|y L IH]; intros p Hc Hnd Ho Hn Hs; [destruct Ho|]. cbn [chain] in Hc. destruct Hc as [H1 H2].
  apply NoDup_cons_iff in Hnd; destruct Hnd as [Hp Hnd']. cbn [pred_of succ_of replace1] in *.
  destruct (N.eqb_spec y o) as [E|E].
  - rewrite <- E in *. clear E. cbn [chain]. split; [apply upd_same|].
    apply chain_frame; [intros [E|Hin]; [apply Hn; left; symmetry; exact E|apply Hp; right; exact Hin]|].
    destruct L as [|z L]; cbn [chain first] in *; [exact Hs|]. destruct H2 as [H3 H4]. split; [exact Hs|exact H4].
  - destruct Ho as [Ho|Ho]; [contradiction|]. cbn [chain]. split.
    + rewrite upd_other; [exact H1|]. intros Ep. apply Hp. rewrite Ep.
      destruct (pred_of_in' L y o Ho) as [H|H]; [rewrite H; left; reflexivity|right; exact H].
    + apply IH; try assumption. intros Hin. apply Hn. right. exact Hin.
Qed.

Lemma remove1_in' : forall L x y, In y L -> y <> x -> In y (remove1 L x).
Proof.
  induction L as [|z L IH]; intros x y Hy Hne; [destruct Hy|]. cbn [remove1]. destruct (N.eqb_spec z x) as [E|E].
  - destruct Hy as [Hy|Hy]; [congruence|exact Hy].
  - destruct Hy as [Hy|Hy]; [left; exact Hy|right; apply IH; assumption].
Qed.
Lemma replace1_in' : forall L o n y, In y L -> y <> o -> In y (replace1 L o n).
Proof.
  induction L as [|z L IH]; intros o n y Hy Hne; [destruct Hy|]. cbn [replace1]. destruct (N.eqb_spec z o) as [E|E].
  - destruct Hy as [Hy|Hy]; [congruence|right; exact Hy].
  - destruct Hy as [Hy|Hy]; [left; exact Hy|right; apply IH; assumption].
Qed.
Lemma replace1_new : forall L o n, In o L -> In n (replace1 L o n).
Proof.
  induction L as [|z L IH]; intros o n Ho; [destruct Ho|]. cbn [replace1]. destruct (N.eqb_spec z o) as [E|E]; [left; reflexivity|].
  destruct Ho as [Ho|Ho]; [contradiction|right; apply IH; exact Ho].
Qed.
Lemma inb_In L x : inb L x = true <-> In x L.
Proof.
  unfold inb. rewrite existsb_exists. split.
  - intros (y & Hy & E). apply N.eqb_eq in E. subst. exact Hy.
  - intros H. exists x. split; [exact H|apply N.eqb_refl].
Qed.
