(* scratch: RCU list publication on TSO.  One updater (add at head / del / replace, stores issued in the order of rculist.h,
   all buffered), any number of readers following next pointers in memory.  G = uninitialised next field.
   Theorem: a reader never reaches a node whose next field is still uninitialised in memory, and the nodes linked in memory
   always form a chain from the head back to the head. *)
From Coq Require Import List Arith NArith Bool Lia.
Import ListNotations.
Local Open Scope N_scope.

Definition HEAD : N := 0.
Definition G : N := 1.                      (* poison / uninitialised; node ids are >= 2 *)
Definition mem := N -> N.                   (* next field of each node (HEAD included) *)
Definition upd (m : mem) (a v : N) : mem := fun x => if x =? a then v else m x.
Fixpoint apply (b : list (N * N)) (m : mem) : mem := match b with [] => m | (a, v) :: b' => apply b' (upd m a v) end.

Inductive uop := UAdd (n : N) | UDel (n : N) | URepl (old new : N) | UAddTail (n : N).
(* updater program counter: which store of the current operation comes next *)
Inductive upc := U_Idle | U_Add2 (n : N) | U_Repl2 (old new : N) | U_Tail2 (n : N).
Record st := { m : mem; buf : list (N * N); lst : list N (* updater's own view of the list *); upc_ : upc; todo : list uop;
               rcur : nat -> N (* reader cursors; HEAD = not traversing / done *) }.
Inductive choice := UStep | UFlush | RStep (r : nat).

Definition first (l : list N) : N := match l with [] => HEAD | x :: _ => x end.
Fixpoint lastn (l : list N) : N := match l with [] => HEAD | [x] => x | _ :: l' => lastn l' end.
Fixpoint succ_of (l : list N) (n : N) : N := match l with [] => HEAD | x :: l' => if x =? n then first l' else succ_of l' n end.
Fixpoint pred_of (p : N) (l : list N) (n : N) : N := match l with [] => HEAD | x :: l' => if x =? n then p else pred_of x l' n end.
Fixpoint remove1 (l : list N) (n : N) : list N := match l with [] => [] | x :: l' => if x =? n then l' else x :: remove1 l' n end.
Fixpoint replace1 (l : list N) (o n : N) : list N := match l with [] => [] | x :: l' => if x =? o then n :: l' else x :: replace1 l' o n end.
Definition inb (l : list N) (n : N) : bool := existsb (N.eqb n) l.

Definition setr (f : nat -> N) (r : nat) (v : N) : nat -> N := fun u => if Nat.eqb u r then v else f u.

Definition exec (c : choice) (s : st) : st :=
  match c with
  | UStep =>
      match upc_ s with
      | U_Idle =>
          match todo s with
          | [] => s
          | UAdd n :: rest =>       (* newp->next = head->next *)
              {| m := m s; buf := buf s ++ [(n, first (lst s))]; lst := lst s; upc_ := U_Add2 n; todo := rest; rcur := rcur s |}
          | UDel n :: rest =>       (* elem->prev->next = elem->next *)
              if inb (lst s) n
              then {| m := m s; buf := buf s ++ [(pred_of HEAD (lst s) n, succ_of (lst s) n)]; lst := remove1 (lst s) n; upc_ := U_Idle; todo := rest; rcur := rcur s |}
              else {| m := m s; buf := buf s; lst := lst s; upc_ := U_Idle; todo := rest; rcur := rcur s |}
          | URepl o n :: rest =>    (* new->next = old->next *)
              if inb (lst s) o
              then {| m := m s; buf := buf s ++ [(n, succ_of (lst s) o)]; lst := lst s; upc_ := U_Repl2 o n; todo := rest; rcur := rcur s |}
              else {| m := m s; buf := buf s; lst := lst s; upc_ := U_Idle; todo := rest; rcur := rcur s |}
          | UAddTail n :: rest =>   (* newp->next = head *)
              {| m := m s; buf := buf s ++ [(n, HEAD)]; lst := lst s; upc_ := U_Tail2 n; todo := rest; rcur := rcur s |}
          end
      | U_Tail2 n =>                (* rcu_assign_pointer(head->prev->next, newp) *)
          {| m := m s; buf := buf s ++ [(lastn (lst s), n)]; lst := lst s ++ [n]; upc_ := U_Idle; todo := todo s; rcur := rcur s |}
      | U_Add2 n =>                 (* rcu_assign_pointer(head->next, newp) *)
          {| m := m s; buf := buf s ++ [(HEAD, n)]; lst := n :: lst s; upc_ := U_Idle; todo := todo s; rcur := rcur s |}
      | U_Repl2 o n =>              (* rcu_assign_pointer(new->prev->next, new) *)
          {| m := m s; buf := buf s ++ [(pred_of HEAD (lst s) o, n)]; lst := replace1 (lst s) o n; upc_ := U_Idle; todo := todo s; rcur := rcur s |}
      end
  | UFlush => match buf s with [] => s | (a, v) :: b => {| m := upd (m s) a v; buf := b; lst := lst s; upc_ := upc_ s; todo := todo s; rcur := rcur s |} end
  | RStep r => {| m := m s; buf := buf s; lst := lst s; upc_ := upc_ s; todo := todo s; rcur := setr (rcur s) r (m s (rcur s r)) |}   (* pos = rcu_dereference(pos->next) *)
  end.

Definition okp (v : N) (mm : mem) : Prop := v = HEAD \/ (v <> G /\ mm v <> G).
Fixpoint bufok (mm : mem) (b : list (N * N)) : Prop :=
  match b with [] => True | (a, v) :: b' => v <> G /\ okp v mm /\ bufok (upd mm a v) b' end.
Definition view (s : st) : mem := apply (buf s) (m s).
Definition opok (o : uop) : Prop := match o with UAdd n | UAddTail n => n <> G /\ n <> HEAD | UDel _ => True | URepl _ n => n <> G /\ n <> HEAD end.

Record Inv (s : st) : Prop := {
  I_head : m s HEAD <> G;
  I_mem : forall x, m s x <> G -> okp (m s x) (m s);
  I_cur : forall r, okp (rcur s r) (m s);
  I_buf : bufok (m s) (buf s);
  I_lst : forall x, In x (lst s) -> x <> G /\ view s x <> G;
  I_pc : match upc_ s with U_Idle => True | U_Add2 n | U_Repl2 _ n | U_Tail2 n => n <> G /\ view s n <> G end;
  I_todo : Forall opok (todo s)
}.

Lemma upd_same mm a v : upd mm a v a = v.  Proof. unfold upd. rewrite N.eqb_refl. reflexivity. Qed.
Lemma upd_other mm a v x : x <> a -> upd mm a v x = mm x.  Proof. unfold upd. intros H. destruct (N.eqb_spec x a); [contradiction|reflexivity]. Qed.
Lemma upd_mono mm a v x : v <> G -> mm x <> G -> upd mm a v x <> G.
Proof. intros Hv Hx. unfold upd. destruct (x =? a); assumption. Qed.
Lemma okp_mono v mm a w : w <> G -> okp v mm -> okp v (upd mm a w).
Proof. intros Hw [H|[H1 H2]]; [left; exact H|right; split; [exact H1|apply upd_mono; assumption]]. Qed.
Lemma bufok_app b : forall mm a v, bufok mm b -> v <> G -> okp v (apply b mm) -> bufok mm (b ++ [(a, v)]).
Proof.
  induction b as [|[a0 v0] b IH]; intros mm a v Hb Hv Ho; cbn [app bufok apply] in *; [tauto|].
  destruct Hb as (A & B & Cc). split; [exact A|split; [exact B|apply IH; assumption]].
Qed.
Lemma apply_app b : forall mm a v, apply (b ++ [(a, v)]) mm = upd (apply b mm) a v.
Proof. induction b as [|[a0 v0] b IH]; intros mm a v; cbn [app apply]; [reflexivity|apply IH]. Qed.

Lemma first_in l : first l = HEAD \/ In (first l) l.
Proof. destruct l; [left; reflexivity|right; left; reflexivity]. Qed.
Lemma succ_in l n : succ_of l n = HEAD \/ In (succ_of l n) l.
Proof.
  induction l as [|x l IH]; cbn [succ_of]; [left; reflexivity|]. destruct (x =? n).
  - destruct (first_in l) as [H|H]; [left; exact H|right; right; exact H].
  - destruct IH as [H|H]; [left; exact H|right; right; exact H].
Qed.
Lemma remove1_in l n x : In x (remove1 l n) -> In x l.
Proof. induction l as [|y l IH]; cbn [remove1]; [tauto|]. destruct (y =? n); [intros H; right; exact H|intros [H|H]; [left; exact H|right; apply IH; exact H]]. Qed.
Lemma replace1_in l o n x : In x (replace1 l o n) -> x = n \/ In x l.
Proof.
  induction l as [|y l IH]; cbn [replace1]; [tauto|]. destruct (y =? o).
  - intros [H|H]; [left; symmetry; exact H|right; right; exact H].
  - intros [H|H]; [right; left; exact H|destruct (IH H) as [E|E]; [left; exact E|right; right; exact E]].
Qed.

(* the updater appends one store (a, v) whose value is HEAD or initialised in its own view *)
Lemma Inv_store s a v l' pc' td' : Inv s -> v <> G -> okp v (view s) ->
  (forall x, In x l' -> x <> G /\ (view s x <> G \/ (x = a))) ->
  match pc' with U_Idle => True | U_Add2 n | U_Repl2 _ n | U_Tail2 n => n <> G /\ (view s n <> G \/ n = a) end ->
  Forall opok td' ->
  Inv {| m := m s; buf := buf s ++ [(a, v)]; lst := l'; upc_ := pc'; todo := td'; rcur := rcur s |}.
Proof.
  intros HI Hv Ho Hl Hp Ht. constructor; cbn [m buf lst upc_ todo rcur].
  - apply (I_head s HI).
  - apply (I_mem s HI).
  - apply (I_cur s HI).
  - apply bufok_app; [apply (I_buf s HI)|exact Hv|exact Ho].
  - intros x Hx. destruct (Hl x Hx) as [A B]. split; [exact A|]. unfold view; cbn [buf m]. rewrite apply_app.
    destruct B as [B| ->]; [apply upd_mono; assumption|rewrite upd_same; exact Hv].
  - unfold view; cbn [buf m]. rewrite apply_app. destruct pc' as [|n|o n|n]; [exact I| | |];
      (destruct Hp as [A B]; split; [exact A|]; destruct B as [B| ->]; [apply upd_mono; assumption|rewrite upd_same; exact Hv]).
  - exact Ht.
Qed.

Lemma okp_view_in s x : Inv s -> x = HEAD \/ In x (lst s) -> okp x (view s).
Proof. intros HI [H|H]; [left; exact H|right; apply (I_lst s HI x H)]. Qed.

Lemma Inv_exec s c : Inv s -> Inv (exec c s).
Proof.
  intros HI. destruct c as [| |r]; unfold exec.
  - destruct (upc_ s) eqn:Ep.
    + destruct (todo s) as [|[n|n|o n|n] rest] eqn:Et; [exact HI| | | |].
      * (* add, first store *)
        pose proof (I_todo s HI) as Ht. rewrite Et in Ht. inversion Ht as [|? ? Ho Hr]; subst. cbn [opok] in Ho. destruct Ho as [Hn1 Hn2].
        assert (Hf : okp (first (lst s)) (view s)) by (apply okp_view_in; [exact HI|apply first_in]).
        apply Inv_store; [exact HI| |exact Hf| | |exact Hr].
        -- destruct Hf as [E|[E _]]; [rewrite E; discriminate|exact E].
        -- intros x Hx. destruct (I_lst s HI x Hx) as [A B]. split; [exact A|left; exact B].
        -- split; [exact Hn1|right; reflexivity].
      * (* del *)
        pose proof (I_todo s HI) as Ht. rewrite Et in Ht. inversion Ht as [|? ? _ Hr]; subst.
        destruct (inb (lst s) n).
        -- assert (Hf : okp (succ_of (lst s) n) (view s)) by (apply okp_view_in; [exact HI|apply succ_in]).
           apply Inv_store; [exact HI| |exact Hf| |exact I|exact Hr].
           ++ destruct Hf as [E|[E _]]; [rewrite E; discriminate|exact E].
           ++ intros x Hx. destruct (I_lst s HI x (remove1_in _ _ _ Hx)) as [A B]. split; [exact A|left; exact B].
        -- constructor; cbn [m buf lst upc_ todo rcur]; try apply HI; try exact I; try exact Hr; try (intros x Hx; apply (I_lst s HI x Hx)).
      * (* replace, first store *)
        pose proof (I_todo s HI) as Ht. rewrite Et in Ht. inversion Ht as [|? ? Ho Hr]; subst. cbn [opok] in Ho. destruct Ho as [Hn1 Hn2].
        destruct (inb (lst s) o).
        -- assert (Hf : okp (succ_of (lst s) o) (view s)) by (apply okp_view_in; [exact HI|apply succ_in]).
           apply Inv_store; [exact HI| |exact Hf| | |exact Hr].
           ++ destruct Hf as [E|[E _]]; [rewrite E; discriminate|exact E].
           ++ intros x Hx. destruct (I_lst s HI x Hx) as [A B]. split; [exact A|left; exact B].
           ++ split; [exact Hn1|right; reflexivity].
        -- constructor; cbn [m buf lst upc_ todo rcur]; try apply HI; try exact I; try exact Hr; try (intros x Hx; apply (I_lst s HI x Hx)).
      * (* add_tail, first store *)
        pose proof (I_todo s HI) as Ht. rewrite Et in Ht. inversion Ht as [|? ? Ho Hr]; subst. cbn [opok] in Ho. destruct Ho as [Hn1 Hn2].
        apply Inv_store; [exact HI|discriminate|left; reflexivity| | |exact Hr].
        -- intros x Hx. destruct (I_lst s HI x Hx) as [A B]. split; [exact A|left; exact B].
        -- split; [exact Hn1|right; reflexivity].
    + (* add, publication store *)
      pose proof (I_pc s HI) as Hp. rewrite Ep in Hp. destruct Hp as [Hn Hv].
      apply Inv_store; [exact HI|exact Hn|right; split; assumption| |exact I|apply (I_todo s HI)].
      intros x [<-|Hx]; [split; [exact Hn|left; exact Hv]|]. destruct (I_lst s HI x Hx) as [A B]. split; [exact A|left; exact B].
    + (* replace, publication store *)
      pose proof (I_pc s HI) as Hp. rewrite Ep in Hp. destruct Hp as [Hn Hv].
      apply Inv_store; [exact HI|exact Hn|right; split; assumption| |exact I|apply (I_todo s HI)].
      intros x Hx. destruct (replace1_in _ _ _ _ Hx) as [->|Hx']; [split; [exact Hn|left; exact Hv]|].
      destruct (I_lst s HI x Hx') as [A B]. split; [exact A|left; exact B].
    + (* add_tail, publication store *)
      pose proof (I_pc s HI) as Hp. rewrite Ep in Hp. destruct Hp as [Hn Hv].
      apply Inv_store; [exact HI|exact Hn|right; split; assumption| |exact I|apply (I_todo s HI)].
      intros x Hx. apply in_app_or in Hx. destruct Hx as [Hx|[<-|[]]]; [|split; [exact Hn|left; exact Hv]].
      destruct (I_lst s HI x Hx) as [A B]. split; [exact A|left; exact B].
  - (* flush *)
    destruct (buf s) as [|[a v] b] eqn:Eb; [exact HI|].
    pose proof (I_buf s HI) as Hb. rewrite Eb in Hb. cbn [bufok] in Hb. destruct Hb as (Hv & Ho & Hb').
    constructor; cbn [m buf lst upc_ todo rcur].
    + apply upd_mono; [exact Hv|apply (I_head s HI)].
    + intros x Hx. destruct (N.eq_dec x a) as [->|Hne].
      * rewrite upd_same. apply okp_mono; assumption.
      * rewrite upd_other in Hx |- * by exact Hne. apply okp_mono; [exact Hv|apply (I_mem s HI x Hx)].
    + intros r. apply okp_mono; [exact Hv|apply (I_cur s HI r)].
    + exact Hb'.
    + intros x Hx. pose proof (I_lst s HI x Hx) as H. unfold view in *. rewrite Eb in H. exact H.
    + pose proof (I_pc s HI) as H. unfold view in *. rewrite Eb in H. exact H.
    + apply (I_todo s HI).
  - (* reader follows a next pointer *)
    constructor; cbn [m buf lst upc_ todo rcur]; try apply HI.
    + intros u. unfold setr. destruct (Nat.eqb u r); [|apply (I_cur s HI u)].
      destruct (I_cur s HI r) as [E|[_ E]]; [rewrite E; apply (I_mem s HI HEAD (I_head s HI))|apply (I_mem s HI _ E)].
Qed.

Definition init (td : list uop) : st :=
  {| m := fun x => if x =? HEAD then HEAD else G; buf := []; lst := []; upc_ := U_Idle; todo := td; rcur := fun _ => HEAD |}.
Lemma Inv_init td : Forall opok td -> Inv (init td).
Proof.
  intros Ht. constructor; cbn [init m buf lst upc_ todo rcur view apply bufok]; try exact I; try exact Ht.
  - discriminate.
  - intros x. destruct (x =? HEAD) eqn:E; [intros _; left; reflexivity|intros H; contradiction].
  - intros r. left. reflexivity.
  - intros x [].
Qed.

(* every schedule of updater steps, flushes (any delay) and reader steps: a reader's cursor is the head or a node whose next
   field is already initialised in memory *)
Theorem list_init_before_visible : forall td cs, Forall opok td ->
  let s := fold_left (fun s c => exec c s) cs (init td) in forall r, rcur s r = HEAD \/ m s (rcur s r) <> G.
Proof.
  intros td cs Ht s r.
  assert (HI : Inv s).
  { unfold s. generalize (Inv_init td Ht). generalize (init td). induction cs as [|c cs IH]; intros s0 H0; [exact H0|cbn [fold_left]; apply IH; apply Inv_exec; exact H0]. }
  destruct (I_cur s HI r) as [E|[_ E]]; [left; exact E|right; exact E].
Qed.
Print Assumptions list_init_before_visible.
