(* The executable TSO list model RcuList.exec (the one the refinement check feeds with the stores and loads of rculist.h / rcuhlist.h) only ever makes
   stores of the five shapes visible, in program order: every run of the model is matched, reader by reader, by a run of the traversal system of RcuTrav.v
   with the same committed memory and the same cursor.  Hence the traversal theorems hold for the model's readers. *)
From Coq Require Import List Arith NArith Bool Lia QArith Qminmax Lqa Sorting.Sorted.
Import ListNotations.
Require Import Urcu.RcuList.RcuList Urcu.RcuList.RcuTravL Urcu.RcuList.RcuTrav.
Local Open Scope N_scope.

(* pending stores, each of a legal shape relative to the memory the stores before it produce *)
Inductive bufsim : gst -> list (N * N) -> gst -> Prop :=
| bs_nil g : bufsim g [] g
| bs_cons g a v g1 b gv : mstep g a v g1 -> bufsim g1 b gv -> bufsim g ((a, v) :: b) gv.
Lemma bufsim_app g b gv : bufsim g b gv -> forall a v gv', mstep gv a v gv' -> bufsim g (b ++ [(a, v)]) gv'.
Proof. intros H. induction H as [g|g a0 v0 g1 b gv Hm Hb IH]; intros a v gv' Hs; cbn [app]; [apply (bs_cons g a v gv'); [exact Hs|apply bs_nil]|apply (bs_cons g a0 v0 g1); [exact Hm|apply IH; exact Hs]]. Qed.
Lemma bufsim_WF g b gv : bufsim g b gv -> WF g -> WF gv.
Proof. intros H. induction H as [g|g a v g1 b gv Hm Hb IH]; intros HW; [exact HW|apply IH; apply (WF_mstep g a v g1 HW Hm)]. Qed.
Lemma mstep_gm g a v g' : mstep g a v g' -> gm g' = upd (gm g) a v.
Proof. intros H. destruct H; reflexivity. Qed.
Lemma bufsim_view g b gv : bufsim g b gv -> gm gv = apply b (gm g).
Proof. intros H. induction H as [g|g a v g1 b gv Hm Hb IH]; [reflexivity|]. cbn [apply]. rewrite IH, (mstep_gm _ _ _ _ Hm). reflexivity. Qed.

(* keys below / above every key of a list exist *)
Lemma key_below (k : keyf) : forall L, exists q, forall x, In x L -> (q < k x)%Q.
Proof.
  induction L as [|y L [q Hq]]; [exists 0%Q; intros x []|].
  exists (Qmin q (k y) - 1)%Q. intros x [<-|Hx].
  - pose proof (Q.le_min_r q (k y)). lra.
  - pose proof (Q.le_min_l q (k y)). specialize (Hq x Hx). lra.
Qed.
Lemma key_above (k : keyf) : forall L, exists q, forall x, In x L -> (k x < q)%Q.
Proof.
  induction L as [|y L [q Hq]]; [exists 0%Q; intros x []|].
  exists (Qmax q (k y) + 1)%Q. intros x [<-|Hx].
  - pose proof (Q.le_max_r q (k y)). lra.
  - pose proof (Q.le_max_l q (k y)). specialize (Hq x Hx). lra.
Qed.

(* the nodes the updater is still going to publish *)
Fixpoint newn (l : list uop) : list N :=
  match l with [] => [] | UAdd n :: r | UAddTail n :: r | URepl _ n :: r => n :: newn r | UDel _ :: r => newn r end.
Definition pcn (p : upc) : list N := match p with U_Idle => [] | U_Add2 n | U_Repl2 _ n | U_Tail2 n => [n] end.

(* the updater's state against the ghost of its own view (committed memory + all pending stores) *)
Record USim (s : st) (gv : gst) : Prop := {
  U_L : gL gv = lst s;
  U_nd : NoDup (pcn (upc_ s) ++ newn (todo s));
  U_fresh : forall n, In n (pcn (upc_ s) ++ newn (todo s)) -> ~ In n (gever gv) /\ n <> HEAD;
  U_pc : match upc_ s with
         | U_Idle => True
         | U_Add2 n => gm gv n = first (gL gv)
         | U_Repl2 o n => In o (gL gv) /\ gm gv n = succ_of (gL gv) o
         | U_Tail2 n => gm gv n = HEAD
         end
}.

(* one updater step: the appended store is a legal shape for the view ghost *)
Lemma ustep_sim s gv : WF gv -> USim s gv ->
  (buf (exec UStep s) = buf s /\ USim (exec UStep s) gv) \/
  (exists a v gv', buf (exec UStep s) = buf s ++ [(a, v)] /\ mstep gv a v gv' /\ USim (exec UStep s) gv').
Proof.
  intros HW HU. destruct HU as [UL Und Ufr Upc]. unfold exec.
  destruct (upc_ s) as [|n|o n|n] eqn:Ep; cbn [pcn app] in *.
  - destruct (todo s) as [|[n|n|o n|n] rest] eqn:Et; cbn [newn] in *.
    + left. split; [reflexivity|]. constructor; cbn [lst upc_ todo pcn app newn]; try assumption; rewrite ?Ep, ?Et; cbn [pcn app newn]; assumption.
    + (* add: initialise the new node *)
      destruct (Ufr n (or_introl eq_refl)) as [Hn Hh]. right.
      exists n, (first (lst s)), {| gm := upd (gm gv) n (first (lst s)); gL := gL gv; gkey := gkey gv; gever := gever gv |}.
      split; [reflexivity|split; [apply M_init; assumption|]]. constructor; cbn [lst upc_ todo pcn app gL gm gever].
      * exact UL.
      * exact Und.
      * exact Ufr.
      * rewrite upd_same, UL. reflexivity.
    + (* del *)
      destruct (inb (lst s) n) eqn:Ei.
      * apply inb_In in Ei. right.
        exists (pred_of HEAD (lst s) n), (succ_of (lst s) n), {| gm := upd (gm gv) (pred_of HEAD (gL gv) n) (succ_of (gL gv) n); gL := remove1 (gL gv) n; gkey := gkey gv; gever := gever gv |}.
        split; [reflexivity|split; [rewrite <- UL; apply M_del; rewrite UL; exact Ei|]]. constructor; cbn [lst upc_ todo pcn app gL gm gever]; try assumption; try exact I.
        rewrite UL. reflexivity.
      * left. split; [reflexivity|]. constructor; cbn [lst upc_ todo pcn app]; try assumption; try exact I.
    + (* replace: initialise the new node *)
      destruct (Ufr n (or_introl eq_refl)) as [Hn Hh]. destruct (inb (lst s) o) eqn:Ei.
      * apply inb_In in Ei. right.
        exists n, (succ_of (lst s) o), {| gm := upd (gm gv) n (succ_of (lst s) o); gL := gL gv; gkey := gkey gv; gever := gever gv |}.
        split; [reflexivity|split; [apply M_init; assumption|]]. constructor; cbn [lst upc_ todo pcn app gL gm gever]; try assumption.
        rewrite upd_same, UL. split; [exact Ei|reflexivity].
      * left. split; [reflexivity|]. apply NoDup_cons_iff in Und. destruct Und as [_ Und].
        constructor; cbn [lst upc_ todo pcn app]; try assumption; try exact I. intros x Hx. apply Ufr. right. exact Hx.
    + (* add_tail: initialise the new node *)
      destruct (Ufr n (or_introl eq_refl)) as [Hn Hh]. right.
      exists n, HEAD, {| gm := upd (gm gv) n HEAD; gL := gL gv; gkey := gkey gv; gever := gever gv |}.
      split; [reflexivity|split; [apply M_init; assumption|]]. constructor; cbn [lst upc_ todo pcn app gL gm gever]; try assumption.
      apply upd_same.
  - (* publication at the head *)
    destruct (Ufr n (or_introl eq_refl)) as [Hn Hh]. destruct (key_below (gkey gv) (gL gv)) as [k Hk]. right.
    exists HEAD, n, {| gm := upd (gm gv) HEAD n; gL := n :: gL gv; gkey := kupd (gkey gv) n k; gever := n :: gever gv |}.
    split; [reflexivity|split; [apply M_addh; assumption|]]. apply NoDup_cons_iff in Und. destruct Und as [Hnn Und].
    constructor; cbn [lst upc_ todo pcn app gL gm gever]; try exact I; [rewrite UL; reflexivity|exact Und|].
    intros x Hx. destruct (Ufr x (or_intror Hx)) as [A B]. split; [|exact B]. intros [E|E]; [subst x; contradiction|contradiction].
  - (* replace: publication *)
    destruct (Ufr n (or_introl eq_refl)) as [Hn Hh]. destruct Upc as [Ho Hs]. right.
    exists (pred_of HEAD (lst s) o), n, {| gm := upd (gm gv) (pred_of HEAD (gL gv) o) n; gL := replace1 (gL gv) o n; gkey := kupd (gkey gv) n (gkey gv o); gever := n :: gever gv |}.
    split; [reflexivity|split; [rewrite <- UL; apply M_repl; assumption|]]. apply NoDup_cons_iff in Und. destruct Und as [Hnn Und].
    constructor; cbn [lst upc_ todo pcn app gL gm gever]; try exact I; [rewrite UL; reflexivity|exact Und|].
    intros x Hx. destruct (Ufr x (or_intror Hx)) as [A B]. split; [|exact B]. intros [E|E]; [subst x; contradiction|contradiction].
  - (* publication at the tail *)
    destruct (Ufr n (or_introl eq_refl)) as [Hn Hh]. destruct (key_above (gkey gv) (gL gv)) as [k Hk]. right.
    exists (lastn (lst s)), n, {| gm := upd (gm gv) (lastn (gL gv)) n; gL := gL gv ++ [n]; gkey := kupd (gkey gv) n k; gever := n :: gever gv |}.
    split; [reflexivity|split; [rewrite <- UL; apply M_addt; assumption|]]. apply NoDup_cons_iff in Und. destruct Und as [Hnn Und].
    constructor; cbn [lst upc_ todo pcn app gL gm gever]; try exact I; [rewrite UL; reflexivity|exact Und|].
    intros x Hx. destruct (Ufr x (or_intror Hx)) as [A B]. split; [|exact B]. intros [E|E]; [subst x; contradiction|contradiction].
Qed.

(* ---- the simulation, for one (arbitrary) reader r ---- *)
Definition g0 : gst := {| gm := fun x => if x =? HEAD then HEAD else G; gL := []; gkey := fun _ => 0%Q; gever := [] |}.
Lemma WF_g0 : WF g0.
Proof. constructor; cbn; [constructor|intros x []|intros []|reflexivity|intros x []]. Qed.

Section SIM.
Variable r : nat.
Record Sim (s : st) (t : tst) : Prop := {
  S_reach : treach (tinit g0) t;
  S_mem : gm (tg t) = m s;
  S_cur : rc (tr t) = rcur s r;
  S_fin : tfin t = true -> rcur s r = HEAD;
  S_buf : exists gv, bufsim (tg t) (buf s) gv /\ USim s gv
}.

Lemma Sim_exec s t c : Sim s t -> exists t', Sim (exec c s) t'.
Proof.
  intros [Hre Hm Hc Hf (gv & Hb & HU)].
  destruct (TInv_reach g0 t WF_g0 Hre) as [(HW & _) _].
  destruct c as [| |r'].
  - (* updater step: memory and cursors unchanged, one more pending store *)
    destruct (ustep_sim s gv (bufsim_WF _ _ _ Hb HW) HU) as [[Eb HU']|(a & v & gv' & Eb & Hs & HU')].
    + exists t. constructor; try assumption.
      * rewrite Hm. unfold exec. destruct (upc_ s); [destruct (todo s) as [|[n|n|o n|n] rest]; try reflexivity; [destruct (inb (lst s) n); reflexivity|destruct (inb (lst s) o); reflexivity]|reflexivity|reflexivity|reflexivity].
      * rewrite Hc. unfold exec. destruct (upc_ s); [destruct (todo s) as [|[n|n|o n|n] rest]; try reflexivity; [destruct (inb (lst s) n); reflexivity|destruct (inb (lst s) o); reflexivity]|reflexivity|reflexivity|reflexivity].
      * intros E. rewrite <- (Hf E). unfold exec. destruct (upc_ s); [destruct (todo s) as [|[n|n|o n|n] rest]; try reflexivity; [destruct (inb (lst s) n); reflexivity|destruct (inb (lst s) o); reflexivity]|reflexivity|reflexivity|reflexivity].
      * exists gv. split; [rewrite Eb; exact Hb|exact HU'].
    + exists t. constructor; try assumption.
      * rewrite Hm. unfold exec. destruct (upc_ s); [destruct (todo s) as [|[n|n|o n|n] rest]; try reflexivity; [destruct (inb (lst s) n); reflexivity|destruct (inb (lst s) o); reflexivity]|reflexivity|reflexivity|reflexivity].
      * rewrite Hc. unfold exec. destruct (upc_ s); [destruct (todo s) as [|[n|n|o n|n] rest]; try reflexivity; [destruct (inb (lst s) n); reflexivity|destruct (inb (lst s) o); reflexivity]|reflexivity|reflexivity|reflexivity].
      * intros E. rewrite <- (Hf E). unfold exec. destruct (upc_ s); [destruct (todo s) as [|[n|n|o n|n] rest]; try reflexivity; [destruct (inb (lst s) n); reflexivity|destruct (inb (lst s) o); reflexivity]|reflexivity|reflexivity|reflexivity].
      * exists gv'. split; [rewrite Eb; apply (bufsim_app _ _ _ Hb); exact Hs|exact HU'].
  - (* the oldest pending store becomes visible *)
    unfold exec. destruct (buf s) as [|[a v] b] eqn:Eb.
    + exists t. constructor; try assumption. exists gv. rewrite Eb. split; assumption.
    + inversion Hb as [|g a0 v0 g1 b0 gv0 Hs Hb']; subst.
      exists {| tg := g1; tr := rupd g1 (tr t); tfin := tfin t |}. constructor; cbn [tg tr tfin m buf rcur rupd rc].
      * apply (TR_step _ t); [exact Hre|apply (T_store t a v g1 Hs)].
      * rewrite (mstep_gm _ _ _ _ Hs), Hm. reflexivity.
      * exact Hc.
      * exact Hf.
      * exists gv. split; [exact Hb'|]. destruct HU as [A B Cc D]. constructor; cbn [lst upc_ todo]; assumption.
  - (* a reader follows a pointer *)
    unfold exec. destruct (Nat.eq_dec r' r) as [->|Hne].
    2:{ exists t. constructor; cbn [m buf rcur]; try assumption.
        - rewrite Hc. unfold setr. destruct (Nat.eqb_spec r r'); [congruence|reflexivity].
        - intros E. rewrite <- (Hf E). unfold setr. destruct (Nat.eqb_spec r r'); [congruence|reflexivity].
        - exists gv. split; [exact Hb|]. destruct HU as [A B Cc D]. constructor; cbn [lst upc_ todo]; assumption. }
    assert (HUs : forall s', lst s' = lst s -> upc_ s' = upc_ s -> todo s' = todo s -> USim s' gv).
    { intros s' E1 E2 E3. destruct HU as [A B Cc D]. constructor; rewrite ?E1, ?E2, ?E3; assumption. }
    (* first bring the traversal system to a running traversal standing at the model's cursor *)
    assert (Hrun : exists t1, treach (tinit g0) t1 /\ tg t1 = tg t /\ rc (tr t1) = rcur s r /\ tfin t1 = false).
    { destruct (tfin t) eqn:Ef.
      - exists {| tg := tg t; tr := r0 (tg t); tfin := false |}. split; [apply (TR_step _ t); [exact Hre|apply T_start; left; exact Ef]|].
        cbn [tg tr tfin r0 rc]. rewrite (Hf eq_refl). auto.
      - exists t. auto. }
    destruct Hrun as (t1 & Hre1 & Eg & Ec & Ef1).
    set (c' := m s (rcur s r)).
    destruct (N.eq_dec c' HEAD) as [Ez|Enz].
    + exists {| tg := tg t1; tr := {| rc := HEAD; rV := rV (tr t1); rR := rR (tr t1); rW := rW (tr t1); rL0 := rL0 (tr t1); rE0 := rE0 (tr t1) |}; tfin := true |}.
      constructor; cbn [tg tr tfin m buf rcur rc].
      * apply (TR_step _ t1); [exact Hre1|apply T_end; [exact Ef1|rewrite Eg, Hm, Ec; exact Ez]].
      * rewrite Eg. exact Hm.
      * unfold setr. rewrite Nat.eqb_refl. symmetry. exact Ez.
      * intros _. unfold setr. rewrite Nat.eqb_refl. exact Ez.
      * exists gv. rewrite Eg. split; [exact Hb|apply HUs; reflexivity].
    + exists {| tg := tg t1; tr := rnext (tg t1) (tr t1); tfin := false |}.
      constructor; cbn [tg tr tfin m buf rcur rc rnext].
      * apply (TR_step _ t1); [exact Hre1|apply T_read; [exact Ef1|rewrite Eg, Hm, Ec; exact Enz]].
      * rewrite Eg. exact Hm.
      * unfold setr. rewrite Nat.eqb_refl. rewrite Eg, Hm, Ec. reflexivity.
      * discriminate.
      * exists gv. rewrite Eg. split; [exact Hb|apply HUs; reflexivity].
Qed.

Lemma Sim_init td : Forall opok td -> NoDup (newn td) -> Sim (init td) (tinit g0).
Proof.
  intros Hok Hnd. constructor; cbn [tinit tg tr tfin r0 rc init m rcur buf].
  - apply TR_refl.
  - reflexivity.
  - reflexivity.
  - discriminate.
  - exists g0. split; [apply bs_nil|]. constructor; cbn [g0 gL gever gm init lst upc_ todo pcn app]; [reflexivity|exact Hnd| |exact I].
    intros n Hn. split; [intros []|]. clear Hnd. induction Hok as [|o l Ho Hl IH]; [destruct Hn|].
    destruct o as [x|x|y x|x]; cbn [newn opok] in *; try (destruct Hn as [<-|Hn]; [apply Ho|apply IH; exact Hn]). apply IH; exact Hn.
Qed.

(* every run of the executable list model, any reader: committed memory and cursor are those of a reachable state of the traversal system *)
Theorem rculist_run_sim td cs : Forall opok td -> NoDup (newn td) ->
  exists t, Sim (fold_left (fun s c => exec c s) cs (init td)) t.
Proof.
  intros Hok Hnd. assert (H : exists t, Sim (init td) t) by (exists (tinit g0); apply Sim_init; assumption).
  revert H. generalize (init td). induction cs as [|c cs IH]; intros s0 [t Ht]; cbn [fold_left]; [exists t; exact Ht|].
  apply IH. apply (Sim_exec s0 t c Ht).
Qed.
End SIM.

(* the traversal guarantees for the readers of the executable model: whatever the updater program over fresh nodes, the flush delays and the interleaving, the
   nodes reader r has visited in its current (or just finished) traversal - the ghost rV of the matching run, extended by exactly the cursor at every step -
   are in list order without repetition, were all in the list at some moment of the traversal, include no node unlinked before it began, and once the cursor is back
   at the head include every node that was in the list throughout *)
Theorem rculist_traversal td cs r : Forall opok td -> NoDup (newn td) ->
  let s := fold_left (fun s c => exec c s) cs (init td) in
  exists t, gm (tg t) = m s /\ rc (tr t) = rcur s r /\ treach (tinit g0) t /\
    sorted (gkey (tg t)) (rV (tr t)) /\ sorted (gkey (tg t)) (gL (tg t)) /\ NoDup (rV (tr t)) /\
    (forall x, In x (rV (tr t)) -> In x (rW (tr t))) /\
    (forall x, In x (rE0 (tr t)) -> ~ In x (rL0 (tr t)) -> ~ In x (rV (tr t))) /\
    (tfin t = true -> forall x, In x (rR (tr t)) -> In x (rV (tr t))).
Proof.
  intros Hok Hnd s. destruct (rculist_run_sim r td cs Hok Hnd) as [t [Hre Hm Hc _ _]]. exists t.
  destruct (trav_in_list_order g0 t WF_g0 Hre) as (A & B & Cc).
  repeat split; try assumption.
  - apply (trav_visited_was_present g0 t WF_g0 Hre).
  - apply (trav_never_visits_removed g0 t WF_g0 Hre).
  - apply (trav_resident_visited g0 t WF_g0 Hre).
Qed.
Print Assumptions rculist_traversal.
