(* wfstack model (wait-free push, pop_all + iteration over the taken chain): every history is linearizable w.r.t. the LIFO specification for every schedule, where
   the result of a pop_all is the list of nodes its iteration VISITED (cds_wfs_for_each_blocking: cds_wfs_first, then cds_wfs_next_blocking waiting for links that
   suspended pushers have not stored yet) - so the theorem also says the iteration visits exactly the stack taken by the head exchange, top first.
   Linearisation points: the head exchange of push and of pop_all. *)
From Coq Require Import List Arith NArith Bool Lia.
Import ListNotations.
Require Import Urcu.Base.Lin.
Require Import Urcu.Base.MachE Urcu.Wfs.Wfs Urcu.Wfs.WfsProof Urcu.Wfs.WfsPriv Urcu.Wfs.WfsRun Urcu.Gen.Generated.
Local Open Scope N_scope.

Inductive wop := WPush (n : N) | WPopAll.
Definition wspec (stk : list N) (o : wop) : list N * list N :=
  match o with
  | WPush n => (n :: stk, [match stk with [] => 0 | _ => 1 end])
  | WPopAll => ([], stk)
  end.
Definition R_dec : forall r r' : list N, {r = r'} + {r <> r'} := list_eq_dec N.eq_dec.

Notation ast := (Lin.ast wop (list N) (list N)).
Notation runl := (Lin.runl wop (list N) (list N) wspec R_dec).
Notation lev := (Lin.ev wop (list N)).
Notation lpend := (Lin.pend wop (list N)).

(* ghost: per thread, the nodes its current iteration has visited and the part of the taken stack still ahead *)
Definition priv := nat -> list N * list N.
Definition pset (p : priv) (t : nat) (x : list N * list N) : priv := fun u => if Nat.eqb u t then x else p u.
Lemma pset_same p t x : pset p t x t = x.
Proof. unfold pset. now rewrite Nat.eqb_refl. Qed.
Lemma pset_other p t x u : u <> t -> pset p t x u = p u.
Proof. unfold pset. intros H. destruct (Nat.eqb_spec u t); congruence. Qed.

Definition pupd (stk : list N) (p : priv) (e : option (event sloc)) : priv :=
  match e with
  | Some (Ev _ t (AXchg _ SHead v) _) => if v =? vend then pset p t ([], stk) else p
  | Some (Ev _ t (ALoad _ (SNext cur)) r) => if r =? 0 then p else pset p t (fst (p t) ++ [cur], tl (snd (p t)))
  | _ => p
  end.
(* history events and linearisation points, as a function of the machine event *)
Definition levs (p : priv) (e : option (event sloc)) : list lev :=
  match e with
  | Some (Ev _ t (ACall _ O n) _) => [Lin.Inv _ _ t (WPush n)]
  | Some (Ev _ t (ACall _ (S _) _) _) => [Lin.Inv _ _ t WPopAll]
  | Some (Ev _ t (AXchg _ SHead _) _) => [Lin.Lin _ _ t]
  | Some (Ev _ t (ARet _ O b) _) => [Lin.Res _ _ t [b]]
  | Some (Ev _ t (ARet _ (S _) _) _) => [Lin.Res _ _ t (fst (p t))]
  | _ => []
  end.
Notation G := (st8 * list N * priv)%type.
Definition gstep (c : choice) (g : G) : G :=
  let '(s, stk, p) := g in let '(s', e) := exec sloc sloc_eqb sprog c s in (s', gupd stk e, pupd stk p e).
Fixpoint gtrace (cs : list choice) (g : G) : list lev :=
  match cs with [] => [] | c :: cs' => levs (snd g) (snd (exec sloc sloc_eqb sprog c (fst (fst g)))) ++ gtrace cs' (gstep c g) end.

Definition PR (s : st8) (x : list N * list N) (pc : spc) (q : lpend) : Prop :=
  match pc with
  | S_Idle => q = Idle _ _
  | P_Mb n | P_Xchg n => q = Called _ _ (WPush n)
  | P_Store n old => q = Done _ _ (WPush n) [if old =? vend then 0 else 1]
  | P_Ret b => exists n, q = Done _ _ (WPush n) [b]
  | A_Xchg => q = Called _ _ WPopAll
  | A_Mb cur | A_Iter cur | A_Wait cur => q = Done _ _ WPopAll (fst x ++ snd x) /\ chain s cur (snd x)
  end.
Record Sim (s : st8) (stk : list N) (p : priv) (a : ast) : Prop := {
  S_q : sig _ _ _ a = stk;
  S_pr : forall t, PR s (p t) (PC s t) (pm _ _ _ a t)
}.

Lemma PR_step c s st x pc q : Inv s st -> PR s x pc q -> PR (fst (exec sloc sloc_eqb sprog c s)) x pc q.
Proof. intros HI H. destruct pc; cbn [PR] in *; try exact H; (split; [apply H|apply (chain_step c s st _ HI); apply H]). Qed.

Lemma chain_vend s l : chain s vend l -> l = [].
Proof. destruct l as [|x l]; [reflexivity|]. cbn [chain]. intros (E & H2 & _). unfold vend in *. lia. Qed.
Lemma head_vend s st : Inv s st -> (M s SHead =? vend) = match st with [] => true | _ => false end.
Proof.
  intros HI. pose proof (I_chain _ _ HI) as H. destruct st as [|x l]; cbn [chain] in H.
  - rewrite H. apply N.eqb_refl.
  - destruct H as (E & H2 & _). apply N.eqb_neq. unfold vend. lia.
Qed.

Lemma buf_lookup_in (b : sbuf sloc) l v : buf_lookup sloc sloc_eqb b l = Some v -> In (l, v) b.
Proof.
  induction b as [|[l' v'] b IH]; cbn [buf_lookup]; [discriminate|].
  destruct (buf_lookup sloc sloc_eqb b l) as [v''|] eqn:E.
  - intros H. inversion H; subst. right. apply IH. reflexivity.
  - destruct (sloc_eqb_spec l' l) as [->|]; [|discriminate]. intros H. inversion H; subst. left. reflexivity.
Qed.
(* what a load of a chained node's link can return: nothing yet, or the link *)
Lemma load_link s st t cur b : Inv s st -> lnk s cur b ->
  let r := match buf_lookup sloc sloc_eqb (BUF s t) (SNext cur) with Some v => v | None => M s (SNext cur) end in r = 0 \/ r = b.
Proof.
  intros HI [Hb Hl] r. subst r. destruct (buf_lookup sloc sloc_eqb (BUF s t) (SNext cur)) as [v|] eqn:E.
  - apply buf_lookup_in in E. assert (Hw : wit s t cur v) by (right; exact E).
    destruct (I_pend _ _ HI t cur v Hw) as (Hz & _ & _ & Huniq).
    destruct Hl as [Hm|[_ [u Hu]]]; [congruence|]. destruct (Huniq u b Hu) as [_ ->]. right. reflexivity.
  - destruct Hl as [Hm|[Hz _]]; [right; exact Hm|left; exact Hz].
Qed.

Definition setpm (a : ast) t (x : lpend) : ast := Lin.setp _ _ _ a t x.

Lemma sim_step (s : st8) stk (p : priv) (a : ast) c : Inv s stk -> Sim s stk p a ->
  let s' := fst (exec sloc sloc_eqb sprog c s) in let e := snd (exec sloc sloc_eqb sprog c s) in
  exists a' l, runl a (levs p e) = Some (a', l) /\ Sim s' (gupd stk e) (pupd stk p e) a'.
Proof.
  intros HI HS.
  assert (Hother : forall x pc q, PR s x pc q -> PR (fst (exec sloc sloc_eqb sprog c s)) x pc q) by (intros x pc q; apply (PR_step c s stk x pc q HI)).
  assert (Hchain : forall b l, chain s b l -> chain (fst (exec sloc sloc_eqb sprog c s)) b l) by (intros b l; apply (chain_step c s stk l HI b)).
  pose proof (S_q _ _ _ _ HS) as Hq.
  destruct c as [t|t]; unfold exec in *; cbv zeta.
  2:{ (* flush: no history event; every private chain survives *)
    change (sthr sloc sprog s t) with (TH s t) in *. fold (BUF s t) in *.
    destruct (BUF s t) as [|[l v] b'] eqn:Eb; cbn [fst snd levs gupd pupd] in *; [exists a, []; split; [reflexivity|exact HS]|].
    exists a, []. split; [reflexivity|]. constructor; [exact Hq|]. intros u.
    assert (E : PC (mkst (upd sloc sloc_eqb (smem sloc sprog s) l v) (tup (sthr sloc sprog s) t {| tpc := tpc sloc sprog (TH s t); tbuf := b' |})) u = PC s u).
    { unfold PC. destruct (Nat.eq_dec u t) as [->|Hne]; [rewrite TH_same; reflexivity|rewrite TH_other by exact Hne; reflexivity]. }
    rewrite E. apply Hother. apply (S_pr _ _ _ _ HS u). }
  pose proof (S_pr _ _ _ _ HS t) as Hpr.
  unfold tstep in *. change (sthr sloc sprog s t) with (TH s t) in *. cbn [pact pnext sprog] in *. fold (BUF s t) in *.
  unfold PC in Hpr. destruct (tpc _ _ (TH s t)) as [pc todo] eqn:Etp. cbn [scur] in Hpr.
  assert (EPC : PC s t = pc) by (unfold PC; rewrite Etp; reflexivity).
  (* the generic reconstruction of the simulation after thread t moved to ts' *)
  assert (Hupd : forall m' (ts' : tstate sloc sprog) stk' p' (a' : ast),
            (forall x pc q, PR s x pc q -> PR (mkst m' (tup (sthr _ _ s) t ts')) x pc q) ->
            sig _ _ _ a' = stk' -> PR (mkst m' (tup (sthr _ _ s) t ts')) (p' t) (scur (tpc _ _ ts')) (pm _ _ _ a' t) ->
            (forall u, u <> t -> pm _ _ _ a' u = pm _ _ _ a u /\ p' u = p u) ->
            Sim (mkst m' (tup (sthr _ _ s) t ts')) stk' p' a').
  { intros m' ts' stk' p' a' Ho Hs Hp Hu. constructor; [exact Hs|]. intros u. unfold PC. destruct (Nat.eq_dec u t) as [->|Hne].
    - rewrite TH_same. exact Hp.
    - rewrite TH_other by exact Hne. destruct (Hu u Hne) as [-> ->]. apply Ho. apply (S_pr _ _ _ _ HS u). }
  unfold sact in *; cbn [scur stodo] in *.
  destruct pc as [|n|n|n old|rb| |cur|cur|cur]; cbn [snext scur stodo PR] in *.
  - (* S_Idle *)
    destruct todo as [|[n|] rest]; cbn [fst snd levs gupd pupd] in *.
    + exists a, []. split; [reflexivity|exact HS].
    + exists (setpm a t (Called _ _ (WPush n))), []. split; [cbn [Lin.runl]; rewrite Hpr; reflexivity|].
      apply Hupd; [exact Hother|exact Hq| |intros u Hu; split; [apply Lin.upd_other; exact Hu|reflexivity]].
      cbn [tpc scur PR setpm Lin.setp pm]. apply Lin.upd_same.
    + exists (setpm a t (Called _ _ WPopAll)), []. split; [cbn [Lin.runl]; rewrite Hpr; reflexivity|].
      apply Hupd; [exact Hother|exact Hq| |intros u Hu; split; [apply Lin.upd_other; exact Hu|reflexivity]].
      cbn [tpc scur PR setpm Lin.setp pm]. apply Lin.upd_same.
  - (* P_Mb *)
    destruct (BUF s t) eqn:Eb; cbn [fst snd levs gupd pupd] in *; [|exists a, []; split; [reflexivity|exact HS]].
    exists a, []. split; [reflexivity|]. apply Hupd; [exact Hother|exact Hq|exact Hpr|intros u _; split; reflexivity].
  - (* P_Xchg: the push takes effect *)
    destruct (BUF s t) eqn:Eb; cbn [fst snd levs gupd pupd] in *; [|exists a, []; split; [reflexivity|exact HS]].
    assert (Hn : (n =? vend) = false).
    { pose proof (I_fresh _ _ HI t n) as Hfr. unfold future in Hfr. rewrite EPC in Hfr. destruct (Hfr (or_introl eq_refl)) as (Hn2 & _). apply N.eqb_neq. unfold vend. lia. }
    rewrite Hn. exists {| sig := n :: stk; pm := Lin.upd _ _ (pm _ _ _ a) t (Done _ _ (WPush n) [match stk with [] => 0 | _ => 1 end]) |}, [(t, WPush n, [match stk with [] => 0 | _ => 1 end])].
    split; [cbn [Lin.runl]; rewrite Hpr, Hq; reflexivity|].
    apply Hupd; [exact Hother|reflexivity| |intros u Hu; split; [apply Lin.upd_other; exact Hu|reflexivity]].
    cbn [tpc scur PR pm]. rewrite Lin.upd_same. fold (M s SHead). rewrite (head_vend s stk HI). destruct stk; reflexivity.
  - (* P_Store *)
    cbn [fst snd levs gupd pupd] in *. exists a, []. split; [reflexivity|].
    apply Hupd; [exact Hother|exact Hq| |intros u _; split; reflexivity]. cbn [tpc scur PR]. exists n. exact Hpr.
  - (* P_Ret *)
    cbn [fst snd levs gupd pupd] in *. destruct Hpr as [n Hp]. exists (setpm a t (Idle _ _)), [].
    split; [cbn [Lin.runl]; rewrite Hp; cbv beta iota; match goal with |- context [R_dec ?x ?y] => destruct (R_dec x y) end; [reflexivity|contradiction]|].
    apply Hupd; [exact Hother|exact Hq| |intros u Hu; split; [apply Lin.upd_other; exact Hu|reflexivity]].
    cbn [tpc scur PR setpm Lin.setp pm]. apply Lin.upd_same.
  - (* A_Xchg: pop_all takes the whole stack; its private chain is the abstract stack *)
    destruct (BUF s t) eqn:Eb; cbn [fst snd levs gupd pupd] in *; [|exists a, []; split; [reflexivity|exact HS]].
    rewrite N.eqb_refl. exists {| sig := []; pm := Lin.upd _ _ (pm _ _ _ a) t (Done _ _ WPopAll stk) |}, [(t, WPopAll, stk)].
    split; [cbn [Lin.runl]; rewrite Hpr, Hq; reflexivity|].
    apply Hupd; [exact Hother|reflexivity| |intros u Hu; split; [apply Lin.upd_other; exact Hu|apply pset_other; exact Hu]].
    rewrite pset_same. cbn [pm fst snd app]. rewrite Lin.upd_same.
    pose proof (Hchain _ _ (I_chain _ _ HI)) as Hc. fold (M s SHead). destruct emit_legacy_mb; cbn [tpc scur PR]; (split; [reflexivity|exact Hc]).
  - (* A_Mb *)
    destruct (BUF s t) eqn:Eb; cbn [fst snd levs gupd pupd] in *; [|exists a, []; split; [reflexivity|exact HS]].
    exists a, []. split; [reflexivity|]. apply Hupd; [exact Hother|exact Hq| |intros u _; split; reflexivity].
    cbn [tpc scur PR]. split; [apply Hpr|apply Hchain; apply Hpr].
  - (* A_Iter *)
    destruct Hpr as [Hp Hc]. destruct (N.eqb_spec cur vend) as [Ec|Ec]; cbn [fst snd levs gupd pupd] in *.
    + (* end of the chain: the iteration returns what it visited = what was taken *)
      subst cur. apply chain_vend in Hc. rewrite Hc, app_nil_r in Hp. exists (setpm a t (Idle _ _)), [].
      split; [cbn [Lin.runl]; rewrite Hp; cbv beta iota; match goal with |- context [R_dec ?x ?y] => destruct (R_dec x y) end; [reflexivity|contradiction]|].
      apply Hupd; [exact Hother|exact Hq| |intros u Hu; split; [apply Lin.upd_other; exact Hu|reflexivity]].
      cbn [tpc scur PR setpm Lin.setp pm]. apply Lin.upd_same.
    + destruct (snd (p t)) as [|x rest] eqn:Erest; cbn [chain] in Hc; [contradiction|]. destruct Hc as (-> & Hx2 & b & Hlb & Hcb).
      pose proof (load_link s stk t x b HI Hlb) as Hr. cbv zeta in Hr. fold (M s (SNext x)) in *.
      set (r := match buf_lookup sloc sloc_eqb (BUF s t) (SNext x) with Some v => v | None => M s (SNext x) end) in *.
      destruct (N.eqb_spec r 0) as [Er|Er].
      * (* link not stored yet: wait *)
        exists a, []. split; [reflexivity|]. apply Hupd; [exact Hother|exact Hq| |intros u _; split; reflexivity].
        cbn [tpc scur PR]. rewrite Erest. split; [exact Hp|]. apply Hchain. cbn [chain]. split; [reflexivity|]. split; [exact Hx2|]. exists b. split; assumption.
      * destruct Hr as [Hr|Hr]; [contradiction|]. exists a, []. split; [reflexivity|].
        apply Hupd; [exact Hother|exact Hq| |intros u Hu; split; [reflexivity|apply pset_other; exact Hu]].
        rewrite pset_same. cbn [tpc scur PR fst snd tl]. rewrite <- app_assoc. cbn [app]. split; [exact Hp|]. apply Hchain. rewrite Hr. exact Hcb.
  - (* A_Wait *)
    cbn [fst snd levs gupd pupd] in *. exists a, []. split; [reflexivity|]. apply Hupd; [exact Hother|exact Hq| |intros u _; split; reflexivity].
    cbn [tpc scur PR]. split; [apply Hpr|apply Hchain; apply Hpr].
Qed.

Lemma Inv_gstep c s stk p : Inv s stk -> Inv (fst (fst (gstep c (s, stk, p)))) (snd (fst (gstep c (s, stk, p)))).
Proof.
  intros HI. pose proof (Inv_gexec c s stk HI) as H. unfold gexec in H. unfold gstep. cbn [fst snd] in H.
  destruct (exec sloc sloc_eqb sprog c s) as [s' e]. exact H.
Qed.

Theorem wfs_accepted : forall cs s stk p a, Inv s stk -> Sim s stk p a -> exists a' l, runl a (gtrace cs (s, stk, p)) = Some (a', l).
Proof.
  intros cs. induction cs as [|c cs IH]; intros s stk p a HI HS; cbn [gtrace fst snd].
  - exists a, []. reflexivity.
  - destruct (sim_step s stk p a c HI HS) as (a1 & l1 & E1 & HS1). cbv zeta in E1, HS1.
    pose proof (Inv_gstep c s stk p HI) as HI1. unfold gstep in *.
    destruct (exec sloc sloc_eqb sprog c s) as [s1 e]. cbn [fst snd] in *.
    destruct (IH s1 (gupd stk e) (pupd stk p e) a1 HI1 HS1) as (a2 & l2 & E2). exists a2, (l1 ++ l2).
    eapply Lin.runl_app_some; eassumption.
Qed.

Lemma Inv_initial (threads : nat -> list sop) :
  (forall t, NoDup (pushes (threads t)) /\ (forall n, In n (pushes (threads t)) -> 2 <= n)) ->
  (forall t u x, In x (pushes (threads t)) -> In x (pushes (threads u)) -> t = u) ->
  Inv (init_state threads) [].
Proof.
  intros H1 H2.
  assert (Hw : forall t a b, ~ wit (init_state threads) t a b) by (intros t a b [E|H]; [discriminate|destruct H]).
  constructor.
  - cbn. unfold vend. discriminate.
  - reflexivity.
  - intros t a b H. destruct (Hw _ _ _ H).
  - intros t. split; [cbn; lia|exact I].
  - intros t l v [].
  - intros t n Hn. change (future (init_state threads) t) with (pushes (threads t)) in Hn.
    split; [apply (H1 t); exact Hn|]. split; [reflexivity|]. split; [intros []|]. intros b [u Hu]. destruct (Hw _ _ _ Hu).
  - intros t u n Ht Hu. apply (H2 t u n); assumption.
  - intros t. apply (H1 t).
Qed.

Definition a0 : ast := {| sig := []; pm := fun _ => Idle _ _ |}.
Definition p0 : priv := fun _ => ([], []).
(* any number of threads, any programs of pushes (distinct nodes) and pop_all + iteration, every schedule with TSO delays - in particular with pushers suspended
   between their head exchange and their link store while a pop_all iterates: the history, in which a pop_all answers with the list of nodes its iteration visited,
   is accepted by the LIFO automaton; the operations in linearisation order are a legal LIFO history agreeing with every thread's calls and results *)
Theorem wfs_linearizable (threads : nat -> list sop) :
  (forall t, NoDup (pushes (threads t)) /\ (forall n, In n (pushes (threads t)) -> 2 <= n)) ->
  (forall t u x, In x (pushes (threads t)) -> In x (pushes (threads u)) -> t = u) ->
  forall cs, exists a' L,
  runl a0 (gtrace cs (init_state threads, [], p0)) = Some (a', L) /\
  Lin.legal wop (list N) (list N) wspec [] L /\
  (forall t, Lin.tops wop (list N) t L = Lin.hcomp wop (list N) t None (gtrace cs (init_state threads, [], p0)) ++ Lin.pre wop (list N) (pm _ _ _ a' t)).
Proof.
  intros H1 H2 cs. pose proof (Inv_initial threads H1 H2) as HI.
  assert (HS : Sim (init_state threads) [] p0 a0) by (constructor; [reflexivity|intros t; reflexivity]).
  destruct (wfs_accepted cs _ _ p0 a0 HI HS) as (a' & L & E). exists a', L. split; [exact E|].
  destruct (Lin.accepted_implies_hw wop (list N) (list N) wspec R_dec [] _ a' L E) as (A & B & _). split; assumption.
Qed.
Print Assumptions wfs_linearizable.

(* non-vacuity and the behaviour the theorem is about: pusher 1 is suspended between its head exchange and its link store while thread 0 pops everything; the iteration
   waits at node 3 (a relax step is taken), and once the link is flushed visits 3 then 2 - the stack in LIFO order *)
Definition ex_threads (t : nat) : list sop := match t with O => [OPush 2; OPopAll] | S O => [OPush 3] | _ => [] end.
Definition ex_sched : list choice :=
  [Step 0; Step 0; Step 0; Step 0; Flush 0; Step 0;      (* thread 0 pushes node 2 *)
   Step 1; Step 1; Step 1;                                (* thread 1: call, fence, head exchange - link not stored *)
   Step 0; Step 0] ++ (if emit_legacy_mb then [Step 0] else []) ++
  [Step 0; Step 0; Step 0; Step 0;                        (* thread 0: pop_all, reads next(3) = 0, waits, reads again *)
   Step 1; Flush 1; Step 1;                               (* the pusher stores and flushes its link, returns *)
   Step 0; Step 0; Step 0; Step 0; Step 0].               (* the iteration goes on: 3, then 2, end, return *)
Example ex_trace : gtrace ex_sched (init_state ex_threads, [], p0) =
  [Lin.Inv _ _ 0%nat (WPush 2); Lin.Lin _ _ 0%nat; Lin.Res _ _ 0%nat [0]; Lin.Inv _ _ 1%nat (WPush 3); Lin.Lin _ _ 1%nat;
   Lin.Inv _ _ 0%nat WPopAll; Lin.Lin _ _ 0%nat; Lin.Res _ _ 1%nat [1]; Lin.Res _ _ 0%nat [3; 2]].
Proof. vm_compute. reflexivity. Qed.
