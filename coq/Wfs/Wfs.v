From Coq Require Import List Arith NArith Bool Lia.
Import ListNotations.
Require Import Urcu.Base.MachE Urcu.Gen.Generated.
Local Open Scope N_scope.

Inductive sloc := SHead | SNext (n : N).
Definition sloc_eqb (a b : sloc) : bool :=
  match a, b with SHead, SHead => true | SNext x, SNext y => N.eqb x y | _, _ => false end.
Lemma sloc_eqb_spec a b : reflect (a = b) (sloc_eqb a b).
Proof. destruct a as [|n], b as [|m]; cbn; try (constructor; congruence).
  destruct (N.eqb_spec n m); constructor; congruence. Qed.

Definition vend : N := 1.
Inductive sop := OPush (n : N) | OPopAll.
Inductive spc :=
| S_Idle | P_Mb (n : N) | P_Xchg (n : N) | P_Store (n old : N) | P_Ret (b : N)
| A_Xchg | A_Mb (cur : N) | A_Iter (cur : N) | A_Wait (cur : N).
Record sst := { scur : spc; stodo : list sop }.

Definition sact (s : sst) : act sloc :=
  match scur s with
  | S_Idle => match stodo s with [] => ADone _ | OPush n :: _ => ACall _ 0%nat n | OPopAll :: _ => ACall _ 1%nat 0 end
  | P_Mb _ => AFence _
  | P_Xchg n => AXchg _ SHead n
  | P_Store n old => AStore _ (SNext n) old
  | P_Ret b => ARet _ 0%nat b
  | A_Xchg => AXchg _ SHead vend
  | A_Mb _ => AFence _
  | A_Iter cur => if cur =? vend then ARet _ 1%nat 0 else ALoad _ (SNext cur)
  | A_Wait _ => ARelax _
  end.
Definition snext (s : sst) (r : N) : sst :=
  let go p := {| scur := p; stodo := stodo s |} in
  match scur s with
  | S_Idle => match stodo s with
              | [] => s
              | OPush n :: rest => {| scur := P_Mb n; stodo := rest |}
              | OPopAll :: rest => {| scur := A_Xchg; stodo := rest |}
              end
  | P_Mb n => go (P_Xchg n)
  | P_Xchg n => go (P_Store n r)
  | P_Store n old => go (P_Ret (if old =? vend then 0 else 1))
  | P_Ret _ => go S_Idle
  | A_Xchg => go (if emit_legacy_mb then A_Mb r else A_Iter r)
  | A_Mb cur => go (A_Iter cur)
  | A_Iter cur => if cur =? vend then go S_Idle else if r =? 0 then go (A_Wait cur) else go (A_Iter r)
  | A_Wait cur => go (A_Iter cur)
  end.
Definition sprog : prog sloc := {| pst := sst; pact := sact; pnext := snext |}.

Notation st8 := (state sloc sprog).
Definition M (s : st8) := smem _ _ s.
Definition TH (s : st8) (t : nat) : tstate sloc sprog := sthr _ _ s t.
Definition PC (s : st8) t : spc := scur (tpc _ _ (TH s t)).
Definition BUF (s : st8) t := tbuf _ _ (TH s t).

(* ghost abstract stack, updated from the event of a step *)
Definition gupd (st : list N) (e : option (event sloc)) : list N :=
  match e with
  | Some (Ev _ _ (AXchg _ SHead v) _) => if v =? vend then [] else v :: st
  | _ => st
  end.
Definition gexec (c : choice) (g : st8 * list N) : st8 * list N :=
  let '(s', e) := exec sloc sloc_eqb sprog c (fst g) in (s', gupd (snd g) e).

Definition wit (s : st8) (t : nat) (a b : N) : Prop :=
  PC s t = P_Store a b \/ In (SNext a, b) (BUF s t).
Definition pendP (s : st8) (a b : N) : Prop := exists t, wit s t a b.
Definition lnk (s : st8) (a b : N) : Prop :=
  b <> 0 /\ (M s (SNext a) = b \/ (M s (SNext a) = 0 /\ pendP s a b)).
Fixpoint chain (s : st8) (a : N) (l : list N) : Prop :=
  match l with
  | [] => a = vend
  | x :: l' => a = x /\ 2 <= x /\ exists b, lnk s x b /\ chain s b l'
  end.

Fixpoint pushes (l : list sop) : list N :=
  match l with [] => [] | OPush n :: r => n :: pushes r | OPopAll :: r => pushes r end.
Definition future (s : st8) t : list N :=
  match PC s t with P_Mb n | P_Xchg n => [n] | _ => [] end ++ pushes (stodo (tpc _ _ (TH s t))).

Definition fresh (s : st8) (st : list N) (n : N) : Prop :=
  2 <= n /\ M s (SNext n) = 0 /\ ~ In n st /\ (forall b, ~ pendP s n b).

Record Inv (s : st8) (st : list N) : Prop := {
  I_head : M s SHead <> 0;
  I_chain : chain s (M s SHead) st;
  I_pend : forall t a b, wit s t a b ->
             M s (SNext a) = 0 /\ b <> 0 /\ 2 <= a /\ (forall u b', wit s u a b' -> u = t /\ b' = b);
  I_len : forall t, (length (BUF s t) <= 1)%nat /\
             (match PC s t with P_Xchg _ | P_Store _ _ => BUF s t = [] | _ => True end);
  I_buf : forall t l v, In (l, v) (BUF s t) -> exists a, l = SNext a;
  I_fresh : forall t n, In n (future s t) -> fresh s st n;
  I_disj : forall t u n, In n (future s t) -> In n (future s u) -> t = u;
  I_nodup : forall t, NoDup (future s t)
}.
