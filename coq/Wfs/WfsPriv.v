(* wfstack: what a pop_all obtains and what its iteration visits.  Links, once visible or pending, are never lost (lnk is monotone under every step), so the private
   chain a popper holds after its head exchange keeps spelling the stack it took - also while pushers that have exchanged the head but not yet stored their link are
   still suspended: the iteration waits for those links and then visits exactly the taken nodes, top first. *)
From Coq Require Import List Arith NArith Bool Lia.
Import ListNotations.
Require Import Urcu.Base.MachE Urcu.Wfs.Wfs Urcu.Wfs.WfsProof Urcu.Gen.Generated.
Local Open Scope N_scope.

(* the effect of one scheduler choice on the link fields and on the pending-link witnesses *)
Lemma step_effects c (s : st8) st : Inv s st ->
  let s' := fst (exec sloc sloc_eqb sprog c s) in
  (forall x, M s' (SNext x) = M s (SNext x) \/ (M s (SNext x) = 0 /\ exists t, In (SNext x, M s' (SNext x)) (BUF s t))) /\
  (forall u a b, wit s u a b -> wit s' u a b \/ M s' (SNext a) = b).
Proof.
  intros HI s'. subst s'. destruct c as [t|t]; unfold exec; cbn [fst].
  - unfold tstep. change (sthr sloc sprog s t) with (TH s t). cbn [pact pnext sprog]. fold (BUF s t).
    destruct (tpc _ _ (TH s t)) as [pc todo] eqn:Etp.
    assert (EPC : PC s t = pc) by (unfold PC; rewrite Etp; reflexivity).
    (* generic: memory link fields untouched, thread t gets state ts' whose witnesses include the old ones *)
    assert (Hgen : forall m' ts', (forall x, m' (SNext x) = M s (SNext x)) -> (forall a b, wit s t a b -> witT ts' a b) ->
              (forall x, M (mkst m' (tup (sthr _ _ s) t ts')) (SNext x) = M s (SNext x) \/ (M s (SNext x) = 0 /\ exists t0, In (SNext x, M (mkst m' (tup (sthr _ _ s) t ts')) (SNext x)) (BUF s t0))) /\
              (forall u a b, wit s u a b -> wit (mkst m' (tup (sthr _ _ s) t ts')) u a b \/ M (mkst m' (tup (sthr _ _ s) t ts')) (SNext a) = b)).
    { intros m' ts' Hm Hw. split; [intros x; left; apply Hm|]. intros u a b Hu. left. rewrite wit_witT.
      destruct (Nat.eq_dec u t) as [->|Hne]; [rewrite TH_same; apply Hw; exact Hu|rewrite TH_other by exact Hne; exact Hu]. }
    assert (Hsame : forall a b, (forall x y, pc <> P_Store x y) -> wit s t a b -> In (SNext a, b) (BUF s t)).
    { intros a b Hno [E|H]; [rewrite EPC in E; destruct (Hno _ _ E)|exact H]. }
    unfold sact; cbn [scur stodo].
    destruct pc as [|n|n|n old|rb| |cur|cur|cur]; cbn [snext scur stodo].
    + destruct todo as [|[n|] rest]; cbn [fst]; [split; [intros x; left; reflexivity|intros u a b H; left; exact H]| |];
        (apply Hgen; [intros x; reflexivity|intros a b Hw; right; cbn [tbuf]; apply Hsame; [intros; discriminate|exact Hw]]).
    + destruct (BUF s t) eqn:Eb; cbn [fst]; [|split; [intros x; left; reflexivity|intros u a b H; left; exact H]].
      apply Hgen; [intros x; reflexivity|intros a b Hw; right; cbn [tbuf]; apply Hsame; [intros; discriminate|exact Hw]].
    + destruct (BUF s t) eqn:Eb; cbn [fst]; [|split; [intros x; left; reflexivity|intros u a b H; left; exact H]].
      apply Hgen; [intros x; reflexivity|intros a b Hw; right; cbn [tbuf]; apply Hsame; [intros; discriminate|exact Hw]].
    + cbn [fst]. apply Hgen; [intros x; reflexivity|]. intros a b [E|H]; right; cbn [tbuf]; apply in_or_app; [right|left; exact H].
      rewrite EPC in E. inversion E; subst. left. reflexivity.
    + cbn [fst]. apply Hgen; [intros x; reflexivity|intros a b Hw; right; cbn [tbuf]; apply Hsame; [intros; discriminate|exact Hw]].
    + destruct (BUF s t) eqn:Eb; cbn [fst]; [|split; [intros x; left; reflexivity|intros u a b H; left; exact H]].
      apply Hgen; [intros x; reflexivity|intros a b Hw; right; cbn [tbuf]; apply Hsame; [intros; discriminate|exact Hw]].
    + destruct (BUF s t) eqn:Eb; cbn [fst]; [|split; [intros x; left; reflexivity|intros u a b H; left; exact H]].
      apply Hgen; [intros x; reflexivity|intros a b Hw; right; cbn [tbuf]; apply Hsame; [intros; discriminate|exact Hw]].
    + destruct (cur =? vend); cbn [fst].
      * apply Hgen; [intros x; reflexivity|intros a b Hw; right; cbn [tbuf]; apply Hsame; [intros; discriminate|exact Hw]].
      * apply Hgen; [intros x; reflexivity|intros a b Hw; right; cbn [tbuf]; apply Hsame; [intros; discriminate|exact Hw]].
    + cbn [fst]. apply Hgen; [intros x; reflexivity|intros a b Hw; right; cbn [tbuf]; apply Hsame; [intros; discriminate|exact Hw]].
  - (* flush of thread t's oldest store *)
    change (sthr sloc sprog s t) with (TH s t). fold (BUF s t).
    destruct (BUF s t) as [|[l v] b'] eqn:Eb; cbn [fst]; [split; [intros x; left; reflexivity|intros u a b H; left; exact H]|].
    destruct (I_buf _ _ HI t l v) as [a0 ->]; [rewrite Eb; left; reflexivity|].
    assert (Hw0 : wit s t a0 v) by (right; rewrite Eb; left; reflexivity).
    destruct (I_pend _ _ HI t a0 v Hw0) as (Hz & _ & _ & Huniq).
    set (s' := mkst _ _).
    assert (HMx : forall x, x <> a0 -> M s' (SNext x) = M s (SNext x)).
    { intros x Hx. unfold s', M; cbn [smem]. apply (upd_other sloc sloc_eqb sloc_eqb_spec). intros E. inversion E. congruence. }
    assert (HMa : M s' (SNext a0) = v) by (unfold s', M; cbn [smem]; apply (upd_same sloc sloc_eqb sloc_eqb_spec)).
    split.
    + intros x. destruct (N.eq_dec x a0) as [->|Hx]; [right; split; [exact Hz|exists t; rewrite HMa, Eb; left; reflexivity]|left; apply HMx; exact Hx].
    + intros u a b Hu. destruct (N.eq_dec a a0) as [->|Ha].
      * destruct (Huniq u b Hu) as [-> ->]. right. exact HMa.
      * left. rewrite wit_witT. destruct (Nat.eq_dec u t) as [->|Hne]; [unfold s'; rewrite TH_same|unfold s'; rewrite TH_other by exact Hne; exact Hu].
        destruct Hu as [E|H]; [left; cbn [tpc]; exact E|right; cbn [tbuf]; fold (BUF s t) in H; rewrite Eb in H; destruct H as [E|H]; [inversion E; congruence|exact H]].
Qed.

(* a link that is visible or pending stays visible or pending, with the same target *)
Lemma lnk_mono c (s : st8) st x b : Inv s st -> lnk s x b -> lnk (fst (exec sloc sloc_eqb sprog c s)) x b.
Proof.
  intros HI [Hb Hl]. destruct (step_effects c s st HI) as [Hm Hw]. set (s' := fst (exec sloc sloc_eqb sprog c s)) in *.
  split; [exact Hb|]. destruct Hl as [E|[Ez [u Hu]]].
  - destruct (Hm x) as [E'|[Ez' _]]; [left; congruence|congruence].
  - destruct (Hw u x b Hu) as [H|H]; [|left; exact H].
    destruct (Hm x) as [E'|[_ [t0 Hin]]].
    + right. split; [congruence|exists u; exact H].
    + (* the pending store of x was flushed: it is the witnessed one *)
      assert (Hw0 : wit s t0 x (M s' (SNext x))) by (right; exact Hin).
      destruct (I_pend _ _ HI u x b Hu) as (_ & _ & _ & Huniq). destruct (Huniq t0 _ Hw0) as [_ E']. left. exact E'.
Qed.
Lemma chain_step c (s : st8) st l : Inv s st -> forall a, chain s a l -> chain (fst (exec sloc sloc_eqb sprog c s)) a l.
Proof. intros HI a. apply chain_mono. intros x b _ H. apply (lnk_mono c s st x b HI H). Qed.
