From Coq Require Import List Arith NArith Bool Lia.
Import ListNotations.
Require Import Urcu.Base.MachE Urcu.Wfs.Wfs Urcu.Gen.Generated.
Local Open Scope N_scope.

Notation tup := (tupd sloc sprog).
Notation mkst m th := ({| smem := m; sthr := th |} : st8).
Definition mkts (p : sst) (b : sbuf sloc) : tstate sloc sprog := {| tpc := (p : pst sloc sprog); tbuf := b |}.

Lemma TH_same (s : st8) m t x : TH (mkst m (tup (sthr _ _ s) t x)) t = x.
Proof. unfold TH; cbn. apply tupd_same. Qed.
Lemma TH_other (s : st8) m t x u : u <> t -> TH (mkst m (tup (sthr _ _ s) t x)) u = TH s u.
Proof. intros H. unfold TH; cbn. apply tupd_other; exact H. Qed.

(* chain only depends on lnk *)
Lemma chain_mono (s s' : st8) l : forall a,
  (forall x b, In x l -> lnk s x b -> lnk s' x b) -> chain s a l -> chain s' a l.
Proof.
  induction l as [|x l IH]; intros a Hl Hc; cbn in *; [exact Hc|].
  destruct Hc as (-> & Hx & b & Hb & Hc). split; [reflexivity|]. split; [exact Hx|].
  exists b. split; [apply Hl; [left; reflexivity|exact Hb]|].
  apply IH; [|exact Hc]. intros y b' Hy. apply Hl. right; exact Hy.
Qed.

(* steps that change only the pc of t, not touching P_Store-ness, buffers, memory, future *)
Lemma Inv_pc_only (s : st8) st t (p' : sst) :
  (forall a b, scur p' = P_Store a b <-> PC s t = P_Store a b) ->
  (match scur p' with P_Mb n | P_Xchg n => [n] | _ => [] end ++ pushes (stodo p') = future s t) ->
  (match scur p' with P_Xchg _ | P_Store _ _ => BUF s t = [] | _ => True end) ->
  Inv s st -> Inv (mkst (smem _ _ s) (tup (sthr _ _ s) t (mkts p' (BUF s t)))) st.
Proof.
  intros Hps Hfut Hlen HI. set (s' := mkst _ _).
  assert (HM : forall l, M s' l = M s l) by reflexivity.
  assert (HB : forall u, BUF s' u = BUF s u).
  { intros u. unfold BUF. destruct (Nat.eq_dec u t) as [->|Hne]; [unfold s'; rewrite TH_same; reflexivity|unfold s'; rewrite TH_other by exact Hne; reflexivity]. }
  assert (HW : forall u a b, wit s' u a b <-> wit s u a b).
  { intros u a b. unfold wit. rewrite HB. unfold PC. destruct (Nat.eq_dec u t) as [->|Hne].
    - unfold s'; rewrite TH_same; cbn. rewrite Hps. unfold PC. tauto.
    - unfold s'; rewrite TH_other by exact Hne. tauto. }
  assert (HP : forall a b, pendP s' a b <-> pendP s a b).
  { intros a b; unfold pendP; split; intros [u Hu]; exists u; apply HW; exact Hu. }
  assert (HL : forall a b, lnk s' a b <-> lnk s a b).
  { intros a b. unfold lnk. rewrite HM, HP. tauto. }
  assert (HF : forall u, future s' u = future s u).
  { intros u. unfold future, PC. destruct (Nat.eq_dec u t) as [->|Hne].
    - unfold s'; rewrite TH_same; cbn. exact Hfut.
    - unfold s'; rewrite TH_other by exact Hne. reflexivity. }
  destruct HI as [H1 H2 H3 H4 H5 H6 H7 H8]. constructor.
  - exact H1.
  - rewrite HM. eapply chain_mono; [|exact H2]. intros x b _ Hl. apply HL; exact Hl.
  - intros u a b Hw. apply HW in Hw. destruct (H3 u a b Hw) as (A & B & C & D). rewrite HM.
    split; [exact A|]. split; [exact B|]. split; [exact C|].
    intros v b' Hv. apply HW in Hv. apply (D v b' Hv).
  - intros u. rewrite HB. destruct (H4 u) as [A B]. split; [exact A|].
    unfold PC. destruct (Nat.eq_dec u t) as [->|Hne].
    + unfold s'; rewrite TH_same; cbn. exact Hlen.
    + unfold s'; rewrite TH_other by exact Hne. exact B.
  - intros u l v. rewrite HB. apply H5.
  - intros u n. rewrite HF. intros Hn. destruct (H6 u n Hn) as (A & B & C & D). unfold fresh. rewrite HM.
    repeat split; auto. intros b Hb. apply HP in Hb. apply (D b Hb).
  - intros u v n. rewrite !HF. apply H7.
  - intros u. rewrite HF. apply H8.
Qed.

Definition witT (ts : tstate sloc sprog) (a b : N) : Prop :=
  scur (tpc _ _ ts) = P_Store a b \/ In (SNext a, b) (tbuf _ _ ts).
Definition futT (ts : tstate sloc sprog) : list N :=
  match scur (tpc _ _ ts) with P_Mb n | P_Xchg n => [n] | _ => [] end ++ pushes (stodo (tpc _ _ ts)).

Lemma wit_witT s t a b : wit s t a b <-> witT (TH s t) a b.
Proof. reflexivity. Qed.
Lemma future_futT s t : future s t = futT (TH s t).
Proof. reflexivity. Qed.

(* generic update of one thread, memory unchanged, same witnesses and future *)
Lemma Inv_thread_upd (s : st8) st t (ts' : tstate sloc sprog) :
  (forall a b, witT ts' a b <-> wit s t a b) ->
  futT ts' = future s t ->
  ((length (tbuf _ _ ts') <= 1)%nat /\
   match scur (tpc _ _ ts') with P_Xchg _ | P_Store _ _ => tbuf _ _ ts' = [] | _ => True end) ->
  (forall l v, In (l, v) (tbuf _ _ ts') -> exists a, l = SNext a) ->
  Inv s st -> Inv (mkst (smem _ _ s) (tup (sthr _ _ s) t ts')) st.
Proof.
  intros Hw Hfut Hlen Hbuf HI. set (s' := mkst _ _).
  assert (HM : forall l, M s' l = M s l) by reflexivity.
  assert (HT : forall u, u <> t -> TH s' u = TH s u) by (intros u Hne; unfold s'; apply TH_other; exact Hne).
  assert (HTt : TH s' t = ts') by (unfold s'; apply TH_same).
  assert (HW : forall u a b, wit s' u a b <-> wit s u a b).
  { intros u a b. rewrite !wit_witT. destruct (Nat.eq_dec u t) as [->|Hne]; [rewrite HTt; apply Hw|rewrite HT by exact Hne; tauto]. }
  assert (HP : forall a b, pendP s' a b <-> pendP s a b).
  { intros a b; unfold pendP; split; intros [u Hu]; exists u; apply HW; exact Hu. }
  assert (HL : forall a b, lnk s' a b <-> lnk s a b).
  { intros a b. unfold lnk. rewrite HM, HP. tauto. }
  assert (HF : forall u, future s' u = future s u).
  { intros u. rewrite !future_futT. destruct (Nat.eq_dec u t) as [->|Hne]; [rewrite HTt; exact Hfut|rewrite HT by exact Hne; reflexivity]. }
  destruct HI as [H1 H2 H3 H4 H5 H6 H7 H8]. constructor.
  - exact H1.
  - rewrite HM. eapply chain_mono; [|exact H2]. intros x b _ Hl. apply HL; exact Hl.
  - intros u a b Hu. apply HW in Hu. destruct (H3 u a b Hu) as (A & B & C & D). rewrite HM.
    split; [exact A|]. split; [exact B|]. split; [exact C|].
    intros v b' Hv. apply HW in Hv. apply (D v b' Hv).
  - intros u. unfold BUF, PC. destruct (Nat.eq_dec u t) as [->|Hne]; [rewrite HTt; exact Hlen|rewrite HT by exact Hne; apply H4].
  - intros u l v. unfold BUF. destruct (Nat.eq_dec u t) as [->|Hne]; [rewrite HTt; apply Hbuf|rewrite HT by exact Hne; apply H5].
  - intros u n. rewrite HF. intros Hn. destruct (H6 u n Hn) as (A & B & C & D). unfold fresh. rewrite HM.
    split; [exact A|]. split; [exact B|]. split; [exact C|]. intros b Hb. apply HP in Hb. apply (D b Hb).
  - intros u v n. rewrite !HF. apply H7.
  - intros u. rewrite HF. apply H8.
Qed.

Lemma Inv_flush (s : st8) st t l v b' :
  BUF s t = (l, v) :: b' -> Inv s st ->
  Inv (mkst (upd sloc sloc_eqb (smem _ _ s) l v) (tup (sthr _ _ s) t (mkts (tpc _ _ (TH s t)) b'))) st.
Proof.
  intros Eb HI. pose proof HI as [H1 H2 H3 H4 H5 H6 H7 H8].
  destruct (H4 t) as [Hlen Hpc]. rewrite Eb in Hlen. cbn in Hlen. assert (b' = []) by (destruct b'; [reflexivity|cbn in Hlen; lia]). subst b'.
  destruct (H5 t l v) as [a ->]; [rewrite Eb; left; reflexivity|].
  assert (Hwt : wit s t a v) by (right; rewrite Eb; left; reflexivity).
  destruct (H3 t a v Hwt) as (A0 & Av & Aa & Auniq).
  assert (HnoPS : forall x y, PC s t <> P_Store x y).
  { intros x y E. rewrite E in Hpc. rewrite Eb in Hpc. discriminate. }
  set (s' := mkst _ _).
  assert (HMa : M s' (SNext a) = v) by (unfold s', M; cbn; apply (upd_same sloc sloc_eqb sloc_eqb_spec)).
  assert (HMo : forall l', l' <> SNext a -> M s' l' = M s l').
  { intros l' Hne. unfold s', M; cbn. apply (upd_other sloc sloc_eqb sloc_eqb_spec). congruence. }
  assert (HTt : TH s' t = mkts (tpc _ _ (TH s t)) []) by (unfold s'; apply TH_same).
  assert (HT : forall u, u <> t -> TH s' u = TH s u) by (intros u Hne; unfold s'; apply TH_other; exact Hne).
  assert (HW1 : forall u x y, wit s' u x y -> wit s u x y /\ u <> t).
  { intros u x y. rewrite !wit_witT. destruct (Nat.eq_dec u t) as [->|Hne].
    - rewrite HTt. unfold witT; cbn. intros [E|[]]. exfalso. apply (HnoPS x y). exact E.
    - rewrite HT by exact Hne. tauto. }
  assert (HW2 : forall u x y, wit s u x y -> u <> t -> wit s' u x y).
  { intros u x y Hw Hne. rewrite wit_witT in *. rewrite HT by exact Hne. exact Hw. }
  assert (HWt : forall x y, wit s t x y -> x = a /\ y = v).
  { intros x y [E|Hin]; [destruct (HnoPS x y E)|]. rewrite Eb in Hin. destruct Hin as [E|[]]. inversion E; auto. }
  assert (HF : forall u, future s' u = future s u).
  { intros u. rewrite !future_futT. destruct (Nat.eq_dec u t) as [->|Hne]; [rewrite HTt; reflexivity|rewrite HT by exact Hne; reflexivity]. }
  assert (HL : forall x b, lnk s x b -> lnk s' x b).
  { intros x b [Hb [Hm|[Hm [u Hu]]]].
    - split; [exact Hb|]. left. destruct (N.eq_dec x a) as [->|Hne]; [rewrite A0 in Hm; congruence|].
      rewrite HMo by congruence. exact Hm.
    - destruct (Nat.eq_dec u t) as [->|Hne].
      + destruct (HWt x b Hu) as [-> ->]. split; [exact Hb|]. left. exact HMa.
      + split; [exact Hb|]. destruct (N.eq_dec x a) as [->|Hxa].
        * destruct (Auniq u b Hu) as [E _]. contradiction.
        * right. split; [rewrite HMo by congruence; exact Hm|]. exists u. apply HW2; assumption. }
  constructor.
  - rewrite HMo by discriminate. exact H1.
  - rewrite HMo by discriminate. eapply chain_mono; [|exact H2]. intros x b _. apply HL.
  - intros u x y Hu. destruct (HW1 u x y Hu) as [Hu' Hne]. destruct (H3 u x y Hu') as (A & B & C & D).
    assert (x <> a). { intros ->. destruct (Auniq u y Hu') as [E _]. contradiction. }
    split; [rewrite HMo by congruence; exact A|]. split; [exact B|]. split; [exact C|].
    intros w y' Hw. destruct (HW1 w x y' Hw) as [Hw' _]. apply (D w y' Hw').
  - intros u. unfold BUF, PC. destruct (Nat.eq_dec u t) as [->|Hne].
    + rewrite HTt; cbn. split; [lia|]. destruct (scur (tpc sloc sprog (TH s t))); auto.
    + rewrite HT by exact Hne. apply H4.
  - intros u l v0. unfold BUF. destruct (Nat.eq_dec u t) as [->|Hne]; [rewrite HTt; cbn; intros []|rewrite HT by exact Hne; apply H5].
  - intros u n. rewrite HF. intros Hn. destruct (H6 u n Hn) as (A & B & C & D).
    assert (n <> a) by (intros ->; apply (D v); exists t; exact Hwt).
    split; [exact A|]. split; [rewrite HMo by congruence; exact B|]. split; [exact C|].
    intros b [w Hw]. destruct (HW1 w n b Hw) as [Hw' _]. apply (D b). exists w. exact Hw'.
  - intros u w n. rewrite !HF. apply H7.
  - intros u. rewrite HF. apply H8.
Qed.

Lemma Inv_push_xchg (s : st8) st t n rest :
  tpc _ _ (TH s t) = {| scur := P_Xchg n; stodo := rest |} -> Inv s st ->
  Inv (mkst (upd sloc sloc_eqb (smem _ _ s) SHead n)
            (tup (sthr _ _ s) t (mkts {| scur := P_Store n (M s SHead); stodo := rest |} []))) (n :: st).
Proof.
  intros Epc HI. pose proof HI as [H1 H2 H3 H4 H5 H6 H7 H8].
  assert (EPC : PC s t = P_Xchg n) by (unfold PC; rewrite Epc; reflexivity).
  destruct (H4 t) as [_ Hb]. rewrite EPC in Hb.
  assert (Hfut : future s t = n :: pushes rest) by (unfold future; rewrite EPC; unfold TH in Epc |- *; rewrite Epc; reflexivity).
  assert (Hn : fresh s st n) by (apply (H6 t); rewrite Hfut; left; reflexivity).
  destruct Hn as (Hn2 & Hn0 & Hnst & Hnp).
  set (old := M s SHead). set (s' := mkst _ _).
  assert (HMh : M s' SHead = n) by reflexivity.
  assert (HMo : forall a, M s' (SNext a) = M s (SNext a)) by reflexivity.
  assert (HTt : TH s' t = mkts {| scur := P_Store n old; stodo := rest |} []) by (unfold s'; apply TH_same).
  assert (HT : forall u, u <> t -> TH s' u = TH s u) by (intros u Hne; unfold s'; apply TH_other; exact Hne).
  assert (HnoW : forall x y, ~ wit s t x y).
  { intros x y [E|Hin]; [rewrite EPC in E; discriminate|rewrite Hb in Hin; destruct Hin]. }
  assert (HW1 : forall u x y, wit s' u x y -> (u = t /\ x = n /\ y = old) \/ (u <> t /\ wit s u x y)).
  { intros u x y. rewrite !wit_witT. destruct (Nat.eq_dec u t) as [->|Hne].
    - rewrite HTt. unfold witT; cbn. intros [E|[]]. inversion E. left; auto.
    - rewrite HT by exact Hne. intros H. right. split; [exact Hne|exact H]. }
  assert (HW2 : forall u x y, wit s u x y -> wit s' u x y).
  { intros u x y Hw. destruct (Nat.eq_dec u t) as [->|Hne]; [destruct (HnoW x y Hw)|].
    rewrite wit_witT in *. rewrite HT by exact Hne. exact Hw. }
  assert (HWn : wit s' t n old) by (rewrite wit_witT, HTt; left; reflexivity).
  assert (HL : forall x b, lnk s x b -> lnk s' x b).
  { intros x b [Hb0 [Hm|[Hm [u Hu]]]]; (split; [exact Hb0|]).
    - left. rewrite HMo. exact Hm.
    - right. split; [rewrite HMo; exact Hm|]. exists u. apply HW2. exact Hu. }
  assert (HFt : future s' t = pushes rest) by (rewrite future_futT, HTt; reflexivity).
  assert (HF : forall u, u <> t -> future s' u = future s u) by (intros u Hne; rewrite !future_futT, HT by exact Hne; reflexivity).
  assert (HFin : forall u m, In m (future s' u) -> In m (future s u) /\ m <> n).
  { intros u m Hm. destruct (Nat.eq_dec u t) as [->|Hne].
    - rewrite HFt in Hm. split; [rewrite Hfut; right; exact Hm|].
      pose proof (H8 t) as Hnd. rewrite Hfut in Hnd. inversion Hnd as [|? ? Hnotin Hnd']. intros E. apply Hnotin. rewrite <- E. exact Hm.
    - rewrite HF in Hm by exact Hne. split; [exact Hm|]. intros ->.
      apply Hne. apply (H7 u t n); [exact Hm|rewrite Hfut; left; reflexivity]. }
  constructor.
  - rewrite HMh. lia.
  - rewrite HMh. cbn [chain]. split; [reflexivity|]. split; [exact Hn2|]. exists old. split.
    + split; [exact H1|]. right. split; [rewrite HMo; exact Hn0|]. exists t. exact HWn.
    + eapply chain_mono; [|exact H2]. intros x b _. apply HL.
  - intros u x y Hu. destruct (HW1 u x y Hu) as [(-> & -> & ->)|[Hne Hu']].
    + split; [rewrite HMo; exact Hn0|]. split; [exact H1|]. split; [exact Hn2|].
      intros w y' Hw. destruct (HW1 w n y' Hw) as [(-> & _ & ->)|[_ Hw']]; [auto|].
      exfalso. apply (Hnp y'). exists w. exact Hw'.
    + destruct (H3 u x y Hu') as (A & B & C & D).
      split; [rewrite HMo; exact A|]. split; [exact B|]. split; [exact C|].
      intros w y' Hw. destruct (HW1 w x y' Hw) as [(-> & -> & ->)|[_ Hw']]; [|apply (D w y' Hw')].
      exfalso. apply (Hnp y). exists u. exact Hu'.
  - intros u. unfold BUF, PC. destruct (Nat.eq_dec u t) as [->|Hne].
    + rewrite HTt; cbn. split; [lia|reflexivity].
    + rewrite HT by exact Hne. apply H4.
  - intros u l v. unfold BUF. destruct (Nat.eq_dec u t) as [->|Hne]; [rewrite HTt; cbn; intros []|rewrite HT by exact Hne; apply H5].
  - intros u m Hm. destruct (HFin u m Hm) as [Hm' Hmn]. destruct (H6 u m Hm') as (A & B & C & D).
    split; [exact A|]. split; [rewrite HMo; exact B|]. split.
    + intros [E|Hin]; [congruence|contradiction].
    + intros b [w Hw]. destruct (HW1 w m b Hw) as [(_ & -> & _)|[_ Hw']]; [congruence|]. apply (D b). exists w. exact Hw'.
  - intros u w m Hu Hw. apply (H7 u w m); [apply (HFin u m Hu)|apply (HFin w m Hw)].
  - intros u. destruct (Nat.eq_dec u t) as [->|Hne].
    + rewrite HFt. pose proof (H8 t) as Hnd. rewrite Hfut in Hnd. inversion Hnd; assumption.
    + rewrite HF by exact Hne. apply H8.
Qed.

Lemma Inv_popall_xchg (s : st8) st t rest :
  tpc _ _ (TH s t) = {| scur := A_Xchg; stodo := rest |} -> BUF s t = [] -> Inv s st ->
  Inv (mkst (upd sloc sloc_eqb (smem _ _ s) SHead vend)
            (tup (sthr _ _ s) t (mkts {| scur := A_Iter (M s SHead); stodo := rest |} []))) [].
Proof.
  intros Epc Eb HI. pose proof HI as [H1 H2 H3 H4 H5 H6 H7 H8].
  assert (EPC : PC s t = A_Xchg) by (unfold PC; rewrite Epc; reflexivity).
  set (s' := mkst _ _).
  assert (HMh : M s' SHead = vend) by reflexivity.
  assert (HMo : forall a, M s' (SNext a) = M s (SNext a)) by reflexivity.
  assert (HTt : TH s' t = mkts {| scur := A_Iter (M s SHead); stodo := rest |} []) by (unfold s'; apply TH_same).
  assert (HT : forall u, u <> t -> TH s' u = TH s u) by (intros u Hne; unfold s'; apply TH_other; exact Hne).
  assert (HW : forall u x y, wit s' u x y <-> wit s u x y).
  { intros u x y. rewrite !wit_witT. destruct (Nat.eq_dec u t) as [->|Hne].
    - rewrite HTt. unfold witT, TH in *; cbn. rewrite Epc. unfold BUF, TH in Eb. rewrite Eb. cbn. split; intros [E|[]]; discriminate.
    - rewrite HT by exact Hne. tauto. }
  assert (HF : forall u, future s' u = future s u).
  { intros u. rewrite !future_futT. destruct (Nat.eq_dec u t) as [->|Hne]; [rewrite HTt; unfold futT; rewrite Epc; reflexivity|rewrite HT by exact Hne; reflexivity]. }
  constructor.
  - rewrite HMh. discriminate.
  - rewrite HMh. reflexivity.
  - intros u x y Hu. apply HW in Hu. destruct (H3 u x y Hu) as (A & B & C & D).
    split; [rewrite HMo; exact A|]. split; [exact B|]. split; [exact C|].
    intros w y' Hw. apply HW in Hw. apply (D w y' Hw).
  - intros u. unfold BUF, PC. destruct (Nat.eq_dec u t) as [->|Hne]; [rewrite HTt; cbn; split; [lia|exact I]|rewrite HT by exact Hne; apply H4].
  - intros u l v. unfold BUF. destruct (Nat.eq_dec u t) as [->|Hne]; [rewrite HTt; cbn; intros []|rewrite HT by exact Hne; apply H5].
  - intros u m. rewrite HF. intros Hm. destruct (H6 u m Hm) as (A & B & C & D).
    split; [exact A|]. split; [rewrite HMo; exact B|]. split; [intros []|].
    intros b [w Hw]. apply HW in Hw. apply (D b). exists w. exact Hw.
  - intros u w m. rewrite !HF. apply H7.
  - intros u. rewrite HF. apply H8.
Qed.

Lemma Inv_popall_xchg_mb (s : st8) st t rest :
  tpc _ _ (TH s t) = {| scur := A_Xchg; stodo := rest |} -> BUF s t = [] -> Inv s st ->
  Inv (mkst (upd sloc sloc_eqb (smem _ _ s) SHead vend)
            (tup (sthr _ _ s) t (mkts {| scur := A_Mb (M s SHead); stodo := rest |} []))) [].
Proof.
  intros Epc Eb HI. pose proof HI as [H1 H2 H3 H4 H5 H6 H7 H8].
  assert (EPC : PC s t = A_Xchg) by (unfold PC; rewrite Epc; reflexivity).
  set (s' := mkst _ _).
  assert (HMh : M s' SHead = vend) by reflexivity.
  assert (HMo : forall a, M s' (SNext a) = M s (SNext a)) by reflexivity.
  assert (HTt : TH s' t = mkts {| scur := A_Mb (M s SHead); stodo := rest |} []) by (unfold s'; apply TH_same).
  assert (HT : forall u, u <> t -> TH s' u = TH s u) by (intros u Hne; unfold s'; apply TH_other; exact Hne).
  assert (HW : forall u x y, wit s' u x y <-> wit s u x y).
  { intros u x y. rewrite !wit_witT. destruct (Nat.eq_dec u t) as [->|Hne].
    - rewrite HTt. unfold witT, TH in *; cbn. rewrite Epc. unfold BUF, TH in Eb. rewrite Eb. cbn. split; intros [E|[]]; discriminate.
    - rewrite HT by exact Hne. tauto. }
  assert (HF : forall u, future s' u = future s u).
  { intros u. rewrite !future_futT. destruct (Nat.eq_dec u t) as [->|Hne]; [rewrite HTt; unfold futT; rewrite Epc; reflexivity|rewrite HT by exact Hne; reflexivity]. }
  constructor.
  - rewrite HMh. discriminate.
  - rewrite HMh. reflexivity.
  - intros u x y Hu. apply HW in Hu. destruct (H3 u x y Hu) as (A & B & C & D).
    split; [rewrite HMo; exact A|]. split; [exact B|]. split; [exact C|].
    intros w y' Hw. apply HW in Hw. apply (D w y' Hw).
  - intros u. unfold BUF, PC. destruct (Nat.eq_dec u t) as [->|Hne]; [rewrite HTt; cbn; split; [lia|exact I]|rewrite HT by exact Hne; apply H4].
  - intros u l v. unfold BUF. destruct (Nat.eq_dec u t) as [->|Hne]; [rewrite HTt; cbn; intros []|rewrite HT by exact Hne; apply H5].
  - intros u m. rewrite HF. intros Hm. destruct (H6 u m Hm) as (A & B & C & D).
    split; [exact A|]. split; [rewrite HMo; exact B|]. split; [intros []|].
    intros b [w Hw]. apply HW in Hw. apply (D b). exists w. exact Hw.
  - intros u w m. rewrite !HF. apply H7.
  - intros u. rewrite HF. apply H8.
Qed.

Lemma st_eta (s : st8) : s = mkst (smem _ _ s) (sthr _ _ s).
Proof. destruct s; reflexivity. Qed.

Lemma Inv_gexec c s st : Inv s st -> Inv (fst (gexec c (s, st))) (snd (gexec c (s, st))).
Proof.
  intros HI. destruct c as [t|t]; unfold gexec, exec; cbn [fst snd].
  - (* Step t *)
    unfold tstep. change (sthr sloc sprog s t) with (TH s t). cbn [pact pnext sprog]. fold (BUF s t).
    destruct (tpc _ _ (TH s t)) as [pc todo] eqn:Etp.
    assert (EPC : PC s t = pc) by (unfold PC; rewrite Etp; reflexivity).
    assert (Efut : future s t = match pc with P_Mb n | P_Xchg n => [n] | _ => [] end ++ pushes todo)
      by (unfold future; rewrite EPC; unfold TH in Etp |- *; rewrite Etp; reflexivity).
    assert (HWno : forall a b, (forall x y, pc <> P_Store x y) -> wit s t a b <-> In (SNext a, b) (BUF s t)).
    { intros a b Hno. unfold wit. rewrite EPC. split; [intros [E|H]; [destruct (Hno _ _ E)|exact H]|intros H; right; exact H]. }
    unfold sact; cbn [scur stodo].
    destruct pc as [|n|n|n old|rb| |cur|cur|cur]; cbn [snext scur stodo].
    + (* Idle *)
      destruct todo as [|[n|] rest]; cbn [fst snd gupd].
      * exact HI.
      * apply Inv_thread_upd; try exact HI; unfold witT, futT; cbn.
        -- intros a b. rewrite (HWno a b) by discriminate. split; [intros [E|H]; [discriminate|exact H]|intros H; right; exact H].
        -- rewrite Efut. reflexivity.
        -- split; [apply (I_len _ _ HI t)|exact I].
        -- apply (I_buf _ _ HI t).
      * apply Inv_thread_upd; try exact HI; unfold witT, futT; cbn.
        -- intros a b. rewrite (HWno a b) by discriminate. split; [intros [E|H]; [discriminate|exact H]|intros H; right; exact H].
        -- rewrite Efut. reflexivity.
        -- split; [apply (I_len _ _ HI t)|exact I].
        -- apply (I_buf _ _ HI t).
    + (* P_Mb: fence needs an empty buffer *)
      idtac.
      destruct (BUF s t) eqn:Eb; cbn [fst snd gupd]; [|exact HI].
      apply Inv_thread_upd; try exact HI; unfold witT, futT; cbn.
      * intros a b. rewrite (HWno a b) by discriminate. split; [intros [E|[]]; discriminate|intros []].
      * rewrite Efut. reflexivity.
      * split; [lia|reflexivity].
      * intros l v [].
    + (* P_Xchg *)
      idtac.
      destruct (BUF s t) eqn:Eb; cbn [fst snd gupd]; [|exact HI].
      pose proof (I_fresh _ _ HI t n) as Hfr. rewrite Efut in Hfr. destruct (Hfr (or_introl eq_refl)) as (Hn2 & _).
      replace (n =? vend) with false by (symmetry; apply N.eqb_neq; unfold vend; lia).
      apply (Inv_push_xchg s st t n todo Etp HI).
    + (* P_Store *)
      idtac. cbn [fst snd gupd].
      pose proof (I_len _ _ HI t) as [_ Hb]. rewrite EPC in Hb. rewrite Hb.
      apply Inv_thread_upd; try exact HI; unfold witT, futT; cbn.
      * intros a b. unfold wit. rewrite EPC, Hb. split.
        -- intros [E|[E|[]]]; [discriminate|]. inversion E. left; reflexivity.
        -- intros [E|[]]. inversion E. right; left; reflexivity.
      * rewrite Efut. reflexivity.
      * split; [lia|exact I].
      * intros l v [E|[]]. inversion E. eexists; reflexivity.
    + (* P_Ret *)
      idtac. cbn [fst snd gupd].
      apply Inv_thread_upd; try exact HI; unfold witT, futT; cbn.
      * intros a b. rewrite (HWno a b) by discriminate. split; [intros [E|H]; [discriminate|exact H]|intros H; right; exact H].
      * rewrite Efut. reflexivity.
      * split; [apply (I_len _ _ HI t)|exact I].
      * apply (I_buf _ _ HI t).
    + (* A_Xchg *)
      idtac.
      destruct (BUF s t) eqn:Eb; cbn [fst snd gupd]; [|exact HI].
      rewrite N.eqb_refl. destruct emit_legacy_mb; [apply (Inv_popall_xchg_mb s st t todo Etp Eb HI)|apply (Inv_popall_xchg s st t todo Etp Eb HI)].
    + (* A_Mb: fence needs an empty buffer *)
      idtac.
      destruct (BUF s t) eqn:Eb; cbn [fst snd gupd]; [|exact HI].
      apply Inv_thread_upd; try exact HI; unfold witT, futT; cbn.
      * intros a b. rewrite (HWno a b) by discriminate. split; [intros [E|[]]; discriminate|intros []].
      * rewrite Efut. reflexivity.
      * split; [lia|reflexivity].
      * intros l v [].
    + (* A_Iter *)
      idtac.
      destruct (cur =? vend); cbn [fst snd gupd].
      * apply Inv_thread_upd; try exact HI; unfold witT, futT; cbn.
        -- intros a b. rewrite (HWno a b) by discriminate. split; [intros [E|H]; [discriminate|exact H]|intros H; right; exact H].
        -- rewrite Efut. reflexivity.
        -- split; [apply (I_len _ _ HI t)|exact I].
        -- apply (I_buf _ _ HI t).
      * set (r := match buf_lookup sloc sloc_eqb (BUF s t) (SNext cur) with Some v => v | None => smem sloc sprog s (SNext cur) end).
        destruct (r =? 0); apply Inv_thread_upd; try exact HI; unfold witT, futT; cbn;
        try (intros a b; rewrite (HWno a b) by discriminate; split; [intros [E|H]; [discriminate|exact H]|intros H; right; exact H]);
        try (rewrite Efut; reflexivity); try (split; [apply (I_len _ _ HI t)|exact I]); try apply (I_buf _ _ HI t).
    + (* A_Wait *)
      idtac. cbn [fst snd gupd].
      apply Inv_thread_upd; try exact HI; unfold witT, futT; cbn.
      * intros a b. rewrite (HWno a b) by discriminate. split; [intros [E|H]; [discriminate|exact H]|intros H; right; exact H].
      * rewrite Efut. reflexivity.
      * split; [apply (I_len _ _ HI t)|exact I].
      * apply (I_buf _ _ HI t).
  - (* Flush t *)
    change (sthr sloc sprog s t) with (TH s t). fold (BUF s t).
    destruct (BUF s t) as [|[l v] b'] eqn:Eb; cbn [fst snd gupd]; [exact HI|].
    apply (Inv_flush s st t l v b' Eb HI).
Qed.

Fixpoint grun (cs : list choice) (g : st8 * list N) : st8 * list N :=
  match cs with [] => g | c :: cs' => grun cs' (gexec c g) end.

Theorem wfs_chain_all_schedules :
  forall cs s st, Inv s st -> Inv (fst (grun cs (s, st))) (snd (grun cs (s, st))).
Proof.
  induction cs as [|c cs IH]; intros s st HI; [exact HI|].
  cbn [grun]. pose proof (Inv_gexec c s st HI) as H1. destruct (gexec c (s, st)) as [s1 st1]. apply IH. exact H1.
Qed.
Print Assumptions wfs_chain_all_schedules.
