(* executable entry point of the wfstack model (used by the correspondence driver) *)
From Coq Require Import List Arith NArith Bool Lia.
Import ListNotations.
Require Import Urcu.Base.MachE Urcu.Wfs.Wfs Urcu.Gen.Generated.
Local Open Scope N_scope.
Definition init_mem : mem sloc := fun l => match l with SHead => vend | SNext _ => 0 end.
Definition init_state (threads : nat -> list sop) : state sloc sprog :=
  {| smem := init_mem; sthr := fun t => {| tpc := ({| scur := S_Idle; stodo := threads t |} : pst sloc sprog); tbuf := [] |} |}.
Definition run_s (threads : nat -> list sop) (cs : list choice) : list (event sloc) :=
  snd (run sloc sloc_eqb sprog cs (init_state threads)).
(* the model's end-of-stack sentinel is the source's CDS_WFS_END *)
Lemma vend_is_source_constant : vend = cds_wfs_end.
Proof. reflexivity. Qed.
