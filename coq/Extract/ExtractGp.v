From Coq Require Import Extraction ExtrOcamlBasic.
Require Import Urcu.Gp.GpCore Urcu.Gp.GpExec.
Extraction "gp_model.ml" gexec init.
