From Coq Require Import Extraction ExtrOcamlBasic.
Require Import Urcu.Fork.Fork Urcu.Fork.ForkRun.
Extraction "fork_model.ml" fstep frun_idx queues init enabled.
