From Coq Require Import Extraction ExtrOcamlBasic.
Require Import Urcu.Fork.WqPause.
Extraction "wqpause_model.ml" wqexec init.
