From Coq Require Import Extraction ExtrOcamlBasic.
Require Import Urcu.Base.MachD Urcu.Lfs.Lfs.
Extraction "lfs_model.ml" run_l.
