From Coq Require Import Extraction ExtrOcamlBasic.
Require Import Urcu.ListDl.ListDl.
Extraction "listdl_model.ml" lstep lmem0 l_empty.
