From Coq Require Import Extraction ExtrOcamlBasic.
Require Import Urcu.Lfht.FlagProto.
Extraction "flagproto_model.ml" frun_idx fword0.
