From Coq Require Import Extraction ExtrOcamlBasic.
Require Import Urcu.Handler.HandlerExec.
Extraction "handler_model.ml" lockw unlockw simw nestw.
