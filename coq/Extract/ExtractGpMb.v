From Coq Require Import Extraction ExtrOcamlBasic.
Require Import Urcu.Gp.GpMb Urcu.Gp.GpMbExec.
Extraction "gpmb_model.ml" mexec init.
