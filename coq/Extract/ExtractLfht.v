From Coq Require Import Extraction ExtrOcamlBasic.
Require Import Urcu.Base.MachD Urcu.Lfht.Lfht.
Extraction "lfht_model.ml" run_h.
