From Coq Require Import Extraction ExtrOcamlBasic.
Require Import Urcu.Gp.GpMbDyn Urcu.Gp.GpMbDynExec.
Extraction "gpmbdyn_model.ml" mexec init.
