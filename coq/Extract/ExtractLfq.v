(* extraction of the executable rculfqueue model; ExtrOcamlBasic only, no Extract Constant *)
From Coq Require Import Extraction ExtrOcamlBasic.
Require Import Urcu.Base.MachD Urcu.Lfq.Lfq.
Extraction "lfq_model.ml" run_q.
