From Coq Require Import Extraction ExtrOcamlBasic.
Require Import Urcu.BpArena.BpArena.
Extraction "bparena_model.ml" alloc free prune.
