From Coq Require Import Extraction ExtrOcamlBasic.
Require Import Urcu.Uatomic.Uatomic.
Extraction "uatomic_model.ml" exec wr rd.
