From Coq Require Import Extraction ExtrOcamlBasic.
Require Import Urcu.Poll.Poll Urcu.Poll.PollWord.
Extraction "poll_model.ml" wstep winit.
