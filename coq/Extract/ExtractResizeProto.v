From Coq Require Import Extraction ExtrOcamlBasic.
Require Import Urcu.Lfht.ResizeProto.
Extraction "resizeproto_model.ml" prun_idx pinit.
