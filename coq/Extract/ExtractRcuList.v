From Coq Require Import Extraction ExtrOcamlBasic.
Require Import Urcu.RcuList.RcuList.
Extraction "rculist_model.ml" exec init.
