From Coq Require Import Extraction ExtrOcamlBasic.
Require Import Urcu.Progress.LazyCount.
Extraction "lazycount_model.ml" lazy_count shrink_run.
