From Coq Require Import Extraction ExtrOcamlBasic.
Require Import Urcu.LfhtSeq.SeqTable Urcu.LfhtSeq.BucketIdx.
Extraction "seqtable_model.ml" sstep order_at chunk_at.
