From Coq Require Import Extraction ExtrOcamlBasic.
Require Import Urcu.Gp.GpQsbr Urcu.Gp.GpQsbrExec.
Extraction "gpqsbr_model.ml" qexec init_on.
