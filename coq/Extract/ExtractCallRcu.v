From Coq Require Import Extraction ExtrOcamlBasic.
Require Import Urcu.CallRcu.CallRcuExec.
Extraction "callrcu_model.ml" cexec init.
