From Coq Require Import Extraction ExtrOcamlBasic.
Require Import Urcu.Base.MachE Urcu.Wfs.Wfs Urcu.Wfs.WfsRun.
Extraction "wfs_model.ml" run_s.
