From Coq Require Import Extraction ExtrOcamlBasic.
Require Import Urcu.Defer.Defer Urcu.Defer.DeferRing Urcu.Defer.DeferRun.
Extraction "defer_model.ml" dstep ring0.
