From Coq Require Import Extraction ExtrOcamlBasic.
Require Import Urcu.Base.MachE Urcu.Wfcq.Wfcq Urcu.Wfcq.WfcqRun.
Extraction "wfcq_model.ml" run_w.
