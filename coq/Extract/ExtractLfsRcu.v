From Coq Require Import Extraction ExtrOcamlBasic.
Require Import Urcu.LfsRcu.LfsRcu Urcu.LfsRcu.LfsRcuProof Urcu.LfsRcu.LfsRcuExec.
Extraction "lfsrcu_model.ml" rexec init.
