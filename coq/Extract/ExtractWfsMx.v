From Coq Require Import Extraction ExtrOcamlBasic.
Require Import Urcu.WfsMx.WfsMx Urcu.WfsMx.WfsMxProof Urcu.WfsMx.WfsMxExec.
Extraction "wfsmx_model.ml" accept mfail init threads_of.
