From Coq Require Import Extraction ExtrOcamlBasic.
Require Import Urcu.Gp.GpDynCore Urcu.Gp.GpDynProof Urcu.Gp.GpDynExec.
Extraction "gpdyn_model.ml" gexec init0.
