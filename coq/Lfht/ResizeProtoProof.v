(* Safety of the resize grace-period protocol: in every run accepted by ResizeProto.pstep, no read-side section holds a released bucket
   table, and no section could come to touch one by the reader rule - for every interleaving of resizer and reader actions. *)
From Coq Require Import List Arith Bool Lia.
Import ListNotations.
Require Import Urcu.Lfht.ResizeProto.

Lemma updf_same {A} (f : nat -> A) i x : updf f i x i = x.
Proof. unfold updf. now rewrite Nat.eqb_refl. Qed.
Lemma updf_other {A} (f : nat -> A) i x j : j <> i -> updf f i x j = f j.
Proof. unfold updf. intros H. destruct (Nat.eqb_spec j i); congruence. Qed.

Lemma tstat_eqb_spec a b : reflect (a = b) (tstat_eqb a b).
Proof. destruct a, b; cbn; constructor; congruence. Qed.

Ltac pcbn := cbn [now size sb unpub_at tb cur rd ps insec sec since snap holds tord tst nlink nflag done_at set_tb set_rd fst snd tick].
Definition gone (x : tstat) : Prop := x = TUnlinking \/ x = TUnlinked \/ x = TFreed.

(* recorded times are strictly in the past between two actions (st = true), and at most the current time right after an action, before the tick *)
Definition tlt (st : bool) (a b : nat) : Prop := if st then a < b else a <= b.
Record Inv (st : bool) (s : pst) : Prop := {
  I_t1 : forall r, insec (rd s r) = true -> tlt st (since (rd s r)) (now s);
  I_t2 : forall o, tlt st (unpub_at s o) (now s);
  I_t3 : tlt st (sb s) (now s);
  I_t4 : forall id, tlt st (done_at (tb s id)) (now s);
  I_t5 : forall t b W, ps s t = Some (b, W) -> tlt st b (now s);
  I_bound : forall r, insec (rd s r) = true -> r < NR;
  (* a section that read a size covering an order that is no longer published began before the size dropped *)
  I_K1 : forall r k o, insec (rd s r) = true -> snap (rd s r) = Some k -> o <= k -> size s < o -> since (rd s r) < unpub_at s o;
  (* ... and after a grace period that began after the drop there is none left *)
  I_K2 : forall r k o, insec (rd s r) = true -> snap (rd s r) = Some k -> o <= k -> size s < o -> unpub_at s o <= sb s -> False;
  (* a synchronize_rcu in progress recorded every section older than its beginning *)
  I_K3 : forall t b W r, ps s t = Some (b, W) -> insec (rd s r) = true -> since (rd s r) < b -> In (r, sec (rd s r)) W;
  (* sections holding an unlinked table began before the unlinking was complete; none is left after a later grace period *)
  I_K4 : forall r id, insec (rd s r) = true -> holds (rd s r) id = true -> tst (tb s id) = TUnlinked -> since (rd s r) < done_at (tb s id);
  I_K5 : forall r id, insec (rd s r) = true -> holds (rd s r) id = true -> tst (tb s id) = TUnlinked -> done_at (tb s id) <= sb s -> False;
  (* a table being unlinked, unlinked or released while still the current one of its order: the order is unpublished and a grace period has passed since *)
  I_K6 : forall id, gone (tst (tb s id)) -> cur s (tord (tb s id)) = Some id -> size s < tord (tb s id) /\ unpub_at s (tord (tb s id)) <= sb s;
  I_K6c : forall id, tst (tb s id) = TUnlinking \/ tst (tb s id) = TUnlinked -> cur s (tord (tb s id)) = Some id;
  (* published orders have a live current table *)
  I_K8 : forall o, o <= size s -> exists id, cur s o = Some id /\ tst (tb s id) = TLive /\ tord (tb s id) = o;
  (* the property *)
  I_safe : forall r id, insec (rd s r) = true -> holds (rd s r) id = true -> tst (tb s id) <> TFreed
}.

Lemma Inv_tick s : Inv false s -> Inv true (tick s).
Proof.
  intros [A1 A2 A3 A4 A5 B K1 K2 K3 K4 K5 K6 K6c K8 SF]. unfold tlt in *. constructor; unfold tlt; pcbn; eauto.
  - intros r H. specialize (A1 r H). lia.
  - intros o. specialize (A2 o). lia.
  - lia.
  - intros id. specialize (A4 id). lia.
  - intros t b W H. specialize (A5 t b W H). lia.
Qed.

Lemma Inv_init k : Inv true (pinit k).
Proof.
  constructor; unfold pinit, tlt; cbn [now size sb unpub_at tb cur rd ps rd0 insec snap holds since sec]; try (intros; discriminate); try lia.
  - intros id. destruct ((1 <=? id) && (id <=? S k)); cbn; lia.
  - intros id Hg. destruct ((1 <=? id) && (id <=? S k)); cbn in *; destruct Hg as [H|[H|H]]; discriminate.
  - intros id Hg. destruct ((1 <=? id) && (id <=? S k)); cbn in *; destruct Hg as [H|H]; discriminate.
  - intros o Ho. exists (S o). destruct (Nat.leb_spec o k); [|lia]. split; [reflexivity|].
    replace ((1 <=? S o) && (S o <=? S k)) with true. { cbn. split; [reflexivity|lia]. }
    symmetry. apply andb_true_iff. split; apply Nat.leb_le; lia.
Qed.

Lemma populated_spec s lo n : populated s lo n = true ->
  forall o, lo < o <= lo + n -> exists id, cur s o = Some id /\ tst (tb s id) = TLive /\ tord (tb s id) = o.
Proof.
  induction n as [|n IH]; cbn [populated]; intros H o Ho; [lia|].
  apply andb_true_iff in H. destruct H as [H1 H2].
  destruct (Nat.eq_dec o (lo + S n)) as [->|Hne].
  - destruct (cur s (lo + S n)) as [id|]; [|discriminate]. exists id. split; [reflexivity|].
    apply andb_true_iff in H1. destruct H1 as [H1 _]. apply andb_true_iff in H1. destruct H1 as [H1 H3].
    split; [destruct (tstat_eqb_spec (tst (tb s id)) TLive); [assumption|discriminate] | apply Nat.eqb_eq; exact H3].
  - apply IH; [exact H2|lia].
Qed.

Lemma In_open_sections s r : r < NR -> insec (rd s r) = true -> In (r, sec (rd s r)) (open_sections s).
Proof.
  intros Hr Hi. unfold open_sections. apply in_map_iff. exists r. split; [reflexivity|].
  apply filter_In. split; [apply in_seq; lia|exact Hi].
Qed.

Ltac bdestr :=
  repeat match goal with
  | H : _ && _ = true |- _ => apply andb_true_iff in H; destruct H
  | H : _ || _ = true |- _ => apply orb_true_iff in H
  | H : negb _ = true |- _ => apply negb_true_iff in H
  | H : (_ <? _) = true |- _ => apply Nat.ltb_lt in H
  | H : (_ <=? _) = true |- _ => apply Nat.leb_le in H
  | H : Nat.eqb _ _ = true |- _ => apply Nat.eqb_eq in H
  | H : tstat_eqb ?a ?b = true |- _ => destruct (tstat_eqb_spec a b); [|discriminate H]; clear H
  end.



Local Hint Resolve Nat.lt_le_incl : core.
Theorem Inv_step s a s' : Inv true s -> pstep s a = Some s' -> Inv true s'.
Proof.
  intros HI Hs. unfold pstep in Hs. destruct (pstep_core s a) as [s1|] eqn:Hc; [|discriminate]. cbn in Hs. inversion Hs; subst s'. clear Hs.
  apply Inv_tick. destruct HI as [A1 A2 A3 A4 A5 B K1 K2 K3 K4 K5 K6 K6c K8 SF]. unfold tlt in A1, A2, A3, A4, A5.
  destruct a as [id ord|id|k|t|t|id|id|id|t|t|t k|t id]; cbn [pstep_core] in Hc.
  - (* PAlloc *)
    destruct (tstat_eqb (tst (tb s id)) TNone && (size s <? ord) && _) eqn:Hg; [|discriminate]. inversion Hc; subst s1; clear Hc. bdestr.
    rename e into Hnone.
    assert (Hcur : forall c, cur s ord = Some c -> tst (tb s c) = TFreed).
    { intros c Hcc. rewrite Hcc in H0. bdestr. assumption. }
    constructor; unfold tlt; pcbn; eauto.
    + intros j. unfold updf. destruct (Nat.eqb j id); cbn; [lia|auto].
    + intros r j Hi Hh. unfold updf. destruct (Nat.eqb_spec j id); [cbn; discriminate|apply K4; assumption].
    + intros r j Hi Hh. unfold updf. destruct (Nat.eqb_spec j id); [cbn; discriminate|apply (K5 _ _ Hi Hh)].
    + intros j. unfold updf. destruct (Nat.eqb_spec j id) as [->|Hne]; cbn.
      { intros [H|[H|H]]; discriminate. }
      destruct (Nat.eqb_spec (tord (tb s j)) ord) as [He|Hn]; [intros _ Hc; inversion Hc; congruence|apply K6].
    + intros j. unfold updf. destruct (Nat.eqb_spec j id) as [->|Hne]; cbn.
      { intros [H|H]; discriminate. }
      destruct (Nat.eqb_spec (tord (tb s j)) ord) as [He|Hn]; [|apply K6c].
      intros Hg. exfalso. pose proof (K6c j Hg) as Hcj. rewrite He in Hcj. specialize (Hcur j Hcj). destruct Hg as [Hg|Hg]; congruence.
    + intros o Ho. destruct (K8 o Ho) as (c & Hc1 & Hc2 & Hc3). exists c.
      unfold updf. destruct (Nat.eqb_spec o ord); [lia|]. destruct (Nat.eqb_spec c id) as [->|Hne]; [congruence|]. auto.
    + intros r j Hi Hh. unfold updf. destruct (Nat.eqb_spec j id) as [->|Hne]; [cbn; discriminate|apply SF with r; assumption].
  - (* PLink *)
    destruct (tstat_eqb (tst (tb s id)) TLive) eqn:Hg; [|discriminate]. inversion Hc; subst s1; clear Hc. bdestr.
    constructor; unfold tlt; pcbn; eauto.
    + intros j. unfold updf. destruct (Nat.eqb j id); cbn; auto.
    + intros r j Hi Hh. unfold updf. destruct (Nat.eqb_spec j id) as [->|]; [cbn; discriminate|apply K4; assumption].
    + intros r j Hi Hh. unfold updf. destruct (Nat.eqb_spec j id) as [->|]; [cbn; discriminate|apply (K5 _ _ Hi Hh)].
    + intros j. unfold updf. destruct (Nat.eqb_spec j id) as [->|]; cbn; [intros [H|[H|H]]; discriminate|apply K6].
    + intros j. unfold updf. destruct (Nat.eqb_spec j id) as [->|]; cbn; [intros [H|H]; discriminate|apply K6c].
    + intros o Ho. destruct (K8 o Ho) as (c & Hc1 & Hc2 & Hc3). exists c. unfold updf. destruct (Nat.eqb_spec c id) as [->|]; cbn; auto.
    + intros r j Hi Hh. unfold updf. destruct (Nat.eqb_spec j id) as [->|]; [cbn; discriminate|apply SF with r; assumption].
  - (* PSize *)
    revert Hc. destruct (Nat.eqb_spec k (size s)) as [->|Hne]; intros Hc.
    { inversion Hc; subst s1. constructor; unfold tlt; eauto. }
    revert Hc. destruct (Nat.ltb_spec (size s) k) as [Hgrow|Hshr]; intros Hc.
    + destruct (populated s (size s) (k - size s)) eqn:Hp; [|discriminate]. inversion Hc; subst s1; clear Hc.
      pose proof (populated_spec s _ _ Hp) as Hpop.
      constructor; unfold tlt; pcbn; eauto.
      * intros r k0 o Hi Hs Ho Hlt. apply K1 with k0; auto; lia.
      * intros r k0 o Hi Hs Ho Hlt. apply (K2 r k0 o); auto; lia.
      * intros j Hg Hcj. destruct (K6 j Hg Hcj) as [H1 H2]. split; [|exact H2].
        destruct (Nat.lt_ge_cases k (tord (tb s j))) as [Hl|Hge]; [exact Hl|exfalso].
        destruct (Hpop (tord (tb s j)) ltac:(lia)) as (c & Hc1 & Hc2 & _). rewrite Hcj in Hc1. inversion Hc1; subst c.
        destruct Hg as [Hg|[Hg|Hg]]; congruence.
      * intros o Ho. destruct (Nat.le_gt_cases o (size s)) as [Hle|Hgt]; [apply K8; exact Hle|apply Hpop; lia].
    + inversion Hc; subst s1; clear Hc. assert (Hk : k < size s) by lia.
      constructor; unfold tlt; pcbn; eauto.
      * intros o. destruct ((k <? o) && (o <=? size s)); [lia|auto].
      * intros r k0 o Hi Hs Ho Hlt. destruct ((k <? o) && (o <=? size s)) eqn:Hb.
        -- apply A1; exact Hi.
        -- apply K1 with k0; auto. apply andb_false_iff in Hb. destruct Hb as [Hb|Hb]; [apply Nat.ltb_ge in Hb; lia|apply Nat.leb_gt in Hb; lia].
      * intros r k0 o Hi Hs Ho Hlt. destruct ((k <? o) && (o <=? size s)) eqn:Hb.
        -- intros Hle. lia.
        -- apply (K2 r k0 o); auto. apply andb_false_iff in Hb. destruct Hb as [Hb|Hb]; [apply Nat.ltb_ge in Hb; lia|apply Nat.leb_gt in Hb; lia].
      * intros j Hg Hcj. destruct (K6 j Hg Hcj) as [H1 H2].
        replace ((k <? tord (tb s j)) && (tord (tb s j) <=? size s)) with false; [split; [lia|exact H2]|].
        symmetry. apply andb_false_iff. right. apply Nat.leb_gt. exact H1.
      * intros o Ho. apply K8. lia.
  - (* PSyncBegin *)
    destruct (ps s t) eqn:Hps; [discriminate|]. inversion Hc; subst s1; clear Hc.
    constructor; unfold tlt; pcbn; eauto.
    + intros u b W. unfold updf. destruct (Nat.eqb_spec u t) as [->|]; [intros H; inversion H; subst; lia|eauto].
    + intros u b W r. unfold updf. destruct (Nat.eqb_spec u t) as [->|]; [|apply K3].
      intros H Hi Hlt. inversion H; subst. apply In_open_sections; [apply B; exact Hi|exact Hi].
  - (* PSyncEnd *)
    destruct (ps s t) as [[b W]|] eqn:Hps; [|discriminate]. destruct (forallb (exited s) W) eqn:Hex; [|discriminate]. inversion Hc; subst s1; clear Hc.
    assert (Hout : forall r, insec (rd s r) = true -> since (rd s r) < b -> False).
    { intros r Hi Hlt. pose proof (K3 t b W r Hps Hi Hlt) as Hin. rewrite forallb_forall in Hex. specialize (Hex _ Hin).
      unfold exited in Hex. cbn in Hex. rewrite Hi, Nat.eqb_refl in Hex. discriminate. }
    pose proof (A5 t b W Hps) as Hb.
    constructor; unfold tlt; pcbn; eauto.
    + lia.
    + intros u b' W'. unfold updf. destruct (Nat.eqb_spec u t); [discriminate|eauto].
    + intros r k o Hi Hs Ho Hlt Hle. destruct (Nat.le_gt_cases (unpub_at s o) (sb s)) as [H|H]; [apply (K2 r k o); assumption|].
      apply (Hout r Hi). pose proof (K1 r k o Hi Hs Ho Hlt). lia.
    + intros u b' W' r. unfold updf. destruct (Nat.eqb_spec u t); [discriminate|apply K3].
    + intros r id Hi Hh Hst Hle. destruct (Nat.le_gt_cases (done_at (tb s id)) (sb s)) as [H|H]; [apply (K5 r id); assumption|].
      apply (Hout r Hi). pose proof (K4 r id Hi Hh Hst). lia.
    + intros id Hg Hcj. destruct (K6 id Hg Hcj). split; [assumption|lia].
  - (* PFlag *)
    match type of Hc with (if ?c then _ else _) = _ => destruct c eqn:Hg; [|discriminate] end. inversion Hc; subst s1; clear Hc. bdestr.
    destruct (cur s (tord (tb s id))) as [c|] eqn:Hcur; [|discriminate]. bdestr. subst c.
    constructor; unfold tlt; pcbn; eauto.
    + intros j. unfold updf. destruct (Nat.eqb j id); cbn; auto.
    + intros r j Hi Hh. unfold updf. destruct (Nat.eqb_spec j id) as [->|]; [cbn; discriminate|apply K4; assumption].
    + intros r j Hi Hh. unfold updf. destruct (Nat.eqb_spec j id) as [->|]; [cbn; discriminate|apply (K5 _ _ Hi Hh)].
    + intros j. unfold updf. destruct (Nat.eqb_spec j id) as [->|]; cbn; [intros _ _; split; assumption|apply K6].
    + intros j. unfold updf. destruct (Nat.eqb_spec j id) as [->|]; cbn; [intros _; exact Hcur|apply K6c].
    + intros o Ho. destruct (K8 o Ho) as (c & Hc1 & Hc2 & Hc3). exists c. unfold updf. destruct (Nat.eqb_spec c id) as [->|]; cbn; auto.
      exfalso. match goal with H : size s < tord (tb s id) |- _ => rewrite Hc3 in H end. lia.
    + intros r j Hi Hh. unfold updf. destruct (Nat.eqb_spec j id) as [->|]; [cbn; discriminate|apply SF with r; assumption].
  - (* PUnlinked *)
    match type of Hc with (if ?c then _ else _) = _ => destruct c eqn:Hg; [|discriminate] end. inversion Hc; subst s1; clear Hc. bdestr.
    rename e into Hst.
    constructor; unfold tlt; pcbn; eauto.
    + intros j. unfold updf. destruct (Nat.eqb j id); cbn; [lia|auto].
    + intros r j Hi Hh. unfold updf. destruct (Nat.eqb_spec j id) as [->|]; [cbn; intros _; apply A1; exact Hi|apply K4; assumption].
    + intros r j Hi Hh. unfold updf. destruct (Nat.eqb_spec j id) as [->|]; [cbn; intros _ Hle; lia|apply (K5 _ _ Hi Hh)].
    + intros j. unfold updf. destruct (Nat.eqb_spec j id) as [->|]; cbn; [intros _; apply K6; left; exact Hst|apply K6].
    + intros j. unfold updf. destruct (Nat.eqb_spec j id) as [->|]; cbn; [intros _; apply K6c; left; exact Hst|apply K6c].
    + intros o Ho. destruct (K8 o Ho) as (c & Hc1 & Hc2 & Hc3). exists c. unfold updf. destruct (Nat.eqb_spec c id) as [->|]; cbn; auto. congruence.
    + intros r j Hi Hh. unfold updf. destruct (Nat.eqb_spec j id) as [->|]; [cbn; discriminate|apply SF with r; assumption].
  - (* PFree *)
    match type of Hc with (if ?c then _ else _) = _ => destruct c eqn:Hg; [|discriminate] end. inversion Hc; subst s1; clear Hc. bdestr.
    rename e into Hst.
    constructor; unfold tlt; pcbn; eauto.
    + intros j. unfold updf. destruct (Nat.eqb j id); cbn; auto.
    + intros r j Hi Hh. unfold updf. destruct (Nat.eqb_spec j id) as [->|]; [cbn; discriminate|apply K4; assumption].
    + intros r j Hi Hh. unfold updf. destruct (Nat.eqb_spec j id) as [->|]; [cbn; discriminate|apply (K5 _ _ Hi Hh)].
    + intros j. unfold updf. destruct (Nat.eqb_spec j id) as [->|]; cbn; [intros _; apply K6; right; left; exact Hst|apply K6].
    + intros j. unfold updf. destruct (Nat.eqb_spec j id) as [->|]; cbn; [intros [H|H]; discriminate|apply K6c].
    + intros o Ho. destruct (K8 o Ho) as (c & Hc1 & Hc2 & Hc3). exists c. unfold updf. destruct (Nat.eqb_spec c id) as [->|]; cbn; auto. congruence.
    + intros r j Hi Hh. unfold updf. destruct (Nat.eqb_spec j id) as [->|]; [|apply SF with r; assumption].
      exfalso. apply (K5 r id Hi Hh Hst). assumption.
  - (* PEnter *)
    match type of Hc with (if ?c then _ else _) = _ => destruct c eqn:Hg; [|discriminate] end. inversion Hc; subst s1; clear Hc. bdestr.
    constructor; unfold tlt; pcbn; eauto.
    + intros r. unfold updf. destruct (Nat.eqb_spec r t) as [->|]; cbn; [intros _; lia|auto].
    + intros r. unfold updf. destruct (Nat.eqb_spec r t) as [->|]; cbn; [intros _; assumption|apply B].
    + intros r k o. unfold updf. destruct (Nat.eqb_spec r t) as [->|]; cbn; [discriminate|apply K1].
    + intros r k o. unfold updf. destruct (Nat.eqb_spec r t) as [->|]; cbn; [discriminate|apply K2].
    + intros u b W r Hps. unfold updf. destruct (Nat.eqb_spec r t) as [->|]; cbn; [|apply (K3 _ _ _ _ Hps)].
      intros _ Hlt. pose proof (A5 u b W Hps). lia.
    + intros r id. unfold updf. destruct (Nat.eqb_spec r t) as [->|]; cbn; [discriminate|apply K4].
    + intros r id. unfold updf. destruct (Nat.eqb_spec r t) as [->|]; cbn; [discriminate|apply K5].
    + intros r id. unfold updf. destruct (Nat.eqb_spec r t) as [->|]; cbn; [discriminate|apply SF].
  - (* PExit *)
    destruct (insec (rd s t)) eqn:Hg; [|discriminate]. inversion Hc; subst s1; clear Hc.
    constructor; unfold tlt; pcbn; eauto.
    + intros r. unfold updf. destruct (Nat.eqb_spec r t) as [->|]; cbn; [discriminate|auto].
    + intros r. unfold updf. destruct (Nat.eqb_spec r t) as [->|]; cbn; [discriminate|apply B].
    + intros r k o. unfold updf. destruct (Nat.eqb_spec r t) as [->|]; cbn; [discriminate|apply K1].
    + intros r k o. unfold updf. destruct (Nat.eqb_spec r t) as [->|]; cbn; [discriminate|apply K2].
    + intros u b W r Hps. unfold updf. destruct (Nat.eqb_spec r t) as [->|]; cbn; [discriminate|apply (K3 _ _ _ _ Hps)].
    + intros r id. unfold updf. destruct (Nat.eqb_spec r t) as [->|]; cbn; [discriminate|apply K4].
    + intros r id. unfold updf. destruct (Nat.eqb_spec r t) as [->|]; cbn; [discriminate|apply K5].
    + intros r id. unfold updf. destruct (Nat.eqb_spec r t) as [->|]; cbn; [discriminate|apply SF].
  - (* PReadSize *)
    match type of Hc with (if ?c then _ else _) = _ => destruct c eqn:Hg; [|discriminate] end. inversion Hc; subst s1; clear Hc. bdestr. subst k.
    rename H into Hin.
    constructor; unfold tlt; pcbn; eauto.
    + intros r. unfold updf. destruct (Nat.eqb_spec r t) as [->|]; cbn; [intros _; auto|auto].
    + intros r. unfold updf. destruct (Nat.eqb_spec r t) as [->|]; cbn; [intros _; apply B; exact Hin|apply B].
    + intros r k o. unfold updf. destruct (Nat.eqb_spec r t) as [->|]; cbn; [|apply K1].
      intros _ Hs Ho Hlt. inversion Hs; subst k. destruct (snap (rd s t)) as [k0|] eqn:Hk0; [|lia].
      apply (K1 t k0 o Hin Hk0); lia.
    + intros r k o. unfold updf. destruct (Nat.eqb_spec r t) as [->|]; cbn; [|apply K2].
      intros _ Hs Ho Hlt. inversion Hs; subst k. destruct (snap (rd s t)) as [k0|] eqn:Hk0; [|lia].
      apply (K2 t k0 o Hin Hk0); lia.
    + intros u b W r Hps. unfold updf. destruct (Nat.eqb_spec r t) as [->|]; cbn; [intros _; apply (K3 _ _ _ _ Hps Hin)|apply (K3 _ _ _ _ Hps)].
    + intros r id. unfold updf. destruct (Nat.eqb_spec r t) as [->|]; cbn; [intros _; apply K4; exact Hin|apply K4].
    + intros r id. unfold updf. destruct (Nat.eqb_spec r t) as [->|]; cbn; [intros _; apply K5; exact Hin|apply K5].
    + intros r id. unfold updf. destruct (Nat.eqb_spec r t) as [->|]; cbn; [intros _; apply SF; exact Hin|apply SF].
  - (* PTouch *)
    destruct (touch_ok s t id) eqn:Hg; [|discriminate]. inversion Hc; subst s1; clear Hc. unfold touch_ok in Hg.
    apply andb_true_iff in Hg. destruct Hg as [Hg Hor]. apply andb_true_iff in Hg. destruct Hg as [Hin Hnn].
    (* the three ways to reach the table *)
    assert (Hcase : tst (tb s id) = TLive \/ tst (tb s id) = TUnlinking \/ holds (rd s t) id = true \/
                    exists k, snap (rd s t) = Some k /\ tord (tb s id) <= k /\ cur s (tord (tb s id)) = Some id).
    { apply orb_true_iff in Hor. destruct Hor as [Hor|Hd];
        [apply orb_true_iff in Hor; destruct Hor as [Hor|Hc3]; [apply orb_true_iff in Hor; destruct Hor as [Ha|Hb]|]|].
      - left. destruct (tstat_eqb_spec (tst (tb s id)) TLive); [assumption|discriminate].
      - right; left. destruct (tstat_eqb_spec (tst (tb s id)) TUnlinking); [assumption|discriminate].
      - right; right; left. exact Hc3.
      - destruct (snap (rd s t)) as [k|]; [|discriminate]. destruct (cur s (tord (tb s id))) as [c|] eqn:Hcc; [|discriminate].
        apply andb_true_iff in Hd. destruct Hd as [Hd1 Hd2]. apply Nat.leb_le in Hd1. apply Nat.eqb_eq in Hd2. subst c.
        right; right; right. exists k. auto. }
    assert (Hsnap_no : forall k, snap (rd s t) = Some k -> tord (tb s id) <= k -> cur s (tord (tb s id)) = Some id -> gone (tst (tb s id)) -> False).
    { intros k Hk Hle Hcc Hgo. destruct (K6 id Hgo Hcc) as [H1 H2]. apply (K2 t k (tord (tb s id)) Hin Hk Hle H1 H2). }
    constructor; unfold tlt; pcbn; eauto.
    + intros r. unfold updf. destruct (Nat.eqb_spec r t) as [->|]; cbn; [intros _; auto|auto].
    + intros r. unfold updf. destruct (Nat.eqb_spec r t) as [->|]; cbn; [intros _; apply B; exact Hin|apply B].
    + intros r k o. unfold updf. destruct (Nat.eqb_spec r t) as [->|]; cbn; [intros _; apply K1; exact Hin|apply K1].
    + intros r k o. unfold updf. destruct (Nat.eqb_spec r t) as [->|]; cbn; [intros _; apply K2; exact Hin|apply K2].
    + intros u b W r Hps. unfold updf. destruct (Nat.eqb_spec r t) as [->|]; cbn; [intros _; apply (K3 _ _ _ _ Hps Hin)|apply (K3 _ _ _ _ Hps)].
    + intros r j. unfold updf. destruct (Nat.eqb_spec r t) as [->|]; cbn; [|apply K4].
      intros _. destruct (Nat.eqb_spec j id) as [->|]; [|apply K4; exact Hin].
      intros _ Hst. destruct Hcase as [H|[H|[H|(k & Hk & Hle & Hcc)]]]; try congruence.
      * apply K4; assumption.
      * exfalso. apply (Hsnap_no k Hk Hle Hcc). right; left; exact Hst.
    + intros r j. unfold updf. destruct (Nat.eqb_spec r t) as [->|]; cbn; [|apply K5].
      intros _. destruct (Nat.eqb_spec j id) as [->|]; [|apply K5; exact Hin].
      intros _ Hst. destruct Hcase as [H|[H|[H|(k & Hk & Hle & Hcc)]]]; try congruence.
      * apply (K5 t id Hin H Hst).
      * intros _. apply (Hsnap_no k Hk Hle Hcc). right; left; exact Hst.
    + intros r j. unfold updf. destruct (Nat.eqb_spec r t) as [->|]; cbn; [|apply SF].
      intros _. destruct (Nat.eqb_spec j id) as [->|]; [|apply SF; exact Hin].
      intros _ Hst. destruct Hcase as [H|[H|[H|(k & Hk & Hle & Hcc)]]]; try congruence.
      * apply (SF t id Hin H Hst).
      * apply (Hsnap_no k Hk Hle Hcc). right; right; exact Hst.
Qed.

Theorem Inv_run l : forall s s', Inv true s -> prun s l = Some s' -> Inv true s'.
Proof.
  induction l as [|a l IH]; cbn; intros s s' HI H; [inversion H; subst; exact HI|].
  destruct (pstep s a) as [s1|] eqn:Hs; [|discriminate]. apply (IH s1 s'); [apply (Inv_step s a s1 HI Hs)|exact H].
Qed.

(* The property: after any accepted action sequence from a freshly created table, no read-side section holds a released bucket table,
   and any table a section could touch next by the reader rule is not released. *)
Theorem resize_no_use_after_free k l s :
  prun (pinit k) l = Some s ->
  (forall r id, insec (rd s r) = true -> holds (rd s r) id = true -> tst (tb s id) <> TFreed) /\
  (forall t id, touch_ok s t id = true -> tst (tb s id) <> TFreed).
Proof.
  intros H. pose proof (Inv_run l _ _ (Inv_init k) H) as HI. split; [apply (I_safe _ s HI)|].
  intros t id Hok Hfr. destruct (pstep s (PTouch t id)) as [s1|] eqn:Hs.
  - pose proof (Inv_step s _ s1 HI Hs) as HI1. unfold pstep in Hs. cbn in Hs. rewrite Hok in Hs. cbn in Hs. inversion Hs; subst s1.
    apply (I_safe _ _ HI1 t id); cbn.
    + rewrite updf_same. reflexivity.
    + rewrite updf_same. cbn. rewrite updf_same. reflexivity.
    + rewrite Hfr. reflexivity.
  - unfold pstep in Hs. cbn in Hs. rewrite Hok in Hs. discriminate.
Qed.

(* published orders always have a live, current table: populate-before-publish *)
Theorem resize_published_orders_live k l s :
  prun (pinit k) l = Some s -> forall o, o <= size s -> exists id, cur s o = Some id /\ tst (tb s id) = TLive /\ tord (tb s id) = o.
Proof. intros H. apply (I_K8 _ s (Inv_run l _ _ (Inv_init k) H)). Qed.

(* non-vacuity: a shrink by one order with a reader that entered before the size drop and touches the table before it is flagged *)
Example proto_run :
  exists s, prun (pinit 1) [PEnter 0; PReadSize 0 1; PSize 0; PSyncBegin 1; PTouch 0 2; PExit 0; PSyncEnd 1; PFlag 2; PUnlinked 2;
                            PEnter 0; PReadSize 0 0; PSyncBegin 1; PExit 0; PSyncEnd 1; PFree 2] = Some s /\ tst (tb s 2) = TFreed.
Proof. eexists. split; [vm_compute; reflexivity|reflexivity]. Qed.
(* the same without the second grace period is rejected *)
Example proto_reject :
  prun (pinit 1) [PSize 0; PSyncBegin 1; PSyncEnd 1; PFlag 2; PUnlinked 2; PFree 2] = None.
Proof. vm_compute. reflexivity. Qed.
(* unlinking without the first grace period is rejected *)
Example proto_reject2 : prun (pinit 1) [PSize 0; PFlag 2] = None.
Proof. vm_compute. reflexivity. Qed.
