From Coq Require Import List Arith NArith Bool Lia.
Import ListNotations.
Require Import Urcu.Base.MachD Urcu.Lfht.Lfht Urcu.Lfht.LfhtSorted Urcu.Lfht.LfhtReach.
Local Open Scope N_scope.

Lemma bkt_mkp5 id : is_bucket (mkp id (REMOVED + OWNER)) = false.  Proof. unfold is_bucket, mkp. rewrite tb1. reflexivity. Qed.
Lemma rem_mkp5 id : is_removed (mkp id (REMOVED + OWNER)) = true.  Proof. unfold is_removed, mkp. rewrite tb0. reflexivity. Qed.
Lemma ptr_mkp5 id : ptr (mkp id (REMOVED + OWNER)) = id.  Proof. apply ptr_mkp. unfold REMOVED, OWNER. lia. Qed.

Section STEP.
Variable C : cfg.
Variable isB : N -> bool.
Hypothesis Hbkt : forall i, isB (bucket C i) = true.
Notation st := (state hloc (hprog C)).
Notation Inv2 := (Inv2 C isB).
Notation insd := (insd C).
Notation nxw := (nxw C).

Lemma NoDup_tail {A} (x : A) l : NoDup (x :: l) -> NoDup l.
Proof. intros H; inversion H; assumption. Qed.

Definition post_of (q : hpc) : list (hloc * N) :=
  match q with A_Cas nd _ _ _ it => [(HNext nd, clr it)] | R_Cas _ new onext _ => [(HNext new, onext)] | _ => [] end.

Lemma step_add_at (s : st) t node b u prev r todo fnd fx :
  Inv2 s -> future C s t = node :: adds todo -> NoDup (node :: adds todo) ->
  (forall y, In y [b; prev; ptr r; fnd] -> y = 0 \/ insd s y) ->
  is_removed r = false -> isB b = true -> prev <> 0 ->
  (fnd = 0 \/ (insd s fnd /\ isB fnd = false)) ->
  Inv2 (mkst2 C (drain hloc hloc_eqb (smem _ _ s) (post_of (add_at C node b u prev r)))
              (tupd hloc (hprog C) (sthr _ _ s) t (mkts2 C {| hcur := add_at C node b u prev r; htodo := todo; found := fnd; fnext := fx |}))).
Proof.
  intros HI Hfut Hnd Hr Hrm HB Hpv Hfd. unfold add_at.
  assert (Hin : In node (future C s t)) by (rewrite Hfut; left; reflexivity).
  destruct (is_end r) eqn:Ee; [|destruct (rh C node <? rh C (ptr r))]; cbn [post_of drain].
  - eapply Inv2_into_cas; [exact HI|reflexivity|exact Hin|intros y Hy; apply Hr; cbn [In app Lfht.found] in Hy; cbn [In]; tauto|intros n Hn; rewrite Hfut; exact Hn|exact Hnd|assumption|assumption|assumption|assumption].
  - eapply Inv2_into_cas; [exact HI|reflexivity|exact Hin|intros y Hy; apply Hr; cbn [In app Lfht.found] in Hy; cbn [In]; tauto|intros n Hn; rewrite Hfut; exact Hn|exact Hnd|assumption|assumption|assumption|assumption].
  - apply Inv2_nowrite; [exact HI| |intros n Hn; rewrite Hfut; exact Hn|exact Hnd| |cbn; split; assumption|exact Hfd].
    + intros y Hy. apply Hr. cbn [In app Lfht.found hcur refs] in Hy. cbn [In]. tauto.
    + split; [|exact I]. cbn. split; [exact Hrm|]. unfold is_end in Ee. apply N.eqb_neq. exact Ee.
Qed.

Lemma step_dup_at (s : st) t node b u prev iter cur todo fnd fx :
  Inv2 s -> future C s t = node :: adds todo -> NoDup (node :: adds todo) ->
  (forall y, In y [b; prev; ptr iter; ptr cur; fnd] -> y = 0 \/ insd s y) ->
  is_removed iter = false -> isB b = true -> prev <> 0 ->
  (fnd = 0 \/ (insd s fnd /\ isB fnd = false)) ->
  Inv2 (mkst2 C (drain hloc hloc_eqb (smem _ _ s) (post_of (dup_at C node b u prev iter cur)))
              (tupd hloc (hprog C) (sthr _ _ s) t (mkts2 C {| hcur := dup_at C node b u prev iter cur; htodo := todo; found := fnd; fnext := fx |}))).
Proof.
  intros HI Hfut Hnd Hr Hrm HB Hpv Hfd. unfold dup_at.
  assert (Hin : In node (future C s t)) by (rewrite Hfut; left; reflexivity).
  destruct (is_end cur) eqn:Ee; [|destruct (rh C node <? rh C (ptr cur))]; cbn [post_of drain].
  - eapply Inv2_into_cas; [exact HI|reflexivity|exact Hin|intros y Hy; apply Hr; cbn [In app Lfht.found] in Hy; cbn [In]; tauto|intros n Hn; rewrite Hfut; exact Hn|exact Hnd|assumption|assumption|assumption|assumption].
  - eapply Inv2_into_cas; [exact HI|reflexivity|exact Hin|intros y Hy; apply Hr; cbn [In app Lfht.found] in Hy; cbn [In]; tauto|intros n Hn; rewrite Hfut; exact Hn|exact Hnd|assumption|assumption|assumption|assumption].
  - apply Inv2_nowrite; [exact HI| |intros n Hn; rewrite Hfut; exact Hn|exact Hnd| |cbn; split; assumption|exact Hfd].
    + intros y Hy. apply Hr. cbn [In app Lfht.found hcur refs] in Hy. cbn [In]. tauto.
    + split; [|exact I]. cbn. split; [exact Hrm|]. unfold is_end in Ee. apply N.eqb_neq. exact Ee.
Qed.

Lemma Inv2_step (s : st) t : Inv2 s -> Inv2 (fst (exec hloc hloc_eqb (hprog C) (Step t) s)).
Proof.
  intros HI. rewrite (exec_shape2 C isB s t HI). cbv zeta.
  pose proof (J_li C isB s HI t) as Hli. pose proof (J_l3 C isB s HI t) as Hl3. pose proof (J_cr C isB s HI t) as Hcr.
  pose proof (J_fnd C isB s HI t) as Hfd. pose proof (J_nodup C isB s HI t) as Hnd.
  unfold PCr in Hli, Hl3, Hcr. unfold FND in Hcr, Hfd.
  assert (Hfut : future C s t = fut_of (tpc _ _ (THr C s t))) by reflexivity. rewrite Hfut in Hnd.
  set (p := tpc _ _ (THr C s t)) in *.
  assert (Hbins : forall i, insd s (bucket C i) /\ bucket C i <> 0) by (intros i; apply (J_bins C isB s HI); apply Hbkt).
  assert (Hclose : forall x, (x = 0 \/ insd s x) -> x <> 0 -> ptr (nxw s x) = 0 \/ insd s (ptr (nxw s x))) by (intros x Hx Hn; apply (loaded_closed C isB s x HI Hx Hn)).
  unfold hact. destruct p as [pc todo fnd fx] eqn:Ep. cbn [hcur htodo Lfht.found Lfht.fnext] in *.
  destruct pc; cbn [eff2 fst snd hnext hcur htodo Lfht.found Lfht.fnext hpost].
  - (* Idle *)
    destruct todo as [|[n h u|h rh k| |new] rest]; cbn [hnext hpost hcur htodo Lfht.found Lfht.fnext drain].
    + exact HI.
    + apply Inv2_nowrite; try exact HI; cbn [hcur htodo Lfht.found refs fut_of mine adds app]; try exact I; try (split; exact I).
      * intros y [E|[]]. subst. destruct Hfd as [H|[H _]]; [left; exact H|right; exact H].
      * rewrite Hfut. cbn [fut_of hcur htodo mine adds app]. tauto.
      * cbn [fut_of hcur htodo mine adds app] in Hnd. exact Hnd.
      * exact Hfd.
    + apply Inv2_nowrite; try exact HI; cbn [hcur htodo Lfht.found refs fut_of mine adds app]; try exact I; try (split; exact I).
      * intros y [E|[]]. subst. destruct Hfd as [H|[H _]]; [left; exact H|right; exact H].
      * rewrite Hfut. cbn [fut_of hcur htodo mine adds app]. tauto.
      * cbn [fut_of hcur htodo mine adds app] in Hnd. exact Hnd.
      * exact Hfd.
    + apply Inv2_nowrite; try exact HI; cbn [hcur htodo Lfht.found refs fut_of mine adds app]; try exact I.
      * intros y [E|[E|[]]]; subst; destruct Hfd as [H|[H _]]; [left; exact H|right; exact H|left; exact H|right; exact H].
      * rewrite Hfut. cbn [fut_of hcur htodo mine adds app]. tauto.
      * cbn [fut_of hcur htodo mine adds app] in Hnd. exact Hnd.
      * unfold LIs. split; [exact I|]. destruct Hfd as [H|[_ H]]; [left; exact H|right; exact H].
      * exact Hfd.
    + (* replace: the checks that precede any memory access *)
      assert (Hfdc : fnd = 0 \/ insd s fnd) by (destruct Hfd as [H|[H _]]; [left; exact H|right; exact H]).
      assert (Hsub : forall n, In n (adds rest) -> In n (future C s t)) by (intros n Hn; rewrite Hfut; cbn [fut_of hcur htodo mine adds app]; right; exact Hn).
      cbn [fut_of hcur htodo mine adds app] in Hnd.
      unfold repl_start.
      destruct (N.eqb_spec fnd 0) as [E0|E0]; [|destruct (negb (rh C fnd =? rh C new)); [|destruct (negb (key C fnd =? key C new))]]; cbn [drain];
        (apply Inv2_nowrite; [exact HI| | | | | |exact Hfd]); cbn [hcur htodo Lfht.found refs fut_of mine adds app LIs LIs3];
        try (intros y [E|[]]; subst y; exact Hfdc); try exact Hsub; try (apply (NoDup_tail _ _ Hnd)); try (split; exact I); try exact I.
      * intros y [E|[E|[]]]; subst y; exact Hfdc.
      * intros n Hn. rewrite Hfut. cbn [fut_of hcur htodo mine adds app]. exact Hn.
      * exact Hnd.
      * split; [exact I|]. split; [exact E0|]. destruct Hfd as [H|[_ H]]; [contradiction|exact H].
  - (* L_Size *)
    cbn [drain]. apply Inv2_nowrite; [exact HI| |rewrite Hfut; tauto|exact Hnd|split; exact I|cbn; apply Hbkt|exact Hfd].
    intros y [E|[E|[]]]; subst; [right; apply Hbins|destruct Hfd as [H|[H _]]; [left; exact H|right; exact H]].
  - (* L_Bucket *)
    cbn in Hl3. destruct (J_bins C isB s HI b Hl3) as [Hb Hb0].
    set (r := smem hloc (hprog C) s (HNext b)).
    assert (Hr : ptr r = 0 \/ insd s (ptr r)) by (apply (Hclose b); [right; exact Hb|exact Hb0]).
    assert (Hfd' : forall y, y = fnd -> y = 0 \/ insd s y) by (intros y ->; destruct Hfd as [H|[H _]]; [left; exact H|right; exact H]).
    unfold lookup_at. destruct (N.eqb_spec (ptr r) 0) as [E0|E0]; [|destruct (rhash <? rh C (ptr r))]; cbn [hcur htodo Lfht.found drain].
    + apply Inv2_nowrite; [exact HI| |rewrite Hfut; tauto|exact Hnd|split; exact I|cbn; left; reflexivity|exact Hfd].
      intros y [E|[E|[]]]; [left; symmetry; exact E|apply Hfd'; symmetry; exact E].
    + apply Inv2_nowrite; [exact HI| |rewrite Hfut; tauto|exact Hnd|split; exact I|cbn; left; reflexivity|exact Hfd].
      intros y [E|[E|[]]]; [left; symmetry; exact E|apply Hfd'; symmetry; exact E].
    + apply Inv2_nowrite; [exact HI| |rewrite Hfut; tauto|exact Hnd|split; [exact E0|exact I]|exact I|exact Hfd].
      intros y [E|[E|[]]]; [subst y; exact Hr|apply Hfd'; symmetry; exact E].
  - (* L_Node *)
    destruct Hli as [Hn0 _].
    assert (Hfd' : forall y, y = fnd -> y = 0 \/ insd s y) by (intros y ->; destruct Hfd as [H|[H _]]; [left; exact H|right; exact H]).
    assert (Hni : insd s node) by (destruct (Hcr node) as [E|H]; [left; reflexivity|contradiction|exact H]).
    set (r := smem hloc (hprog C) s (HNext node)).
    assert (Hr : ptr r = 0 \/ insd s (ptr r)) by (apply (Hclose node); [right; exact Hni|exact Hn0]).
    destruct (negb (is_removed r) && negb (is_bucket r) && (rh C node =? rhash) && (key C node =? k)) eqn:Ec; cbn [hcur htodo Lfht.found drain].
    + apply Inv2_nowrite; [exact HI| |rewrite Hfut; tauto|exact Hnd|split; exact I| |exact Hfd].
      * intros y [E|[E|[E|[]]]]; [subst y; right; exact Hni|subst y; exact Hr|apply Hfd'; symmetry; exact E].
      * cbn. split; [exact Hn0|]. apply andb_true_iff in Ec as [Ec _]. apply andb_true_iff in Ec as [Ec _]. apply andb_true_iff in Ec as [_ Ec].
        apply negb_true_iff in Ec. rewrite <- (J_bk C isB s HI node Hni). exact Ec.
    + unfold lookup_at. destruct (N.eqb_spec (ptr r) 0) as [E0|E0]; [|destruct (rhash <? rh C (ptr r))]; cbn [hcur htodo Lfht.found drain].
      * apply Inv2_nowrite; [exact HI| |rewrite Hfut; tauto|exact Hnd|split; exact I|cbn; left; reflexivity|exact Hfd].
        intros y [E|[E|[]]]; [left; symmetry; exact E|apply Hfd'; symmetry; exact E].
      * apply Inv2_nowrite; [exact HI| |rewrite Hfut; tauto|exact Hnd|split; exact I|cbn; left; reflexivity|exact Hfd].
        intros y [E|[E|[]]]; [left; symmetry; exact E|apply Hfd'; symmetry; exact E].
      * apply Inv2_nowrite; [exact HI| |rewrite Hfut; tauto|exact Hnd|split; [exact E0|exact I]|exact I|exact Hfd].
        intros y [E|[E|[]]]; [subst y; exact Hr|apply Hfd'; symmetry; exact E].
  - (* L_Assert *)
    cbn in Hl3. destruct Hl3 as [Hn0 HnB].
    assert (Hni : insd s node) by (destruct (Hcr node) as [E|H]; [left; reflexivity|contradiction|exact H]).
    cbn [drain]. apply Inv2_nowrite; [exact HI| |rewrite Hfut; tauto|exact Hnd|split; exact I|cbn; right; exact HnB|right; split; [exact Hni|exact HnB]].
    intros y [E|[E|[]]]; subst y; right; exact Hni.
  - (* L_Ret *)
    cbn in Hl3. destruct (N.eqb_spec node 0) as [E0|E0]; cbn [hcur htodo Lfht.found Lfht.fnext drain].
    + apply Inv2_nowrite; [exact HI| |rewrite Hfut; tauto|exact Hnd|split; exact I|exact I|left; reflexivity].
      intros y [E|[]]. left. symmetry. exact E.
    + apply Inv2_nowrite; [exact HI| |rewrite Hfut; tauto|exact Hnd|split; exact I|exact I|exact Hfd].
      intros y [E|[]]. subst y. destruct Hfd as [H|[H _]]; [left; exact H|right; exact H].
  - (* A_Size *)
    cbn [drain]. apply Inv2_nowrite; [exact HI| |rewrite Hfut; tauto|exact Hnd|split; exact I|cbn; apply Hbkt|exact Hfd].
    intros y [E|[E|[]]]; subst; [right; apply Hbins|destruct Hfd as [H|[H _]]; [left; exact H|right; exact H]].
  - (* A_Start *)
    cbn in Hl3. destruct (J_bins C isB s HI b Hl3) as [Hb Hb0].
    assert (Hfut' : future C s t = node :: adds todo) by (rewrite Hfut; reflexivity).
    set (r := smem hloc (hprog C) s (HNext b)).
    apply (step_add_at s t node b u b r todo fnd fx HI Hfut'); try assumption.
    + intros y [E|[E|[E|[E|[]]]]]; subst y; [right; exact Hb|right; exact Hb|apply (Hclose b); [right; exact Hb|exact Hb0]|destruct Hfd as [H|[H _]]; [left; exact H|right; exact H]].
    + apply (J_bnr C isB s HI b Hb Hl3).
  - (* A_Iter *)
    cbn in Hl3. destruct Hl3 as [HBb Hpv]. destruct Hli as [[Hrm Hpi] _].
    assert (Hfut' : future C s t = node :: adds todo) by (rewrite Hfut; reflexivity).
    assert (Hci : insd s (ptr iter)).
    { assert (Hin : In (ptr iter) (refs (A_Iter node b u prev iter) ++ [fnd])) by (cbn; tauto). destruct (Hcr _ Hin) as [E|H]; [contradiction|exact H]. }
    assert (Hfdc : fnd = 0 \/ insd s fnd) by (destruct Hfd as [H|[H _]]; [left; exact H|right; exact H]).
    set (r := smem hloc (hprog C) s (HNext (ptr iter))).
    assert (Hr : ptr r = 0 \/ insd s (ptr r)) by (apply (Hclose (ptr iter)); [right; exact Hci|exact Hpi]).
    destruct (is_removed r) eqn:Er; cbn [hcur htodo Lfht.found drain].
    + apply Inv2_nowrite; [exact HI| |intros n Hn; rewrite Hfut; exact Hn|exact Hnd| |cbn; split; assumption|exact Hfd].
      * intros y Hy. cbn [refs hcur app In Lfht.found] in Hy. destruct Hy as [E|[E|[E|[E|[E|[]]]]]]; subst y; try (apply Hcr; cbn; tauto); try exact Hr; try exact Hfdc.
      * split; [|exact I]. cbn. repeat split; try assumption.
    + destruct (u && negb (is_bucket r) && (rh C (ptr iter) =? rh C node)); cbn [hcur htodo Lfht.found].
      * apply (step_dup_at s t node b u prev iter iter todo fnd fx HI Hfut'); try assumption.
        intros y Hy. cbn [In] in Hy. destruct Hy as [E|[E|[E|[E|[E|[]]]]]]; subst y; try (apply Hcr; cbn; tauto); try exact Hfdc.
      * apply (step_add_at s t node b u (ptr iter) r todo fnd fx HI Hfut'); try assumption.
        intros y Hy. cbn [In] in Hy. destruct Hy as [E|[E|[E|[E|[]]]]]; subst y; try (apply Hcr; cbn; tauto); try exact Hr; try exact Hfdc.
  - (* A_Dup *)
    cbn in Hl3. destruct Hl3 as [HBb Hpv]. destruct Hli as [[Hrm Hpc] _].
    assert (Hfut' : future C s t = node :: adds todo) by (rewrite Hfut; reflexivity).
    assert (Hcc : insd s (ptr cur)).
    { assert (Hin : In (ptr cur) (refs (A_Dup node b u prev iter cur) ++ [fnd])) by (cbn; tauto). destruct (Hcr _ Hin) as [E|H]; [contradiction|exact H]. }
    assert (Hfdc : fnd = 0 \/ insd s fnd) by (destruct Hfd as [H|[H _]]; [left; exact H|right; exact H]).
    set (r := smem hloc (hprog C) s (HNext (ptr cur))).
    assert (Hr : ptr r = 0 \/ insd s (ptr r)) by (apply (Hclose (ptr cur)); [right; exact Hcc|exact Hpc]).
    destruct (negb (is_removed r) && negb (is_bucket r) && (key C (ptr cur) =? key C node)); cbn [hcur htodo Lfht.found drain].
    + apply Inv2_nowrite; [exact HI| | |cbn; apply (NoDup_tail _ _ Hnd)|split; exact I|exact I|exact Hfd].
      * intros y [E|[E|[]]]; subst y; [right; exact Hcc|exact Hfdc].
      * intros n Hn. rewrite Hfut. cbn. right. exact Hn.
    + apply (step_dup_at s t node b u prev iter r todo fnd fx HI Hfut'); try assumption.
      intros y Hy. cbn [In] in Hy. destruct Hy as [E|[E|[E|[E|[E|[]]]]]]; subst y; try (apply Hcr; cbn; tauto); try exact Hr; try exact Hfdc.
  - (* A_DupAssert *)
    cbn [drain]. apply Inv2_nowrite; [exact HI| |rewrite Hfut; tauto|exact Hnd|split; exact I|exact I|exact Hfd].
    intros y [E|[]]. subst y. destruct Hfd as [H|[H _]]; [left; exact H|right; exact H].
  - (* A_Cas *)
    cbn in Hl3. destruct Hl3 as [HBb Hpv]. destruct Hli as [[Hrm Hnode] _].
    assert (Hfut' : future C s t = node :: adds todo) by (rewrite Hfut; reflexivity).
    assert (Hinn : In node (future C s t)) by (rewrite Hfut'; left; reflexivity).
    assert (Hcp : insd s prev).
    { assert (Hin : In prev (refs (A_Cas node b u prev iter) ++ [fnd])) by (cbn; tauto). destruct (Hcr _ Hin) as [E|H]; [contradiction|exact H]. }
    assert (Hfdc : fnd = 0 \/ insd s fnd) by (destruct Hfd as [H|[H _]]; [left; exact H|right; exact H]).
    change (smem hloc (hprog C) s (HNext prev)) with (nxw s prev).
    destruct (N.eqb_spec (nxw s prev) iter) as [Eq|Ne].
    + (* success: prev.next := node ; node marked inserted *)
      try rewrite N.eqb_refl. cbn [hcur htodo Lfht.found drain].
      set (newv := if is_bucket iter then mkp node BUCKET else mkp node 0).
      apply (Inv2_write C isB s t _ _ prev newv (Some node) HI).
      * left. split; [exact Hcp|rewrite Eq; exact Hrm].
      * intros x Hx. rewrite upd_o by discriminate. apply upd_o. congruence.
      * rewrite upd_o by discriminate. apply upd_s.
      * intros x. cbn [is_ni]. destruct (N.eqb_spec x node) as [->|Hxn]; [apply upd_s|]. rewrite upd_o by congruence. apply upd_o. discriminate.
      * intros n E. inversion E; subst n. split; [exact Hinn|]. split; [cbn; pose proof Hnd as Hnd'; cbn in Hnd'; inversion Hnd'; assumption|].
        split; [intros ->; destruct (J_fut C isB s HI t prev Hinn) as (Hni & _); contradiction|].
        rewrite Hnode, ptr_clr, bkt_clr. split; [|reflexivity]. apply Hcr. cbn. tauto.
      * intros _. split; [right; right; unfold newv; destruct (is_bucket iter); rewrite ptr_mkp by (unfold BUCKET; lia); cbn; apply N.eqb_refl|].
        split; [|intros _; unfold newv; destruct (is_bucket iter); [apply rem_mkpB|apply rem_mkp0]].
        rewrite <- (J_bk C isB s HI prev Hcp), Eq. unfold newv. destruct (is_bucket iter); [apply bkt_mkpB|apply bkt_mkp0].
      * intros y [E|[]]. subst y. destruct Hfdc as [H|H]; [left; exact H|right; left; exact H].
      * intros n Hn. rewrite Hfut'. right. exact Hn.
      * cbn. apply (NoDup_tail _ _ Hnd).
      * split; exact I.
      * exact I.
      * destruct Hfd as [H|[H1 H2]]; [left; exact H|right; split; [left; exact H1|exact H2]].
    + (* failure *)
      try (replace (nxw s prev =? iter) with false by (symmetry; apply N.eqb_neq; exact Ne)). cbn [hcur htodo Lfht.found drain].
      apply Inv2_nowrite; [exact HI| |intros n Hn; rewrite Hfut; exact Hn|exact Hnd|split; exact I|exact HBb|exact Hfd].
      intros y [E|[E|[]]]; subst y; [apply Hcr; cbn; tauto|exact Hfdc].
  - (* A_Gc *)
    cbn in Hl3. destruct Hl3 as [HBb Hpv]. destruct Hli as [(Hrm & Hpi & Hrn & Hpn & Hrn2) _].
    assert (Hcp : insd s prev).
    { assert (Hin : In prev (refs (A_Gc node b u prev iter next) ++ [fnd])) by (cbn; tauto). destruct (Hcr _ Hin) as [E|H]; [contradiction|exact H]. }
    assert (Hcn : ptr next = 0 \/ insd s (ptr next)) by (apply Hcr; cbn; tauto).
    assert (Hfdc : fnd = 0 \/ insd s fnd) by (destruct Hfd as [H|[H _]]; [left; exact H|right; exact H]).
    change (smem hloc (hprog C) s (HNext prev)) with (nxw s prev).
    destruct (N.eqb_spec (nxw s prev) iter) as [Eq|Ne]; cbn [hcur htodo Lfht.found drain].
    + set (newv := if is_bucket iter then clr next + BUCKET else clr next).
      apply (Inv2_write C isB s t _ _ prev newv None HI).
      * left. split; [exact Hcp|rewrite Eq; exact Hrm].
      * intros x Hx. apply upd_o. congruence.
      * apply upd_s.
      * intros x. cbn [is_ni]. apply upd_o. discriminate.
      * intros n E; discriminate.
      * intros _. split; [unfold newv; destruct (is_bucket iter); rewrite ?ptr_clr_b, ?ptr_clr; destruct Hcn as [H|H]; [left; exact H|right; left; exact H|left; exact H|right; left; exact H]|].
        split; [|intros _; unfold newv; destruct (is_bucket iter); [apply rem_clrB|apply rem_clr]].
        rewrite <- (J_bk C isB s HI prev Hcp), Eq. unfold newv. destruct (is_bucket iter); [apply bkt_clrB|apply bkt_clr].
      * intros y [E|[E|[]]]; subst y; [destruct (Hcr b) as [H|H]; [cbn; tauto|left; exact H|right; left; exact H]|destruct Hfdc as [H|H]; [left; exact H|right; left; exact H]].
      * intros n Hn. rewrite Hfut. exact Hn.
      * exact Hnd.
      * split; exact I.
      * exact HBb.
      * destruct Hfd as [H|[H1 H2]]; [left; exact H|right; split; [left; exact H1|exact H2]].
    + apply Inv2_nowrite; [exact HI| |intros n Hn; rewrite Hfut; exact Hn|exact Hnd| |exact HBb|exact Hfd].
      * intros y [E|[E|[]]]; subst y; [apply Hcr; cbn; tauto|exact Hfdc].
      * split; exact I.
  - (* A_Ret *)
    cbn [drain]. apply Inv2_nowrite; [exact HI| |rewrite Hfut; tauto|exact Hnd|split; exact I|exact I|exact Hfd].
    intros y [E|[]]. subst y. destruct Hfd as [H|[H _]]; [left; exact H|right; exact H].
  - (* D_Size *)
    destruct Hli as [_ HnB].
    assert (Hfdc : fnd = 0 \/ insd s fnd) by (destruct Hfd as [H|[H _]]; [left; exact H|right; exact H]).
    destruct (N.eqb_spec node 0) as [E0|E0]; cbn [hcur htodo Lfht.found drain].
    + apply Inv2_nowrite; [exact HI| |rewrite Hfut; tauto|exact Hnd|split; exact I|exact I|exact Hfd].
      intros y [E|[]]. subst y. exact Hfdc.
    + apply Inv2_nowrite; [exact HI| |rewrite Hfut; tauto|exact Hnd| |exact E0|exact Hfd].
      * intros y [E|[E|[]]]; subst y; [apply Hcr; cbn; tauto|exact Hfdc].
      * split; [exact I|]. destruct HnB as [E|H]; [contradiction|exact H].
  - (* D_Load *)
    destruct Hli as [_ HnB]. cbn in Hl3.
    assert (Hfdc : fnd = 0 \/ insd s fnd) by (destruct Hfd as [H|[H _]]; [left; exact H|right; exact H]).
    destruct (is_removed (smem hloc (hprog C) s (HNext node))); cbn [hcur htodo Lfht.found drain].
    + apply Inv2_nowrite; [exact HI| |rewrite Hfut; tauto|exact Hnd|split; exact I|exact I|exact Hfd].
      intros y [E|[]]. subst y. exact Hfdc.
    + apply Inv2_nowrite; [exact HI| |rewrite Hfut; tauto|exact Hnd| |exact I|exact Hfd].
      * intros y [E|[E|[]]]; subst y; [apply Hcr; cbn; tauto|exact Hfdc].
      * split; [exact I|]. split; [exact Hl3|exact HnB].
  - (* D_Or *)
    destruct Hli as [_ [Hz HnB]].
    assert (Hcn : insd s node).
    { assert (Hin : In node (refs (D_Or node sz) ++ [fnd])) by (cbn; tauto). destruct (Hcr _ Hin) as [E|H]; [contradiction|exact H]. }
    assert (Hfdc : fnd = 0 \/ insd s fnd) by (destruct Hfd as [H|[H _]]; [left; exact H|right; exact H]).
    cbn [hcur htodo Lfht.found drain]. change (smem hloc (hprog C) s (HNext node)) with (nxw s node).
    apply (Inv2_write C isB s t _ _ node (N.lor (nxw s node) REMOVED) None HI).
    + right; right. split; [exact Hcn|]. split; [apply ptr_lor_small; unfold REMOVED; lia|apply flag_lor1].
    + intros x Hx. apply upd_o. congruence.
    + apply upd_s.
    + intros x. cbn [is_ni]. apply upd_o. discriminate.
    + intros n E; discriminate.
    + intros _. rewrite ptr_lor_small by (unfold REMOVED; lia). split; [destruct (J_cm C isB s HI node Hcn) as [H|H]; [left; exact H|right; left; exact H]|].
      split; [rewrite flag_lor1_b; apply (J_bk C isB s HI node Hcn)|intros HB; rewrite HB in HnB; discriminate].
    + intros y [E|[E|[E|[]]]]; subst y; [right; left; exact Hcn|right; left; apply Hbins|destruct Hfdc as [H|H]; [left; exact H|right; left; exact H]].
    + intros n Hn. rewrite Hfut. exact Hn.
    + exact Hnd.
    + split; [exact I|]. split; [exact Hz|]. split; [exact HnB|]. unfold LfhtReach.nxw, Mm; cbn. rewrite upd_s. apply flag_lor1.
    + cbn. apply Hbkt.
    + destruct Hfd as [H|[H1 H2]]; [left; exact H|right; split; [left; exact H1|exact H2]].
  - (* G_Start *)
    cbn in Hl3. destruct (J_bins C isB s HI b Hl3) as [Hb Hb0]. destruct Hli as [_ (Hz & HnB & Hnr)].
    assert (Hfdc : fnd = 0 \/ insd s fnd) by (destruct Hfd as [H|[H _]]; [left; exact H|right; exact H]).
    set (r := smem hloc (hprog C) s (HNext b)).
    assert (Hr : ptr r = 0 \/ insd s (ptr r)) by (apply (Hclose b); [right; exact Hb|exact Hb0]).
    unfold gc_at. destruct (is_end r) eqn:Ee; [|destruct (rh C node <? rh C (ptr r))]; cbn [hcur htodo Lfht.found drain].
    + apply Inv2_nowrite; [exact HI| |rewrite Hfut; tauto|exact Hnd|split; [exact I|split; [exact Hz|split; [exact HnB|exact Hnr]]]|exact I|exact Hfd].
      intros y [E|[E|[]]]; subst y; [apply Hcr; cbn; tauto|exact Hfdc].
    + apply Inv2_nowrite; [exact HI| |rewrite Hfut; tauto|exact Hnd|split; [exact I|split; [exact Hz|split; [exact HnB|exact Hnr]]]|exact I|exact Hfd].
      intros y [E|[E|[]]]; subst y; [apply Hcr; cbn; tauto|exact Hfdc].
    + apply Inv2_nowrite; [exact HI| |rewrite Hfut; tauto|exact Hnd| |cbn; split; assumption|exact Hfd].
      * intros y Hy. cbn [refs hcur app In Lfht.found] in Hy. destruct Hy as [E|[E|[E|[E|[E|[]]]]]]; subst y; try (apply Hcr; cbn; tauto); try (right; exact Hb); try exact Hr; try exact Hfdc.
      * split; [split; [apply (J_bnr C isB s HI b Hb Hl3)|unfold is_end in Ee; apply N.eqb_neq; exact Ee]|split; [exact Hz|split; [exact HnB|exact Hnr]]].
  - (* G_Iter *)
    cbn in Hl3. destruct Hl3 as [HBb Hpv]. destruct Hli as [[Hrm Hpi] (Hz & HnB & Hnr)].
    assert (Hci : insd s (ptr iter)).
    { assert (Hin : In (ptr iter) (refs (G_Iter node b prev iter) ++ [fnd])) by (cbn; tauto). destruct (Hcr _ Hin) as [E|H]; [contradiction|exact H]. }
    assert (Hfdc : fnd = 0 \/ insd s fnd) by (destruct Hfd as [H|[H _]]; [left; exact H|right; exact H]).
    set (r := smem hloc (hprog C) s (HNext (ptr iter))).
    assert (Hr : ptr r = 0 \/ insd s (ptr r)) by (apply (Hclose (ptr iter)); [right; exact Hci|exact Hpi]).
    destruct (is_removed r) eqn:Er; cbn [hcur htodo Lfht.found drain].
    + apply Inv2_nowrite; [exact HI| |rewrite Hfut; tauto|exact Hnd| |cbn; split; assumption|exact Hfd].
      * intros y Hy. cbn [refs hcur app In Lfht.found] in Hy. destruct Hy as [E|[E|[E|[E|[E|[E|[]]]]]]]; subst y; try (apply Hcr; cbn; tauto); try exact Hr; try exact Hfdc.
      * split; [cbn; repeat split; assumption|split; [exact Hz|split; [exact HnB|exact Hnr]]].
    + unfold gc_at. destruct (is_end r) eqn:Ee; [|destruct (rh C node <? rh C (ptr r))]; cbn [hcur htodo Lfht.found drain].
      * apply Inv2_nowrite; [exact HI| |rewrite Hfut; tauto|exact Hnd|split; [exact I|split; [exact Hz|split; [exact HnB|exact Hnr]]]|exact I|exact Hfd].
        intros y [E|[E|[]]]; subst y; [apply Hcr; cbn; tauto|exact Hfdc].
      * apply Inv2_nowrite; [exact HI| |rewrite Hfut; tauto|exact Hnd|split; [exact I|split; [exact Hz|split; [exact HnB|exact Hnr]]]|exact I|exact Hfd].
        intros y [E|[E|[]]]; subst y; [apply Hcr; cbn; tauto|exact Hfdc].
      * apply Inv2_nowrite; [exact HI| |rewrite Hfut; tauto|exact Hnd| |cbn; split; assumption|exact Hfd].
        -- intros y Hy. cbn [refs hcur app In Lfht.found] in Hy. destruct Hy as [E|[E|[E|[E|[E|[]]]]]]; subst y; try (apply Hcr; cbn; tauto); try (right; exact Hci); try exact Hr; try exact Hfdc.
        -- split; [split; [exact Er|unfold is_end in Ee; apply N.eqb_neq; exact Ee]|split; [exact Hz|split; [exact HnB|exact Hnr]]].
  - (* G_Cas *)
    cbn in Hl3. destruct Hl3 as [HBb Hpv]. destruct Hli as [(Hrm & Hpi & Hrn & Hpn & Hrn2) (Hz & HnB & Hnr)].
    assert (Hcp : insd s prev).
    { assert (Hin : In prev (refs (G_Cas node b prev iter next) ++ [fnd])) by (cbn; tauto). destruct (Hcr _ Hin) as [E|H]; [contradiction|exact H]. }
    assert (Hcn : ptr next = 0 \/ insd s (ptr next)) by (apply Hcr; cbn; tauto).
    assert (Hfdc : fnd = 0 \/ insd s fnd) by (destruct Hfd as [H|[H _]]; [left; exact H|right; exact H]).
    change (smem hloc (hprog C) s (HNext prev)) with (nxw s prev).
    destruct (N.eqb_spec (nxw s prev) iter) as [Eq|Ne]; cbn [hcur htodo Lfht.found drain].
    + set (newv := if is_bucket iter then clr next + BUCKET else clr next).
      apply (Inv2_write C isB s t _ _ prev newv None HI).
      * left. split; [exact Hcp|rewrite Eq; exact Hrm].
      * intros x Hx. apply upd_o. congruence.
      * apply upd_s.
      * intros x. cbn [is_ni]. apply upd_o. discriminate.
      * intros n E; discriminate.
      * intros _. split; [unfold newv; destruct (is_bucket iter); rewrite ?ptr_clr_b, ?ptr_clr; destruct Hcn as [H|H]; [left; exact H|right; left; exact H|left; exact H|right; left; exact H]|].
        split; [|intros _; unfold newv; destruct (is_bucket iter); [apply rem_clrB|apply rem_clr]].
        rewrite <- (J_bk C isB s HI prev Hcp), Eq. unfold newv. destruct (is_bucket iter); [apply bkt_clrB|apply bkt_clr].
      * intros y [E|[E|[E|[]]]]; subst y; [destruct (Hcr node) as [H|H]; [cbn; tauto|left; exact H|right; left; exact H]|destruct (Hcr b) as [H|H]; [cbn; tauto|left; exact H|right; left; exact H]|destruct Hfdc as [H|H]; [left; exact H|right; left; exact H]].
      * intros n Hn. rewrite Hfut. exact Hn.
      * exact Hnd.
      * split; [exact I|]. split; [exact Hz|]. split; [exact HnB|]. assert (Hnp : prev <> node) by (intros E; subst node; rewrite Eq in Hnr; rewrite Hrm in Hnr; discriminate). unfold LfhtReach.nxw, Mm, mkst2; cbn [smem]. rewrite upd_o by congruence. exact Hnr.
      * exact HBb.
      * destruct Hfd as [H|[H1 H2]]; [left; exact H|right; split; [left; exact H1|exact H2]].
    + apply Inv2_nowrite; [exact HI| |intros n Hn; rewrite Hfut; exact Hn|exact Hnd| |exact HBb|exact Hfd].
      * intros y [E|[E|[E|[]]]]; subst y; [apply Hcr; cbn; tauto|apply Hcr; cbn; tauto|exact Hfdc].
      * split; [exact I|]. split; [exact Hz|]. split; [exact HnB|exact Hnr].
  - (* D_Assert *)
    destruct Hli as [_ (Hz & HnB & Hnr)].
    assert (Hfdc : fnd = 0 \/ insd s fnd) by (destruct Hfd as [H|[H _]]; [left; exact H|right; exact H]).
    cbn [drain]. apply Inv2_nowrite; [exact HI| |rewrite Hfut; tauto|exact Hnd|split; [exact I|split; [exact Hz|split; [exact HnB|exact Hnr]]]|exact I|exact Hfd].
    intros y [E|[E|[]]]; subst y; [apply Hcr; cbn; tauto|exact Hfdc].
  - (* D_Load2 *)
    destruct Hli as [_ (Hz & HnB & Hnr)].
    assert (Hcn : insd s node).
    { assert (Hin : In node (refs (D_Load2 node) ++ [fnd])) by (cbn; tauto). destruct (Hcr _ Hin) as [E|H]; [contradiction|exact H]. }
    assert (Hfdc : fnd = 0 \/ insd s fnd) by (destruct Hfd as [H|[H _]]; [left; exact H|right; exact H]).
    cbn [drain]. change (smem hloc (hprog C) s (HNext node)) with (nxw s node).
    apply Inv2_nowrite; [exact HI| |rewrite Hfut; tauto|exact Hnd| |exact I|exact Hfd].
    + intros y [E|[E|[E|[]]]]; subst y; [right; exact Hcn|apply (J_cm C isB s HI node Hcn)|exact Hfdc].
    + split; [exact I|]. split; [exact Hz|]. split; [exact HnB|]. split; [exact Hnr|]. split; [reflexivity|]. split; [exact Hnr|].
      rewrite (J_bk C isB s HI node Hcn). exact HnB.
  - (* D_Xchg *)
    destruct Hli as [_ (Hz & HnB & Hrv & Hpv & Hnr & Hbv)].
    assert (Hcn : insd s node).
    { assert (Hin : In node (refs (D_Xchg node v) ++ [fnd])) by (cbn; tauto). destruct (Hcr _ Hin) as [E|H]; [contradiction|exact H]. }
    assert (Hfdc : fnd = 0 \/ insd s fnd) by (destruct Hfd as [H|[H _]]; [left; exact H|right; exact H]).
    cbn [hcur htodo Lfht.found drain].
    apply (Inv2_write C isB s t _ _ node (N.lor v OWNER) None HI).
    + right; right. split; [exact Hcn|]. split; [rewrite ptr_lor_small by (unfold OWNER; lia); exact Hpv|rewrite flag_lor4_r; exact Hrv].
    + intros x Hx. apply upd_o. congruence.
    + apply upd_s.
    + intros x. cbn [is_ni]. apply upd_o. discriminate.
    + intros n E; discriminate.
    + intros _. rewrite ptr_lor_small by (unfold OWNER; lia). rewrite Hpv.
      split; [destruct (J_cm C isB s HI node Hcn) as [H|H]; [left; exact H|right; left; exact H]|].
      split; [rewrite flag_lor4_b, Hbv; symmetry; exact HnB|intros HB; rewrite HB in HnB; discriminate].
    + intros y [E|[]]. subst y. destruct Hfdc as [H|H]; [left; exact H|right; left; exact H].
    + intros n Hn. rewrite Hfut. exact Hn.
    + exact Hnd.
    + split; exact I.
    + exact I.
    + destruct Hfd as [H|[H1 H2]]; [left; exact H|right; split; [left; exact H1|exact H2]].
  - (* D_Ret *)
    cbn [drain]. apply Inv2_nowrite; [exact HI| |rewrite Hfut; tauto|exact Hnd|split; exact I|exact I|exact Hfd].
    intros y [E|[]]. subst y. destruct Hfd as [H|[H _]]; [left; exact H|right; exact H].
  - (* R_Size *)
    destruct Hli as [_ [Ho0 HoB]].
    assert (Hfut' : future C s t = new :: adds todo) by (rewrite Hfut; reflexivity).
    assert (Hfdc : fnd = 0 \/ insd s fnd) by (destruct Hfd as [H|[H _]]; [left; exact H|right; exact H]).
    assert (Hoi : old = 0 \/ insd s old) by (apply Hcr; cbn; tauto).
    unfold repl_at. destruct (is_removed onext) eqn:Er; cbn [hcur htodo Lfht.found Lfht.fnext drain].
    + apply Inv2_nowrite; [exact HI| | |cbn; apply (NoDup_tail _ _ Hnd)|split; exact I|exact I|exact Hfd].
      * intros y [E|[]]. subst y. exact Hfdc.
      * intros n Hn. rewrite Hfut'. right. exact Hn.
    + eapply Inv2_into_rcas; [exact HI|reflexivity|rewrite Hfut'; left; reflexivity| |intros n Hn; rewrite Hfut'; exact Hn|exact Hnd|exact Er|exact Ho0|exact HoB|exact Hfd].
      intros y [E|[E|[]]]; subst y; [exact Hoi|exact Hfdc].
  - (* R_Cas *)
    destruct Hli as [[Hrm Hnew] [Ho0 HoB]].
    assert (Hfut' : future C s t = new :: adds todo) by (rewrite Hfut; reflexivity).
    assert (Hinn : In new (future C s t)) by (rewrite Hfut'; left; reflexivity).
    assert (Hfdc : fnd = 0 \/ insd s fnd) by (destruct Hfd as [H|[H _]]; [left; exact H|right; exact H]).
    assert (Hoi : insd s old) by (destruct (Hcr old) as [E|H]; [cbn; tauto|contradiction|exact H]).
    destruct (J_fut C isB s HI t new Hinn) as (Hnni & Hn0 & HnB).
    change (smem hloc (hprog C) s (HNext old)) with (nxw s old).
    destruct (N.eqb_spec (nxw s old) onext) as [Eq|Ne].
    + (* success: old.next := new | REMOVED | REMOVAL_OWNER ; new marked inserted *)
      cbn [hcur htodo Lfht.found Lfht.fnext drain].
      apply (Inv2_write C isB s t _ _ old (mkp new (REMOVED + OWNER)) (Some new) HI).
      * left. split; [exact Hoi|rewrite Eq; exact Hrm].
      * intros x Hx. rewrite upd_o by discriminate. apply upd_o. congruence.
      * rewrite upd_o by discriminate. apply upd_s.
      * intros x. cbn [is_ni]. destruct (N.eqb_spec x new) as [->|Hxn]; [apply upd_s|]. rewrite upd_o by congruence. apply upd_o. discriminate.
      * intros n E. inversion E; subst n. split; [exact Hinn|]. split; [cbn; pose proof Hnd as Hnd'; cbn in Hnd'; inversion Hnd'; assumption|].
        split; [intros ->; contradiction|]. rewrite Hnew, <- Eq. split; [apply (J_cm C isB s HI old Hoi)|rewrite (J_bk C isB s HI old Hoi); exact HoB].
      * intros _. rewrite ptr_mkp5, bkt_mkp5. split; [right; right; cbn; apply N.eqb_refl|]. split; [symmetry; exact HoB|intros HB; rewrite HB in HoB; discriminate].
      * intros y Hy. cbn [refs hcur app In Lfht.found] in Hy. destruct Hy as [E|[E|[E|[E|[]]]]]; subst y;
          [right; right; cbn; apply N.eqb_refl|right; left; apply Hbins|right; left; exact Hoi|destruct Hfdc as [H|H]; [left; exact H|right; left; exact H]].
      * intros n Hn. rewrite Hfut'. right. exact Hn.
      * cbn. apply (NoDup_tail _ _ Hnd).
      * split; exact I.
      * cbn. apply Hbkt.
      * destruct Hfd as [H|[H1 H2]]; [left; exact H|right; split; [left; exact H1|exact H2]].
    + (* failure: retry with the word just read, or give up if it says old is removed *)
      unfold repl_at. destruct (is_removed (nxw s old)) eqn:Er; cbn [hcur htodo Lfht.found Lfht.fnext drain].
      * apply Inv2_nowrite; [exact HI| | |cbn; apply (NoDup_tail _ _ Hnd)|split; exact I|exact I|exact Hfd].
        -- intros y [E|[]]. subst y. exact Hfdc.
        -- intros n Hn. rewrite Hfut'. right. exact Hn.
      * eapply Inv2_into_rcas; [exact HI|reflexivity|exact Hinn| |intros n Hn; rewrite Hfut'; exact Hn|exact Hnd|exact Er|exact Ho0|exact HoB|exact Hfd].
        intros y [E|[E|[]]]; subst y; [right; exact Hoi|exact Hfdc].
  - (* RG_Start *)
    cbn in Hl3. destruct (J_bins C isB s HI b Hl3) as [Hb Hb0].
    assert (Hfdc : fnd = 0 \/ insd s fnd) by (destruct Hfd as [H|[H _]]; [left; exact H|right; exact H]).
    set (r := smem hloc (hprog C) s (HNext b)).
    assert (Hr : ptr r = 0 \/ insd s (ptr r)) by (apply (Hclose b); [right; exact Hb|exact Hb0]).
    unfold rgc_at. destruct (is_end r) eqn:Ee; [|destruct (rh C new <? rh C (ptr r))]; cbn [hcur htodo Lfht.found Lfht.fnext drain].
    + apply Inv2_nowrite; [exact HI| |rewrite Hfut; tauto|exact Hnd|split; exact I|exact I|exact Hfd].
      intros y [E|[E|[]]]; subst y; [apply Hcr; cbn; tauto|exact Hfdc].
    + apply Inv2_nowrite; [exact HI| |rewrite Hfut; tauto|exact Hnd|split; exact I|exact I|exact Hfd].
      intros y [E|[E|[]]]; subst y; [apply Hcr; cbn; tauto|exact Hfdc].
    + apply Inv2_nowrite; [exact HI| |rewrite Hfut; tauto|exact Hnd| |cbn; split; assumption|exact Hfd].
      * intros y Hy. cbn [refs hcur app In Lfht.found] in Hy. destruct Hy as [E|[E|[E|[E|[E|[E|[]]]]]]]; subst y; try (apply Hcr; cbn; tauto); try (right; exact Hb); try exact Hr; try exact Hfdc.
      * split; [split; [apply (J_bnr C isB s HI b Hb Hl3)|unfold is_end in Ee; apply N.eqb_neq; exact Ee]|exact I].
  - (* RG_Iter *)
    cbn in Hl3. destruct Hl3 as [HBb Hpv]. destruct Hli as [[Hrm Hpi] _].
    assert (Hci : insd s (ptr iter)).
    { assert (Hin : In (ptr iter) (refs (RG_Iter new b old prev iter) ++ [fnd])) by (cbn; tauto). destruct (Hcr _ Hin) as [E|H]; [contradiction|exact H]. }
    assert (Hfdc : fnd = 0 \/ insd s fnd) by (destruct Hfd as [H|[H _]]; [left; exact H|right; exact H]).
    set (r := smem hloc (hprog C) s (HNext (ptr iter))).
    assert (Hr : ptr r = 0 \/ insd s (ptr r)) by (apply (Hclose (ptr iter)); [right; exact Hci|exact Hpi]).
    destruct (is_removed r) eqn:Er; cbn [hcur htodo Lfht.found Lfht.fnext drain].
    + apply Inv2_nowrite; [exact HI| |rewrite Hfut; tauto|exact Hnd| |cbn; split; assumption|exact Hfd].
      * intros y Hy. cbn [refs hcur app In Lfht.found] in Hy. destruct Hy as [E|[E|[E|[E|[E|[E|[E|[]]]]]]]]; subst y; try (apply Hcr; cbn; tauto); try exact Hr; try exact Hfdc.
      * split; [cbn; repeat split; assumption|exact I].
    + unfold rgc_at. destruct (is_end r) eqn:Ee; [|destruct (rh C new <? rh C (ptr r))]; cbn [hcur htodo Lfht.found Lfht.fnext drain].
      * apply Inv2_nowrite; [exact HI| |rewrite Hfut; tauto|exact Hnd|split; exact I|exact I|exact Hfd].
        intros y [E|[E|[]]]; subst y; [apply Hcr; cbn; tauto|exact Hfdc].
      * apply Inv2_nowrite; [exact HI| |rewrite Hfut; tauto|exact Hnd|split; exact I|exact I|exact Hfd].
        intros y [E|[E|[]]]; subst y; [apply Hcr; cbn; tauto|exact Hfdc].
      * apply Inv2_nowrite; [exact HI| |rewrite Hfut; tauto|exact Hnd| |cbn; split; assumption|exact Hfd].
        -- intros y Hy. cbn [refs hcur app In Lfht.found] in Hy. destruct Hy as [E|[E|[E|[E|[E|[E|[]]]]]]]; subst y; try (apply Hcr; cbn; tauto); try (right; exact Hci); try exact Hr; try exact Hfdc.
        -- split; [split; [exact Er|unfold is_end in Ee; apply N.eqb_neq; exact Ee]|exact I].
  - (* RG_Cas *)
    cbn in Hl3. destruct Hl3 as [HBb Hpv]. destruct Hli as [(Hrm & Hpi & Hrn & Hpn & Hrn2) _].
    assert (Hcp : insd s prev).
    { assert (Hin : In prev (refs (RG_Cas new b old prev iter next) ++ [fnd])) by (cbn; tauto). destruct (Hcr _ Hin) as [E|H]; [contradiction|exact H]. }
    assert (Hcn : ptr next = 0 \/ insd s (ptr next)) by (apply Hcr; cbn; tauto).
    assert (Hfdc : fnd = 0 \/ insd s fnd) by (destruct Hfd as [H|[H _]]; [left; exact H|right; exact H]).
    change (smem hloc (hprog C) s (HNext prev)) with (nxw s prev).
    destruct (N.eqb_spec (nxw s prev) iter) as [Eq|Ne]; cbn [hcur htodo Lfht.found Lfht.fnext drain].
    + set (newv := if is_bucket iter then clr next + BUCKET else clr next).
      apply (Inv2_write C isB s t _ _ prev newv None HI).
      * left. split; [exact Hcp|rewrite Eq; exact Hrm].
      * intros x Hx. apply upd_o. congruence.
      * apply upd_s.
      * intros x. cbn [is_ni]. apply upd_o. discriminate.
      * intros n E; discriminate.
      * intros _. split; [unfold newv; destruct (is_bucket iter); rewrite ?ptr_clr_b, ?ptr_clr; destruct Hcn as [H|H]; [left; exact H|right; left; exact H|left; exact H|right; left; exact H]|].
        split; [|intros _; unfold newv; destruct (is_bucket iter); [apply rem_clrB|apply rem_clr]].
        rewrite <- (J_bk C isB s HI prev Hcp), Eq. unfold newv. destruct (is_bucket iter); [apply bkt_clrB|apply bkt_clr].
      * intros y [E|[E|[E|[E|[]]]]]; subst y; [destruct (Hcr new) as [H|H]; [cbn; tauto|left; exact H|right; left; exact H]|destruct (Hcr b) as [H|H]; [cbn; tauto|left; exact H|right; left; exact H]|destruct (Hcr old) as [H|H]; [cbn; tauto|left; exact H|right; left; exact H]|destruct Hfdc as [H|H]; [left; exact H|right; left; exact H]].
      * intros n Hn. rewrite Hfut. exact Hn.
      * exact Hnd.
      * split; exact I.
      * exact HBb.
      * destruct Hfd as [H|[H1 H2]]; [left; exact H|right; split; [left; exact H1|exact H2]].
    + apply Inv2_nowrite; [exact HI| |intros n Hn; rewrite Hfut; exact Hn|exact Hnd| |exact HBb|exact Hfd].
      * intros y [E|[E|[E|[E|[]]]]]; subst y; [apply Hcr; cbn; tauto|apply Hcr; cbn; tauto|apply Hcr; cbn; tauto|exact Hfdc].
      * split; exact I.
  - (* R_Assert *)
    assert (Hfdc : fnd = 0 \/ insd s fnd) by (destruct Hfd as [H|[H _]]; [left; exact H|right; exact H]).
    cbn [drain]. apply Inv2_nowrite; [exact HI| |rewrite Hfut; tauto|exact Hnd|split; exact I|exact I|exact Hfd].
    intros y [E|[]]. subst y. exact Hfdc.
  - (* R_Ret *)
    cbn [drain]. apply Inv2_nowrite; [exact HI| |rewrite Hfut; tauto|exact Hnd|split; exact I|exact I|exact Hfd].
    intros y [E|[]]. subst y. destruct Hfd as [H|[H _]]; [left; exact H|right; exact H].
Qed.


Lemma Inv2_exec (s : st) c : Inv2 s -> Inv2 (fst (exec hloc hloc_eqb (hprog C) c s)).
Proof.
  intros HI. destruct c as [t|t]; [apply Inv2_step; exact HI|].
  unfold exec. change (sthr hloc (hprog C) s t) with (THr C s t). rewrite (J_buf C isB s HI t). exact HI.
Qed.

Theorem lfht_lifecycle_all_schedules : forall cs s, Inv2 s -> Inv2 (fst (run hloc hloc_eqb (hprog C) cs s)).
Proof.
  intros cs. induction cs as [|c cs IH]; intros s HI; cbn [run]; [exact HI|].
  pose proof (Inv2_exec s c HI) as H1. destruct (exec hloc hloc_eqb (hprog C) c s) as [s1 e]. cbn [fst] in H1.
  specialize (IH s1 H1). destruct (run hloc hloc_eqb (hprog C) cs s1) as [s2 es]. exact IH.
Qed.
End STEP.
Print Assumptions lfht_lifecycle_all_schedules.
