(* C07, second half: a node that is no longer reachable from the head bucket stays unreachable for ever (paths only shrink for inserted nodes), and a thread that
   holds no reference from which the node can be reached never obtains one - whatever all threads do afterwards.  Hence once a removed node is unlinked and every
   thread has passed through a state without references (a grace period: each read-side section that could hold one has ended), no thread ever loads from the node
   again: it may be freed. *)
From Coq Require Import List Arith NArith Bool Lia Relations.
Import ListNotations.
Require Import Urcu.Base.MachD Urcu.Lfht.Lfht Urcu.Lfht.LfhtSorted Urcu.Lfht.LfhtReach Urcu.Lfht.LfhtStep Urcu.Lfht.LfhtKinds Urcu.Lfht.LfhtRch.
Local Open Scope N_scope.

Section FUNREV.
(* paths of the new successor function are simulated by paths of the old one *)
Lemma reachf_ins_rev f f' (P : N -> Prop) p n a b :
  (forall x, x <> p -> f' x = f x) -> f' p = n -> n <> p -> f n = f p ->
  (forall x, P x -> f x <> 0 -> P (f x)) -> ~ P n -> P p ->
  reachf f' a b -> b <> n -> (P a -> reachf f a b) /\ (a = n -> reachf f p b).
Proof.
  intros He Hp Hnp Hfn Hclo HnP HPp H Hbn. induction H as [|a a' b [Hl Hz] H IH].
  - split; [intros _; apply rt1n_refl|intros E; contradiction].
  - destruct (IH Hbn) as [IH1 IH2]. split.
    + intros HPa. destruct (N.eq_dec a p) as [->|Hap].
      * apply IH2. congruence.
      * assert (E : f a = a') by (rewrite <- (He a Hap); exact Hl).
        eapply rt1n_trans; [split; [exact E|exact Hz]|]. apply IH1. rewrite <- E. apply Hclo; [exact HPa|rewrite E; exact Hz].
    + intros ->. assert (E : f p = a') by (rewrite <- Hfn, <- (He n Hnp); exact Hl).
      eapply rt1n_trans; [split; [exact E|exact Hz]|]. apply IH1. rewrite <- E. apply Hclo; [exact HPp|rewrite E; exact Hz].
Qed.
Lemma reachf_gc_rev f f' p m a b :
  (forall x, x <> p -> f' x = f x) -> f p = m -> m <> 0 -> f' p = f m -> reachf f' a b -> reachf f a b.
Proof.
  intros He Hp Hm Hp' H. induction H as [|a a' b [Hl Hz] H IH]; [apply rt1n_refl|].
  destruct (N.eq_dec a p) as [->|Hap].
  - eapply rt1n_trans; [split; [exact Hp|exact Hm]|]. eapply rt1n_trans; [split; [rewrite <- Hp', Hl; reflexivity|exact Hz]|exact IH].
  - eapply rt1n_trans; [split; [rewrite <- (He a Hap); exact Hl|exact Hz]|exact IH].
Qed.
Lemma reachf_inv_step f a b : reachf f a b -> a = b \/ (f a <> 0 /\ reachf f (f a) b).
Proof. intros H. destruct H as [|a' b [Hl Hz] H]; [left; reflexivity|right; subst a'; split; assumption]. Qed.
End FUNREV.

Lemma act_eq_done {L} (a : act L) : a = ADone _ \/ a <> ADone _.
Proof. destruct a; try (right; discriminate); left; reflexivity. Qed.

Section DEAD.
Variable C : cfg.
Variable isB : N -> bool.
Hypothesis Hbkt : forall i, isB (bucket C i) = true.
Variable root : N.
Hypothesis Hroot : isB root = true.
Notation st := (state hloc (hprog C)).
Notation Inv2 := (Inv2 C isB).
Notation insd := (insd C).
Notation nxw := (nxw C).
Notation kind := (kind C).
Notation reach := (reach C).
Notation nxf := (nxf C).
Notation R := (R C root).

Lemma insd_kind (s s' : st) x : kind s s' -> insd s x -> insd s' x.
Proof.
  intros Hk Hx. destruct Hk as [_ Hi|? _ _ Hi|? ? ? ? ? ? _ _ _ _ _ _ _ _ _ _ _ Hi|? ? ? _ _ _ _ _ _ _ _ _ _ Hi|? _ _ _ _ _ Hi|? ? ? ? ? _ _ _ _ _ _ _ _ _ _ _ Hi];
    apply Hi; try exact Hx; left; exact Hx.
Qed.

(* between nodes that were already inserted, a step creates no new path *)
Lemma reach_antitone (s s' : st) : Inv2 s -> kind s s' -> forall c x, insd s c -> insd s x -> reach s' c x -> reach s c x.
Proof.
  intros HI Hk c x Hc Hx. unfold LfhtRch.reach.
  assert (Hclo : forall y, insd s y -> nxf s y <> 0 -> insd s (nxf s y)).
  { intros y Hy Hn. destruct (J_cm C isB s HI y Hy) as [H|H]; [contradiction|exact H]. }
  destruct Hk as [Hn Hi|node Hnn Hn Hi|t0 b0 u0 prev node iter _ Hpi Hnn Hn0 Hpv Hrm Hnode Hpp Hpr Hpo Hn Hi|prev iter nx Hpi Hpv Hrm Hp0 Hpn Hrn Hpp Hpr Hpo Hn Hi|n Hni Hpp Hpr Hom Hn Hi
                 |t0 old new onext sz0 _ Hoi Hnn Hn0 Hov Hrm Hnew Hpp Hpr Hpo Hn Hi].
  - apply (reachf_same (nxf s') (nxf s) (fun _ => True)); [intros y _; unfold LfhtRch.nxf; rewrite Hn; reflexivity|tauto|exact I].
  - apply (reachf_same (nxf s') (nxf s) (fun y => insd s y)); [| |exact Hc].
    + intros y Hy. unfold LfhtRch.nxf. rewrite Hn by congruence. reflexivity.
    + intros y Hy Hz. assert (E : nxf s' y = nxf s y) by (unfold LfhtRch.nxf; rewrite Hn by congruence; reflexivity). rewrite E in *. apply Hclo; assumption.
  - intros H. assert (Hnp : node <> prev) by congruence.
    apply (reachf_ins_rev (nxf s) (nxf s') (fun y => insd s y) prev node c x); try assumption.
    + intros y Hy. unfold LfhtRch.nxf. rewrite (Hn y Hy). reflexivity.
    + unfold LfhtRch.nxf. rewrite Hnode, Hpv. apply ptr_clr.
    + congruence.
  - apply (reachf_gc_rev (nxf s) (nxf s') prev (ptr iter)).
    + intros y Hy. unfold LfhtRch.nxf. rewrite (Hn y Hy). reflexivity.
    + unfold LfhtRch.nxf. rewrite Hpv. reflexivity.
    + exact Hp0.
    + unfold LfhtRch.nxf at 1 2. rewrite Hpp, Hpn. reflexivity.
  - apply (reachf_same (nxf s') (nxf s) (fun _ => True)); [|tauto|exact I].
    intros y _. unfold LfhtRch.nxf. destruct (N.eq_dec y n) as [->|Hy]; [symmetry; exact Hpp|rewrite (Hn y Hy); reflexivity].
  - intros H. assert (Hno : new <> old) by congruence.
    apply (reachf_ins_rev (nxf s) (nxf s') (fun y => insd s y) old new c x); try assumption.
    + intros y Hy. unfold LfhtRch.nxf. rewrite (Hn y Hy). reflexivity.
    + unfold LfhtRch.nxf. rewrite Hnew, Hov. reflexivity.
    + congruence.
Qed.

Definition dead (s : st) (x : N) : Prop := insd s x /\ ~ reach s root x.

Lemma dead_kind (s s' : st) x : Inv2 s -> kind s s' -> dead s x -> dead s' x.
Proof.
  intros HI Hk [Hx Hr]. split; [apply (insd_kind s s' x Hk Hx)|]. intros H. apply Hr.
  apply (reach_antitone s s' HI Hk root x); [apply (J_bins C isB s HI root Hroot)|exact Hx|exact H].
Qed.
Lemma dead_exec (s : st) c x : Inv2 s -> dead s x -> dead (fst (exec hloc hloc_eqb (hprog C) c s)) x.
Proof.
  intros HI Hd. destruct c as [t|t].
  - apply (dead_kind s _ x HI (step_kind C isB s t HI) Hd).
  - unfold exec. change (sthr hloc (hprog C) s t) with (THr C s t). rewrite (J_buf C isB s HI t). exact Hd.
Qed.
(* an unlinked node is never linked again, in any schedule *)
Theorem unlinked_stays_unlinked : forall cs s x, Inv2 s -> dead s x -> dead (fst (run hloc hloc_eqb (hprog C) cs s)) x.
Proof.
  intros cs. induction cs as [|c cs IH]; intros s x HI Hd; cbn [run]; [exact Hd|].
  pose proof (Inv2_exec C isB Hbkt s c HI) as H1. pose proof (dead_exec s c x HI Hd) as H2.
  destruct (exec hloc hloc_eqb (hprog C) c s) as [s1 e]. cbn [fst] in H1, H2.
  specialize (IH s1 x H1 H2). destruct (run hloc hloc_eqb (hprog C) cs s1) as [s2 es]. exact IH.
Qed.

(* where the references of the next program point come from: the old ones, a bucket, the pointer part of the word just loaded from a referenced node, or - after
   a successful replacing cmpxchg - the node just linked in *)
(* the program points whose loaded word becomes a reference, with the node they load from *)
Definition load_src (q : hpc) : option N :=
  match q with
  | L_Bucket b _ _ | A_Start _ b _ | G_Start _ b | RG_Start _ b _ => Some b
  | L_Node n _ _ | D_Load2 n => Some n
  | A_Iter _ _ _ _ iter | G_Iter _ _ _ iter | RG_Iter _ _ _ _ iter => Some (ptr iter)
  | A_Dup _ _ _ _ _ cur => Some (ptr cur)
  | _ => None
  end.
Lemma refs_next (p : hst) (r y : N) :
  In y (refs (hcur (hnext C p r)) ++ [found (hnext C p r)]) ->
  y = 0 \/ In y (refs (hcur p) ++ [found p]) \/ isB y = true \/
  (y = ptr r /\ exists y0, load_src (hcur p) = Some y0) \/
  (exists old onext sz, hcur p = R_Cas old y onext sz /\ r = onext).
Proof.
  intros H. unfold hnext in H.
  destruct (hcur p) eqn:Ep; cbn [hcur Lfht.found] in H;
    try (destruct (htodo p) as [|[]]; cbn [hcur Lfht.found] in H; try rewrite Ep in H);
    unfold add_at, dup_at, lookup_at, gc_at, rgc_at, repl_at, repl_start in H;
    repeat match type of H with context [if ?c then _ else _] => destruct c eqn:? end;
    cbn [hcur Lfht.found refs app In] in H;
    repeat match type of H with _ \/ _ => destruct H as [H|H] end; try contradiction; subst y;
    try (left; reflexivity);
    try (right; left; cbn [refs app In]; tauto);
    try (right; right; left; apply Hbkt);
    try (right; right; right; left; split; [reflexivity|eexists; reflexivity]);
    try (right; right; right; right; do 3 eexists; split; [reflexivity|]; apply N.eqb_eq; assumption).
Qed.

Lemma load_src_facts (s : st) t y0 : Inv2 s -> load_src (PCr C s t) = Some y0 ->
  y0 <> 0 /\ In y0 (refs (PCr C s t)) /\ hact (tpc _ _ (THr C s t)) = ALoad _ (HNext y0).
Proof.
  intros HI H. pose proof (J_li C isB s HI t) as Hli. pose proof (J_l3 C isB s HI t) as Hl3. unfold PCr in *. unfold hact.
  destruct (hcur (tpc _ _ (THr C s t))) eqn:Ep; cbn [load_src] in H; try discriminate; inversion H; subst y0; clear H; unfold LIs, LIs3 in *; cbn [refs In] in *;
    (split; [|split; [tauto|reflexivity]]);
    try (apply (J_bins C isB s HI); tauto); try tauto.
Qed.

Definition away (s : st) (x y : N) : Prop := y = 0 \/ ~ reach s y x.
(* thread t holds no reference from which x can be reached *)
Definition clean (s : st) (t : nat) (x : N) : Prop := forall y, In y (refs (PCr C s t) ++ [FND C s t]) -> away s x y.

Lemma away_kind (s s' : st) x y : Inv2 s -> kind s s' -> insd s x -> (y = 0 \/ insd s y) -> away s x y -> away s' x y.
Proof.
  intros HI Hk Hx Hy [E|H]; [left; exact E|]. destruct Hy as [E|Hy]; [left; exact E|].
  right. intros H'. apply H. apply (reach_antitone s s' HI Hk y x Hy Hx H').
Qed.

Lemma own_step_form (s : st) t : Inv2 s -> hact (tpc _ _ (THr C s t)) <> ADone _ ->
  exists m', fst (exec hloc hloc_eqb (hprog C) (Step t) s) =
             mkst2 C m' (tupd hloc (hprog C) (sthr _ _ s) t (mkts2 C (hnext C (tpc _ _ (THr C s t)) (snd (eff2 (smem _ _ s) (hact (tpc _ _ (THr C s t)))))))).
Proof.
  intros HI Hnd. rewrite (exec_shape2 C isB s t HI). cbv zeta. destruct (hact (tpc _ _ (THr C s t))) eqn:Ea; try contradiction; cbn [eff2 fst snd]; eexists; reflexivity.
Qed.

Lemma clean_exec (s : st) c t x : Inv2 s -> R s -> dead s x -> clean s t x -> clean (fst (exec hloc hloc_eqb (hprog C) c s)) t x.
Proof.
  intros HI HR [Hx Hd] Hc. destruct c as [u|u].
  2:{ unfold exec. change (sthr hloc (hprog C) s u) with (THr C s u). rewrite (J_buf C isB s HI u). exact Hc. }
  pose proof (step_kind C isB s u HI) as Hk.
  pose proof (J_cr C isB s HI t) as Hcr.
  assert (Hold : forall y, In y (refs (PCr C s t) ++ [FND C s t]) -> away (fst (exec hloc hloc_eqb (hprog C) (Step u) s)) x y).
  { intros y Hy. apply (away_kind s _ x y HI Hk Hx (Hcr y Hy) (Hc y Hy)). }
  set (p := tpc _ _ (THr C s u)) in *.
  destruct (act_eq_done (hact p)) as [Ed|Hnd].
  { (* the thread is done: nothing moves *) revert Hold. rewrite (exec_shape2 C isB s u HI). cbv zeta. fold p. rewrite Ed. intros _. exact Hc. }
  destruct (own_step_form s u HI Hnd) as [m' Hform]. fold p in Hform.
  set (r := snd (eff2 (smem _ _ s) (hact p))) in *.
  destruct (Nat.eq_dec t u) as [->|Hne].
  2:{ (* another thread moved: t's references are the same nodes *)
    intros y Hy. apply Hold. revert Hy. rewrite Hform. unfold PCr, FND. rewrite (THr_other C s m' u _ t Hne). exact (fun h => h). }
  intros y Hy. assert (Hy' : In y (refs (hcur (hnext C p r)) ++ [found (hnext C p r)])).
  { revert Hy. rewrite Hform. unfold PCr, FND. rewrite (THr_same C s m' u _). cbn [tpc mkts2]. exact (fun h => h). }
  destruct (refs_next p r y Hy') as [E|[Hin|[HB|[[E [y0 Hl]]|(old & onext & sz & Ep & Er)]]]].
  - left. exact E.
  - apply Hold. exact Hin.
  - (* a bucket: reachable from the root, so x is not reachable from it *)
    destruct (J_bins C isB s HI y HB) as [Hyi Hy0].
    apply (away_kind s _ x y HI Hk Hx (or_intror Hyi)). right. intros H. apply Hd.
    eapply reachf_trans; [apply HR; split; [exact Hyi|apply (J_bnr C isB s HI y Hyi HB)]|exact H].
  - (* the successor of a referenced node *)
    destruct (load_src_facts s u y0 HI Hl) as (Hy00 & Hy0in & Ha). fold p in Ha.
    assert (Er : r = nxw s y0) by (unfold r; rewrite Ha; reflexivity).
    assert (Hy0i : insd s y0) by (destruct (Hcr y0 (in_or_app _ _ _ (or_introl Hy0in))) as [E0|H]; [contradiction|exact H]).
    assert (Hyi : y = 0 \/ insd s y) by (subst y; rewrite Er; destruct (J_cm C isB s HI y0 Hy0i) as [H|H]; [left; exact H|right; exact H]).
    apply (away_kind s _ x y HI Hk Hx Hyi). destruct (N.eq_dec y 0) as [Ez|Hnz]; [left; exact Ez|]. right. intros H.
    destruct (Hc y0 (in_or_app _ _ _ (or_introl Hy0in))) as [E0|Hn0]; [contradiction|]. apply Hn0.
    eapply rt1n_trans; [split; [|exact Hnz]|exact H]. unfold LfhtRch.nxf. rewrite <- Er. symmetry. exact E.
  - (* the node a successful replace has just linked in: its successor is the old node's former successor *)
    pose proof (J_li C isB s HI u) as Hli. unfold PCr in Hli. fold p in Hli. rewrite Ep in Hli. cbn [LIs] in Hli. destruct Hli as [[Hrm Hnew] [Ho0 HoB]].
    assert (Hoin : In old (refs (PCr C s u) ++ [FND C s u])) by (unfold PCr; fold p; rewrite Ep; cbn; tauto).
    assert (Hoi : insd s old) by (destruct (Hcr old Hoin) as [E0|H]; [contradiction|exact H]).
    assert (Hfut : In y (future C s u)) by (unfold future, PCr; fold p; rewrite Ep; cbn [mine app In]; left; reflexivity).
    destruct (J_fut C isB s HI u y Hfut) as (Hni & Hn0 & _).
    assert (Ha : hact p = ACas _ (HNext old) onext (mkp y (REMOVED + OWNER))) by (unfold hact; rewrite Ep; reflexivity).
    assert (Ero : nxw s old = onext) by (rewrite <- Er; unfold r; rewrite Ha; reflexivity).
    set (s' := fst (exec hloc hloc_eqb (hprog C) (Step u) s)) in *.
    assert (Hnx : nxw s' y = onext).
    { unfold s'. rewrite (exec_shape2 C isB s u HI). cbv zeta. fold p. rewrite Ha. cbn [eff2]. change (smem hloc (hprog C) s (HNext old)) with (nxw s old). rewrite Ero, N.eqb_refl.
      unfold hpost. rewrite Ep, N.eqb_refl. unfold LfhtReach.nxw, Mm; cbn [smem mkst2 drain]. rewrite upd_o by discriminate. rewrite upd_o by congruence. exact Hnew. }
    right. intros H. destruct (reachf_inv_step _ _ _ H) as [E|[Hz H2]]; [subst x; contradiction|].
    unfold LfhtRch.nxf in Hz, H2. rewrite Hnx in Hz, H2.
    assert (Hzi : insd s (ptr onext)) by (destruct (J_cm C isB s HI old Hoi) as [E0|Hi]; rewrite Ero in *; [contradiction|exact Hi]).
    pose proof (reach_antitone s s' HI Hk (ptr onext) x Hzi Hx H2) as H3.
    destruct (Hc old Hoin) as [E0|Hno]; [contradiction|]. apply Hno.
    eapply rt1n_trans; [split; [unfold LfhtRch.nxf; rewrite Ero; reflexivity|exact Hz]|exact H3].
Qed.

(* the location an action accesses *)
Definition touches (a : act hloc) : option hloc :=
  match a with ALoad _ l | AStore _ l _ | AXchg _ l _ | ACas _ l _ _ | AFor _ l _ => Some l | _ => None end.
(* every access to a node's word goes through a reference the thread holds *)
Lemma access_in_refs (p : hst) y : touches (hact p) = Some (HNext y) -> In y (refs (hcur p)).
Proof.
  unfold hact. destruct (hcur p) eqn:Ep; cbn [touches refs In]; try discriminate;
    try (destruct (htodo p) as [|[]]; cbn [touches]; discriminate);
    intros H; inversion H; subst; tauto.
Qed.
Lemma clean_not_ref (s : st) t x : clean s t x -> x <> 0 -> ~ In x (refs (PCr C s t) ++ [FND C s t]).
Proof. intros Hc Hx0 Hin. destruct (Hc x Hin) as [E|H]; [contradiction|]. apply H. apply rt1n_refl. Qed.

(* C07: from a state in which x is unlinked and thread t holds no reference from which x can be reached - in particular a thread outside any operation with no
   iterator, as every thread is at some instant of a grace period - x stays unlinked, t never obtains such a reference, and t never accesses x's word again,
   whatever any thread does, for every schedule *)
Theorem no_access_after_unlink : forall cs s t x, Inv2 s -> R s -> dead s x -> clean s t x -> x <> 0 ->
  let s' := fst (run hloc hloc_eqb (hprog C) cs s) in
  dead s' x /\ clean s' t x /\ touches (hact (tpc _ _ (THr C s' t))) <> Some (HNext x).
Proof.
  intros cs. induction cs as [|c cs IH]; intros s t x HI HR Hd Hc Hx0; cbn [run].
  - cbv zeta. cbn [fst]. split; [exact Hd|]. split; [exact Hc|]. intros H. apply access_in_refs in H.
    apply (clean_not_ref s t x Hc Hx0). apply in_or_app. left. exact H.
  - pose proof (Inv2_exec C isB Hbkt s c HI) as H1. pose proof (R_exec C isB root Hroot s c HI HR) as H2.
    pose proof (dead_exec s c x HI Hd) as H3. pose proof (clean_exec s c t x HI HR Hd Hc) as H4.
    destruct (exec hloc hloc_eqb (hprog C) c s) as [s1 e]. cbn [fst] in H1, H2, H3, H4.
    specialize (IH s1 t x H1 H2 H3 H4 Hx0). cbv zeta in IH. destruct (run hloc hloc_eqb (hprog C) cs s1) as [s2 es]. exact IH.
Qed.
(* a thread between operations that holds no iterator is clean *)
Lemma idle_clean (s : st) t x : PCr C s t = H_Idle -> FND C s t = 0 -> clean s t x.
Proof. intros Hp Hf y Hy. rewrite Hp, Hf in Hy. cbn in Hy. destruct Hy as [E|[]]. left. symmetry. exact E. Qed.
End DEAD.
Print Assumptions unlinked_stays_unlinked.
Print Assumptions no_access_after_unlink.
