(* scratch: the combined invariant is satisfiable — the initial state of the configuration used for the differential runs *)
From Coq Require Import List Arith NArith Bool Lia.
Import ListNotations.
Require Import Urcu.Base.MachD Urcu.Lfht.Lfht Urcu.Lfht.LfhtSorted Urcu.Lfht.LfhtReach Urcu.Lfht.LfhtStep Urcu.Lfht.LfhtKinds Urcu.Lfht.LfhtRch Urcu.Lfht.LfhtFind.
Local Open Scope N_scope.

Definition C0 : cfg :=
  {| rh := fun id => if id =? 1 then 0 else if id =? 2 then 8 else 10;
     hashof := fun id => if id =? 1 then 0 else if id =? 2 then 1 else 5;
     key := fun id => if id =? 6 then 5 else id;        (* node 6 carries the key of node 5: it can replace it *)
     bucket := fun i => if i =? 0 then 1 else 2 |}.
Definition isB0 (x : N) : bool := (x =? 1) || (x =? 2).
Definition m0 : mem hloc := fun l =>
  match l with
  | HSize => 2
  | HNext k => if k =? 1 then mkp 2 BUCKET else if k =? 2 then mkp 0 BUCKET else 0
  | HIns k => if isB0 k then 1 else 0
  end.
Definition threads (t : nat) : list hop :=
  match t with
  | 0%nat => [OAdd 3 5 false; OAdd 4 5 false]
  | 1%nat => [OAdd 5 5 true; OLookup 5 10 5; OReplaceFound 6]
  | 2%nat => [OLookup 5 10 3; ODelFound; OLookup 5 10 4]
  | _ => []
  end.
Definition s0 : state hloc (hprog C0) :=
  {| smem := m0; sthr := fun t => {| tpc := ({| hcur := H_Idle; htodo := threads t; found := 0; fnext := 0 |} : pst hloc (hprog C0)); tbuf := [] |} |}.

Lemma Hbkt0 : forall i, isB0 (bucket C0 i) = true.
Proof. intros i. cbn. destruct (i =? 0); reflexivity. Qed.
Lemma Hbk0 : forall node, rh C0 (bucket C0 (N.land (hashof C0 node) (2 - 1))) <= rh C0 node.
Proof.
  intros node. cbn [C0 rh hashof bucket]. destruct (N.eqb_spec node 1) as [->|H1]; [cbn; lia|].
  destruct (N.eqb_spec node 2) as [->|H2]; cbn; lia.
Qed.

Lemma Hrhi0 : forall a b, rh C0 a = rh C0 b -> hashof C0 a = hashof C0 b.
Proof.
  intros a b. cbn [C0 rh hashof]. destruct (a =? 1), (a =? 2), (b =? 1), (b =? 2); intros H; try reflexivity; discriminate.
Qed.

Lemma insd0 x : insd C0 s0 x <-> isB0 x = true.
Proof. unfold insd, Mm; cbn. destruct (isB0 x); split; congruence || discriminate || reflexivity. Qed.

Lemma thr_cases (P : nat -> Prop) : P 0%nat -> P 1%nat -> P 2%nat -> (forall t, P (S (S (S t)))) -> forall t, P t.
Proof. intros A B Cc D [|[|[|t]]]; auto. Qed.

Example Inv3_s0 : Inv3 C0 isB0 2 s0.
Proof.
  constructor.
  - constructor.
    + reflexivity.
    + intros x. unfold M; cbn [s0 smem m0]. destruct (N.eqb_spec x 1) as [->|H1]; [intros _; cbn; lia|].
      destruct (x =? 2); cbn; intros H; contradiction.
    + intros t. exact I.
    + intros t. reflexivity.
    + intros t; destruct t as [|[|[|t]]]; cbn; repeat constructor.
    + intros t Hz. exfalso. apply Hz. destruct t as [|[|[|t]]]; reflexivity.
  - constructor.
    + intros t. reflexivity.
    + intros x Hx. apply insd0 in Hx. unfold nxw, Mm; cbn [s0 smem m0].
      destruct (N.eqb_spec x 1) as [->|H1]; [right; apply insd0; reflexivity|].
      destruct (N.eqb_spec x 2) as [->|H2]; [left; reflexivity|]. unfold isB0 in Hx. apply orb_prop in Hx. destruct Hx as [H|H]; apply N.eqb_eq in H; contradiction.
    + intros t y Hy. left. cbn in Hy. destruct Hy as [H|[]]. symmetry. exact H.
    + intros t; destruct t as [|[|[|t]]]; cbn; intros m Hm; repeat (destruct Hm as [<-|Hm]; [split; [rewrite insd0; cbn; discriminate|split; [discriminate|reflexivity]]|]); destruct Hm.
    + intros t u m. destruct t as [|[|[|t]]]; destruct u as [|[|[|u]]]; cbn; intros H1 H2; try reflexivity; exfalso;
        repeat (destruct H1 as [<-|H1]); try destruct H1; repeat (destruct H2 as [H2|H2]; try discriminate H2); try destruct H2.
    + intros t; destruct t as [|[|[|t]]]; cbn; repeat constructor; cbn; try tauto; intros [H|[]]; discriminate.
    + intros t. split; exact I.
    + intros x Hx. apply insd0 in Hx. unfold nxw, Mm; cbn [s0 smem m0]. rewrite Hx.
      destruct (N.eqb_spec x 1) as [->|H1]; [reflexivity|]. destruct (N.eqb_spec x 2) as [->|H2]; [reflexivity|].
      unfold isB0 in Hx. apply orb_prop in Hx. destruct Hx as [H|H]; apply N.eqb_eq in H; contradiction.
    + intros x _ Hx. unfold nxw, Mm; cbn [s0 smem m0].
      destruct (N.eqb_spec x 1) as [->|H1]; [reflexivity|]. destruct (N.eqb_spec x 2) as [->|H2]; reflexivity.
    + intros t. left. reflexivity.
    + intros x Hx. split; [apply insd0; exact Hx|]. intros ->. discriminate.
    + intros t. exact I.
  - intros x Hx _ HB. apply insd0 in Hx. congruence.
  - intros t. exact I.
Qed.

(* thread 2 is about to look up the key of node 3 once node 3 has been inserted: the hypotheses of lookup_returns_key can be met *)
Example resident_found_instance : forall cs n,
  let s1 := fst (run hloc hloc_eqb (hprog C0) [Step 0; Step 0; Step 0; Step 0; Step 0; Step 0] s0) in
  let s' := fst (run hloc hloc_eqb (hprog C0) cs s1) in
  rmd C0 s' 3 = false -> hcur (HS C0 2 s') = L_Ret n -> htodo (HS C0 2 s') = [ODelFound; OLookup 5 10 4] -> good C0 3 n.
Proof.
  intros cs n s1 s'. apply (lookup_returns_key C0 isB0 2 Hbkt0 Hbk0 Hrhi0 3 2%nat [ODelFound; OLookup 5 10 4] eq_refl cs s1 n).
  - apply (lfht_own_bucket_all_schedules C0 isB0 2 Hbkt0 Hbk0 Hrhi0). apply Inv3_s0.
  - vm_compute. reflexivity.
  - split; vm_compute; reflexivity.
Qed.
Print Assumptions resident_found_instance.

(* thread 1 has added node 5, looked it up, and stands at the replacing cmpxchg with node 6: the hypotheses of replace_cas_effect can be met, and the
   conclusion is not vacuous (node 5 flagged, node 6 live behind it) *)
Example replace_instance :
  let s1 := fst (run hloc hloc_eqb (hprog C0) (repeat (Step 1%nat) 13) s0) in
  let s' := fst (exec hloc hloc_eqb (hprog C0) (Step 1%nat) s1) in
  rmd C0 s1 5 = false /\ rmd C0 s' 5 = true /\ ptr (nxw C0 s' 5) = 6 /\ insd C0 s' 6 /\ rmd C0 s' 6 = false /\ reach C0 s' (bkt C0 2 6) 6.
Proof.
  intros s1 s'.
  assert (HI : Inv3 C0 isB0 2 s1) by (apply (lfht_own_bucket_all_schedules C0 isB0 2 Hbkt0 Hbk0 Hrhi0); apply Inv3_s0).
  assert (Hpc : PCr C0 s1 1%nat = R_Cas 5 6 0 2) by (vm_compute; reflexivity).
  assert (Eq : nxw C0 s1 5 = 0) by (vm_compute; reflexivity).
  destruct (replace_cas_effect C0 isB0 2 Hbkt0 Hbk0 Hrhi0 s1 1%nat 5 6 0 2 HI Hpc Eq) as (_ & A & B & D & E & F & _ & _ & G).
  repeat split; assumption.
Qed.
Print Assumptions replace_instance.

(* C07 non-vacuity: thread 0 inserts node 3, thread 2 looks it up and deletes it (flag, unlink, ownership exchange: 18 steps).  Node 3 is then unlinked, thread 1 is
   between operations without an iterator; whatever the three threads do afterwards - thread 1 adds a node to the same chain, looks it up, replaces it - thread 1
   never accesses node 3's word *)
Require Import Urcu.Lfht.LfhtDead.
Lemma R_s0 : R C0 1 s0.
Proof.
  intros x [Hx _]. apply insd0 in Hx. unfold isB0 in Hx. apply orb_prop in Hx. destruct Hx as [H|H]; apply N.eqb_eq in H; subst x.
  - apply rt1n_refl.
  - apply reachf_step; [vm_compute; reflexivity|discriminate].
Qed.
Example no_access_instance : forall cs,
  let s1 := fst (run hloc hloc_eqb (hprog C0) (repeat (Step 0%nat) 6 ++ repeat (Step 2%nat) 18) s0) in
  let s' := fst (run hloc hloc_eqb (hprog C0) cs s1) in
  dead C0 1 s1 3 /\ dead C0 1 s' 3 /\ touches (hact (tpc _ _ (THr C0 s' 1%nat))) <> Some (HNext 3).
Proof.
  intros cs s1 s'.
  assert (HI0 : Inv2 C0 isB0 s0) by (destruct Inv3_s0 as [_ H _ _]; exact H).
  destruct (lfht_reachable_all_schedules C0 isB0 Hbkt0 1 eq_refl (repeat (Step 0%nat) 6 ++ repeat (Step 2%nat) 18) s0 HI0 R_s0) as [HI HR]. fold s1 in HI, HR.
  assert (Hd : dead C0 1 s1 3).
  { split; [vm_compute; reflexivity|]. intros H.
    apply reachf_inv_step in H. destruct H as [E|[_ H]]; [discriminate|]. replace (LfhtRch.nxf C0 s1 1) with 2 in H by (vm_compute; reflexivity).
    apply reachf_inv_step in H. destruct H as [E|[Hz _]]; [discriminate|]. apply Hz. vm_compute. reflexivity. }
  assert (Hc : clean C0 s1 1%nat 3) by (apply idle_clean; vm_compute; reflexivity).
  destruct (no_access_after_unlink C0 isB0 Hbkt0 1 eq_refl cs s1 1%nat 3 HI HR Hd Hc ltac:(discriminate)) as (A & _ & B).
  split; [exact Hd|]. split; [exact A|exact B].
Qed.
Print Assumptions no_access_instance.
