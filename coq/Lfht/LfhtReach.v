(* scratch: life cycle of nodes (private -> inserted -> removed), pointer closure, frozenness of removed nodes *)
From Coq Require Import List Arith NArith Bool Lia Relations.
Import ListNotations.
Require Import Urcu.Base.MachD Urcu.Lfht.Lfht Urcu.Lfht.LfhtSorted.
Local Open Scope N_scope.

Lemma flag_lor1 w : is_removed (N.lor w REMOVED) = true.
Proof. unfold is_removed, REMOVED. rewrite N.lor_spec. cbn. apply orb_true_r. Qed.
Lemma flag_lor1_b w : is_bucket (N.lor w REMOVED) = is_bucket w.
Proof. unfold is_bucket, REMOVED. rewrite N.lor_spec. cbn. apply orb_false_r. Qed.
Lemma flag_lor4_r w : is_removed (N.lor w OWNER) = is_removed w.
Proof. unfold is_removed, OWNER. rewrite N.lor_spec. cbn. apply orb_false_r. Qed.
Lemma flag_lor4_b w : is_bucket (N.lor w OWNER) = is_bucket w.
Proof. unfold is_bucket, OWNER. rewrite N.lor_spec. cbn. apply orb_false_r. Qed.
Lemma tb1 id f : N.testbit (8 * id + f) 1 = N.testbit f 1.
Proof.
  rewrite !N.testbit_eqb. change (2^1) with 2.
  replace ((8 * id + f) / 2) with (f / 2 + 2 * id * 2).
  - rewrite N.mod_add by lia. reflexivity.
  - replace (8 * id + f) with (f + 4 * id * 2) by lia. rewrite N.div_add by lia. lia.
Qed.
Lemma tb0 id f : N.testbit (8 * id + f) 0 = N.testbit f 0.
Proof.
  rewrite !N.testbit_eqb. change (2^0) with 1. rewrite !N.div_1_r.
  replace (8 * id + f) with (f + 4 * id * 2) by lia. rewrite N.mod_add by lia. reflexivity.
Qed.
Lemma rem_mkp0 id : is_removed (mkp id 0) = false.  Proof. unfold is_removed, mkp. rewrite tb0. reflexivity. Qed.
Lemma rem_mkpB id : is_removed (mkp id BUCKET) = false.  Proof. unfold is_removed, mkp. rewrite tb0. reflexivity. Qed.
Lemma bkt_mkp0 id : is_bucket (mkp id 0) = false.  Proof. unfold is_bucket, mkp. rewrite tb1. reflexivity. Qed.
Lemma bkt_mkpB id : is_bucket (mkp id BUCKET) = true.  Proof. unfold is_bucket, mkp. rewrite tb1. reflexivity. Qed.
Lemma rem_clr w : is_removed (clr w) = false.  Proof. unfold clr. rewrite <- (N.add_0_r (8 * ptr w)). apply (rem_mkp0 (ptr w)). Qed.
Lemma bkt_clr w : is_bucket (clr w) = false.  Proof. unfold clr. rewrite <- (N.add_0_r (8 * ptr w)). apply (bkt_mkp0 (ptr w)). Qed.
Lemma rem_clrB w : is_removed (clr w + BUCKET) = false.  Proof. apply (rem_mkpB (ptr w)). Qed.
Lemma bkt_clrB w : is_bucket (clr w + BUCKET) = true.  Proof. apply (bkt_mkpB (ptr w)). Qed.

Section REACH.
Variable C : cfg.
Variable isB : N -> bool.                         (* static: which node ids are bucket nodes *)
Notation st := (state hloc (hprog C)).
Definition Mm (s : st) := smem _ _ s.
Definition THr (s : st) (t : nat) : tstate hloc (hprog C) := sthr _ _ s t.
Definition PCr (s : st) t : hpc := hcur (tpc _ _ (THr s t)).
Definition FND (s : st) t : N := found (tpc _ _ (THr s t)).
Definition TODOr (s : st) t : list hop := htodo (tpc _ _ (THr s t)).
Definition insd (s : st) (x : N) : Prop := Mm s (HIns x) = 1.
Definition nxw (s : st) (x : N) : N := Mm s (HNext x).

(* nodes a thread holds in its locals (other than the node it is about to insert) *)
Definition refs (p : hpc) : list N :=
  match p with
  | L_Bucket b _ _ => [b] | L_Node n _ _ => [n] | L_Assert n nx => [n; ptr nx] | L_Ret n => [n]
  | A_Start _ b _ => [b]
  | A_Iter _ b _ prev iter => [b; prev; ptr iter]
  | A_Dup _ b _ prev iter cur => [b; prev; ptr iter; ptr cur]
  | A_DupAssert f => [f]
  | A_Cas _ b _ prev iter => [b; prev; ptr iter]
  | A_Gc _ b _ prev iter nx => [b; prev; ptr iter; ptr nx]
  | D_Size n => [n] | D_Load n _ => [n] | D_Or n _ => [n]
  | G_Start n b => [n; b] | G_Iter n b prev iter => [n; b; prev; ptr iter] | G_Cas n b prev iter nx => [n; b; prev; ptr iter; ptr nx]
  | D_Assert n => [n] | D_Load2 n => [n] | D_Xchg n v => [n; ptr v]
  | R_Size old _ _ => [old] | R_Cas old _ _ _ => [old]
  | RG_Start new b old => [new; b; old] | RG_Iter new b old prev iter => [new; b; old; prev; ptr iter] | RG_Cas new b old prev iter nx => [new; b; old; prev; ptr iter; ptr nx]
  | R_Assert old => [old]
  | _ => []
  end.
Definition mine (p : hpc) : option N :=
  match p with
  | A_Size n _ _ | A_Start n _ _ | A_Iter n _ _ _ _ | A_Dup n _ _ _ _ _ | A_Cas n _ _ _ _ | A_Gc n _ _ _ _ _ => Some n
  | R_Size _ n _ | R_Cas _ n _ _ => Some n
  | _ => None
  end.
Fixpoint adds (l : list hop) : list N :=
  match l with [] => [] | OAdd n _ _ :: r => n :: adds r | OReplaceFound n :: r => n :: adds r | _ :: r => adds r end.
Definition future (s : st) t : list N := match mine (PCr s t) with Some n => [n] | None => [] end ++ adds (TODOr s t).

(* facts a thread relies on that mention the current memory *)
Definition LIs (s : st) (p : hpc) : Prop :=
  match p with
  | L_Node n _ _ => n <> 0
  | A_Iter _ _ _ _ iter => is_removed iter = false /\ ptr iter <> 0
  | A_Dup _ _ _ _ iter cur => is_removed iter = false /\ ptr cur <> 0
  | A_Cas node _ _ _ iter => is_removed iter = false /\ nxw s node = clr iter
  | A_Gc _ _ _ _ iter nx | G_Cas _ _ _ iter nx =>
      is_removed iter = false /\ ptr iter <> 0 /\ is_removed nx = true /\
      ptr (nxw s (ptr iter)) = ptr nx /\ is_removed (nxw s (ptr iter)) = true
  | G_Iter _ _ _ iter => is_removed iter = false /\ ptr iter <> 0
  | R_Cas _ new onext _ => is_removed onext = false /\ nxw s new = onext
  | RG_Iter _ _ _ _ iter => is_removed iter = false /\ ptr iter <> 0
  | RG_Cas _ _ _ _ iter nx =>
      is_removed iter = false /\ ptr iter <> 0 /\ is_removed nx = true /\
      ptr (nxw s (ptr iter)) = ptr nx /\ is_removed (nxw s (ptr iter)) = true
  | _ => True
  end /\
  match p with
  | D_Size n => n = 0 \/ isB n = false
  | D_Load n _ => isB n = false
  | D_Or n _ => n <> 0 /\ isB n = false
  | G_Start n _ | G_Iter n _ _ _ | G_Cas n _ _ _ _ | D_Assert n | D_Load2 n => n <> 0 /\ isB n = false /\ is_removed (nxw s n) = true
  | D_Xchg n v => n <> 0 /\ isB n = false /\ is_removed v = true /\ ptr v = ptr (nxw s n) /\ is_removed (nxw s n) = true /\ is_bucket v = false
  | R_Size old _ _ | R_Cas old _ _ _ => old <> 0 /\ isB old = false
  | _ => True
  end.

(* memory-independent facts about locals *)
Definition LIs3 (p : hpc) : Prop :=
  match p with
  | L_Bucket b _ _ => isB b = true
  | L_Assert n _ => n <> 0 /\ isB n = false
  | L_Ret n => n = 0 \/ isB n = false
  | A_Start _ b _ => isB b = true
  | A_Iter _ b _ prev _ | A_Dup _ b _ prev _ _ | A_Cas _ b _ prev _ | A_Gc _ b _ prev _ _ => isB b = true /\ prev <> 0
  | D_Load n _ => n <> 0
  | G_Start _ b => isB b = true
  | G_Iter _ b prev _ | G_Cas _ b prev _ _ => isB b = true /\ prev <> 0
  | RG_Start _ b _ => isB b = true
  | RG_Iter _ b _ prev _ | RG_Cas _ b _ prev _ _ => isB b = true /\ prev <> 0
  | _ => True
  end.

Record Inv2 (s : st) : Prop := {
  J_buf : forall t, tbuf _ _ (THr s t) = [];
  J_cm : forall x, insd s x -> ptr (nxw s x) = 0 \/ insd s (ptr (nxw s x));
  J_cr : forall t y, In y (refs (PCr s t) ++ [FND s t]) -> y = 0 \/ insd s y;
  J_fut : forall t n, In n (future s t) -> ~ insd s n /\ n <> 0 /\ isB n = false;
  J_disj : forall t u n, In n (future s t) -> In n (future s u) -> t = u;
  J_nodup : forall t, NoDup (future s t);
  J_li : forall t, LIs s (PCr s t);
  J_bk : forall x, insd s x -> is_bucket (nxw s x) = isB x;
  J_bnr : forall x, insd s x -> isB x = true -> is_removed (nxw s x) = false;
  J_fnd : forall t, FND s t = 0 \/ (insd s (FND s t) /\ isB (FND s t) = false);
  J_bins : forall x, isB x = true -> insd s x /\ x <> 0;
  J_l3 : forall t, LIs3 (PCr s t)
}.

Notation tup := (tupd hloc (hprog C)).
Definition mkst2 (m : mem hloc) (th : nat -> tstate hloc (hprog C)) : st := {| smem := m; sthr := th |}.
Definition mkts2 (p : hst) : tstate hloc (hprog C) := {| tpc := (p : pst hloc (hprog C)); tbuf := [] |}.
Definition fut_of (p : hst) : list N := match mine (hcur p) with Some n => [n] | None => [] end ++ adds (htodo p).

Lemma THr_same (s : st) m t x : THr (mkst2 m (tup (sthr _ _ s) t x)) t = x.
Proof. unfold THr; cbn. apply tupd_same. Qed.
Lemma THr_other (s : st) m t x u : u <> t -> THr (mkst2 m (tup (sthr _ _ s) t x)) u = THr s u.
Proof. intros H. unfold THr; cbn. apply tupd_other; exact H. Qed.

(* LIs only looks at next words *)
Lemma LIs_ext (s s' : st) p :
  (forall x, nxw s' x = nxw s x) -> LIs s p -> LIs s' p.
Proof. intros H. unfold LIs. destruct p; rewrite ?H; exact (fun x => x). Qed.

(* ---- Lemma A: a step of thread t that writes nothing ---- *)
Lemma Inv2_nowrite (s : st) t (p' : hst) :
  Inv2 s ->
  (forall y, In y (refs (hcur p') ++ [found p']) -> y = 0 \/ insd s y) ->
  (forall n, In n (fut_of p') -> In n (future s t)) -> NoDup (fut_of p') ->
  LIs s (hcur p') -> LIs3 (hcur p') ->
  (found p' = 0 \/ (insd s (found p') /\ isB (found p') = false)) ->
  Inv2 (mkst2 (smem _ _ s) (tup (sthr _ _ s) t (mkts2 p'))).
Proof.
  intros [A1 A2 A3 A4 A5 A6 A7 A8 A9 A10 A11 A12] Hr Hf Hnd Hli Hl3 Hfd. set (s' := mkst2 _ _).
  assert (HT : forall u, u <> t -> THr s' u = THr s u) by (intros u Hne; unfold s'; apply THr_other; exact Hne).
  assert (HTt : THr s' t = mkts2 p') by (unfold s'; apply THr_same).
  assert (Hins : forall x, insd s' x <-> insd s x) by (intros x; reflexivity).
  assert (Hnx : forall x, nxw s' x = nxw s x) by reflexivity.
  assert (HFt : future s' t = fut_of p') by (unfold future, PCr, TODOr; rewrite HTt; reflexivity).
  assert (HF : forall u, u <> t -> future s' u = future s u) by (intros u Hne; unfold future, PCr, TODOr; rewrite HT by exact Hne; reflexivity).
  assert (HFin : forall u n, In n (future s' u) -> In n (future s u)).
  { intros u n. destruct (Nat.eq_dec u t) as [->|Hne]; [rewrite HFt; apply Hf|rewrite HF by exact Hne; tauto]. }
  constructor.
  - intros u. destruct (Nat.eq_dec u t) as [->|Hne]; [rewrite HTt; reflexivity|rewrite HT by exact Hne; apply A1].
  - intros x Hx. rewrite Hnx. apply (A2 x Hx).
  - intros u y. unfold PCr, FND. destruct (Nat.eq_dec u t) as [->|Hne]; [rewrite HTt; apply Hr|rewrite HT by exact Hne; apply A3].
  - intros u n Hn. apply (A4 u n (HFin u n Hn)).
  - intros u w n Hu Hw. apply (A5 u w n (HFin u n Hu) (HFin w n Hw)).
  - intros u. destruct (Nat.eq_dec u t) as [->|Hne]; [rewrite HFt; exact Hnd|rewrite HF by exact Hne; apply A6].
  - intros u. apply (LIs_ext s s' _ Hnx). unfold PCr. destruct (Nat.eq_dec u t) as [->|Hne]; [rewrite HTt; exact Hli|rewrite HT by exact Hne; apply A7].
  - intros x Hx. rewrite Hnx. apply (A8 x Hx).
  - intros x Hx. rewrite Hnx. apply (A9 x Hx).
  - intros u. unfold FND. destruct (Nat.eq_dec u t) as [->|Hne]; [rewrite HTt; exact Hfd|rewrite HT by exact Hne; apply A10].
  - exact A11.
  - intros u. unfold PCr. destruct (Nat.eq_dec u t) as [->|Hne]; [rewrite HTt; exact Hl3|rewrite HT by exact Hne; apply A12].
Qed.

(* ---- Lemma W: a step of thread t that writes one next word (target tg := w') and possibly marks one node inserted ---- *)
Definition wr_kind (s : st) t (tg w' : N) : Prop :=
  (insd s tg /\ is_removed (nxw s tg) = false) \/                     (* cmpxchg on a live predecessor *)
  (In tg (future s t)) \/                                              (* the thread's own private node *)
  (insd s tg /\ ptr w' = ptr (nxw s tg) /\ is_removed w' = true).     (* flag-only update *)

Lemma LIs_other (s s' : st) t u tg w' :
  Inv2 s -> u <> t -> wr_kind s t tg w' ->
  (forall x, x <> tg -> nxw s' x = nxw s x) -> nxw s' tg = w' ->
  LIs s (PCr s u) -> LIs s' (PCr s u).
Proof.
  intros HI Hne Hk Hoth Htg. unfold LIs.
  assert (Hpriv : forall n, mine (PCr s u) = Some n -> n <> tg).
  { intros n Hm E. subst n. assert (Hin : In tg (future s u)) by (unfold future; rewrite Hm; left; reflexivity).
    destruct (J_fut s HI u tg Hin) as (Hni & _).
    destruct Hk as [[Hi _]|[Hf|[Hi _]]]; [contradiction| |contradiction]. apply Hne. apply (J_disj s HI u t tg Hin Hf). }
  assert (Hrm : forall a, is_removed (nxw s a) = true -> (a = 0 \/ insd s a) -> a <> 0 -> ptr (nxw s' a) = ptr (nxw s a) /\ is_removed (nxw s' a) = true).
  { intros a Hr Ha Ha0. destruct (N.eq_dec a tg) as [->|Hn]; [|rewrite Hoth by exact Hn; split; [reflexivity|exact Hr]].
    rewrite Htg. destruct Hk as [[_ Hu]|[Hf|(_ & Hp & Hw)]].
    - rewrite Hu in Hr. discriminate.
    - destruct Ha as [E|Hi]; [contradiction|]. destruct (J_fut s HI t tg Hf) as (Hni & _). contradiction.
    - split; assumption. }
  pose proof (J_cr s HI u) as Hcr.
  destruct (PCr s u) eqn:Ep; cbn [mine refs] in *; try exact (fun x => x).
  - (* A_Cas *) intros [[H1 H2] H3]. split; [split; [exact H1|]|exact H3]. rewrite Hoth; [exact H2|]. apply Hpriv. reflexivity.
  - (* A_Gc *) intros [(H1 & H2 & H3 & H4 & H5) H6]. split; [|exact H6].
    destruct (Hrm (ptr iter) H5) as [P Q]; [apply Hcr; right; right; left; reflexivity|exact H2|].
    split; [exact H1|]. split; [exact H2|]. split; [exact H3|]. split; [rewrite P; exact H4|exact Q].
  - (* G_Start *) intros [H0 (Hz & H1 & H2)]. split; [exact H0|]. split; [exact Hz|]. split; [exact H1|].
    apply (Hrm node H2); [apply Hcr; left; reflexivity|exact Hz].
  - (* G_Iter *) intros [H0 (Hz & H1 & H2)]. split; [exact H0|]. split; [exact Hz|]. split; [exact H1|].
    apply (Hrm node H2); [apply Hcr; left; reflexivity|exact Hz].
  - (* G_Cas *) intros [(H1 & H2 & H3 & H4 & H5) (Hz & H6 & H7)].
    destruct (Hrm (ptr iter) H5) as [P Q]; [apply Hcr; right; right; right; left; reflexivity|exact H2|].
    split; [split; [exact H1|]; split; [exact H2|]; split; [exact H3|]; split; [rewrite P; exact H4|exact Q]|].
    split; [exact Hz|]. split; [exact H6|]. apply (Hrm node H7); [apply Hcr; left; reflexivity|exact Hz].
  - (* D_Assert *) intros [H0 (Hz & H1 & H2)]. split; [exact H0|]. split; [exact Hz|]. split; [exact H1|].
    apply (Hrm node H2); [apply Hcr; left; reflexivity|exact Hz].
  - (* D_Load2 *) intros [H0 (Hz & H1 & H2)]. split; [exact H0|]. split; [exact Hz|]. split; [exact H1|].
    apply (Hrm node H2); [apply Hcr; left; reflexivity|exact Hz].
  - (* D_Xchg *) intros [H0 (Hz & H1 & H2 & H3 & H4 & H5)]. split; [exact H0|]. split; [exact Hz|]. split; [exact H1|]. split; [exact H2|].
    destruct (Hrm node H4) as [P Q]; [apply Hcr; left; reflexivity|exact Hz|]. split; [rewrite P; exact H3|split; [exact Q|exact H5]].
  - (* R_Cas *) intros [[H1 H2] H3]. split; [split; [exact H1|]|exact H3]. rewrite Hoth; [exact H2|]. apply Hpriv. reflexivity.
  - (* RG_Cas *) intros [(H1 & H2 & H3 & H4 & H5) H6]. split; [|exact H6].
    destruct (Hrm (ptr iter) H5) as [P Q]; [apply Hcr; right; right; right; right; left; reflexivity|exact H2|].
    split; [exact H1|]. split; [exact H2|]. split; [exact H3|]. split; [rewrite P; exact H4|exact Q].
Qed.

Definition is_ni (ni : option N) (x : N) : bool := match ni with Some n => N.eqb x n | None => false end.

Lemma Inv2_write (s : st) t (p' : hst) (m' : mem hloc) tg w' (ni : option N) :
  Inv2 s ->
  wr_kind s t tg w' ->
  (forall x, x <> tg -> m' (HNext x) = smem _ _ s (HNext x)) -> m' (HNext tg) = w' ->
  (forall x, m' (HIns x) = if is_ni ni x then 1 else smem _ _ s (HIns x)) ->
  (forall n, ni = Some n -> In n (future s t) /\ ~ In n (fut_of p') /\ n <> tg /\
                            (ptr (nxw s n) = 0 \/ insd s (ptr (nxw s n))) /\ is_bucket (nxw s n) = false) ->
  (insd s tg -> (ptr w' = 0 \/ insd s (ptr w') \/ is_ni ni (ptr w') = true) /\ is_bucket w' = isB tg /\ (isB tg = true -> is_removed w' = false)) ->
  (forall y, In y (refs (hcur p') ++ [found p']) -> y = 0 \/ insd s y \/ is_ni ni y = true) ->
  (forall n, In n (fut_of p') -> In n (future s t)) -> NoDup (fut_of p') ->
  LIs (mkst2 m' (tup (sthr _ _ s) t (mkts2 p'))) (hcur p') -> LIs3 (hcur p') ->
  (found p' = 0 \/ ((insd s (found p') \/ is_ni ni (found p') = true) /\ isB (found p') = false)) ->
  Inv2 (mkst2 m' (tup (sthr _ _ s) t (mkts2 p'))).
Proof.
  intros HI Hk Hoth Htg Hins Hni Htgo Hr Hf Hnd Hli Hl3 Hfd. pose proof HI as [A1 A2 A3 A4 A5 A6 A7 A8 A9 A10 A11 A12]. set (s' := mkst2 _ _) in *.
  assert (HT : forall u, u <> t -> THr s' u = THr s u) by (intros u Hne; unfold s'; apply THr_other; exact Hne).
  assert (HTt : THr s' t = mkts2 p') by (unfold s'; apply THr_same).
  assert (Hnxo : forall x, x <> tg -> nxw s' x = nxw s x) by (intros x Hx; apply Hoth; exact Hx).
  assert (Hnxt : nxw s' tg = w') by exact Htg.
  assert (Hi' : forall x, insd s' x <-> insd s x \/ is_ni ni x = true).
  { intros x. unfold insd, Mm, s'; cbn. rewrite Hins. destruct (is_ni ni x); [split; [intros _; right; reflexivity|intros _; reflexivity]|]. split; [intros H; left; exact H|intros [H|H]; [exact H|discriminate]]. }
  assert (Hmono : forall x, insd s x -> insd s' x) by (intros x Hx; apply Hi'; left; exact Hx).
  assert (HFt : future s' t = fut_of p') by (unfold future, PCr, TODOr; rewrite HTt; reflexivity).
  assert (HF : forall u, u <> t -> future s' u = future s u) by (intros u Hne; unfold future, PCr, TODOr; rewrite HT by exact Hne; reflexivity).
  assert (HFin : forall u n, In n (future s' u) -> In n (future s u)).
  { intros u n. destruct (Nat.eq_dec u t) as [->|Hne]; [rewrite HFt; apply Hf|rewrite HF by exact Hne; tauto]. }
  assert (Hnif : forall u n, In n (future s' u) -> is_ni ni n = false).
  { intros u n Hn. destruct ni as [n0|]; [|reflexivity]. cbn. destruct (N.eqb_spec n n0) as [->|]; [|reflexivity]. exfalso.
    destruct (Hni n0 eq_refl) as (Hin & Hnot & _). destruct (Nat.eq_dec u t) as [->|Hne]; [rewrite HFt in Hn; contradiction|].
    rewrite HF in Hn by exact Hne. apply Hne. apply (A5 u t n0 Hn Hin). }
  constructor.
  - intros u. destruct (Nat.eq_dec u t) as [->|Hne]; [rewrite HTt; reflexivity|rewrite HT by exact Hne; apply A1].
  - (* closure of memory *)
    intros x Hx. apply Hi' in Hx. destruct (N.eq_dec x tg) as [->|Hxt].
    + rewrite Hnxt. assert (Hit : insd s tg).
      { destruct Hx as [Hx|Hx]; [exact Hx|]. destruct ni as [n0|]; [|discriminate]. cbn in Hx. apply N.eqb_eq in Hx. subst n0. destruct (Hni tg eq_refl) as (_ & _ & Hne & _). contradiction. }
      destruct (Htgo Hit) as ([H|[H|H]] & _); [left; exact H|right; apply Hmono; exact H|right; apply Hi'; right; exact H].
    + rewrite Hnxo by exact Hxt. destruct Hx as [Hx|Hx].
      * destruct (A2 x Hx) as [H|H]; [left; exact H|right; apply Hmono; exact H].
      * destruct ni as [n0|]; [|discriminate]. cbn in Hx. apply N.eqb_eq in Hx. subst x. destruct (Hni n0 eq_refl) as (_ & _ & _ & [H|H] & _); [left; exact H|right; apply Hmono; exact H].
  - intros u y. unfold PCr, FND. destruct (Nat.eq_dec u t) as [->|Hne].
    + rewrite HTt. intros Hy. destruct (Hr y Hy) as [H|[H|H]]; [left; exact H|right; apply Hmono; exact H|right; apply Hi'; right; exact H].
    + rewrite HT by exact Hne. intros Hy. destruct (A3 u y Hy) as [H|H]; [left; exact H|right; apply Hmono; exact H].
  - intros u n Hn. destruct (A4 u n (HFin u n Hn)) as (F1 & F2 & F3). split; [|split; assumption].
    intros Hc. apply Hi' in Hc. destruct Hc as [Hc|Hc]; [contradiction|]. rewrite (Hnif u n Hn) in Hc. discriminate.
  - intros u w n Hu Hw. apply (A5 u w n (HFin u n Hu) (HFin w n Hw)).
  - intros u. destruct (Nat.eq_dec u t) as [->|Hne]; [rewrite HFt; exact Hnd|rewrite HF by exact Hne; apply A6].
  - intros u. unfold PCr. destruct (Nat.eq_dec u t) as [->|Hne]; [rewrite HTt; exact Hli|].
    rewrite HT by exact Hne. apply (LIs_other s s' t u tg w' HI Hne Hk Hnxo Hnxt). apply A7.
  - (* bucket flag *)
    intros x Hx. apply Hi' in Hx. destruct (N.eq_dec x tg) as [->|Hxt].
    + rewrite Hnxt. assert (Hit : insd s tg).
      { destruct Hx as [Hx|Hx]; [exact Hx|]. destruct ni as [n0|]; [|discriminate]. cbn in Hx. apply N.eqb_eq in Hx. subst n0. destruct (Hni tg eq_refl) as (_ & _ & Hne & _). contradiction. }
      apply (Htgo Hit).
    + rewrite Hnxo by exact Hxt. destruct Hx as [Hx|Hx]; [apply (A8 x Hx)|].
      destruct ni as [n0|]; [|discriminate]. cbn in Hx. apply N.eqb_eq in Hx. subst x. destruct (Hni n0 eq_refl) as (Hin & _ & _ & _ & Hb). rewrite Hb.
      destruct (A4 t n0 Hin) as (_ & _ & F3). symmetry. exact F3.
  - intros x Hx HB. apply Hi' in Hx. destruct (N.eq_dec x tg) as [->|Hxt].
    + rewrite Hnxt. assert (Hit : insd s tg).
      { destruct Hx as [Hx|Hx]; [exact Hx|]. destruct ni as [n0|]; [|discriminate]. cbn in Hx. apply N.eqb_eq in Hx. subst n0. destruct (Hni tg eq_refl) as (_ & _ & Hne & _). contradiction. }
      apply (Htgo Hit). exact HB.
    + rewrite Hnxo by exact Hxt. destruct Hx as [Hx|Hx]; [apply (A9 x Hx HB)|].
      destruct ni as [n0|]; [|discriminate]. cbn in Hx. apply N.eqb_eq in Hx. subst x. destruct (Hni n0 eq_refl) as (Hin & _).
      destruct (A4 t n0 Hin) as (_ & _ & F3). rewrite F3 in HB. discriminate.
  - intros u. unfold FND. destruct (Nat.eq_dec u t) as [->|Hne].
    + rewrite HTt. destruct Hfd as [H|[[H|H] H2]]; [left; exact H|right; split; [apply Hmono; exact H|exact H2]|right; split; [apply Hi'; right; exact H|exact H2]].
    + rewrite HT by exact Hne. destruct (A10 u) as [H|[H H2]]; [left; exact H|right; split; [apply Hmono; exact H|exact H2]].
  - intros x Hx. destruct (A11 x Hx) as [H1 H2]. split; [apply Hmono; exact H1|exact H2].
  - intros u. unfold PCr. destruct (Nat.eq_dec u t) as [->|Hne]; [rewrite HTt; exact Hl3|rewrite HT by exact Hne; apply A12].
Qed.

Lemma hloc_eqb_spec2 a b : reflect (a = b) (hloc_eqb a b).
Proof. destruct a as [|n|n], b as [|m|m]; cbn; try (constructor; congruence); destruct (N.eqb_spec n m); constructor; congruence. Qed.

Definition eff2 (m : mem hloc) (a : act hloc) : mem hloc * N :=
  match a with
  | ALoad _ l => (m, m l)
  | AXchg _ l v => (upd hloc hloc_eqb m l v, m l)
  | ACas _ l e n => ((if N.eqb (m l) e then upd hloc hloc_eqb m l n else m), m l)
  | AFor _ l v => (upd hloc hloc_eqb m l (N.lor (m l) v), 0)
  | _ => (m, 0)
  end.

Lemma exec_shape2 (s : st) t : Inv2 s ->
  let p := tpc _ _ (THr s t) in
  fst (exec hloc hloc_eqb (hprog C) (Step t) s) =
    match hact p with
    | ADone _ => s
    | a => let '(m1, r) := eff2 (smem _ _ s) a in
           mkst2 (drain hloc hloc_eqb m1 (hpost C p r)) (tup (sthr _ _ s) t (mkts2 (hnext C p r)))
    end.
Proof.
  intros HI p. unfold exec, tstep. change (sthr hloc (hprog C) s t) with (THr s t). fold p.
  rewrite (J_buf s HI t). cbn [pact pnext ppost hprog buf_lookup drain].
  assert (Hns : forall l v, hact p <> AStore _ l v).
  { intros l v. unfold hact. destruct (hcur p); try discriminate; try (destruct (htodo p) as [|[]]; discriminate). }
  destruct (hact p) eqn:Ea; cbn [eff2 fst snd]; try reflexivity.
  destruct (Hns l v eq_refl).
Qed.

(* closure for a value just loaded from an inserted node *)
Lemma loaded_closed (s : st) x : Inv2 s -> (x = 0 \/ insd s x) -> x <> 0 -> ptr (nxw s x) = 0 \/ insd s (ptr (nxw s x)).
Proof. intros HI [E|Hx] Hn; [contradiction|]. apply (J_cm s HI x Hx). Qed.

Hypothesis Hbkt : forall i, isB (bucket C i) = true.

Lemma upd_s m l v : upd hloc hloc_eqb m l v l = v.
Proof. apply (upd_same hloc hloc_eqb hloc_eqb_spec2). Qed.
Lemma upd_o m l v l' : l <> l' -> upd hloc hloc_eqb m l v l' = m l'.
Proof. apply (upd_other hloc hloc_eqb hloc_eqb_spec2). Qed.

(* entering the insertion cmpxchg: the plain store node->next = clear_flag(iter) has just been done *)
Lemma Inv2_into_cas (s : st) t (p' : hst) node b u pv it :
  Inv2 s -> hcur p' = A_Cas node b u pv it -> In node (future s t) ->
  (forall y, In y ([b; pv; ptr it] ++ [found p']) -> y = 0 \/ insd s y) ->
  (forall n, In n (fut_of p') -> In n (future s t)) -> NoDup (fut_of p') ->
  is_removed it = false -> isB b = true -> pv <> 0 ->
  (found p' = 0 \/ (insd s (found p') /\ isB (found p') = false)) ->
  Inv2 (mkst2 (upd hloc hloc_eqb (smem _ _ s) (HNext node) (clr it)) (tup (sthr _ _ s) t (mkts2 p'))).
Proof.
  intros HI Hpc Hin Hr Hf Hnd Hrm HBb Hpv Hfd.
  apply (Inv2_write s t p' _ node (clr it) None HI).
  - right; left; exact Hin.
  - intros x Hx. apply upd_o. congruence.
  - apply upd_s.
  - intros x. reflexivity.
  - intros n E; discriminate.
  - intros Hi. destruct (J_fut s HI t node Hin) as (Hni & _). contradiction.
  - rewrite Hpc. cbn [refs]. intros y Hy. destruct (Hr y Hy) as [H|H]; [left; exact H|right; left; exact H].
  - exact Hf.
  - exact Hnd.
  - rewrite Hpc. unfold LIs. split; [|exact I]. split; [exact Hrm|]. unfold nxw, Mm; cbn. apply upd_s.
  - rewrite Hpc. cbn. split; assumption.
  - destruct Hfd as [H|[H1 H2]]; [left; exact H|right; split; [left; exact H1|exact H2]].
Qed.
(* entering the replacing cmpxchg: the plain store new->next = onext has just been done *)
Lemma Inv2_into_rcas (s : st) t (p' : hst) old new onext sz :
  Inv2 s -> hcur p' = R_Cas old new onext sz -> In new (future s t) ->
  (forall y, In y ([old] ++ [found p']) -> y = 0 \/ insd s y) ->
  (forall n, In n (fut_of p') -> In n (future s t)) -> NoDup (fut_of p') ->
  is_removed onext = false -> old <> 0 -> isB old = false ->
  (found p' = 0 \/ (insd s (found p') /\ isB (found p') = false)) ->
  Inv2 (mkst2 (upd hloc hloc_eqb (smem _ _ s) (HNext new) onext) (tup (sthr _ _ s) t (mkts2 p'))).
Proof.
  intros HI Hpc Hin Hr Hf Hnd Hrm Ho0 HoB Hfd.
  apply (Inv2_write s t p' _ new onext None HI).
  - right; left; exact Hin.
  - intros x Hx. apply upd_o. congruence.
  - apply upd_s.
  - intros x. reflexivity.
  - intros n E; discriminate.
  - intros Hi. destruct (J_fut s HI t new Hin) as (Hni & _). contradiction.
  - rewrite Hpc. cbn [refs]. intros y Hy. destruct (Hr y Hy) as [H|H]; [left; exact H|right; left; exact H].
  - exact Hf.
  - exact Hnd.
  - rewrite Hpc. unfold LIs. split; [|split; assumption]. split; [exact Hrm|]. unfold nxw, Mm; cbn. apply upd_s.
  - rewrite Hpc. exact I.
  - destruct Hfd as [H|[H1 H2]]; [left; exact H|right; split; [left; exact H1|exact H2]].
Qed.
End REACH.
