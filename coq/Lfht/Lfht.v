(* step-level model of rculfhash add / add_unique / lookup / del / replace on a fixed-size table (no resize) *)
From Coq Require Import List Arith NArith Bool Lia.
Import ListNotations.
Require Import Urcu.Base.MachD.
Local Open Scope N_scope.

Inductive hloc := HSize | HNext (n : N) | HIns (n : N).    (* HIns n : ghost, 1 once node n has been linked in *)          (* n = node id *)
Definition hloc_eqb (a b : hloc) : bool :=
  match a, b with HSize, HSize => true | HNext x, HNext y => N.eqb x y | HIns x, HIns y => N.eqb x y | _, _ => false end.

(* next word = 8 * node id + flags ; node id 0 = end *)
Definition REMOVED : N := 1.  Definition BUCKET : N := 2.  Definition OWNER : N := 4.
Definition ptr (w : N) : N := w / 8.
Definition flags (w : N) : N := w mod 8.
Definition clr (w : N) : N := 8 * ptr w.
Definition is_removed (w : N) : bool := N.testbit w 0.
Definition is_bucket (w : N) : bool := N.testbit w 1.
Definition is_owner (w : N) : bool := N.testbit w 2.
Definition is_end (w : N) : bool := ptr w =? 0.
Definition mkp (id fl : N) : N := 8 * id + fl.

Record cfg := { rh : N -> N;        (* reverse hash of node id *)
                hashof : N -> N;    (* hash of node id *)
                key : N -> N;
                bucket : N -> N }.  (* bucket index -> node id *)

Inductive hop :=
| OAdd (node hash : N) (unique : bool)
| OLookup (hash rhash k : N)
| ODelFound
| OReplaceFound (new : N).        (* cds_lfht_replace of the node found by the last lookup (through its iterator: node and saved next word) *)

Inductive hpc :=
| H_Idle
(* lookup *)
| L_Size (hash rhash k : N) | L_Bucket (b rhash k : N) | L_Node (node rhash k : N) | L_Assert (node next : N) | L_Ret (node : N)
(* add *)
| A_Size (node hash : N) (u : bool) | A_Start (node b : N) (u : bool)
| A_Iter (node b : N) (u : bool) (prev iter : N)
| A_Dup (node b : N) (u : bool) (prev iter : N) (cur : N)      (* next_duplicate scan at cur (a pointer word) *)
| A_DupAssert (found : N)
| A_Cas (node b : N) (u : bool) (prev iter : N)
| A_Gc (node b : N) (u : bool) (prev iter next : N)
| A_Ret (r : N)
(* del *)
| D_Size (node : N) | D_Load (node sz : N) | D_Or (node sz : N)
| G_Start (node b : N) | G_Iter (node b prev iter : N) | G_Cas (node b prev iter next : N)
| D_Assert (node : N) | D_Load2 (node : N) | D_Xchg (node v : N) | D_Ret (r : N)
(* replace: old node, new node, expected next word of old *)
| R_Size (old new onext : N) | R_Cas (old new onext sz : N)
| RG_Start (new b old : N) | RG_Iter (new b old prev iter : N) | RG_Cas (new b old prev iter next : N)
| R_Assert (old : N) | R_Ret (r : N).

Record hst := { hcur : hpc; htodo : list hop; found : N; fnext : N }.      (* found / fnext : the iterator left by the last lookup (node, next word read from it) *)

Section CFG.
Variable C : cfg.

Definition hact (s : hst) : act hloc :=
  match hcur s with
  | H_Idle => match htodo s with
              | [] => ADone _
              | OAdd node _ _ :: _ => ACall _ 0%nat node
              | OLookup h _ k :: _ => ACall _ 1%nat k
              | ODelFound :: _ => ACall _ 2%nat (found s)
              | OReplaceFound _ :: _ => ACall _ 3%nat (found s)
              end
  | L_Size _ _ _ => ALoad _ HSize
  | L_Bucket b _ _ => ALoad _ (HNext b)
  | L_Node node _ _ => ALoad _ (HNext node)
  | L_Assert node _ => ALoad _ (HNext node)
  | L_Ret node => ARet _ 1%nat node
  | A_Size _ _ _ => ALoad _ HSize
  | A_Start _ b _ => ALoad _ (HNext b)
  | A_Iter _ _ _ _ iter => ALoad _ (HNext (ptr iter))
  | A_Dup _ _ _ _ _ cur => ALoad _ (HNext (ptr cur))
  | A_DupAssert f => ALoad _ (HNext f)
  | A_Cas node _ _ prev iter => ACas _ (HNext prev) iter (if is_bucket iter then mkp node BUCKET else mkp node 0)
  | A_Gc _ _ _ prev iter next => ACas _ (HNext prev) iter (if is_bucket iter then clr next + BUCKET else clr next)
  | A_Ret r => ARet _ 0%nat r
  | D_Size _ => ALoad _ HSize
  | D_Load node _ => ALoad _ (HNext node)
  | D_Or node _ => AFor _ (HNext node) REMOVED
  | G_Start _ b => ALoad _ (HNext b)
  | G_Iter _ _ _ iter => ALoad _ (HNext (ptr iter))
  | G_Cas _ _ prev iter next => ACas _ (HNext prev) iter (if is_bucket iter then clr next + BUCKET else clr next)
  | D_Assert node => ALoad _ (HNext node)
  | D_Load2 node => ALoad _ (HNext node)
  | D_Xchg node v => AXchg _ (HNext node) (N.lor v OWNER)
  | D_Ret r => ARet _ 2%nat r
  | R_Size _ _ _ => ALoad _ HSize
  | R_Cas old new onext _ => ACas _ (HNext old) onext (mkp new (REMOVED + OWNER))
  | RG_Start _ b _ => ALoad _ (HNext b)
  | RG_Iter _ _ _ _ iter => ALoad _ (HNext (ptr iter))
  | RG_Cas _ _ _ prev iter next => ACas _ (HNext prev) iter (if is_bucket iter then clr next + BUCKET else clr next)
  | R_Assert old => ALoad _ (HNext old)
  | R_Ret r => ARet _ 3%nat r
  end.

(* decide what the add loop does after loading iter (no memory access): either go to insert, or load next *)
Definition add_at (node b : N) (u : bool) (prev iter : N) : hpc :=
  if is_end iter then A_Cas node b u prev iter
  else if rh C node <? rh C (ptr iter) then A_Cas node b u prev iter
  else A_Iter node b u prev iter.

Definition gc_at (node b prev iter : N) : hpc :=
  if is_end iter then D_Assert node
  else if rh C node <? rh C (ptr iter) then D_Assert node
  else G_Iter node b prev iter.

Definition lookup_at (node rhash k : N) : hpc :=
  if node =? 0 then L_Ret 0
  else if rhash <? rh C node then L_Ret 0
  else L_Node node rhash k.

Definition rgc_at (new b old prev iter : N) : hpc :=
  if is_end iter then R_Assert old
  else if rh C new <? rh C (ptr iter) then R_Assert old
  else RG_Iter new b old prev iter.

(* the head of the retry loop of _cds_lfht_replace: fail if the expected word says old is already removed, else (after the plain store
   new->next = onext, see hpost) go to the cmpxchg *)
Definition repl_at (old new onext sz : N) : hpc := if is_removed onext then R_Ret 2 else R_Cas old new onext sz.

(* cds_lfht_replace before any memory access: no node, or a node with another hash / key *)
Definition repl_start (old new onext : N) : hpc :=
  if old =? 0 then R_Ret 2
  else if negb (rh C old =? rh C new) then R_Ret 3
  else if negb (key C old =? key C new) then R_Ret 3
  else R_Size old new onext.

(* next_duplicate scan started from pointer word cur, for key of node *)
Definition dup_at (node b : N) (u : bool) (prev iter cur : N) : hpc :=
  if is_end cur then A_Cas node b u prev iter
  else if rh C node <? rh C (ptr cur) then A_Cas node b u prev iter
  else A_Dup node b u prev iter cur.

Definition hnext (s : hst) (r : N) : hst :=
  let go p := {| hcur := p; htodo := htodo s; found := found s; fnext := fnext s |} in
  match hcur s with
  | H_Idle => match htodo s with
              | [] => s
              | OAdd node hash u :: rest => {| hcur := A_Size node hash u; htodo := rest; found := found s; fnext := fnext s |}
              | OLookup h rhh k :: rest => {| hcur := L_Size h rhh k; htodo := rest; found := found s; fnext := fnext s |}
              | ODelFound :: rest => {| hcur := D_Size (found s); htodo := rest; found := found s; fnext := fnext s |}
              | OReplaceFound new :: rest => {| hcur := repl_start (found s) new (fnext s); htodo := rest; found := found s; fnext := fnext s |}
              end
  | L_Size h rhh k => go (L_Bucket (bucket C (N.land h (r - 1))) rhh k)
  | L_Bucket _ rhh k => go (lookup_at (ptr r) rhh k)
  | L_Node node rhh k =>
      if negb (is_removed r) && negb (is_bucket r) && (rh C node =? rhh) && (key C node =? k)
      then go (L_Assert node r)
      else go (lookup_at (ptr r) rhh k)
  | L_Assert node nx => {| hcur := L_Ret node; htodo := htodo s; found := node; fnext := nx |}
  | L_Ret node => if node =? 0 then {| hcur := H_Idle; htodo := htodo s; found := 0; fnext := 0 |} else go H_Idle      (* a hit went through L_Assert, which filled the iterator *)
  | A_Size node hash u => go (A_Start node (bucket C (N.land hash (r - 1))) u)
  | A_Start node b u => go (add_at node b u b r)
  | A_Iter node b u prev iter =>
      if is_removed r then go (A_Gc node b u prev iter r)
      else if u && negb (is_bucket r) && (rh C (ptr iter) =? rh C node)
           then go (dup_at node b u prev iter iter)
           else go (add_at node b u (ptr iter) r)
  | A_Dup node b u prev iter cur =>
      if negb (is_removed r) && negb (is_bucket r) && (key C (ptr cur) =? key C node)
      then go (A_DupAssert (ptr cur))
      else go (dup_at node b u prev iter r)
  | A_DupAssert f => go (A_Ret f)
  | A_Cas node b u prev iter => if r =? iter then go (A_Ret node) else go (A_Start node b u)
  | A_Gc node b u _ _ _ => go (A_Start node b u)
  | A_Ret _ => go H_Idle
  | D_Size node => if node =? 0 then go (D_Ret 2) else go (D_Load node r)
  | D_Load node sz => if is_removed r then go (D_Ret 2) else go (D_Or node sz)
  | D_Or node sz => go (G_Start node (bucket C (N.land (hashof C node) (sz - 1))))
  | G_Start node b => go (gc_at node b b r)
  | G_Iter node b prev iter => if is_removed r then go (G_Cas node b prev iter r) else go (gc_at node b (ptr iter) r)
  | G_Cas node b _ _ _ => go (G_Start node b)
  | D_Assert node => go (D_Load2 node)
  | D_Load2 node => go (D_Xchg node r)
  | D_Xchg node _ => go (D_Ret (if is_owner r then 2 else 0))
  | D_Ret _ => go H_Idle
  | R_Size old new onext => go (repl_at old new onext r)
  | R_Cas old new onext sz => if r =? onext then go (RG_Start new (bucket C (N.land (hashof C old) (sz - 1))) old) else go (repl_at old new r sz)
  | RG_Start new b old => go (rgc_at new b old b r)
  | RG_Iter new b old prev iter => if is_removed r then go (RG_Cas new b old prev iter r) else go (rgc_at new b old (ptr iter) r)
  | RG_Cas new b old _ _ _ => go (RG_Start new b old)
  | R_Assert _ => go (R_Ret 0)
  | R_Ret _ => go H_Idle
  end.
(* plain (un-hooked) stores folded into the step that precedes them *)
Definition hpost (s : hst) (r : N) : list (hloc * N) :=
  match hcur s with
  | A_Cas node _ _ _ iter => if r =? iter then [(HIns node, 1)] else []      (* ghost: the insertion cmpxchg succeeded *)
  | R_Cas _ new onext _ => if r =? onext then [(HIns new, 1)]                 (* ghost: the replacing cmpxchg succeeded *)
                           else if is_removed r then [] else [(HNext new, r)]  (* retry: new->next = the word just read *)
  | _ =>
    match hcur (hnext s r) with
    | A_Cas node _ _ _ iter => [(HNext node, clr iter)]
    | R_Cas _ new onext _ => [(HNext new, onext)]
    | _ => []
    end
  end.
Definition hprog : prog hloc := {| pst := hst; pact := hact; pnext := hnext; ppost := hpost |}.
End CFG.

Definition run_h (C : cfg) (m0 : mem hloc) (threads : nat -> list hop) (cs : list choice) :=
  snd (run hloc hloc_eqb (hprog C) cs
        {| smem := m0; sthr := fun t => {| tpc := ({| hcur := H_Idle; htodo := threads t; found := 0; fnext := 0 |} : pst hloc (hprog C)); tbuf := [] |} |}).
