(* scratch: every inserted, non-removed node is reachable from the head bucket, in every reachable state *)
From Coq Require Import List Arith NArith Bool Lia Relations.
Import ListNotations.
Require Import Urcu.Base.MachD Urcu.Lfht.Lfht Urcu.Lfht.LfhtSorted Urcu.Lfht.LfhtReach Urcu.Lfht.LfhtStep Urcu.Lfht.LfhtKinds.
Local Open Scope N_scope.

Section FUN.
(* successor functions *)
Definition lnkf (f : N -> N) (a b : N) : Prop := f a = b /\ b <> 0.
Inductive reachf (f : N -> N) (a : N) : N -> Prop :=
| rt1n_refl : reachf f a a
| rt1n_trans b c : lnkf f a b -> reachf f b c -> reachf f a c.
Lemma reachf_trans f a b c : reachf f a b -> reachf f b c -> reachf f a c.
Proof. intros H1 H2. induction H1 as [|a a' b Hl H1 IH]; [exact H2|]. eapply rt1n_trans; [exact Hl|apply IH; exact H2]. Qed.
Lemma reachf_step f a b : f a = b -> b <> 0 -> reachf f a b.
Proof. intros H1 H2. eapply rt1n_trans; [split; [exact H1|exact H2]|apply rt1n_refl]. Qed.

Lemma reachf_same f f' (P : N -> Prop) a b :
  (forall x, P x -> f' x = f x) -> (forall x, P x -> f x <> 0 -> P (f x)) -> P a -> reachf f a b -> reachf f' a b.
Proof.
  intros He Hc Ha H. induction H as [|a a' b [Hl Hn] H IH]; [apply rt1n_refl|].
  eapply rt1n_trans; [split; [rewrite (He _ Ha); exact Hl|exact Hn]|]. apply IH. subst a'. apply Hc; assumption.
Qed.

Lemma reachf_ins f f' p n a b :
  (forall x, x <> p -> f' x = f x) -> f' p = n -> n <> 0 -> n <> p -> f n = f p -> reachf f a b -> reachf f' a b.
Proof.
  intros He Hp Hn Hnp Hfn H. induction H as [|a a' b [Hl Hz] H IH]; [apply rt1n_refl|].
  destruct (N.eq_dec a p) as [->|Hap].
  - eapply rt1n_trans; [split; [exact Hp|exact Hn]|]. eapply rt1n_trans; [split; [rewrite (He _ Hnp), Hfn; exact Hl|exact Hz]|exact IH].
  - eapply rt1n_trans; [split; [rewrite (He _ Hap); exact Hl|exact Hz]|exact IH].
Qed.

Lemma reachf_gc f f' p m a b :
  (forall x, x <> p -> f' x = f x) -> f p = m -> f' p = f m -> reachf f a b -> b <> m -> reachf f' a b.
Proof.
  intros He Hp Hp' H Hbm.
  assert (HH : reachf f' a b /\ (a = m -> f m <> 0 /\ reachf f' (f m) b)).
  { induction H as [|a a' b [Hl Hz] H IH]; [split; [apply rt1n_refl|intros E; contradiction]|].
    destruct (IH Hbm) as [IH1 IH2]. split.
    - destruct (N.eq_dec a p) as [->|Hap].
      + assert (E : a' = m) by congruence. destruct (IH2 E) as [Hz2 Hr]. eapply rt1n_trans; [split; [exact Hp'|exact Hz2]|exact Hr].
      + eapply rt1n_trans; [split; [rewrite (He _ Hap); exact Hl|exact Hz]|exact IH1].
    - intros ->. rewrite Hl. split; [exact Hz|exact IH1]. }
  exact (proj1 HH).
Qed.
End FUN.

Section RCH.
Variable C : cfg.
Variable isB : N -> bool.
Hypothesis Hbkt : forall i, isB (bucket C i) = true.
Variable root : N.
Hypothesis Hroot : isB root = true.
Notation st := (state hloc (hprog C)).
Notation Inv2 := (Inv2 C isB).
Notation insd := (insd C).
Notation nxw := (nxw C).
Notation kind := (kind C).

Definition nxf (s : st) (a : N) : N := ptr (nxw s a).
Definition reach (s : st) := reachf (nxf s).
Definition live (s : st) (x : N) : Prop := insd s x /\ is_removed (nxw s x) = false.
Definition R (s : st) : Prop := forall x, live s x -> reach s root x.

Lemma R_kind (s s' : st) : Inv2 s -> R s -> kind s s' -> R s'.
Proof.
  intros HI HR Hk x [Hxi Hxr]. unfold reach.
  assert (Hrooti : insd s root) by (apply (J_bins C isB s HI root Hroot)).
  assert (Hclo : forall y, insd s y -> nxf s y <> 0 -> insd s (nxf s y)).
  { intros y Hy Hn. destruct (J_cm C isB s HI y Hy) as [H|H]; [contradiction|exact H]. }
  destruct Hk as [Hn Hi|node Hnn Hn Hi|t0 b0 u0 prev node iter _ Hpi Hnn Hn0 Hpv Hrm Hnode Hpp Hpr Hpo Hn Hi|prev iter nx Hpi Hpv Hrm Hp0 Hpn Hrn Hpp Hpr Hpo Hn Hi|n Hni Hpp Hpr Hom Hn Hi
                 |t0 old new onext sz0 _ Hoi Hnn Hn0 Hov Hrm Hnew Hpp Hpr Hpo Hn Hi].
  - apply (reachf_same (nxf s) (nxf s') (fun _ => True)); [intros y _; unfold nxf; rewrite Hn; reflexivity|tauto|exact I|].
    apply HR. split; [apply Hi; exact Hxi|rewrite <- Hn; exact Hxr].
  - assert (Hxs : insd s x) by (apply Hi; exact Hxi).
    assert (Hxn : x <> node) by congruence.
    apply (reachf_same (nxf s) (nxf s') (fun y => insd s y)); [|exact Hclo|exact Hrooti|].
    + intros y Hy. unfold nxf. rewrite Hn by congruence. reflexivity.
    + apply HR. split; [exact Hxs|rewrite <- (Hn x Hxn); exact Hxr].
  - assert (Hnp : node <> prev) by congruence.
    assert (Hlp : live s prev) by (split; [exact Hpi|rewrite Hpv; exact Hrm]).
    assert (Hre : forall a b, reachf (nxf s) a b -> reachf (nxf s') a b).
    { intros a b. apply (reachf_ins (nxf s) (nxf s') prev node).
      - intros y Hy. unfold nxf. rewrite (Hn y Hy). reflexivity.
      - exact Hpp.
      - exact Hn0.
      - exact Hnp.
      - unfold nxf. rewrite Hnode, Hpv. apply ptr_clr. }
    destruct (proj1 (Hi x) Hxi) as [Hxs| ->].
    + apply Hre. apply HR. split; [exact Hxs|]. destruct (N.eq_dec x prev) as [->|Hxp]; [rewrite Hpv; exact Hrm|rewrite <- (Hn x Hxp); exact Hxr].
    + eapply reachf_trans; [apply Hre; apply HR; exact Hlp|apply reachf_step; [exact Hpp|exact Hn0]].
  - assert (Hxs : insd s x) by (apply Hi; exact Hxi).
    assert (Hmp : ptr iter <> prev).
    { intros E. rewrite E, Hpv, Hrm in Hrn. discriminate. }
    assert (Hxm : x <> ptr iter).
    { intros ->. rewrite (Hn _ Hmp), Hrn in Hxr. discriminate. }
    apply (reachf_gc (nxf s) (nxf s') prev (ptr iter)).
    + intros y Hy. unfold nxf. rewrite (Hn y Hy). reflexivity.
    + unfold nxf. rewrite Hpv. reflexivity.
    + unfold nxf at 1 2. rewrite Hpp, Hpn. reflexivity.
    + apply HR. split; [exact Hxs|]. destruct (N.eq_dec x prev) as [->|Hxp]; [rewrite Hpv; exact Hrm|rewrite <- (Hn x Hxp); exact Hxr].
    + exact Hxm.
  - assert (Hxn : x <> n) by (intros ->; rewrite Hpr in Hxr; discriminate).
    apply (reachf_same (nxf s) (nxf s') (fun _ => True)); [|tauto|exact I|].
    + intros y _. unfold nxf. destruct (N.eq_dec y n) as [->|Hy]; [exact Hpp|rewrite (Hn y Hy); reflexivity].
    + apply HR. split; [apply Hi; exact Hxi|rewrite <- (Hn x Hxn); exact Hxr].
  - (* replace: every path through old now goes old -> new -> old's former successor *)
    assert (Hno : new <> old) by congruence.
    assert (Hlo : live s old) by (split; [exact Hoi|rewrite Hov; exact Hrm]).
    assert (Hxo : x <> old) by (intros ->; rewrite Hpr in Hxr; discriminate).
    assert (Hre : forall a b, reachf (nxf s) a b -> reachf (nxf s') a b).
    { intros a b. apply (reachf_ins (nxf s) (nxf s') old new).
      - intros y Hy. unfold nxf. rewrite (Hn y Hy). reflexivity.
      - exact Hpp.
      - exact Hn0.
      - exact Hno.
      - unfold nxf. rewrite Hnew, Hov. reflexivity. }
    destruct (proj1 (Hi x) Hxi) as [Hxs| ->].
    + apply Hre. apply HR. split; [exact Hxs|rewrite <- (Hn x Hxo); exact Hxr].
    + eapply reachf_trans; [apply Hre; apply HR; exact Hlo|apply reachf_step; [exact Hpp|exact Hn0]].
Qed.

Lemma R_exec (s : st) c : Inv2 s -> R s -> R (fst (exec hloc hloc_eqb (hprog C) c s)).
Proof.
  intros HI HR. destruct c as [t|t].
  - apply (R_kind s _ HI HR). apply (step_kind C isB s t HI).
  - unfold exec. change (sthr hloc (hprog C) s t) with (THr C s t). rewrite (J_buf C isB s HI t). exact HR.
Qed.

Theorem lfht_reachable_all_schedules : forall cs s, Inv2 s -> R s ->
  let s' := fst (run hloc hloc_eqb (hprog C) cs s) in Inv2 s' /\ R s'.
Proof.
  intros cs. induction cs as [|c cs IH]; intros s HI HR; cbn [run]; [split; assumption|].
  pose proof (Inv2_exec C isB Hbkt s c HI) as H1. pose proof (R_exec s c HI HR) as H2.
  destruct (exec hloc hloc_eqb (hprog C) c s) as [s1 e]. cbn [fst] in H1, H2.
  specialize (IH s1 H1 H2). cbv zeta in IH. destruct (run hloc hloc_eqb (hprog C) cs s1) as [s2 es]. exact IH.
Qed.
End RCH.
Print Assumptions lfht_reachable_all_schedules.
