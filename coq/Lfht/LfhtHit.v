(* C05: a successful lookup is justified at its linearisation point.  cds_lfht_lookup answers with a node only through the program point that has just loaded that
   node's next word and found it neither removed nor a bucket, with the requested reverse hash and key: at that very instant the node is in the table - inserted and
   not logically removed.  (The other half - a node that stays resident is never missed - is LfhtFind.v.) *)
From Coq Require Import List Arith NArith Bool Lia.
Import ListNotations.
Require Import Urcu.Base.MachD Urcu.Lfht.Lfht Urcu.Lfht.LfhtSorted Urcu.Lfht.LfhtReach Urcu.Lfht.LfhtStep Urcu.Lfht.LfhtKinds Urcu.Lfht.LfhtRch.
Local Open Scope N_scope.

Section HIT.
Variable C : cfg.
Variable isB : N -> bool.
Notation st := (state hloc (hprog C)).
Notation Inv2 := (Inv2 C isB).
Notation insd := (insd C).
Notation nxw := (nxw C).

(* the step that makes a lookup stand on its answer *)
Theorem lookup_hit_justified (s : st) t node rhh k : Inv2 s -> PCr C s t = L_Node node rhh k ->
  let s' := fst (exec hloc hloc_eqb (hprog C) (Step t) s) in
  forall n nx, PCr C s' t = L_Assert n nx ->
  n = node /\ nx = nxw s node /\ insd s node /\ node <> 0 /\ is_removed (nxw s node) = false /\ is_bucket (nxw s node) = false /\ rh C node = rhh /\ key C node = k.
Proof.
  intros HI Hpc s' n nx H. unfold s' in H. rewrite (exec_shape2 C isB s t HI) in H. cbv zeta in H.
  unfold PCr in Hpc. set (p := tpc _ _ (THr C s t)) in *.
  assert (Ha : hact p = ALoad _ (HNext node)) by (unfold hact; rewrite Hpc; reflexivity).
  rewrite Ha in H. cbn [eff2] in H. unfold PCr in H. rewrite THr_same in H. cbn [tpc mkts2] in H.
  change (smem hloc (hprog C) s (HNext node)) with (nxw s node) in H.
  unfold hnext in H. rewrite Hpc in H.
  destruct (negb (is_removed (nxw s node)) && negb (is_bucket (nxw s node)) && (rh C node =? rhh) && (key C node =? k)) eqn:Ec; cbn [hcur] in H.
  - inversion H; subst. apply andb_prop in Ec. destruct Ec as [Ec Ek]. apply andb_prop in Ec. destruct Ec as [Ec Er]. apply andb_prop in Ec. destruct Ec as [E1 E2].
    apply negb_true_iff in E1. apply negb_true_iff in E2. apply N.eqb_eq in Er. apply N.eqb_eq in Ek.
    pose proof (J_li C isB s HI t) as Hli. unfold PCr in Hli. fold p in Hli. rewrite Hpc in Hli. destruct Hli as [Hn0 _]. cbn in Hn0.
    assert (Hi : insd s n).
    { destruct (J_cr C isB s HI t n) as [E|Hi]; [unfold PCr; fold p; rewrite Hpc; cbn; tauto|contradiction|exact Hi]. }
    repeat split; assumption.
  - exfalso. unfold lookup_at in H. destruct (ptr (nxw s node) =? 0); [discriminate|]. destruct (rhh <? rh C (ptr (nxw s node))); discriminate.
Qed.

(* the answer of a lookup is that node or nothing: a non-null L_Ret is only entered from L_Assert *)
Lemma ret_from_assert (p : hst) r n : hcur (hnext C p r) = L_Ret n -> n <> 0 -> exists nx, hcur p = L_Assert n nx.
Proof.
  intros H Hn. unfold hnext in H. destruct (hcur p) eqn:Ep; cbn [hcur] in H;
    try (destruct (htodo p) as [|[]]; cbn [hcur] in H; try discriminate; try (rewrite Ep in H; discriminate));
    unfold add_at, dup_at, lookup_at, gc_at, rgc_at, repl_at, repl_start in H;
    repeat match type of H with context [if ?c then _ else _] => destruct c end; cbn [hcur] in H; try discriminate;
    try (inversion H; subst; contradiction).
  all: inversion H; subst; eexists; reflexivity.
Qed.
End HIT.
Print Assumptions lookup_hit_justified.
