(* scratch: the split-ordered list stays sorted by reverse hash under every interleaving of add / del / lookup *)
From Coq Require Import List Arith NArith Bool Lia.
Import ListNotations.
Require Import Urcu.Base.MachD Urcu.Lfht.Lfht.
Local Open Scope N_scope.

(* ---- flag arithmetic ---- *)
Lemma ptr_shiftr w : ptr w = N.shiftr w 3.
Proof. unfold ptr. rewrite N.shiftr_div_pow2. reflexivity. Qed.
Lemma ptr_lor_small w f : f < 8 -> ptr (N.lor w f) = ptr w.
Proof.
  intros Hf. rewrite !ptr_shiftr, N.shiftr_lor.
  replace (N.shiftr f 3) with 0; [apply N.lor_0_r|]. rewrite N.shiftr_div_pow2. symmetry. apply N.div_small. exact Hf.
Qed.
Lemma ptr_mkp id f : f < 8 -> ptr (mkp id f) = id.
Proof. intros Hf. unfold ptr, mkp. rewrite N.mul_comm, N.div_add_l by lia. rewrite N.div_small by exact Hf. lia. Qed.
Lemma ptr_clr w : ptr (clr w) = ptr w.
Proof. unfold clr. rewrite <- (N.add_0_r (8 * ptr w)). change (8 * ptr w + 0) with (mkp (ptr w) 0). apply ptr_mkp. lia. Qed.
Lemma ptr_clr_b w : ptr (clr w + BUCKET) = ptr w.
Proof. unfold clr. change (8 * ptr w + BUCKET) with (mkp (ptr w) BUCKET). apply ptr_mkp. unfold BUCKET. lia. Qed.

Section SORTED.
Variable C : cfg.
Variable sz0 : N.
(* split ordering: a node is never ordered before the bucket its hash selects *)
Hypothesis Hbk : forall node, rh C (bucket C (N.land (hashof C node) (sz0 - 1))) <= rh C node.

Notation st := (state hloc (hprog C)).
Definition M (s : st) := smem _ _ s.
Definition TH (s : st) (t : nat) : tstate hloc (hprog C) := sthr _ _ s t.
Definition PC (s : st) t : hpc := hcur (tpc _ _ (TH s t)).
Definition TODO (s : st) t : list hop := htodo (tpc _ _ (TH s t)).

Definition sorted (s : st) : Prop :=
  forall x, ptr (M s (HNext x)) <> 0 -> rh C x <= rh C (ptr (M s (HNext x))).

Definition le_next (a w : N) : Prop := ptr w <> 0 -> rh C a <= rh C (ptr w).

(* what each thread knows at each program point (facts about the immutable reverse hashes only) *)
Definition LI (p : hpc) : Prop :=
  match p with
  | A_Size node hash _ => hash = hashof C node
  | A_Start node b _ => rh C b <= rh C node
  | A_Iter node b _ prev iter => rh C b <= rh C node /\ rh C prev <= rh C node /\ ptr iter <> 0 /\ rh C (ptr iter) <= rh C node
  | A_Dup node b _ prev iter _ => rh C b <= rh C node /\ rh C prev <= rh C node /\ le_next node iter
  | A_Cas node b _ prev iter => rh C b <= rh C node /\ rh C prev <= rh C node /\ le_next node iter
  | A_Gc node b _ prev iter next => rh C b <= rh C node /\ ptr iter <> 0 /\ le_next (ptr iter) next
  | G_Iter node b prev iter => ptr iter <> 0
  | G_Cas node b prev iter next => ptr iter <> 0 /\ le_next (ptr iter) next
  | D_Xchg node v => le_next node v
  | L_Assert node nx => le_next node nx
  | R_Size old new onext | R_Cas old new onext _ => le_next old onext /\ rh C new = rh C old
  | RG_Iter _ _ _ _ iter => ptr iter <> 0
  | RG_Cas _ _ _ _ iter next => ptr iter <> 0 /\ le_next (ptr iter) next
  | _ => True
  end.

Definition op_ok (o : hop) : Prop := match o with OAdd node hash _ => hash = hashof C node | _ => True end.

Record Inv (s : st) : Prop := {
  I_size : M s HSize = sz0;
  I_sorted : sorted s;
  I_li : forall t, LI (PC s t);
  I_buf : forall t, tbuf _ _ (TH s t) = [];
  I_ops : forall t, Forall op_ok (TODO s t);
  I_fn : forall t, le_next (found (tpc _ _ (TH s t))) (fnext (tpc _ _ (TH s t)))      (* the iterator left by a lookup: node and a next word read from it *)
}.

Notation tup := (tupd hloc (hprog C)).
Definition mkst (m : mem hloc) (th : nat -> tstate hloc (hprog C)) : st := {| smem := m; sthr := th |}.
Definition mkts (p : hst) : tstate hloc (hprog C) := {| tpc := (p : pst hloc (hprog C)); tbuf := [] |}.
Definition updm (m : mem hloc) l v := upd hloc hloc_eqb m l v.

Lemma hloc_eqb_spec a b : reflect (a = b) (hloc_eqb a b).
Proof. destruct a as [|n|n], b as [|m|m]; cbn; try (constructor; congruence); destruct (N.eqb_spec n m); constructor; congruence. Qed.

Lemma sorted_upd (s : st) th x w : sorted s -> le_next x w -> sorted (mkst (updm (smem _ _ s) (HNext x) w) th).
Proof.
  intros Hs Hw y. unfold M; cbn. unfold updm. destruct (N.eq_dec x y) as [->|Hne].
  - rewrite (upd_same hloc hloc_eqb hloc_eqb_spec). exact Hw.
  - rewrite (upd_other hloc hloc_eqb hloc_eqb_spec) by congruence. apply Hs.
Qed.

(* the generic shape of a step of thread t: new memory m', new local state p' *)
Lemma Inv_upd (s : st) t m' (p' : hst) :
  Inv s ->
  m' HSize = sz0 ->
  (forall x, ptr (m' (HNext x)) <> 0 -> rh C x <= rh C (ptr (m' (HNext x)))) ->
  LI (hcur p') -> Forall op_ok (htodo p') -> le_next (found p') (fnext p') ->
  Inv (mkst m' (tup (sthr _ _ s) t (mkts p'))).
Proof.
  intros [A B Cc D E F] Hsz Hso Hli Hops Hfn. constructor.
  - exact Hsz.
  - exact Hso.
  - intros u. unfold PC, TH; cbn. destruct (Nat.eq_dec u t) as [->|Hne]; [rewrite tupd_same; exact Hli|rewrite tupd_other by exact Hne; apply Cc].
  - intros u. unfold TH; cbn. destruct (Nat.eq_dec u t) as [->|Hne]; [rewrite tupd_same; reflexivity|rewrite tupd_other by exact Hne; apply D].
  - intros u. unfold TODO, TH; cbn. destruct (Nat.eq_dec u t) as [->|Hne]; [rewrite tupd_same; exact Hops|rewrite tupd_other by exact Hne; apply E].
  - intros u. unfold TH; cbn. destruct (Nat.eq_dec u t) as [->|Hne]; [rewrite tupd_same; exact Hfn|rewrite tupd_other by exact Hne; apply F].
Qed.

(* effect of an action on memory when the store buffer is empty, and the value it returns *)
Definition eff (m : mem hloc) (a : act hloc) : mem hloc * N :=
  match a with
  | ALoad _ l => (m, m l)
  | AXchg _ l v => (updm m l v, m l)
  | ACas _ l e n => ((if N.eqb (m l) e then updm m l n else m), m l)
  | AFor _ l v => (updm m l (N.lor (m l) v), 0)
  | _ => (m, 0)
  end.

Lemma hact_no_store p : forall l v, hact p <> AStore _ l v.
Proof. intros l v. unfold hact. destruct (hcur p); try discriminate; try (destruct (htodo p) as [|[]]; discriminate). Qed.

Lemma exec_shape (s : st) t : Inv s ->
  let p := tpc _ _ (TH s t) in
  fst (exec hloc hloc_eqb (hprog C) (Step t) s) =
    match hact p with
    | ADone _ => s
    | a => let '(m1, r) := eff (smem _ _ s) a in
           mkst (drain hloc hloc_eqb m1 (hpost C p r)) (tup (sthr _ _ s) t (mkts (hnext C p r)))
    end.
Proof.
  intros HI p. unfold exec, tstep. change (sthr hloc (hprog C) s t) with (TH s t). fold p.
  rewrite (I_buf s HI t). cbn [pact pnext ppost hprog buf_lookup drain].
  pose proof (hact_no_store p) as Hns.
  destruct (hact p) eqn:Ea; cbn [eff fst snd]; try reflexivity.
  destruct (Hns l v eq_refl).
Qed.

Lemma is_end_ptr w : is_end w = true -> ptr w = 0.
Proof. unfold is_end. intros H. apply N.eqb_eq. exact H. Qed.
Lemma is_end_ptr_f w : is_end w = false -> ptr w <> 0.
Proof. unfold is_end. intros H. apply N.eqb_neq. exact H. Qed.

Lemma le_next_clr a w : le_next a w -> le_next a (clr w).
Proof. unfold le_next. rewrite ptr_clr. tauto. Qed.

(* memory after a step whose successor may be the insertion cmpxchg (which is preceded by the plain store node->next = iter) *)
Lemma drain_ins (m : mem hloc) n v l : (forall k, l <> HIns k) -> drain hloc hloc_eqb m [(HIns n, v)] l = m l.
Proof. intros Hl. cbn [drain]. apply (upd_other hloc hloc_eqb hloc_eqb_spec). intros E. apply (Hl n). symmetry. exact E. Qed.

Lemma le_next_same a a' w : rh C a' = rh C a -> le_next a w -> le_next a' w.
Proof. unfold le_next. intros E H Hn. rewrite E. apply H. exact Hn. Qed.

(* the plain / ghost writes folded into a step: nothing, a ghost mark, or the initialisation of the forward pointer of a node the thread is about to link *)
Lemma hpost_cases (p : hst) r : LI (hcur (hnext C p r)) ->
  hpost C p r = [] \/ (exists n, hpost C p r = [(HIns n, 1)]) \/ (exists n v, hpost C p r = [(HNext n, v)] /\ le_next n v).
Proof.
  intros Hli. unfold hpost.
  assert (Hgen : (match hcur (hnext C p r) with
                  | A_Cas node _ _ _ iter => [(HNext node, clr iter)] | R_Cas _ new onext _ => [(HNext new, onext)] | _ => [] end = [] \/
                 (exists n, match hcur (hnext C p r) with
                  | A_Cas node _ _ _ iter => [(HNext node, clr iter)] | R_Cas _ new onext _ => [(HNext new, onext)] | _ => [] end = [(HIns n, 1)]) \/
                 (exists n v, match hcur (hnext C p r) with
                  | A_Cas node _ _ _ iter => [(HNext node, clr iter)] | R_Cas _ new onext _ => [(HNext new, onext)] | _ => [] end = [(HNext n, v)] /\ le_next n v))).
  { destruct (hcur (hnext C p r)) eqn:E; try (left; reflexivity); right; right.
    - cbn in Hli. destruct Hli as (_ & _ & Hle). exists node, (clr iter). split; [reflexivity|apply le_next_clr; exact Hle].
    - cbn in Hli. destruct Hli as (Hle & Hrh). exists new, onext. split; [reflexivity|apply (le_next_same old new onext Hrh Hle)]. }
  destruct (hcur p) eqn:Ep; try exact Hgen.
  - (* A_Cas *) destruct (r =? iter); [right; left; exists node; reflexivity|left; reflexivity].
  - (* R_Cas *) destruct (r =? onext) eqn:Eq; [right; left; exists new; reflexivity|].
    destruct (is_removed r) eqn:Er; [left; reflexivity|]. right; right. exists new, r. split; [reflexivity|].
    unfold hnext in Hli. rewrite Ep, Eq in Hli. cbn [hcur] in Hli. unfold repl_at in Hli. rewrite Er in Hli. cbn in Hli.
    destruct Hli as (Hle & Hrh). apply (le_next_same old new r Hrh Hle).
Qed.

Lemma sorted_post (m : mem hloc) p r :
  (forall x, ptr (m (HNext x)) <> 0 -> rh C x <= rh C (ptr (m (HNext x)))) ->
  LI (hcur (hnext C p r)) ->
  forall x, ptr (drain hloc hloc_eqb m (hpost C p r) (HNext x)) <> 0 ->
            rh C x <= rh C (ptr (drain hloc hloc_eqb m (hpost C p r) (HNext x))).
Proof.
  intros Hs Hli x. destruct (hpost_cases p r Hli) as [E|[[n E]|(n & v & E & Hle)]]; rewrite E.
  - cbn [drain]. apply Hs.
  - rewrite drain_ins by discriminate. apply Hs.
  - cbn [drain]. destruct (N.eq_dec n x) as [->|Hne];
      [rewrite (upd_same hloc hloc_eqb hloc_eqb_spec); exact Hle|rewrite (upd_other hloc hloc_eqb hloc_eqb_spec) by congruence; apply Hs].
Qed.

Lemma size_post (m : mem hloc) p r : drain hloc hloc_eqb m (hpost C p r) HSize = m HSize.
Proof.
  assert (H : forall l : list (hloc * N), (forall a v, In (a, v) l -> a <> HSize) -> drain hloc hloc_eqb m l HSize = m HSize).
  { intros l. generalize m. induction l as [|[a v] l IH]; intros m' Hl; cbn [drain]; [reflexivity|].
    rewrite IH by (intros a' v' Hin; apply (Hl a' v'); right; exact Hin). apply (upd_other hloc hloc_eqb hloc_eqb_spec). apply (Hl a v). left; reflexivity. }
  apply H. intros a v. unfold hpost.
  destruct (hcur p); try destruct (hcur (hnext C p r));
    repeat match goal with |- context [if ?c then _ else _] => destruct c end; cbn [In]; intros Hin;
    repeat match type of Hin with _ \/ _ => destruct Hin as [Hin|Hin] end; try contradiction; inversion Hin; discriminate.
Qed.

(* steps that do not write memory themselves *)
Lemma Inv_nowrite (s : st) t (p : hst) r : Inv s ->
  LI (hcur (hnext C p r)) -> Forall op_ok (htodo (hnext C p r)) -> le_next (found (hnext C p r)) (fnext (hnext C p r)) ->
  Inv (mkst (drain hloc hloc_eqb (smem _ _ s) (hpost C p r)) (tup (sthr _ _ s) t (mkts (hnext C p r)))).
Proof.
  intros HI Hli Hops Hfn. apply Inv_upd; try assumption.
  - rewrite size_post. apply (I_size s HI).
  - apply sorted_post; [apply (I_sorted s HI)|exact Hli].
Qed.

Lemma LI_add_at node b u prev r :
  rh C b <= rh C node -> rh C prev <= rh C node -> LI (add_at C node b u prev r).
Proof.
  intros Hb Hp. unfold add_at. destruct (is_end r) eqn:Ee.
  - cbn. repeat split; try assumption. intros Hn. destruct (Hn (is_end_ptr r Ee)).
  - destruct (N.ltb_spec (rh C node) (rh C (ptr r))) as [Hlt|Hge]; cbn.
    + repeat split; try assumption. intros _. lia.
    + repeat split; try assumption. apply is_end_ptr_f. exact Ee.
Qed.

Lemma LI_dup_at node b u prev iter cur :
  rh C b <= rh C node -> rh C prev <= rh C node -> le_next node iter -> LI (dup_at C node b u prev iter cur).
Proof.
  intros Hb Hp Hle. unfold dup_at. destruct (is_end cur); [cbn; auto|]. destruct (rh C node <? rh C (ptr cur)); cbn; auto.
Qed.

Lemma LI_gc_at node b prev r : LI (gc_at C node b prev r).
Proof.
  unfold gc_at. destruct (is_end r) eqn:Ee; [exact I|]. destruct (rh C node <? rh C (ptr r)); [exact I|]. cbn. apply is_end_ptr_f. exact Ee.
Qed.

Lemma LI_rgc_at new b old prev r : LI (rgc_at C new b old prev r).
Proof.
  unfold rgc_at. destruct (is_end r) eqn:Ee; [exact I|]. destruct (rh C new <? rh C (ptr r)); [exact I|]. cbn. apply is_end_ptr_f. exact Ee.
Qed.

Lemma LI_lookup_at node rhh k : LI (lookup_at C node rhh k).
Proof. unfold lookup_at. destruct (node =? 0); [exact I|]. destruct (rhh <? rh C node); exact I. Qed.

Lemma todo_same (p : hst) r : hcur p <> H_Idle -> htodo (hnext C p r) = htodo p.
Proof.
  intros Hne. unfold hnext. destruct (hcur p); try contradiction; cbn [htodo];
    repeat match goal with |- context [if ?c then _ else _] => destruct c end; reflexivity.
Qed.

(* the iterator (found, fnext) changes only when a lookup returns a node, with the word it read from that node *)
Lemma fn_next (p : hst) r : le_next (found p) (fnext p) -> LI (hcur p) -> le_next (found (hnext C p r)) (fnext (hnext C p r)).
Proof.
  intros Hfn Hli. unfold hnext. destruct (hcur p) eqn:Ep; cbn [Lfht.found Lfht.fnext];
    repeat match goal with |- context [match ?c with _ => _ end] => destruct c end; cbn [Lfht.found Lfht.fnext]; try exact Hfn.
  all: try (intros Hz; exfalso; apply Hz; reflexivity).
  all: try (cbn in Hli; exact Hli).
Qed.

Lemma sorted_cas (s : st) prev iter newv :
  sorted s -> (smem _ _ s (HNext prev) = iter -> le_next prev newv) ->
  forall x, ptr ((if N.eqb (smem _ _ s (HNext prev)) iter then updm (smem _ _ s) (HNext prev) newv else smem _ _ s) (HNext x)) <> 0 ->
            rh C x <= rh C (ptr ((if N.eqb (smem _ _ s (HNext prev)) iter then updm (smem _ _ s) (HNext prev) newv else smem _ _ s) (HNext x))).
Proof.
  intros Hs Hle x. destruct (N.eqb_spec (smem _ _ s (HNext prev)) iter) as [E|E]; [|apply Hs].
  unfold updm. destruct (N.eq_dec prev x) as [->|Hne].
  - rewrite (upd_same hloc hloc_eqb hloc_eqb_spec). apply Hle. exact E.
  - rewrite (upd_other hloc hloc_eqb hloc_eqb_spec) by congruence. apply Hs.
Qed.

Lemma Inv_step (s : st) t : Inv s -> Inv (fst (exec hloc hloc_eqb (hprog C) (Step t) s)).
Proof.
  intros HI. rewrite (exec_shape s t HI). cbv zeta.
  pose proof (I_li s HI t) as Hli. pose proof (I_ops s HI t) as Hops. unfold PC in Hli. unfold TODO in Hops.
  pose proof (I_sorted s HI) as Hso. pose proof (I_size s HI) as Hsz. unfold M in Hsz.
  set (p := tpc _ _ (TH s t)) in *.
  assert (Htodo : forall r, hcur p <> H_Idle -> Forall op_ok (htodo (hnext C p r))) by (intros r Hne; rewrite todo_same by exact Hne; exact Hops).
  assert (Hfn : forall r, le_next (found (hnext C p r)) (fnext (hnext C p r))) by (intros r; apply fn_next; [apply (I_fn s HI t)|exact Hli]).
  unfold hact. destruct (hcur p) eqn:Epc; cbn [eff fst snd].
  - (* Idle *)
    destruct (htodo p) as [|[node hash u|hh rhh k| |new] rest] eqn:Etd; [exact HI| | | |];
      (apply Inv_nowrite; [exact HI| | |apply Hfn]); unfold hnext; rewrite Epc, Etd; cbn [hcur htodo LI];
      try exact I; try (inversion Hops; assumption).
    (* replace: the checks before any memory access *)
    unfold repl_start. pose proof (I_fn s HI t) as Hf. fold p in Hf.
    destruct (found p =? 0); [exact I|]. destruct (N.eqb_spec (rh C (found p)) (rh C new)) as [Erh|_]; cbn [negb]; [|exact I].
    destruct (key C (found p) =? key C new); cbn [negb]; [|exact I]. cbn [LI]. split; [exact Hf|symmetry; exact Erh].
  - (* L_Size *) apply Inv_nowrite; [exact HI| |apply Htodo; discriminate|apply Hfn]. unfold hnext; rewrite Epc; cbn. exact I.
  - apply Inv_nowrite; [exact HI| |apply Htodo; discriminate|apply Hfn]. unfold hnext; rewrite Epc; cbn [hcur]. apply LI_lookup_at.
  - apply Inv_nowrite; [exact HI| |apply Htodo; discriminate|apply Hfn]. unfold hnext; rewrite Epc.
    destruct (_ && _); cbn [hcur]; [exact (Hso node)|apply LI_lookup_at].
  - apply Inv_nowrite; [exact HI| |apply Htodo; discriminate|apply Hfn]. unfold hnext; rewrite Epc; cbn. exact I.
  - (* L_Ret *) apply Inv_nowrite; [exact HI| |apply Htodo; discriminate|apply Hfn]. unfold hnext; rewrite Epc. destruct (node =? 0); cbn; exact I.
  - (* A_Size *)
    apply Inv_nowrite; [exact HI| |apply Htodo; discriminate|apply Hfn]. unfold hnext; rewrite Epc; cbn [hcur LI].
    cbn in Hli. rewrite Hli, Hsz. apply Hbk.
  - (* A_Start *)
    apply Inv_nowrite; [exact HI| |apply Htodo; discriminate|apply Hfn]. unfold hnext; rewrite Epc; cbn [hcur]. cbn in Hli.
    apply LI_add_at; [exact Hli|exact Hli].
  - (* A_Iter *)
    apply Inv_nowrite; [exact HI| |apply Htodo; discriminate|apply Hfn]. unfold hnext; rewrite Epc. cbn in Hli. destruct Hli as (L1 & L2 & L3 & L4).
    set (r := smem hloc (hprog C) s (HNext (ptr iter))).
    destruct (is_removed r).
    + cbn. split; [exact L1|]. split; [exact L3|]. exact (Hso (ptr iter)).
    + destruct (u && negb (is_bucket r) && (rh C (ptr iter) =? rh C node)) eqn:Eu; cbn [hcur].
      * apply LI_dup_at; try assumption. apply andb_true_iff in Eu as [_ Eq]. apply N.eqb_eq in Eq. intros _. lia.
      * apply LI_add_at; assumption.
  - (* A_Dup *)
    apply Inv_nowrite; [exact HI| |apply Htodo; discriminate|apply Hfn]. unfold hnext; rewrite Epc. cbn in Hli. destruct Hli as (L1 & L2 & L3).
    destruct (_ && _); cbn [hcur]; [exact I|apply LI_dup_at; assumption].
  - apply Inv_nowrite; [exact HI| |apply Htodo; discriminate|apply Hfn]. unfold hnext; rewrite Epc; cbn. exact I.
  - (* A_Cas *)
    cbn in Hli. destruct Hli as (L1 & L2 & L3).
    apply Inv_upd; try exact HI.
    + unfold hpost. rewrite Epc. destruct (_ =? iter); [rewrite drain_ins by discriminate; unfold updm; rewrite (upd_other hloc hloc_eqb hloc_eqb_spec) by discriminate|cbn [drain]]; exact Hsz.
    + intros x. unfold hpost. rewrite Epc.
      pose proof (sorted_cas s prev iter (if is_bucket iter then mkp node BUCKET else mkp node 0) Hso) as Hc.
      assert (Hle : smem hloc (hprog C) s (HNext prev) = iter -> le_next prev (if is_bucket iter then mkp node BUCKET else mkp node 0)).
      { intros _. unfold le_next. destruct (is_bucket iter); rewrite ptr_mkp by (unfold BUCKET; lia); intros _; exact L2. }
      specialize (Hc Hle x).
      destruct (smem hloc (hprog C) s (HNext prev) =? iter); [rewrite drain_ins by discriminate|cbn [drain]]; exact Hc.
    + unfold hnext; rewrite Epc. destruct (_ =? iter); cbn; [exact I|exact L1].
    + apply Htodo; discriminate.
    + apply Hfn.
  - (* A_Gc *)
    cbn in Hli. destruct Hli as (L1 & L2 & L3).
    assert (Hpost : hpost C p (smem hloc (hprog C) s (HNext prev)) = []) by (unfold hpost, hnext; rewrite Epc; reflexivity).
    rewrite Hpost. cbn [drain]. apply Inv_upd; try exact HI.
    + destruct (_ =? iter); [unfold updm; rewrite (upd_other hloc hloc_eqb hloc_eqb_spec) by discriminate|]; exact Hsz.
    + apply sorted_cas; [exact Hso|]. intros E. unfold le_next.
      assert (Hpi : rh C prev <= rh C (ptr iter)) by (pose proof (Hso prev) as Hp; unfold M in Hp; rewrite E in Hp; exact (Hp L2)).
      destruct (is_bucket iter); rewrite ?ptr_clr_b, ?ptr_clr; intros Hn; specialize (L3 Hn); lia.
    + unfold hnext; rewrite Epc; cbn. exact L1.
    + apply Htodo; discriminate.
    + apply Hfn.
  - apply Inv_nowrite; [exact HI| |apply Htodo; discriminate|apply Hfn]. unfold hnext; rewrite Epc; cbn. exact I.
  - (* D_Size *) apply Inv_nowrite; [exact HI| |apply Htodo; discriminate|apply Hfn]. unfold hnext; rewrite Epc. destruct (node =? 0); cbn; exact I.
  - apply Inv_nowrite; [exact HI| |apply Htodo; discriminate|apply Hfn]. unfold hnext; rewrite Epc. destruct (is_removed _); cbn; exact I.
  - (* D_Or *)
    assert (Hpost : hpost C p 0 = []) by (unfold hpost, hnext; rewrite Epc; reflexivity).
    rewrite Hpost. cbn [drain]. apply Inv_upd; try exact HI.
    + unfold updm; rewrite (upd_other hloc hloc_eqb hloc_eqb_spec) by discriminate; exact Hsz.
    + intros x. unfold updm. destruct (N.eq_dec node x) as [->|Hne].
      * rewrite (upd_same hloc hloc_eqb hloc_eqb_spec). rewrite ptr_lor_small by (unfold REMOVED; lia). apply Hso.
      * rewrite (upd_other hloc hloc_eqb hloc_eqb_spec) by congruence. apply Hso.
    + unfold hnext; rewrite Epc; cbn. exact I.
    + apply Htodo; discriminate.
    + apply Hfn.
  - (* G_Start *) apply Inv_nowrite; [exact HI| |apply Htodo; discriminate|apply Hfn]. unfold hnext; rewrite Epc; cbn [hcur]. apply LI_gc_at.
  - (* G_Iter *)
    apply Inv_nowrite; [exact HI| |apply Htodo; discriminate|apply Hfn]. unfold hnext; rewrite Epc. cbn in Hli.
    destruct (is_removed _); cbn [hcur]; [cbn; split; [exact Hli|exact (Hso (ptr iter))]|apply LI_gc_at].
  - (* G_Cas *)
    cbn in Hli. destruct Hli as (L2 & L3).
    assert (Hpost : hpost C p (smem hloc (hprog C) s (HNext prev)) = []) by (unfold hpost, hnext; rewrite Epc; reflexivity).
    rewrite Hpost. cbn [drain]. apply Inv_upd; try exact HI.
    + destruct (_ =? iter); [unfold updm; rewrite (upd_other hloc hloc_eqb hloc_eqb_spec) by discriminate|]; exact Hsz.
    + apply sorted_cas; [exact Hso|]. intros E. unfold le_next.
      assert (Hpi : rh C prev <= rh C (ptr iter)) by (pose proof (Hso prev) as Hp; unfold M in Hp; rewrite E in Hp; exact (Hp L2)).
      destruct (is_bucket iter); rewrite ?ptr_clr_b, ?ptr_clr; intros Hn; specialize (L3 Hn); lia.
    + unfold hnext; rewrite Epc; cbn. exact I.
    + apply Htodo; discriminate.
    + apply Hfn.
  - apply Inv_nowrite; [exact HI| |apply Htodo; discriminate|apply Hfn]. unfold hnext; rewrite Epc; cbn. exact I.
  - (* D_Load2 *) apply Inv_nowrite; [exact HI| |apply Htodo; discriminate|apply Hfn]. unfold hnext; rewrite Epc; cbn. exact (Hso node).
  - (* D_Xchg *)
    assert (Hpost : hpost C p (smem hloc (hprog C) s (HNext node)) = []) by (unfold hpost, hnext; rewrite Epc; reflexivity).
    rewrite Hpost. cbn [drain]. cbn in Hli. apply Inv_upd; try exact HI.
    + unfold updm; rewrite (upd_other hloc hloc_eqb hloc_eqb_spec) by discriminate; exact Hsz.
    + intros x. unfold updm. destruct (N.eq_dec node x) as [->|Hne].
      * rewrite (upd_same hloc hloc_eqb hloc_eqb_spec). rewrite ptr_lor_small by (unfold OWNER; lia). exact Hli.
      * rewrite (upd_other hloc hloc_eqb hloc_eqb_spec) by congruence. apply Hso.
    + unfold hnext; rewrite Epc; cbn. exact I.
    + apply Htodo; discriminate.
    + apply Hfn.
  - apply Inv_nowrite; [exact HI| |apply Htodo; discriminate|apply Hfn]. unfold hnext; rewrite Epc; cbn. exact I.
  - (* R_Size *)
    apply Inv_nowrite; [exact HI| |apply Htodo; discriminate|apply Hfn]. unfold hnext; rewrite Epc; cbn [hcur]. unfold repl_at.
    destruct (is_removed onext); cbn; [exact I|exact Hli].
  - (* R_Cas *)
    cbn in Hli. destruct Hli as (L1 & L2).
    assert (Hnli : LI (hcur (hnext C p (smem hloc (hprog C) s (HNext old))))).
    { unfold hnext; rewrite Epc. destruct (_ =? onext); cbn [hcur]; [exact I|]. unfold repl_at. destruct (is_removed _); cbn; [exact I|]. split; [exact (Hso old)|exact L2]. }
    apply Inv_upd; try exact HI.
    + rewrite size_post. destruct (_ =? onext); [unfold updm; rewrite (upd_other hloc hloc_eqb hloc_eqb_spec) by discriminate|]; exact Hsz.
    + apply sorted_post; [|exact Hnli]. apply sorted_cas; [exact Hso|]. intros _. unfold le_next. rewrite ptr_mkp by (unfold REMOVED, OWNER; lia). intros _. lia.
    + exact Hnli.
    + apply Htodo; discriminate.
    + apply Hfn.
  - (* RG_Start *) apply Inv_nowrite; [exact HI| |apply Htodo; discriminate|apply Hfn]. unfold hnext; rewrite Epc; cbn [hcur]. apply LI_rgc_at.
  - (* RG_Iter *)
    apply Inv_nowrite; [exact HI| |apply Htodo; discriminate|apply Hfn]. unfold hnext; rewrite Epc. cbn in Hli.
    destruct (is_removed _); cbn [hcur]; [cbn; split; [exact Hli|exact (Hso (ptr iter))]|apply LI_rgc_at].
  - (* RG_Cas *)
    cbn in Hli. destruct Hli as (L2 & L3).
    assert (Hpost : hpost C p (smem hloc (hprog C) s (HNext prev)) = []) by (unfold hpost, hnext; rewrite Epc; reflexivity).
    rewrite Hpost. cbn [drain]. apply Inv_upd; try exact HI.
    + destruct (_ =? iter); [unfold updm; rewrite (upd_other hloc hloc_eqb hloc_eqb_spec) by discriminate|]; exact Hsz.
    + apply sorted_cas; [exact Hso|]. intros E. unfold le_next.
      assert (Hpi : rh C prev <= rh C (ptr iter)) by (pose proof (Hso prev) as Hp; unfold M in Hp; rewrite E in Hp; exact (Hp L2)).
      destruct (is_bucket iter); rewrite ?ptr_clr_b, ?ptr_clr; intros Hn; specialize (L3 Hn); lia.
    + unfold hnext; rewrite Epc; cbn. exact I.
    + apply Htodo; discriminate.
    + apply Hfn.
  - (* R_Assert *) apply Inv_nowrite; [exact HI| |apply Htodo; discriminate|apply Hfn]. unfold hnext; rewrite Epc; cbn. exact I.
  - (* R_Ret *) apply Inv_nowrite; [exact HI| |apply Htodo; discriminate|apply Hfn]. unfold hnext; rewrite Epc; cbn. exact I.
Qed.

Lemma Inv_exec (s : st) c : Inv s -> Inv (fst (exec hloc hloc_eqb (hprog C) c s)).
Proof.
  intros HI. destruct c as [t|t]; [apply Inv_step; exact HI|].
  unfold exec. change (sthr hloc (hprog C) s t) with (TH s t). rewrite (I_buf s HI t). exact HI.
Qed.

Theorem lfht_sorted_all_schedules : forall cs s, Inv s -> sorted (fst (run hloc hloc_eqb (hprog C) cs s)).
Proof.
  intros cs. induction cs as [|c cs IH]; intros s HI; cbn [run]; [apply (I_sorted s HI)|].
  pose proof (Inv_exec s c HI) as H1. destruct (exec hloc hloc_eqb (hprog C) c s) as [s1 e]. cbn [fst] in H1.
  specialize (IH s1 H1). destruct (run hloc hloc_eqb (hprog C) cs s1) as [s2 es]. exact IH.
Qed.
End SORTED.
Print Assumptions lfht_sorted_all_schedules.
